// translate-safemath turns core/safemath/safe_math.go into a Lean 4 module (Hive/Gen/C19_SafeMath.lean).
//
// Supported subset: top-level functions over integer types (a type parameter constrained by Integer, or
// the concrete types uint64 / int64 / uint8 / bool) made of `:=`, `var x T = e`, `=`, `if / else if / else`,
// `return v, nil` / `return 0, <expr mentioning ErrIntegerOverflow | ErrIntegerDivisionByZero>`, integer
// literals, + - * / << >> & == != < > <= >= && || !, unary minus, conversions between integer types,
// bits.Mul64, bits.Div64 and lo.Return1.  Anything else is a translation failure (non-zero exit).
//
// Go integers become Lean `Int`s that are kept in range by `IntTy.wrap` after every arithmetic
// operation (semantics in Hive/Base/GoInt.lean).  Mutable locals become `let` shadowing; an `if` that
// only assigns becomes a tuple-valued `if`; an `if` that may return duplicates the rest of the block
// into the branches that fall through.
package main

import (
	"fmt"
	"go/ast"
	"go/parser"
	"go/printer"
	"go/token"
	"os"
	"path/filepath"
	"sort"
	"strconv"
	"strings"
)

type ty string // "T" (generic), "uint64", "int64", "uint8", "bool", "lit" (untyped constant)

type tr struct {
	fset   *token.FileSet
	env    map[string]ty
	out    *strings.Builder
	errs   []string
	gen    bool // function is generic in T
	copies int
	fn     string
	result string          // "res" = (T, error); "bool"; an integer type; "tuple"
	tuple  []ty            // component types of a "tuple" result
	calls  map[string]bool // translated functions this one calls
	tparam string          // name of the function's type parameter ("" if not generic)
	loops  []loopCtx       // enclosing `for` statements (innermost last)
	errVar map[string]string // error variables of `v, err := F(…)` inside the arm of the callee's answer: the Res constructor
}

// loopCtx is what `break` / `continue` / `return` inside the body of a `for` statement need: the state tuple of the loop and
// the continuation that runs the post statement and starts the next iteration.
type loopCtx struct {
	tuple string
	next  func(depth int) string
}

// wrapRet turns the text of a function result into the answer of a loop step when the position is inside a loop body.
func (t *tr) wrapRet(e string) string {
	if len(t.loops) > 0 {
		return "Hive.GoInt.LoopStep.ret (" + e + ")"
	}

	return e
}

// zeroOf is the Lean text of the result a function gives when a loop runs out of fuel (does not terminate).
func (t *tr) zeroOf() string {
	lz := func(k ty) string {
		if k == "bool" {
			return "false"
		}

		return "(0 : Int)"
	}
	switch t.result {
	case "res":
		return "Res.panic"
	case "tuple":
		return "(" + lz(t.tuple[0]) + ", " + lz(t.tuple[1]) + ")"
	}

	return lz(ty(t.result))
}

// sig is the signature of a top-level function of the file (calls between translated functions).
type sig struct {
	generic bool
	params  []ty   // "T" = the callee's type parameter
	result  string // "res" = (int, error); "bool"; an integer type or "T"; "tuple"; "error"; "" = unsupported
	resTy   ty     // value type of a "res" function ("T" or concrete)
	tuple   []ty   // component types of a "tuple" function
}

var sigs = map[string]sig{}

// needsNamed: functions that contain a type switch on the type parameter, and their callers: their Lean definitions take
// the module variable `named_` ("T is a defined type, not one of the predeclared integer types")
var needsNamed = map[string]bool{}

// package-level constants: name -> (Lean text, type; "lit" for untyped constants)
type constDef struct {
	text string
	k    ty
}

var pkgConsts = map[string]constDef{}

// errHelper is a top-level function whose only result is an error and whose body is one `return <error expr>`.
type errHelperDef struct {
	res  string   // "overflow" | "divzero"
	toks []string // postfix rendering of the returned expression
}

var errHelpers = map[string]errHelperDef{}

// named value results of a function: zero-initialised locals
type namedResult struct {
	name string
	k    ty
}

var namedResults = map[string][]namedResult{}

// Go's math constants that bound the integer types
var mathConsts = map[string]string{
	"MaxInt8": "127", "MinInt8": "-128", "MaxUint8": "255", "MaxInt16": "32767", "MinInt16": "-32768", "MaxUint16": "65535",
	"MaxInt32": "2147483647", "MinInt32": "-2147483648", "MaxUint32": "4294967295",
	"MaxInt64": "9223372036854775807", "MinInt64": "-9223372036854775808", "MaxUint64": "18446744073709551615",
	"MaxInt": "9223372036854775807", "MinInt": "-9223372036854775808", "MaxUint": "18446744073709551615",
}

// calleeOf splits `f(…)` / `f[X](…)` into the function name and the explicit type argument (nil if none).
func calleeOf(e *ast.CallExpr) (string, ast.Expr, bool) {
	switch f := e.Fun.(type) {
	case *ast.Ident:
		return f.Name, nil, true
	case *ast.IndexExpr:
		if id, ok := f.X.(*ast.Ident); ok {
			return id.Name, f.Index, true
		}
	}

	return "", nil, false
}

// tyName resolves a type expression: the function's type parameter becomes "T".
func (t *tr) tyName(e ast.Expr) (ty, bool) {
	id, ok := e.(*ast.Ident)
	if !ok {
		return "", false
	}
	if t.tparam != "" && id.Name == t.tparam {
		return "T", true
	}
	if id.Name == "bool" || (isIntTy(ty(id.Name)) && id.Name != "T") {
		return ty(id.Name), true
	}

	return "", false
}

// inst replaces the callee's "T" by the type argument of the call.
func inst(k, targ ty) ty {
	if k == "T" {
		return targ
	}

	return k
}

// callText renders a call of a translated function.  The callee's type argument is the explicit one (`f[T](…)`,
// `f[int64](…)`) or is inferred from the first argument passed for a parameter of type T.
func (t *tr) callText(e *ast.CallExpr) (string, sig, bool) {
	name, targExpr, ok := calleeOf(e)
	if !ok {
		return "", sig{}, false
	}
	if _, shadowed := t.env[name]; shadowed {
		return "", sig{}, false
	}
	sg, ok := sigs[name]
	if !ok || len(e.Args) != len(sg.params) {
		return "", sig{}, false
	}
	var args []string
	var kinds []ty
	for _, a := range e.Args {
		x, k := t.expr(a)
		args = append(args, x)
		kinds = append(kinds, k)
	}
	parts := []string{leanFn(name)}
	namedAt := -1
	if needsNamed[name] {
		namedAt = len(parts)
		parts = append(parts, "false") // a concrete type argument is a predeclared type; replaced below when it is the caller's T
	}
	targ := ty("")
	if sg.generic {
		if targExpr != nil {
			k, ok := t.tyName(targExpr)
			if !ok || !isIntTy(k) {
				t.fail(e, "unsupported type argument")
			}
			targ = k
		} else {
			for i, k := range kinds {
				if sg.params[i] == "T" && k != "lit" {
					targ = k

					break
				}
			}
			if targ == "" {
				t.fail(e, "type argument of a generic call cannot be inferred")
				targ = "T"
			}
		}
		if targ == "T" && !t.gen {
			t.fail(e, "type argument T outside a generic function")
		}
		if targ == "T" && namedAt >= 0 {
			parts[namedAt] = "named_"
		}
		parts = append(parts, leanTy(targ))
	} else if targExpr != nil {
		t.fail(e, "type argument for a non-generic function")
	}
	for i, k := range kinds {
		want := inst(sg.params[i], targ)
		if k != "lit" && k != want {
			t.fail(e.Args[i], fmt.Sprintf("argument type %s, parameter type %s", k, want))
		}
	}
	parts = append(parts, args...)
	if t.calls == nil {
		t.calls = map[string]bool{}
	}
	t.calls[name] = true
	// the signature as seen by this call
	sg.resTy = inst(sg.resTy, targ)
	if sg.result == "T" {
		sg.result = string(targ)
	}
	tup := make([]ty, len(sg.tuple))
	for i, k := range sg.tuple {
		tup[i] = inst(k, targ)
	}
	sg.tuple = tup
	if len(parts) == 1 {
		return leanFn(name), sg, true
	}
	_ = namedAt

	return "(" + strings.Join(parts, " ") + ")", sg, true
}

// error-identity facts (rendered into the generated module, evaluated by Hive/Model/SafeMathErr.lean)
var (
	sentinelNames = map[string]bool{}
	sites         []string
)

func leanStr(s string) string { return strconv.Quote(s) }

// renameType replaces the identifier `name` by T in a comma-separated list of simple type texts.
func renameType(list, name string) string {
	parts := strings.Split(list, ", ")
	for i, p := range parts {
		if p == name {
			parts[i] = "T"
		}
	}

	return strings.Join(parts, ", ")
}

// countW returns the verbs of a literal format string in order (one byte per verb), false when the format uses
// explicit argument indexes or `*` widths (then the verb-to-argument mapping is not positional).
func fmtVerbs(f string) ([]byte, bool) {
	var verbs []byte
	for i := 0; i < len(f); i++ {
		if f[i] != '%' {
			continue
		}
		i++
		for i < len(f) && strings.IndexByte("+-# 0123456789.", f[i]) >= 0 {
			i++
		}
		if i >= len(f) {
			return nil, false
		}
		if f[i] == '%' {
			continue
		}
		if f[i] == '[' || f[i] == '*' {
			return nil, false
		}
		verbs = append(verbs, f[i])
	}

	return verbs, true
}

// errToks renders an error-valued expression in postfix form (see Hive/Model/SafeMathErr.lean).
func errToks(fset *token.FileSet, e ast.Expr, params map[string]bool) []string {
	src := func() string {
		var b strings.Builder
		printer.Fprint(&b, fset, e)

		return b.String()
	}
	switch e := e.(type) {
	case *ast.ParenExpr:
		return errToks(fset, e.X, params)
	case *ast.Ident:
		if params[e.Name] {
			return []string{".param " + leanStr(e.Name)}
		}
		if sentinelNames[e.Name] {
			return []string{".sentinel " + leanStr(e.Name)}
		}
	case *ast.CallExpr:
		sel, ok := e.Fun.(*ast.SelectorExpr)
		if !ok {
			break
		}
		pk, ok := sel.X.(*ast.Ident)
		if !ok {
			break
		}
		name := pk.Name + "." + sel.Sel.Name
		switch name {
		case "ierrors.New", "errors.New":
			return []string{".fresh"}
		case "ierrors.Errorf", "fmt.Errorf":
			if len(e.Args) == 0 {
				break
			}
			lit, ok := e.Args[0].(*ast.BasicLit)
			if !ok || lit.Kind != token.STRING {
				return []string{".errorfDyn"}
			}
			f, err := strconv.Unquote(lit.Value)
			if err != nil {
				break
			}
			verbs, ok := fmtVerbs(f)
			if !ok || len(verbs) > len(e.Args)-1 || e.Ellipsis != token.NoPos {
				break
			}
			var out []string
			n := 0
			for i, v := range verbs {
				if v == 'w' {
					out = append(out, errToks(fset, e.Args[1+i], params)...)
					n++
				}
			}
			if n == 0 {
				return []string{".fresh"}
			}

			return append(out, fmt.Sprintf(".errorf %d", n))
		case "ierrors.Join", "errors.Join":
			if e.Ellipsis != token.NoPos {
				break
			}
			var out []string
			for _, a := range e.Args {
				out = append(out, errToks(fset, a, params)...)
			}

			return append(out, fmt.Sprintf(".join %d", len(e.Args)))
		default:
			if pk.Name == "ierrors" && len(e.Args) >= 1 {
				return append(errToks(fset, e.Args[0], params), ".call "+leanStr(sel.Sel.Name))
			}
		}
	}

	return []string{".opaque " + leanStr(src())}
}

// wrappers renders the return statements of the error-wrapping functions of the ierrors package (default build:
// ierrors_no_stacktrace.go) whose first parameter is an error.
func wrappers(path string) (string, error) {
	fset := token.NewFileSet()
	f, err := parser.ParseFile(fset, path, nil, 0)
	if err != nil {
		return "", err
	}
	var items []string
	for _, d := range f.Decls {
		fd, ok := d.(*ast.FuncDecl)
		if !ok || fd.Recv != nil || fd.Body == nil || !fd.Name.IsExported() || len(fd.Type.Params.List) == 0 {
			continue
		}
		first := fd.Type.Params.List[0]
		if id, ok := first.Type.(*ast.Ident); !ok || id.Name != "error" || len(first.Names) != 1 {
			continue
		}
		params := map[string]bool{first.Names[0].Name: true}
		var others []string
		for _, p := range fd.Type.Params.List[1:] {
			for _, n := range p.Names {
				params[n.Name] = true
				others = append(others, leanStr(n.Name))
			}
		}
		var rets []string
		ast.Inspect(fd.Body, func(n ast.Node) bool {
			if r, ok := n.(*ast.ReturnStmt); ok && len(r.Results) == 1 {
				rets = append(rets, "["+strings.Join(errToks(fset, r.Results[0], params), ", ")+"]")
			}

			return true
		})
		items = append(items, fmt.Sprintf("  { name := %s, first := %s, others := [%s],\n    rets := [%s] }", leanStr(fd.Name.Name), leanStr(first.Names[0].Name),
			strings.Join(others, ", "), strings.Join(rets, ",\n             ")))
	}

	return "[\n" + strings.Join(items, ",\n") + "]", nil
}

func (t *tr) fail(n ast.Node, msg string) {
	t.errs = append(t.errs, fmt.Sprintf("%s: %s", t.fset.Position(n.Pos()), msg))
}

func leanTy(x ty) string {
	switch x {
	case "T":
		return "T"
	case "uint64":
		return "IntTy.u64"
	case "int64":
		return "IntTy.i64"
	case "uint8":
		return "IntTy.u8"
	case "uint", "uintptr": // 64-bit platforms
		return "IntTy.u64"
	case "int":
		return "IntTy.i64"
	case "uint32":
		return "IntTy.u32"
	case "int32":
		return "IntTy.i32"
	case "uint16":
		return "IntTy.u16"
	case "int16":
		return "IntTy.i16"
	case "int8":
		return "IntTy.i8"
	}

	return "IntTy.BAD"
}

func isIntTy(x ty) bool {
	switch x {
	case "T", "uint64", "int64", "uint32", "int32", "uint16", "int16", "uint8", "int8", "uint", "int", "uintptr":
		return true
	}

	return false
}

func unify(a, b ty) ty {
	if a == "lit" {
		return b
	}

	return a
}

// expr translates an expression and returns its Lean text and Go type.
func (t *tr) expr(e ast.Expr) (string, ty) {
	switch e := e.(type) {
	case *ast.ParenExpr:
		s, k := t.expr(e.X)

		return "(" + s + ")", k
	case *ast.BasicLit:
		if e.Kind == token.INT {
			return "(" + e.Value + " : Int)", "lit"
		}
	case *ast.Ident:
		switch e.Name {
		case "true":
			return "true", "bool"
		case "false":
			return "false", "bool"
		}
		if k, ok := t.env[e.Name]; ok {
			return leanName(e.Name), k
		}
		if c, ok := pkgConsts[e.Name]; ok {
			return c.text, c.k
		}
		t.fail(e, "unknown identifier "+e.Name)

		return "?", "lit"
	case *ast.UnaryExpr:
		s, k := t.expr(e.X)
		switch e.Op {
		case token.SUB:
			if k == "lit" {
				return "(-" + s + ")", "lit"
			}

			return fmt.Sprintf("(%s.neg %s)", leanTy(k), s), k
		case token.NOT:
			return "(!" + s + ")", "bool"
		case token.XOR:
			if k != "lit" && isIntTy(k) {
				return fmt.Sprintf("(%s.not %s)", leanTy(k), s), k
			}
		}
	case *ast.BinaryExpr:
		if x, ok := e.X.(*ast.Ident); ok && (e.Op == token.NEQ || e.Op == token.EQL) {
			if y, ok := e.Y.(*ast.Ident); ok && y.Name == "nil" {
				if con, tracked := t.errVar[x.Name]; tracked {
					if (con == "nil") == (e.Op == token.EQL) {
						return "true", "bool"
					}

					return "false", "bool"
				}
			}
		}
		a, ka := t.expr(e.X)
		b, kb := t.expr(e.Y)
		switch e.Op {
		case token.LAND:
			return fmt.Sprintf("(%s && %s)", a, b), "bool"
		case token.LOR:
			return fmt.Sprintf("(%s || %s)", a, b), "bool"
		case token.SHL, token.SHR:
			op := "shl"
			if e.Op == token.SHR {
				op = "shr"
			}
			if ka == "lit" { // constant expression: exact integer arithmetic
				if e.Op == token.SHR {
					return fmt.Sprintf("(%s / 2 ^ (%s).toNat)", a, b), "lit"
				}

				return fmt.Sprintf("(%s * 2 ^ (%s).toNat)", a, b), "lit"
			}

			return fmt.Sprintf("(%s.%s %s %s)", leanTy(ka), op, a, b), ka
		}
		k := unify(ka, kb)
		if ka != "lit" && kb != "lit" && ka != kb {
			t.fail(e, fmt.Sprintf("operand types differ: %s vs %s", ka, kb))
		}
		if k == "bool" {
			switch e.Op {
			case token.EQL:
				return fmt.Sprintf("(%s == %s)", a, b), "bool"
			case token.NEQ:
				return fmt.Sprintf("(%s != %s)", a, b), "bool"
			}
		}
		if k == "lit" { // constant expression: exact integer arithmetic
			switch e.Op {
			case token.ADD:
				return fmt.Sprintf("(%s + %s)", a, b), "lit"
			case token.SUB:
				return fmt.Sprintf("(%s - %s)", a, b), "lit"
			case token.MUL:
				return fmt.Sprintf("(%s * %s)", a, b), "lit"
			case token.QUO:
				return fmt.Sprintf("(Int.tdiv %s %s)", a, b), "lit"
			}
		}
		switch e.Op {
		case token.ADD:
			return fmt.Sprintf("(%s.add %s %s)", leanTy(k), a, b), k
		case token.SUB:
			return fmt.Sprintf("(%s.sub %s %s)", leanTy(k), a, b), k
		case token.MUL:
			return fmt.Sprintf("(%s.mul %s %s)", leanTy(k), a, b), k
		case token.QUO:
			return fmt.Sprintf("(%s.div %s %s)", leanTy(k), a, b), k
		case token.AND:
			return fmt.Sprintf("(%s.and %s %s)", leanTy(k), a, b), k
		case token.OR:
			return fmt.Sprintf("(%s.or %s %s)", leanTy(k), a, b), k
		case token.XOR:
			return fmt.Sprintf("(%s.xor %s %s)", leanTy(k), a, b), k
		case token.AND_NOT:
			return fmt.Sprintf("(%s.andNot %s %s)", leanTy(k), a, b), k
		case token.REM:
			return fmt.Sprintf("(%s.rem %s %s)", leanTy(k), a, b), k
		case token.EQL:
			return fmt.Sprintf("(decide (%s = %s))", a, b), "bool"
		case token.NEQ:
			return fmt.Sprintf("(decide (%s ≠ %s))", a, b), "bool"
		case token.LSS:
			return fmt.Sprintf("(decide (%s < %s))", a, b), "bool"
		case token.GTR:
			return fmt.Sprintf("(decide (%s > %s))", a, b), "bool"
		case token.LEQ:
			return fmt.Sprintf("(decide (%s ≤ %s))", a, b), "bool"
		case token.GEQ:
			return fmt.Sprintf("(decide (%s ≥ %s))", a, b), "bool"
		}
	case *ast.TypeAssertExpr:
		// any(e).(X) inside the arm of a type switch where T is X: the value itself
		if call, ok := e.X.(*ast.CallExpr); ok && len(call.Args) == 1 && e.Type != nil {
			if id, ok := call.Fun.(*ast.Ident); ok && (id.Name == "any") {
				if to, ok := t.tyName(e.Type); ok && isIntTy(to) {
					s, _ := t.expr(call.Args[0])

					return fmt.Sprintf("(%s.wrap %s)", leanTy(to), s), to
				}
			}
		}
	case *ast.SelectorExpr:
		if pk, ok := e.X.(*ast.Ident); ok && pk.Name == "math" {
			if v, ok := mathConsts[e.Sel.Name]; ok {
				return "(" + v + " : Int)", "lit"
			}
		}
		if pk, ok := e.X.(*ast.Ident); ok && pk.Name == "bits" && e.Sel.Name == "UintSize" {
			return "(64 : Int)", "lit"
		}
	case *ast.CallExpr:
		// calls of other translated functions with a single result
		if txt, sg, ok := t.callText(e); ok {
			switch sg.result {
			case "res":
				t.fail(e, "call of a (T, error) function inside an expression")
			case "tuple":
				return txt, "tuple"
			case "error", "":
				t.fail(e, "call of a function with unsupported results inside an expression")
			}

			return txt, ty(sg.result)
		}
		// conversions
		if len(e.Args) == 1 {
			if to, ok := t.tyName(e.Fun); ok && isIntTy(to) {
				if id := e.Fun.(*ast.Ident); t.env[id.Name] == "" {
					s, _ := t.expr(e.Args[0])

					return fmt.Sprintf("(%s.wrap %s)", leanTy(to), s), to
				}
			}
		}
		// builtins min / max (Go 1.21) on integers of one type
		if id, ok := e.Fun.(*ast.Ident); ok && (id.Name == "min" || id.Name == "max") && len(e.Args) >= 2 && t.env[id.Name] == "" {
			if _, isFn := sigs[id.Name]; !isFn {
				acc, k := t.expr(e.Args[0])
				for _, a := range e.Args[1:] {
					b, kb := t.expr(a)
					if k != "lit" && kb != "lit" && k != kb {
						t.fail(e, fmt.Sprintf("operand types differ: %s vs %s", k, kb))
					}
					k = unify(k, kb)
					acc = fmt.Sprintf("(Hive.GoInt.i%s %s %s)", id.Name, acc, b)
				}

				return acc, k
			}
		}
		if sel, ok := e.Fun.(*ast.SelectorExpr); ok {
			if pk, ok := sel.X.(*ast.Ident); ok {
				name := pk.Name + "." + sel.Sel.Name
				if pk.Name == "bits" && len(e.Args) == 1 {
					// bits.Len* / LeadingZeros* / TrailingZeros* of an unsigned operand; the result is an int
					for _, w := range []struct {
						suffix string
						bits   int
						arg    ty
					}{{"64", 64, "uint64"}, {"32", 32, "uint32"}, {"16", 16, "uint16"}, {"8", 8, "uint8"}, {"", 64, "uint"}} {
						for fn, lean := range map[string]string{"Len": "Hive.GoInt.bitLen", "LeadingZeros": fmt.Sprintf("Hive.GoInt.leadingZeros %d", w.bits), "TrailingZeros": fmt.Sprintf("Hive.GoInt.trailingZeros %d", w.bits)} {
							if sel.Sel.Name == fn+w.suffix {
								a, k := t.expr(e.Args[0])
								if k != "lit" && k != w.arg {
									t.fail(e, fmt.Sprintf("argument type %s, parameter type %s", k, w.arg))
								}

								return fmt.Sprintf("(%s %s)", lean, a), "int"
							}
						}
					}
				}
				switch name {
				case "unsafe.Sizeof": // of a value of the type parameter or of an integer type: the width in bytes, a uintptr
					if len(e.Args) == 1 {
						if _, k := t.expr(e.Args[0]); k != "lit" && isIntTy(k) {
							return fmt.Sprintf("((%s.bits : Int) / 8)", leanTy(k)), "uintptr"
						}
					}
				case "lo.Return1":
					if len(e.Args) == 1 {
						s, k := t.expr(e.Args[0])
						if k == "pair" {
							return "(" + s + ").1", "uint64"
						}
					}
				case "bits.Mul64":
					if len(e.Args) == 2 {
						a, _ := t.expr(e.Args[0])
						b, _ := t.expr(e.Args[1])

						return fmt.Sprintf("(mul64 %s %s)", a, b), "pair"
					}
				case "bits.Add64", "bits.Sub64":
					if len(e.Args) == 3 {
						a, _ := t.expr(e.Args[0])
						b, _ := t.expr(e.Args[1])
						c, _ := t.expr(e.Args[2])

						return fmt.Sprintf("(%s %s %s %s)", map[string]string{"bits.Add64": "Hive.GoInt.add64", "bits.Sub64": "Hive.GoInt.sub64"}[name], a, b, c), "pair"
					}
				case "bits.Div64":
					if len(e.Args) == 3 {
						a, _ := t.expr(e.Args[0])
						b, _ := t.expr(e.Args[1])
						c, _ := t.expr(e.Args[2])

						return fmt.Sprintf("(div64 %s %s %s)", a, b, c), "pair?"
					}
				}
			}
		}
	}
	t.fail(e, fmt.Sprintf("unsupported expression %T", e))

	return "?", "lit"
}

func leanName(s string) string {
	switch s {
	case "lo", "hi", "val", "div", "result", "shift",
		// Lean keywords and names the generated module relies on
		"at", "by", "do", "end", "from", "fun", "have", "in", "let", "show", "then", "with", "open", "where", "match", "calc", "using", "extends",
		"def", "theorem", "instance", "structure", "class", "inductive", "namespace", "section", "variable", "universe", "mutual", "private",
		"protected", "partial", "unsafe", "macro", "syntax", "notation", "deriving", "suffices", "nomatch", "nofun", "Type", "Prop", "Sort", "T",
		"Res", "IntTy", "decide", "Int", "Bool", "true", "false", "mul64", "div64", "id", "fst", "snd", "some", "none", "abs", "not", "and", "or", "xor":
		return s + "_"
	}

	return s
}

// leanFn is the Lean name of a translated top-level function (its Go name unless that would capture a name the
// generated module uses).
func leanFn(s string) string {
	switch s {
	case "mul64", "div64", "translated", "sentinelDefs", "ierrorsWrappers", "errorSites", "decide", "Res", "IntTy", "Int", "Bool", "not", "and", "or", "xor",
		"min", "max", "abs", "id", "exact":
		return s + "_"
	}

	return leanName(s)
}

func mayReturn(s ast.Stmt) bool {
	found := false
	ast.Inspect(s, func(n ast.Node) bool {
		if _, ok := n.(*ast.ReturnStmt); ok {
			found = true
		}
		if b, ok := n.(*ast.BranchStmt); ok && (b.Tok == token.BREAK || b.Tok == token.CONTINUE) {
			found = true // leaves the statement like a return does (only inside a loop body)
		}

		return true
	})

	return found
}

// assigned collects outer variables assigned with `=` inside s.
func assigned(s ast.Stmt, acc map[string]bool) {
	ast.Inspect(s, func(n ast.Node) bool {
		if ids, ok := n.(*ast.IncDecStmt); ok {
			if id, ok := ids.X.(*ast.Ident); ok {
				acc[id.Name] = true
			}
		}
		if a, ok := n.(*ast.AssignStmt); ok && a.Tok != token.DEFINE {
			for _, l := range a.Lhs {
				if id, ok := l.(*ast.Ident); ok {
					acc[id.Name] = true
				}
			}
		}

		return true
	})
}

func ind(n int) string { return strings.Repeat("  ", n) }

// block translates stmts followed by the continuation k (Lean text producing the block's value).
func (t *tr) block(stmts []ast.Stmt, depth int, k func(depth int) string) string {
	if len(stmts) == 0 {
		return k(depth)
	}
	s, rest := stmts[0], stmts[1:]
	cont := func(d int) string { return t.block(rest, d, k) }
	switch s := s.(type) {
	case *ast.ReturnStmt:
		return ind(depth) + t.wrapRet(t.ret(s)) + "\n"
	case *ast.BranchStmt:
		if len(t.loops) == 0 || s.Label != nil || (s.Tok != token.BREAK && s.Tok != token.CONTINUE) {
			t.fail(s, "unsupported branch statement")

			return ""
		}
		lc := t.loops[len(t.loops)-1]
		if s.Tok == token.BREAK {
			return ind(depth) + "Hive.GoInt.LoopStep.brk " + lc.tuple + "\n"
		}

		return lc.next(depth)
	case *ast.ForStmt:
		// `for init; cond; post { body }` as a fuel-bounded iteration (Hive.GoInt.loop) over the tuple of the variables the
		// loop assigns; a loop that does not terminate within 65536 iterations answers `panic` (safemath loops are bounded
		// by a width or a shift count)
		if s.Init != nil {
			as, ok := s.Init.(*ast.AssignStmt)
			if !ok || as.Tok != token.DEFINE {
				t.fail(s, "for with an init statement that is not a short variable declaration")

				return ""
			}
			for _, l := range as.Lhs {
				if id, ok := l.(*ast.Ident); ok {
					if _, shadows := t.env[id.Name]; shadows {
						t.fail(s, "for-init shadows "+id.Name)
					}
				}
			}
			plain := *s
			plain.Init = nil

			return t.block(append([]ast.Stmt{s.Init, &plain}, rest...), depth, k)
		}
		set := map[string]bool{}
		assigned(s.Body, set)
		if s.Post != nil {
			assigned(s.Post, set)
		}
		var vars []string
		for v := range set {
			if _, ok := t.env[v]; ok {
				vars = append(vars, v)
			}
		}
		sort.Strings(vars)
		tuple, tupleTy := "()", "Unit"
		if len(vars) > 0 {
			var ns, ts []string
			for _, v := range vars {
				ns = append(ns, leanName(v))
				if t.env[v] == "bool" {
					ts = append(ts, "Bool")
				} else {
					ts = append(ts, "Int")
				}
			}
			tuple, tupleTy = strings.Join(ns, ", "), strings.Join(ts, " × ")
			if len(vars) > 1 {
				tuple = "(" + tuple + ")"
			}
		}
		saved := t.snapshot()
		next := func(d int) string {
			fin := func(d2 int) string { return ind(d2) + "Hive.GoInt.LoopStep.next " + tuple + "\n" }
			if s.Post == nil {
				return fin(d)
			}
			sv := t.snapshot()
			out := t.block([]ast.Stmt{s.Post}, d, fin)
			t.restore(sv)

			return out
		}
		t.loops = append(t.loops, loopCtx{tuple, next})
		t.copies++
		var step string
		if s.Cond != nil {
			c, _ := t.expr(s.Cond)
			step = fmt.Sprintf("%sif %s then\n%s%selse\n%sHive.GoInt.LoopStep.brk %s\n", ind(depth+2), c, t.block(s.Body.List, depth+3, next), ind(depth+2), ind(depth+3), tuple)
		} else {
			step = t.block(s.Body.List, depth+2, next)
		}
		t.loops = t.loops[:len(t.loops)-1]
		t.restore(saved)
		if t.copies > 64 {
			t.fail(s, "too many duplicated continuations")

			return ""
		}

		return fmt.Sprintf("%smatch Hive.GoInt.loop 65536 %s (fun (%s : %s) =>\n%s%s) %s with\n%s| Sum.inl r_ => %s\n%s| Sum.inr %s =>\n%s",
			ind(depth), t.zeroOf(), tuple, tupleTy, step, ind(depth+1), tuple, ind(depth), t.wrapRet("r_"), ind(depth), tuple, cont(depth+1))
	case *ast.DeclStmt:
		gd, ok := s.Decl.(*ast.GenDecl)
		if !ok || (gd.Tok != token.VAR && gd.Tok != token.CONST) || len(gd.Specs) != 1 {
			t.fail(s, "unsupported declaration")

			return ""
		}
		vs := gd.Specs[0].(*ast.ValueSpec)
		if len(vs.Names) != 1 || len(vs.Values) > 1 || (vs.Type == nil && len(vs.Values) == 0) {
			t.fail(s, "unsupported var spec")

			return ""
		}
		var declared ty
		if vs.Type != nil {
			var ok bool
			if declared, ok = t.tyName(vs.Type); !ok {
				t.fail(s, "unsupported variable type")

				return ""
			}
		}
		e, ke := "(0 : Int)", ty("lit")
		if declared == "bool" {
			e = "false"
		}
		if len(vs.Values) == 1 {
			e, ke = t.expr(vs.Values[0])
		}
		switch {
		case declared != "":
			if ke != "lit" && ke != declared && len(vs.Values) == 1 {
				t.fail(s, fmt.Sprintf("initialiser type %s, declared type %s", ke, declared))
			}
		case ke == "lit" && gd.Tok == token.VAR:
			declared = "int" // `var x = 5`
		default:
			declared = ke // untyped constant: exact integer arithmetic
		}
		t.env[vs.Names[0].Name] = declared
		ann := "Int"
		if declared == "bool" {
			ann = "Bool"
		}

		return fmt.Sprintf("%slet %s : %s := %s\n", ind(depth), leanName(vs.Names[0].Name), ann, e) + cont(depth)
	case *ast.TypeSwitchStmt:
		// `switch [v :=] any(x).(type)` on a value of the type parameter: a case names predeclared types, which a defined type
		// (`type Amount uint64`) does not match - the module variable `named_` says whether T is a defined type
		var subject ast.Expr
		bind := ""
		switch a := s.Assign.(type) {
		case *ast.AssignStmt:
			if len(a.Lhs) == 1 && len(a.Rhs) == 1 {
				if id, ok := a.Lhs[0].(*ast.Ident); ok {
					bind = id.Name
				}
				subject = a.Rhs[0]
			}
		case *ast.ExprStmt:
			subject = a.X
		}
		ta, ok := subject.(*ast.TypeAssertExpr)
		var inner ast.Expr
		if ok && ta.Type == nil {
			if call, ok := ta.X.(*ast.CallExpr); ok && len(call.Args) == 1 {
				if id, ok := call.Fun.(*ast.Ident); ok && id.Name == "any" {
					inner = call.Args[0]
				}
			}
		}
		if s.Init != nil || inner == nil || !t.gen {
			t.fail(s, "unsupported type switch")

			return ""
		}
		val, vk := t.expr(inner)
		if vk != "T" {
			t.fail(s, "type switch on a value that is not of the type parameter")

			return ""
		}
		if _, shadows := t.env[bind]; bind != "" && shadows {
			t.fail(s, "type switch shadows "+bind)
		}
		t.copies++
		if t.copies > 64 {
			t.fail(s, "too many duplicated continuations")

			return ""
		}
		var arms []string
		deflt := cont(depth + 1)
		saved := t.snapshot()
		for _, c := range s.Body.List {
			cc := c.(*ast.CaseClause)
			if cc.List == nil {
				deflt = t.block(cc.Body, depth+1, cont)
				t.restore(saved)

				continue
			}
			var conds []string
			var kinds []ty
			for _, te := range cc.List {
				k, ok := t.tyName(te)
				if !ok || !isIntTy(k) || k == "T" || k == "int" || k == "uint" || k == "uintptr" {
					t.fail(te, "unsupported type in a type switch")

					continue
				}
				kinds = append(kinds, k)
				conds = append(conds, fmt.Sprintf("(decide (T = %s))", leanTy(k)))
			}
			pre := ""
			if bind != "" && bind != "_" && len(kinds) == 1 {
				t.env[bind] = kinds[0]
				pre = fmt.Sprintf("%slet %s : Int := %s\n", ind(depth+1), leanName(bind), val)
			}
			body := t.block(cc.Body, depth+1, cont)
			t.restore(saved)
			arms = append(arms, fmt.Sprintf("if ((!named_) && (%s)) then\n%s%s%selse ", strings.Join(conds, " || "), pre, body, ind(depth)))
		}

		return ind(depth) + strings.Join(arms, "") + "\n" + deflt
	case *ast.SwitchStmt:
		// expression switch without fallthrough / break: an if / else-if chain
		if s.Init != nil {
			t.fail(s, "switch with an init statement")

			return ""
		}
		var chain, last *ast.IfStmt
		var deflt *ast.BlockStmt
		for _, c := range s.Body.List {
			cc := c.(*ast.CaseClause)
			bad := false
			ast.Inspect(cc, func(n ast.Node) bool {
				if b, ok := n.(*ast.BranchStmt); ok && (b.Tok == token.FALLTHROUGH || b.Tok == token.BREAK) {
					bad = true
				}

				return true
			})
			if bad {
				t.fail(cc, "fallthrough / break in a switch")
			}
			body := &ast.BlockStmt{Lbrace: cc.Colon, List: cc.Body}
			if cc.List == nil {
				deflt = body

				continue
			}
			var cond ast.Expr
			for _, v := range cc.List {
				var one ast.Expr = v
				if s.Tag != nil {
					one = &ast.BinaryExpr{X: s.Tag, OpPos: v.Pos(), Op: token.EQL, Y: v}
				}
				if cond == nil {
					cond = one
				} else {
					cond = &ast.BinaryExpr{X: cond, OpPos: v.Pos(), Op: token.LOR, Y: one}
				}
			}
			is := &ast.IfStmt{If: cc.Case, Cond: cond, Body: body}
			if chain == nil {
				chain = is
			} else {
				last.Else = is
			}
			last = is
		}
		if chain == nil {
			if deflt == nil {
				return cont(depth)
			}

			return t.block(append(append([]ast.Stmt{}, deflt.List...), rest...), depth, k)
		}
		if deflt != nil {
			last.Else = deflt
		}

		return t.block(append([]ast.Stmt{chain}, rest...), depth, k)
	case *ast.BlockStmt:
		// a nested block: its declarations are scoped, which a flattened `let` sequence only respects when nothing is shadowed
		for _, st := range s.List {
			if as, ok := st.(*ast.AssignStmt); ok && as.Tok == token.DEFINE {
				for _, l := range as.Lhs {
					if id, ok := l.(*ast.Ident); ok {
						if _, shadows := t.env[id.Name]; shadows {
							t.fail(st, "nested block shadows "+id.Name)
						}
					}
				}
			}
		}

		return t.block(append(append([]ast.Stmt{}, s.List...), rest...), depth, k)
	case *ast.IncDecStmt:
		op := token.ADD
		if s.Tok == token.DEC {
			op = token.SUB
		}
		as := &ast.AssignStmt{Lhs: []ast.Expr{s.X}, TokPos: s.TokPos, Tok: token.ASSIGN,
			Rhs: []ast.Expr{&ast.BinaryExpr{X: s.X, OpPos: s.TokPos, Op: op, Y: &ast.BasicLit{ValuePos: s.TokPos, Kind: token.INT, Value: "1"}}}}

		return t.block(append([]ast.Stmt{as}, rest...), depth, k)
	case *ast.AssignStmt:
		if op, ok := compoundOps[s.Tok]; ok && len(s.Lhs) == 1 && len(s.Rhs) == 1 {
			as := &ast.AssignStmt{Lhs: s.Lhs, TokPos: s.TokPos, Tok: token.ASSIGN,
				Rhs: []ast.Expr{&ast.BinaryExpr{X: s.Lhs[0], OpPos: s.TokPos, Op: op, Y: &ast.ParenExpr{X: s.Rhs[0]}}}}

			return t.block(append([]ast.Stmt{as}, rest...), depth, k)
		}
		if call, ok := s.Rhs[0].(*ast.CallExpr); ok && len(s.Rhs) == 1 && len(s.Lhs) == 2 && s.Tok == token.DEFINE {
			if cname, _, ok := calleeOf(call); ok && sigs[cname].result == "res" {
				// v, err := F(...); if err != nil { return …, err }   (the error of the callee is passed on)
				txt, sg, _ := t.callText(call)
				v, ev := s.Lhs[0].(*ast.Ident), s.Lhs[1].(*ast.Ident)
				if len(rest) == 0 || !isErrCheck(rest[0], ev.Name) {
					// general form: the rest of the block is translated once per answer of the callee; `err` is a known constant
					// in each copy (`return v, err`, `if err != nil`, `err == nil` are decided), the value is 0 with an error
					if t.errVar == nil {
						t.errVar = map[string]string{}
					}
					t.copies += 3
					if t.copies > 64 {
						t.fail(s, "too many duplicated continuations")

						return ""
					}
					gen := func(con string, isOk bool) string {
						saved := t.snapshot()
						prev, had := t.errVar[ev.Name]
						t.errVar[ev.Name] = con
						pre := ""
						if v.Name != "_" {
							t.env[v.Name] = sg.resTy
							if !isOk {
								pre = fmt.Sprintf("%slet %s : Int := (0 : Int)\n", ind(depth+1), leanName(v.Name))
							}
						}
						b := t.block(rest, depth+1, k)
						if had {
							t.errVar[ev.Name] = prev
						} else {
							delete(t.errVar, ev.Name)
						}
						t.restore(saved)

						return pre + b
					}
					ov, dz, okArm := gen("Res.overflow", false), gen("Res.divzero", false), gen("nil", true)
					pat := "_"
					if v.Name != "_" {
						pat = leanName(v.Name)
					}

					return fmt.Sprintf("%smatch %s with\n%s| Res.overflow =>\n%s%s| Res.divzero =>\n%s%s| Res.panic => %s\n%s| Res.ok %s =>\n%s",
						ind(depth), txt, ind(depth), ov, ind(depth), dz, ind(depth), t.wrapRet("Res.panic"), ind(depth), pat, okArm)
				}
				errBody := rest[0].(*ast.IfStmt).Body.List
				arm := func(con string) string {
					if t.errVar == nil {
						t.errVar = map[string]string{}
					}
					saved := t.snapshot()
					t.errVar[ev.Name] = con
					b := t.block(errBody, depth+2, func(int) string {
						t.fail(rest[0], "the error branch must return")

						return ""
					})
					delete(t.errVar, ev.Name)
					t.restore(saved)

					return fmt.Sprintf("%s| %s =>\n%s", ind(depth), con, b)
				}
				armOv, armDz := arm("Res.overflow"), arm("Res.divzero")
				t.env[v.Name] = sg.resTy
				body := t.block(rest[1:], depth+1, k)

				return fmt.Sprintf("%smatch %s with\n%s%s%s| Res.panic => %s\n%s| Res.ok %s =>\n%s",
					ind(depth), txt, armOv, armDz, ind(depth), t.wrapRet("Res.panic"), ind(depth), leanName(v.Name), body)
			}
		}
		if len(s.Rhs) == 1 && len(s.Lhs) == 2 {
			// hi, lo := bits.Mul64(...)   |   v, ok := helper(...)
			ida, oka := s.Lhs[0].(*ast.Ident)
			idb, okb := s.Lhs[1].(*ast.Ident)
			if !oka || !okb {
				t.fail(s, "unsupported assignment")

				return ""
			}
			a, b := ida.Name, idb.Name
			ka, kb := ty("uint64"), ty("uint64")
			var e string
			if call, ok := s.Rhs[0].(*ast.CallExpr); ok {
				if txt, sg, ok := t.callText(call); ok && sg.result == "tuple" && len(sg.tuple) == 2 {
					e, ka, kb = txt, sg.tuple[0], sg.tuple[1]
				}
			}
			if e == "" {
				var k ty
				e, k = t.expr(s.Rhs[0])
				if k != "pair" {
					t.fail(s, "two-value assignment from a non-pair")
				}
			}
			if s.Tok != token.DEFINE {
				for _, p := range []struct {
					n string
					k ty
				}{{a, ka}, {b, kb}} {
					if old, ok := t.env[p.n]; p.n != "_" && (!ok || old != p.k) {
						t.fail(s, fmt.Sprintf("assignment changes type %s -> %s", old, p.k))
					}
				}
			}
			var out string
			for i, p := range []struct {
				n string
				k ty
			}{{a, ka}, {b, kb}} {
				if p.n == "_" {
					continue
				}
				t.env[p.n] = p.k
				ann := "Int"
				if p.k == "bool" {
					ann = "Bool"
				}
				if ann == "Int" {
					out += fmt.Sprintf("%slet %s := %s.%d\n", ind(depth), leanName(p.n), e, i+1)
				} else {
					out += fmt.Sprintf("%slet %s : %s := %s.%d\n", ind(depth), leanName(p.n), ann, e, i+1)
				}
			}

			return out + cont(depth)
		}
		if len(s.Lhs) == len(s.Rhs) && len(s.Lhs) >= 2 && (s.Tok == token.DEFINE || s.Tok == token.ASSIGN) {
			// parallel assignment `a, b = e1, e2`: every right-hand side is evaluated before any variable changes
			var names, exprs []string
			var kinds []ty
			for i, l := range s.Lhs {
				id, ok := l.(*ast.Ident)
				if !ok {
					t.fail(s, "unsupported assignment target")

					return ""
				}
				e, k := t.expr(s.Rhs[i])
				if k == "lit" {
					k = "int"
				}
				if old, exists := t.env[id.Name]; s.Tok == token.ASSIGN && id.Name != "_" {
					if !exists {
						t.fail(s, "assignment to an unknown variable "+id.Name)
					}
					if _, isLit := s.Rhs[i].(*ast.BasicLit); isLit || k == "int" && old != "int" {
						k = old // an untyped constant takes the variable's type
					}
					if old != k {
						t.fail(s, fmt.Sprintf("assignment changes type %s -> %s", old, k))
					}
				}
				names, exprs, kinds = append(names, leanName(id.Name)), append(exprs, e), append(kinds, k)
			}
			for i, l := range s.Lhs {
				if n := l.(*ast.Ident).Name; n != "_" {
					t.env[n] = kinds[i]
				}
			}

			return fmt.Sprintf("%slet (%s) := (%s)\n", ind(depth), strings.Join(names, ", "), strings.Join(exprs, ", ")) + cont(depth)
		}
		if len(s.Lhs) != 1 || len(s.Rhs) != 1 {
			t.fail(s, "unsupported assignment")

			return ""
		}
		id, isId := s.Lhs[0].(*ast.Ident)
		if !isId {
			t.fail(s, "unsupported assignment target")

			return ""
		}
		if isStringExpr(s.Rhs[0]) && (s.Tok == token.DEFINE || t.env[id.Name] == "string") {
			// a string (operator name, formatted message): it cannot influence an integer result
			t.env[id.Name] = "string"

			return cont(depth)
		}
		e, k := t.expr(s.Rhs[0])
		if k == "tuple" || k == "pair" || k == "pair?" {
			t.fail(s, "multi-valued expression in a single-value assignment")
		}
		if s.Tok == token.DEFINE {
			if k == "lit" {
				k = "int" // `x := 5` declares an int
			}
			t.env[id.Name] = k
		} else if old := t.env[id.Name]; k != "lit" && old != k {
			t.fail(s, fmt.Sprintf("assignment changes type %s -> %s", old, k))
		}
		tyAnn := "Int"
		if t.env[id.Name] == "bool" {
			tyAnn = "Bool"
		}

		return fmt.Sprintf("%slet %s : %s := %s\n", ind(depth), leanName(id.Name), tyAnn, e) + cont(depth)
	case *ast.IfStmt:
		if s.Init != nil {
			// `if v := e; cond {…}`: v is scoped to the statement; as a `let` in front of it that is the same unless v
			// shadows a variable the rest of the block may use
			if as, ok := s.Init.(*ast.AssignStmt); ok && as.Tok == token.DEFINE {
				for _, l := range as.Lhs {
					if id, ok := l.(*ast.Ident); ok {
						if _, shadows := t.env[id.Name]; shadows {
							t.fail(s, "if-init shadows "+id.Name)
						}
					}
				}
				plain := *s
				plain.Init = nil

				return t.block(append([]ast.Stmt{s.Init, &plain}, rest...), depth, k)
			}
			t.fail(s, "if with an init statement that is not a short variable declaration")
		}
		c, _ := t.expr(s.Cond)
		if !mayReturn(s) {
			// state threading: the if yields the tuple of variables it may assign
			set := map[string]bool{}
			assigned(s, set)
			var vars []string
			for v := range set {
				vars = append(vars, v)
			}
			sort.Strings(vars)
			if len(vars) == 0 {
				return cont(depth)
			}
			tuple := func(d int) string {
				var names []string
				for _, v := range vars {
					names = append(names, leanName(v))
				}
				if len(names) == 1 {
					return ind(d) + names[0] + "\n"
				}

				return ind(d) + "(" + strings.Join(names, ", ") + ")\n"
			}
			var pat []string
			for _, v := range vars {
				pat = append(pat, leanName(v))
			}
			lhs := pat[0]
			if len(pat) > 1 {
				lhs = "(" + strings.Join(pat, ", ") + ")"
			}
			saved := t.snapshot()
			thenS := t.block(s.Body.List, depth+2, tuple)
			t.restore(saved)
			elseS := tuple(depth + 2)
			if s.Else != nil {
				elseS = t.block(elseStmts(s.Else), depth+2, tuple)
				t.restore(saved)
			}

			return fmt.Sprintf("%slet %s :=\n%sif %s then\n%s%selse\n%s", ind(depth), lhs, ind(depth+1), c, thenS, ind(depth+1), elseS) + cont(depth)
		}
		// the statement may return: branches that fall through continue with the rest of the block
		t.copies++
		if t.copies > 64 {
			t.fail(s, "too many duplicated continuations")

			return ""
		}
		saved := t.snapshot()
		thenS := t.block(s.Body.List, depth+1, cont)
		t.restore(saved)
		var elseS string
		if s.Else != nil {
			elseS = t.block(elseStmts(s.Else), depth+1, cont)
		} else {
			elseS = cont(depth + 1)
		}
		t.restore(saved)

		return fmt.Sprintf("%sif %s then\n%s%selse\n%s", ind(depth), c, thenS, ind(depth), elseS)
	}
	t.fail(s, fmt.Sprintf("unsupported statement %T", s))

	return ""
}

// isStringExpr recognises expressions that are evidently strings: literals, fmt.Sprint* / strconv.* calls, concatenations of such.
func isStringExpr(e ast.Expr) bool {
	switch e := e.(type) {
	case *ast.BasicLit:
		return e.Kind == token.STRING
	case *ast.ParenExpr:
		return isStringExpr(e.X)
	case *ast.BinaryExpr:
		return e.Op == token.ADD && (isStringExpr(e.X) || isStringExpr(e.Y))
	case *ast.CallExpr:
		if sel, ok := e.Fun.(*ast.SelectorExpr); ok {
			if pk, ok := sel.X.(*ast.Ident); ok {
				return (pk.Name == "fmt" && strings.HasPrefix(sel.Sel.Name, "Sprint")) || (pk.Name == "strconv" && (strings.HasPrefix(sel.Sel.Name, "Format") || sel.Sel.Name == "Itoa"))
			}
		}
	}

	return false
}

var compoundOps = map[token.Token]token.Token{
	token.ADD_ASSIGN: token.ADD, token.SUB_ASSIGN: token.SUB, token.MUL_ASSIGN: token.MUL, token.QUO_ASSIGN: token.QUO, token.REM_ASSIGN: token.REM,
	token.AND_ASSIGN: token.AND, token.OR_ASSIGN: token.OR, token.XOR_ASSIGN: token.XOR, token.SHL_ASSIGN: token.SHL, token.SHR_ASSIGN: token.SHR,
	token.AND_NOT_ASSIGN: token.AND_NOT,
}

// isErrCheck recognises `if err != nil { … }` (the body is translated once per error the callee can answer).
func isErrCheck(s ast.Stmt, errName string) bool {
	is, ok := s.(*ast.IfStmt)
	if !ok || is.Init != nil || is.Else != nil {
		return false
	}
	c, ok := is.Cond.(*ast.BinaryExpr)
	if !ok || c.Op != token.NEQ {
		return false
	}
	x, ok1 := c.X.(*ast.Ident)
	y, ok2 := c.Y.(*ast.Ident)

	return ok1 && ok2 && x.Name == errName && y.Name == "nil"
}

// isErrPropagation recognises `if err != nil { return <anything>, err }`.
func isErrPropagation(s ast.Stmt, errName string) bool {
	is, ok := s.(*ast.IfStmt)
	if !ok || is.Init != nil || is.Else != nil || len(is.Body.List) != 1 {
		return false
	}
	c, ok := is.Cond.(*ast.BinaryExpr)
	if !ok || c.Op != token.NEQ {
		return false
	}
	x, ok1 := c.X.(*ast.Ident)
	y, ok2 := c.Y.(*ast.Ident)
	if !ok1 || !ok2 || x.Name != errName || y.Name != "nil" {
		return false
	}
	r, ok := is.Body.List[0].(*ast.ReturnStmt)
	if !ok || len(r.Results) != 2 {
		return false
	}
	e, ok := r.Results[1].(*ast.Ident)

	return ok && e.Name == errName
}

func elseStmts(s ast.Stmt) []ast.Stmt {
	if b, ok := s.(*ast.BlockStmt); ok {
		return b.List
	}

	return []ast.Stmt{s}
}

func (t *tr) snapshot() map[string]ty {
	m := map[string]ty{}
	for k, v := range t.env {
		m[k] = v
	}

	return m
}

func (t *tr) restore(m map[string]ty) {
	t.env = map[string]ty{}
	for k, v := range m {
		t.env[k] = v
	}
}

func mentions(e ast.Expr, name string) bool {
	found := false
	ast.Inspect(e, func(n ast.Node) bool {
		if id, ok := n.(*ast.Ident); ok && id.Name == name {
			found = true
		}

		return true
	})

	return found
}

func (t *tr) ret(s *ast.ReturnStmt) string {
	if t.result == "tuple" {
		if len(s.Results) == 1 {
			if e, k := t.expr(s.Results[0]); k == "tuple" {
				return e
			}
		}
		if len(s.Results) != len(t.tuple) {
			t.fail(s, "wrong number of results")

			return "?"
		}
		var parts []string
		for i, r := range s.Results {
			e, k := t.expr(r)
			if k != "lit" && k != t.tuple[i] {
				t.fail(r, fmt.Sprintf("result type %s, declared %s", k, t.tuple[i]))
			}
			parts = append(parts, e)
		}

		return "(" + strings.Join(parts, ", ") + ")"
	}
	if t.result != "res" {
		if len(s.Results) != 1 {
			t.fail(s, "return must have one result")

			return "?"
		}
		e, k := t.expr(s.Results[0])
		if k != "lit" && string(k) != t.result {
			t.fail(s, fmt.Sprintf("result type %s, declared %s", k, t.result))
		}

		return e
	}
	if len(s.Results) == 1 {
		// return F(...): the callee's answer is the answer
		if call, ok := s.Results[0].(*ast.CallExpr); ok {
			if txt, sg, ok := t.callText(call); ok && sg.result == "res" {
				return txt
			}
		}
	}
	if len(s.Results) != 2 {
		t.fail(s, "return must have two results")

		return "?"
	}
	if id, ok := s.Results[1].(*ast.Ident); ok && id.Name == "nil" {
		// lo.Return1(bits.Div64(...))
		if call, ok := s.Results[0].(*ast.CallExpr); ok {
			if sel, ok := call.Fun.(*ast.SelectorExpr); ok && sel.Sel.Name == "Return1" && len(call.Args) == 1 {
				inner, ik := t.expr(call.Args[0])
				if ik == "pair?" {
					return fmt.Sprintf("match %s with | none => Res.panic | some p => Res.ok p.1", inner)
				}
			}
		}
		e, _ := t.expr(s.Results[0])

		return "Res.ok " + e
	}
	if id, ok := s.Results[1].(*ast.Ident); ok {
		if con, ok := t.errVar[id.Name]; ok {
			if con == "nil" { // the callee answered without error in this copy of the block
				e, _ := t.expr(s.Results[0])

				return "Res.ok " + e
			}

			return con // the callee's error is passed on unchanged
		}
	}
	site := func(res string) {
		sites = append(sites, fmt.Sprintf("  { fn := %s, line := %d, res := %s, toks := [%s] }", leanStr(t.fn), t.fset.Position(s.Pos()).Line, leanStr(res),
			strings.Join(errToks(t.fset, s.Results[1], nil), ", ")))
	}
	// the error is built by a helper of the file: `return 0, overflowError(…)`
	if call, ok := s.Results[1].(*ast.CallExpr); ok {
		if name, _, ok := calleeOf(call); ok {
			if h, ok := errHelpers[name]; ok {
				sites = append(sites, fmt.Sprintf("  { fn := %s, line := %d, res := %s, toks := [%s] }", leanStr(t.fn), t.fset.Position(s.Pos()).Line, leanStr(h.res),
					strings.Join(h.toks, ", ")))

				return map[string]string{"overflow": "Res.overflow", "divzero": "Res.divzero"}[h.res]
			}
		}
	}
	switch {
	case mentions(s.Results[1], "ErrIntegerOverflow"):
		site("overflow")

		return "Res.overflow"
	case mentions(s.Results[1], "ErrIntegerDivisionByZero"):
		site("divzero")

		return "Res.divzero"
	}
	t.fail(s, "error result mentions neither ErrIntegerOverflow nor ErrIntegerDivisionByZero")

	return "?"
}

func main() {
	// -corpus: translate a file of sample functions (harness/c19/trcorpus.go) into a module of its own with dispatch tables
	// instead of the error-identity facts: the differential run executes it against the Go functions (translator self-check)
	corpus := false
	if len(os.Args) == 4 && os.Args[1] == "-corpus" {
		corpus = true
		os.Args = append(os.Args[:1], os.Args[2:]...)
	}
	if len(os.Args) != 3 {
		fmt.Fprintln(os.Stderr, "usage: translate-safemath [-corpus] <safe_math.go> <out.lean>")
		os.Exit(2)
	}
	fset := token.NewFileSet()
	f, err := parser.ParseFile(fset, os.Args[1], nil, 0)
	if err != nil {
		fmt.Fprintln(os.Stderr, err)
		os.Exit(1)
	}
	var out strings.Builder
	if corpus {
		out.WriteString("import Hive.Base.GoInt\nimport Hive.Model.SafeMathOps\n/-! GENERATED by harness/tools/translate-safemath -corpus from harness/c19/trcorpus.go — do not edit. -/\n")
		out.WriteString("namespace Hive.Gen.SafeMathCorpus\nopen Hive.GoInt\n\n")
	} else {
		out.WriteString("import Hive.Base.GoInt\nimport Hive.Model.SafeMathOps\nimport Hive.Model.SafeMathErr\n/-! GENERATED by harness/tools/translate-safemath from core/safemath/safe_math.go — do not edit. -/\n")
		out.WriteString("namespace Hive.Gen.SafeMath\nopen Hive.GoInt\n\n")
	}
	var allErrs []string
	var names []string
	// package-level error variables: names first (an error expression may mention any of them), then definitions
	var sentinelDefs []string
	for _, d := range f.Decls {
		if gd, ok := d.(*ast.GenDecl); ok && gd.Tok == token.VAR {
			for _, sp := range gd.Specs {
				for _, n := range sp.(*ast.ValueSpec).Names {
					sentinelNames[n.Name] = true
				}
			}
		}
	}
	for _, d := range f.Decls {
		if gd, ok := d.(*ast.GenDecl); ok && gd.Tok == token.VAR {
			for _, sp := range gd.Specs {
				vs := sp.(*ast.ValueSpec)
				for i, n := range vs.Names {
					toks := []string{".opaque \"(no initialiser)\""}
					if len(vs.Values) == len(vs.Names) {
						toks = errToks(fset, vs.Values[i], nil)
					}
					sentinelDefs = append(sentinelDefs, fmt.Sprintf("(%s, [%s])", leanStr(n.Name), strings.Join(toks, ", ")))
				}
			}
		}
	}
	// package-level constants (untyped or of an integer type; no iota)
	for _, d := range f.Decls {
		gd, ok := d.(*ast.GenDecl)
		if !ok || gd.Tok != token.CONST {
			continue
		}
		for _, sp := range gd.Specs {
			vs := sp.(*ast.ValueSpec)
			ct := &tr{fset: fset, env: map[string]ty{}, fn: "const"}
			if len(vs.Values) != len(vs.Names) {
				ct.fail(vs, "constant without its own value (iota / implicit repetition)")
			}
			for i, n := range vs.Names {
				if i >= len(vs.Values) {
					break
				}
				e, k := ct.expr(vs.Values[i])
				if vs.Type != nil {
					dk, ok := ct.tyName(vs.Type)
					if !ok || !isIntTy(dk) {
						ct.fail(vs, "unsupported constant type")
					}
					if k == "lit" {
						k = dk
					}
				}
				pkgConsts[n.Name] = constDef{e, k}
			}
			allErrs = append(allErrs, ct.errs...)
		}
	}
	// signatures first: functions may call each other in any source order
	tparamOf := func(fd *ast.FuncDecl) (string, bool) {
		if fd.Type.TypeParams == nil {
			return "", true
		}
		l := fd.Type.TypeParams.List
		if len(l) != 1 || len(l[0].Names) != 1 {
			return "", false
		}

		return l[0].Names[0].Name, true
	}
	for _, d := range f.Decls {
		fd, ok := d.(*ast.FuncDecl)
		if !ok || fd.Recv != nil || fd.Body == nil {
			continue
		}
		tp, _ := tparamOf(fd)
		rt := &tr{fset: fset, tparam: tp}
		sg := sig{generic: fd.Type.TypeParams != nil}
		for _, p := range fd.Type.Params.List {
			k, _ := rt.tyName(p.Type)
			for range p.Names {
				sg.params = append(sg.params, k)
			}
		}
		var tys []ty
		named := false
		if rs := fd.Type.Results; rs != nil {
			for _, r := range rs.List {
				if len(r.Names) > 0 {
					named = true
				}
				k, ok := rt.tyName(r.Type)
				if id, isId := r.Type.(*ast.Ident); !ok && isId && id.Name == "error" {
					k = "error"
				}
				n := len(r.Names)
				if n == 0 {
					n = 1
				}
				for i := 0; i < n; i++ {
					tys = append(tys, k)
				}
			}
		}
		allVals := len(tys) > 0
		for _, k := range tys {
			if !(k == "bool" || isIntTy(k)) {
				allVals = false
			}
		}
		if named {
			// named results are plain locals (zero-initialised) as long as every return states its results
			ast.Inspect(fd.Body, func(n ast.Node) bool {
				if _, isLit := n.(*ast.FuncLit); isLit {
					return false
				}
				if r, ok := n.(*ast.ReturnStmt); ok && len(r.Results) == 0 {
					named = false
					tys = nil // bare return: unsupported
				}

				return true
			})
			if named {
				for _, r := range fd.Type.Results.List {
					if k, ok := rt.tyName(r.Type); ok {
						for _, n := range r.Names {
							if n.Name != "_" {
								namedResults[fd.Name.Name] = append(namedResults[fd.Name.Name], namedResult{n.Name, k})
							}
						}
					}
				}
			}
		}
		switch {
		case len(tys) == 2 && isIntTy(tys[0]) && tys[1] == "error":
			sg.result, sg.resTy = "res", tys[0]
		case len(tys) == 1 && tys[0] == "error":
			sg.result = "error"
		case len(tys) == 1 && allVals:
			sg.result = string(tys[0])
		case len(tys) == 2 && allVals:
			sg.result, sg.tuple = "tuple", tys
		}
		sigs[fd.Name.Name] = sg
		// error helper: `func f(…) error { return <error expr> }`
		if sg.result == "error" && len(fd.Body.List) == 1 {
			if r, ok := fd.Body.List[0].(*ast.ReturnStmt); ok && len(r.Results) == 1 {
				ov, dz := mentions(r.Results[0], "ErrIntegerOverflow"), mentions(r.Results[0], "ErrIntegerDivisionByZero")
				if ov != dz {
					res := "overflow"
					if dz {
						res = "divzero"
					}
					errHelpers[fd.Name.Name] = errHelperDef{res, errToks(fset, r.Results[0], nil)}
				}
			}
		}
	}
	// functions with a type switch and, transitively, their callers take the module variable `named_`
	{
		callees := map[string]map[string]bool{}
		for _, d := range f.Decls {
			fd, ok := d.(*ast.FuncDecl)
			if !ok || fd.Recv != nil || fd.Body == nil {
				continue
			}
			callees[fd.Name.Name] = map[string]bool{}
			ast.Inspect(fd.Body, func(n ast.Node) bool {
				switch n := n.(type) {
				case *ast.TypeSwitchStmt:
					needsNamed[fd.Name.Name] = true
				case *ast.CallExpr:
					if name, _, ok := calleeOf(n); ok {
						if _, isFn := sigs[name]; isFn {
							callees[fd.Name.Name][name] = true
						}
					}
				}

				return true
			})
		}
		for changed := true; changed; {
			changed = false
			for fn, cs := range callees {
				if needsNamed[fn] || !sigs[fn].generic {
					continue // a non-generic caller instantiates with predeclared types: it passes `false`
				}
				for c := range cs {
					if needsNamed[c] {
						needsNamed[fn] = true
						changed = true
					}
				}
			}
		}
		if len(needsNamed) > 0 {
			out.WriteString("-- `true` when the type argument is a defined type (`type Amount uint64`), which no case of a type switch over the predeclared types matches\nvariable (named_ : Bool)\n\n")
		}
	}
	type emitted struct {
		name, text string
		calls      map[string]bool
	}
	var defs []emitted
	for _, d := range f.Decls {
		fd, ok := d.(*ast.FuncDecl)
		if !ok || fd.Recv != nil || fd.Body == nil {
			continue
		}
		if _, ok := errHelpers[fd.Name.Name]; ok {
			continue // inlined at its call sites (error sites)
		}
		sg := sigs[fd.Name.Name]
		t := &tr{fset: fset, env: map[string]ty{}, fn: fd.Name.Name, result: sg.result, tuple: sg.tuple}
		if t.result == "" || t.result == "error" {
			t.fail(fd, "unsupported result types")
		}
		var params []string
		if fd.Type.TypeParams != nil {
			tp, ok := tparamOf(fd)
			if !ok {
				t.fail(fd, "unsupported type parameters")
			}
			t.tparam = tp
			t.gen = true
			params = append(params, "(T : IntTy)")
		}
		for _, p := range fd.Type.Params.List {
			k, ok := t.tyName(p.Type)
			if !ok {
				t.fail(p, "unsupported parameter type")

				continue
			}
			for _, n := range p.Names {
				t.env[n.Name] = k
				lt := "Int"
				if k == "bool" {
					lt = "Bool"
				}
				params = append(params, fmt.Sprintf("(%s : %s)", leanName(n.Name), lt))
			}
		}
		var prelude string
		for _, nr := range namedResults[fd.Name.Name] {
			if _, clash := t.env[nr.name]; clash {
				continue
			}
			t.env[nr.name] = nr.k
			if nr.k == "bool" {
				prelude += fmt.Sprintf("  let %s : Bool := false\n", leanName(nr.name))
			} else {
				prelude += fmt.Sprintf("  let %s : Int := (0 : Int)\n", leanName(nr.name))
			}
		}
		body := prelude + t.block(fd.Body.List, 1, func(d int) string {
			t.fail(fd, "control reaches the end of the function without return")

			return ""
		})
		pos := fset.Position(fd.Pos())
		end := fset.Position(fd.End())
		lt := func(k ty) string {
			if k == "bool" {
				return "Bool"
			}

			return "Int"
		}
		rt := "Res Int"
		switch {
		case t.result == "tuple":
			rt = lt(t.tuple[0]) + " × " + lt(t.tuple[1])
		case t.result != "res":
			rt = lt(ty(t.result))
		}
		defs = append(defs, emitted{fd.Name.Name, fmt.Sprintf("/-- %s, safe_math.go:%d-%d -/\ndef %s %s : %s :=\n%s\n", fd.Name.Name, pos.Line, end.Line, leanFn(fd.Name.Name),
			strings.Join(params, " "), rt, body), t.calls})
		allErrs = append(allErrs, t.errs...)
		names = append(names, fd.Name.Name)
	}
	// Lean wants a definition before its use: source order, callees first
	done := map[string]bool{}
	for len(done) < len(defs) {
		progress := false
		for _, d := range defs {
			if done[d.name] {
				continue
			}
			ready := true
			for c := range d.calls {
				if !done[c] {
					ready = false
				}
			}
			if ready {
				out.WriteString(d.text)
				done[d.name] = true
				progress = true
			}
		}
		if !progress {
			allErrs = append(allErrs, "recursive calls between the functions of safe_math.go are not supported")

			break
		}
	}
	fmt.Fprintf(&out, "def translated : List String := [%s]\n\n", `"`+strings.Join(names, `", "`)+`"`)
	if corpus {
		var gen, wide, namedFns []string
		for _, n := range names {
			sg := sigs[n]
			switch {
			case needsNamed[n] && sg.generic && sg.result == "res" && sg.resTy == "T" && len(sg.params) == 2 && sg.params[0] == "T" && sg.params[1] == "T":
				namedFns = append(namedFns, fmt.Sprintf("(%s, %s)", leanStr(n), leanFn(n)))
			case sg.generic && sg.result == "res" && sg.resTy == "T" && len(sg.params) == 2 && sg.params[0] == "T" && sg.params[1] == "T":
				gen = append(gen, fmt.Sprintf("(%s, %s)", leanStr(n), leanFn(n)))
			case !sg.generic && sg.result == "res" && sg.resTy == "uint64" && len(sg.params) == 2 && sg.params[0] == "uint64" && sg.params[1] == "uint64":
				wide = append(wide, fmt.Sprintf("(%s, %s)", leanStr(n), leanFn(n)))
			}
		}
		fmt.Fprintf(&out, "/-- the functions of shape `f[T](x, y T) (T, error)` -/\ndef corpusGeneric : List (String × (IntTy → Int → Int → Res Int)) := [%s]\n\n", strings.Join(gen, ", "))
		fmt.Fprintf(&out, "/-- the functions of that shape with a type switch (first argument: the type argument is a defined type) -/\ndef corpusNamed : List (String × (Bool → IntTy → Int → Int → Res Int)) := [%s]\n\n", strings.Join(namedFns, ", "))
		fmt.Fprintf(&out, "/-- the functions of shape `f(x, y uint64) (uint64, error)` -/\ndef corpusU64 : List (String × (Int → Int → Res Int)) := [%s]\n\nend Hive.Gen.SafeMathCorpus\n", strings.Join(wide, ", "))
		if len(allErrs) > 0 {
			for _, e := range allErrs {
				fmt.Fprintln(os.Stderr, "translate-safemath:", e)
			}
			os.Exit(1)
		}
		if err := os.WriteFile(os.Args[2], []byte(out.String()), 0o644); err != nil {
			fmt.Fprintln(os.Stderr, err)
			os.Exit(1)
		}

		return
	}
	// error identities
	ws, err := wrappers(filepath.Join(filepath.Dir(os.Args[1]), "..", "..", "ierrors", "ierrors_no_stacktrace.go"))
	if err != nil {
		allErrs = append(allErrs, "ierrors wrappers: "+err.Error())
	}
	var uniq []string
	seenSite := map[string]bool{}
	for _, s := range sites {
		if !seenSite[s] {
			seenSite[s] = true
			uniq = append(uniq, s)
		}
	}
	// type facts: the union of the Integer constraint and the parameter / result types of the exported functions (names of
	// parameters are left out: renaming one is not a change of the interface)
	src := func(e ast.Expr) string {
		var b strings.Builder
		printer.Fprint(&b, fset, e)

		return b.String()
	}
	var constraint, sigTexts []string
	for _, d := range f.Decls {
		switch d := d.(type) {
		case *ast.GenDecl:
			if d.Tok != token.TYPE {
				continue
			}
			for _, sp := range d.Specs {
				ts := sp.(*ast.TypeSpec)
				it, ok := ts.Type.(*ast.InterfaceType)
				if !ok || ts.Name.Name != "Integer" {
					continue
				}
				for _, m := range it.Methods.List {
					var walk func(e ast.Expr)
					walk = func(e ast.Expr) {
						if be, ok := e.(*ast.BinaryExpr); ok && be.Op == token.OR {
							walk(be.X)
							walk(be.Y)

							return
						}
						constraint = append(constraint, leanStr(strings.ReplaceAll(src(e), " ", "")))
					}
					if len(m.Names) == 0 {
						walk(m.Type)
					} else {
						constraint = append(constraint, leanStr("method "+m.Names[0].Name))
					}
				}
			}
		case *ast.FuncDecl:
			if d.Recv != nil || !d.Name.IsExported() {
				continue
			}
			list := func(fl *ast.FieldList) string {
				if fl == nil {
					return ""
				}
				var parts []string
				for _, fld := range fl.List {
					n := len(fld.Names)
					if n == 0 {
						n = 1
					}
					for i := 0; i < n; i++ {
						parts = append(parts, src(fld.Type))
					}
				}

				return strings.Join(parts, ", ")
			}
			tp := ""
			if d.Type.TypeParams != nil {
				var parts []string
				for _, fld := range d.Type.TypeParams.List {
					for range fld.Names {
						parts = append(parts, src(fld.Type))
					}
				}
				tp = "[" + strings.Join(parts, ", ") + "]"
			}
			// the type parameter is printed as T whatever it is called
			sgn := tp + "(" + list(d.Type.Params) + ") (" + list(d.Type.Results) + ")"
			if d.Type.TypeParams != nil && len(d.Type.TypeParams.List) == 1 && len(d.Type.TypeParams.List[0].Names) == 1 {
				if name := d.Type.TypeParams.List[0].Names[0].Name; name != "T" {
					sgn = tp + "(" + renameType(list(d.Type.Params), name) + ") (" + renameType(list(d.Type.Results), name) + ")"
				}
			}
			sigTexts = append(sigTexts, fmt.Sprintf("(%s, %s)", leanStr(d.Name.Name), leanStr(sgn)))
		}
	}
	fmt.Fprintf(&out, "/-- the type set of the constraint `Integer` -/\ndef integerConstraint : List String := [%s]\n\n", strings.Join(constraint, ", "))
	fmt.Fprintf(&out, "/-- type parameters, parameter types and result types of the exported functions -/\ndef signatures : List (String × String) := [\n  %s]\n\n", strings.Join(sigTexts, ",\n  "))
	out.WriteString("open Hive.SafeMathErr in\n/-- the package-level error variables of safe_math.go and their definitions -/\n")
	fmt.Fprintf(&out, "def sentinelDefs : List (String × List Tok) := [%s]\n\n", strings.Join(sentinelDefs, ", "))
	out.WriteString("open Hive.SafeMathErr in\n/-- the return statements of the exported ierrors functions (default build, ierrors_no_stacktrace.go) whose first parameter is an error -/\n")
	fmt.Fprintf(&out, "def ierrorsWrappers : List Wrapper := %s\n\n", ws)
	out.WriteString("open Hive.SafeMathErr in\n/-- every `return …, <error>` of the translated functions -/\n")
	fmt.Fprintf(&out, "def errorSites : List Site := [\n%s]\n\nend Hive.Gen.SafeMath\n", strings.Join(uniq, ",\n"))
	if len(allErrs) > 0 {
		for _, e := range allErrs {
			fmt.Fprintln(os.Stderr, "translate-safemath:", e)
		}
		os.Exit(1)
	}
	if err := os.WriteFile(os.Args[2], []byte(out.String()), 0o644); err != nil {
		fmt.Fprintln(os.Stderr, err)
		os.Exit(1)
	}
}
