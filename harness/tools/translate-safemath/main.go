// translate-safemath turns core/safemath/safe_math.go into a Lean 4 module (Hive/Gen/C19_SafeMath.lean).
//
// Supported subset: top-level functions over integer types (a type parameter constrained by Integer, or
// the concrete types uint64 / int64 / uint8 / bool) made of `:=`, `var x T = e`, `=`, `if / else if / else`,
// `return v, nil` / `return 0, <expr mentioning ErrIntegerOverflow | ErrIntegerDivisionByZero>`, integer
// literals, + - * / << >> & == != < > <= >= && || !, unary minus, conversions between integer types,
// bits.Mul64, bits.Div64 and lo.Return1.  Anything else is a translation failure (non-zero exit).
//
// Go integers become Lean `Int`s that are kept in range by `IntTy.wrap` after every arithmetic
// operation (semantics in Hive/Base/GoInt.lean).  Mutable locals become `let` shadowing; an `if` that
// only assigns becomes a tuple-valued `if`; an `if` that may return duplicates the rest of the block
// into the branches that fall through.
package main

import (
	"fmt"
	"go/ast"
	"go/parser"
	"go/printer"
	"go/token"
	"os"
	"path/filepath"
	"sort"
	"strconv"
	"strings"
)

type ty string // "T" (generic), "uint64", "int64", "uint8", "bool", "lit" (untyped constant)

type tr struct {
	fset   *token.FileSet
	env    map[string]ty
	out    *strings.Builder
	errs   []string
	gen    bool // function is generic in T
	copies int
	fn     string
	result string          // "res" = (T, error); "bool"; or an integer type
	calls  map[string]bool // translated functions this one calls
	errVar map[string]string // error variables of `v, err := F(…)` inside the arm of the callee's answer: the Res constructor
}

// sig is the signature of a top-level function of the file (calls between translated functions).
type sig struct {
	generic bool
	params  []ty
	result  string
}

var sigs = map[string]sig{}

// Go's math constants that bound the integer types
var mathConsts = map[string]string{
	"MaxInt8": "127", "MinInt8": "-128", "MaxUint8": "255", "MaxInt16": "32767", "MinInt16": "-32768", "MaxUint16": "65535",
	"MaxInt32": "2147483647", "MinInt32": "-2147483648", "MaxUint32": "4294967295",
	"MaxInt64": "9223372036854775807", "MinInt64": "-9223372036854775808", "MaxUint64": "18446744073709551615",
}

// callText renders a call of a translated function (arguments are translated; the callee's T is the caller's T).
func (t *tr) callText(e *ast.CallExpr) (string, sig, bool) {
	id, ok := e.Fun.(*ast.Ident)
	if !ok {
		return "", sig{}, false
	}
	sg, ok := sigs[id.Name]
	if !ok || len(e.Args) != len(sg.params) {
		return "", sig{}, false
	}
	parts := []string{id.Name}
	if sg.generic {
		if !t.gen {
			t.fail(e, "call of a generic function from a non-generic one (type argument unknown)")
		}
		parts = append(parts, "T")
	}
	for i, a := range e.Args {
		x, k := t.expr(a)
		want := sg.params[i]
		if k != "lit" && k != want {
			t.fail(a, fmt.Sprintf("argument type %s, parameter type %s", k, want))
		}
		parts = append(parts, x)
	}
	if t.calls == nil {
		t.calls = map[string]bool{}
	}
	t.calls[id.Name] = true

	return "(" + strings.Join(parts, " ") + ")", sg, true
}

// error-identity facts (rendered into the generated module, evaluated by Hive/Model/SafeMathErr.lean)
var (
	sentinelNames = map[string]bool{}
	sites         []string
)

func leanStr(s string) string { return strconv.Quote(s) }

// countW returns the verbs of a literal format string in order (one byte per verb), false when the format uses
// explicit argument indexes or `*` widths (then the verb-to-argument mapping is not positional).
func fmtVerbs(f string) ([]byte, bool) {
	var verbs []byte
	for i := 0; i < len(f); i++ {
		if f[i] != '%' {
			continue
		}
		i++
		for i < len(f) && strings.IndexByte("+-# 0123456789.", f[i]) >= 0 {
			i++
		}
		if i >= len(f) {
			return nil, false
		}
		if f[i] == '%' {
			continue
		}
		if f[i] == '[' || f[i] == '*' {
			return nil, false
		}
		verbs = append(verbs, f[i])
	}

	return verbs, true
}

// errToks renders an error-valued expression in postfix form (see Hive/Model/SafeMathErr.lean).
func errToks(fset *token.FileSet, e ast.Expr, params map[string]bool) []string {
	src := func() string {
		var b strings.Builder
		printer.Fprint(&b, fset, e)

		return b.String()
	}
	switch e := e.(type) {
	case *ast.ParenExpr:
		return errToks(fset, e.X, params)
	case *ast.Ident:
		if params[e.Name] {
			return []string{".param " + leanStr(e.Name)}
		}
		if sentinelNames[e.Name] {
			return []string{".sentinel " + leanStr(e.Name)}
		}
	case *ast.CallExpr:
		sel, ok := e.Fun.(*ast.SelectorExpr)
		if !ok {
			break
		}
		pk, ok := sel.X.(*ast.Ident)
		if !ok {
			break
		}
		name := pk.Name + "." + sel.Sel.Name
		switch name {
		case "ierrors.New", "errors.New":
			return []string{".fresh"}
		case "ierrors.Errorf", "fmt.Errorf":
			if len(e.Args) == 0 {
				break
			}
			lit, ok := e.Args[0].(*ast.BasicLit)
			if !ok || lit.Kind != token.STRING {
				return []string{".errorfDyn"}
			}
			f, err := strconv.Unquote(lit.Value)
			if err != nil {
				break
			}
			verbs, ok := fmtVerbs(f)
			if !ok || len(verbs) > len(e.Args)-1 || e.Ellipsis != token.NoPos {
				break
			}
			var out []string
			n := 0
			for i, v := range verbs {
				if v == 'w' {
					out = append(out, errToks(fset, e.Args[1+i], params)...)
					n++
				}
			}
			if n == 0 {
				return []string{".fresh"}
			}

			return append(out, fmt.Sprintf(".errorf %d", n))
		case "ierrors.Join", "errors.Join":
			if e.Ellipsis != token.NoPos {
				break
			}
			var out []string
			for _, a := range e.Args {
				out = append(out, errToks(fset, a, params)...)
			}

			return append(out, fmt.Sprintf(".join %d", len(e.Args)))
		default:
			if pk.Name == "ierrors" && len(e.Args) >= 1 {
				return append(errToks(fset, e.Args[0], params), ".call "+leanStr(sel.Sel.Name))
			}
		}
	}

	return []string{".opaque " + leanStr(src())}
}

// wrappers renders the return statements of the error-wrapping functions of the ierrors package (default build:
// ierrors_no_stacktrace.go) whose first parameter is an error.
func wrappers(path string) (string, error) {
	fset := token.NewFileSet()
	f, err := parser.ParseFile(fset, path, nil, 0)
	if err != nil {
		return "", err
	}
	var items []string
	for _, d := range f.Decls {
		fd, ok := d.(*ast.FuncDecl)
		if !ok || fd.Recv != nil || fd.Body == nil || !fd.Name.IsExported() || len(fd.Type.Params.List) == 0 {
			continue
		}
		first := fd.Type.Params.List[0]
		if id, ok := first.Type.(*ast.Ident); !ok || id.Name != "error" || len(first.Names) != 1 {
			continue
		}
		params := map[string]bool{first.Names[0].Name: true}
		var others []string
		for _, p := range fd.Type.Params.List[1:] {
			for _, n := range p.Names {
				params[n.Name] = true
				others = append(others, leanStr(n.Name))
			}
		}
		var rets []string
		ast.Inspect(fd.Body, func(n ast.Node) bool {
			if r, ok := n.(*ast.ReturnStmt); ok && len(r.Results) == 1 {
				rets = append(rets, "["+strings.Join(errToks(fset, r.Results[0], params), ", ")+"]")
			}

			return true
		})
		items = append(items, fmt.Sprintf("  { name := %s, first := %s, others := [%s],\n    rets := [%s] }", leanStr(fd.Name.Name), leanStr(first.Names[0].Name),
			strings.Join(others, ", "), strings.Join(rets, ",\n             ")))
	}

	return "[\n" + strings.Join(items, ",\n") + "]", nil
}

func (t *tr) fail(n ast.Node, msg string) {
	t.errs = append(t.errs, fmt.Sprintf("%s: %s", t.fset.Position(n.Pos()), msg))
}

func leanTy(x ty) string {
	switch x {
	case "T":
		return "T"
	case "uint64":
		return "IntTy.u64"
	case "int64":
		return "IntTy.i64"
	case "uint8":
		return "IntTy.u8"
	case "uint", "uintptr": // 64-bit platforms
		return "IntTy.u64"
	case "int":
		return "IntTy.i64"
	case "uint32":
		return "IntTy.u32"
	case "int32":
		return "IntTy.i32"
	case "uint16":
		return "IntTy.u16"
	case "int16":
		return "IntTy.i16"
	case "int8":
		return "IntTy.i8"
	}

	return "IntTy.BAD"
}

func isIntTy(x ty) bool {
	switch x {
	case "T", "uint64", "int64", "uint32", "int32", "uint16", "int16", "uint8", "int8", "uint", "int", "uintptr":
		return true
	}

	return false
}

func unify(a, b ty) ty {
	if a == "lit" {
		return b
	}

	return a
}

// expr translates an expression and returns its Lean text and Go type.
func (t *tr) expr(e ast.Expr) (string, ty) {
	switch e := e.(type) {
	case *ast.ParenExpr:
		s, k := t.expr(e.X)

		return "(" + s + ")", k
	case *ast.BasicLit:
		if e.Kind == token.INT {
			return "(" + e.Value + " : Int)", "lit"
		}
	case *ast.Ident:
		switch e.Name {
		case "true":
			return "true", "bool"
		case "false":
			return "false", "bool"
		}
		if k, ok := t.env[e.Name]; ok {
			return leanName(e.Name), k
		}
		t.fail(e, "unknown identifier "+e.Name)

		return "?", "lit"
	case *ast.UnaryExpr:
		s, k := t.expr(e.X)
		switch e.Op {
		case token.SUB:
			if k == "lit" {
				return "(-" + s + ")", "lit"
			}

			return fmt.Sprintf("(%s.neg %s)", leanTy(k), s), k
		case token.NOT:
			return "(!" + s + ")", "bool"
		case token.XOR:
			if k != "lit" && isIntTy(k) {
				return fmt.Sprintf("(%s.not %s)", leanTy(k), s), k
			}
		}
	case *ast.BinaryExpr:
		a, ka := t.expr(e.X)
		b, kb := t.expr(e.Y)
		switch e.Op {
		case token.LAND:
			return fmt.Sprintf("(%s && %s)", a, b), "bool"
		case token.LOR:
			return fmt.Sprintf("(%s || %s)", a, b), "bool"
		case token.SHL, token.SHR:
			op := "shl"
			if e.Op == token.SHR {
				op = "shr"
			}
			if ka == "lit" { // constant expression: exact integer arithmetic
				if e.Op == token.SHR {
					return fmt.Sprintf("(%s / 2 ^ (%s).toNat)", a, b), "lit"
				}

				return fmt.Sprintf("(%s * 2 ^ (%s).toNat)", a, b), "lit"
			}

			return fmt.Sprintf("(%s.%s %s %s)", leanTy(ka), op, a, b), ka
		}
		k := unify(ka, kb)
		if ka != "lit" && kb != "lit" && ka != kb {
			t.fail(e, fmt.Sprintf("operand types differ: %s vs %s", ka, kb))
		}
		if k == "bool" {
			switch e.Op {
			case token.EQL:
				return fmt.Sprintf("(%s == %s)", a, b), "bool"
			case token.NEQ:
				return fmt.Sprintf("(%s != %s)", a, b), "bool"
			}
		}
		if k == "lit" { // constant expression: exact integer arithmetic
			switch e.Op {
			case token.ADD:
				return fmt.Sprintf("(%s + %s)", a, b), "lit"
			case token.SUB:
				return fmt.Sprintf("(%s - %s)", a, b), "lit"
			case token.MUL:
				return fmt.Sprintf("(%s * %s)", a, b), "lit"
			case token.QUO:
				return fmt.Sprintf("(Int.tdiv %s %s)", a, b), "lit"
			}
		}
		switch e.Op {
		case token.ADD:
			return fmt.Sprintf("(%s.add %s %s)", leanTy(k), a, b), k
		case token.SUB:
			return fmt.Sprintf("(%s.sub %s %s)", leanTy(k), a, b), k
		case token.MUL:
			return fmt.Sprintf("(%s.mul %s %s)", leanTy(k), a, b), k
		case token.QUO:
			return fmt.Sprintf("(%s.div %s %s)", leanTy(k), a, b), k
		case token.AND:
			return fmt.Sprintf("(%s.and %s %s)", leanTy(k), a, b), k
		case token.OR:
			return fmt.Sprintf("(%s.or %s %s)", leanTy(k), a, b), k
		case token.XOR:
			return fmt.Sprintf("(%s.xor %s %s)", leanTy(k), a, b), k
		case token.AND_NOT:
			return fmt.Sprintf("(%s.andNot %s %s)", leanTy(k), a, b), k
		case token.REM:
			return fmt.Sprintf("(%s.rem %s %s)", leanTy(k), a, b), k
		case token.EQL:
			return fmt.Sprintf("(decide (%s = %s))", a, b), "bool"
		case token.NEQ:
			return fmt.Sprintf("(decide (%s ≠ %s))", a, b), "bool"
		case token.LSS:
			return fmt.Sprintf("(decide (%s < %s))", a, b), "bool"
		case token.GTR:
			return fmt.Sprintf("(decide (%s > %s))", a, b), "bool"
		case token.LEQ:
			return fmt.Sprintf("(decide (%s ≤ %s))", a, b), "bool"
		case token.GEQ:
			return fmt.Sprintf("(decide (%s ≥ %s))", a, b), "bool"
		}
	case *ast.SelectorExpr:
		if pk, ok := e.X.(*ast.Ident); ok && pk.Name == "math" {
			if v, ok := mathConsts[e.Sel.Name]; ok {
				return "(" + v + " : Int)", "lit"
			}
		}
	case *ast.CallExpr:
		// calls of other translated functions with a single result
		if txt, sg, ok := t.callText(e); ok {
			if sg.result == "res" {
				t.fail(e, "call of a (T, error) function inside an expression")
			}

			return txt, ty(sg.result)
		}
		// conversions
		if id, ok := e.Fun.(*ast.Ident); ok && len(e.Args) == 1 {
			to := ty(id.Name)
			if isIntTy(to) {
				s, _ := t.expr(e.Args[0])

				return fmt.Sprintf("(%s.wrap %s)", leanTy(to), s), to
			}
		}
		if sel, ok := e.Fun.(*ast.SelectorExpr); ok {
			if pk, ok := sel.X.(*ast.Ident); ok {
				name := pk.Name + "." + sel.Sel.Name
				switch name {
				case "unsafe.Sizeof": // of a value of the type parameter: the width in bytes (an untyped constant in Go)
					if len(e.Args) == 1 {
						if _, k := t.expr(e.Args[0]); k == "T" {
							return "((T.bits : Int) / 8)", "lit"
						}
					}
				case "lo.Return1":
					if len(e.Args) == 1 {
						s, k := t.expr(e.Args[0])
						if k == "pair" {
							return "(" + s + ").1", "uint64"
						}
					}
				case "bits.Mul64":
					a, _ := t.expr(e.Args[0])
					b, _ := t.expr(e.Args[1])

					return fmt.Sprintf("(mul64 %s %s)", a, b), "pair"
				case "bits.Div64":
					a, _ := t.expr(e.Args[0])
					b, _ := t.expr(e.Args[1])
					c, _ := t.expr(e.Args[2])

					return fmt.Sprintf("(div64 %s %s %s)", a, b, c), "pair?"
				}
			}
		}
	}
	t.fail(e, fmt.Sprintf("unsupported expression %T", e))

	return "?", "lit"
}

func leanName(s string) string {
	switch s {
	case "lo", "hi", "val", "div", "result", "shift":
		return s + "_"
	}

	return s
}

func mayReturn(s ast.Stmt) bool {
	found := false
	ast.Inspect(s, func(n ast.Node) bool {
		if _, ok := n.(*ast.ReturnStmt); ok {
			found = true
		}

		return true
	})

	return found
}

// assigned collects outer variables assigned with `=` inside s.
func assigned(s ast.Stmt, acc map[string]bool) {
	ast.Inspect(s, func(n ast.Node) bool {
		if ids, ok := n.(*ast.IncDecStmt); ok {
			if id, ok := ids.X.(*ast.Ident); ok {
				acc[id.Name] = true
			}
		}
		if a, ok := n.(*ast.AssignStmt); ok && a.Tok != token.DEFINE {
			for _, l := range a.Lhs {
				if id, ok := l.(*ast.Ident); ok {
					acc[id.Name] = true
				}
			}
		}

		return true
	})
}

func ind(n int) string { return strings.Repeat("  ", n) }

// block translates stmts followed by the continuation k (Lean text producing the block's value).
func (t *tr) block(stmts []ast.Stmt, depth int, k func(depth int) string) string {
	if len(stmts) == 0 {
		return k(depth)
	}
	s, rest := stmts[0], stmts[1:]
	cont := func(d int) string { return t.block(rest, d, k) }
	switch s := s.(type) {
	case *ast.ReturnStmt:
		return ind(depth) + t.ret(s) + "\n"
	case *ast.DeclStmt:
		gd, ok := s.Decl.(*ast.GenDecl)
		if !ok || gd.Tok != token.VAR || len(gd.Specs) != 1 {
			t.fail(s, "unsupported declaration")

			return ""
		}
		vs := gd.Specs[0].(*ast.ValueSpec)
		if len(vs.Names) != 1 || len(vs.Values) != 1 {
			t.fail(s, "unsupported var spec")

			return ""
		}
		e, _ := t.expr(vs.Values[0])
		k := ty(vs.Type.(*ast.Ident).Name)
		t.env[vs.Names[0].Name] = k

		return fmt.Sprintf("%slet %s : Int := %s\n", ind(depth), leanName(vs.Names[0].Name), e) + cont(depth)
	case *ast.IncDecStmt:
		op := token.ADD
		if s.Tok == token.DEC {
			op = token.SUB
		}
		as := &ast.AssignStmt{Lhs: []ast.Expr{s.X}, TokPos: s.TokPos, Tok: token.ASSIGN,
			Rhs: []ast.Expr{&ast.BinaryExpr{X: s.X, OpPos: s.TokPos, Op: op, Y: &ast.BasicLit{ValuePos: s.TokPos, Kind: token.INT, Value: "1"}}}}

		return t.block(append([]ast.Stmt{as}, rest...), depth, k)
	case *ast.AssignStmt:
		if op, ok := compoundOps[s.Tok]; ok && len(s.Lhs) == 1 && len(s.Rhs) == 1 {
			as := &ast.AssignStmt{Lhs: s.Lhs, TokPos: s.TokPos, Tok: token.ASSIGN,
				Rhs: []ast.Expr{&ast.BinaryExpr{X: s.Lhs[0], OpPos: s.TokPos, Op: op, Y: &ast.ParenExpr{X: s.Rhs[0]}}}}

			return t.block(append([]ast.Stmt{as}, rest...), depth, k)
		}
		if call, ok := s.Rhs[0].(*ast.CallExpr); ok && len(s.Rhs) == 1 && len(s.Lhs) == 2 && s.Tok == token.DEFINE {
			if id, ok := call.Fun.(*ast.Ident); ok && sigs[id.Name].result == "res" {
				// v, err := F(...); if err != nil { return …, err }   (the error of the callee is passed on)
				txt, sg, _ := t.callText(call)
				v, ev := s.Lhs[0].(*ast.Ident), s.Lhs[1].(*ast.Ident)
				if len(rest) == 0 || !isErrCheck(rest[0], ev.Name) {
					t.fail(s, "result of a (T, error) call must be followed by `if err != nil { … return … }`")

					return ""
				}
				errBody := rest[0].(*ast.IfStmt).Body.List
				arm := func(con string) string {
					if t.errVar == nil {
						t.errVar = map[string]string{}
					}
					saved := t.snapshot()
					t.errVar[ev.Name] = con
					b := t.block(errBody, depth+2, func(int) string {
						t.fail(rest[0], "the error branch must return")

						return ""
					})
					delete(t.errVar, ev.Name)
					t.restore(saved)

					return fmt.Sprintf("%s| %s =>\n%s", ind(depth), con, b)
				}
				armOv, armDz := arm("Res.overflow"), arm("Res.divzero")
				rty := ty("T")
				if !sg.generic {
					rty = resultInt[id.Name]
				}
				t.env[v.Name] = rty
				body := t.block(rest[1:], depth+1, k)

				return fmt.Sprintf("%smatch %s with\n%s%s%s| Res.panic => Res.panic\n%s| Res.ok %s =>\n%s",
					ind(depth), txt, armOv, armDz, ind(depth), ind(depth), leanName(v.Name), body)
			}
		}
		if len(s.Rhs) == 1 && len(s.Lhs) == 2 {
			// hi, lo := bits.Mul64(...)
			e, k := t.expr(s.Rhs[0])
			if k != "pair" {
				t.fail(s, "two-value assignment from a non-pair")
			}
			a, b := s.Lhs[0].(*ast.Ident).Name, s.Lhs[1].(*ast.Ident).Name
			t.env[a], t.env[b] = "uint64", "uint64"

			return fmt.Sprintf("%slet %s := %s.1\n%slet %s := %s.2\n", ind(depth), leanName(a), e, ind(depth), leanName(b), e) + cont(depth)
		}
		if len(s.Lhs) != 1 || len(s.Rhs) != 1 {
			t.fail(s, "unsupported assignment")

			return ""
		}
		id := s.Lhs[0].(*ast.Ident)
		e, k := t.expr(s.Rhs[0])
		if s.Tok == token.DEFINE {
			if k == "lit" {
				t.fail(s, "untyped constant definition")
			}
			t.env[id.Name] = k
		} else if old := t.env[id.Name]; k != "lit" && old != k {
			t.fail(s, fmt.Sprintf("assignment changes type %s -> %s", old, k))
		}
		tyAnn := "Int"
		if t.env[id.Name] == "bool" {
			tyAnn = "Bool"
		}

		return fmt.Sprintf("%slet %s : %s := %s\n", ind(depth), leanName(id.Name), tyAnn, e) + cont(depth)
	case *ast.IfStmt:
		if s.Init != nil {
			// `if v := e; cond {…}`: v is scoped to the statement; as a `let` in front of it that is the same unless v
			// shadows a variable the rest of the block may use
			if as, ok := s.Init.(*ast.AssignStmt); ok && as.Tok == token.DEFINE {
				for _, l := range as.Lhs {
					if id, ok := l.(*ast.Ident); ok {
						if _, shadows := t.env[id.Name]; shadows {
							t.fail(s, "if-init shadows "+id.Name)
						}
					}
				}
				plain := *s
				plain.Init = nil

				return t.block(append([]ast.Stmt{s.Init, &plain}, rest...), depth, k)
			}
			t.fail(s, "if with an init statement that is not a short variable declaration")
		}
		c, _ := t.expr(s.Cond)
		if !mayReturn(s) {
			// state threading: the if yields the tuple of variables it may assign
			set := map[string]bool{}
			assigned(s, set)
			var vars []string
			for v := range set {
				vars = append(vars, v)
			}
			sort.Strings(vars)
			if len(vars) == 0 {
				return cont(depth)
			}
			tuple := func(d int) string {
				var names []string
				for _, v := range vars {
					names = append(names, leanName(v))
				}
				if len(names) == 1 {
					return ind(d) + names[0] + "\n"
				}

				return ind(d) + "(" + strings.Join(names, ", ") + ")\n"
			}
			var pat []string
			for _, v := range vars {
				pat = append(pat, leanName(v))
			}
			lhs := pat[0]
			if len(pat) > 1 {
				lhs = "(" + strings.Join(pat, ", ") + ")"
			}
			saved := t.snapshot()
			thenS := t.block(s.Body.List, depth+2, tuple)
			t.restore(saved)
			elseS := tuple(depth + 2)
			if s.Else != nil {
				elseS = t.block(elseStmts(s.Else), depth+2, tuple)
				t.restore(saved)
			}

			return fmt.Sprintf("%slet %s :=\n%sif %s then\n%s%selse\n%s", ind(depth), lhs, ind(depth+1), c, thenS, ind(depth+1), elseS) + cont(depth)
		}
		// the statement may return: branches that fall through continue with the rest of the block
		t.copies++
		if t.copies > 64 {
			t.fail(s, "too many duplicated continuations")

			return ""
		}
		saved := t.snapshot()
		thenS := t.block(s.Body.List, depth+1, cont)
		t.restore(saved)
		var elseS string
		if s.Else != nil {
			elseS = t.block(elseStmts(s.Else), depth+1, cont)
		} else {
			elseS = cont(depth + 1)
		}
		t.restore(saved)

		return fmt.Sprintf("%sif %s then\n%s%selse\n%s", ind(depth), c, thenS, ind(depth), elseS)
	}
	t.fail(s, fmt.Sprintf("unsupported statement %T", s))

	return ""
}

var compoundOps = map[token.Token]token.Token{
	token.ADD_ASSIGN: token.ADD, token.SUB_ASSIGN: token.SUB, token.MUL_ASSIGN: token.MUL, token.QUO_ASSIGN: token.QUO, token.REM_ASSIGN: token.REM,
	token.AND_ASSIGN: token.AND, token.OR_ASSIGN: token.OR, token.XOR_ASSIGN: token.XOR, token.SHL_ASSIGN: token.SHL, token.SHR_ASSIGN: token.SHR,
	token.AND_NOT_ASSIGN: token.AND_NOT,
}

// integer result type of the non-generic (T, error) functions
var resultInt = map[string]ty{}

// isErrCheck recognises `if err != nil { … }` (the body is translated once per error the callee can answer).
func isErrCheck(s ast.Stmt, errName string) bool {
	is, ok := s.(*ast.IfStmt)
	if !ok || is.Init != nil || is.Else != nil {
		return false
	}
	c, ok := is.Cond.(*ast.BinaryExpr)
	if !ok || c.Op != token.NEQ {
		return false
	}
	x, ok1 := c.X.(*ast.Ident)
	y, ok2 := c.Y.(*ast.Ident)

	return ok1 && ok2 && x.Name == errName && y.Name == "nil"
}

// isErrPropagation recognises `if err != nil { return <anything>, err }`.
func isErrPropagation(s ast.Stmt, errName string) bool {
	is, ok := s.(*ast.IfStmt)
	if !ok || is.Init != nil || is.Else != nil || len(is.Body.List) != 1 {
		return false
	}
	c, ok := is.Cond.(*ast.BinaryExpr)
	if !ok || c.Op != token.NEQ {
		return false
	}
	x, ok1 := c.X.(*ast.Ident)
	y, ok2 := c.Y.(*ast.Ident)
	if !ok1 || !ok2 || x.Name != errName || y.Name != "nil" {
		return false
	}
	r, ok := is.Body.List[0].(*ast.ReturnStmt)
	if !ok || len(r.Results) != 2 {
		return false
	}
	e, ok := r.Results[1].(*ast.Ident)

	return ok && e.Name == errName
}

func elseStmts(s ast.Stmt) []ast.Stmt {
	if b, ok := s.(*ast.BlockStmt); ok {
		return b.List
	}

	return []ast.Stmt{s}
}

func (t *tr) snapshot() map[string]ty {
	m := map[string]ty{}
	for k, v := range t.env {
		m[k] = v
	}

	return m
}

func (t *tr) restore(m map[string]ty) {
	t.env = map[string]ty{}
	for k, v := range m {
		t.env[k] = v
	}
}

func mentions(e ast.Expr, name string) bool {
	found := false
	ast.Inspect(e, func(n ast.Node) bool {
		if id, ok := n.(*ast.Ident); ok && id.Name == name {
			found = true
		}

		return true
	})

	return found
}

func (t *tr) ret(s *ast.ReturnStmt) string {
	if t.result != "res" {
		if len(s.Results) != 1 {
			t.fail(s, "return must have one result")

			return "?"
		}
		e, _ := t.expr(s.Results[0])

		return e
	}
	if len(s.Results) == 1 {
		// return F(...): the callee's answer is the answer
		if call, ok := s.Results[0].(*ast.CallExpr); ok {
			if txt, sg, ok := t.callText(call); ok && sg.result == "res" {
				return txt
			}
		}
	}
	if len(s.Results) != 2 {
		t.fail(s, "return must have two results")

		return "?"
	}
	if id, ok := s.Results[1].(*ast.Ident); ok && id.Name == "nil" {
		// lo.Return1(bits.Div64(...))
		if call, ok := s.Results[0].(*ast.CallExpr); ok {
			if sel, ok := call.Fun.(*ast.SelectorExpr); ok && sel.Sel.Name == "Return1" && len(call.Args) == 1 {
				inner, ik := t.expr(call.Args[0])
				if ik == "pair?" {
					return fmt.Sprintf("match %s with | none => Res.panic | some p => Res.ok p.1", inner)
				}
			}
		}
		e, _ := t.expr(s.Results[0])

		return "Res.ok " + e
	}
	if id, ok := s.Results[1].(*ast.Ident); ok {
		if con, ok := t.errVar[id.Name]; ok {
			return con // the callee's error is passed on unchanged
		}
	}
	site := func(res string) {
		sites = append(sites, fmt.Sprintf("  { fn := %s, line := %d, res := %s, toks := [%s] }", leanStr(t.fn), t.fset.Position(s.Pos()).Line, leanStr(res),
			strings.Join(errToks(t.fset, s.Results[1], nil), ", ")))
	}
	switch {
	case mentions(s.Results[1], "ErrIntegerOverflow"):
		site("overflow")

		return "Res.overflow"
	case mentions(s.Results[1], "ErrIntegerDivisionByZero"):
		site("divzero")

		return "Res.divzero"
	}
	t.fail(s, "error result mentions neither ErrIntegerOverflow nor ErrIntegerDivisionByZero")

	return "?"
}

func main() {
	if len(os.Args) != 3 {
		fmt.Fprintln(os.Stderr, "usage: translate-safemath <safe_math.go> <out.lean>")
		os.Exit(2)
	}
	fset := token.NewFileSet()
	f, err := parser.ParseFile(fset, os.Args[1], nil, 0)
	if err != nil {
		fmt.Fprintln(os.Stderr, err)
		os.Exit(1)
	}
	var out strings.Builder
	out.WriteString("import Hive.Base.GoInt\nimport Hive.Model.SafeMathOps\nimport Hive.Model.SafeMathErr\n/-! GENERATED by harness/tools/translate-safemath from core/safemath/safe_math.go — do not edit. -/\n")
	out.WriteString("namespace Hive.Gen.SafeMath\nopen Hive.GoInt\n\n")
	var allErrs []string
	var names []string
	// package-level error variables: names first (an error expression may mention any of them), then definitions
	var sentinelDefs []string
	for _, d := range f.Decls {
		if gd, ok := d.(*ast.GenDecl); ok && gd.Tok == token.VAR {
			for _, sp := range gd.Specs {
				for _, n := range sp.(*ast.ValueSpec).Names {
					sentinelNames[n.Name] = true
				}
			}
		}
	}
	for _, d := range f.Decls {
		if gd, ok := d.(*ast.GenDecl); ok && gd.Tok == token.VAR {
			for _, sp := range gd.Specs {
				vs := sp.(*ast.ValueSpec)
				for i, n := range vs.Names {
					toks := []string{".opaque \"(no initialiser)\""}
					if len(vs.Values) == len(vs.Names) {
						toks = errToks(fset, vs.Values[i], nil)
					}
					sentinelDefs = append(sentinelDefs, fmt.Sprintf("(%s, [%s])", leanStr(n.Name), strings.Join(toks, ", ")))
				}
			}
		}
	}
	// signatures first: functions may call each other in any source order
	resultKind := func(fd *ast.FuncDecl) string {
		rs := fd.Type.Results
		if rs == nil {
			return ""
		}
		var tys []string
		for _, r := range rs.List {
			n := len(r.Names)
			if n == 0 {
				n = 1
			}
			id, ok := r.Type.(*ast.Ident)
			if !ok || len(r.Names) > 0 {
				return "" // named results / composite types: unsupported
			}
			for i := 0; i < n; i++ {
				tys = append(tys, id.Name)
			}
		}
		switch {
		case len(tys) == 2 && isIntTy(ty(tys[0])) && tys[1] == "error":
			return "res:" + tys[0]
		case len(tys) == 1 && (tys[0] == "bool" || isIntTy(ty(tys[0]))):
			return tys[0]
		}

		return ""
	}
	for _, d := range f.Decls {
		fd, ok := d.(*ast.FuncDecl)
		if !ok || fd.Recv != nil || fd.Body == nil {
			continue
		}
		sg := sig{generic: fd.Type.TypeParams != nil}
		for _, p := range fd.Type.Params.List {
			if id, ok := p.Type.(*ast.Ident); ok {
				for range p.Names {
					sg.params = append(sg.params, ty(id.Name))
				}
			}
		}
		rk := resultKind(fd)
		if strings.HasPrefix(rk, "res:") {
			sg.result = "res"
			resultInt[fd.Name.Name] = ty(rk[4:])
		} else {
			sg.result = rk
		}
		sigs[fd.Name.Name] = sg
	}
	type emitted struct {
		name, text string
		calls      map[string]bool
	}
	var defs []emitted
	for _, d := range f.Decls {
		fd, ok := d.(*ast.FuncDecl)
		if !ok || fd.Recv != nil || fd.Body == nil {
			continue
		}
		t := &tr{fset: fset, env: map[string]ty{}, fn: fd.Name.Name, result: sigs[fd.Name.Name].result}
		if t.result == "" {
			t.fail(fd, "unsupported result types")
		}
		var params []string
		if fd.Type.TypeParams != nil {
			if len(fd.Type.TypeParams.List) != 1 || len(fd.Type.TypeParams.List[0].Names) != 1 || fd.Type.TypeParams.List[0].Names[0].Name != "T" {
				t.fail(fd, "unsupported type parameters")
			}
			if id, ok := fd.Type.TypeParams.List[0].Type.(*ast.Ident); !ok || id.Name != "Integer" {
				t.fail(fd, "type parameter is not constrained by Integer")
			}
			t.gen = true
			params = append(params, "(T : IntTy)")
		}
		for _, p := range fd.Type.Params.List {
			id, ok := p.Type.(*ast.Ident)
			if !ok || !(isIntTy(ty(id.Name)) || id.Name == "bool") {
				t.fail(p, "unsupported parameter type")

				continue
			}
			for _, n := range p.Names {
				t.env[n.Name] = ty(id.Name)
				lt := "Int"
				if id.Name == "bool" {
					lt = "Bool"
				}
				params = append(params, fmt.Sprintf("(%s : %s)", leanName(n.Name), lt))
			}
		}
		body := t.block(fd.Body.List, 1, func(d int) string {
			t.fail(fd, "control reaches the end of the function without return")

			return ""
		})
		pos := fset.Position(fd.Pos())
		end := fset.Position(fd.End())
		rt := "Res Int"
		switch {
		case t.result == "bool":
			rt = "Bool"
		case t.result != "res":
			rt = "Int"
		}
		defs = append(defs, emitted{fd.Name.Name, fmt.Sprintf("/-- %s, safe_math.go:%d-%d -/\ndef %s %s : %s :=\n%s\n", fd.Name.Name, pos.Line, end.Line, fd.Name.Name,
			strings.Join(params, " "), rt, body), t.calls})
		allErrs = append(allErrs, t.errs...)
		names = append(names, fd.Name.Name)
	}
	// Lean wants a definition before its use: source order, callees first
	done := map[string]bool{}
	for len(done) < len(defs) {
		progress := false
		for _, d := range defs {
			if done[d.name] {
				continue
			}
			ready := true
			for c := range d.calls {
				if !done[c] {
					ready = false
				}
			}
			if ready {
				out.WriteString(d.text)
				done[d.name] = true
				progress = true
			}
		}
		if !progress {
			allErrs = append(allErrs, "recursive calls between the functions of safe_math.go are not supported")

			break
		}
	}
	fmt.Fprintf(&out, "def translated : List String := [%s]\n\n", `"`+strings.Join(names, `", "`)+`"`)
	// error identities
	ws, err := wrappers(filepath.Join(filepath.Dir(os.Args[1]), "..", "..", "ierrors", "ierrors_no_stacktrace.go"))
	if err != nil {
		allErrs = append(allErrs, "ierrors wrappers: "+err.Error())
	}
	var uniq []string
	seenSite := map[string]bool{}
	for _, s := range sites {
		if !seenSite[s] {
			seenSite[s] = true
			uniq = append(uniq, s)
		}
	}
	out.WriteString("open Hive.SafeMathErr in\n/-- the package-level error variables of safe_math.go and their definitions -/\n")
	fmt.Fprintf(&out, "def sentinelDefs : List (String × List Tok) := [%s]\n\n", strings.Join(sentinelDefs, ", "))
	out.WriteString("open Hive.SafeMathErr in\n/-- the return statements of the exported ierrors functions (default build, ierrors_no_stacktrace.go) whose first parameter is an error -/\n")
	fmt.Fprintf(&out, "def ierrorsWrappers : List Wrapper := %s\n\n", ws)
	out.WriteString("open Hive.SafeMathErr in\n/-- every `return …, <error>` of the translated functions -/\n")
	fmt.Fprintf(&out, "def errorSites : List Site := [\n%s]\n\nend Hive.Gen.SafeMath\n", strings.Join(uniq, ",\n"))
	if len(allErrs) > 0 {
		for _, e := range allErrs {
			fmt.Fprintln(os.Stderr, "translate-safemath:", e)
		}
		os.Exit(1)
	}
	if err := os.WriteFile(os.Args[2], []byte(out.String()), 0o644); err != nil {
		fmt.Fprintln(os.Stderr, err)
		os.Exit(1)
	}
}
