// C20 harness: drives the real app/daemon.OrderedDaemon with scripted and random life-cycle
// histories (workers with ties / negative orders / gaps, early finishers, slow and gated workers,
// workers added and re-registered while running, concurrent Shutdown/ShutdownAndWait/Run callers, the
// BackgroundWorker-vs-Shutdown window forced through the `verif` hook), records the observable events
// with an atomic logical clock and prints them as request lines.  The Lean driver (drv_c20) answers
//   - the `do` lines of sequential cases by simulating the protocol model (differential tie), and
//   - the final `check` line of every case by evaluating the C20 trace predicates on the event log.
//
// The impl column of `check` is the verdict of the independent Go oracle in oracle.go.
package main

import (
	"context"
	"fmt"
	"math"
	"os"
	"runtime"
	"sort"
	"strconv"
	"strings"
	"sync"
	"sync/atomic"
	"time"

	"verifharness/hx"

	"github.com/iotaledger/hive.go/app/daemon"
	"github.com/iotaledger/hive.go/ierrors"
)

// generous guards: the machine is shared; an expired guard is an oracle failure ("hang").
var (
	waitGuard = 10 * time.Second
	holdGuard = 4 * time.Second
)

type event struct {
	t    int64
	text string
}

type inst struct {
	id       int
	name     int
	order    int
	kind     string
	finish   chan struct{}
	finOnce  sync.Once
	finReq   atomic.Bool
	started  atomic.Bool
	seen     atomic.Bool
	returned atomic.Bool
	childOrd string      // kind `a`: the order (token) of the worker the handler registers from inside
	nested   atomic.Bool // kind `a`: the nested registration has returned
}

type world struct {
	d         api
	clk       atomic.Int64
	mu        sync.Mutex
	evs       []event
	insts     []*inst
	byName    map[int]*inst // latest accepted instance per name
	nextID    int
	bg        sync.WaitGroup
	runDone   atomic.Bool
	seq       bool
	parked    chan struct{}
	release   chan struct{}
	parkWg    sync.WaitGroup
	lateOps   map[int]bool // instance ids accepted after a `run` op was issued
	timedOut  atomic.Bool  // a guard expired in this case: later guards are short
	allKicked atomic.Bool  // `kickall` was issued: instances created later are released at once
	panics    []string     // "api: message" of recovered panics of daemon calls
	ranRun    bool
	obs       bool // `obs on`: every answer of a sequential case is followed by the observable state
	xobs      []xob
	isParked  atomic.Bool
}

// xob is one observation of the stopped context and the stopped flag (context read first), with the logical times of
// its begin and end.  Kinds: seen (by a handler after it observed its own cancellation), sdret (after ShutdownAndWait
// returned), refused (after BackgroundWorker returned ErrDaemonAlreadyStopped), any.
type xob struct {
	kind      string
	ctx, flag bool
	tb, te    int64
}

func (w *world) observe(kind string) xob {
	o := xob{kind: kind, tb: w.clk.Add(1)}
	hx.Safely(func() {
		o.ctx = w.d.ContextStopped().Err() != nil
		o.flag = w.d.IsStopped()
	})
	o.te = w.clk.Add(1)
	w.mu.Lock()
	w.xobs = append(w.xobs, o)
	w.mu.Unlock()
	if o.ctx || o.flag {
		// a cancelled stopped context is the same evidence of a begun shutdown as IsStopped() == true
		w.log("stopseen")
	}

	return o
}

// api is the surface of the daemon the scripts drive — the package's own `Daemon` interface (app/daemon/interfaces.go, the
// way `app` uses a daemon) without `DebugLogger` —, implemented by an OrderedDaemon instance or by the package-level wrappers
// around the package's default daemon (`mode default`; once per process, the default daemon cannot be renewed).
type api interface {
	BackgroundWorker(name string, handler daemon.WorkerFunc, order ...int) error
	Start()
	Run()
	Shutdown()
	ShutdownAndWait()
	IsRunning() bool
	IsStopped() bool
	ContextStopped() context.Context
	GetRunningBackgroundWorkers() []string
}

// a change of a method set or signature in interfaces.go or daemon.go does not compile: OrderedDaemon implements the
// package's interface, and the interface has (at least) the methods with the signatures the scripts drive
var (
	_ daemon.Daemon     = (*daemon.OrderedDaemon)(nil)
	_ api               = daemon.Daemon(nil)
	_ api               = (*daemon.OrderedDaemon)(nil)
	_ daemon.WorkerFunc = func(context.Context) {}
)

type pkgAPI struct{}

func (pkgAPI) BackgroundWorker(name string, handler daemon.WorkerFunc, order ...int) error {
	return daemon.BackgroundWorker(name, handler, order...)
}
func (pkgAPI) Start()                                { daemon.Start() }
func (pkgAPI) Run()                                  { daemon.Run() }
func (pkgAPI) Shutdown()                             { daemon.Shutdown() }
func (pkgAPI) ShutdownAndWait()                      { daemon.ShutdownAndWait() }
func (pkgAPI) IsRunning() bool                       { return daemon.IsRunning() }
func (pkgAPI) IsStopped() bool                       { return daemon.IsStopped() }
func (pkgAPI) ContextStopped() context.Context       { return daemon.ContextStopped() }
func (pkgAPI) GetRunningBackgroundWorkers() []string { return daemon.GetRunningBackgroundWorkers() }

var defaultUsed bool

// ---- hook: park the armed BackgroundWorker call between its stopped check and the lock ----

var (
	hookArmed  atomic.Int32
	hookWorld  atomic.Pointer[world]
	hookInstOK = "BackgroundWorker:after-stopped-check"
)

func init() {
	daemon.VerifHook = func(point string) {
		if point != hookInstOK {
			return
		}
		if !hookArmed.CompareAndSwap(1, 0) {
			return
		}
		w := hookWorld.Load()
		if w == nil {
			return
		}
		w.parked <- struct{}{}
		select {
		case <-w.release:
		case <-time.After(w.guard()):
			w.log("timeout")
		}
	}
}

func newWorld(seq, useDefault bool) *world {
	var d api = daemon.Daemon(daemon.New()) // driven through the package's interface
	if useDefault && !defaultUsed {
		defaultUsed = true
		d = pkgAPI{}
	}
	w := &world{d: d, byName: map[int]*inst{}, seq: seq, parked: make(chan struct{}, 1),
		release: make(chan struct{}), lateOps: map[int]bool{}}
	hookWorld.Store(w)

	return w
}

func (w *world) notePanic(api, msg string) {
	w.mu.Lock()
	w.panics = append(w.panics, api+": "+msg)
	w.mu.Unlock()
	w.log("panic")
}

// guard is generous until the first expiry in a case; after that the case only has to end.
func (w *world) guard() time.Duration {
	if w.timedOut.Load() {
		return 300 * time.Millisecond
	}

	return waitGuard
}

func (w *world) log(text string) {
	if text == "timeout" {
		w.timedOut.Store(true)
	}
	t := w.clk.Add(1)
	w.mu.Lock()
	w.evs = append(w.evs, event{t, text})
	w.mu.Unlock()
}

func (w *world) newInst(name, order int, kind string) *inst {
	w.mu.Lock()
	defer w.mu.Unlock()
	w.nextID++
	childOrd := ""
	if k, c, ok := strings.Cut(kind, "@"); ok {
		kind, childOrd = k, c
	}
	in := &inst{id: w.nextID, name: name, order: order, kind: kind, childOrd: childOrd, finish: make(chan struct{})}
	w.insts = append(w.insts, in)
	if w.allKicked.Load() {
		// registered by a `go bw` that was scheduled after `kickall`: it must not stay gated for ever
		in.finReq.Store(true)
		in.finOnce.Do(func() { close(in.finish) })
	}

	return in
}

func (w *world) snapshotInsts() []*inst {
	w.mu.Lock()
	defer w.mu.Unlock()

	return append([]*inst(nil), w.insts...)
}

// peersSeen: every started, not yet returned instance of the same order has observed its cancellation.
func (w *world) peersSeen(in *inst) bool {
	for _, p := range w.snapshotInsts() {
		if p != in && p.order == in.order && p.started.Load() && !p.returned.Load() && !p.seen.Load() {
			return false
		}
	}

	return true
}

func (w *world) handler(in *inst) daemon.WorkerFunc {
	return func(ctx context.Context) {
		in.started.Store(true)
		w.log(fmt.Sprintf("start %d %d %d", in.id, in.name, in.order))
		switch in.kind {
		case "a":
			// the handler calls back into the daemon: it registers another worker from inside
			w.bw(in.name+20, in.childOrd, "c")
			in.nested.Store(true)
		case "p":
			// forced window from inside a handler: the nested registration is parked (verif hook) between its stopped
			// check and the lock until the script releases it
			hookArmed.Store(1)
			w.parkWg.Add(1)
			w.bw(in.name+20, in.childOrd, "c")
			hookArmed.Store(0)
			w.parkWg.Done()
			in.nested.Store(true)
		case "k":
			// the handler shuts the daemon down from inside (asynchronously: ShutdownAndWait would wait for itself)
			select {
			case <-in.finish:
				w.d.Shutdown()
				// its own context is cancelled by that shutdown (or by one that was quicker)
				select {
				case <-ctx.Done():
				case <-time.After(w.guard()):
					w.log("timeout")
				}
			case <-ctx.Done():
			}
		case "q":
			// a worker that reacts to ContextStopped() instead of its own context: it returns once the daemon is stopped
			select {
			case <-w.d.ContextStopped().Done():
				w.log("stopseen")
			case <-in.finish:
			}
		}
		if in.kind != "x" && in.kind != "q" {
			fin := in.finish
			if in.kind == "k" {
				fin = nil // a `k` worker was kicked to call Shutdown(); it returns when it is cancelled
			}
			select {
			case <-ctx.Done():
				in.seen.Store(true)
				w.log(fmt.Sprintf("seen %d", in.id))
				// no worker context is cancelled before the stopped context and the stopped flag
				w.observe("seen")
				if in.kind == "a" || in.kind == "k" {
					// after shutdown no worker can be added or started — also not from inside a handler
					w.bw(in.name+40, "0", "c")
					w.guarded("Start", func() { w.d.Start() })
				}
				w.afterSeen(in)
			case <-fin:
			}
		}
		// the return is logged before it happens (and before wg.Done can run)
		w.log(fmt.Sprintf("ret %d", in.id))
		in.returned.Store(true)
	}
}

func (w *world) afterSeen(in *inst) {
	switch in.kind {
	case "s": // slow
		for i := 0; i < 20+in.id%50; i++ {
			runtime.Gosched()
		}
		time.Sleep(time.Duration(50+37*(in.id%9)) * time.Microsecond)
	case "h": // hold until every live peer of the same order has seen its cancellation
		dl := time.Now().Add(holdGuard)
		for !w.peersSeen(in) {
			if time.Now().After(dl) {
				w.log(fmt.Sprintf("holdtimeout %d", in.id))

				return
			}
			select {
			case <-in.finish:
				return
			case <-time.After(50 * time.Microsecond):
			}
		}
	case "g": // gated: returns only when kicked
		select {
		case <-in.finish:
		case <-time.After(w.guard()):
			w.log("timeout")
		}
	case "l": // lingers until Run has returned (bounded)
		dl := time.Now().Add(40 * time.Millisecond)
		for !w.runDone.Load() && time.Now().Before(dl) {
			time.Sleep(100 * time.Microsecond)
		}
	}
}

func errKind(err error) string {
	switch {
	case err == nil:
		return "ok"
	case ierrors.Is(err, daemon.ErrDaemonAlreadyStopped):
		return "stopped"
	case ierrors.Is(err, daemon.ErrDuplicateBackgroundWorker):
		return "dup"
	case ierrors.Is(err, daemon.ErrExistingBackgroundWorkerStillRunning):
		return "running"
	}

	return "err"
}

// parseOrders reads the variadic order argument of a `bw`/`park` op: `-` = none given, `a,b` = several.  The order the
// daemon has to use is the first one, 0 when none is given (computed here independently of the daemon).
func parseOrders(tok string) (args []int, eff int) {
	if tok == "-" {
		return nil, 0
	}
	for _, p := range strings.Split(tok, ",") {
		n, _ := strconv.Atoi(p)
		args = append(args, n)
	}

	return args, args[0]
}

func (w *world) bw(name int, orderTok string, kind string) string {
	args, order := parseOrders(orderTok)
	in := w.newInst(name, order, kind)
	w.log(fmt.Sprintf("bwcall %d %d %d", in.id, name, order))
	var err error
	res := ""
	if p := hx.Safely(func() { err = w.d.BackgroundWorker(strconv.Itoa(name), w.handler(in), args...) }); p != "" {
		res = "panic"
	} else {
		res = errKind(err)
	}
	if res == "ok" {
		w.mu.Lock()
		w.byName[name] = in
		if w.ranRun {
			w.lateOps[in.id] = true
		}
		w.mu.Unlock()
	}
	w.log(fmt.Sprintf("bwret %d %d %s", in.id, name, res))
	if res == "stopped" {
		w.observe("refused")
	}

	return res
}

func (w *world) latest(name int) *inst {
	w.mu.Lock()
	defer w.mu.Unlock()

	return w.byName[name]
}

func (w *world) runningNames() []string {
	var out []string
	if p := hx.Safely(func() { out = w.d.GetRunningBackgroundWorkers() }); p != "" {
		return []string{"panic"}
	}

	return out
}

func waitUntil(guard time.Duration, cond func() bool) bool {
	dl := time.Now().Add(guard)
	for i := 0; !cond(); i++ {
		if time.Now().After(dl) {
			return false
		}
		if i < 50 {
			runtime.Gosched()
		} else {
			time.Sleep(50 * time.Microsecond)
		}
	}

	return true
}

func contains(xs []string, x string) bool {
	for _, y := range xs {
		if y == x {
			return true
		}
	}

	return false
}

// quiesce (sequential cases): every instance whose handler is due to return has been cleaned up.
func (w *world) quiesce() bool {
	return waitUntil(w.guard(), func() bool {
		names := w.runningNames()
		for _, in := range w.snapshotInsts() {
			// a spawned goroutine (running flag set) must have entered its handler
			if in.kind != "call" && !in.started.Load() && w.latest(in.name) == in && contains(names, strconv.Itoa(in.name)) {
				return false
			}
			if in.kind == "a" && in.started.Load() && !in.nested.Load() {
				return false // the registration from inside the handler has not returned yet
			}
			if in.kind == "k" && in.started.Load() && in.finReq.Load() && w.d.IsRunning() {
				return false // the shutdown the handler started from inside has not finished yet
			}
			due := in.started.Load() && (in.kind == "x" || in.finReq.Load() || in.returned.Load() || in.seen.Load())
			if !due {
				continue
			}
			if !in.returned.Load() {
				return false
			}
			if w.latest(in.name) == in && contains(names, strconv.Itoa(in.name)) {
				return false
			}
		}

		return true
	})
}

func (w *world) spawn(f func()) {
	w.bg.Add(1)
	go func() {
		defer w.bg.Done()
		f()
	}()
}

func (w *world) guarded(what string, f func()) string {
	done := make(chan struct{})
	go func() {
		defer close(done)
		if p := hx.Safely(f); p != "" {
			w.notePanic(what, p)
		}
	}()
	select {
	case <-done:
		return "ok"
	case <-time.After(w.guard()):
		w.log("timeout")

		return "timeout"
	}
}

func (w *world) sdw() string {
	c := w.newInst(-1, 0, "call").id
	w.log(fmt.Sprintf("sdcall %d", c))
	res := w.guarded("ShutdownAndWait", func() { w.d.ShutdownAndWait() })
	if res == "ok" {
		w.log(fmt.Sprintf("sdret %d", c))
		w.observe("sdret")
	}

	return res
}

func (w *world) run() {
	c := w.newInst(-1, 0, "call").id
	w.log(fmt.Sprintf("runcall %d", c))
	if p := hx.Safely(func() { w.d.Run() }); p != "" {
		w.notePanic("Run", p)

		return
	}
	w.log(fmt.Sprintf("runret %d", c))
	w.runDone.Store(true)
}

func (w *world) seenGroups() string {
	w.mu.Lock()
	evs := append([]event(nil), w.evs...)
	byID := map[int]*inst{}
	for _, in := range w.insts {
		byID[in.id] = in
	}
	w.mu.Unlock()
	sort.Slice(evs, func(i, j int) bool { return evs[i].t < evs[j].t })
	type grp struct {
		order int
		names []int
	}
	var gs []grp
	for _, e := range evs {
		f := strings.Fields(e.text)
		if f[0] != "seen" {
			continue
		}
		id, _ := strconv.Atoi(f[1])
		in := byID[id]
		if len(gs) > 0 && gs[len(gs)-1].order == in.order {
			gs[len(gs)-1].names = append(gs[len(gs)-1].names, in.name)
		} else {
			gs = append(gs, grp{in.order, []int{in.name}})
		}
	}
	if len(gs) == 0 {
		return "-"
	}
	var parts []string
	for _, g := range gs {
		sort.Ints(g.names)
		ns := make([]string, len(g.names))
		for i, n := range g.names {
			ns[i] = strconv.Itoa(n)
		}
		parts = append(parts, fmt.Sprintf("%d:%s", g.order, strings.Join(ns, ",")))
	}

	return strings.Join(parts, "|")
}

func (w *world) workers(r *rec) string {
	names := w.runningNames()
	type no struct{ n, o int }
	var l []no
	prev := math.MinInt
	// in a concurrent case the instance a listed name belongs to is known for certain only when the name was only ever
	// registered with one order: a registration that is in flight in another goroutine (a `go bw`, a registration from
	// inside a handler) is listed by the daemon before the harness has recorded it as the latest instance of its name
	cand := map[int]map[int]bool{}
	for _, in := range w.snapshotInsts() {
		if in.kind != "call" {
			if cand[in.name] == nil {
				cand[in.name] = map[int]bool{}
			}
			cand[in.name][in.order] = true
		}
	}
	certain := true
	for _, s := range names {
		if n, err := strconv.Atoi(s); err == nil && len(cand[n]) > 1 && !w.seq {
			certain = false // (a sequential case is quiescent here: the latest instance is the listed one)
		}
	}
	if !certain {
		r.Count("running-list-sorted:not-judged(in-flight-registration)")
	}
	for _, s := range names {
		n, err := strconv.Atoi(s)
		if err != nil {
			return "panic"
		}
		in := w.latest(n)
		if in == nil {
			return "unknown-name"
		}
		if in.order < prev && certain {
			r.Fail("running-list-sorted", fmt.Sprintf("GetRunningBackgroundWorkers not ascending by order: %v", names),
				map[string]string{"oracle": "sorted", "api": "GetRunningBackgroundWorkers"})
		}
		prev = in.order
		l = append(l, no{n, in.order})
	}
	sort.Slice(l, func(i, j int) bool {
		if l[i].o != l[j].o {
			return l[i].o < l[j].o
		}

		return l[i].n < l[j].n
	})
	parts := make([]string, len(l))
	for i, x := range l {
		parts[i] = fmt.Sprintf("%d:%d", x.n, x.o)
	}

	return "[" + strings.Join(parts, " ") + "]"
}

// exec interprets one script op.
func (w *world) exec(r *rec, op string) string {
	f := strings.Fields(op)
	atoi := func(i int) int {
		if i >= len(f) {
			return 0
		}
		n, _ := strconv.Atoi(f[i])

		return n
	}
	ans := "ok"
	switch f[0] {
	case "bw":
		ans = w.bw(atoi(1), f[2], f[3])
	case "start":
		ans = w.guarded("Start", func() { w.d.Start() })
	case "fin", "kick":
		in := w.latest(atoi(1))
		if in == nil {
			ans = "noinst"

			break
		}
		if w.seq && in.kind == "k" && !in.started.Load() {
			// sequential cases: a `k` worker asked before it runs would begin its shutdown while Start is still starting
			// the other workers (a race between their handlers and the shutdown): nothing happens
			ans = "notstarted"

			break
		}
		in.finReq.Store(true)
		in.finOnce.Do(func() { close(in.finish) })
		if f[0] == "fin" && in.started.Load() {
			if !waitUntil(w.guard(), func() bool { return in.returned.Load() }) {
				w.log("timeout")
				ans = "timeout"
			}
		}
	case "kickall":
		w.allKicked.Store(true)
		for _, in := range w.snapshotInsts() {
			if in.kind != "call" {
				in.finOnce.Do(func() { close(in.finish) })
			}
		}
	case "workers":
		ans = w.workers(r)
	case "isrunning":
		ans = strconv.FormatBool(w.d.IsRunning())
	case "isstopped":
		b := w.d.IsStopped()
		if b {
			w.log("stopseen")
		}
		ans = strconv.FormatBool(b)
	case "ctxstopped":
		// ContextStopped(): cancelled by shutdown() after the stopped flag was stored, so a cancelled context is the same
		// evidence of a begun shutdown as IsStopped() == true
		b := w.d.ContextStopped().Err() != nil
		if b {
			w.log("stopseen")
		}
		ans = strconv.FormatBool(b)
	case "ctxflag":
		o := w.observe("any")
		ans = strconv.FormatBool(o.ctx) + " " + strconv.FormatBool(o.flag)
	case "sdw":
		ans = w.sdw()
	case "sd":
		w.d.Shutdown()
	case "seenlog":
		ans = w.seenGroups()
	case "go":
		rest := strings.Join(f[1:], " ")
		switch f[1] {
		case "run":
			w.mu.Lock()
			w.ranRun = true
			w.mu.Unlock()
			w.spawn(w.run)
			// let Run get past Start and its WaitGroup snapshot before the script goes on
			waitUntil(w.guard(), func() bool { return w.d.IsRunning() || w.d.IsStopped() })
			time.Sleep(3 * time.Millisecond)
		default:
			w.spawn(func() { w.exec(r, rest) })
		}
	case "park":
		hookArmed.Store(1)
		name, order, kind := atoi(1), f[2], f[3]
		w.parkWg.Add(1)
		returned := make(chan struct{})
		w.spawn(func() { defer w.parkWg.Done(); defer close(returned); w.bw(name, order, kind) })
		select {
		case <-w.parked:
			w.isParked.Store(true)
		case <-returned:
			// the call returned without parking: at its first stopped check (a handler has shut the daemon down already),
			// or because a concurrent `go bw` reached the armed yield point first and is the one that is parked
			select {
			case <-w.parked:
				w.isParked.Store(true)
			default:
				hookArmed.Store(0)
				ans = "notparked"
			}
		case <-time.After(w.guard()):
			hookArmed.Store(0)
			w.log("timeout")
			ans = "timeout"
		}
	case "release":
		if !w.isParked.Swap(false) {
			// nothing is known to be parked (the armed call returned at its first stopped check); a call that took the
			// armed hook at the last moment is released if it is there
			select {
			case w.release <- struct{}{}:
			case <-time.After(20 * time.Millisecond):
				ans = "noparked"
			}

			break
		}
		select {
		case w.release <- struct{}{}:
		case <-time.After(w.guard()):
			ans = "noparked"
		}
	case "waitparked":
		// a handler of kind p parks its nested registration itself
		select {
		case <-w.parked:
			w.isParked.Store(true)
		case <-time.After(w.guard()):
			w.log("timeout")
			ans = "timeout"
		}
	case "waitpark":
		done := make(chan struct{})
		go func() { w.parkWg.Wait(); close(done) }()
		select {
		case <-done:
		case <-time.After(w.guard()):
			w.log("timeout")
			ans = "timeout"
		}
	case "waitseen":
		in := w.latest(atoi(1))
		if in == nil {
			ans = "noinst"

			break
		}
		if !waitUntil(w.guard(), func() bool { return in.seen.Load() }) {
			w.log("timeout")
			ans = "timeout"
		}
	case "waitstarted":
		// (the instance may still be on its way: a registration from inside a handler)
		name := atoi(1)
		if !waitUntil(w.guard(), func() bool { in := w.latest(name); return in != nil && in.started.Load() }) {
			w.log("timeout")
			ans = "timeout"
		}
	case "sleep":
		time.Sleep(time.Duration(atoi(1)) * 100 * time.Microsecond)
	case "join":
		done := make(chan struct{})
		go func() { w.bg.Wait(); close(done) }()
		select {
		case <-done:
		case <-time.After(w.guard()):
			w.log("timeout")
			ans = "timeout"
		}
	case "obs":
		w.obs = len(f) > 1 && f[1] == "on"
	case "stress":
		ans = stressStart(r, atoi(1))
	default:
		ans = "bad-op"
	}
	if w.seq {
		if !w.quiesce() {
			w.log("timeout")
		}
	}

	return ans
}

// stressStart races Start against ShutdownAndWait on fresh daemons: after both returned the daemon
// must not be running and no worker may have been started after ShutdownAndWait returned.
func stressStart(r *rec, n int) string {
	hits := 0
	for i := 0; i < n; i++ {
		d := daemon.New()
		var started atomic.Int32
		_ = d.BackgroundWorker("A", func(ctx context.Context) {
			started.Add(1)
			<-ctx.Done()
		})
		var gate, wg sync.WaitGroup
		gate.Add(1)
		wg.Add(2)
		go func() { defer wg.Done(); gate.Wait(); d.Start() }()
		go func() { defer wg.Done(); gate.Wait(); d.ShutdownAndWait() }()
		gate.Done()
		wg.Wait()
		if d.IsRunning() {
			hits++
		}
	}
	if hits > 0 {
		r.Fail("no-start-after-shutdown",
			fmt.Sprintf("Start racing ShutdownAndWait: in %d of %d attempts the daemon was running (workers started, never cancelled) after ShutdownAndWait had returned", hits, n),
			map[string]string{"oracle": "noadd", "api": "Start", "trigger": "start-vs-shutdown-stress"})
	}
	r.CountN("stress:start-vs-shutdown-attempts", n)

	return "ok"
}

// finishCase makes sure everything terminates, then returns the event log in clock order.
func (w *world) finishCase() []string {
	for _, in := range w.snapshotInsts() {
		if in.kind != "call" {
			in.finOnce.Do(func() { close(in.finish) })
		}
	}
	hookArmed.Store(0)
	select {
	case w.release <- struct{}{}:
	default:
	}
	// idempotent final shutdown so that Run callers and workers end
	done := make(chan struct{})
	go func() {
		hx.Safely(func() { w.d.ShutdownAndWait() })
		close(done)
	}()
	select {
	case <-done:
	case <-time.After(w.guard()):
		w.log("timeout")
	}
	bgDone := make(chan struct{})
	go func() { w.bg.Wait(); close(bgDone) }()
	// a call that took the armed hook at the last moment (after the release attempt above) must not sit out its guard
	go func() {
		for {
			select {
			case <-bgDone:
				return
			case w.release <- struct{}{}:
			case <-time.After(time.Millisecond):
			}
		}
	}()
	select {
	case <-bgDone:
	case <-time.After(w.guard()):
		w.log("timeout")
	}
	w.mu.Lock()
	defer w.mu.Unlock()
	sort.Slice(w.evs, func(i, j int) bool { return w.evs[i].t < w.evs[j].t })
	out := make([]string, len(w.evs))
	for i, e := range w.evs {
		out[i] = e.text
	}

	return out
}

// runCase executes one script on a fresh daemon and returns everything the parent process needs.
func runCase(script []string) *caseResult {
	r := &rec{res: &caseResult{Script: script, Counts: map[string]int{}}}
	seq := len(script) > 0 && script[0] == "mode seq"
	useDefault := len(script) > 0 && script[0] == "mode default"
	w := newWorld(seq, useDefault)
	if _, ok := w.d.(pkgAPI); ok {
		r.Count("daemon:package-level-default")
	}
	r.Line(map[bool]string{true: "mode seq", false: map[bool]string{true: "mode default", false: "mode conc"}[useDefault]}[seq], "ok")
	for _, op := range script {
		if strings.HasPrefix(op, "mode ") {
			continue
		}
		if w.timedOut.Load() {
			break // something hung: the case only has to end
		}
		ans := w.exec(r, op)
		r.Count("op:" + strings.Join(strings.Fields(op)[:min(2, len(strings.Fields(op)))], "-"))
		if f := strings.Fields(strings.TrimPrefix(op, "go ")); len(f) == 4 && (f[0] == "bw" || f[0] == "park") {
			r.Count("worker-kind:" + strings.SplitN(f[3], "@", 2)[0])
			switch {
			case f[2] == "-":
				r.Count("bw-order-args:none")
			case strings.Contains(f[2], ","):
				r.Count("bw-order-args:two")
			default:
				r.Count("bw-order-args:one")
			}
		}
		if seq {
			r.Count("seq-ans:" + strings.SplitN(ans, ":", 2)[0])
			if w.obs {
				// the observable state after every op (the case is quiescent here)
				ans += " | " + w.workers(r) + " " + strconv.FormatBool(w.d.IsRunning()) + " " + strconv.FormatBool(w.d.IsStopped())
				r.Count("seq-state-observations")
			}
			r.Line("do "+op, ans)
		} else {
			r.Line("op "+op, "-")
		}
	}
	evs := w.finishCase()
	if seq {
		// events produced by the final clean-up are not part of a sequential case
		r.Line("do end", "ok")
	}
	for _, e := range evs {
		r.Line("ev "+e, "ok")
		r.Count("ev:" + strings.Fields(e)[0])
	}
	w.mu.Lock()
	xobs := append([]xob(nil), w.xobs...)
	w.mu.Unlock()
	sort.Slice(xobs, func(i, j int) bool { return xobs[i].tb < xobs[j].tb })
	for _, o := range xobs {
		r.Line(fmt.Sprintf("xo %s %t %t %d %d", o.kind, o.ctx, o.flag, o.tb, o.te), "ok")
		r.Count(fmt.Sprintf("xo:%s:ctx=%t,flag=%t", o.kind, o.ctx, o.flag))
	}
	verdict := oracle(r, w, evs, xobs, script)
	r.Line("verdict", verdict)
	r.Line("check", checkAnswer(r.res))
	r.Count("verdict:" + verdict)
	classify(r, evs, script)

	return r.res
}

func main() {
	if len(os.Args) > 1 && os.Args[1] == "--child" {
		childMain(os.Args[2], os.Args[3])

		return
	}
	r := hx.Start()
	r.MaxSamples = 4
	r.Rule = "scripts over BackgroundWorker(name,order,kind)/Start/Run/Shutdown/ShutdownAndWait/finish with orders from " +
		"{-7,-3,-1,0,0,1,2,2,5,9} or, in a quarter of the cases, {MaxInt,MaxInt-1,MinInt,MinInt+1,-2,-1,0,2,5} and worker kinds c(ancel-responsive) s(low) h(old until equal-order peers are cancelled) " +
		"g(ated) x(exits at once) l(ingers for Run); non-trivial = a shutdown that cancelled live workers of at least two " +
		"distinct orders or hit a refusal/early-finish/re-registration/forced-window branch; distinct by sha256 of script+event log"
	var cases []caseSpec
	if lines := r.ReplayLines(); lines != nil {
		var script []string
		for _, l := range lines {
			switch {
			case strings.HasPrefix(l, "mode "):
				script = append(script, l)
			case strings.HasPrefix(l, "do end"):
			case strings.HasPrefix(l, "do "), strings.HasPrefix(l, "op "):
				script = append(script, l[3:])
			}
		}
		cases = append(cases, caseSpec{0, script})
	} else {
		for _, c := range corpus {
			cases = append(cases, caseSpec{0, c})
		}
		nSeq, nConc := 2500*r.Scale, 3500*r.Scale
		for i := 0; i < nSeq; i++ {
			rng, sub := r.Rng.Fork()
			cases = append(cases, caseSpec{sub, genSeq(rng)})
		}
		for i := 0; i < nConc; i++ {
			rng, sub := r.Rng.Fork()
			cases = append(cases, caseSpec{sub, genConc(rng)})
		}
		cases = append(cases, caseSpec{0, []string{fmt.Sprintf("stress %d", 1000000*r.Scale)}})
	}
	runAll(r, cases)
	r.Finish()
}
