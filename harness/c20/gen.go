package main

import (
	"fmt"
	"math"

	"github.com/iotaledger/hive.go/app/daemon"

	"verifharness/hx"
)

var orderPool = []int{-7, -3, -1, 0, 0, 1, 2, 2, 5, 9}

// extremePool: orders at the ends of `int` (with ties there) mixed with small ones: differences of two orders
// overflow, so a comparator that subtracts instead of comparing sorts them wrongly.
var extremePool = []int{math.MaxInt, math.MaxInt, math.MaxInt - 1, math.MinInt, math.MinInt, math.MinInt + 1, -2, -1, 0, 2, 5}

// The shutdown order is a Go `int` (the model orders by Lean `Int`; the generators cover both ends of `int`).
var _ func(*daemon.OrderedDaemon, string, daemon.WorkerFunc, ...int) error = (*daemon.OrderedDaemon).BackgroundWorker

// corpus: hand-written histories that run first (forced windows, the Run finding, the unit-test shapes).
var corpus = [][]string{
	// BackgroundWorker parked between its stopped check and the lock while a complete shutdown runs
	{"bw 1 1 c", "start", "park 2 0 c", "sdw", "release", "waitpark", "join", "isstopped", "bw 3 0 c"},
	// ... released after the shutdown took its snapshot and while it waits for order 1
	{"bw 1 1 g", "start", "waitstarted 1", "park 2 0 c", "go sdw", "waitseen 1", "release", "waitpark", "sleep 20", "kick 1", "join"},
	// ... the parked worker has the order of a group the shutdown still has to wait for
	{"bw 1 1 g", "bw 3 0 c", "start", "waitstarted 1", "park 2 0 c", "go sdw", "waitseen 1", "release", "waitpark", "sleep 20", "kick 1", "join"},
	// ... re-registration of a finished name parked across the shutdown
	{"bw 1 1 c", "bw 2 3 c", "start", "fin 2", "park 2 5 c", "sdw", "release", "waitpark", "join"},
	// Run vs a worker of a new (lower) order added after Run took its WaitGroup snapshot
	{"bw 1 0 c", "go run", "bw 2 -1 l", "waitstarted 2", "go sdw", "join"},
	// Run returns without any shutdown when the initial workers finish although a late worker runs
	{"bw 1 0 g", "go run", "bw 2 3 g", "waitstarted 2", "kick 1", "sleep 50", "kick 2", "sd", "join"},
	// Run called while an asynchronous shutdown is in progress (stopped flag already set) and a started worker returns
	// late: Run must still wait for it (seeded change C20-r5-3 gave Run the "do not allow restarts" early return of Start)
	{"bw 1 0 g", "start", "waitstarted 1", "sd", "waitseen 1", "go run", "sleep 30", "kick 1", "join"},
	{"bw 1 5 g", "bw 2 0 s", "bw 3 -3 g", "start", "waitstarted 1", "waitstarted 3", "go sdw", "waitseen 1", "go run", "sleep 30", "kick 1",
		"waitseen 3", "go run", "sleep 30", "kick 3", "join"},
	// ... Run after a completed shutdown and on a daemon shut down before it was ever started: returns at once, starts nothing
	{"bw 1 0 c", "start", "sdw", "go run", "join", "isrunning", "isstopped"},
	{"bw 1 0 c", "bw 2 3 g", "sdw", "go run", "join", "isrunning", "workers"},
	// the package-level wrappers around the default daemon (first case of the first child process)
	{"mode default", "bw 1 5 g", "bw 2 - c", "bw 3 -3,9 s", "bw 4 5 h", "ctxstopped", "start", "workers", "waitstarted 1", "bw 5 2 c", "bw 7 9 a@1", "bw 8 -7 q", "ctxflag",
		"waitstarted 27", "workers", "sd", "waitseen 1",
		"go sdw", "go run", "sleep 20", "workers", "ctxflag", "kick 1", "join", "isrunning", "isstopped", "ctxstopped", "ctxflag", "bw 6 0 c", "start"},
	// the variadic order: none given = 0, only the first of several counts
	{"mode seq", "obs on", "bw 1 - c", "bw 2 3,-7 c", "bw 3 -1,9 c", "bw 4 0,5 c", "start", "workers", "bw 5 - c", "bw 6 9,-9 c", "workers", "sdw", "seenlog"},
	// shapes of daemon_test.go
	{"mode seq", "bw 0 0 c", "bw 1 1 c", "bw 2 2 c", "bw 3 3 c", "bw 4 4 c", "bw 5 5 c", "start", "workers", "sdw", "seenlog", "isrunning", "isstopped"},
	{"mode seq", "bw 1 0 c", "bw 1 0 c", "start", "bw 1 0 c", "fin 1", "bw 1 0 c", "workers", "sdw", "seenlog", "bw 1 0 c"},
	{"mode seq", "ctxstopped", "sdw", "isstopped", "ctxstopped", "bw 1 0 c", "start", "isrunning"},
	// ties, negatives, gaps, early finishers, re-registration under another order
	{"mode seq", "obs on", "bw 1 -3 c", "bw 2 5 c", "bw 3 5 c", "bw 4 0 x", "bw 5 -3 c", "start", "workers", "fin 2", "bw 2 -7 c", "bw 6 9 c", "workers", "sdw", "seenlog"},
	// orders at the ends of int: MaxInt / MinInt with ties, next to small orders (differences overflow)
	{"mode seq", "bw 1 9223372036854775807 c", "bw 2 -2 c", "bw 3 2 c", "bw 4 -9223372036854775808 c", "bw 5 9223372036854775807 c",
		"bw 6 -9223372036854775807 c", "bw 7 9223372036854775806 c", "bw 8 -9223372036854775808 c", "start", "workers", "sdw", "seenlog"},
	{"mode seq", "bw 1 2 c", "bw 2 -9223372036854775808 c", "start", "bw 3 9223372036854775807 c", "bw 4 -2 c", "workers", "fin 3",
		"bw 3 -9223372036854775807 c", "workers", "sdw", "seenlog"},
	{"bw 1 9223372036854775807 g", "bw 2 -2 c", "bw 3 -9223372036854775808 h", "bw 4 -9223372036854775808 h", "bw 5 2 s", "start",
		"waitstarted 1", "go sdw", "waitseen 1", "sleep 20", "kick 1", "join"},
	{"bw 1 2 g", "bw 2 -9223372036854775808 c", "bw 3 9223372036854775807 x", "start", "waitstarted 1", "go sdw", "go sdw", "waitseen 1",
		"sleep 20", "kick 1", "join"},
	// handlers that call back into the daemon: worker 1 registers worker 21 (order 0) from inside its handler while the
	// daemon runs; after it has seen its cancellation its registration of 41 and its Start must be refused / do nothing
	{"bw 1 5 a@0", "bw 2 -3 c", "bw 3 5 a@9", "start", "waitstarted 1", "waitstarted 3", "workers", "ctxflag", "go sdw", "waitseen 1", "join", "ctxflag", "workers"},
	// a registration while a shutdown is in progress (the shutdown waits for the gated order-5 worker): refused, the
	// stopped context and the flag are both set already, Start does nothing, Run waits for the gated worker
	{"bw 1 5 g", "bw 2 0 c", "start", "waitstarted 1", "go sdw", "waitseen 1", "ctxflag", "bw 3 0 c", "bw 4 9 c", "start", "go run", "sleep 10",
		"workers", "kick 1", "join", "ctxflag"},
	// forced window from inside a handler: the nested registration of worker 1's handler is parked between its stopped
	// check and the lock, released while the shutdown waits for the gated order-9 worker: refused under the lock
	{"bw 1 5 p@0", "bw 2 9 g", "start", "waitparked", "waitstarted 2", "go sdw", "waitseen 2", "release", "waitpark", "sleep 10", "ctxflag", "kick 2", "join", "workers"},
	// ... released after the complete shutdown of the other workers cannot happen (worker 1 is itself waited for): released
	// right after the stopped flag is set, before anything is cancelled (the shutdown is blocked on the gated worker)
	{"bw 1 -3 p@9", "bw 2 5 g", "bw 3 5 h", "start", "waitparked", "waitstarted 2", "sd", "waitseen 2", "release", "waitpark", "bw 4 0 c", "kick 2", "go sdw", "join"},
	// Run vs a late worker registered from inside a handler after Run's Start: Run has to wait for it too
	{"bw 1 0 a@-1", "go run", "waitstarted 1", "waitstarted 21", "kick 1", "sleep 30", "workers", "kick 21", "sleep 5", "sd", "join"},
	// a handler that shuts the daemon down from inside; an equal-order peer holds until both are cancelled
	{"bw 1 5 k", "bw 2 0 s", "bw 3 5 h", "start", "waitstarted 1", "waitstarted 3", "kick 1", "waitseen 2", "go sdw", "join", "ctxflag"},
	// workers that return on ContextStopped() instead of their own context: they leave long before their order's turn
	{"bw 1 0 q", "bw 2 5 g", "bw 3 -3 q", "bw 4 -3 c", "start", "waitstarted 2", "waitstarted 1", "waitstarted 3", "go sdw", "waitseen 2", "sleep 10", "kick 2", "join"},
	// the same through the package-level API is covered by the `mode default` case above; sequential: the model makes
	// the nested registration as soon as the handler runs (name 21 is still running when worker 1 is re-registered)
	{"mode seq", "obs on", "ctxflag", "bw 1 5 a@0", "bw 2 0 a@9", "start", "workers", "ctxflag", "fin 1", "bw 1 -3 a@-3", "workers", "sdw", "seenlog",
		"ctxflag", "bw 21 0 c"},
	// Shutdown() from inside a handler: the model runs the body of stopOnce when the `k` instance is asked to finish (at
	// once when it runs, or as soon as it is started); afterwards everything is refused
	{"mode seq", "obs on", "bw 1 5 k", "bw 2 0 c", "bw 3 5 a@-3", "bw 4 9 c", "start", "workers", "ctxflag", "fin 1", "seenlog", "ctxflag", "workers", "isrunning",
		"bw 5 0 c", "start", "sdw", "seenlog"},
	{"mode seq", "bw 1 -3 k", "bw 2 0 c", "fin 1", "workers", "isstopped", "start", "workers", "fin 1", "seenlog", "ctxflag", "isrunning", "bw 2 0 c", "sdw"},
	{"mode seq", "bw 1 2 a@2", "start", "bw 2 2 a@-9223372036854775808", "bw 3 9223372036854775807 a@9223372036854775807", "workers", "fin 21", "fin 2",
		"bw 2 0 a@5", "workers", "ctxflag", "sdw", "seenlog", "ctxflag", "ctxstopped"},
	// equal-order workers that hold until their peers are cancelled; a gated top group
	{"bw 1 5 h", "bw 2 5 h", "bw 3 5 h", "bw 4 2 h", "bw 5 2 s", "bw 6 9 g", "start", "go sdw", "go sdw", "waitseen 6", "sleep 10", "kick 6", "join"},
}

// orderTok: the variadic order argument — mostly one order, sometimes none (`-`: order 0) or two (the second one must be
// ignored).
func orderTok(rng *hx.Rng, pool []int) string {
	switch x := rng.Intn(16); {
	case x == 0:
		return "-"
	case x <= 2:
		return fmt.Sprintf("%d,%d", hx.Pick(rng, pool), hx.Pick(rng, pool))
	}

	return fmt.Sprintf("%d", hx.Pick(rng, pool))
}

func genSeq(rng *hx.Rng) []string {
	s := []string{"mode seq"}
	if rng.Chance(1, 2) {
		// compare the observable state (running list, IsRunning, IsStopped) with the model after every op; the other half
		// of the cases runs without the extra queries (a query with a side effect would otherwise hide or heal something)
		s = append(s, "obs on")
	}
	pool := orderPool
	if rng.Chance(1, 4) {
		pool = extremePool
	}
	kind := func() string {
		switch x := rng.Intn(24); {
		case x < 4:
			return "x"
		case x < 7:
			// the handler registers another worker (name + 20) from inside
			return fmt.Sprintf("a@%d", hx.Pick(rng, pool))
		case x < 8:
			// the handler shuts the daemon down from inside when it is asked to finish (`fin`)
			return "k"
		}

		return "c"
	}
	bw := func(maxName int) string {
		return fmt.Sprintf("bw %d %s %s", rng.Range(1, maxName), orderTok(rng, pool), kind())
	}
	for i, n := 0, rng.Range(0, 6); i < n; i++ {
		s = append(s, bw(5))
	}
	if rng.Chance(1, 12) {
		s = append(s, "sdw", "isstopped", bw(5), "start", "isrunning", "workers")

		return s
	}
	if rng.Chance(9, 10) {
		s = append(s, "start")
	}
	for i, n := 0, rng.Range(0, 10); i < n; i++ {
		switch x := rng.Intn(100); {
		case x < 40:
			s = append(s, bw(7))
		case x < 65:
			s = append(s, fmt.Sprintf("fin %d", rng.Range(1, 7)))
		case x < 80:
			s = append(s, "workers")
		case x < 85:
			s = append(s, "isrunning")
		case x < 88:
			s = append(s, "isstopped")
		case x < 90:
			s = append(s, "ctxstopped")
		case x < 92:
			s = append(s, "ctxflag")
		case x < 95:
			s = append(s, "start")
		default:
			s = append(s, "seenlog")
		}
	}
	s = append(s, "workers", "sdw", "seenlog")
	if rng.Chance(1, 2) {
		s = append(s, hx.Pick(rng, []string{"ctxstopped", "ctxflag"}))
	}
	for i, n := 0, rng.Range(0, 3); i < n; i++ {
		switch rng.Intn(5) {
		case 0:
			s = append(s, bw(7))
		case 1:
			s = append(s, "start")
		case 2:
			s = append(s, "workers")
		case 3:
			s = append(s, "isstopped")
		default:
			s = append(s, "sdw")
		}
	}

	return s
}

func genConc(rng *hx.Rng) []string {
	var s []string
	if rng.Chance(1, 40) {
		// through the package-level wrappers on the package's default daemon (the first such case of a child process;
		// the others run on a fresh instance)
		s = append(s, "mode default")
	}
	kinds := []string{"c", "c", "s", "s", "h", "h", "g", "x"}
	orders := orderPool
	switch x := rng.Intn(12); {
	case x < 4: // few distinct orders: many ties
		orders = []int{hx.Pick(rng, orderPool), hx.Pick(rng, orderPool)}
	case x < 7: // the ends of int
		orders = extremePool
	}
	bw := func(maxName int) string {
		k := hx.Pick(rng, kinds)
		if rng.Chance(1, 6) {
			// handlers that call back into the daemon / react to ContextStopped()
			k = hx.Pick(rng, []string{fmt.Sprintf("a@%d", hx.Pick(rng, orders)), fmt.Sprintf("a@%d", hx.Pick(rng, orders)), "k", "q"})
		}

		return fmt.Sprintf("bw %d %s %s", rng.Range(1, maxName), orderTok(rng, orders), k)
	}
	for i, n := 0, rng.Range(1, 7); i < n; i++ {
		s = append(s, bw(6))
	}
	usedRun := false
	switch x := rng.Intn(10); {
	case x < 5:
		s = append(s, "start")
	case x < 7:
		s = append(s, "go start", "go start", "sleep 3")
	default:
		s = append(s, "go run")
		usedRun = true
	}
	for i, n := 0, rng.Range(0, 7); i < n; i++ {
		switch x := rng.Intn(100); {
		case x < 35:
			s = append(s, bw(9))
		case x < 55:
			s = append(s, fmt.Sprintf("kick %d", rng.Range(1, 9)))
		case x < 75:
			s = append(s, "go "+bw(9))
		case x < 83:
			s = append(s, fmt.Sprintf("sleep %d", rng.Range(1, 6)))
		case x < 85:
			s = append(s, "ctxflag")
		case x < 90 && !usedRun:
			s = append(s, "go run")
			usedRun = true
		default:
			s = append(s, "workers")
		}
	}
	parked := false
	if rng.Chance(1, 4) {
		s = append(s, "park "+bw(9)[3:])
		parked = true
	}
	for i, n := 0, rng.Range(1, 3); i < n; i++ {
		switch rng.Intn(3) {
		case 0:
			s = append(s, "sd")
		default:
			s = append(s, "go sdw")
		}
		if rng.Chance(1, 2) {
			s = append(s, "go "+bw(9))
		}
		if rng.Chance(1, 3) {
			// Run called during / after the begin of a shutdown: it must wait for the late-returning started workers
			if rng.Chance(1, 2) {
				s = append(s, fmt.Sprintf("sleep %d", rng.Range(1, 4)))
			}
			s = append(s, "go run")
		}
		if rng.Chance(1, 3) {
			s = append(s, fmt.Sprintf("sleep %d", rng.Range(1, 8)))
		}
		if rng.Chance(1, 4) {
			s = append(s, hx.Pick(rng, []string{"ctxflag", "go ctxflag"}))
		}
		if parked && rng.Chance(1, 2) {
			s = append(s, "release", "waitpark")
			parked = false
		}
		if rng.Chance(1, 3) {
			s = append(s, fmt.Sprintf("kick %d", rng.Range(1, 9)))
		}
	}
	s = append(s, fmt.Sprintf("sleep %d", rng.Range(1, 10)))
	if parked {
		s = append(s, "release", "waitpark")
	}
	s = append(s, "kickall", "go sdw", "join", hx.Pick(rng, []string{"isstopped", "ctxstopped", "ctxflag"}), bw(9), "start")

	return s
}
