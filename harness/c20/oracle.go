package main

import (
	"crypto/sha256"
	"encoding/hex"
	"fmt"
	"sort"
	"strconv"
	"strings"
)

// The property oracle, evaluated on the recorded event log of the real code, independently of Lean.
// It is written over indices (for-all / exists over positions of the log), not as the fold the Lean
// predicate uses.

type ev struct {
	kind    string
	a, b, c int
	res     string
}

func parseEvs(lines []string) []ev {
	out := make([]ev, len(lines))
	for i, l := range lines {
		f := strings.Fields(l)
		e := ev{kind: f[0]}
		n := func(k int) int {
			if k < len(f) {
				v, _ := strconv.Atoi(f[k])

				return v
			}

			return 0
		}
		e.a, e.b, e.c = n(1), n(2), n(3)
		if e.kind == "bwret" {
			e.res = f[3]
		}
		out[i] = e
	}

	return out
}

// liveAt: instance id was started before position j and has not returned before j.
func liveAt(es []ev, id, j int) bool {
	st := false
	for i := 0; i < j; i++ {
		if es[i].kind == "start" && es[i].a == id {
			st = true
		}
		if es[i].kind == "ret" && es[i].a == id {
			return false
		}
	}

	return st
}

type startInfo struct{ id, name, order int }

func startsBefore(es []ev, j int) []startInfo {
	var out []startInfo
	for i := 0; i < j; i++ {
		if es[i].kind == "start" {
			out = append(out, startInfo{es[i].a, es[i].b, es[i].c})
		}
	}

	return out
}

func orderOf(es []ev, id int) (int, bool) {
	for _, e := range es {
		if e.kind == "start" && e.a == id {
			return e.c, true
		}
	}

	return 0, false
}

func oracle(r *rec, w *world, lines []string, xobs []xob, script []string) string {
	es := parseEvs(lines)
	trigger := "plain"
	for _, op := range script {
		if strings.HasPrefix(op, "park ") {
			trigger = "parked-bw"
		}
	}
	failed := map[string]string{}
	fail := func(clause, detail string, sig map[string]string) {
		if _, ok := failed[clause]; ok {
			return
		}
		failed[clause] = detail
		sig["oracle"] = clause
		r.Fail("C20-"+clause, detail+" | script: "+strings.Join(script, "; "), sig)
	}
	for j, e := range es {
		switch e.kind {
		case "seen":
			// no worker's context is cancelled until every worker with a higher order has returned
			o, ok := orderOf(es[:j], e.a)
			if !ok {
				continue
			}
			for _, s := range startsBefore(es, j) {
				if s.order > o && liveAt(es, s.id, j) {
					fail("order", fmt.Sprintf("worker inst %d (order %d) saw its cancellation while inst %d (order %d) had not returned", e.a, o, s.id, s.order),
						map[string]string{"api": "Shutdown", "trigger": trigger})
				}
			}
		case "holdtimeout":
			fail("together", fmt.Sprintf("worker inst %d saw its cancellation but an equal-order peer was not cancelled until it gave up waiting", e.a),
				map[string]string{"api": "Shutdown", "trigger": trigger})
		case "sdret":
			for _, s := range startsBefore(es, j) {
				if liveAt(es, s.id, j) {
					fail("wait", fmt.Sprintf("ShutdownAndWait returned while started worker inst %d (name %d order %d) had not returned", s.id, s.name, s.order),
						map[string]string{"api": "ShutdownAndWait", "trigger": trigger})
				}
			}
		case "runret":
			// The return is logged after it happened and workers may start in between, so only workers that were
			// certainly started before the return count: live or accepted when the call began (Run's own Start
			// starts the accepted ones), or started before the logged return of a worker Run had to wait for.
			k := -1
			for i := 0; i < j; i++ {
				if es[i].kind == "runcall" && es[i].a == e.a {
					k = i
				}
			}
			if k < 0 {
				continue
			}
			startIdx, retIdx, info := map[int]int{}, map[int]int{}, map[int]startInfo{}
			for i, x := range es {
				if x.kind == "start" {
					startIdx[x.a] = i
					info[x.a] = startInfo{x.a, x.b, x.c}
				}
				if x.kind == "ret" {
					retIdx[x.a] = i
				}
			}
			must := map[int]bool{}
			for i := 0; i < k; i++ {
				if es[i].kind == "start" && liveAt(es, es[i].a, k) {
					must[es[i].a] = true
				}
				if es[i].kind == "bwret" && es[i].res == "ok" {
					if si, ok := startIdx[es[i].a]; !ok || si > k {
						must[es[i].a] = true
					}
				}
			}
			limit := k
			for changed := true; changed; {
				changed = false
				for id := range must {
					if r, ok := retIdx[id]; ok && r < j && r > limit {
						limit = r
						changed = true
					}
				}
				for id, si := range startIdx {
					if si < limit && !must[id] {
						must[id] = true
						changed = true
					}
				}
			}
			for id := range must {
				si, started := startIdx[id]
				r, returned := retIdx[id]
				if started && si < j && (!returned || r > j) {
					s := info[id]
					t := "initial-worker"
					w.mu.Lock()
					if w.lateOps[s.id] {
						t = "worker-added-after-run-snapshot"
					}
					w.mu.Unlock()
					fail("runwait", fmt.Sprintf("Run returned while worker inst %d (name %d order %d), started before that, had not returned", s.id, s.name, s.order),
						map[string]string{"api": "Run", "trigger": t})
				}
			}
		case "start":
			for i := 0; i < j; i++ {
				if es[i].kind == "sdret" {
					fail("noadd", fmt.Sprintf("worker inst %d started after ShutdownAndWait had returned", e.a),
						map[string]string{"api": "BackgroundWorker", "what": "start-after-shutdown", "trigger": trigger})
				}
			}
		case "bwret":
			if e.res == "panic" {
				fail("crash", fmt.Sprintf("BackgroundWorker(name %d) panicked", e.b),
					map[string]string{"api": "BackgroundWorker", "what": "panic", "trigger": trigger})
			}
			if e.res != "ok" {
				continue
			}
			// the call began at its bwcall event
			k := -1
			for i := 0; i < j; i++ {
				if es[i].kind == "bwcall" && es[i].a == e.a {
					k = i
				}
			}
			for i := 0; i < k; i++ {
				if es[i].kind == "sdret" || es[i].kind == "stopseen" {
					fail("noadd", fmt.Sprintf("BackgroundWorker(name %d) called after the daemon was stopped was accepted", e.b),
						map[string]string{"api": "BackgroundWorker", "what": "accepted-after-shutdown", "trigger": trigger})
				}
			}
			// a worker of that name that ran during the whole call (live when it began and when it returned)
			for _, s := range startsBefore(es, max(k, 0)) {
				if s.name == e.b && s.id != e.a && liveAt(es, s.id, max(k, 0)) && liveAt(es, s.id, j) {
					fail("refused", fmt.Sprintf("BackgroundWorker(name %d) accepted while inst %d of that name was still running", e.b, s.id),
						map[string]string{"api": "BackgroundWorker", "what": "running-name-accepted", "trigger": trigger})
				}
			}
		case "timeout":
			fail("crash", "a guarded wait expired (hang)", map[string]string{"api": "daemon", "what": "hang", "trigger": trigger})
		case "panic":
			api, msg, what, t := "daemon", "", "panic", trigger
			w.mu.Lock()
			if len(w.panics) > 0 {
				parts := strings.SplitN(w.panics[0], ": ", 2)
				api, msg = parts[0], parts[1]
			}
			w.mu.Unlock()
			if strings.Contains(msg, "WaitGroup") {
				what = "waitgroup-panic"
			}
			fail("crash", fmt.Sprintf("%s panicked: %s", api, msg), map[string]string{"api": api, "what": what, "trigger": t})
		}
	}
	// the stopped context and the stopped flag: the context is cancelled only after the flag is set; both are set
	// before any worker context is cancelled and before ShutdownAndWait returns; the flag is set after a refusal with
	// ErrDaemonAlreadyStopped; neither is ever reset
	for i := range xobs {
		o := xobs[i]
		bad := ""
		switch {
		case o.ctx && !o.flag:
			bad = "ContextStopped() was cancelled while IsStopped() (read after it) was false"
		case (o.kind == "seen" || o.kind == "sdret") && !o.ctx:
			bad = "ContextStopped() was not cancelled"
		case o.kind != "any" && !o.flag:
			bad = "IsStopped() was false"
		}
		if bad != "" {
			what := map[string]string{"seen": "after a worker saw its context cancelled", "sdret": "after ShutdownAndWait returned",
				"refused": "after BackgroundWorker returned ErrDaemonAlreadyStopped", "any": "at some moment"}[o.kind]
			fail("ctx", bad+" "+what, map[string]string{"api": "ContextStopped", "what": o.kind, "trigger": trigger})
		}
		for j := range xobs {
			p := xobs[j]
			if o.te < p.tb && ((o.ctx && !p.ctx) || (o.flag && !p.flag)) {
				fail("ctx", "the stopped context / the stopped flag was observed set and later observed not set",
					map[string]string{"api": "ContextStopped", "what": "reset", "trigger": trigger})
			}
		}
	}
	if len(failed) == 0 {
		return "accept"
	}
	// canonical clause order, the same as the Lean driver's
	var names []string
	for _, c := range []string{"order", "together", "wait", "runwait", "noadd", "refused", "ctx", "crash"} {
		if _, ok := failed[c]; ok {
			names = append(names, c)
		}
	}

	return "reject " + strings.Join(names, ",")
}

// classify counts branches and records non-trivial cases.
func classify(r *rec, lines []string, script []string) {
	es := parseEvs(lines)
	orders := map[int]bool{}
	branch := false
	for _, e := range es {
		switch e.kind {
		case "seen":
			if o, ok := orderOf(es, e.a); ok {
				orders[o] = true
			}
		case "bwret":
			r.Count("bw:" + e.res)
			if e.b >= 20 {
				r.Count("nested-bw-from-handler:" + e.res)
			}
			if e.res != "ok" {
				branch = true
			}
		}
	}
	names := map[int]int{}
	for _, e := range es {
		if e.kind == "start" {
			names[e.b]++
			if names[e.b] == 2 {
				r.Count("branch:re-registration")
				branch = true
			}
		}
	}
	for _, e := range es {
		if e.kind == "ret" {
			seen := false
			for _, x := range es {
				if x.kind == "seen" && x.a == e.a {
					seen = true
				}
			}
			if !seen {
				r.Count("branch:early-finish")
				branch = true

				break
			}
		}
	}
	for _, op := range script {
		if strings.HasPrefix(op, "park ") {
			r.Count("branch:forced-window")
			branch = true
		}
	}
	r.Count(fmt.Sprintf("distinct-cancelled-orders:%d", min(len(orders), 6)))
	ties := map[int]int{}
	for _, e := range es {
		if e.kind == "seen" {
			if o, ok := orderOf(es, e.a); ok {
				ties[o]++
			}
		}
	}
	for _, n := range ties {
		if n > 1 {
			r.Count("branch:equal-order-group")

			break
		}
	}
	if len(orders) >= 2 || branch {
		keys := append([]string(nil), script...)
		sort.Strings(keys)
		h := sha256.Sum256([]byte(strings.Join(script, "\n") + "\n--\n" + strings.Join(lines, "\n")))
		r.res.Nontrivial = hex.EncodeToString(h[:8])
	}
}
