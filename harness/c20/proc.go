package main

import (
	"bufio"
	"encoding/json"
	"fmt"
	"os"
	"os/exec"
	"path/filepath"
	"strings"
	"sync"
	"time"

	"verifharness/hx"
)

// A panic inside a goroutine that the daemon itself started (the goroutine of Shutdown(), a worker
// goroutine) cannot be recovered in-process and kills the harness.  Cases are therefore executed by child
// processes (this same binary with --child); the parent merges their results and turns a dead child into
// an oracle failure of the case it was executing, then goes on with the remaining cases.

type caseSpec struct {
	Sub    uint64   `json:"sub"`
	Script []string `json:"script"`
}

type failRec struct {
	Oracle string            `json:"oracle"`
	Detail string            `json:"detail"`
	Sig    map[string]string `json:"sig"`
}

type caseResult struct {
	Script     []string       `json:"script"`
	Lines      [][2]string    `json:"lines"`
	Fails      []failRec      `json:"fails"`
	Counts     map[string]int `json:"counts"`
	Nontrivial string         `json:"nontrivial"`
}

// rec collects what one case produces (in the child).
type rec struct {
	mu  sync.Mutex
	res *caseResult
}

func (r *rec) Line(op, ans string) { r.res.Lines = append(r.res.Lines, [2]string{op, ans}) }

func (r *rec) Count(k string) { r.CountN(k, 1) }

func (r *rec) CountN(k string, n int) {
	r.mu.Lock()
	r.res.Counts[k] += n
	r.mu.Unlock()
}

func (r *rec) Fail(oracle, detail string, sig map[string]string) {
	r.mu.Lock()
	if len(r.res.Fails) < 20 {
		r.res.Fails = append(r.res.Fails, failRec{oracle, detail, sig})
	}
	r.mu.Unlock()
}

type resLine struct {
	Abort bool        `json:"abort,omitempty"`
	Begin *int        `json:"begin,omitempty"`
	Done  *int        `json:"done,omitempty"`
	Res   *caseResult `json:"res,omitempty"`
}

func childMain(chunkFile, resFile string) {
	b, err := os.ReadFile(chunkFile)
	if err != nil {
		panic(err)
	}
	var cases []caseSpec
	if err := json.Unmarshal(b, &cases); err != nil {
		panic(err)
	}
	f, err := os.Create(resFile)
	if err != nil {
		panic(err)
	}
	defer f.Close()
	write := func(l resLine) {
		x, _ := json.Marshal(l)
		f.Write(append(x, '\n'))
	}
	hung := 0
	for i, c := range cases {
		i := i
		write(resLine{Begin: &i})
		t0 := time.Now()
		res := runCase(c.Script)
		if d := time.Since(t0); d > 150*time.Millisecond && os.Getenv("C20_SLOW") != "" {
			fmt.Fprintf(os.Stderr, "SLOW %v %s\n", d, strings.Join(c.Script, "; "))
		}
		write(resLine{Done: &i, Res: res})
		if res.Counts["ev:timeout"] > 0 || res.Counts["ev:holdtimeout"] > 0 {
			hung++ // (a worker that gave up waiting for its equal-order peers costs a hold guard)
		}
		if hung >= 8 { // every hang costs a full guard: enough evidence, stop
			write(resLine{Abort: true})

			return
		}
	}
}

var sigSeen = map[string]int{}

func emitCase(r *hx.Run, c caseSpec, res *caseResult) {
	r.Case(c.Sub)
	for _, l := range res.Lines {
		r.Line(l[0], l[1])
	}
	for _, f := range res.Fails {
		// the recorded Run finding is hit by hundreds of random cases: forward a few per signature so that the
		// cap on findings cannot hide a different one
		b, _ := json.Marshal(f.Sig)
		sigSeen[string(b)]++
		if sigSeen[string(b)] <= 25 {
			r.Fail(f.Oracle, f.Detail, f.Sig)
		} else {
			r.Count("finding-not-forwarded:" + f.Sig["oracle"])
		}
	}
	for k, n := range res.Counts {
		r.CountN(k, n)
	}
	if res.Nontrivial != "" {
		r.Nontrivial(res.Nontrivial)
	}
	r.Sample(r.CaseLines())
}

// crashedCase is what the parent records for the case a child died in.
func crashedCase(c caseSpec, stderrTail string) *caseResult {
	res := &caseResult{Script: c.Script, Counts: map[string]int{"verdict:reject crash": 1, "child-process-crash": 1}}
	seq := len(c.Script) > 0 && c.Script[0] == "mode seq"
	trigger := "plain"
	res.Lines = append(res.Lines, [2]string{map[bool]string{true: "mode seq", false: "mode conc"}[seq], "ok"})
	for _, op := range c.Script {
		if strings.HasPrefix(op, "mode ") {
			continue
		}
		if strings.HasPrefix(op, "park ") {
			trigger = "parked-bw"
		}
		// the answers of a crashed sequential case are not compared: it is replayed as a concurrent one
		res.Lines = append(res.Lines, [2]string{"op " + op, "-"})
	}
	res.Lines[0] = [2]string{"mode conc", "ok"}
	res.Lines = append(res.Lines, [2]string{"ev panic", "ok"}, [2]string{"verdict", "reject crash"})
	what := "panic in a goroutine started by the daemon (process died)"
	first := ""
	for _, l := range strings.Split(stderrTail, "\n") {
		if strings.HasPrefix(l, "panic:") || strings.HasPrefix(l, "fatal error:") {
			first = l

			break
		}
	}
	sig := map[string]string{"oracle": "crash", "api": "daemon", "what": "process-crash", "trigger": trigger}
	res.Fails = append(res.Fails, failRec{"C20-crash", what + ": " + first + " | script: " + strings.Join(c.Script, "; "), sig})
	res.Lines = append(res.Lines, [2]string{"check", checkAnswer(res)})

	return res
}

func runAll(r *hx.Run, cases []caseSpec) {
	self, err := os.Executable()
	if err != nil {
		panic(err)
	}
	const chunk = 400
	crashes := 0
	for pos := 0; pos < len(cases); {
		end := min(pos+chunk, len(cases))
		chunkFile := filepath.Join(r.OutDir, "chunk.json")
		resFile := filepath.Join(r.OutDir, "chunk.res")
		b, _ := json.Marshal(cases[pos:end])
		if err := os.WriteFile(chunkFile, b, 0o644); err != nil {
			panic(err)
		}
		os.Remove(resFile)
		cmd := exec.Command(self, "--child", chunkFile, resFile)
		var errBuf strings.Builder
		cmd.Stderr = &errBuf
		runErr := cmd.Run()
		if os.Getenv("C20_SLOW") != "" {
			fmt.Fprint(os.Stderr, errBuf.String())
		}
		begun, done, aborted := -1, -1, false
		if f, err := os.Open(resFile); err == nil {
			sc := bufio.NewScanner(f)
			sc.Buffer(make([]byte, 1<<20), 1<<28)
			for sc.Scan() {
				var l resLine
				if json.Unmarshal(sc.Bytes(), &l) != nil {
					break
				}
				if l.Abort {
					aborted = true
				}
				if l.Begin != nil {
					begun = *l.Begin
				}
				if l.Done != nil && l.Res != nil {
					done = *l.Done
					emitCase(r, cases[pos+done], l.Res)
				}
			}
			f.Close()
		}
		if aborted {
			r.Count("aborted-after-8-hung-cases")
			fmt.Fprintln(os.Stderr, "8 cases hung: remaining cases skipped")

			break
		}
		if runErr == nil && done == end-pos-1 {
			pos = end

			continue
		}
		// the child died while executing case `begun` (or before its first case)
		crashes++
		bad := max(begun, done+1)
		tail := errBuf.String()
		if len(tail) > 4000 {
			tail = tail[:4000]
		}
		if pos+bad < len(cases) {
			emitCase(r, cases[pos+bad], crashedCase(cases[pos+bad], tail))
		}
		pos = pos + bad + 1
		if crashes > 200 {
			fmt.Fprintln(os.Stderr, "too many crashed children, giving up")

			break
		}
	}
	os.Remove(filepath.Join(r.OutDir, "chunk.json"))
	os.Remove(filepath.Join(r.OutDir, "chunk.res"))
}

// checkAnswer is the implementation column of the `check` line: the constant "accept", so that a log the
// Lean predicates reject shows up as a mismatch and its script lands in the replay file.
func checkAnswer(*caseResult) string { return "accept" }
