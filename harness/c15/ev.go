package main

import (
	"fmt"
	"runtime"
	"sort"
	"strconv"
	"strings"
	"sync"

	"verifharness/hx"

	"github.com/iotaledger/hive.go/runtime/event"
	"github.com/iotaledger/hive.go/runtime/workerpool"
)

// The `ev` section: sequential histories over real event.Event1[int] objects.
//
//	ev new <max> [pre] [pool]  New1[int](WithMaxTriggerCount(max)[, WithPreTriggerFunc][, WithWorkerPool(pool)])    -> e<i>
//	ev hook <e> <max> sync|pool|inplace [pre]  Hook with WithMaxTriggerCount / WithPreTriggerFunc and no pool option
//	                           (sync: the event's pool, if any, applies) / WithWorkerPool(pool) / WithWorkerPool(nil)   -> h<i>
//	                           an entry counts as pooled iff it ran on another goroutine than the Trigger call
//	                           log entries: <h>:<a> invocation, E<e>:<a> / P<h>:<a> pre-trigger function of event / hook
//	ev unhook <h>
//	ev trigger <e> <a>         -> sync [h:a ...] pool [h:a ...]   (pooled calls after the pool drained, sorted)
//	ev link <src> <tgt>        src.LinkTo(tgt), only tgt < src (acyclic)
//	ev unlink <src>            src.LinkTo(nil)
//	ev tcount <e> | ev hcount <h>

type evCall struct {
	h, a   int
	pooled bool
	kind   string // "" invocation, "E" event pre-trigger function (h = event), "P" hook pre-trigger function
}

// oracle records (the property's reading, independent of the Lean model)
type oHook struct {
	ev, handle int
	link       int    // -1: user hook, else source event
	max        uint64 // 0 = unlimited
	count      int
	fired      int
	pool       int // 0 no option (inherit the event's pool), 1 own pool, 2 forced in place
	alive      bool
	pre        bool
}

type oEvent struct {
	max         uint64
	count       int
	link        *oHook
	pre, pooled bool
}

type evWorld struct {
	events []*event.Event1[int]
	hooks  []*event.Hook[func(int)]
	pool   *workerpool.WorkerPool
	mu     sync.Mutex
	log    []evCall
	caller int64 // goroutine of the running top-level Trigger call
	// oracle
	oev      []*oEvent
	ohooks   []*oHook // all hooks (user and link) in creation order
	ouser    []*oHook
	triggers int
	links    int
}

func (w *world) evw() *evWorld {
	if w.ev == nil {
		w.ev = &evWorld{}
	}

	return w.ev
}

func (v *evWorld) getPool() *workerpool.WorkerPool {
	if v.pool == nil {
		v.pool = workerpool.New("c15", workerpool.WithWorkerCount(2)).Start()
	}

	return v.pool
}

func (v *evWorld) finish(w *world) {
	if v.pool != nil {
		// not waiting for ShutdownComplete: whether the pool always shuts down is C16's subject (a dispatcher parked
		// in PopOrWait can miss the shutdown signal), here the pool only has to have drained after every Trigger
		v.pool.Shutdown()
	}
	w.res.nontrivial = v.triggers >= 2 && len(v.hooks) >= 2
}

func fmtCalls(cs []evCall) string {
	parts := make([]string, len(cs))
	for i, c := range cs {
		parts[i] = fmt.Sprintf("%s%d:%d", c.kind, c.h, c.a)
	}

	return "[" + strings.Join(parts, " ") + "]"
}

// goid returns the id of the calling goroutine (parsed from the stack header "goroutine N [").
func goid() int64 {
	var buf [64]byte
	n := runtime.Stack(buf[:], false)
	f := strings.Fields(string(buf[:n]))
	if len(f) < 2 {
		return -1
	}
	id, _ := strconv.ParseInt(f[1], 10, 64)

	return id
}

func (v *evWorld) record(h, a int, kind string) {
	async := goid() != v.caller
	v.mu.Lock()
	v.log = append(v.log, evCall{h, a, async, kind})
	v.mu.Unlock()
}

func rank(c evCall) int {
	switch c.kind {
	case "E":
		return 1
	case "P":
		return 2
	}

	return 0
}

func sortPool(cs []evCall) {
	sort.SliceStable(cs, func(i, j int) bool {
		if rank(cs[i]) != rank(cs[j]) {
			return rank(cs[i]) < rank(cs[j])
		}

		return cs[i].h < cs[j].h
	})
}

// expect computes, per the property, the calls of one Trigger(e, a) and updates the oracle records (async: this
// Trigger was itself submitted to a pool).
func (v *evWorld) expect(e, a int, async bool, out *[]evCall) {
	oe := v.oev[e]
	oe.count++
	if oe.max != 0 && uint64(oe.count) > oe.max {
		return
	}
	n := len(v.ohooks)
	for i := 0; i < n; i++ {
		h := v.ohooks[i]
		if h.ev != e || !h.alive {
			continue
		}
		h.count++
		if h.max != 0 && uint64(h.count) > h.max {
			h.alive = false

			continue
		}
		h.fired++
		if oe.pre {
			*out = append(*out, evCall{e, a, async, "E"})
		}
		if h.pre {
			*out = append(*out, evCall{h.handle, a, async, "P"})
		}
		pooled := async || h.pool == 1 || (h.pool == 0 && oe.pooled)
		if h.link >= 0 {
			v.expect(h.link, a, pooled, out)
		} else {
			*out = append(*out, evCall{h.handle, a, pooled, ""})
		}
	}
}

func (w *world) execEV(f []string) string {
	v := w.evw()
	lim := func(i int) (uint64, bool) { // limits range over all of uint64
		if i >= len(f) {
			return 0, false
		}
		x, err := strconv.ParseUint(f[i], 10, 64)

		return x, err == nil
	}
	num := func(i int) (int, bool) {
		if i >= len(f) {
			return 0, false
		}
		x, err := strconv.Atoi(f[i])

		return x, err == nil && x >= 0
	}
	if len(f) == 0 {
		return "bad-op"
	}
	switch f[0] {
	case "new":
		m, ok := lim(1)
		rest := strings.Join(f[2:], " ")
		if !ok || !(rest == "" || rest == "pre" || rest == "pool" || rest == "pre pool") {
			return "bad-op"
		}
		pre := strings.HasPrefix(rest, "pre")
		epool := strings.HasSuffix(rest, "pool")
		var eopts []event.Option
		if epool {
			eopts = append(eopts, event.WithWorkerPool(v.getPool()))
		}
		if m > 0 {
			eopts = append(eopts, event.WithMaxTriggerCount(m))
		}
		if pre {
			idx := len(v.events)
			eopts = append(eopts, event.WithPreTriggerFunc(func(a int) { v.record(idx, a, "E") }))
		}
		v.events = append(v.events, event.New1[int](eopts...))
		v.oev = append(v.oev, &oEvent{max: m, pre: pre, pooled: epool})

		return fmt.Sprintf("e%d", len(v.events)-1)
	case "hook":
		e, ok1 := num(1)
		m, ok2 := lim(2)
		if !ok1 || !ok2 || !(len(f) == 4 || (len(f) == 5 && f[4] == "pre")) || (f[3] != "sync" && f[3] != "pool" && f[3] != "inplace") || e >= len(v.events) {
			return "bad-op"
		}
		pool := map[string]int{"sync": 0, "pool": 1, "inplace": 2}[f[3]]
		pre := len(f) == 5
		h := len(v.hooks)
		var opts []event.Option
		if m > 0 {
			opts = append(opts, event.WithMaxTriggerCount(m))
		}
		switch pool {
		case 1:
			opts = append(opts, event.WithWorkerPool(v.getPool()))
		case 2:
			opts = append(opts, event.WithWorkerPool(nil))
		}
		if pre {
			opts = append(opts, event.WithPreTriggerFunc(func(a int) { v.record(h, a, "P") }))
		}
		v.hooks = append(v.hooks, v.events[e].Hook(func(a int) { v.record(h, a, "") }, opts...))
		oh := &oHook{ev: e, handle: h, link: -1, max: m, pool: pool, alive: true, pre: pre}
		v.ohooks = append(v.ohooks, oh)
		v.ouser = append(v.ouser, oh)

		return fmt.Sprintf("h%d", h)
	case "unhook":
		h, ok := num(1)
		if !ok || len(f) != 2 || h >= len(v.hooks) {
			return "bad-op"
		}
		v.hooks[h].Unhook()
		v.ouser[h].alive = false

		return "done"
	case "trigger":
		e, ok1 := num(1)
		a, ok2 := num(2)
		if !ok1 || !ok2 || len(f) != 3 || e >= len(v.events) {
			return "bad-op"
		}
		v.triggers++
		v.mu.Lock()
		v.log = nil
		v.caller = goid()
		v.mu.Unlock()
		v.events[e].Trigger(a)
		v.mu.Lock()
		var syncCalls []evCall
		for _, c := range v.log {
			if !c.pooled {
				syncCalls = append(syncCalls, c)
			}
		}
		v.mu.Unlock()
		if v.pool != nil {
			if !guarded(func() { v.pool.PendingTasksCounter.WaitIsZero() }) {
				w.fail("hang", "worker pool did not drain", map[string]string{"oracle": "hang", "api": "workerpool.PendingTasksCounter"})
			}
		}
		v.mu.Lock()
		var poolCalls []evCall
		for _, c := range v.log {
			if c.pooled {
				poolCalls = append(poolCalls, c)
			}
		}
		nSyncAfter := len(v.log) - len(poolCalls)
		v.mu.Unlock()
		sortPool(poolCalls)
		// the property, evaluated independently of Lean
		var want []evCall
		v.expect(e, a, false, &want)
		var wantSync, wantPool []evCall
		for _, c := range want {
			if c.pooled {
				wantPool = append(wantPool, c)
			} else {
				wantSync = append(wantSync, c)
			}
		}
		sortPool(wantPool)
		if fmtCalls(syncCalls) != fmtCalls(wantSync) || nSyncAfter != len(syncCalls) {
			w.fail("trigger-exactly-once", fmt.Sprintf("Trigger(e%d,%d): synchronous calls %s, the attached hooks in attachment order are %s", e, a, fmtCalls(syncCalls), fmtCalls(wantSync)),
				map[string]string{"oracle": "sync-calls", "api": "event.Event1.Trigger", "mode": "sequential"})
		}
		if fmtCalls(poolCalls) != fmtCalls(wantPool) {
			w.fail("trigger-exactly-once", fmt.Sprintf("Trigger(e%d,%d): pooled calls after drain %s, expected %s", e, a, fmtCalls(poolCalls), fmtCalls(wantPool)),
				map[string]string{"oracle": "pool-calls", "api": "event.Event1.Trigger", "mode": "sequential"})
		}

		return "sync " + fmtCalls(syncCalls) + " pool " + fmtCalls(poolCalls)
	case "link":
		s, ok1 := num(1)
		t, ok2 := num(2)
		if !ok1 || !ok2 || len(f) != 3 || s >= len(v.events) || !(t < s) {
			return "bad-op"
		}
		v.links++
		v.events[s].LinkTo(v.events[t])
		if l := v.oev[s].link; l != nil {
			l.alive = false
		}
		oh := &oHook{ev: t, link: s, alive: true}
		v.ohooks = append(v.ohooks, oh)
		v.oev[s].link = oh

		return "done"
	case "unlink":
		s, ok := num(1)
		if !ok || len(f) != 2 || s >= len(v.events) {
			return "bad-op"
		}
		v.events[s].LinkTo(nil)
		if l := v.oev[s].link; l != nil {
			l.alive = false
		}
		v.oev[s].link = nil

		return "done"
	case "tcount":
		e, ok := num(1)
		if !ok || len(f) != 2 || e >= len(v.events) {
			return "bad-op"
		}
		got := v.events[e].TriggerCount()
		if got != v.oev[e].count {
			w.fail("max-trigger-count", fmt.Sprintf("event e%d: TriggerCount %d after %d triggers", e, got, v.oev[e].count),
				map[string]string{"oracle": "event-count", "api": "event.TriggerCount", "mode": "sequential"})
		}
		// the read-only accessors of the trigger settings, against the oracle's own records
		oe := v.oev[e]
		if was, reached, max := v.events[e].WasTriggered(), v.events[e].MaxTriggerCountReached(), v.events[e].MaxTriggerCount(); was != (oe.count > 0) ||
			reached != (oe.max != 0 && uint64(oe.count) > oe.max) || max != int(oe.max) {
			w.fail("max-trigger-count", fmt.Sprintf("event e%d with limit %d after %d triggers: WasTriggered %v, MaxTriggerCountReached %v, MaxTriggerCount %d", e, oe.max, oe.count, was, reached, max),
				map[string]string{"oracle": "settings-accessors", "api": "event.triggerSettings", "mode": "sequential"})
		}

		return strconv.Itoa(got)
	case "hcount":
		h, ok := num(1)
		if !ok || len(f) != 2 || h >= len(v.hooks) {
			return "bad-op"
		}
		oh := v.ouser[h]
		want := oh.count
		if oh.max != 0 && uint64(want) > oh.max {
			want = int(oh.max)
		}
		if oh.fired != want {
			w.fail("max-trigger-count", fmt.Sprintf("hook h%d with limit %d fired %d times after %d visits", h, oh.max, oh.fired, oh.count),
				map[string]string{"oracle": "hook-fired", "api": "event.Hook", "mode": "sequential"})
		}

		if was, reached, max := v.hooks[h].WasTriggered(), v.hooks[h].MaxTriggerCountReached(), v.hooks[h].MaxTriggerCount(); was != (oh.count > 0) ||
			reached != (oh.max != 0 && uint64(oh.count) > oh.max) || max != int(oh.max) {
			w.fail("max-trigger-count", fmt.Sprintf("hook h%d with limit %d after %d visits: WasTriggered %v, MaxTriggerCountReached %v, MaxTriggerCount %d", h, oh.max, oh.count, was, reached, max),
				map[string]string{"oracle": "settings-accessors", "api": "event.Hook", "mode": "sequential"})
		}

		return strconv.Itoa(v.hooks[h].TriggerCount())
	}

	return "bad-op"
}

// hugeLimits: MaxInt64-1, MaxInt64, MaxInt64+1, MaxUint64-1, MaxUint64 (the counters and limits are uint64).
var hugeLimits = []string{"9223372036854775806", "9223372036854775807", "9223372036854775808", "18446744073709551614", "18446744073709551615"}

var evCorpus = [][]string{
	{"ev new 18446744073709551615", "ev hook 0 9223372036854775808 sync", "ev hook 0 9223372036854775807 pool", "ev hook 0 18446744073709551614 sync", "ev hook 0 1 sync", "ev trigger 0 1", "ev trigger 0 2", "ev hcount 0", "ev tcount 0"},
	{"ev new 9223372036854775808", "ev new 9223372036854775806", "ev hook 1 18446744073709551615 sync", "ev hook 0 0 sync", "ev link 1 0", "ev trigger 0 3", "ev trigger 1 4"},
	// event-level pool: hooks without a pool option are submitted, WithWorkerPool(nil) forces in-place execution
	{"ev new 0 pool", "ev hook 0 0 sync", "ev hook 0 0 inplace", "ev hook 0 2 pool pre", "ev trigger 0 5", "ev trigger 0 6", "ev trigger 0 7"},
	// a link hook on a pooled target: the source's Trigger (its pre-trigger calls and in-place hooks too) runs in a worker
	{"ev new 0 pre pool", "ev new 0 pre", "ev hook 1 0 sync pre", "ev hook 1 0 inplace", "ev hook 0 0 inplace", "ev link 1 0", "ev trigger 0 1", "ev trigger 1 2"},
	{"ev new 0 pre", "ev hook 0 0 sync", "ev hook 0 1 pool pre", "ev hook 0 0 sync pre", "ev unhook 0", "ev trigger 0 5", "ev hook 0 3 sync", "ev trigger 0 6"},
	{"ev new 0 pre", "ev new 1 pre", "ev hook 1 0 sync pre", "ev hook 0 2 sync pre", "ev link 1 0", "ev trigger 0 1", "ev trigger 0 2", "ev trigger 0 3", "ev trigger 1 4"},
	{"ev new 0", "ev hook 0 0 sync", "ev hook 0 2 sync", "ev hook 0 0 pool", "ev trigger 0 7", "ev trigger 0 8", "ev trigger 0 9", "ev hcount 1", "ev unhook 0", "ev trigger 0 1", "ev tcount 0"},
	{"ev new 2", "ev new 0", "ev hook 0 0 sync", "ev hook 1 0 sync", "ev link 1 0", "ev trigger 0 1", "ev trigger 0 2", "ev trigger 0 3", "ev trigger 1 4", "ev tcount 0", "ev tcount 1"},
	{"ev new 0", "ev new 0", "ev new 0", "ev hook 2 0 sync", "ev link 2 0", "ev trigger 0 1", "ev link 2 1", "ev trigger 0 2", "ev trigger 1 3", "ev unlink 2", "ev trigger 1 4", "ev link 2 1", "ev link 2 1", "ev trigger 1 5"},
	{"ev new 0", "ev new 0", "ev new 1", "ev hook 0 0 sync", "ev hook 1 1 pool", "ev hook 2 0 sync", "ev link 1 0", "ev link 2 1", "ev hook 0 0 sync", "ev trigger 0 5", "ev trigger 0 6", "ev hcount 1", "ev link 1 3", "ev link 0 0", "ev hook 9 0 sync", "ev unhook 9", "ev trigger 9 1"},
}

func genEV(rng *hx.Rng, n int) []string {
	limits := []string{"0", "0", "0", "1", "2", "3", "1", "2"}
	limits = append(limits, hx.Pick(rng, hugeLimits)) // around MaxInt64 and MaxUint64: behave like "never reached"
	ne := 1 + rng.Intn(4)
	var ops []string
	for i := 0; i < ne; i++ {
		pre := ""
		if rng.Chance(1, 3) {
			pre = " pre"
		}
		if rng.Chance(1, 4) {
			pre += " pool"
		}
		ops = append(ops, fmt.Sprintf("ev new %s%s", hx.Pick(rng, []string{"0", "0", "0", "1", "2", "4", hx.Pick(rng, hugeLimits)}), pre))
	}
	hooks := 0
	for i := 0; i < n; i++ {
		switch x := rng.Intn(100); {
		case x < 25 || hooks == 0:
			kind := "sync"
			if rng.Chance(1, 4) {
				kind = "pool"
			} else if rng.Chance(1, 6) {
				kind = "inplace"
			}
			if rng.Chance(1, 4) {
				kind += " pre"
			}
			ops = append(ops, fmt.Sprintf("ev hook %d %s %s", rng.Intn(ne), hx.Pick(rng, limits), kind))
			hooks++
		case x < 35:
			ops = append(ops, fmt.Sprintf("ev unhook %d", rng.Intn(hooks+1)))
		case x < 70:
			ops = append(ops, fmt.Sprintf("ev trigger %d %d", rng.Intn(ne), rng.Intn(10)))
		case x < 82:
			s := rng.Intn(ne)
			t := rng.Intn(ne)
			if s < t {
				s, t = t, s
			}
			ops = append(ops, fmt.Sprintf("ev link %d %d", s, t))
		case x < 87:
			ops = append(ops, fmt.Sprintf("ev unlink %d", rng.Intn(ne)))
		case x < 90:
			ops = append(ops, "ev new 0")
			ne++
		case x < 95:
			ops = append(ops, fmt.Sprintf("ev tcount %d", rng.Intn(ne)))
		default:
			ops = append(ops, fmt.Sprintf("ev hcount %d", rng.Intn(hooks)))
		}
	}

	return ops
}
