package main

import (
	"context"
	"errors"
	"fmt"
	"strconv"
	"strings"
	"time"

	"verifharness/hx"

	"github.com/iotaledger/hive.go/runtime/valuenotifier"
)

const (
	vnTimeout   = 250 * time.Millisecond // deadline of the `timeout` context
	vnShort     = 4 * time.Millisecond   // deadline of the `short` context (a closed notify channel still wins at once)
	guardWait   = 30 * time.Second       // a blocking call that takes longer is reported as a hang
	vnNumValues = 3
)

// vnTrack is the independent oracle state of one listener: the property speaks about exactly this.
type vnTrack struct {
	value int
	dereg bool // deregistered (explicitly, or by a Wait that returned)
	hit   bool // Notify(value) was called after creation and before deregistration
}

// vnNotifier is the notifier under test behind one of several key types (the generic parameter T of Notifier[T]):
// values are small integers in the op lines and are mapped injectively to keys of the chosen type.
type vnNotifier interface {
	Listener(v int) *valuenotifier.Listener
	Notify(v int)
}

type vnKey struct {
	A string
	B int32
	C [2]bool
}

type (
	vnInt    struct{ n *valuenotifier.Notifier[int] }
	vnString struct{ n *valuenotifier.Notifier[string] }
	vnStruct struct{ n *valuenotifier.Notifier[vnKey] }
	vnAny    struct{ n *valuenotifier.Notifier[any] }
)

func strKey(v int) string { return fmt.Sprintf("value-%d", v) }
func structKey(v int) vnKey {
	return vnKey{A: strings.Repeat("a", v%3), B: int32(v / 3), C: [2]bool{v%2 == 0, v%5 == 0}}
}

// anyKey: dynamic types mixed in one notifier (1 and "1" and int64(1) are different keys)
func anyKey(v int) any {
	switch v % 3 {
	case 0:
		return v / 3
	case 1:
		return strconv.Itoa(v / 3)
	}

	return int64(v / 3)
}

func (x vnInt) Listener(v int) *valuenotifier.Listener    { return x.n.Listener(v) }
func (x vnInt) Notify(v int)                              { x.n.Notify(v) }
func (x vnString) Listener(v int) *valuenotifier.Listener { return x.n.Listener(strKey(v)) }
func (x vnString) Notify(v int)                           { x.n.Notify(strKey(v)) }
func (x vnStruct) Listener(v int) *valuenotifier.Listener { return x.n.Listener(structKey(v)) }
func (x vnStruct) Notify(v int)                           { x.n.Notify(structKey(v)) }
func (x vnAny) Listener(v int) *valuenotifier.Listener    { return x.n.Listener(anyKey(v)) }
func (x vnAny) Notify(v int)                              { x.n.Notify(anyKey(v)) }

func newVNNotifier(kind string) vnNotifier {
	switch kind {
	case "int":
		return vnInt{valuenotifier.New[int]()}
	case "string":
		return vnString{valuenotifier.New[string]()}
	case "struct":
		return vnStruct{valuenotifier.New[vnKey]()}
	case "any":
		return vnAny{valuenotifier.New[any]()}
	}

	return nil
}

var vnKeyTypes = []string{"int", "string", "struct", "any"}

type vnWorld struct {
	n       vnNotifier
	ls      []*valuenotifier.Listener
	tr      []*vnTrack
	gens    map[int]int // listener generations per value (a generation ends with Notify or the last deregistration)
	live    map[int]int
	waits   int
	regened bool
}

func (w *world) vnw() *vnWorld {
	if w.vn == nil {
		w.vn = &vnWorld{n: newVNNotifier("int"), gens: map[int]int{}, live: map[int]int{}}
	}

	return w.vn
}

func waitResult(err error) string {
	switch {
	case err == nil:
		return "ok"
	case errors.Is(err, valuenotifier.ErrListenerDeregistered):
		return "dereg"
	case errors.Is(err, context.Canceled):
		return "canceled"
	case errors.Is(err, context.DeadlineExceeded):
		return "deadline"
	}

	return "err"
}

// guarded runs f in a goroutine and reports whether it returned within the guard timeout.  A panic of f is
// re-raised in the caller's goroutine (where the interpreter recovers it and reports it).
func guarded(f func()) bool {
	done := make(chan struct{})
	var pv any
	go func() {
		defer close(done)
		defer func() { pv = recover() }()
		f()
	}()
	select {
	case <-done:
		if pv != nil {
			panic(pv)
		}

		return true
	case <-time.After(guardWait):
		return false
	}
}

func (w *world) execVN(f []string) string {
	v := w.vnw()
	if len(f) < 2 {
		return "bad-op"
	}
	if f[0] == "keytype" {
		// the key type of the case's notifier; only before the first listener exists (the model has no key types)
		n := newVNNotifier(f[1])
		if len(f) != 2 || n == nil || len(v.ls) != 0 {
			return "bad-op"
		}
		v.n = n
		w.count("vn:keytype:" + f[1])

		return "ok"
	}
	x, err := strconv.Atoi(f[1])
	if err != nil || x < 0 {
		return "bad-op"
	}
	switch f[0] {
	case "listener":
		if len(f) != 2 {
			return "bad-op"
		}
		l := v.n.Listener(x)
		v.ls = append(v.ls, l)
		v.tr = append(v.tr, &vnTrack{value: x})
		if v.live[x] == 0 {
			v.gens[x]++
			if v.gens[x] >= 2 {
				v.regened = true
			}
		}
		v.live[x]++

		return fmt.Sprintf("l%d", len(v.ls)-1)
	case "notify":
		if len(f) != 2 {
			return "bad-op"
		}
		if !guarded(func() { v.n.Notify(x) }) {
			w.fail("hang", "Notify did not return", map[string]string{"oracle": "hang", "api": "valuenotifier.Notify"})

			return "hang"
		}
		for _, t := range v.tr {
			if t.value == x && !t.dereg {
				t.hit = true
			}
		}
		v.live[x] = 0

		return "done"
	case "dereg":
		if len(f) != 2 {
			return "bad-op"
		}
		if x >= len(v.ls) {
			return "nohandle"
		}
		if !guarded(func() { v.ls[x].Deregister() }) {
			w.fail("hang", "Deregister did not return", map[string]string{"oracle": "hang", "api": "valuenotifier.Deregister"})

			return "hang"
		}
		v.markDereg(x)

		return "done"
	case "wait":
		if len(f) != 3 || (f[2] != "cancelled" && f[2] != "timeout" && f[2] != "short") {
			return "bad-op"
		}
		if x >= len(v.ls) {
			return "nohandle"
		}
		var ctx context.Context
		var cancel context.CancelFunc
		if f[2] == "cancelled" {
			ctx, cancel = context.WithCancel(context.Background())
			cancel()
		} else if f[2] == "short" {
			ctx, cancel = context.WithTimeout(context.Background(), vnShort)
		} else {
			ctx, cancel = context.WithTimeout(context.Background(), vnTimeout)
		}
		defer cancel()
		var werr error
		if !guarded(func() { werr = v.ls[x].Wait(ctx) }) {
			w.fail("hang", "Wait did not return", map[string]string{"oracle": "hang", "api": "valuenotifier.Wait"})

			return "hang"
		}
		res := waitResult(werr)
		t := v.tr[x]
		v.waits++
		if res == "ok" && !(t.hit && !t.dereg) {
			why := "no Notify for its value between its creation and its deregistration"
			if t.dereg {
				why = "the listener was already deregistered"
			}
			w.fail("notifier-wait", fmt.Sprintf("Wait of listener %d (value %d) returned success although %s", x, t.value, why),
				map[string]string{"oracle": "wait-ok-without-notify", "api": "valuenotifier.Listener.Wait", "mode": "sequential"})
		}
		if res == "dereg" && !t.dereg {
			w.fail("notifier-wait", fmt.Sprintf("Wait of listener %d returned ErrListenerDeregistered although it was never deregistered", x),
				map[string]string{"oracle": "wait-dereg-without-deregister", "api": "valuenotifier.Listener.Wait", "mode": "sequential"})
		}
		v.markDereg(x)

		return res
	}

	return "bad-op"
}

func (v *vnWorld) markDereg(h int) {
	t := v.tr[h]
	if !t.dereg {
		t.dereg = true
		if v.live[t.value] > 0 && !t.hit {
			v.live[t.value]--
		}
	}
}

func (v *vnWorld) finish(w *world) {
	if v.regened && v.waits > 0 {
		w.res.nontrivial = true
	}
}

// vnCorpus: hand-written histories and minimised past failures, run first.
var vnCorpus = [][]string{
	// the stale-deregistration defect of the original code (DESIGN.md section 7): l1's deferred Deregister
	// closed the channel of the newer generation l2
	{"vn listener 7", "vn notify 7", "vn listener 7", "vn wait 0 timeout", "vn wait 1 timeout"},
	{"vn listener 7", "vn notify 7", "vn listener 7", "vn dereg 0", "vn wait 1 timeout"},
	{"vn listener 1", "vn listener 1", "vn dereg 1", "vn notify 1", "vn wait 0 timeout", "vn wait 1 timeout"},
	{"vn listener 1", "vn listener 1", "vn dereg 0", "vn dereg 1", "vn listener 1", "vn notify 1", "vn wait 2 timeout", "vn wait 0 cancelled"},
	{"vn listener 2", "vn wait 0 cancelled", "vn notify 2", "vn listener 2", "vn wait 0 timeout", "vn wait 1 cancelled", "vn dereg 5", "vn wait 9 cancelled"},
	{"vn listener 0", "vn notify 0", "vn listener 0", "vn listener 0", "vn wait 0 timeout", "vn wait 1 timeout", "vn notify 0", "vn wait 2 timeout"},
}

// genVN generates one history.  The context kind of every Wait is chosen with the help of the expected
// state: a Wait that is expected to succeed gets a deadline context (it returns at once), a Wait that is
// expected not to be notified mostly gets an already cancelled context (only the context is ready then)
// and sometimes a deadline context (so that an unexpectedly closed channel is seen deterministically).
func genVN(rng *hx.Rng, n int) []string {
	var tr []*vnTrack
	var ops []string
	if kt := hx.Pick(rng, vnKeyTypes); kt != "int" {
		ops = append(ops, "vn keytype "+kt)
	}
	for i := 0; i < n; i++ {
		switch x := rng.Intn(100); {
		case x < 32 || len(tr) == 0:
			v := rng.Intn(vnNumValues)
			tr = append(tr, &vnTrack{value: v})
			ops = append(ops, fmt.Sprintf("vn listener %d", v))
		case x < 52:
			v := rng.Intn(vnNumValues)
			for _, t := range tr {
				if t.value == v && !t.dereg {
					t.hit = true
				}
			}
			ops = append(ops, fmt.Sprintf("vn notify %d", v))
		case x < 66:
			h := rng.Intn(len(tr) + 1)
			if h < len(tr) {
				tr[h].dereg = true
			}
			ops = append(ops, fmt.Sprintf("vn dereg %d", h))
		default:
			h := rng.Intn(len(tr))
			for tries := 0; tries < 3 && tr[h].dereg; tries++ {
				h = rng.Intn(len(tr)) // prefer listeners that can still wait
			}
			if rng.Chance(1, 40) {
				h = len(tr) + rng.Intn(2)
			}
			kind := "cancelled"
			if h < len(tr) {
				t := tr[h]
				if (t.hit && !t.dereg) || rng.Chance(1, 12) {
					kind = "timeout"
				}
				t.dereg = true
			}
			ops = append(ops, fmt.Sprintf("vn wait %d %s", h, kind))
		}
	}

	return ops
}
