package main

import (
	"fmt"
	"runtime"
	"strconv"
	"sync"
	"sync/atomic"

	"verifharness/hx"

	"github.com/iotaledger/hive.go/runtime/valuenotifier"
)

// The `vc` section: concurrent listener creation for ONE value on the case's notifier.
//
//	vc <N> <value> <seed>   -> begun
//
// One listener for <value> exists (created first), then N goroutines released together each call
// Listener(value).  Afterwards the round continues with ordinary `vn` requests, emitted here and executed
// through the normal `vn` path (so the independent oracle and the Lean notifier machine — the one
// C15_notifier is about — judge them): the N+1 creations are reported as `vn listener` lines (they commute,
// any order is a linearisation), all but one listener are deregistered in a seed-derived order, the
// survivor waits with a very short deadline (must NOT succeed: no Notify yet); then a fresh listener is
// created, `vn notify`, and its Wait must succeed.
func (w *world) execVC(f []string) string {
	if len(f) != 3 {
		return "bad-op"
	}
	n, err1 := strconv.Atoi(f[0])
	val, err2 := strconv.Atoi(f[1])
	seed, err3 := strconv.Atoi(f[2])
	if err1 != nil || err2 != nil || err3 != nil || n < 1 || n > 32 || val < 0 || seed < 0 {
		return "bad-op"
	}
	v := w.vnw()
	w.emit(fmt.Sprintf("vc %d %d %d", n, val, seed), "begun")
	first := len(v.ls)
	w.emit(fmt.Sprintf("vn listener %d", val), w.execVN([]string{"listener", strconv.Itoa(val)}))
	// N concurrent creations for the same value
	ls := make([]*valuenotifier.Listener, n)
	var wg sync.WaitGroup
	var pn panics
	var start atomic.Bool
	var ready atomic.Int32
	for i := 0; i < n; i++ {
		i := i
		pn.goSafe(&wg, func() {
			ready.Add(1)
			spinUntil(&start) // all creators leave the barrier within a few nanoseconds
			ls[i] = v.n.Listener(val)
		})
	}
	for spins := 0; int(ready.Load()) < n && spins < 1<<22; spins++ {
		runtime.Gosched()
	}
	start.Store(true)
	if !waitTimeout(&wg) {
		w.fail("hang", "concurrent Listener callers did not finish", map[string]string{"oracle": "hang", "api": "valuenotifier.Listener", "mode": "stress"})

		return ""
	}
	pn.report(w, "vc")
	for i := 0; i < n; i++ {
		if ls[i] == nil {
			return ""
		}
		v.ls = append(v.ls, ls[i])
		v.tr = append(v.tr, &vnTrack{value: val})
		v.live[val]++
		w.emit(fmt.Sprintf("vn listener %d", val), fmt.Sprintf("l%d", len(v.ls)-1))
	}
	// all but two deregister, in a seed-derived order
	rng := hx.NewRng(uint64(seed)*2654435761 + uint64(n))
	order := make([]int, n+1)
	for i := range order {
		order[i] = first + i
	}
	for i := len(order) - 1; i > 0; i-- {
		j := rng.Intn(i + 1)
		order[i], order[j] = order[j], order[i]
	}
	run := func(op string) {
		if line, ans := w.exec(op); line != "" {
			w.emit(line, ans)
		}
	}
	for _, h := range order[1:] {
		run(fmt.Sprintf("vn dereg %d", h))
	}
	// the only listener that is still registered: nothing was notified, so its Wait must not succeed (a lost
	// count increment would have closed the shared channel at the deregistration that brought the count to 0)
	run(fmt.Sprintf("vn wait %d short", order[0]))
	// positive control: a listener that is registered when Notify is called does succeed
	run(fmt.Sprintf("vn listener %d", val))
	run(fmt.Sprintf("vn notify %d", val))
	run(fmt.Sprintf("vn wait %d timeout", len(v.ls)-1))
	w.res.nontrivial = true

	return ""
}

func genVC(rng *hx.Rng) []string {
	var ops []string
	if kt := hx.Pick(rng, vnKeyTypes); kt != "int" {
		ops = append(ops, "vn keytype "+kt)
	}
	for r := 0; r < 60; r++ {
		ops = append(ops, fmt.Sprintf("vc %d %d %d", 4+rng.Intn(5), r%3, rng.Intn(1000000)))
	}

	return ops
}
