package main

import (
	"context"
	"fmt"
	"runtime"
	"strconv"
	"strings"
	"sync"
	"sync/atomic"

	"verifharness/hx"
)

// The `vx` section: concurrent deregistrations of ONE listener while other listeners share its value.
//
//	vx <K> <G> <mode> <value> <seed>   -> begun
//
// K listeners for <value> are created (ordinary `vn listener` requests).  One of them (the victim, seed-derived) is
// then deregistered by G goroutines that leave a spin barrier together: all call Deregister (mode 0), or one of them
// calls Wait with an already cancelled context — whose deferred Deregister races the explicit ones — (mode 1).
// Any number of overlapping deregistrations of one listener is equivalent to a single one, so the round is reported
// as the linearisation `vn dereg <victim>` (+ `vn wait <victim> cancelled` before or after it, depending on what the
// racing Wait returned) and continues with ordinary `vn` requests executed through the normal path, judged by the Lean
// notifier machine (C15_notifier) and by the Go `notifier-wait` oracle: all other listeners but one deregister, the
// survivor's Wait with a short deadline must NOT succeed (nothing was notified; a deregistration counted twice brings
// the shared count to 0 one deregistration early and closes the channel the survivor waits on), then a fresh
// listener, Notify, and its Wait must succeed.  With K = 1 (mode 1 only) the racing Wait itself is the observation:
// it must return the context error or ErrListenerDeregistered, never success.
func (w *world) execVX(f []string) string {
	p, ok := atoiAll(f)
	if !ok || len(p) != 5 || p[0] < 1 || p[0] > 8 || p[1] < 2 || p[1] > 8 || p[2] < 0 || p[2] > 1 || p[3] < 0 || p[4] < 0 {
		return "bad-op"
	}
	k, g, mode, val, seed := p[0], p[1], p[2], p[3], p[4]
	v := w.vnw()
	w.emit(fmt.Sprintf("vx %d %d %d %d %d", k, g, mode, val, seed), "begun")
	run := func(op string) {
		if line, ans := w.exec(op); line != "" {
			w.emit(line, ans)
		}
	}
	first := len(v.ls)
	for i := 0; i < k; i++ {
		run(fmt.Sprintf("vn listener %d", val))
	}
	rng := hx.NewRng(uint64(seed)*2654435761 + uint64(k*8+g))
	order := make([]int, k)
	for i := range order {
		order[i] = first + i
	}
	for i := len(order) - 1; i > 0; i-- {
		j := rng.Intn(i + 1)
		order[i], order[j] = order[j], order[i]
	}
	victim := order[0]
	hammers := rng.Intn(3)
	w.count(fmt.Sprintf("vx:hammers:%d", hammers))
	l := v.ls[victim]
	ctx, cancel := context.WithCancel(context.Background())
	cancel()
	var wg sync.WaitGroup
	var pn panics
	var start atomic.Bool
	var ready atomic.Int32
	waitRes := ""
	for i := 0; i < g; i++ {
		i := i
		pn.goSafe(&wg, func() {
			ready.Add(1)
			spinUntil(&start)
			if mode == 1 && i == 0 {
				waitRes = waitResult(l.Wait(ctx))
			} else {
				l.Deregister()
			}
		})
	}
	// contention on the notifier's mutex (balanced create + Deregister of an unrelated value) widens every window
	// that spans removeListener: a racer that finds the mutex taken parks there
	var stop atomic.Bool
	var hwg sync.WaitGroup
	for i := 0; i < hammers; i++ {
		pn.goSafe(&hwg, func() {
			for !stop.Load() {
				v.n.Listener(1000 + val).Deregister()
			}
		})
	}
	for spins := 0; int(ready.Load()) < g && spins < 1<<22; spins++ {
		runtime.Gosched()
	}
	start.Store(true)
	okc := waitTimeout(&wg)
	stop.Store(true)
	if !waitTimeout(&hwg) || !okc {
		w.fail("hang", "concurrent Deregister callers of one listener did not finish", map[string]string{"oracle": "hang", "api": "valuenotifier.Listener.Deregister", "mode": "stress"})

		return ""
	}
	pn.report(w, "vx")
	if mode == 1 && waitRes == "" {
		waitRes = "panic" // the racing Wait did not return a result (its panic was reported above)
	}
	// the linearisation of the concurrent part
	waitLine := func() {
		v.waits++
		t := v.tr[victim]
		if waitRes == "ok" {
			w.fail("notifier-wait", fmt.Sprintf("Wait(cancelled context) of listener %d (value %d) racing %d Deregister calls of the same listener returned success although Notify was never called for it", victim, t.value, g-1),
				map[string]string{"oracle": "wait-ok-without-notify", "api": "valuenotifier.Listener.Wait", "mode": "wait-vs-deregister"})
		}
		v.markDereg(victim)
		w.emit(fmt.Sprintf("vn wait %d cancelled", victim), waitRes)
		w.count("vx:wait:" + waitRes)
	}
	if mode == 1 && waitRes != "dereg" {
		waitLine()
	}
	run(fmt.Sprintf("vn dereg %d", victim))
	if mode == 1 && waitRes == "dereg" {
		waitLine()
	}
	if k >= 2 {
		for _, h := range order[2:] {
			run(fmt.Sprintf("vn dereg %d", h))
		}
		// the only listener that is still registered: nothing was notified, so its Wait must not succeed
		run(fmt.Sprintf("vn wait %d short", order[1]))
	}
	// positive control: a listener that is registered when Notify is called does succeed
	run(fmt.Sprintf("vn listener %d", val))
	run(fmt.Sprintf("vn notify %d", val))
	run(fmt.Sprintf("vn wait %d timeout", len(v.ls)-1))
	w.res.nontrivial = true
	// a replayed case lists the emitted `vn` lines after the `vx` line: they were just re-created, skip them
	for w.pos < len(w.ops) && strings.HasPrefix(w.ops[w.pos], "vn ") {
		w.pos++
	}

	return ""
}

func genVX(rng *hx.Rng) []string {
	var ops []string
	if kt := hx.Pick(rng, vnKeyTypes); kt != "int" {
		ops = append(ops, "vn keytype "+kt)
	}
	for r := 0; r < 80; r++ {
		k, mode := 2+rng.Intn(3), rng.Intn(2)
		if mode == 1 && rng.Chance(1, 5) {
			k = 1
		}
		ops = append(ops, "vx "+strings.Join([]string{strconv.Itoa(k), strconv.Itoa(2 + rng.Intn(3)), strconv.Itoa(mode), strconv.Itoa(r % 3), strconv.Itoa(rng.Intn(1000000))}, " "))
	}

	return ops
}
