package main

import (
	"fmt"
	"sort"
	"strconv"
	"strings"
	"sync/atomic"
	"time"

	"verifharness/hx"

	"github.com/iotaledger/hive.go/runtime/promise"
)

// The `pr` section: sequential histories over the real promise.Event1[int]; the `p0` section: the same over the
// parameterless promise.Event (arguments are reported as 0, only `p0 trigger 0`).
//
//	pr on [nest]   register a callback (a nesting callback registers a child callback from inside its own invocation)
//	pr unsub c     call the unsubscribe function returned for callback c
//	pr trigger v   Trigger(v)
//	pr was         WasTriggered()

type prCall struct {
	cb    int
	child bool
	arg   int
}

// prEvent abstracts over promise.Event1[int] (section `pr`) and the parameterless promise.Event (section `p0`,
// where every argument is reported as 0).
type prEvent interface {
	OnTrigger(cb func(int)) func()
	Trigger(v int) bool
	WasTriggered() bool
}

type prEvent1 struct{ e *promise.Event1[int] }

func (p prEvent1) OnTrigger(cb func(int)) func() { return p.e.OnTrigger(cb) }
func (p prEvent1) Trigger(v int) bool            { return p.e.Trigger(v) }
func (p prEvent1) WasTriggered() bool            { return p.e.WasTriggered() }

type prEvent0 struct{ e *promise.Event }

func (p prEvent0) OnTrigger(cb func(int)) func() { return p.e.OnTrigger(func() { cb(0) }) }
func (p prEvent0) Trigger(int) bool              { return p.e.Trigger() }
func (p prEvent0) WasTriggered() bool            { return p.e.WasTriggered() }

// prHangSeen: some promise call of this run did not return.  The first ones wait the full guardWait (a loaded machine
// must not produce a false alarm); once one is seen the remaining cases only wait briefly, so that a deadlocking
// implementation is reported as `hang` findings with replays instead of stalling (or killing) the whole harness.
var prHangSeen atomic.Bool

// call runs one promise call (which runs callbacks) on a goroutine of its own and reports whether it returned.
func (p *prWorld) call(w *world, what string, f func()) bool {
	if p.dead {
		return false
	}
	done := make(chan struct{})
	var pv any
	go func() {
		defer close(done)
		defer func() { pv = recover() }()
		f()
	}()
	wait := guardWait
	if prHangSeen.Load() {
		wait = 500 * time.Millisecond
	}
	select {
	case <-done:
		if pv != nil {
			panic(pv)
		}

		return true
	case <-time.After(wait):
		prHangSeen.Store(true)
		p.dead = true
		w.fail("hang", fmt.Sprintf("%s.%s did not return (a callback that registers another callback from inside its invocation must not deadlock)", p.api(), what),
			map[string]string{"oracle": "hang", "api": p.api() + "." + what, "mode": "sequential"})

		return false
	}
}

type prWorld struct {
	dead   bool // a call did not return: the event's mutex may be held for ever, the case ends here
	e      prEvent
	zero   bool // parameterless event: only `trigger 0` is accepted
	unsubs []func()
	log    []prCall
	// oracle
	total     map[string]int // invocations per callback ("3", "n3")
	removed   map[int]bool   // unsubscribed before Trigger
	nest      []bool
	triggered bool
	value     int
}

func (w *world) prw(zero bool) *prWorld {
	pp := &w.pr
	if zero {
		pp = &w.p0
	}
	if *pp == nil {
		var e prEvent = prEvent1{promise.NewEvent1[int]()}
		if zero {
			e = prEvent0{promise.NewEvent()}
		}
		*pp = &prWorld{e: e, zero: zero, total: map[string]int{}, removed: map[int]bool{}}
	}

	return *pp
}

func (p *prWorld) api() string {
	if p.zero {
		return "promise.Event"
	}

	return "promise.Event1"
}

func prName(c prCall) string {
	if c.child {
		return "n" + strconv.Itoa(c.cb)
	}

	return strconv.Itoa(c.cb)
}

func (p *prWorld) takeLog() string {
	l := p.log
	p.log = nil
	sort.SliceStable(l, func(i, j int) bool {
		if l[i].cb != l[j].cb {
			return l[i].cb < l[j].cb
		}

		return !l[i].child && l[j].child
	})
	parts := make([]string, len(l))
	for i, c := range l {
		parts[i] = fmt.Sprintf("%s:%d", prName(c), c.arg)
		p.total[prName(c)]++
	}

	return "[" + strings.Join(parts, " ") + "]"
}

func (w *world) execPR(f []string, zero bool) string {
	p := w.prw(zero)
	if len(f) == 0 {
		return "bad-op"
	}
	switch {
	case f[0] == "on" && (len(f) == 1 || (len(f) == 2 && f[1] == "nest")):
		c := len(p.unsubs)
		nest := len(f) == 2
		p.nest = append(p.nest, nest)
		cb := func(a int) {
			p.log = append(p.log, prCall{c, false, a})
			if nest {
				p.e.OnTrigger(func(b int) { p.log = append(p.log, prCall{c, true, b}) })
			}
		}
		var unsub func()
		if !p.call(w, "OnTrigger", func() { unsub = p.e.OnTrigger(cb) }) {
			return "hang"
		}
		p.unsubs = append(p.unsubs, unsub)

		return fmt.Sprintf("c%d %s", c, p.takeLog())
	case f[0] == "unsub" && len(f) == 2:
		c, err := strconv.Atoi(f[1])
		if err != nil {
			return "bad-op"
		}
		if c >= 0 && c < len(p.unsubs) {
			if !p.call(w, "unsubscribe", p.unsubs[c]) {
				return "hang"
			}
			if !p.triggered {
				p.removed[c] = true
			}
		}

		return "done"
	case f[0] == "trigger" && len(f) == 2:
		v, err := strconv.Atoi(f[1])
		if err != nil || v < 0 || (p.zero && v != 0) {
			return "bad-op"
		}
		var first bool
		if !p.call(w, "Trigger", func() { first = p.e.Trigger(v) }) {
			return "hang"
		}
		if first != !p.triggered {
			w.fail("promise-once", fmt.Sprintf("Trigger returned %v although triggered-before=%v", first, p.triggered),
				map[string]string{"oracle": "trigger-result", "api": p.api() + ".Trigger", "mode": "sequential"})
		}
		if !p.triggered {
			p.triggered, p.value = true, v
		}

		return fmt.Sprintf("%v %s", first, p.takeLog())
	case f[0] == "was" && len(f) == 1:
		var was bool
		if !p.call(w, "WasTriggered", func() { was = p.e.WasTriggered() }) {
			return "hang"
		}

		return fmt.Sprintf("%v", was)
	}

	return "bad-op"
}

// finishPR evaluates the property on the whole history: every callback that was not unsubscribed before Trigger ran
// exactly once (with the trigger value), the others never.
func (p *prWorld) finish(w *world) {
	if p.dead {
		return
	}
	if !p.triggered {
		for name, n := range p.total {
			if n != 0 {
				w.fail("promise-once", fmt.Sprintf("callback %s ran %d times although the event was never triggered", name, n),
					map[string]string{"oracle": "called-before-trigger", "api": p.api(), "mode": "sequential"})
			}
		}

		return
	}
	for c := range p.unsubs {
		want := 1
		if p.removed[c] {
			want = 0
		}
		if got := p.total[strconv.Itoa(c)]; got != want {
			w.fail("promise-once", fmt.Sprintf("callback %d ran %d times, expected %d", c, got, want),
				map[string]string{"oracle": "callback-count", "api": p.api(), "mode": "sequential", "got": strconv.Itoa(got), "want": strconv.Itoa(want)})
		}
		if p.nest[c] {
			if got := p.total["n"+strconv.Itoa(c)]; got != want {
				w.fail("promise-once", fmt.Sprintf("callback registered during the invocation of %d ran %d times, expected %d", c, got, want),
					map[string]string{"oracle": "callback-count", "api": p.api(), "mode": "during-trigger", "got": strconv.Itoa(got), "want": strconv.Itoa(want)})
			}
		}
	}
	w.res.nontrivial = len(p.unsubs) >= 2
}

var prCorpus = [][]string{
	{"p0 on", "p0 on nest", "p0 was", "p0 trigger 0", "p0 was", "p0 on", "p0 on nest", "p0 trigger 0", "p0 unsub 0", "p0 trigger 5"},
	{"pr on", "pr on nest", "pr was", "pr trigger 5", "pr was", "pr on", "pr on nest", "pr trigger 6", "pr unsub 0", "pr unsub 2"},
	{"pr on", "pr on", "pr unsub 0", "pr unsub 0", "pr unsub 7", "pr trigger 0", "pr on"},
	{"pr trigger 3", "pr trigger 4", "pr on", "pr was"},
}

// genPRLong: many registrations, most of them unsubscribed again, then Trigger.  The callback collection is a
// shrinkingmap (default policy: shrink = rebuild the map once >= 100 keys were deleted and deleted/size >= 10), so the
// few callbacks that are left have survived at least one rebuild and must still run exactly once.
func genPRLong(rng *hx.Rng, twin string) []string {
	var ops []string
	n := 115 + rng.Intn(50)
	for i := 0; i < n; i++ {
		if rng.Chance(1, 8) {
			ops = append(ops, twin+" on nest")
		} else {
			ops = append(ops, twin+" on")
		}
	}
	perm := make([]int, n)
	for i := range perm {
		perm[i] = i
	}
	for i := n - 1; i > 0; i-- {
		j := rng.Intn(i + 1)
		perm[i], perm[j] = perm[j], perm[i]
	}
	keep := 1 + rng.Intn(9)
	for _, h := range perm[:n-keep] {
		ops = append(ops, fmt.Sprintf("%s unsub %d", twin, h))
		if rng.Chance(1, 30) {
			ops = append(ops, twin+" on") // registrations between the deletions (after a rebuild, too)
		}
	}
	arg := "0"
	if twin == "pr" {
		arg = fmt.Sprint(1 + rng.Intn(8))
	}
	ops = append(ops, twin+" was", twin+" trigger "+arg, twin+" was", twin+" on", twin+" unsub "+fmt.Sprint(perm[n-1]), twin+" trigger "+arg)

	return ops
}

// genP0 generates a history for the parameterless promise.Event.
func genP0(rng *hx.Rng, n int) []string {
	ops := genPR(rng, n)
	for i, op := range ops {
		f := strings.Fields(op)
		f[0] = "p0"
		if f[1] == "trigger" {
			f[2] = "0"
		}
		ops[i] = strings.Join(f, " ")
	}

	return ops
}

func genPR(rng *hx.Rng, n int) []string {
	var ops []string
	cbs := 0
	for i := 0; i < n; i++ {
		switch x := rng.Intn(100); {
		case x < 45:
			if rng.Chance(1, 3) {
				ops = append(ops, "pr on nest")
			} else {
				ops = append(ops, "pr on")
			}
			cbs++
		case x < 65:
			ops = append(ops, fmt.Sprintf("pr unsub %d", rng.Intn(cbs+2)))
		case x < 85:
			ops = append(ops, fmt.Sprintf("pr trigger %d", rng.Intn(9)))
		default:
			ops = append(ops, "pr was")
		}
	}

	return ops
}
