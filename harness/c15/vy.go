package main

import (
	"context"
	"fmt"
	"runtime"
	"sort"
	"strings"
	"sync"
	"sync/atomic"
	"time"

	"verifharness/hx"

)

// The `vy` section: Notify concurrent with listener creation, deregistration and Wait.
//
//	vy <values> <K> <N> => <waits> <ok> n:<n0>,<n1>,<v> ... w:<c0>,<e1>,<v> ...
//
// Per value: one goroutine loops create + Deregister (the last-deregistration path), one loops create + Wait with an
// already cancelled context, one loops create + Wait with a very short deadline (so that an entry exists most of the
// time), and one calls Notify(value) N times at random moments.  A logical clock (one atomic counter) stamps the
// beginning of every listener creation (c0), the return of its Wait (e1) and the call / return of every Notify
// (n0, n1).  A Wait may return success only if Notify for its value was called after the listener was created and
// before it was deregistered — the Wait deregisters when it returns —, so some Notify interval must overlap the
// listener's: n0 < e1 and c0 < n1.  The line lists every Notify interval and the successful Waits (offending ones first,
// at most 60); the Lean driver evaluates the same predicate (`EventsSpec.vyOk`).
func (w *world) execVY(f []string) (string, string) {
	in := cutArrow(f)
	p, ok := atoiAll(in)
	if !ok || len(p) != 3 || p[0] < 1 || p[0] > 4 || p[1] < 1 || p[1] > 1000000 || p[2] < 0 || p[2] > 30 {
		return "vy " + strings.Join(f, " "), "bad-op"
	}
	values, k, nn := p[0], p[1], p[2]
	kt := vnKeyTypes[(values+k/1000+nn)%len(vnKeyTypes)] // the key type of the notifier varies with the parameters
	n := newVNNotifier(kt)
	w.count("vy:keytype:" + kt)
	cctx, cancel := context.WithCancel(context.Background())
	cancel()
	type iv struct{ a, b, v int }
	var clk atomic.Int64
	var mu sync.Mutex
	var notifies, oks []iv
	var waits, other atomic.Int64
	vw := make([]atomic.Int64, values) // Waits of the cancelled-context waiter per value
	var wg sync.WaitGroup
	var pn panics
	defer pn.report(w, "vy")
	var start atomic.Bool
	var done atomic.Int32
	waiter := func(v int, short bool) func() {
		return func() {
			defer done.Add(1)
			spinUntil(&start)
			iters := k
			if short {
				iters = k/8 + 1 // a deadline context costs a timer
			}
			for i := 0; i < iters; i++ {
				c0 := int(clk.Add(1))
				l := n.Listener(v)
				var err error
				if short {
					ctx, cf := context.WithTimeout(context.Background(), 20*time.Microsecond)
					err = l.Wait(ctx)
					cf()
				} else {
					err = l.Wait(cctx)
				}
				e1 := int(clk.Add(1))
				waits.Add(1)
				if !short {
					vw[v].Add(1)
				}
				switch waitResult(err) {
				case "ok":
					mu.Lock()
					oks = append(oks, iv{c0, e1, v})
					mu.Unlock()
				case "canceled", "deadline":
				default:
					other.Add(1) // nobody else holds the listener: ErrListenerDeregistered is impossible
				}
			}
		}
	}
	for v := 0; v < values; v++ {
		v := v
		pn.goSafe(&wg, func() {
			defer done.Add(1)
			spinUntil(&start)
			for i := 0; i < k; i++ {
				n.Listener(v).Deregister()
			}
		})
		pn.goSafe(&wg, waiter(v, false))
		pn.goSafe(&wg, waiter(v, true))
		rng := hx.NewRng(uint64(v*7919 + k + nn))
		pn.goSafe(&wg, func() {
			spinUntil(&start)
			for i := 0; i < nn && int(done.Load()) < 3*values; i++ {
				// spread the Notify calls over the run (the cancelled-context waiter of this value does k Waits)
				target := int64(i+1) * int64(k) / int64(nn+1)
				for vw[v].Load() < target && int(done.Load()) < 3*values {
					runtime.Gosched()
				}
				for y, m := 0, rng.Intn(50); y < m; y++ {
					runtime.Gosched()
				}
				n0 := int(clk.Add(1))
				n.Notify(v)
				n1 := int(clk.Add(1))
				mu.Lock()
				notifies = append(notifies, iv{n0, n1, v})
				mu.Unlock()
			}
		})
	}
	start.Store(true)
	if !waitTimeout(&wg) {
		w.fail("hang", "Notify / listener creation / Wait stress did not finish", map[string]string{"oracle": "hang", "api": "valuenotifier.Notify", "mode": "stress"})
	}
	covered := func(x iv) bool {
		for _, y := range notifies {
			if y.v == x.v && y.a < x.b && x.a < y.b {
				return true
			}
		}

		return false
	}
	bad := 0
	sort.SliceStable(oks, func(i, j int) bool { return !covered(oks[i]) && covered(oks[j]) })
	for _, x := range oks {
		if !covered(x) {
			bad++
		}
	}
	if bad > 0 || other.Load() > 0 {
		w.fail("notifier-wait", fmt.Sprintf("%d values, Notify called %d times concurrently with %d create+Wait and create+Deregister loops: %d Waits returned success although no Notify call for their value overlaps the listener's lifetime (first: value %d, created at tick %d, Wait returned at tick %d), %d Waits returned ErrListenerDeregistered", values, len(notifies), waits.Load(), bad, first(oks).v, first(oks).a, first(oks).b, other.Load()),
			map[string]string{"oracle": "wait-ok-without-notify", "api": "valuenotifier.Listener.Wait", "mode": "notify-vs-create-and-deregister"})
	}
	w.count(fmt.Sprintf("vy:legit-ok:%d", min(len(oks)-bad, 3)))
	var toks []string
	for _, y := range notifies {
		toks = append(toks, fmt.Sprintf("n:%d,%d,%d", y.a, y.b, y.v))
	}
	for i, x := range oks {
		if i >= 60 {
			break
		}
		toks = append(toks, fmt.Sprintf("w:%d,%d,%d", x.a, x.b, x.v))
	}
	w.res.nontrivial = true

	return strings.TrimSpace(fmt.Sprintf("vy %d %d %d => %d %d %d %s", values, k, nn, waits.Load(), len(oks), other.Load(), strings.Join(toks, " "))), "accept"
}

func first[T any](xs []T) (z T) {
	if len(xs) > 0 {
		return xs[0]
	}

	return z
}
