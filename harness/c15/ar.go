package main

import (
	"fmt"
	"sort"
	"strconv"
	"strings"
	"sync"

	"verifharness/hx"

	"github.com/iotaledger/hive.go/runtime/event"
	"github.com/iotaledger/hive.go/runtime/workerpool"
)

// The `ar` section: the arity twins Event, Event1 … Event9 of events.go.  One case works with events of one
// arity N (`ar arity N` first).  An argument tuple of pairwise distinct digits is written as the decimal number
// made of these digits (for N = 0: 0); a hook reports the digits it received, in the order it received them.
// Apart from that the requests and answers are those of the `ev` section (the Lean driver runs the same event
// machine on them):
//
//	ar arity <N>           -> ok
//	ar new <max> [pre] [pool]    -> e<i>   (pre: WithPreTriggerFunc, pool: WithWorkerPool(P) on the event)
//	ar hook <e> <max> [sync|pool|inplace] [pre]  -> h<i>   (sync: no pool option, the event's pool applies; pool:
//	                          WithWorkerPool(Q), Q != P; inplace: WithWorkerPool(nil); pre: WithPreTriggerFunc on the hook;
//	                          log entries E<e>:digits / P<h>:digits as in the `ev` section)
//	ar unhook <h>
//	ar trigger <e> <digits>   -> sync [h:digits ...] pool [h:digits ...]
//	ar link <src> <tgt> | ar unlink <src> | ar tcount <e>
//
// P and Q are single-worker pools.  During a Trigger P's worker is held by a gate task, so that what has run when
// Trigger returns (on the caller's goroutine: synchronous), what has run when Q has drained (the hooks with their own
// pool) and what runs only after the gate is released (everything routed to the event's pool, including the nested
// Trigger of an event linked to a pooled target) are three separately observed buckets; the Go oracle `pool-routing`
// judges them, the Lean event machine judges synchronous vs pooled.

type arEvent interface {
	Hook(cb func([]int), opts ...event.Option) func()
	Trigger(a []int)
	TriggerCount() int
	LinkTo(o arEvent)
}

// arHook / arEv: the property's reading of limits and links for the `ar` oracle (as in the `ev` section).
type arHook struct {
	ev, handle, link int // link -1: user hook, else the source event
	max              uint64
	count            int
	alive            bool
	pool             int // 0 no option (the event's pool applies), 1 own pool Q, 2 forced in place
	pre              bool
}

type arEv struct {
	max         uint64
	count       int
	link        *arHook
	pooled, pre bool
}

// arCall is one recorded call: an invocation of hook h (kind ""), or a call of the pre-trigger function of event h
// (kind "E") / of hook h (kind "P"); what it received; on the Trigger caller's goroutine or not.
type arCall struct {
	kind  string
	h     int
	s     string
	async bool
}

type arID struct {
	kind string
	h    int
}

func (x arID) String() string { return fmt.Sprintf("%s%d", x.kind, x.h) }

func arRank(kind string) int { return map[string]int{"": 0, "E": 1, "P": 2}[kind] }

func sortIDs(l []arID) {
	sort.SliceStable(l, func(i, j int) bool {
		if arRank(l[i].kind) != arRank(l[j].kind) {
			return arRank(l[i].kind) < arRank(l[j].kind)
		}

		return l[i].h < l[j].h
	})
}

// buckets of the expected / observed invocations of one Trigger
const (
	arSync = iota // ran on the caller's goroutine before Trigger returned
	arOwn         // ran on the hook's own pool Q (drained while the event pool P was still gated)
	arLate        // ran only after P's gate was released
)

type arWant struct {
	id     arID
	bucket int
}

type arWorld struct {
	oev     []*arEv
	ohooks  []*arHook
	ouser   []*arHook
	n       int
	events  []arEvent
	unhooks []func()
	mu      sync.Mutex
	caller  int64
	log     []arCall
	bad     []string
	poolP   *workerpool.WorkerPool
	poolQ   *workerpool.WorkerPool
}

// record is what every hook and every pre-trigger function does: log what it received.
func (a *arWorld) record(kind string, h int, got []int) {
	async := goid() != a.caller
	a.mu.Lock()
	defer a.mu.Unlock()
	if len(got) != a.n {
		a.bad = append(a.bad, fmt.Sprintf("%s%d received %d arguments", kind, h, len(got)))
	}
	a.log = append(a.log, arCall{kind, h, encode(got), async})
}

func (a *arWorld) finish() {
	for _, p := range []*workerpool.WorkerPool{a.poolP, a.poolQ} {
		if p != nil {
			p.Shutdown() // not waiting for ShutdownComplete (C16's subject)
		}
	}
}

func encode(a []int) string {
	if len(a) == 0 {
		return "0"
	}
	var b strings.Builder
	for _, x := range a {
		b.WriteString(strconv.Itoa(x))
	}

	return b.String()
}

// expect: the invocations one Trigger(e) must produce, in order (handles of user hooks), each with the bucket
// it must be observed in; late: this Trigger itself runs on the event pool of a pooled link target.
func (a *arWorld) expect(e int, late bool, out *[]arWant) {
	oe := a.oev[e]
	oe.count++
	if oe.max != 0 && uint64(oe.count) > oe.max {
		return
	}
	for i, n := 0, len(a.ohooks); i < n; i++ {
		h := a.ohooks[i]
		if h.ev != e || !h.alive {
			continue
		}
		h.count++
		if h.max != 0 && uint64(h.count) > h.max {
			h.alive = false

			continue
		}
		ctx := arSync // the pre-trigger functions run on the goroutine that runs this Trigger
		if late {
			ctx = arLate
		}
		if oe.pre {
			*out = append(*out, arWant{arID{"E", e}, ctx})
		}
		if h.pre {
			*out = append(*out, arWant{arID{"P", h.handle}, ctx})
		}
		bucket := arSync
		switch {
		case late:
			bucket = arLate
		case h.pool == 1:
			bucket = arOwn
		case h.pool == 0 && oe.pooled:
			bucket = arLate
		}
		if h.link >= 0 {
			a.expect(h.link, bucket != arSync, out)
		} else {
			*out = append(*out, arWant{arID{"", h.handle}, bucket})
		}
	}
}

func (w *world) execAR(f []string) string {
	if len(f) == 0 {
		return "bad-op"
	}
	if f[0] == "arity" {
		n, err := strconv.Atoi(strings.Join(f[1:], ""))
		if err != nil || n < 0 || n > 9 {
			return "bad-op"
		}
		if w.ar == nil { // a second `arity` line is ignored
			w.ar = &arWorld{n: n}
		}

		return "ok"
	}
	a := w.ar
	if a == nil {
		return "bad-op"
	}
	num := func(i int) (int, bool) {
		if i >= len(f) {
			return 0, false
		}
		x, err := strconv.Atoi(f[i])

		return x, err == nil && x >= 0
	}
	switch f[0] {
	case "new":
		rest := strings.Join(f[2:], " ")
		if len(f) < 2 || !(rest == "" || rest == "pre" || rest == "pool" || rest == "pre pool") {
			return "bad-op"
		}
		pooled, pre := strings.HasSuffix(rest, "pool"), strings.HasPrefix(rest, "pre")
		m, err := strconv.ParseUint(f[1], 10, 64)
		if err != nil {
			return "bad-op"
		}
		var opts []event.Option
		if m > 0 {
			opts = append(opts, event.WithMaxTriggerCount(m))
		}
		if pooled {
			if a.poolP == nil {
				a.poolP = workerpool.New("c15arP", workerpool.WithWorkerCount(1)).Start()
			}
			opts = append(opts, event.WithWorkerPool(a.poolP))
		}
		if pre {
			e := len(a.events)
			opts = append(opts, event.WithPreTriggerFunc(arPre[a.n](func(got []int) { a.record("E", e, got) })))
		}
		a.events = append(a.events, arNew[a.n](opts...))
		a.oev = append(a.oev, &arEv{max: m, pooled: pooled, pre: pre})

		return fmt.Sprintf("e%d", len(a.events)-1)
	case "hook":
		e, ok := num(1)
		pre := len(f) >= 4 && f[len(f)-1] == "pre"
		if pre {
			f = f[:len(f)-1]
		}
		if !ok || (len(f) != 3 && len(f) != 4) || e >= len(a.events) {
			return "bad-op"
		}
		m, err := strconv.ParseUint(f[2], 10, 64)
		if err != nil {
			return "bad-op"
		}
		var opts []event.Option
		if m > 0 {
			opts = append(opts, event.WithMaxTriggerCount(m))
		}
		h := len(a.unhooks)
		if pre {
			opts = append(opts, event.WithPreTriggerFunc(arPre[a.n](func(got []int) { a.record("P", h, got) })))
		}
		pool := 0
		if len(f) == 4 {
			switch f[3] {
			case "sync":
			case "pool":
				pool = 1
				if a.poolQ == nil {
					a.poolQ = workerpool.New("c15arQ", workerpool.WithWorkerCount(1)).Start()
				}
				opts = append(opts, event.WithWorkerPool(a.poolQ))
			case "inplace":
				pool = 2
				opts = append(opts, event.WithWorkerPool(nil))
			default:
				return "bad-op"
			}
		}
		a.unhooks = append(a.unhooks, a.events[e].Hook(func(got []int) { a.record("", h, got) }, opts...))
		oh := &arHook{ev: e, handle: h, link: -1, max: m, alive: true, pool: pool, pre: pre}
		a.ohooks = append(a.ohooks, oh)
		a.ouser = append(a.ouser, oh)

		return fmt.Sprintf("h%d", h)
	case "unhook":
		h, ok := num(1)
		if !ok || len(f) != 2 || h >= len(a.unhooks) {
			return "bad-op"
		}
		a.unhooks[h]()
		a.ouser[h].alive = false

		return "done"
	case "trigger":
		e, ok := num(1)
		if !ok || len(f) != 3 || e >= len(a.events) {
			return "bad-op"
		}
		var args []int
		if a.n == 0 {
			if f[2] != "0" {
				return "bad-op"
			}
		} else {
			if len(f[2]) != a.n {
				return "bad-op"
			}
			seen := map[byte]bool{}
			for i := 0; i < len(f[2]); i++ {
				c := f[2][i]
				if c < '1' || c > '9' || seen[c] {
					return "bad-op"
				}
				seen[c] = true
				args = append(args, int(c-'0'))
			}
		}
		api := fmt.Sprintf("event.Event%d.Trigger", a.n)
		a.mu.Lock()
		a.log = nil
		a.caller = goid()
		a.mu.Unlock()
		// hold the event pool's only worker while Trigger runs
		var gate chan struct{}
		if a.poolP != nil {
			gate = make(chan struct{})
			started := make(chan struct{})
			a.poolP.Submit(func() { close(started); <-gate })
			if !guarded(func() { <-started }) {
				w.fail("hang", "the gate task of the event pool did not start", map[string]string{"oracle": "hang", "api": "workerpool.Submit", "mode": "arity-twins"})
			}
		}
		drain := func(p *workerpool.WorkerPool) {
			if p != nil && !guarded(func() { p.PendingTasksCounter.WaitIsZero() }) {
				w.fail("hang", "worker pool did not drain", map[string]string{"oracle": "hang", "api": "workerpool.PendingTasksCounter", "mode": "arity-twins"})
			}
		}
		a.events[e].Trigger(args)
		a.mu.Lock()
		nRet := len(a.log)
		a.mu.Unlock()
		drain(a.poolQ)
		a.mu.Lock()
		nOwn := len(a.log)
		a.mu.Unlock()
		if gate != nil {
			close(gate)
		}
		for i := 0; i < 3; i++ { // a nested Trigger running on P may submit to Q and (through further links) to P again
			drain(a.poolP)
			drain(a.poolQ)
		}
		a.mu.Lock()
		log := append([]arCall(nil), a.log...)
		bad := a.bad
		a.bad = nil
		a.mu.Unlock()
		// the property for the arguments, independent of Lean: every invocation received exactly the call's arguments, in order
		for _, c := range log {
			if c.s != f[2] {
				w.fail("trigger-exactly-once", fmt.Sprintf("Event%d.Trigger(%s): %s%d received %s", a.n, f[2], c.kind, c.h, c.s),
					map[string]string{"oracle": "arguments", "api": api, "mode": "arity-twins"})

				break
			}
		}
		for _, b := range bad {
			w.fail("trigger-exactly-once", b, map[string]string{"oracle": "arguments", "api": "event.Trigger", "mode": "arity-twins"})
		}
		// observed buckets: synchronous calls in order; the others as sorted sets
		var got [3][]arID
		for i, c := range log {
			switch {
			case !c.async && i < nRet:
				got[arSync] = append(got[arSync], arID{c.kind, c.h})
			case !c.async:
				got[arLate] = append(got[arLate], arID{"late-on-caller-" + c.kind, c.h}) // on the caller's goroutine after Trigger returned: impossible
			case i < nOwn:
				got[arOwn] = append(got[arOwn], arID{c.kind, c.h})
			default:
				got[arLate] = append(got[arLate], arID{c.kind, c.h})
			}
		}
		var wantAll []arWant
		a.expect(e, false, &wantAll)
		var want [3][]arID
		for _, x := range wantAll {
			want[x.bucket] = append(want[x.bucket], x.id)
		}
		for b := arOwn; b <= arLate; b++ {
			sortIDs(got[b])
			sortIDs(want[b])
		}
		if fmt.Sprint(got[arSync]) != fmt.Sprint(want[arSync]) {
			w.fail("trigger-exactly-once", fmt.Sprintf("Event%d.Trigger(e%d,%s): calls on the caller's goroutine, in this order, when Trigger returned: %v; the attached synchronous hooks within their limits (with the pre-trigger calls E<event> / P<hook> before each hook) give %v", a.n, e, f[2], got[arSync], want[arSync]),
				map[string]string{"oracle": "sync-calls", "api": api, "mode": "arity-twins"})
		}
		if fmt.Sprint(got[arOwn]) != fmt.Sprint(want[arOwn]) || fmt.Sprint(got[arLate]) != fmt.Sprint(want[arLate]) {
			w.fail("trigger-exactly-once", fmt.Sprintf("Event%d.Trigger(e%d,%s): hooks run by the hooks' own pool while the event's pool was held: %v (expected %v); hooks run only after the event's pool was released: %v (expected %v)",
				a.n, e, f[2], got[arOwn], want[arOwn], got[arLate], want[arLate]),
				map[string]string{"oracle": "pool-routing", "api": api, "mode": "arity-twins"})
		}
		if len(got[arOwn])+len(got[arLate]) > 0 {
			w.count(fmt.Sprintf("ar:pooled-trigger:arity%d", a.n))
		}
		w.res.nontrivial = true
		syncS := make([]string, 0, len(got[arSync]))
		for _, x := range got[arSync] {
			syncS = append(syncS, fmt.Sprintf("%s:%s", x, f[2]))
		}
		pooled := append(append([]arID(nil), got[arOwn]...), got[arLate]...)
		sortIDs(pooled)
		poolS := make([]string, 0, len(pooled))
		for _, x := range pooled {
			poolS = append(poolS, fmt.Sprintf("%s:%s", x, f[2]))
		}

		return "sync [" + strings.Join(syncS, " ") + "] pool [" + strings.Join(poolS, " ") + "]"
	case "link":
		s, ok1 := num(1)
		t, ok2 := num(2)
		if !ok1 || !ok2 || len(f) != 3 || s >= len(a.events) || !(t < s) {
			return "bad-op"
		}
		a.events[s].LinkTo(a.events[t])
		if l := a.oev[s].link; l != nil {
			l.alive = false
		}
		oh := &arHook{ev: t, link: s, alive: true}
		a.ohooks = append(a.ohooks, oh)
		a.oev[s].link = oh

		return "done"
	case "unlink":
		s, ok := num(1)
		if !ok || len(f) != 2 || s >= len(a.events) {
			return "bad-op"
		}
		a.events[s].LinkTo(nil)
		if l := a.oev[s].link; l != nil {
			l.alive = false
		}
		a.oev[s].link = nil

		return "done"
	case "tcount":
		e, ok := num(1)
		if !ok || len(f) != 2 || e >= len(a.events) {
			return "bad-op"
		}

		return strconv.Itoa(a.events[e].TriggerCount())
	}

	return "bad-op"
}

func genAR(rng *hx.Rng, n int) []string {
	ops := []string{fmt.Sprintf("ar arity %d", n)}
	ne := 2 + rng.Intn(2)
	for i := 0; i < ne; i++ {
		ops = append(ops, fmt.Sprintf("ar new %s%s", hx.Pick(rng, []string{"0", "0", "2", "5"}), hx.Pick(rng, []string{"", "", " pool", " pre", " pre pool"})))
	}
	args := func() string {
		if n == 0 {
			return "0"
		}
		d := []byte("123456789")
		for i := len(d) - 1; i > 0; i-- {
			j := rng.Intn(i + 1)
			d[i], d[j] = d[j], d[i]
		}

		return string(d[:n])
	}
	hooks := 0
	for i, steps := 0, 10+rng.Intn(12); i < steps; i++ {
		switch x := rng.Intn(100); {
		case x < 30 || hooks == 0:
			ops = append(ops, fmt.Sprintf("ar hook %d %s%s", rng.Intn(ne), hx.Pick(rng, []string{"0", "0", "1", "3"}), hx.Pick(rng, []string{"", "", " sync", " pool", " inplace", " pre", " pool pre", " inplace pre"})))
			hooks++
		case x < 38:
			ops = append(ops, fmt.Sprintf("ar unhook %d", rng.Intn(hooks)))
		case x < 75:
			ops = append(ops, fmt.Sprintf("ar trigger %d %s", rng.Intn(ne), args()))
		case x < 90:
			s, t := rng.Intn(ne), rng.Intn(ne)
			if s < t {
				s, t = t, s
			}
			ops = append(ops, fmt.Sprintf("ar link %d %d", s, t))
		case x < 94:
			ops = append(ops, fmt.Sprintf("ar unlink %d", rng.Intn(ne)))
		default:
			ops = append(ops, fmt.Sprintf("ar tcount %d", rng.Intn(ne)))
		}
	}

	return ops
}
