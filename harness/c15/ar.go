package main

import (
	"fmt"
	"strconv"
	"strings"

	"verifharness/hx"

	"github.com/iotaledger/hive.go/runtime/event"
)

// The `ar` section: the arity twins Event, Event1 … Event9 of events.go.  One case works with events of one
// arity N (`ar arity N` first).  An argument tuple of pairwise distinct digits is written as the decimal number
// made of these digits (for N = 0: 0); a hook reports the digits it received, in the order it received them.
// Apart from that the requests and answers are those of the `ev` section (the Lean driver runs the same event
// machine on them):
//
//	ar arity <N>           -> ok
//	ar new <max>           -> e<i>
//	ar hook <e> <max>      -> h<i>         (synchronous hooks)
//	ar unhook <h>
//	ar trigger <e> <digits>   -> sync [h:digits ...] pool []
//	ar link <src> <tgt> | ar unlink <src> | ar tcount <e>

type arEvent interface {
	Hook(cb func([]int), opts ...event.Option) func()
	Trigger(a []int)
	TriggerCount() int
	LinkTo(o arEvent)
}

// arHook / arEv: the property's reading of limits and links for the `ar` oracle (as in the `ev` section).
type arHook struct {
	ev, handle, link int // link -1: user hook, else the source event
	max              uint64
	count            int
	alive            bool
}

type arEv struct {
	max   uint64
	count int
	link  *arHook
}

type arWorld struct {
	oev     []*arEv
	ohooks  []*arHook
	ouser   []*arHook
	n       int
	events  []arEvent
	unhooks []func()
	log     []string
	bad     []string
}

func encode(a []int) string {
	if len(a) == 0 {
		return "0"
	}
	var b strings.Builder
	for _, x := range a {
		b.WriteString(strconv.Itoa(x))
	}

	return b.String()
}

// expect: the invocations one Trigger(e) must produce, in order (handles of user hooks).
func (a *arWorld) expect(e int, out *[]int) {
	oe := a.oev[e]
	oe.count++
	if oe.max != 0 && uint64(oe.count) > oe.max {
		return
	}
	for i, n := 0, len(a.ohooks); i < n; i++ {
		h := a.ohooks[i]
		if h.ev != e || !h.alive {
			continue
		}
		h.count++
		if h.max != 0 && uint64(h.count) > h.max {
			h.alive = false

			continue
		}
		if h.link >= 0 {
			a.expect(h.link, out)
		} else {
			*out = append(*out, h.handle)
		}
	}
}

func (w *world) execAR(f []string) string {
	if len(f) == 0 {
		return "bad-op"
	}
	if f[0] == "arity" {
		n, err := strconv.Atoi(strings.Join(f[1:], ""))
		if err != nil || n < 0 || n > 9 {
			return "bad-op"
		}
		if w.ar == nil { // a second `arity` line is ignored
			w.ar = &arWorld{n: n}
		}

		return "ok"
	}
	a := w.ar
	if a == nil {
		return "bad-op"
	}
	num := func(i int) (int, bool) {
		if i >= len(f) {
			return 0, false
		}
		x, err := strconv.Atoi(f[i])

		return x, err == nil && x >= 0
	}
	switch f[0] {
	case "new":
		m, err := strconv.ParseUint(strings.Join(f[1:], " "), 10, 64)
		if err != nil {
			return "bad-op"
		}
		var opts []event.Option
		if m > 0 {
			opts = append(opts, event.WithMaxTriggerCount(m))
		}
		a.events = append(a.events, arNew[a.n](opts...))
		a.oev = append(a.oev, &arEv{max: m})

		return fmt.Sprintf("e%d", len(a.events)-1)
	case "hook":
		e, ok := num(1)
		if !ok || len(f) != 3 || e >= len(a.events) {
			return "bad-op"
		}
		m, err := strconv.ParseUint(f[2], 10, 64)
		if err != nil {
			return "bad-op"
		}
		var opts []event.Option
		if m > 0 {
			opts = append(opts, event.WithMaxTriggerCount(m))
		}
		h := len(a.unhooks)
		a.unhooks = append(a.unhooks, a.events[e].Hook(func(got []int) {
			if len(got) != a.n {
				a.bad = append(a.bad, fmt.Sprintf("hook %d received %d arguments", h, len(got)))
			}
			a.log = append(a.log, fmt.Sprintf("%d:%s", h, encode(got)))
		}, opts...))
		oh := &arHook{ev: e, handle: h, link: -1, max: m, alive: true}
		a.ohooks = append(a.ohooks, oh)
		a.ouser = append(a.ouser, oh)

		return fmt.Sprintf("h%d", h)
	case "unhook":
		h, ok := num(1)
		if !ok || len(f) != 2 || h >= len(a.unhooks) {
			return "bad-op"
		}
		a.unhooks[h]()
		a.ouser[h].alive = false

		return "done"
	case "trigger":
		e, ok := num(1)
		if !ok || len(f) != 3 || e >= len(a.events) {
			return "bad-op"
		}
		var args []int
		if a.n == 0 {
			if f[2] != "0" {
				return "bad-op"
			}
		} else {
			if len(f[2]) != a.n {
				return "bad-op"
			}
			seen := map[byte]bool{}
			for i := 0; i < len(f[2]); i++ {
				c := f[2][i]
				if c < '1' || c > '9' || seen[c] {
					return "bad-op"
				}
				seen[c] = true
				args = append(args, int(c-'0'))
			}
		}
		a.log = nil
		a.events[e].Trigger(args)
		// the property for the arguments, independent of Lean: every invocation received exactly the call's arguments, in order
		for _, l := range a.log {
			if !strings.HasSuffix(l, ":"+f[2]) {
				w.fail("trigger-exactly-once", fmt.Sprintf("Event%d.Trigger(%s): a hook received %s", a.n, f[2], l),
					map[string]string{"oracle": "arguments", "api": fmt.Sprintf("event.Event%d.Trigger", a.n), "mode": "arity-twins"})

				break
			}
		}
		for _, b := range a.bad {
			w.fail("trigger-exactly-once", b, map[string]string{"oracle": "arguments", "api": "event.Trigger", "mode": "arity-twins"})
		}
		a.bad = nil
		var want []int
		a.expect(e, &want)
		wantS := make([]string, len(want))
		for i, h := range want {
			wantS[i] = fmt.Sprintf("%d:%s", h, f[2])
		}
		if strings.Join(wantS, " ") != strings.Join(a.log, " ") {
			w.fail("trigger-exactly-once", fmt.Sprintf("Event%d.Trigger(e%d,%s): invocations [%s], the attached hooks within their limits are [%s]", a.n, e, f[2], strings.Join(a.log, " "), strings.Join(wantS, " ")),
				map[string]string{"oracle": "sync-calls", "api": fmt.Sprintf("event.Event%d.Trigger", a.n), "mode": "arity-twins"})
		}
		w.res.nontrivial = true

		return "sync [" + strings.Join(a.log, " ") + "] pool []"
	case "link":
		s, ok1 := num(1)
		t, ok2 := num(2)
		if !ok1 || !ok2 || len(f) != 3 || s >= len(a.events) || !(t < s) {
			return "bad-op"
		}
		a.events[s].LinkTo(a.events[t])
		if l := a.oev[s].link; l != nil {
			l.alive = false
		}
		oh := &arHook{ev: t, link: s, alive: true}
		a.ohooks = append(a.ohooks, oh)
		a.oev[s].link = oh

		return "done"
	case "unlink":
		s, ok := num(1)
		if !ok || len(f) != 2 || s >= len(a.events) {
			return "bad-op"
		}
		a.events[s].LinkTo(nil)
		if l := a.oev[s].link; l != nil {
			l.alive = false
		}
		a.oev[s].link = nil

		return "done"
	case "tcount":
		e, ok := num(1)
		if !ok || len(f) != 2 || e >= len(a.events) {
			return "bad-op"
		}

		return strconv.Itoa(a.events[e].TriggerCount())
	}

	return "bad-op"
}

func genAR(rng *hx.Rng, n int) []string {
	ops := []string{fmt.Sprintf("ar arity %d", n)}
	ne := 2 + rng.Intn(2)
	for i := 0; i < ne; i++ {
		ops = append(ops, fmt.Sprintf("ar new %s", hx.Pick(rng, []string{"0", "0", "2", "5"})))
	}
	args := func() string {
		if n == 0 {
			return "0"
		}
		d := []byte("123456789")
		for i := len(d) - 1; i > 0; i-- {
			j := rng.Intn(i + 1)
			d[i], d[j] = d[j], d[i]
		}

		return string(d[:n])
	}
	hooks := 0
	for i, steps := 0, 10+rng.Intn(12); i < steps; i++ {
		switch x := rng.Intn(100); {
		case x < 30 || hooks == 0:
			ops = append(ops, fmt.Sprintf("ar hook %d %s", rng.Intn(ne), hx.Pick(rng, []string{"0", "0", "1", "3"})))
			hooks++
		case x < 38:
			ops = append(ops, fmt.Sprintf("ar unhook %d", rng.Intn(hooks)))
		case x < 75:
			ops = append(ops, fmt.Sprintf("ar trigger %d %s", rng.Intn(ne), args()))
		case x < 90:
			s, t := rng.Intn(ne), rng.Intn(ne)
			if s < t {
				s, t = t, s
			}
			ops = append(ops, fmt.Sprintf("ar link %d %d", s, t))
		case x < 94:
			ops = append(ops, fmt.Sprintf("ar unlink %d", rng.Intn(ne)))
		default:
			ops = append(ops, fmt.Sprintf("ar tcount %d", rng.Intn(ne)))
		}
	}

	return ops
}
