package main

import (
	"fmt"
	"strconv"
	"strings"

	"verifharness/hx"

	"github.com/iotaledger/hive.go/runtime/event"
)

// The `it` section: Hook / Unhook from inside hook callbacks while Trigger iterates (the schedules of a
// concurrent Hook/Unhook caller, forced deterministically: every mutation takes effect between two reads
// of a next pointer, which is exactly where the callbacks run).
//
//	it hook        -> h<i>
//	it unhook <h>  -> done
//	it link        -> done       S.LinkTo(X): X gets S's link hook (the previous one is unhooked first)
//	it unlink      -> done       S.LinkTo(nil)
//	it begin <a>   -> begun      Trigger(a) starts; the following lines up to the end of the iteration are
//	                             consumed by the callbacks
//	it visit       -> h<i> | s | end | idle   the iteration arrived at hook h<i> (answered on entry of its callback)
//	                             or at S's link hook (`s`, answered on entry of S's own hook); the `it hook` /
//	                             `it unhook` / `it link` / `it unlink` lines that follow run inside that callback

type itWorld struct {
	e      *event.Event1[int]
	src    *event.Event1[int] // S: linked to / unlinked from e by `it link` / `it unlink`
	linked bool
	// oracle for the link: S fired during the running Trigger; the link changed during it
	sFired, relinks int
	linkedAtBegin   bool
	hooks           []*event.Hook[func(int)]
	active          bool
	// oracle
	attached map[int]bool // currently attached
	must     map[int]bool // attached when the running Trigger began and not unhooked since
	seen     map[int]int
	order    []int
	runs     int
	muts     int
}

func (w *world) itw() *itWorld {
	if w.it == nil {
		w.it = &itWorld{e: event.New1[int](), src: event.New1[int](), attached: map[int]bool{}}
		w.it.src.Hook(func(int) { w.itCallbackS() })
	}

	return w.it
}

func itMutation(op string) bool {
	f := strings.Fields(op)

	return len(f) >= 2 && f[0] == "it" && (f[1] == "hook" || f[1] == "unhook" || f[1] == "link" || f[1] == "unlink")
}

// itCallbackS is S's own hook: X's iteration arrived at S's link hook and called S.Trigger.
func (w *world) itCallbackS() {
	t := w.it
	if !t.active {
		return
	}
	if w.pos < len(w.ops) && strings.Join(strings.Fields(w.ops[w.pos]), " ") == "it visit" {
		w.pos++
	}
	w.emit("it visit", "s")
	t.sFired++
	w.run(itMutation)
}

func (w *world) itCallback(h int) {
	t := w.it
	if w.pos < len(w.ops) && strings.Join(strings.Fields(w.ops[w.pos]), " ") == "it visit" {
		w.pos++
	}
	w.emit("it visit", fmt.Sprintf("h%d", h))
	t.seen[h]++
	t.order = append(t.order, h)
	w.run(itMutation)
}

func (w *world) execIT(f []string) string {
	t := w.itw()
	if len(f) == 0 {
		return "bad-op"
	}
	switch {
	case f[0] == "hook" && len(f) == 1:
		h := len(t.hooks)
		t.hooks = append(t.hooks, t.e.Hook(func(int) { w.itCallback(h) }))
		t.attached[h] = true
		if t.active {
			t.muts++
		}

		return fmt.Sprintf("h%d", h)
	case f[0] == "unhook" && len(f) == 2:
		h, err := strconv.Atoi(f[1])
		if err != nil || h < 0 || h >= len(t.hooks) {
			return "bad-op"
		}
		t.hooks[h].Unhook()
		delete(t.attached, h)
		if t.active {
			delete(t.must, h)
			t.muts++
		}

		return "done"
	case (f[0] == "link" || f[0] == "unlink") && len(f) == 1:
		if f[0] == "link" {
			t.src.LinkTo(t.e)
		} else {
			t.src.LinkTo(nil)
		}
		t.linked = f[0] == "link"
		if t.active {
			t.relinks++
			t.muts++
		}

		return "done"
	case f[0] == "begin" && len(f) == 2:
		a, err := strconv.Atoi(f[1])
		if err != nil || t.active {
			return "bad-op"
		}
		w.emit("it begin "+f[1], "begun")
		t.active, t.runs = true, t.runs+1
		t.must, t.seen, t.order = map[int]bool{}, map[int]int{}, nil
		t.sFired, t.relinks, t.linkedAtBegin = 0, 0, t.linked
		for h := range t.attached {
			t.must[h] = true
		}
		t.e.Trigger(a)
		t.active = false
		if w.pos < len(w.ops) && strings.Join(strings.Fields(w.ops[w.pos]), " ") == "it visit" {
			w.pos++
		}
		w.emit("it visit", "end")
		// the property on this Trigger, independent of Lean
		sig := map[string]string{"oracle": "weak-iteration", "api": "event.Event1.Trigger", "mode": "hook-unhook-from-callbacks"}
		for h := range t.must {
			if t.seen[h] != 1 {
				w.fail("trigger-exactly-once", fmt.Sprintf("hook h%d was attached before Trigger began and never unhooked but was called %d times (calls: %v)", h, t.seen[h], t.order), sig)
			}
		}
		for i, h := range t.order {
			if t.seen[h] > 1 || (i > 0 && t.order[i-1] >= h) {
				w.fail("trigger-exactly-once", fmt.Sprintf("calls %v of one Trigger are not in attachment order / repeat a hook", t.order), sig)

				break
			}
		}
		if t.relinks == 0 {
			want := 0
			if t.linkedAtBegin {
				want = 1
			}
			if t.sFired != want {
				w.fail("link", fmt.Sprintf("the linked event fired %d times during one Trigger of its target (linked when the Trigger began: %v, no re-link meanwhile)", t.sFired, t.linkedAtBegin),
					map[string]string{"oracle": "link-fired", "api": "event.Event1.LinkTo", "mode": "hook-unhook-from-callbacks"})
			}
		}
		if t.muts > 0 {
			w.res.nontrivial = true
		}

		return ""
	case f[0] == "visit" && len(f) == 1:
		return "idle"
	}

	return "bad-op"
}

var itCorpus = [][]string{
	// the current element and its successor are unhooked from inside the callback: the iterator continues from the frozen next pointer
	{"it hook", "it hook", "it hook", "it hook", "it begin 1", "it visit", "it visit", "it unhook 1", "it unhook 2", "it visit", "it visit", "it visit"},
	{"it hook", "it hook", "it begin 1", "it visit", "it unhook 0", "it unhook 1", "it hook", "it visit", "it visit", "it begin 2", "it visit", "it visit"},
	{"it hook", "it begin 1", "it visit", "it hook", "it hook", "it visit", "it unhook 2", "it visit", "it visit", "it visit", "it unhook 7", "it visit"},
	{"it begin 0", "it visit", "it hook", "it unhook 0", "it begin 3", "it visit"},
	// re-link from inside a callback: the old link hook is removed while the iterator has not reached it, the new one is appended
	{"it hook", "it link", "it hook", "it begin 1", "it visit", "it link", "it visit", "it visit", "it visit", "it begin 2", "it visit", "it visit", "it visit", "it visit"},
	// re-link from inside S's own hook (the iterator stands on the link hook that is being removed) and unlink
	{"it hook", "it link", "it hook", "it begin 1", "it visit", "it visit", "it link", "it visit", "it visit", "it visit", "it begin 2", "it visit", "it unlink", "it visit", "it visit", "it visit"},
	{"it link", "it begin 1", "it visit", "it unlink", "it link", "it visit", "it link", "it visit", "it visit", "it unlink", "it begin 5", "it visit"},
}

func genIT(rng *hx.Rng) []string {
	var ops []string
	hooks := 0
	for i, n := 0, 2+rng.Intn(6); i < n; i++ {
		ops = append(ops, "it hook")
		hooks++
	}
	withLinks := rng.Chance(1, 2)
	mut := func() string {
		if withLinks && rng.Chance(1, 4) {
			if rng.Chance(1, 3) {
				return "it unlink"
			}

			return "it link"
		}

		return fmt.Sprintf("it unhook %d", rng.Intn(hooks))
	}
	if withLinks && rng.Chance(2, 3) {
		ops = append(ops, "it link")
	}
	for r, runs := 0, 1+rng.Intn(3); r < runs; r++ {
		if rng.Chance(1, 3) {
			ops = append(ops, mut())
		}
		ops = append(ops, fmt.Sprintf("it begin %d", rng.Intn(10)))
		for v, nv := 0, hooks+2; v < nv; v++ {
			ops = append(ops, "it visit")
			for m, nm := 0, rng.Intn(3); m < nm; m++ {
				if rng.Chance(1, 3) && hooks < 14 {
					ops = append(ops, "it hook")
					hooks++
					nv++
				} else {
					m := mut()
					if m == "it link" {
						nv++
					}
					ops = append(ops, m)
				}
			}
		}
	}

	return ops
}
