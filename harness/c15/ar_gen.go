// Code generated for the `ar` section (see ar.go); DO NOT EDIT.
package main

import "github.com/iotaledger/hive.go/runtime/event"

type arEv0 struct{ e *event.Event }

func newArEv0(opts ...event.Option) arEvent { return arEv0{event.New(opts...)} }

func (x arEv0) Hook(cb func([]int), opts ...event.Option) func() {
	return x.e.Hook(func() { cb([]int{}) }, opts...).Unhook
}

func (x arEv0) Trigger(a []int) { x.e.Trigger() }

func (x arEv0) TriggerCount() int { return x.e.TriggerCount() }

func (x arEv0) LinkTo(o arEvent) {
	if o == nil {
		x.e.LinkTo(nil)
	} else {
		x.e.LinkTo(o.(arEv0).e)
	}
}

type arEv1 struct{ e *event.Event1[int] }

func newArEv1(opts ...event.Option) arEvent { return arEv1{event.New1[int](opts...)} }

func (x arEv1) Hook(cb func([]int), opts ...event.Option) func() {
	return x.e.Hook(func(a1 int) { cb([]int{a1}) }, opts...).Unhook
}

func (x arEv1) Trigger(a []int) { x.e.Trigger(a[0]) }

func (x arEv1) TriggerCount() int { return x.e.TriggerCount() }

func (x arEv1) LinkTo(o arEvent) {
	if o == nil {
		x.e.LinkTo(nil)
	} else {
		x.e.LinkTo(o.(arEv1).e)
	}
}

type arEv2 struct{ e *event.Event2[int, int] }

func newArEv2(opts ...event.Option) arEvent { return arEv2{event.New2[int, int](opts...)} }

func (x arEv2) Hook(cb func([]int), opts ...event.Option) func() {
	return x.e.Hook(func(a1, a2 int) { cb([]int{a1, a2}) }, opts...).Unhook
}

func (x arEv2) Trigger(a []int) { x.e.Trigger(a[0], a[1]) }

func (x arEv2) TriggerCount() int { return x.e.TriggerCount() }

func (x arEv2) LinkTo(o arEvent) {
	if o == nil {
		x.e.LinkTo(nil)
	} else {
		x.e.LinkTo(o.(arEv2).e)
	}
}

type arEv3 struct{ e *event.Event3[int, int, int] }

func newArEv3(opts ...event.Option) arEvent { return arEv3{event.New3[int, int, int](opts...)} }

func (x arEv3) Hook(cb func([]int), opts ...event.Option) func() {
	return x.e.Hook(func(a1, a2, a3 int) { cb([]int{a1, a2, a3}) }, opts...).Unhook
}

func (x arEv3) Trigger(a []int) { x.e.Trigger(a[0], a[1], a[2]) }

func (x arEv3) TriggerCount() int { return x.e.TriggerCount() }

func (x arEv3) LinkTo(o arEvent) {
	if o == nil {
		x.e.LinkTo(nil)
	} else {
		x.e.LinkTo(o.(arEv3).e)
	}
}

type arEv4 struct {
	e *event.Event4[int, int, int, int]
}

func newArEv4(opts ...event.Option) arEvent { return arEv4{event.New4[int, int, int, int](opts...)} }

func (x arEv4) Hook(cb func([]int), opts ...event.Option) func() {
	return x.e.Hook(func(a1, a2, a3, a4 int) { cb([]int{a1, a2, a3, a4}) }, opts...).Unhook
}

func (x arEv4) Trigger(a []int) { x.e.Trigger(a[0], a[1], a[2], a[3]) }

func (x arEv4) TriggerCount() int { return x.e.TriggerCount() }

func (x arEv4) LinkTo(o arEvent) {
	if o == nil {
		x.e.LinkTo(nil)
	} else {
		x.e.LinkTo(o.(arEv4).e)
	}
}

type arEv5 struct {
	e *event.Event5[int, int, int, int, int]
}

func newArEv5(opts ...event.Option) arEvent {
	return arEv5{event.New5[int, int, int, int, int](opts...)}
}

func (x arEv5) Hook(cb func([]int), opts ...event.Option) func() {
	return x.e.Hook(func(a1, a2, a3, a4, a5 int) { cb([]int{a1, a2, a3, a4, a5}) }, opts...).Unhook
}

func (x arEv5) Trigger(a []int) { x.e.Trigger(a[0], a[1], a[2], a[3], a[4]) }

func (x arEv5) TriggerCount() int { return x.e.TriggerCount() }

func (x arEv5) LinkTo(o arEvent) {
	if o == nil {
		x.e.LinkTo(nil)
	} else {
		x.e.LinkTo(o.(arEv5).e)
	}
}

type arEv6 struct {
	e *event.Event6[int, int, int, int, int, int]
}

func newArEv6(opts ...event.Option) arEvent {
	return arEv6{event.New6[int, int, int, int, int, int](opts...)}
}

func (x arEv6) Hook(cb func([]int), opts ...event.Option) func() {
	return x.e.Hook(func(a1, a2, a3, a4, a5, a6 int) { cb([]int{a1, a2, a3, a4, a5, a6}) }, opts...).Unhook
}

func (x arEv6) Trigger(a []int) { x.e.Trigger(a[0], a[1], a[2], a[3], a[4], a[5]) }

func (x arEv6) TriggerCount() int { return x.e.TriggerCount() }

func (x arEv6) LinkTo(o arEvent) {
	if o == nil {
		x.e.LinkTo(nil)
	} else {
		x.e.LinkTo(o.(arEv6).e)
	}
}

type arEv7 struct {
	e *event.Event7[int, int, int, int, int, int, int]
}

func newArEv7(opts ...event.Option) arEvent {
	return arEv7{event.New7[int, int, int, int, int, int, int](opts...)}
}

func (x arEv7) Hook(cb func([]int), opts ...event.Option) func() {
	return x.e.Hook(func(a1, a2, a3, a4, a5, a6, a7 int) { cb([]int{a1, a2, a3, a4, a5, a6, a7}) }, opts...).Unhook
}

func (x arEv7) Trigger(a []int) { x.e.Trigger(a[0], a[1], a[2], a[3], a[4], a[5], a[6]) }

func (x arEv7) TriggerCount() int { return x.e.TriggerCount() }

func (x arEv7) LinkTo(o arEvent) {
	if o == nil {
		x.e.LinkTo(nil)
	} else {
		x.e.LinkTo(o.(arEv7).e)
	}
}

type arEv8 struct {
	e *event.Event8[int, int, int, int, int, int, int, int]
}

func newArEv8(opts ...event.Option) arEvent {
	return arEv8{event.New8[int, int, int, int, int, int, int, int](opts...)}
}

func (x arEv8) Hook(cb func([]int), opts ...event.Option) func() {
	return x.e.Hook(func(a1, a2, a3, a4, a5, a6, a7, a8 int) { cb([]int{a1, a2, a3, a4, a5, a6, a7, a8}) }, opts...).Unhook
}

func (x arEv8) Trigger(a []int) { x.e.Trigger(a[0], a[1], a[2], a[3], a[4], a[5], a[6], a[7]) }

func (x arEv8) TriggerCount() int { return x.e.TriggerCount() }

func (x arEv8) LinkTo(o arEvent) {
	if o == nil {
		x.e.LinkTo(nil)
	} else {
		x.e.LinkTo(o.(arEv8).e)
	}
}

type arEv9 struct {
	e *event.Event9[int, int, int, int, int, int, int, int, int]
}

func newArEv9(opts ...event.Option) arEvent {
	return arEv9{event.New9[int, int, int, int, int, int, int, int, int](opts...)}
}

func (x arEv9) Hook(cb func([]int), opts ...event.Option) func() {
	return x.e.Hook(func(a1, a2, a3, a4, a5, a6, a7, a8, a9 int) { cb([]int{a1, a2, a3, a4, a5, a6, a7, a8, a9}) }, opts...).Unhook
}

func (x arEv9) Trigger(a []int) { x.e.Trigger(a[0], a[1], a[2], a[3], a[4], a[5], a[6], a[7], a[8]) }

func (x arEv9) TriggerCount() int { return x.e.TriggerCount() }

func (x arEv9) LinkTo(o arEvent) {
	if o == nil {
		x.e.LinkTo(nil)
	} else {
		x.e.LinkTo(o.(arEv9).e)
	}
}

var arNew = []func(opts ...event.Option) arEvent{newArEv0, newArEv1, newArEv2, newArEv3, newArEv4, newArEv5, newArEv6, newArEv7, newArEv8, newArEv9}
