package main

import (
	"bytes"
	"context"
	"encoding/json"
	"fmt"
	"os"
	"os/exec"
	"path/filepath"
	"sort"
	"strconv"
	"strings"
	"sync"
	"time"
)

// A panic of the code under test on a goroutine the harness does not own (a worker-pool worker executing a pooled
// hook) cannot be recovered and kills the whole process.  The harness therefore runs as a supervisor that starts
// itself as a child; the child journals which cases are in flight.  When the child dies of a Go panic / fatal
// error, the supervisor re-runs every case that was in flight on its own (child with C15_ONLY=<index>), marks the
// ones that crash again as culprits and re-runs the whole child with these cases skipped: a skipped case is emitted
// with its op lines, the answer `crashed` and a `fatal-crash` oracle failure (so the replay is exactly that case),
// and the rest of the run happens as usual.

var (
	journal   *os.File
	journalMu sync.Mutex
	skipCases map[int]string // global case index -> excerpt of the crash
	onlyCase  = -1
	caseBase  int
)

func journalWrite(kind string, idx int) {
	if journal == nil {
		return
	}
	journalMu.Lock()
	journal.WriteString(kind + " " + strconv.Itoa(idx) + "\n")
	journalMu.Unlock()
}

func loadChildEnv() {
	if p := os.Getenv("C15_JOURNAL"); p != "" {
		journal, _ = os.OpenFile(p, os.O_CREATE|os.O_WRONLY|os.O_TRUNC, 0o644)
	}
	if p := os.Getenv("C15_SKIP"); p != "" {
		if b, err := os.ReadFile(p); err == nil {
			m := map[string]string{}
			if json.Unmarshal(b, &m) == nil {
				skipCases = map[int]string{}
				for k, v := range m {
					if i, err := strconv.Atoi(k); err == nil {
						skipCases[i] = v
					}
				}
			}
		}
	}
	if s := os.Getenv("C15_ONLY"); s != "" {
		if i, err := strconv.Atoi(s); err == nil {
			onlyCase = i
		}
	}
}

// crashedResult is what a case that kills the process is reported as.
func crashedResult(sub uint64, ops []string, reason string) *caseResult {
	res := &caseResult{sub: sub, nontrivial: true}
	section := "?"
	for _, op := range ops {
		if f := strings.Fields(op); len(f) > 0 && section == "?" {
			section = f[0]
		}
		res.ops = append(res.ops, op)
		res.ans = append(res.ans, "crashed")
	}
	where := ""
	for _, l := range strings.Split(reason, " | ") {
		if strings.Contains(l, "hive.go/") {
			where = strings.TrimSpace(l)

			break
		}
	}
	res.fails = append(res.fails, fail{"panic", "the case kills the process (panic on a goroutine of the code under test, not recoverable by the harness): " + reason,
		map[string]string{"oracle": "fatal-crash", "section": section, "where": where}})

	return res
}

func argValue(name string) string {
	for i, a := range os.Args[1:] {
		a = strings.TrimLeft(a, "-")
		if a == name && i+2 < len(os.Args) {
			return os.Args[i+2]
		}
		if strings.HasPrefix(a, name+"=") {
			return a[len(name)+1:]
		}
	}

	return ""
}

func argsWithOut(out string) []string {
	var args []string
	skip := false
	for _, a := range os.Args[1:] {
		if skip {
			skip = false

			continue
		}
		t := strings.TrimLeft(a, "-")
		if t == "out" {
			skip = true

			continue
		}
		if strings.HasPrefix(t, "out=") {
			continue
		}
		args = append(args, a)
	}

	return append(args, "--out", out)
}

// runChild runs the harness binary itself as a child; limit > 0 kills it (with its children) after that time (exit code -1).
func runChild(limit time.Duration, args []string, env ...string) (int, string) {
	ctx := context.Background()
	if limit > 0 {
		var cancel context.CancelFunc
		ctx, cancel = context.WithTimeout(ctx, limit)
		defer cancel()
	}
	cmd := exec.CommandContext(ctx, os.Args[0], args...)
	cmd.WaitDelay = 2 * time.Second
	cmd.Env = append(append(os.Environ(), "C15_CHILD=1"), env...)
	cmd.Stdout = os.Stdout
	var eb bytes.Buffer
	cmd.Stderr = &eb
	err := cmd.Run()
	code := 0
	if err != nil {
		code = 1
		if ee, ok := err.(*exec.ExitError); ok {
			code = ee.ExitCode()
		}
		if ctx.Err() != nil {
			code = -1
		}
	}

	return code, eb.String()
}

func isGoCrash(stderr string) bool {
	return strings.Contains(stderr, "\ngoroutine ") && (strings.Contains(stderr, "panic: ") || strings.Contains(stderr, "fatal error: "))
}

// crashExcerpt: the panic / fatal error line and the first frames of the crashing goroutine.
func crashExcerpt(stderr string) string {
	lines := strings.Split(stderr, "\n")
	start := -1
	for i, l := range lines {
		if strings.HasPrefix(l, "panic: ") || strings.HasPrefix(l, "fatal error: ") {
			start = i

			break
		}
	}
	if start < 0 {
		return strings.TrimSpace(stderr[max(0, len(stderr)-600):])
	}
	var out []string
	for _, l := range lines[start:] {
		if strings.HasPrefix(l, "[signal ") || strings.TrimSpace(l) == "" {
			continue
		}
		if strings.HasPrefix(strings.TrimSpace(l), "/") { // file:line +0x.. lines carry addresses and scratch paths
			continue
		}
		if strings.HasPrefix(l, "goroutine ") {
			if len(out) > 1 {
				break
			}

			continue
		}
		if i := strings.LastIndex(l, "("); i > 0 && strings.HasSuffix(l, ")") {
			l = l[:i] // drop argument words (addresses)
		}
		if i := strings.Index(l, " in goroutine "); i > 0 {
			l = l[:i]
		}
		out = append(out, strings.TrimSpace(l))
		if len(out) >= 6 {
			break
		}
	}

	return strings.Join(out, " | ")
}

func inflight(journalPath string) []int {
	b, err := os.ReadFile(journalPath)
	if err != nil {
		return nil
	}
	open := map[int]bool{}
	for _, l := range strings.Split(string(b), "\n") {
		f := strings.Fields(l)
		if len(f) != 2 {
			continue
		}
		i, err := strconv.Atoi(f[1])
		if err != nil {
			continue
		}
		if f[0] == "S" {
			open[i] = true
		} else {
			delete(open, i)
		}
	}
	var out []int
	for i := range open {
		out = append(out, i)
	}
	sort.Ints(out)

	return out
}

// supervise returns the exit code of the run.
func supervise() int {
	out := argValue("out")
	if out == "" {
		code, st := runChild(0, os.Args[1:])
		os.Stderr.WriteString(st)

		return code
	}
	os.MkdirAll(out, 0o755)
	jpath := filepath.Join(out, "inflight.journal")
	spath := filepath.Join(out, "skip.json")
	os.Remove(spath)
	skip := map[string]string{}
	code, st := 0, ""
	for attempt := 0; attempt < 6; attempt++ {
		env := []string{"C15_JOURNAL=" + jpath}
		if len(skip) > 0 {
			b, _ := json.Marshal(skip)
			os.WriteFile(spath, b, 0o644)
			env = append(env, "C15_SKIP="+spath)
		}
		code, st = runChild(0, os.Args[1:], env...)
		if code == 0 || !isGoCrash(st) {
			break
		}
		fmt.Fprintf(os.Stderr, "c15 supervisor: child died (%s); looking for the case among those in flight\n", crashExcerpt(st))
		found := 0
		cands := inflight(jpath)
		if len(cands) > 96 {
			cands = cands[:96]
		}
		// every candidate on its own (a case that neither crashes nor ends - e.g. an endless chain of pooled tasks - is
		// given up after 40 s), twice when it did not crash, within an overall budget
		deadline := time.Now().Add(4 * time.Minute)
		for try := 0; try < 2 && time.Now().Before(deadline); try++ {
			for _, idx := range cands {
				if _, done := skip[strconv.Itoa(idx)]; done || !time.Now().Before(deadline) {
					continue
				}
				c, s := runChild(40*time.Second, argsWithOut(filepath.Join(out, "only")), "C15_ONLY="+strconv.Itoa(idx))
				if c != 0 && isGoCrash(s) {
					skip[strconv.Itoa(idx)] = crashExcerpt(s)
					found++
				}
			}
		}
		os.RemoveAll(filepath.Join(out, "only"))
		if found == 0 {
			break // not attributable to one case: report the crash as it is
		}
	}
	if code != 0 {
		os.Stderr.WriteString(st)
	} else if len(skip) > 0 {
		fmt.Fprintf(os.Stderr, "c15 supervisor: %d cases kill the process; reported as fatal-crash findings, the rest of the run completed\n", len(skip))
	}

	return code
}
