// C15 correspondence harness: events, promise events and value notifiers.
//
// Sections (first token of every op line):
//
//	vn  sequential histories over the real valuenotifier.Notifier (listener/notify/dereg/wait)
//
// Every case is executed on fresh objects by an interpreter of op lines; cases run in parallel
// worker goroutines and are emitted in generation order, so the output is deterministic given the seed.
package main

import (
	"crypto/sha256"
	"fmt"
	"os"
	"runtime"
	"runtime/debug"
	"strings"
	"sync"
	"sync/atomic"
	"time"

	"verifharness/hx"
)

type fail struct {
	oracle, detail string
	sig            map[string]string
}

// caseResult is everything one case produces; it is emitted to the hx.Run by the main goroutine.
type caseResult struct {
	sub        uint64
	ops, ans   []string
	fails      []fail
	counts     []string
	nontrivial bool
}

type world struct {
	res *caseResult
	ops []string // the op lines of the case and the position of the next one (callbacks of the `it` section consume lines too)
	pos int
	vn  *vnWorld
	pr  *prWorld
	p0  *prWorld
	ev  *evWorld
	it  *itWorld
	ar  *arWorld
	om  *omWorld
}

// emit records one request line and the implementation's answer to it.
func (w *world) emit(line, ans string) {
	w.res.ops = append(w.res.ops, line)
	w.res.ans = append(w.res.ans, ans)
	f := strings.Fields(line)
	k := f[0]
	if len(f) > 1 && !traceSection[f[0]] {
		k += ":" + f[1]
	}
	w.count("op:" + k)
	w.count("ans:" + f[0] + ":" + ansKind(ans))
}

// traceSection: sections whose request lines carry an observed outcome and whose answer is `accept`.
var traceSection = map[string]bool{"vr": true, "mt": true, "pt": true, "hw": true, "hc": true, "lk": true, "lm": true, "uu": true, "vd": true, "vy": true}

// run executes op lines from w.pos on while cont accepts the next line.
func (w *world) run(cont func(op string) bool) {
	for w.pos < len(w.ops) && cont(w.ops[w.pos]) {
		op := w.ops[w.pos]
		w.pos++
		if line, ans := w.exec(op); line != "" {
			w.emit(line, ans)
		}
	}
}

func (w *world) fail(oracle, detail string, sig map[string]string) {
	w.res.fails = append(w.res.fails, fail{oracle, detail, sig})
}

func (w *world) count(k string) { w.res.counts = append(w.res.counts, k) }

// exec interprets one op line; it returns the request line to emit (trace sections append the observed
// outcome to it) and the implementation's answer.
func (w *world) exec(op string) (string, string) {
	f := strings.Fields(op)
	if len(f) == 0 {
		return op, "bad-op"
	}
	line, ans := op, ""
	p := hx.Safely(func() {
		switch f[0] {
		case "vn":
			ans = w.execVN(f[1:])
		case "vr":
			line, ans = w.execVR(f[1:])
		case "pr":
			ans = w.execPR(f[1:], false)
		case "p0":
			ans = w.execPR(f[1:], true)
		case "ev":
			ans = w.execEV(f[1:])
		case "it":
			if ans = w.execIT(f[1:]); ans == "" {
				line = "" // `it begin` has emitted its own lines
			}
		case "om":
			if ans = w.execOM(f[1:]); ans == "" {
				line = "" // `om begin` has emitted its own lines
			}
		case "mt":
			line, ans = w.execMT(f[1:])
		case "pt":
			line, ans = w.execPT(f[1:])
		case "hw":
			line, ans = w.execHW(f[1:])
		case "hc":
			line, ans = w.execHC(f[1:])
		case "mn":
			ans = w.execMN(f[1:])
		case "ar":
			ans = w.execAR(f[1:])
		case "lk":
			line, ans = w.execLK(f[1:])
		case "lm":
			line, ans = w.execLM(f[1:])
		case "uu":
			line, ans = w.execUU(f[1:])
		case "vd":
			line, ans = w.execVD(f[1:])
		case "vc":
			if ans = w.execVC(f[1:]); ans == "" {
				line = "" // `vc` has emitted its own lines
			}
		case "vy":
			line, ans = w.execVY(f[1:])
		case "vx":
			if ans = w.execVX(f[1:]); ans == "" {
				line = "" // `vx` has emitted its own lines
			}
		default:
			ans = "bad-op"
		}
	})
	if p != "" {
		w.fail("panic", fmt.Sprintf("op %q panicked: %s", op, p), map[string]string{"oracle": "panic", "section": f[0]})

		return op, "panic"
	}

	return line, ans
}

func runOps(sub uint64, ops []string) *caseResult {
	res := &caseResult{sub: sub}
	w := &world{res: res, ops: ops}
	w.run(func(string) bool { return true })
	w.finish()

	return res
}

// runCaseGuarded runs one case under a watchdog: a case that does not return (a deadlock of the code under test inside
// a call that has no guard of its own, e.g. Trigger while a consumer unhooks) becomes a `hang` finding with the case's op
// lines (answer `hang`), its goroutine is left behind, and the run goes on.  The first limit is generous (a loaded machine
// is not a hang); once a case has hung, the following ones get less.
var caseHangs atomic.Int32

func runCaseGuarded(sub uint64, ops []string) *caseResult {
	ch := make(chan *caseResult, 1)
	go func() { ch <- runOps(sub, ops) }()
	limit := 180 * time.Second
	if n := caseHangs.Load(); n > 10 {
		limit = 2 * time.Second
	} else if n > 0 {
		limit = 20 * time.Second
	}
	select {
	case r := <-ch:
		return r
	case <-time.After(limit):
	}
	caseHangs.Add(1)
	res := &caseResult{sub: sub, nontrivial: true}
	section := "?"
	for _, op := range ops {
		if f := strings.Fields(op); len(f) > 0 && section == "?" {
			section = f[0]
		}
		res.ops = append(res.ops, op)
		res.ans = append(res.ans, "hang")
	}
	res.fails = append(res.fails, fail{"hang", fmt.Sprintf("the case did not finish within %s (a call into the code under test never returned)", limit),
		map[string]string{"oracle": "hang", "section": section, "mode": "case-watchdog"}})

	return res
}

// ansKind canonicalises an answer for the histogram (handles and payloads dropped).
func ansKind(a string) string {
	k := strings.Fields(a)[0]
	if len(k) >= 2 && (k[0] == 'l' || k[0] == 'h' || k[0] == 'e' || k[0] == 'c') && k[1] >= '0' && k[1] <= '9' {
		return "handle"
	}

	return k
}

func (w *world) finish() {
	if w.vn != nil {
		w.vn.finish(w)
	}
	if w.pr != nil {
		w.pr.finish(w)
	}
	if w.p0 != nil {
		w.p0.finish(w)
	}
	if w.ev != nil {
		w.ev.finish(w)
	}
	if w.ar != nil {
		w.ar.finish()
	}
}

func emit(r *hx.Run, res *caseResult) {
	r.Case(res.sub)
	for i := range res.ops {
		r.Line(res.ops[i], res.ans[i])
	}
	for _, f := range res.fails {
		r.Fail(f.oracle, f.detail, f.sig)
	}
	for _, c := range res.counts {
		r.Count(c)
	}
	if res.nontrivial {
		h := sha256.Sum256([]byte(strings.Join(res.ops, "\n")))
		r.Nontrivial(string(h[:8]))
	}
	r.Sample(r.CaseLines())
}

// runAll executes the cases in parallel and emits them in order.
func runAll(r *hx.Run, subs []uint64, cases [][]string, par int) {
	base := caseBase // global index of the first case (journal of the supervisor, see supervise.go)
	caseBase += len(cases)
	results := make([]*caseResult, len(cases))
	var wg sync.WaitGroup
	sem := make(chan struct{}, par)
	for i := range cases {
		if onlyCase >= 0 && base+i != onlyCase {
			continue
		}
		if reason, crashed := skipCases[base+i]; crashed {
			results[i] = crashedResult(subs[i], cases[i], reason)

			continue
		}
		wg.Add(1)
		sem <- struct{}{}
		go func(i int) {
			defer wg.Done()
			defer func() { <-sem }()
			journalWrite("S", base+i)
			results[i] = runCaseGuarded(subs[i], cases[i])
			journalWrite("E", base+i)
		}(i)
	}
	wg.Wait()
	for _, res := range results {
		if res != nil {
			emit(r, res)
		}
	}
}

func main() {
	if os.Getenv("C15_CHILD") == "" {
		os.Exit(supervise())
	}
	loadChildEnv()
	debug.SetMaxStack(128 << 20) // an unbounded recursion of the code under test (a link cycle) dies quickly and cheaply
	if runtime.GOMAXPROCS(0) < 4 {
		runtime.GOMAXPROCS(4) // the races the stress sections look for need real parallelism
	}
	r := hx.Start()
	r.MaxSamples = 6
	r.Rule = "distinct by sha256 of the request lines; non-trivial = vn: a value used by two listener generations and a Wait answered; " +
		"vr: forced schedule with >= 2 events; pr: >= 2 callbacks; ev: >= 2 hooks and >= 2 triggers; it: a Hook/Unhook executed inside a callback; om: a Set/Delete/Clear executed inside a ForEach consumer; " +
		"mt/pt/hw/hc/lk/lm/uu/vd/vy/vc/vx: every stress run"
	if lines := r.ReplayLines(); lines != nil {
		runAll(r, []uint64{0}, [][]string{lines}, 1)
		r.Finish()

		return
	}
	var subs []uint64
	var cases [][]string
	add := func(cs ...[]string) {
		for _, c := range cs {
			subs = append(subs, 0)
			cases = append(cases, c)
		}
	}
	add(vnCorpus...)
	add(vrCorpus...)
	add(prCorpus...)
	add(evCorpus...)
	add(itCorpus...)
	add(omCorpus...)
	add([]string{"ar arity 3", "ar new 0", "ar new 2", "ar hook 0 0", "ar hook 1 1", "ar link 1 0", "ar trigger 0 312", "ar trigger 0 123", "ar trigger 1 231", "ar tcount 1"},
		[]string{"ar arity 9", "ar new 0", "ar hook 0 0", "ar trigger 0 987654321", "ar trigger 0 123456789"},
		[]string{"ar arity 0", "ar new 1", "ar hook 0 0", "ar trigger 0 0", "ar trigger 0 0", "ar tcount 0"})
	// hook-level pool options on a pooled event, for every arity: in place although the event has a pool, the hook's own
	// pool instead of the event's, the event's pool for a hook without option, a link to a pooled target
	for n := 0; n <= 9; n++ {
		d := "123456789"[:n]
		if n == 0 {
			d = "0"
		}
		add([]string{fmt.Sprintf("ar arity %d", n), "ar new 0 pre pool", "ar new 0 pre", "ar hook 0 0 inplace pre", "ar hook 0 0 pool", "ar hook 0 0 pre", "ar hook 0 2 inplace", "ar hook 1 0", "ar hook 1 0 pool pre",
			"ar link 1 0", "ar trigger 0 " + d, "ar trigger 0 " + d, "ar trigger 1 " + d, "ar unlink 1", "ar trigger 0 " + d})
	}
	add([]string{"mn 0 0 3 1 0", "mn 2 1 4 0 0 1", "mn 0 0 2 2", "mn 1 0 5 0", "mn 0 2 3 3 1 2 0",
		"mn 18446744073709551615 0 3 9223372036854775808 1", "mn 9223372036854775807 1 2 0 18446744073709551614 9223372036854775806"})
	gen := func(n int, g func(rng *hx.Rng) []string) {
		for i := 0; i < n; i++ {
			rng, sub := r.Rng.Fork()
			subs = append(subs, sub)
			cases = append(cases, g(rng))
		}
	}
	gen(40*r.Scale, genVR)
	gen(1200*r.Scale, func(rng *hx.Rng) []string { return genVN(rng, 4+rng.Intn(24)) })
	gen(1000*r.Scale, func(rng *hx.Rng) []string { return genPR(rng, 3+rng.Intn(14)) })
	gen(700*r.Scale, func(rng *hx.Rng) []string { return genP0(rng, 3+rng.Intn(14)) })
	gen(6*r.Scale, func(rng *hx.Rng) []string { return genPRLong(rng, "pr") })
	gen(6*r.Scale, func(rng *hx.Rng) []string { return genPRLong(rng, "p0") })
	gen(2500*r.Scale, func(rng *hx.Rng) []string { return genEV(rng, 6+rng.Intn(30)) })
	gen(1500*r.Scale, genIT)
	gen(150*r.Scale, genMN)
	gen(1200*r.Scale, genOM)
	for n := 0; n <= 9; n++ {
		n := n
		gen(30*r.Scale, func(rng *hx.Rng) []string { return genAR(rng, n) })
	}
	runAll(r, subs, cases, 64)
	// stress cases: few at a time, each starts its own goroutines
	rng, _ := r.Rng.Fork()
	st := genStress(rng, r.Scale)
	for i := 0; i < 8*r.Scale; i++ {
		rng, _ := r.Rng.Fork()
		st = append(st, genVC(rng))
	}
	for i := 0; i < 8*r.Scale; i++ {
		rng, _ := r.Rng.Fork()
		st = append(st, genVX(rng))
	}
	runAll(r, make([]uint64, len(st)), st, 3)
	r.Finish()
}
