// twins: uniformity of the hand-expanded arity twins of runtime/event/events.go.
//
//	go run ./c15/twins <out.lean> <LeanNamespace> <events.go>
//
// Prints, for Event, Event1 … Event9, the bodies of `Trigger` and `LinkTo` (go/printer, one token list per
// line) with the arity-dependent parts normalised: the parameter/argument list `arg1, …, argN` IN THIS ORDER
// becomes ARGS, the type list `T1, …, TN` becomes TYPES (for the parameterless Event the empty lists of the
// three calls that take the arguments).  Everything proved and tested for Event1 transfers to a twin whose
// normalised bodies are identical to Event1's; an argument list in any other order is not normalised and
// therefore shows up as a difference.
package main

import (
	"bytes"
	"fmt"
	"go/ast"
	"go/parser"
	"go/printer"
	"go/token"
	"os"
	"regexp"
	"strings"
)

func list(prefix string, n int) string {
	parts := make([]string, n)
	for i := range parts {
		parts[i] = fmt.Sprintf("%s%d", prefix, i+1)
	}

	return strings.Join(parts, ", ")
}

func normalise(body string, n int) []string {
	if n == 0 {
		for _, f := range []string{"e.preTriggerFunc", "hook.preTriggerFunc", "hook.trigger"} {
			body = strings.ReplaceAll(body, f+"()", f+"(ARGS)")
		}
		body = strings.ReplaceAll(body, "func()]", "func(TYPES)]")
	} else {
		body = strings.ReplaceAll(body, "("+list("arg", n)+")", "(ARGS)")
		body = strings.ReplaceAll(body, "func("+list("T", n)+")", "func(TYPES)")
	}
	var out []string
	for _, l := range strings.Split(body, "\n") {
		if l = strings.TrimSpace(l); l != "" {
			out = append(out, l)
		}
	}

	return out
}

var wordRe = map[string]*regexp.Regexp{}

func word(w string) *regexp.Regexp {
	if wordRe[w] == nil {
		wordRe[w] = regexp.MustCompile(`\b` + w + `\b(\[)?`)
	}

	return wordRe[w]
}

// normDecl normalises a whole declaration (type, constructor, method signature) of the twin of arity n: type
// parameter / type argument / parameter lists in the canonical order become TYPES / PARAMS, the names EventN / NewN
// become EVENT / NEW; the parameterless twin is given the shape of the generic ones first.
func normDecl(text string, n int) []string {
	ev, nw := "Event", "New"
	if n > 0 {
		ev, nw = fmt.Sprintf("Event%d", n), fmt.Sprintf("New%d", n)
		params := make([]string, n)
		for i := range params {
			params[i] = fmt.Sprintf("arg%d T%d", i+1, i+1)
		}
		text = strings.ReplaceAll(text, "["+list("T", n)+" any]", "[TYPES any]")
		text = strings.ReplaceAll(text, "["+list("T", n)+"]", "[TYPES]")
		text = strings.ReplaceAll(text, "func("+list("T", n)+")", "func(TYPES)")
		text = strings.ReplaceAll(text, "("+strings.Join(params, ", ")+")", "(PARAMS)")
	} else {
		text = strings.ReplaceAll(text, "type Event struct", "type Event[TYPES any] struct")
		text = strings.ReplaceAll(text, "func New(", "func New[TYPES any](")
		text = strings.ReplaceAll(text, "func()", "func(TYPES)")
		text = strings.ReplaceAll(text, "Trigger()", "Trigger(PARAMS)")
		text = word("Event").ReplaceAllStringFunc(text, func(m string) string {
			if strings.HasSuffix(m, "[") {
				return m
			}

			return m + "[TYPES]"
		})
	}
	text = word(ev).ReplaceAllStringFunc(text, func(m string) string { return "EVENT" + strings.TrimPrefix(m, ev) })
	text = word(nw).ReplaceAllStringFunc(text, func(m string) string { return "NEW" + strings.TrimPrefix(m, nw) })
	var out []string
	for _, l := range strings.Split(text, "\n") {
		if l = strings.TrimSpace(l); l != "" {
			out = append(out, l)
		}
	}

	return out
}

func leanList(ls []string) string {
	q := make([]string, len(ls))
	for i, l := range ls {
		q[i] = "\"" + strings.ReplaceAll(strings.ReplaceAll(l, "\\", "\\\\"), "\"", "\\\"") + "\""
	}

	return "[" + strings.Join(q, ",\n    ") + "]"
}

func main() {
	if len(os.Args) != 4 {
		fmt.Fprintln(os.Stderr, "usage: twins <out.lean> <LeanNamespace> <events.go>")
		os.Exit(2)
	}
	fset := token.NewFileSet()
	file, err := parser.ParseFile(fset, os.Args[3], nil, 0)
	if err != nil {
		fmt.Fprintln(os.Stderr, err)
		os.Exit(1)
	}
	bodies := map[string]string{} // "Event3.Trigger" -> printed body
	decls := map[string]string{}  // "type Event3", "New3", "sig Event3.Trigger" -> printed declaration
	show := func(n any) string {
		var b bytes.Buffer
		if err := printer.Fprint(&b, fset, n); err != nil {
			fmt.Fprintln(os.Stderr, err)
			os.Exit(1)
		}

		return b.String()
	}
	for _, d := range file.Decls {
		if gd, ok := d.(*ast.GenDecl); ok && gd.Tok == token.TYPE {
			for _, sp := range gd.Specs {
				if ts, ok := sp.(*ast.TypeSpec); ok {
					decls["type "+ts.Name.Name] = "type " + show(ts)
				}
			}

			continue
		}
		fd, ok := d.(*ast.FuncDecl)
		if ok && fd.Recv == nil && fd.Body != nil {
			decls[fd.Name.Name] = show(fd)

			continue
		}
		if !ok || fd.Recv == nil || len(fd.Recv.List) != 1 || fd.Body == nil {
			continue
		}
		t := fd.Recv.List[0].Type
		if s, ok := t.(*ast.StarExpr); ok {
			t = s.X
		}
		switch x := t.(type) {
		case *ast.IndexExpr:
			t = x.X
		case *ast.IndexListExpr:
			t = x.X
		}
		id, ok := t.(*ast.Ident)
		if !ok {
			continue
		}
		var b bytes.Buffer
		if err := printer.Fprint(&b, fset, fd.Body); err != nil {
			fmt.Fprintln(os.Stderr, err)
			os.Exit(1)
		}
		bodies[id.Name+"."+fd.Name.Name] = b.String()
		decls["sig "+id.Name+"."+fd.Name.Name] = show(&ast.FuncDecl{Recv: fd.Recv, Name: fd.Name, Type: fd.Type})
	}
	var out strings.Builder
	fmt.Fprintf(&out, "/-! GENERATED by harness/c15/twins — normalised bodies of the arity twins of runtime/event/events.go; do not edit. -/\nnamespace %s\n\n", os.Args[2])
	for _, m := range []string{"Trigger", "LinkTo"} {
		var all []string
		for n := 0; n <= 9; n++ {
			name := "Event"
			if n > 0 {
				name = fmt.Sprintf("Event%d", n)
			}
			body, ok := bodies[name+"."+m]
			if !ok {
				fmt.Fprintf(os.Stderr, "missing %s.%s\n", name, m)
				os.Exit(1)
			}
			norm := normalise(body, n)
			fmt.Fprintf(&out, "/-- %s.%s, normalised -/\ndef twin_%s_%d : List String :=\n  %s\n\n", name, m, m, n, leanList(norm))
			all = append(all, fmt.Sprintf("twin_%s_%d", m, n))
		}
		fmt.Fprintf(&out, "def twins_%s : List (List String) := [%s]\n\n", m, strings.Join(all, ", "))
	}
	// type declaration, constructor, method signatures of every twin
	var all []string
	for n := 0; n <= 9; n++ {
		ev, nw := "Event", "New"
		if n > 0 {
			ev, nw = fmt.Sprintf("Event%d", n), fmt.Sprintf("New%d", n)
		}
		var lines []string
		for _, k := range []string{"type " + ev, nw, "sig " + ev + ".Trigger", "sig " + ev + ".LinkTo"} {
			txt, ok := decls[k]
			if !ok {
				fmt.Fprintf(os.Stderr, "missing %s\n", k)
				os.Exit(1)
			}
			lines = append(lines, normDecl(txt, n)...)
		}
		fmt.Fprintf(&out, "/-- type %s, %s, signatures of Trigger and LinkTo, normalised -/\ndef twin_Decls_%d : List String :=\n  %s\n\n", ev, nw, n, leanList(lines))
		all = append(all, fmt.Sprintf("twin_Decls_%d", n))
	}
	fmt.Fprintf(&out, "def twins_Decls : List (List String) := [%s]\n\n", strings.Join(all, ", "))
	// every top-level declaration of the file must belong to one of the ten twins (nothing else lives in events.go)
	var names []string
	for _, d := range file.Decls {
		switch x := d.(type) {
		case *ast.GenDecl:
			if x.Tok == token.IMPORT {
				continue
			}
			for _, sp := range x.Specs {
				switch y := sp.(type) {
				case *ast.TypeSpec:
					names = append(names, "type "+y.Name.Name)
				case *ast.ValueSpec:
					for _, id := range y.Names {
						names = append(names, "value "+id.Name)
					}
				}
			}
		case *ast.FuncDecl:
			if x.Recv == nil {
				names = append(names, "func "+x.Name.Name)
			} else {
				names = append(names, "method "+strings.TrimSpace(strings.Trim(show(x.Recv.List[0].Type), "*"))+"."+x.Name.Name)
			}
		}
	}
	fmt.Fprintf(&out, "/-- every top-level declaration of events.go, in source order -/\ndef twins_toplevel : List String :=\n  %s\n\n", leanList(names))
	fmt.Fprintf(&out, "end %s\n", os.Args[2])
	if err := os.WriteFile(os.Args[1], []byte(out.String()), 0o644); err != nil {
		fmt.Fprintln(os.Stderr, err)
		os.Exit(1)
	}
}
