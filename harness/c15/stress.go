package main

import (
	"context"
	"fmt"
	"runtime"
	"strconv"
	"strings"
	"sync"
	"sync/atomic"
	"time"

	"verifharness/hx"

	"github.com/iotaledger/hive.go/runtime/event"
	"github.com/iotaledger/hive.go/runtime/promise"
	"github.com/iotaledger/hive.go/runtime/workerpool"
)

// Stress sections: real goroutines, observations printed as request lines, the Lean driver evaluates the
// trace predicates of the protocol theorems on them (answer column: accept).
//
//	mt <n> <G> <K> <pool> <m0> <m1> ... => <T> <ecount> <c0> <c1> ...
//	     event limit n, G goroutines x K Trigger calls, hook i limited to m_i (0 = unlimited), c_i = calls of hook i
//	pt <R> <J> <TG> <rounds> <kind> => <truesBad> <keep0> <keep1> <keepN> <early0> <earlyN> <racy0> <racy1> <racyN> <badarg>
//	     per round a fresh event, R registrar goroutines x J callbacks (some unsubscribed at once, some registering a
//	     child), TG Trigger callers released together; truesBad = rounds in which not exactly one Trigger returned true;
//	     kind 1 = promise.Event1[int], kind 0 = the parameterless promise.Event
//	hc <G> <K> <rounds> => <calls> <distinct> <twice>
//	     per round G goroutines call Hook K times each at the same time, then one Trigger
//	lk <G> <K> <R> => L:<tgt>,<call>,<ret> ... T:<tgt>,<start>,<end>,<fired> ...
//	     R LinkTo calls of one goroutine (targets A, B, nil) while G x K triggers of A and B run; logical clock stamps
//	lm <M> <rounds> => <bad>
//	     per round M simultaneous LinkTo(A|B) callers, then Trigger(A), Trigger(B): the linked event fires once in total
//	uu <mode> <U> <rounds> => <bad> <lost> <extra>     (see execUU)
//	vd <values> <K> => <waits> <ok> <other>            (see execVD)
//	hw <G> <K> <H> => <T> <unordered> <f1,s2,uf,us,c> ...
//	     G x K Trigger calls, H goroutines hooking (and partly unhooking) meanwhile; per hook the logical-clock window

// spinUntil busy-waits for the barrier flag (so that all waiters leave it within nanoseconds of each other) but
// yields every few hundred iterations: more spinning goroutines than cores must not starve the ones not yet started.
func spinUntil(flag *atomic.Bool) {
	for i := 0; !flag.Load(); i++ {
		if i&255 == 255 {
			runtime.Gosched()
		}
	}
}

func waitTimeout(wg *sync.WaitGroup) bool {
	return guarded(wg.Wait)
}

// panics collects panics of stress goroutines (code under test), reported as oracle failures afterwards.
type panics struct {
	mu  sync.Mutex
	all []string
}

// goSafe starts f as a goroutine of wg; a panic inside is recorded instead of killing the harness.
func (p *panics) goSafe(wg *sync.WaitGroup, f func()) {
	wg.Add(1)
	go func() {
		defer wg.Done()
		defer func() {
			if e := recover(); e != nil {
				p.mu.Lock()
				p.all = append(p.all, fmt.Sprint(e))
				p.mu.Unlock()
			}
		}()
		f()
	}()
}

func (p *panics) report(w *world, section string) {
	p.mu.Lock()
	defer p.mu.Unlock()
	if len(p.all) > 0 {
		w.fail("panic", fmt.Sprintf("%d goroutines of the %s stress run panicked, first: %s", len(p.all), section, p.all[0]),
			map[string]string{"oracle": "panic", "section": section})
	}
}

func atoiAll(f []string) ([]int, bool) {
	out := make([]int, len(f))
	for i, s := range f {
		x, err := strconv.Atoi(s)
		if err != nil || x < 0 {
			return nil, false
		}
		out[i] = x
	}

	return out, true
}

func atouAll(f []string) ([]uint64, bool) {
	out := make([]uint64, len(f))
	for i, s := range f {
		x, err := strconv.ParseUint(s, 10, 64)
		if err != nil {
			return nil, false
		}
		out[i] = x
	}

	return out, true
}

func minLimU(lim uint64, x int) int {
	if lim != 0 && uint64(x) > lim {
		return int(lim)
	}

	return x
}

func cutArrow(f []string) []string {
	for i, s := range f {
		if s == "=>" {
			return f[:i]
		}
	}

	return f
}

func minLim(lim, x int) int {
	if lim != 0 && x > lim {
		return lim
	}

	return x
}

func (w *world) execMT(f []string) (string, string) {
	in := cutArrow(f)
	pu, ok := atouAll(in)
	if !ok || len(pu) < 5 || pu[1] < 1 || pu[1] > 64 || pu[2] < 1 || pu[2] > 100000 || pu[3] > 1 || len(pu) > 40 {
		return "mt " + strings.Join(f, " "), "bad-op"
	}
	n, g, k, pooled, lims := pu[0], int(pu[1]), int(pu[2]), pu[3] == 1, pu[4:]
	var opts []event.Option
	if n > 0 {
		opts = append(opts, event.WithMaxTriggerCount(n))
	}
	e := event.New1[int](opts...)
	var pool *workerpool.WorkerPool
	if pooled {
		pool = workerpool.New("c15mt", workerpool.WithWorkerCount(4)).Start()
	}
	counts := make([]atomic.Int64, len(lims))
	for i, m := range lims {
		i := i
		var ho []event.Option
		if m > 0 {
			ho = append(ho, event.WithMaxTriggerCount(m))
		}
		if pooled && i%2 == 1 {
			ho = append(ho, event.WithWorkerPool(pool))
		}
		e.Hook(func(int) { counts[i].Add(1) }, ho...)
	}
	var wg sync.WaitGroup
	var pn panics
	defer pn.report(w, "mt")
	start := make(chan struct{})
	for j := 0; j < g; j++ {
		pn.goSafe(&wg, func() {
			<-start
			for x := 0; x < k; x++ {
				e.Trigger(x)
			}
		})
	}
	close(start)
	sig := map[string]string{"oracle": "hang", "api": "event.Trigger", "mode": "stress"}
	if !waitTimeout(&wg) {
		w.fail("hang", "concurrent Trigger callers did not finish", sig)
	}
	if pool != nil {
		if !guarded(func() { pool.PendingTasksCounter.WaitIsZero() }) {
			w.fail("hang", "worker pool did not drain", sig)
		}
		pool.Shutdown()
	}
	t := g * k
	passed := minLimU(n, t)
	out := []string{strconv.Itoa(t), strconv.Itoa(e.TriggerCount())}
	for i, m := range lims {
		c := int(counts[i].Load())
		out = append(out, strconv.Itoa(c))
		if want := minLimU(m, passed); c != want {
			w.fail("max-trigger-count", fmt.Sprintf("event limit %d, %d concurrent triggers: hook %d with limit %d fired %d times, expected min = %d", n, t, i, m, c, want),
				map[string]string{"oracle": "fired-min", "api": "event.WithMaxTriggerCount", "mode": "stress"})
		}
	}
	if e.TriggerCount() != t {
		w.fail("max-trigger-count", fmt.Sprintf("TriggerCount %d after %d concurrent triggers", e.TriggerCount(), t),
			map[string]string{"oracle": "event-count", "api": "event.TriggerCount", "mode": "stress"})
	}
	w.res.nontrivial = true

	return "mt " + strings.Join(in, " ") + " => " + strings.Join(out, " "), "accept"
}

func (w *world) execPT(f []string) (string, string) {
	in := cutArrow(f)
	p, ok := atoiAll(in)
	if !ok || len(p) != 5 || p[0] < 1 || p[0] > 64 || p[1] < 1 || p[1] > 10000 || p[2] < 1 || p[2] > 64 || p[3] < 1 || p[3] > 100000 || p[4] > 1 {
		return "pt " + strings.Join(f, " "), "bad-op"
	}
	r, j, tg, rounds, zero := p[0], p[1], p[2], p[3], p[4] == 0
	api := "promise.Event1"
	if zero {
		api = "promise.Event"
	}
	type cb struct {
		n      atomic.Int64
		bad    atomic.Int64
		child  atomic.Int64
		nest   bool
		unsub  bool
		early  bool // unsubscribe returned before any Trigger call began
		argSum atomic.Int64
	}
	var truesBad, keep0, keep1, keepN, early0, earlyN, racy0, racy1, racyN, badarg int
	for round := 0; round < rounds; round++ {
		var e prEvent = prEvent1{promise.NewEvent1[int]()}
		if zero {
			e = prEvent0{promise.NewEvent()} // parameterless twin: arguments are not observable (reported as 0)
		}
		cbs := make([]*cb, r*j)
		var trigBegun atomic.Bool
		var win atomic.Int64
		win.Store(-1)
		var trues atomic.Int64
		var wg sync.WaitGroup
		var pn panics
		defer pn.report(w, "pt")
		var start atomic.Bool
		var ready atomic.Int32
		for a := 0; a < r; a++ {
			a := a
			pn.goSafe(&wg, func() {
				ready.Add(1)
				spinUntil(&start) // the registrants leave the barrier together
				for b := 0; b < j; b++ {
					c := &cb{nest: (a+b)%3 == 0, unsub: (a+2*b)%4 == 1}
					cbs[a*j+b] = c
					un := e.OnTrigger(func(v int) {
						c.n.Add(1)
						c.argSum.Add(int64(v))
						if c.nest {
							e.OnTrigger(func(v2 int) {
								c.child.Add(1)
								if v2 != v {
									c.bad.Add(1)
								}
							})
						}
					})
					if c.unsub {
						un()
						c.early = !trigBegun.Load()
					}
				}
			})
		}
		for a := 0; a < tg; a++ {
			a := a
			pn.goSafe(&wg, func() {
				for !start.Load() {
					runtime.Gosched()
				}
				for x := 0; x < (round%5)*a; x++ {
					runtime.Gosched() // vary the point at which the triggers hit the registrars
				}
				trigBegun.Store(true)
				if e.Trigger(100 + a) {
					trues.Add(1)
					if zero {
						win.Store(0)
					} else {
						win.Store(int64(100 + a))
					}
				}
			})
		}
		for spins := 0; int(ready.Load()) < r && spins < 1<<22; spins++ {
			runtime.Gosched()
		}
		start.Store(true)
		if !waitTimeout(&wg) {
			w.fail("hang", "promise stress goroutines did not finish", map[string]string{"oracle": "hang", "api": api, "mode": "stress"})

			break
		}
		if trues.Load() != 1 {
			truesBad++
		}
		wv := win.Load()
		for _, c := range cbs {
			n := int(c.n.Load())
			if n > 0 && c.argSum.Load() != int64(n)*wv {
				badarg++
			}
			badarg += int(c.bad.Load())
			if c.nest && int(c.child.Load()) != n {
				badarg++ // a child registered during the parent's invocation must run exactly once per invocation
			}
			switch {
			case !c.unsub:
				switch n {
				case 0:
					keep0++
				case 1:
					keep1++
				default:
					keepN++
				}
			case c.early:
				if n == 0 {
					early0++
				} else {
					earlyN++
				}
			default:
				switch n {
				case 0:
					racy0++
				case 1:
					racy1++
				default:
					racyN++
				}
			}
		}
	}
	if truesBad != 0 || keep0 != 0 || keepN != 0 || earlyN != 0 || racyN != 0 || badarg != 0 {
		w.fail("promise-once", fmt.Sprintf("%s stress R=%d J=%d TG=%d x %d rounds: rounds in which not exactly one Trigger returned true: %d; kept callbacks run 0/1/more times: %d/%d/%d; unsubscribed before Trigger and run: %d; unsubscribed concurrently and run twice: %d; wrong argument or child count: %d",
			api, r, j, tg, rounds, truesBad, keep0, keep1, keepN, earlyN, racyN, badarg),
			map[string]string{"oracle": "callback-count", "api": api, "mode": "stress"})
	}
	w.res.nontrivial = true

	return fmt.Sprintf("pt %d %d %d %d %d => %d %d %d %d %d %d %d %d %d %d", r, j, tg, rounds, p[4], truesBad, keep0, keep1, keepN, early0, earlyN, racy0, racy1, racyN, badarg), "accept"
}

func (w *world) execHW(f []string) (string, string) {
	in := cutArrow(f)
	p, ok := atoiAll(in)
	if !ok || (len(p) != 3 && len(p) != 4) || p[0] < 1 || p[0] > 64 || p[1] < 1 || p[1] > 100000 || p[2] < 1 || p[2] > 64 || (len(p) == 4 && p[3] != 1) {
		return "hw " + strings.Join(f, " "), "bad-op"
	}
	g, k, hn := p[0], p[1], p[2]
	// pooled variant (4th parameter 1): the hooks of the hookers are pooled (WithWorkerPool on the hook); the windows are
	// the same, the calls are counted once the pool has drained
	var pool *workerpool.WorkerPool
	var hookOpts []event.Option
	var seqMu sync.Mutex
	if len(p) == 4 {
		pool = workerpool.New("c15hw", workerpool.WithWorkerCount(3)).Start()
		hookOpts = append(hookOpts, event.WithWorkerPool(pool))
		defer pool.Shutdown() // not waiting for ShutdownComplete (C16's subject)
	}
	e := event.New1[int]()
	t := g * k
	seqs := make([][]int32, t) // per trigger (argument = trigger id): the hooks called, in call order
	var started, finished atomic.Int64
	type hk struct {
		f1, s2, uf, us int64
		unhook         bool
		calls          atomic.Int64
	}
	const perHooker = 3
	hooks := make([]*hk, hn*perHooker)
	// two hooks that are there from the start and take a little time, so that triggers overlap the hookers
	var sink atomic.Int64
	for i := 0; i < 2; i++ {
		e.Hook(func(arg int) {
			x := int64(arg)
			for j := 0; j < 300; j++ {
				x = x*31 + int64(j)
			}
			sink.Add(x & 1)
		})
	}
	var wg sync.WaitGroup
	var pn panics
	defer pn.report(w, "hw")
	start := make(chan struct{})
	for a := 0; a < g; a++ {
		a := a
		pn.goSafe(&wg, func() {
			<-start
			for x := 0; x < k; x++ {
				started.Add(1)
				e.Trigger(a*k + x)
				finished.Add(1)
				if x%4 == 0 {
					runtime.Gosched() // let the hookers in between
				}
			}
		})
	}
	for a := 0; a < hn; a++ {
		a := a
		pn.goSafe(&wg, func() {
			<-start
			for b := 0; b < perHooker; b++ {
				h := &hk{unhook: (a+b)%2 == 0, uf: -1, us: -1}
				hooks[a*perHooker+b] = h
				if b > 0 {
					time.Sleep(time.Duration((a*7+b*13)%40) * time.Microsecond)
				}
				h.f1 = finished.Load()
				var hook *event.Hook[func(int)]
				hook = e.Hook(func(arg int) {
					h.calls.Add(1)
					if pool != nil {
						seqMu.Lock()
						defer seqMu.Unlock()
					}
					seqs[arg] = append(seqs[arg], int32(a*perHooker+b)+1)
				}, hookOpts...)
				h.s2 = started.Load()
				if h.unhook {
					time.Sleep(time.Duration((a*11+b*5)%60) * time.Microsecond)
					h.uf = finished.Load()
					hook.Unhook()
					h.us = started.Load()
				}
			}
		})
	}
	close(start)
	if !waitTimeout(&wg) {
		w.fail("hang", "hook-window stress goroutines did not finish", map[string]string{"oracle": "hang", "api": "event.Trigger", "mode": "stress"})
	}
	mode := ""
	if pool != nil {
		mode = " 1"
		if !guarded(func() { pool.PendingTasksCounter.WaitIsZero() }) {
			w.fail("hang", "worker pool did not drain", map[string]string{"oracle": "hang", "api": "workerpool.PendingTasksCounter", "mode": "hook-window"})
		}
	}
	// no hook twice within one Trigger
	unordered := 0
	for _, s := range seqs {
		seen := map[int32]bool{}
		for _, x := range s {
			if seen[x] {
				unordered++

				break
			}
			seen[x] = true
		}
	}
	out := []string{strconv.Itoa(t), strconv.Itoa(unordered)}
	for i, h := range hooks {
		c := h.calls.Load()
		lo, hi := int64(t)-h.s2, int64(t)-h.f1
		if h.unhook {
			lo, hi = h.uf-h.s2, h.us-h.f1
		}
		if lo < 0 {
			lo = 0
		}
		if c < lo || c > hi {
			w.fail("trigger-exactly-once", fmt.Sprintf("hook %d: %d calls outside of the window [%d,%d] given by the triggers that began after Hook returned / ended before Hook was called (T=%d f1=%d s2=%d uf=%d us=%d)",
				i, c, lo, hi, t, h.f1, h.s2, h.uf, h.us),
				map[string]string{"oracle": "hook-window", "api": "event.Hook", "mode": "stress"})
		}
		uf, us := "-", "-"
		if h.unhook {
			uf, us = strconv.FormatInt(h.uf, 10), strconv.FormatInt(h.us, 10)
		}
		out = append(out, fmt.Sprintf("%d,%d,%s,%s,%d", h.f1, h.s2, uf, us, c))
	}
	if unordered != 0 {
		w.fail("trigger-exactly-once", fmt.Sprintf("%d triggers called some hook twice", unordered),
			map[string]string{"oracle": "hook-twice", "api": "event.Trigger", "mode": "stress"})
	}
	w.res.nontrivial = true

	return fmt.Sprintf("hw %d %d %d%s => %s", g, k, hn, mode, strings.Join(out, " ")), "accept"
}

// execHC: G goroutines call Hook K times each at the same time, then one Trigger: every hook exactly once.
func (w *world) execHC(f []string) (string, string) {
	in := cutArrow(f)
	p, ok := atoiAll(in)
	if !ok || len(p) != 3 || p[0] < 1 || p[0] > 64 || p[1] < 1 || p[1] > 10000 || p[2] < 1 || p[2] > 10000 {
		return "hc " + strings.Join(f, " "), "bad-op"
	}
	g, k, rounds := p[0], p[1], p[2]
	calls, distinct, twice := 0, 0, 0
	for round := 0; round < rounds; round++ {
		e := event.New1[int]()
		counts := make([]atomic.Int64, g*k)
		var wg sync.WaitGroup
		var pn panics
		var start atomic.Bool
		for a := 0; a < g; a++ {
			a := a
			pn.goSafe(&wg, func() {
				for !start.Load() {
					runtime.Gosched()
				}
				for b := 0; b < k; b++ {
					i := a*k + b
					e.Hook(func(int) { counts[i].Add(1) })
				}
			})
		}
		start.Store(true)
		if !waitTimeout(&wg) {
			w.fail("hang", "concurrent Hook callers did not finish", map[string]string{"oracle": "hang", "api": "event.Hook", "mode": "stress"})

			break
		}
		pn.report(w, "hc")
		e.Trigger(round)
		for i := range counts {
			c := int(counts[i].Load())
			calls += c
			if c >= 1 {
				distinct++
			}
			if c > 1 {
				twice++
			}
		}
	}
	if want := g * k * rounds; calls != want || distinct != want || twice != 0 {
		w.fail("trigger-exactly-once", fmt.Sprintf("%d goroutines x %d concurrent Hook calls x %d rounds, then one Trigger per round: %d invocations of %d distinct hooks (%d hooks twice), expected every hook exactly once = %d", g, k, rounds, calls, distinct, twice, want),
			map[string]string{"oracle": "concurrent-hook", "api": "event.Hook", "mode": "stress"})
	}
	w.res.nontrivial = true

	return fmt.Sprintf("hc %d %d %d => %d %d %d", g, k, rounds, calls, distinct, twice), "accept"
}

// execLK: LinkTo concurrent with Trigger.  S is re-linked between the targets A (0), B (1) and nil (2) by one
// goroutine while G goroutines trigger A and B; a logical clock stamps the call and the return of every
// LinkTo and the start and the end of every Trigger; S's hook counts per trigger argument.
//
//	lk <G> <K> <R> => L:<tgt>,<call>,<ret> ... T:<tgt>,<start>,<end>,<fired> ...
func (w *world) execLK(f []string) (string, string) {
	in := cutArrow(f)
	p, ok := atoiAll(in)
	if !ok || len(p) != 3 || p[0] < 1 || p[0] > 16 || p[1] < 1 || p[1] > 400 || p[2] < 1 || p[2] > 400 || p[0]*p[1] > 1200 {
		return "lk " + strings.Join(f, " "), "bad-op"
	}
	g, k, relinks := p[0], p[1], p[2]
	src := event.New1[int]()
	tg := []*event.Event1[int]{event.New1[int](), event.New1[int]()}
	t := g * k
	fired := make([]atomic.Int64, t)
	src.Hook(func(arg int) { fired[arg].Add(1) })
	var sink atomic.Int64
	for _, e := range tg { // a few hooks around the link hook that take a little time, so that triggers overlap re-links
		for i := 0; i < 3; i++ {
			e.Hook(func(arg int) {
				x := int64(arg)
				for j := 0; j < 200; j++ {
					x = x*31 + int64(j)
				}
				sink.Add(x & 1)
			})
		}
	}
	var clk atomic.Int64
	type lrec struct{ tgt, call, ret int64 }
	type trec struct{ tgt, start, end int64 }
	links := make([]lrec, relinks)
	trigs := make([]trec, t)
	var wg sync.WaitGroup
	var pn panics
	defer pn.report(w, "lk")
	var start atomic.Bool
	var done atomic.Int64
	for a := 0; a < g; a++ {
		a := a
		pn.goSafe(&wg, func() {
			for !start.Load() {
				runtime.Gosched()
			}
			for x := 0; x < k; x++ {
				id := a*k + x
				x2 := int64((a + x) % 2)
				st := clk.Add(1)
				tg[x2].Trigger(id)
				trigs[id] = trec{x2, st, clk.Add(1)}
				if x%3 == 0 {
					runtime.Gosched()
				}
			}
			done.Add(1)
		})
	}
	pn.goSafe(&wg, func() {
		for !start.Load() {
			runtime.Gosched()
		}
		for i := 0; i < relinks; i++ {
			tgt := int64((i*7 + i/3) % 3)
			c := clk.Add(1)
			if tgt == 2 {
				src.LinkTo(nil)
			} else {
				src.LinkTo(tg[tgt])
			}
			links[i] = lrec{tgt, c, clk.Add(1)}
			for y := 0; y < (i%4)*3; y++ {
				runtime.Gosched()
			}
		}
	})
	start.Store(true)
	if !waitTimeout(&wg) {
		w.fail("hang", "LinkTo/Trigger stress goroutines did not finish", map[string]string{"oracle": "hang", "api": "event.LinkTo", "mode": "stress"})
	}
	out := make([]string, 0, relinks+t)
	for _, l := range links {
		out = append(out, fmt.Sprintf("L:%d,%d,%d", l.tgt, l.call, l.ret))
	}
	definite, overlapping := 0, 0
	for id, tr := range trigs {
		fc := fired[id].Load()
		out = append(out, fmt.Sprintf("T:%d,%d,%d,%d", tr.tgt, tr.start, tr.end, fc))
		// the property: j = the last LinkTo that had returned when the trigger began
		j := -1
		for i, l := range links {
			if l.ret != 0 && l.ret < tr.start {
				j = i
			}
		}
		quiet := j+1 >= len(links) || links[j+1].call == 0 || links[j+1].call > tr.end
		var lo, hi int64
		if j >= 0 && links[j].tgt == tr.tgt {
			hi = 1
		}
		if quiet {
			lo = hi
			definite++
		} else {
			overlapping++
			for i := j + 1; i < len(links); i++ {
				if links[i].call != 0 && links[i].call < tr.end && links[i].tgt == tr.tgt {
					hi++
				}
			}
		}
		if fc < lo || fc > hi {
			w.fail("link", fmt.Sprintf("trigger %d of target %d (clock %d..%d) fired the linked event %d times, allowed %d..%d (last LinkTo returned before it began: #%d)", id, tr.tgt, tr.start, tr.end, fc, lo, hi, j),
				map[string]string{"oracle": "link-fired", "api": "event.Event1.LinkTo", "mode": "stress"})
		}
	}
	for i := 0; i < definite; i += 50 {
		w.count("lk:trigger-within-one-link-period(x50)")
	}
	for i := 0; i < overlapping; i += 50 {
		w.count("lk:trigger-overlapping-a-relink(x50)")
	}
	w.res.nontrivial = true

	return fmt.Sprintf("lk %d %d %d => %s", g, k, relinks, strings.Join(out, " ")), "accept"
}

// execLM: M goroutines call S.LinkTo(A or B) at the same time (the link mutex serialises them), afterwards A and B
// are triggered once each: S is linked to exactly one of them, so it fires exactly once in total.
//
//	lm <M> <rounds> => <bad>      bad = rounds in which S did not fire exactly once
func (w *world) execLM(f []string) (string, string) {
	in := cutArrow(f)
	p, ok := atoiAll(in)
	if !ok || len(p) != 2 || p[0] < 1 || p[0] > 32 || p[1] < 1 || p[1] > 100000 {
		return "lm " + strings.Join(f, " "), "bad-op"
	}
	m, rounds := p[0], p[1]
	bad, first := 0, ""
	for round := 0; round < rounds; round++ {
		src := event.New1[int]()
		a, b := event.New1[int](), event.New1[int]()
		var fired atomic.Int64
		src.Hook(func(int) { fired.Add(1) })
		src.LinkTo(a)
		var wg sync.WaitGroup
		var pn panics
		var start atomic.Bool
		var ready atomic.Int32
		for i := 0; i < m; i++ {
			i := i
			pn.goSafe(&wg, func() {
				ready.Add(1)
				spinUntil(&start)
				if (i+round)%2 == 0 {
					src.LinkTo(b)
				} else {
					src.LinkTo(a)
				}
			})
		}
		for spins := 0; int(ready.Load()) < m && spins < 1<<22; spins++ {
			runtime.Gosched()
		}
		start.Store(true)
		if !waitTimeout(&wg) {
			w.fail("hang", "concurrent LinkTo callers did not finish", map[string]string{"oracle": "hang", "api": "event.LinkTo", "mode": "stress"})

			break
		}
		pn.report(w, "lm")
		a.Trigger(1)
		b.Trigger(2)
		if n := fired.Load(); n != 1 {
			bad++
			if first == "" {
				first = fmt.Sprintf("round %d: %d", round, n)
			}
		}
	}
	if bad != 0 {
		w.fail("link", fmt.Sprintf("%d concurrent LinkTo(A|B) callers x %d rounds, then one Trigger of A and of B: in %d rounds the linked event did not fire exactly once (%s)", m, rounds, bad, first),
			map[string]string{"oracle": "link-fired", "api": "event.Event1.LinkTo", "mode": "concurrent-linkto"})
	}
	w.res.nontrivial = true

	return fmt.Sprintf("lm %d %d => %d", m, rounds, bad), "accept"
}

func genStress(rng *hx.Rng, scale int) [][]string {
	var cases [][]string
	for i := 0; i < 12*scale; i++ {
		n := hx.Pick(rng, []string{"0", "0", "1", "3", "17", "200", "5000", hx.Pick(rng, hugeLimits)})
		g := 2 + rng.Intn(7)
		k := hx.Pick(rng, []int{1, 5, 50, 400})
		lims := []string{"0"}
		for j, nh := 0, 1+rng.Intn(5); j < nh; j++ {
			lims = append(lims, hx.Pick(rng, []string{"0", "1", "1", "2", "5", "40", "1000", hx.Pick(rng, hugeLimits)}))
		}
		cases = append(cases, []string{fmt.Sprintf("mt %s %d %d %d %s", n, g, k, rng.Intn(2), strings.Join(lims, " "))})
	}
	for i := 0; i < 12*scale; i++ {
		cases = append(cases, []string{fmt.Sprintf("pt %d %d %d %d %d", 2+rng.Intn(6), hx.Pick(rng, []int{1, 3, 10, 100}), 1+rng.Intn(4), hx.Pick(rng, []int{20, 100, 300}), i%2)})
	}
	for i := 0; i < 6*scale; i++ { // 8 registrants leaving the barrier together, both twins
		cases = append(cases, []string{fmt.Sprintf("pt 8 %d %d %d %d", hx.Pick(rng, []int{1, 2, 4}), 1+rng.Intn(2), hx.Pick(rng, []int{300, 600}), i%2)})
	}
	for i := 0; i < 6*scale; i++ {
		cases = append(cases, []string{fmt.Sprintf("hc %d %d %d", 2+rng.Intn(7), hx.Pick(rng, []int{1, 2, 5, 30}), hx.Pick(rng, []int{50, 200, 500}))})
	}
	for i := 0; i < 6*scale; i++ {
		cases = append(cases, []string{fmt.Sprintf("uu %d %d %d", i%2, 2+rng.Intn(3), hx.Pick(rng, []int{2000, 4000}))})
	}
	for i := 0; i < 4*scale; i++ {
		cases = append(cases, []string{fmt.Sprintf("vd %d %d", 1+rng.Intn(3), hx.Pick(rng, []int{5000, 20000}))})
	}
	for i := 0; i < 6*scale; i++ {
		cases = append(cases, []string{fmt.Sprintf("vy %d %d %d", 1+rng.Intn(3), hx.Pick(rng, []int{2000, 6000}), hx.Pick(rng, []int{0, 3, 10, 25}))})
	}
	for i := 0; i < 6*scale; i++ {
		cases = append(cases, []string{fmt.Sprintf("lm %d %d", 2+rng.Intn(7), hx.Pick(rng, []int{100, 300, 600}))})
	}
	for i := 0; i < 8*scale; i++ {
		cases = append(cases, []string{fmt.Sprintf("lk %d %d %d", 2+rng.Intn(4), hx.Pick(rng, []int{20, 60, 150}), hx.Pick(rng, []int{5, 20, 60}))})
	}
	for i := 0; i < 8*scale; i++ {
		cases = append(cases, []string{fmt.Sprintf("hw %d %d %d", 2+rng.Intn(4), hx.Pick(rng, []int{20, 200, 1000}), 1+rng.Intn(5))})
	}
	for i := 0; i < 4*scale; i++ { // the hookers' hooks pooled
		cases = append(cases, []string{fmt.Sprintf("hw %d %d %d 1", 2+rng.Intn(4), hx.Pick(rng, []int{20, 200, 1000}), 1+rng.Intn(5))})
	}

	return cases
}

// execMN: forced interleavings of the trigger counters: the callback of hook ri triggers the event again while the
// outer Trigger stands in the middle of its iteration (nesting depth = the argument).  Deterministic; the Lean driver
// runs the same schedule on the protocol model of C15_max_trigger_count_hooks and must print the same counts.
//
//	mn <n> <ri> <depth> <m0> <m1> ...   ->  <TriggerCount> <fired0> <fired1> ...
func (w *world) execMN(f []string) string {
	p, ok := atouAll(f)
	if !ok || len(p) < 4 || len(p) > 15 || p[1] >= uint64(len(p)-3) || p[2] > 8 {
		return "bad-op"
	}
	n, ri, depth, lims := p[0], int(p[1]), int(p[2]), p[3:]
	var opts []event.Option
	if n > 0 {
		opts = append(opts, event.WithMaxTriggerCount(n))
	}
	e := event.New1[int](opts...)
	counts := make([]int, len(lims))
	for i, m := range lims {
		i := i
		var ho []event.Option
		if m > 0 {
			ho = append(ho, event.WithMaxTriggerCount(m))
		}
		e.Hook(func(arg int) {
			counts[i]++
			if i == ri && arg > 0 {
				e.Trigger(arg - 1)
			}
		}, ho...)
	}
	e.Trigger(depth)
	total := depth + 1 // an upper bound of the Trigger calls; the oracle below only uses monotone facts
	out := []string{strconv.Itoa(e.TriggerCount())}
	for i, m := range lims {
		out = append(out, strconv.Itoa(counts[i]))
		if m > 0 && uint64(counts[i]) > m {
			w.fail("max-trigger-count", fmt.Sprintf("nested triggers: hook %d with limit %d fired %d times", i, m, counts[i]),
				map[string]string{"oracle": "fired-min", "api": "event.WithMaxTriggerCount", "mode": "nested-trigger"})
		}
		if counts[i] > minLimU(n, total) {
			w.fail("max-trigger-count", fmt.Sprintf("nested triggers: hook %d fired %d times although the event (limit %d) was triggered at most %d times", i, counts[i], n, total),
				map[string]string{"oracle": "fired-min", "api": "event.WithMaxTriggerCount", "mode": "nested-trigger"})
		}
	}
	w.res.nontrivial = depth > 0

	return strings.Join(out, " ")
}

func genMN(rng *hx.Rng) []string {
	var ops []string
	for i := 0; i < 12; i++ {
		nh := 1 + rng.Intn(4)
		lims := make([]string, nh)
		for j := range lims {
			lims[j] = hx.Pick(rng, []string{"0", "0", "1", "2", "3", hx.Pick(rng, hugeLimits)})
		}
		ops = append(ops, fmt.Sprintf("mn %s %d %d %s", hx.Pick(rng, []string{"0", "0", "1", "2", "4", hx.Pick(rng, hugeLimits)}), rng.Intn(nh), rng.Intn(6), strings.Join(lims, " ")))
	}

	return ops
}

// execUU: the last-attached hook is removed by several goroutines at once while another goroutine attaches new
// hooks; afterwards a quiescent Trigger must reach every hook that is attached and was not unhooked, exactly once.
//
//	uu <mode> <U> <rounds> => <bad> <lost> <extra>
//	     mode 0: U goroutines call Unhook of the last-attached hook; mode 1: that hook has WithMaxTriggerCount(1)
//	     and has fired once, U goroutines call Trigger (each finds it exhausted and unhooks it); meanwhile one
//	     goroutine attaches 1-2 new hooks.  bad = rounds in which the quiescent Trigger missed an attached hook
//	     (lost), invoked one twice or invoked the removed one (extra).
func (w *world) execUU(f []string) (string, string) {
	in := cutArrow(f)
	p, ok := atoiAll(in)
	if !ok || len(p) != 3 || p[0] > 1 || p[1] < 2 || p[1] > 8 || p[2] < 1 || p[2] > 1000000 {
		return "uu " + strings.Join(f, " "), "bad-op"
	}
	mode, u, rounds := p[0], p[1], p[2]
	bad, lost, extra := 0, 0, 0
	first := ""
	for round := 0; round < rounds; round++ {
		e := event.New1[int]()
		const quiet = 1 << 20 // argument of the quiescent Trigger
		var c1, c2 atomic.Int64
		newCounts := make([]atomic.Int64, 2)
		count := func(c *atomic.Int64) func(int) {
			return func(a int) {
				if a == quiet {
					c.Add(1)
				}
			}
		}
		e.Hook(count(&c1))
		var h2 *event.Hook[func(int)]
		if mode == 0 {
			h2 = e.Hook(count(&c2))
		} else {
			h2 = e.Hook(count(&c2), event.WithMaxTriggerCount(1))
			e.Trigger(0) // uses the limit up: the next Trigger that reaches it unhooks it
		}
		nNew := 1 + round%2
		var wg sync.WaitGroup
		var pn panics
		var start atomic.Bool
		var ready atomic.Int32
		delay := func(n int) {
			for i := 0; i < n; i++ {
				_ = ready.Load()
			}
		}
		for i := 0; i < u; i++ {
			i := i
			pn.goSafe(&wg, func() {
				ready.Add(1)
				spinUntil(&start)
				delay((round * (i + 1)) % 7 * i)
				if mode == 0 {
					h2.Unhook()
				} else {
					e.Trigger(i + 1)
				}
			})
		}
		pn.goSafe(&wg, func() {
			ready.Add(1)
			spinUntil(&start)
			delay(round % 61)
			for j := 0; j < nNew; j++ {
				e.Hook(count(&newCounts[j]))
			}
		})
		for spins := 0; int(ready.Load()) < u+1 && spins < 1<<22; spins++ {
			runtime.Gosched()
		}
		start.Store(true)
		if !waitTimeout(&wg) {
			w.fail("hang", "Unhook/Hook stress goroutines did not finish", map[string]string{"oracle": "hang", "api": "event.Unhook", "mode": "stress"})

			break
		}
		pn.report(w, "uu")
		e.Trigger(quiet)
		roundBad := false
		if c1.Load() != 1 {
			roundBad = true
			if c1.Load() == 0 {
				lost++
			} else {
				extra++
			}
		}
		if c2.Load() != 0 {
			roundBad, extra = true, extra+1
		}
		for j := 0; j < nNew; j++ {
			if n := newCounts[j].Load(); n != 1 {
				roundBad = true
				if n == 0 {
					lost++
				} else {
					extra++
				}
			}
		}
		if roundBad {
			bad++
			if first == "" {
				first = fmt.Sprintf("round %d: first hook %d, removed hook %d, new hooks %d/%d of %d", round, c1.Load(), c2.Load(), newCounts[0].Load(), newCounts[1].Load(), nNew)
			}
		}
	}
	if bad != 0 {
		w.fail("trigger-exactly-once", fmt.Sprintf("the last-attached hook removed by %d goroutines at once (mode %d) while new hooks are attached, %d rounds: in %d rounds the quiescent Trigger did not invoke every attached hook exactly once (%d hooks never reached, %d invoked wrongly; %s)", u, mode, rounds, bad, lost, extra, first),
			map[string]string{"oracle": "concurrent-unhook", "api": "event.Hook.Unhook", "mode": "stress"})
	}
	w.res.nontrivial = true

	return fmt.Sprintf("uu %d %d %d => %d %d %d", mode, u, rounds, bad, lost, extra), "accept"
}

// execVD: listener creation against the last deregistration, no Notify at all: per value one goroutine loops
// create+Deregister, another loops create+Wait (already cancelled context, the Wait deregisters too); every Wait
// must fail with the context error.
//
//	vd <values> <K> => <waits> <ok> <other>      ok = Waits that returned success
func (w *world) execVD(f []string) (string, string) {
	in := cutArrow(f)
	p, ok := atoiAll(in)
	if !ok || len(p) != 2 || p[0] < 1 || p[0] > 8 || p[1] < 1 || p[1] > 10000000 {
		return "vd " + strings.Join(f, " "), "bad-op"
	}
	values, k := p[0], p[1]
	kt := vnKeyTypes[(values+k/1000)%len(vnKeyTypes)] // the key type of the notifier varies with the parameters
	n := newVNNotifier(kt)
	w.count("vd:keytype:" + kt)
	ctx, cancel := context.WithCancel(context.Background())
	cancel()
	var okCount, other atomic.Int64
	var wg sync.WaitGroup
	var pn panics
	defer pn.report(w, "vd")
	var start atomic.Bool
	for v := 0; v < values; v++ {
		v := v
		pn.goSafe(&wg, func() {
			spinUntil(&start)
			for i := 0; i < k; i++ {
				n.Listener(v).Deregister()
			}
		})
		pn.goSafe(&wg, func() {
			spinUntil(&start)
			for i := 0; i < k; i++ {
				switch waitResult(n.Listener(v).Wait(ctx)) {
				case "canceled":
				case "ok":
					okCount.Add(1)
				default:
					other.Add(1)
				}
			}
		})
	}
	start.Store(true)
	if !waitTimeout(&wg) {
		w.fail("hang", "listener creation / deregistration stress did not finish", map[string]string{"oracle": "hang", "api": "valuenotifier.Listener", "mode": "stress"})
	}
	if okCount.Load() != 0 || other.Load() != 0 {
		w.fail("notifier-wait", fmt.Sprintf("%d values, per value %d create+Deregister against %d create+Wait(cancelled), Notify never called: %d Waits returned success, %d something else than context.Canceled", values, k, k, okCount.Load(), other.Load()),
			map[string]string{"oracle": "wait-ok-without-notify", "api": "valuenotifier.Listener.Wait", "mode": "create-vs-last-deregister"})
	}
	w.res.nontrivial = true

	return fmt.Sprintf("vd %d %d => %d %d %d", values, k, values*k, okCount.Load(), other.Load()), "accept"
}
