// Code generated for the `ar` section (see ar.go): typed pre-trigger functions per arity; DO NOT EDIT.
package main

// arPre[n](cb) is a func(int × n) that reports its arguments to cb (for event.WithPreTriggerFunc on an arity-n event or hook).
var arPre = []func(cb func([]int)) any{
	func(cb func([]int)) any { return func() { cb([]int{}) } },
	func(cb func([]int)) any { return func(a1 int) { cb([]int{a1}) } },
	func(cb func([]int)) any { return func(a1, a2 int) { cb([]int{a1, a2}) } },
	func(cb func([]int)) any { return func(a1, a2, a3 int) { cb([]int{a1, a2, a3}) } },
	func(cb func([]int)) any { return func(a1, a2, a3, a4 int) { cb([]int{a1, a2, a3, a4}) } },
	func(cb func([]int)) any { return func(a1, a2, a3, a4, a5 int) { cb([]int{a1, a2, a3, a4, a5}) } },
	func(cb func([]int)) any {
		return func(a1, a2, a3, a4, a5, a6 int) { cb([]int{a1, a2, a3, a4, a5, a6}) }
	},
	func(cb func([]int)) any {
		return func(a1, a2, a3, a4, a5, a6, a7 int) { cb([]int{a1, a2, a3, a4, a5, a6, a7}) }
	},
	func(cb func([]int)) any {
		return func(a1, a2, a3, a4, a5, a6, a7, a8 int) { cb([]int{a1, a2, a3, a4, a5, a6, a7, a8}) }
	},
	func(cb func([]int)) any {
		return func(a1, a2, a3, a4, a5, a6, a7, a8, a9 int) { cb([]int{a1, a2, a3, a4, a5, a6, a7, a8, a9}) }
	},
}
