package main

import (
	"fmt"
	"strconv"
	"strings"

	"verifharness/hx"

	"github.com/iotaledger/hive.go/ds/orderedmap"
)

// The `om` section: the hook registry's data structure, orderedmap.OrderedMap[int,int], driven directly and
// compared line by line with the pointer-level model Hive/Model/EventsOMap.lean.
//
//	om set <k> <v>   -> new | prev <v>
//	om del <k>       -> true | false
//	om clear         -> done
//	om get <k>       -> <v> | none
//	om has <k>       -> true | false
//	om head | tail   -> <k>:<v> | none
//	om size          -> <n> empty=<bool>      (Size and IsEmpty)
//	om clone         -> [k:v ...]             (Clone, then ForEach over the clone)
//	om begin fwd|rev -> begun                 ForEach / ForEachReverse starts; the following lines up to the end of
//	                                          the iteration are consumed by the consumer callbacks
//	om visit         -> <k>:<v> | end <ret> | idle   answered on entry of the consumer; the non-iteration lines that
//	                                          follow run inside that consumer call (between two pointer reads)
//	om stop          -> stopped <ret>         the consumer returns false
//
// Independent oracle (`orderedmap-ref`): a slice in insertion order; every answer is compared with it, and
// every iteration is judged by the weak-iteration property (entries present throughout: exactly once, in order).

type omRef struct{ k, v int }

type omWorld struct {
	m       *orderedmap.OrderedMap[int, int]
	ref     []omRef
	active  bool
	fwd     bool
	stopped bool
	must    map[int]bool // keys present when the iteration began and not removed since
	seen    map[int]int
	order   []int
	muts    int
}

func (w *world) omw() *omWorld {
	if w.om == nil {
		w.om = &omWorld{m: orderedmap.New[int, int]()}
	}

	return w.om
}

var omSig = map[string]string{"oracle": "orderedmap-ref", "api": "orderedmap.OrderedMap"}

func (t *omWorld) refIndex(k int) int {
	for i, e := range t.ref {
		if e.k == k {
			return i
		}
	}

	return -1
}

func omInner(op string) bool {
	f := strings.Fields(op)

	return len(f) >= 2 && f[0] == "om" && f[1] != "begin" && f[1] != "visit" && f[1] != "stop"
}

func (w *world) omNextIs(line string) bool {
	return w.pos < len(w.ops) && strings.Join(strings.Fields(w.ops[w.pos]), " ") == line
}

func (w *world) omConsumer(k, v int) bool {
	t := w.om
	if w.omNextIs("om visit") {
		w.pos++
	}
	w.emit("om visit", fmt.Sprintf("%d:%d", k, v))
	t.seen[k]++
	t.order = append(t.order, k)
	if t.must[k] {
		if i := t.refIndex(k); i >= 0 && t.ref[i].v != v {
			w.fail("orderedmap", fmt.Sprintf("the consumer got %d:%d but the entry's value is %d", k, v, t.ref[i].v), omSig)
		}
	}
	w.run(omInner)
	if w.omNextIs("om stop") {
		w.pos++
		t.stopped = true

		return false
	}

	return true
}

func (w *world) execOM(f []string) string {
	t := w.omw()
	num := func(i int) (int, bool) {
		if i >= len(f) {
			return 0, false
		}
		n, err := strconv.Atoi(f[i])

		return n, err == nil && n >= 0
	}
	showKV := func(k, v int, ok bool) string {
		if !ok {
			return "none"
		}

		return fmt.Sprintf("%d:%d", k, v)
	}
	if len(f) == 0 {
		return "bad-op"
	}
	switch {
	case f[0] == "set" && len(f) == 3:
		k, ok1 := num(1)
		v, ok2 := num(2)
		if !ok1 || !ok2 {
			return "bad-op"
		}
		prev, existed := t.m.Set(k, v)
		i := t.refIndex(k)
		if existed != (i >= 0) || (existed && prev != t.ref[i].v) {
			w.fail("orderedmap", fmt.Sprintf("Set(%d,%d) = (%d,%v) but the map was %v", k, v, prev, existed, t.ref), omSig)
		}
		if i >= 0 {
			t.ref[i].v = v
		} else {
			t.ref = append(t.ref, omRef{k, v})
		}
		if t.active {
			t.muts++
		}
		if existed {
			return fmt.Sprintf("prev %d", prev)
		}

		return "new"
	case f[0] == "del" && len(f) == 2:
		k, ok := num(1)
		if !ok {
			return "bad-op"
		}
		deleted := t.m.Delete(k)
		i := t.refIndex(k)
		if deleted != (i >= 0) {
			w.fail("orderedmap", fmt.Sprintf("Delete(%d) = %v but the map was %v", k, deleted, t.ref), omSig)
		}
		if i >= 0 {
			t.ref = append(t.ref[:i:i], t.ref[i+1:]...)
		}
		if t.active {
			delete(t.must, k)
			t.muts++
		}

		return strconv.FormatBool(deleted)
	case f[0] == "clear" && len(f) == 1:
		t.m.Clear()
		t.ref = nil
		if t.active {
			t.must = map[int]bool{}
			t.muts++
		}

		return "done"
	case f[0] == "get" && len(f) == 2:
		k, ok := num(1)
		if !ok {
			return "bad-op"
		}
		v, exists := t.m.Get(k)
		i := t.refIndex(k)
		if exists != (i >= 0) || (exists && v != t.ref[i].v) {
			w.fail("orderedmap", fmt.Sprintf("Get(%d) = (%d,%v) but the map is %v", k, v, exists, t.ref), omSig)
		}
		if !exists {
			return "none"
		}

		return strconv.Itoa(v)
	case f[0] == "has" && len(f) == 2:
		k, ok := num(1)
		if !ok {
			return "bad-op"
		}
		has := t.m.Has(k)
		if has != (t.refIndex(k) >= 0) {
			w.fail("orderedmap", fmt.Sprintf("Has(%d) = %v but the map is %v", k, has, t.ref), omSig)
		}

		return strconv.FormatBool(has)
	case (f[0] == "head" || f[0] == "tail") && len(f) == 1:
		var k, v int
		var ok bool
		want := omRef{}
		if f[0] == "head" {
			k, v, ok = t.m.Head()
			if len(t.ref) > 0 {
				want = t.ref[0]
			}
		} else {
			k, v, ok = t.m.Tail()
			if len(t.ref) > 0 {
				want = t.ref[len(t.ref)-1]
			}
		}
		if ok != (len(t.ref) > 0) || (ok && (omRef{k, v}) != want) {
			w.fail("orderedmap", fmt.Sprintf("%s = (%d,%d,%v) but the map is %v", f[0], k, v, ok, t.ref), omSig)
		}

		return showKV(k, v, ok)
	case f[0] == "size" && len(f) == 1:
		n, e := t.m.Size(), t.m.IsEmpty()
		if n != len(t.ref) || e != (len(t.ref) == 0) {
			w.fail("orderedmap", fmt.Sprintf("Size = %d, IsEmpty = %v but the map is %v", n, e, t.ref), omSig)
		}

		return fmt.Sprintf("%d empty=%v", n, e)
	case f[0] == "clone" && len(f) == 1:
		c := t.m.Clone()
		var got []omRef
		var parts []string
		c.ForEach(func(k, v int) bool {
			got = append(got, omRef{k, v})
			parts = append(parts, fmt.Sprintf("%d:%d", k, v))

			return true
		})
		if fmt.Sprint(got) != fmt.Sprint(t.ref) || c.Size() != len(t.ref) {
			w.fail("orderedmap", fmt.Sprintf("Clone = %v (size %d) but the map is %v", got, c.Size(), t.ref), omSig)
		}
		// the clone is independent of the original
		c.Set(1<<20, 1)
		if len(got) > 0 {
			c.Delete(got[0].k)
		}
		if t.m.Size() != len(t.ref) || t.m.Has(1<<20) {
			w.fail("orderedmap", "a change of the clone changed the original", omSig)
		}

		return "[" + strings.Join(parts, " ") + "]"
	case f[0] == "begin" && len(f) == 2 && (f[1] == "fwd" || f[1] == "rev"):
		if t.active {
			return "bad-op"
		}
		w.emit("om begin "+f[1], "begun")
		t.active, t.fwd, t.stopped, t.muts = true, f[1] == "fwd", false, 0
		t.must, t.seen, t.order = map[int]bool{}, map[int]int{}, nil
		rank := map[int]int{}
		for i, e := range t.ref {
			t.must[e.k] = true
			rank[e.k] = i
		}
		var ret bool
		if t.fwd {
			ret = t.m.ForEach(w.omConsumer)
		} else {
			ret = t.m.ForEachReverse(w.omConsumer)
		}
		t.active = false
		if t.stopped {
			w.emit("om stop", fmt.Sprintf("stopped %v", ret))
		} else {
			if w.omNextIs("om visit") {
				w.pos++
			}
			w.emit("om visit", fmt.Sprintf("end %v", ret))
		}
		sig := map[string]string{"oracle": "weak-iteration", "api": "orderedmap.OrderedMap.ForEach", "mode": "mutations-from-consumer"}
		last := -1
		for _, k := range t.order {
			if !t.must[k] {
				continue
			}
			if t.seen[k] != 1 {
				w.fail("orderedmap", fmt.Sprintf("entry %d was in the map during the whole iteration but was visited %d times (visits %v)", k, t.seen[k], t.order), sig)

				break
			}
			r := rank[k]
			if !t.fwd {
				r = len(rank) - r
			}
			if r <= last {
				w.fail("orderedmap", fmt.Sprintf("visits %v are not in insertion order (forward: %v)", t.order, t.fwd), sig)

				break
			}
			last = r
		}
		if !t.stopped {
			for k := range t.must {
				if t.seen[k] == 0 {
					w.fail("orderedmap", fmt.Sprintf("entry %d was in the map during the whole iteration but was never visited (visits %v)", k, t.order), sig)
				}
			}
		}
		if t.muts > 0 {
			w.res.nontrivial = true
		}

		return ""
	case (f[0] == "visit" || f[0] == "stop") && len(f) == 1:
		return "idle"
	}

	return "bad-op"
}

var omCorpus = [][]string{
	// the current entry and its successor are deleted from inside the consumer: the iterator goes on from the frozen next pointer
	{"om set 1 10", "om set 2 20", "om set 3 30", "om set 4 40", "om begin fwd", "om visit", "om visit", "om del 2", "om del 3", "om visit", "om visit", "om visit", "om size", "om head", "om tail"},
	// Clear from inside the consumer, then new entries: the iterator walks the old chain to its end and does not see the new ones
	{"om set 1 10", "om set 2 20", "om set 3 30", "om begin fwd", "om visit", "om clear", "om set 9 90", "om set 1 11", "om visit", "om visit", "om visit", "om clone", "om size"},
	// reverse iteration: deletions ahead of the iterator, an entry appended at the tail is not visited
	{"om set 1 10", "om set 2 20", "om set 3 30", "om set 4 40", "om begin rev", "om visit", "om del 3", "om set 5 50", "om visit", "om del 2", "om del 1", "om visit", "om visit", "om tail", "om head"},
	// Set of an existing key keeps the entry's place and is visible to the running iteration; delete + re-insert moves it to the tail
	{"om set 1 10", "om set 2 20", "om set 3 30", "om begin fwd", "om visit", "om set 2 21", "om del 3", "om set 3 31", "om visit", "om visit", "om visit", "om get 2", "om get 3", "om clone"},
	// the consumer stops the iteration
	{"om set 1 10", "om set 2 20", "om begin fwd", "om visit", "om stop", "om begin rev", "om visit", "om visit", "om stop", "om begin fwd", "om visit"},
	// deleting the only entry / head / tail, queries on the empty map
	{"om head", "om tail", "om size", "om get 3", "om has 3", "om del 3", "om clone", "om begin fwd", "om visit", "om begin rev", "om visit", "om set 3 1", "om del 3", "om head", "om tail", "om size",
		"om set 1 1", "om set 2 2", "om set 3 3", "om del 1", "om head", "om del 3", "om tail", "om size", "om clone"},
}

func genOM(rng *hx.Rng) []string {
	var ops []string
	keys := 3 + rng.Intn(6)
	simple := func() string {
		switch x := rng.Intn(20); {
		case x < 9:
			return fmt.Sprintf("om set %d %d", rng.Intn(keys), rng.Intn(100))
		case x < 14:
			return fmt.Sprintf("om del %d", rng.Intn(keys))
		case x == 14:
			return "om clear"
		case x == 15:
			return fmt.Sprintf("om get %d", rng.Intn(keys))
		case x == 16:
			return fmt.Sprintf("om has %d", rng.Intn(keys))
		case x == 17:
			return [...]string{"om head", "om tail"}[rng.Intn(2)]
		case x == 18:
			return "om size"
		}

		return "om clone"
	}
	for i, n := 0, 2+rng.Intn(10); i < n; i++ {
		if rng.Chance(2, 3) {
			ops = append(ops, fmt.Sprintf("om set %d %d", rng.Intn(keys), rng.Intn(100)))
		} else {
			ops = append(ops, simple())
		}
	}
	for r, runs := 0, 1+rng.Intn(3); r < runs; r++ {
		ops = append(ops, [...]string{"om begin fwd", "om begin fwd", "om begin rev"}[rng.Intn(3)])
		for v, nv := 0, keys+3; v < nv; v++ {
			ops = append(ops, "om visit")
			for m, nm := 0, rng.Intn(3); m < nm; m++ {
				ops = append(ops, simple())
			}
			if rng.Chance(1, 25) {
				ops = append(ops, "om stop")

				break
			}
		}
		for i, n := 0, rng.Intn(4); i < n; i++ {
			ops = append(ops, simple())
		}
	}
	ops = append(ops, "om clone", "om size", "om head", "om tail")

	return ops
}
