package main

import (
	"context"
	"fmt"
	"strconv"
	"strings"
	"sync"
	"time"

	"verifharness/hx"

	"github.com/iotaledger/hive.go/runtime/valuenotifier"
)

// The `vr` section replays forced schedules of Listener.Wait against Deregister / Notify / context
// cancellation: the waiter is parked by the `verif` hook between its `deregistered` check and its
// `select`, the listed events are executed one after the other, then the waiter is released, so
// that the select finds several channels ready at once.
//
//	request:  vr o<k> <event>... => <result>     (k other listeners share the entry)
//	events :  dereg | notify | cancel | odereg
//	answer :  accept  (the Lean driver accepts iff the protocol model admits <result> for this schedule)

type park struct {
	arrived chan struct{}
	release chan struct{}
}

var parked sync.Map // *valuenotifier.Listener -> *park

func init() {
	valuenotifier.VerifBeforeSelect = func(l *valuenotifier.Listener) {
		if p, ok := parked.LoadAndDelete(l); ok {
			close(p.(*park).arrived)
			<-p.(*park).release
		}
	}
}

func (w *world) execVR(f []string) (string, string) {
	if len(f) == 0 || !strings.HasPrefix(f[0], "o") {
		return "vr " + strings.Join(f, " "), "bad-op"
	}
	k, err := strconv.Atoi(f[0][1:])
	if err != nil || k < 0 || k > 8 {
		return "vr " + strings.Join(f, " "), "bad-op"
	}
	var evs []string
	for _, e := range f[1:] {
		if e == "=>" {
			break
		}
		switch e {
		case "dereg", "notify", "cancel", "odereg":
			evs = append(evs, e)
		default:
			return "vr " + strings.Join(f, " "), "bad-op"
		}
	}
	ready := false
	for _, e := range evs {
		if e != "odereg" {
			ready = true
		}
	}
	if !ready {
		evs = append(evs, "cancel") // otherwise the released waiter would block forever
	}
	n := valuenotifier.New[int]()
	l := n.Listener(7)
	others := make([]*valuenotifier.Listener, k)
	for i := range others {
		others[i] = n.Listener(7)
	}
	p := &park{arrived: make(chan struct{}), release: make(chan struct{})}
	parked.Store(l, p)
	ctx, cancel := context.WithCancel(context.Background())
	defer cancel()
	resC := make(chan error, 1)
	panicC := make(chan string, 1)
	go func() {
		defer func() {
			if e := recover(); e != nil {
				panicC <- fmt.Sprint(e)
			}
		}()
		resC <- l.Wait(ctx)
	}()
	line := fmt.Sprintf("vr o%d %s", k, strings.Join(evs, " "))
	sig := map[string]string{"oracle": "hang", "api": "valuenotifier.Wait", "mode": "forced-schedule"}
	select {
	case <-p.arrived:
	case <-time.After(guardWait):
		w.fail("hang", "waiter did not reach the hook before the select", sig)
		close(p.release)

		return line + " => hang", "accept"
	}
	inWindow, deregd := false, false
	for _, e := range evs {
		ok := guarded(func() {
			switch e {
			case "dereg":
				l.Deregister()
			case "notify":
				n.Notify(7)
			case "cancel":
				cancel()
			case "odereg":
				if len(others) > 0 {
					others[0].Deregister()
					others = others[1:]
				}
			}
		})
		if !ok {
			w.fail("hang", e+" did not return while the waiter was parked", sig)
		}
		if e == "dereg" {
			deregd = true
		}
		if e == "notify" && !deregd {
			inWindow = true
		}
	}
	close(p.release)
	var res string
	select {
	case e := <-resC:
		res = waitResult(e)
	case pv := <-panicC:
		w.fail("panic", "Wait panicked: "+pv, map[string]string{"oracle": "panic", "section": "vr"})
		res = "panic"
	case <-time.After(guardWait):
		w.fail("hang", "released waiter did not return", sig)
		res = "hang"
	}
	for _, o := range others {
		o.Deregister()
	}
	w.count("vr:result:" + res)
	if res == "ok" && !inWindow {
		w.fail("notifier-wait", fmt.Sprintf("schedule [%s] with the waiter parked before its select: Wait returned success although no Notify happened before the listener was deregistered", strings.Join(evs, " ")),
			map[string]string{"oracle": "wait-ok-without-notify", "api": "valuenotifier.Listener.Wait", "mode": "forced-schedule"})
	}
	w.res.nontrivial = len(evs) >= 2

	return line + " => " + res, "accept"
}

var vrCorpus = [][]string{
	// Deregister completes, then Notify (another listener keeps the entry alive): both channels are closed at the select
	rep("vr o1 dereg notify", 48),
	// the last deregistration closes the notify channel itself (original code)
	rep("vr o0 dereg", 48),
	rep("vr o1 dereg odereg", 24),
	rep("vr o0 notify dereg", 16),
	rep("vr o2 cancel notify", 16),
}

func rep(s string, n int) []string {
	out := make([]string, n)
	for i := range out {
		out[i] = s
	}

	return out
}

func genVR(rng *hx.Rng) []string {
	var out []string
	for s := 0; s < 4; s++ {
		k := rng.Intn(3)
		var evs []string
		for i, n := 0, 1+rng.Intn(4); i < n; i++ {
			evs = append(evs, hx.Pick(rng, []string{"dereg", "notify", "notify", "cancel", "odereg", "dereg"}))
		}
		line := fmt.Sprintf("vr o%d %s", k, strings.Join(evs, " "))
		out = append(out, rep(line, 6)...)
	}

	return out
}
