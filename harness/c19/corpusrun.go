// Runs the functions of trcorpus.go (translator corpus) for `corpus NAME KIND x y` request lines.
package main

import (
	"math/big"
	"strconv"

	"verifharness/hx"

	"github.com/iotaledger/hive.go/core/safemath"
)

func corpusFns[T safemath.Integer]() map[string]func(T, T) (T, error) {
	return map[string]func(T, T) (T, error){
		"tcNarrow": tcNarrow[T], "tcTuple": tcTuple[T], "tcSwitch": tcSwitch[T], "tcLoopShift": tcLoopShift[T], "tcLoopMul": tcLoopMul[T],
		"safeAddCopy": safeAddCopy[T], "tcBits": tcBits[T], "tcTypeSwitch": tcTypeSwitch[T], "tcViaSwitch": tcViaSwitch[T],
	}
}

var corpusNames = []string{"tcNarrow", "tcTuple", "tcSwitch", "tcLoopShift", "tcLoopMul", "safeAddCopy", "tcBits", "tcTypeSwitch", "tcViaSwitch"}

// the functions with a type switch also run at the defined types
var corpusSwitchNames = []string{"tcTypeSwitch", "tcViaSwitch"}

func corpusRun[T safemath.Integer](name string, x, y *big.Int) (out string) {
	defer func() {
		if e := recover(); e != nil {
			out = "panic"
		}
	}()
	f := corpusFns[T]()[name]
	if f == nil {
		return "bad-op"
	}

	return res(f(conv[T](x), conv[T](y)))
}

var corpusTable = map[string]func(string, *big.Int, *big.Int) string{
	"u8": corpusRun[uint8], "i8": corpusRun[int8], "u16": corpusRun[uint16], "i16": corpusRun[int16],
	"u32": corpusRun[uint32], "i32": corpusRun[int32], "u64": corpusRun[uint64], "i64": corpusRun[int64],
	"du8": corpusRun[dU8], "di8": corpusRun[dI8], "du16": corpusRun[dU16], "di16": corpusRun[dI16],
	"du32": corpusRun[dU32], "di32": corpusRun[dI32], "du64": corpusRun[dU64], "di64": corpusRun[dI64],
}

// corpusExec answers `corpus NAME KIND x y`.
func corpusExec(f []string) string {
	if len(f) != 5 {
		return "bad-op"
	}
	x, y := parseBig(f[3]), parseBig(f[4])
	if f[1] == "tcWide" {
		if f[2] != "u64" {
			return "bad-op"
		}
		out := "panic"
		hx.Safely(func() { out = res(tcWide(x.Uint64(), y.Uint64())) })

		return out
	}
	run, ok := corpusTable[f[2]]
	if !ok {
		return "bad-op"
	}

	return run(f[1], x, y)
}

// corpusAll emits the corpus lines: every x of the 8-bit types with 40 selected y, boundary-biased samples of the wider types.
func corpusAll(r *hx.Run) {
	for _, kn := range []string{"u8", "i8", "du8", "di8"} {
		names := corpusNames
		if kn[0] == 'd' {
			names = corpusSwitchNames
		}
		k := kindOf(kn)
		lo, hi := k.min().Int64(), k.max().Int64()
		var ys []int64
		seen := map[int64]bool{}
		for _, y := range []int64{lo, lo + 1, lo + 2, -3, -2, -1, 0, 1, 2, 3, 4, 5, 6, 7, 8, 15, 16, 17, 31, 32, 33, 63, 64, 65, 100, 126, 127, 128, 129, 200, 254, 255, hi - 2, hi - 1, hi, -64, -65, -100, -127, 77} {
			if y >= lo && y <= hi && !seen[y] {
				seen[y] = true
				ys = append(ys, y)
			}
		}
		for x := lo; x <= hi; x++ {
			if (x-lo)%32 == 0 {
				r.Case(uint64(x + 5000))
			}
			for _, y := range ys {
				for _, n := range names {
					emit(r, "corpus "+n+" "+kn+" "+strconv.FormatInt(x, 10)+" "+strconv.FormatInt(y, 10))
				}
			}
		}
	}
	n := 150 * r.Scale
	for _, k := range append(append([]kind(nil), kinds[2:]...), definedKinds[2:]...) {
		names := corpusNames
		if k.name[0] == 'd' {
			names = corpusSwitchNames
		}
		_, sub := r.Rng.Fork()
		r.Case(sub)
		for i := 0; i < n; i++ {
			x, y := operand(r.Rng, k), operand(r.Rng, k)
			if r.Rng.Chance(1, 3) {
				y = clamp(k, big.NewInt(int64(r.Rng.Intn(70))))
			}
			for _, nm := range names {
				emit(r, "corpus "+nm+" "+k.name+" "+x.String()+" "+y.String())
			}
			if k.name == "u64" {
				emit(r, "corpus tcWide u64 "+x.String()+" "+y.String())
				emit(r, "corpus tcWide u64 "+y.String()+" "+x.String())
			}
		}
	}
}
