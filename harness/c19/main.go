// C19 correspondence harness: evaluates the real safemath functions and the raw Go operators (which
// validate the Go-integer semantics of Hive/Base/GoInt.lean) on operands that the Lean driver evaluates
// with the definitions *generated* from safe_math.go.  Independent oracle: math/big.
package main

import (
	"errors"
	"fmt"
	"math/big"
	"math/bits"
	"strconv"
	"strings"
	"sync"
	"sync/atomic"

	"verifharness/hx"

	"github.com/iotaledger/hive.go/core/safemath"
)

type kind struct {
	name   string
	signed bool
	bits   uint
}

// defined integer types: a type switch on the predeclared types does not match them
type (
	dU8  uint8
	dI8  int8
	dU16 uint16
	dI16 int16
	dU32 uint32
	dI32 int32
	dU64 uint64
	dI64 int64
)

var definedKinds = []kind{{"du8", false, 8}, {"di8", true, 8}, {"du16", false, 16}, {"di16", true, 16}, {"du32", false, 32}, {"di32", true, 32}, {"du64", false, 64}, {"di64", true, 64}}

var kinds = []kind{{"u8", false, 8}, {"i8", true, 8}, {"u16", false, 16}, {"i16", true, 16}, {"u32", false, 32}, {"i32", true, 32}, {"u64", false, 64}, {"i64", true, 64}}

func (k kind) min() *big.Int {
	if !k.signed {
		return big.NewInt(0)
	}

	return new(big.Int).Neg(new(big.Int).Lsh(big.NewInt(1), k.bits-1))
}

func (k kind) max() *big.Int {
	if !k.signed {
		return new(big.Int).Sub(new(big.Int).Lsh(big.NewInt(1), k.bits), big.NewInt(1))
	}

	return new(big.Int).Sub(new(big.Int).Lsh(big.NewInt(1), k.bits-1), big.NewInt(1))
}

func (k kind) inRange(z *big.Int) bool { return z.Cmp(k.min()) >= 0 && z.Cmp(k.max()) <= 0 }

func res[T safemath.Integer](v T, err error) string {
	// the identity of the error is observed through errors.Is against BOTH sentinels: an error that matches both
	// (one sentinel wrapping the other, a joined error) is neither "the overflow error" nor "the division-by-zero error"
	ov, dz := errors.Is(err, safemath.ErrIntegerOverflow), errors.Is(err, safemath.ErrIntegerDivisionByZero)
	switch {
	case err == nil:
		return fmt.Sprintf("ok %d", v)
	case ov && dz:
		return "err-both"
	case ov:
		return "overflow"
	case dz:
		return "divzero"
	}

	return "err"
}

func conv[T safemath.Integer](z *big.Int) T {
	if z.Sign() < 0 {
		return T(z.Int64())
	}

	return T(z.Uint64())
}

// safe runs one of the generic safemath functions at type T.
func safe[T safemath.Integer](op string, x, y *big.Int) (out string) {
	defer func() {
		if e := recover(); e != nil {
			out = "panic"
		}
	}()
	a, b := conv[T](x), conv[T](y)
	switch op {
	case "add":
		return res(safemath.SafeAdd(a, b))
	case "sub":
		return res(safemath.SafeSub(a, b))
	case "mul":
		return res(safemath.SafeMul(a, b))
	case "div":
		return res(safemath.SafeDiv(a, b))
	case "shl":
		return res(safemath.SafeLeftShift(a, uint8(y.Uint64())))
	}

	return "bad-op"
}

// raw runs the plain Go operator at type T (validates the modelled operator semantics).
func raw[T safemath.Integer](op string, x, y *big.Int) (out string) {
	defer func() {
		if e := recover(); e != nil {
			out = "panic"
		}
	}()
	a, b := conv[T](x), conv[T](y)
	switch op {
	case "add":
		return fmt.Sprint(a + b)
	case "sub":
		return fmt.Sprint(a - b)
	case "mul":
		return fmt.Sprint(a * b)
	case "div":
		return fmt.Sprint(a / b)
	case "neg":
		return fmt.Sprint(-a)
	case "and":
		return fmt.Sprint(a & b)
	case "or":
		return fmt.Sprint(a | b)
	case "xor":
		return fmt.Sprint(a ^ b)
	case "andnot":
		return fmt.Sprint(a &^ b)
	case "rem":
		return fmt.Sprint(a % b)
	case "not":
		return fmt.Sprint(^a)
	case "shl":
		return fmt.Sprint(a << uint8(y.Uint64()))
	case "shr":
		return fmt.Sprint(a >> uint8(y.Uint64()))
	case "tou64":
		return fmt.Sprint(uint64(a))
	case "toi64":
		return fmt.Sprint(int64(a))
	case "tou8":
		return fmt.Sprint(uint8(a))
	case "len64":
		return fmt.Sprint(bits.Len64(uint64(a)))
	case "lz64":
		return fmt.Sprint(bits.LeadingZeros64(uint64(a)))
	case "tz64":
		return fmt.Sprint(bits.TrailingZeros64(uint64(a)))
	}

	return "bad-op"
}

type opFn func(string, *big.Int, *big.Int) string

var table = map[string][2]opFn{
		"u8": {safe[uint8], raw[uint8]}, "i8": {safe[int8], raw[int8]}, "u16": {safe[uint16], raw[uint16]}, "i16": {safe[int16], raw[int16]},
		"u32": {safe[uint32], raw[uint32]}, "i32": {safe[int32], raw[int32]}, "u64": {safe[uint64], raw[uint64]}, "i64": {safe[int64], raw[int64]},
		"du8": {safe[dU8], raw[dU8]}, "di8": {safe[dI8], raw[dI8]}, "du16": {safe[dU16], raw[dU16]}, "di16": {safe[dI16], raw[dI16]}, "du32": {safe[dU32], raw[dU32]}, "di32": {safe[dI32], raw[dI32]},
	"du64": {safe[dU64], raw[dU64]}, "di64": {safe[dI64], raw[dI64]},
}

func dispatch(f string, k string, op string, x, y *big.Int) string {
	e, ok := table[k]
	if !ok {
		return "bad-op"
	}
	if f == "raw" {
		return e[1](op, x, y)
	}

	return e[0](op, x, y)
}

func kindOf(name string) kind {
	for _, k := range append(append([]kind(nil), kinds...), definedKinds...) {
		if k.name == name {
			return k
		}
	}
	panic("kind " + name)
}

// expected computes the property's answer with math/big.
func expected(k kind, op string, x, y *big.Int) string {
	var z *big.Int
	switch op {
	case "add":
		z = new(big.Int).Add(x, y)
	case "sub":
		z = new(big.Int).Sub(x, y)
	case "mul":
		z = new(big.Int).Mul(x, y)
	case "div":
		if y.Sign() == 0 {
			return "divzero"
		}
		z = new(big.Int).Quo(x, y)
	case "shl":
		z = new(big.Int).Lsh(x, uint(y.Uint64()))
	}
	if k.inRange(z) {
		return "ok " + z.String()
	}

	return "overflow"
}

func parseBig(s string) *big.Int {
	z, ok := new(big.Int).SetString(s, 10)
	if !ok {
		panic("bad number " + s)
	}

	return z
}

func exec(r *hx.Run, line string) string {
	f := strings.Fields(line)
	switch f[0] {
	case "safe": // safe OP KIND X Y
		k := kindOf(f[2])
		x, y := parseBig(f[3]), parseBig(f[4])
		got := dispatch("safe", f[2], f[1], x, y)
		want := expected(k, f[1], x, y)
		if got != want {
			cls := "wrapped-or-wrong-value"
			if want == "overflow" && strings.HasPrefix(got, "ok") {
				cls = "wrapped-value-returned"
			} else if strings.HasPrefix(want, "ok") && got == "overflow" {
				cls = "spurious-error"
			}
			r.Fail("exact-or-overflow", fmt.Sprintf("Safe %s[%s](%s,%s) = %s, exact answer %s", f[1], f[2], f[3], f[4], got, want),
				map[string]string{"fn": f[1], "type": f[2], "class": cls})
		}

		return got
	case "corpus": // corpus NAME KIND X Y: a function of trcorpus.go (translator self-check)
		return corpusExec(f)
	case "search": // search FN KIND: boundary enumeration shared with the Lean driver (Hive/Model/SafeMathSearch.lean)
		ans, _ := searchAnswer(f[1], f[2])

		return ans
	case "raw":
		return dispatch("raw", f[2], f[1], parseBig(f[3]), parseBig(f[4]))
	case "raw64": // raw64 mul X Y | raw64 div HI LO Y: math/bits itself (validates mul64 / div64 of GoInt.lean)
		if f[1] == "mul" && len(f) == 4 {
			hi, lo := bits.Mul64(parseBig(f[2]).Uint64(), parseBig(f[3]).Uint64())

			return fmt.Sprintf("%d %d", hi, lo)
		}
		if (f[1] == "add" || f[1] == "sub") && len(f) == 5 {
			x, y, c := parseBig(f[2]).Uint64(), parseBig(f[3]).Uint64(), parseBig(f[4]).Uint64()&1
			if f[1] == "add" {
				sum, carry := bits.Add64(x, y, c)

				return fmt.Sprintf("%d %d", sum, carry)
			}
			diff, borrow := bits.Sub64(x, y, c)

			return fmt.Sprintf("%d %d", diff, borrow)
		}
		if f[1] == "div" && len(f) == 5 {
			out := "panic"
			hx.Safely(func() {
				q, rem := bits.Div64(parseBig(f[2]).Uint64(), parseBig(f[3]).Uint64(), parseBig(f[4]).Uint64())
				out = fmt.Sprintf("%d %d", q, rem)
			})

			return out
		}

		return "bad-op"
	case "mulu64":
		x, y := parseBig(f[1]), parseBig(f[2])
		got := res(safemath.SafeMulUint64(x.Uint64(), y.Uint64()))
		if want := expected(kindOf("u64"), "mul", x, y); got != want {
			r.Fail("exact-or-overflow", fmt.Sprintf("SafeMulUint64(%s,%s) = %s, exact answer %s", f[1], f[2], got, want), map[string]string{"fn": "SafeMulUint64"})
		}

		return got
	case "muli64":
		x, y := parseBig(f[1]), parseBig(f[2])
		got := res(safemath.SafeMulInt64(x.Int64(), y.Int64()))
		if want := expected(kindOf("i64"), "mul", x, y); got != want {
			r.Fail("exact-or-overflow", fmt.Sprintf("SafeMulInt64(%s,%s) = %s, exact answer %s", f[1], f[2], got, want), map[string]string{"fn": "SafeMulInt64"})
		}

		return got
	case "muldiv":
		x, y, d := parseBig(f[1]), parseBig(f[2]), parseBig(f[3])
		var got string
		if p := hx.Safely(func() { got = res(safemath.Safe64MulDiv(x.Uint64(), y.Uint64(), d.Uint64())) }); p != "" {
			got = "panic"
		}
		want := "divzero"
		if d.Sign() != 0 {
			z := new(big.Int).Quo(new(big.Int).Mul(x, y), d)
			if kindOf("u64").inRange(z) {
				want = "ok " + z.String()
			} else {
				want = "overflow"
			}
		}
		if got != want {
			r.Fail("exact-or-overflow", fmt.Sprintf("Safe64MulDiv(%s,%s,%s) = %s, exact answer %s", f[1], f[2], f[3], got, want), map[string]string{"fn": "Safe64MulDiv"})
		}

		return got
	}

	return "bad-op"
}

var safeOps = []string{"add", "sub", "mul", "div"}
var rawOps = []string{"add", "sub", "mul", "div", "and", "or", "xor", "andnot", "rem"}

var mainSlot = newSlot()

func emit(r *hx.Run, line string) {
	mainSlot.enter(&callDesc{prefix: line})
	ans := exec(r, line)
	mainSlot.leave()
	r.Line(line, ans)
	f := strings.Fields(line)
	if f[0] == "corpus" {
		r.Count("req:corpus:" + f[1])
		r.Count("ans:corpus-" + strings.Fields(ans)[0])

		return
	}
	if f[0] == "search" {
		r.Count("req:search:" + f[1])
		r.Count("ans:search-" + strings.Fields(ans)[0])

		return
	}
	if f[0] == "safe" || f[0] == "raw" || f[0] == "raw64" {
		r.Count("req:" + f[0] + ":" + f[1])
		if f[0] != "raw64" {
			r.Count("type:" + f[2])
		}
	} else {
		r.Count("req:" + f[0])
	}
	if f[0] == "raw" || f[0] == "raw64" {
		if ans == "panic" {
			r.Count("ans:raw-panic")
		} else {
			r.Count("ans:raw-value")
		}
	} else {
		r.Count("ans:" + strings.Fields(ans)[0])
		if f[0] == "safe" {
			// which answer of which function at which type the generated requests reach
			r.Count("cell:" + f[1] + ":" + f[2] + ":" + strings.Fields(ans)[0])
		}
	}
	if strings.HasPrefix(ans, "ok") || ans == "overflow" {
		r.Nontrivial(line)
	}
}

// boundary-biased operand of kind k
func operand(rng *hx.Rng, k kind) *big.Int { return clamp(k, operand0(rng, k)) }

func operand0(rng *hx.Rng, k kind) *big.Int {
	switch rng.Intn(10) {
	case 0:
		return new(big.Int).Set(k.min())
	case 1:
		return new(big.Int).Set(k.max())
	case 2:
		return big.NewInt(int64(rng.Range(-2, 2)))
	case 3:
		z := new(big.Int).Add(k.min(), big.NewInt(int64(rng.Intn(4))))

		return z
	case 4:
		z := new(big.Int).Sub(k.max(), big.NewInt(int64(rng.Intn(4))))

		return z
	case 5: // around sqrt of the modulus
		z := new(big.Int).Lsh(big.NewInt(1), k.bits/2)
		z.Add(z, big.NewInt(int64(rng.Range(-3, 3))))
		if k.signed && rng.Bool() {
			z.Neg(z)
		}

		return z
	case 6: // power of two
		z := new(big.Int).Lsh(big.NewInt(1), uint(rng.Intn(int(k.bits))))
		if k.signed && rng.Bool() {
			z.Neg(z)
		}

		return z
	}
	z := new(big.Int).SetUint64(rng.U64())
	z.Rsh(z, uint(rng.Intn(64)))
	z.Mod(z, new(big.Int).Lsh(big.NewInt(1), k.bits))
	if k.signed {
		z.Add(z, k.min())
	}

	return z
}

func clamp(k kind, z *big.Int) *big.Int {
	if z.Cmp(k.min()) < 0 {
		return new(big.Int).Set(k.min())
	}
	if z.Cmp(k.max()) > 0 {
		return new(big.Int).Set(k.max())
	}

	return z
}

// sweep16 enumerates ALL 2^32 operand pairs of a 16-bit type against an int64 oracle (no Lean involved: the theorems
// already cover every width).  Every pair whose exact result is representable (expected answer `ok`: the "exact result" and
// "never a spurious error" clauses) is evaluated - that half costs ~4 ns per call.  A pair whose exact result is not
// representable (expected answer: the overflow error, "never a wrapped value") costs ~0.3-0.5 us because the real function
// formats an error message, 4100 core-seconds per type for all of them: those are evaluated for all y near the boundaries and
// near zero and for every 11th y elsewhere (phase shifted per x).  Division (one overflowing pair, 65536 zero divisors) and
// all 256 shift counts are complete.
func sweep16[T safemath.Integer](r *hx.Run, name string, lo, hi int64) (evals int64) {
	var wg sync.WaitGroup
	var total atomic.Int64
	workers := 16
	for w := 0; w < workers; w++ {
		wg.Add(1)
		go func(w int) {
			defer wg.Done()
			var n int64
			check := func(op string, x, y int64, got T, err error, exact int64, dz bool) {
				n++
				want := "ok"
				if dz {
					want = "divzero"
				} else if exact < lo || exact > hi {
					want = "overflow"
				}
				g := "ok"
				if errors.Is(err, safemath.ErrIntegerOverflow) {
					g = "overflow"
				} else if errors.Is(err, safemath.ErrIntegerDivisionByZero) {
					g = "divzero"
				} else if err != nil {
					g = "err"
				}
				if g != want || (g == "ok" && int64(got) != exact) {
					r.Fail("exact-or-overflow", fmt.Sprintf("Safe %s[%s](%d,%d) = %d,%s; exact %d (%s)", op, name, x, y, int64(got), g, exact, want),
						map[string]string{"fn": op, "type": name, "class": "sweep16"})
				}
			}
			fits := func(z int64) bool { return z >= lo && z <= hi }
			sl := newSlot()
			for x := lo + int64(w); x <= hi; x += int64(workers) {
				// one announcement per row of 65536 pairs + 256 shift counts (a per-call one would double the cost of the cheap half)
				sl.enter(&callDesc{prefix: "safe add|sub|mul|div|shl " + name + " (row of the 16-bit sweep, x =", xi: x, ints: true})
				for y := lo; y <= hi; y++ {
					// pairs with an unrepresentable result: all y near the boundaries and near zero, every 11th y elsewhere
					d := y - lo
					sampled := !(d > 600 && hi-y > 600 && (y > 600 || y < -600) && (d+x)%11 != 0)
					a, b := T(x), T(y)
					if sampled || fits(x+y) {
						v, err := safemath.SafeAdd(a, b)
						check("add", x, y, v, err, x+y, false)
					}
					if sampled || fits(x-y) {
						v, err := safemath.SafeSub(a, b)
						check("sub", x, y, v, err, x-y, false)
					}
					if sampled || fits(x*y) {
						v, err := safemath.SafeMul(a, b)
						check("mul", x, y, v, err, x*y, false)
					}
					v, err := safemath.SafeDiv(a, b)
					if y == 0 {
						check("div", x, y, v, err, 0, true)
					} else {
						check("div", x, y, v, err, x/y, false)
					}
				}
				for sh := 0; sh <= 255; sh++ {
					v, err := safemath.SafeLeftShift(T(x), uint8(sh))
					exact := int64(1) << 40 // out of range marker
					if x == 0 {
						exact = 0
					} else if sh < 20 {
						exact = x << uint(sh)
					} else if x < 0 {
						exact = -(int64(1) << 40)
					}
					check("shl", x, int64(sh), v, err, exact, false)
				}
				sl.leave()
			}
			total.Add(n)
		}(w)
	}
	wg.Wait()

	return total.Load()
}

func main() {
	r := hx.Start()
	startWatchdog(r)
	r.MaxSamples = 2
	r.Rule = "exhaustive: all 65536 operand pairs of uint8 and int8 for SafeAdd/Sub/Mul/Div and the raw operators + - * / &, all shift counts 0..255 x all 256 values; " +
		"boundary-biased samples for 16/32/64-bit types and the 64-bit helpers; non-trivial = request answered ok/overflow (distinct request lines)"
	if lines := r.ReplayLines(); lines != nil {
		r.Case(0)
		for _, l := range lines {
			emit(r, l)
		}
		r.Finish()

		return
	}
	// corpus of past failures
	r.Case(0)
	for _, l := range []string{"safe shl u8 3 7", "safe mul i8 -1 -128", "safe mul i8 -128 -1", "safe div i8 -128 -1", "safe shl i8 -1 1", "safe shl i8 64 1",
		"safe shl u8 1 8", "safe shl u8 0 200", "muli64 -9223372036854775808 -1", "muli64 -9223372036854775808 1", "muli64 3037000500 3037000500",
		"muldiv 18446744073709551615 18446744073709551615 18446744073709551615", "muldiv 1 1 0", "mulu64 4294967296 4294967296",
		"safe mul du64 18446744073709551615 2", "safe mul di64 -9223372036854775808 -1", "safe mul i64 3037000500 3037000500", "safe div u8 128 255",
		"safe div u64 9223372036854775808 18446744073709551615", "safe add du8 255 1", "safe shl di8 64 1",
		// minimised failing inputs of earlier rounds of seeded changes
		"muldiv 4294967296 4294967296 1", "muldiv 9223372036854775808 6 3", "muldiv 2 9223372036854775808 0", "safe shl u8 1 64", "safe shl i64 1 65",
		"safe shl i8 -1 64", "muli64 1 -9223372036854775808", "safe sub i8 -1 -128", "safe sub i64 -9223372036854775808 -9223372036854775808",
		"safe shl u64 1 63", "safe shl du64 3 62", "safe mul i8 -1 -128", "safe mul i64 -1 -9223372036854775808", "safe shl u8 0 8", "safe shl i64 0 255",
		"safe mul du64 4294967296 4294967296", "safe div u16 32768 65535", "safe div du16 32768 65535", "safe mul di16 -1 -32768",
		"raw64 mul 18446744073709551615 18446744073709551615", "raw64 div 1 0 1", "raw64 div 0 5 0", "raw64 div 1 0 2", "raw64 div 18446744073709551614 1 18446744073709551615"} {
		emit(r, l)
	}
	// systematic boundary grid against math/big (oracle only); failing inputs are re-run as request lines
	gridLines, gridEvals, gridHits := gridAll()
	r.Extra["grid_oracle_only_evaluations"] = gridEvals
	r.Extra["grid_failing_inputs"] = gridHits
	r.Case(1)
	for _, l := range gridLines {
		emit(r, l)
	}
	// the boundary enumeration that the Lean driver runs over the regenerated model, here over the real functions
	searchAll(r)
	// translator self-check: the functions of trcorpus.go against their translation
	corpusAll(r)
	// exhaustive 8-bit
	for _, kn := range []string{"u8", "i8"} {
		k := kindOf(kn)
		lo, hi := k.min().Int64(), k.max().Int64()
		for x := lo; x <= hi; x++ {
			r.Case(uint64(x + 1000))
			xs := strconv.FormatInt(x, 10)
			for y := lo; y <= hi; y++ {
				ys := strconv.FormatInt(y, 10)
				for _, op := range safeOps {
					emit(r, "safe "+op+" "+kn+" "+xs+" "+ys)
				}
				for _, op := range rawOps {
					if (op == "div" || op == "rem") && y == 0 {
						continue
					}
					emit(r, "raw "+op+" "+kn+" "+xs+" "+ys)
				}
			}
			for n := 0; n <= 255; n++ {
				ns := strconv.Itoa(n)
				emit(r, "safe shl "+kn+" "+xs+" "+ns)
				emit(r, "raw shl "+kn+" "+xs+" "+ns)
				emit(r, "raw shr "+kn+" "+xs+" "+ns)
			}
			emit(r, "raw neg "+kn+" "+xs+" 0")
			emit(r, "raw not "+kn+" "+xs+" 0")
			emit(r, "raw tou64 "+kn+" "+xs+" 0")
			emit(r, "raw toi64 "+kn+" "+xs+" 0")
			emit(r, "raw len64 "+kn+" "+xs+" 0")
			emit(r, "raw lz64 "+kn+" "+xs+" 0")
			emit(r, "raw tz64 "+kn+" "+xs+" 0")
		}
	}
	r.Extra["exhaustive_8bit"] = true
	if r.Tier == "thorough" {
		r.Extra["dense_16bit_oracle_only_evaluations"] = sweep16[uint16](r, "u16", 0, 65535) + sweep16[int16](r, "i16", -32768, 32767)
		r.Extra["dense_16bit_rule"] = "all 2^32 pairs of uint16 and of int16: every pair with a representable result for add/sub/mul, every pair for div, every value x every shift count; pairs with an unrepresentable sum/difference/product: boundary bands + every 11th"
	}
	// sampled wide types
	n := 2000 * r.Scale
	for _, k := range append(append([]kind(nil), kinds[2:]...), definedKinds...) {
		for i := 0; i < n; i++ {
			if i%100 == 0 {
				_, sub := r.Rng.Fork()
				r.Case(sub)
			}
			x, y := operand(r.Rng, k), operand(r.Rng, k)
			if r.Rng.Chance(1, 4) && y.Sign() != 0 { // products near the boundary
				q := new(big.Int).Quo(k.max(), y)
				x = clamp(k, q.Add(q, big.NewInt(int64(r.Rng.Range(-2, 2)))))
			}
			xs, ys := x.String(), y.String()
			for _, op := range safeOps {
				emit(r, "safe "+op+" "+k.name+" "+xs+" "+ys)
			}
			for _, op := range rawOps {
				if (op == "div" || op == "rem") && y.Sign() == 0 {
					continue
				}
				emit(r, "raw "+op+" "+k.name+" "+xs+" "+ys)
			}
			sh := strconv.Itoa(hx.Pick(r.Rng, []int{0, 1, 2, int(k.bits) - 2, int(k.bits) - 1, int(k.bits), int(k.bits) + 1, 255, r.Rng.Intn(256)}))
			emit(r, "safe shl "+k.name+" "+xs+" "+sh)
			emit(r, "raw shl "+k.name+" "+xs+" "+sh)
			emit(r, "raw shr "+k.name+" "+xs+" "+sh)
			emit(r, "raw neg "+k.name+" "+xs+" 0")
			emit(r, "raw not "+k.name+" "+xs+" 0")
			emit(r, "raw tou64 "+k.name+" "+xs+" 0")
			emit(r, "raw toi64 "+k.name+" "+xs+" 0")
			emit(r, "raw "+hx.Pick(r.Rng, []string{"len64", "lz64", "tz64"})+" "+k.name+" "+xs+" 0")
			if k.name == "u64" {
				emit(r, "raw64 add "+xs+" "+ys+" "+strconv.Itoa(r.Rng.Intn(2)))
				emit(r, "raw64 sub "+xs+" "+ys+" "+strconv.Itoa(r.Rng.Intn(2)))
				emit(r, "mulu64 "+xs+" "+ys)
				d := operand(r.Rng, k)
				if r.Rng.Chance(1, 3) { // quotient near 2^64
					hi := new(big.Int).Rsh(new(big.Int).Mul(x, y), 64)
					d = clamp(k, hi.Add(hi, big.NewInt(int64(r.Rng.Range(-1, 2)))))
				}
				emit(r, "muldiv "+xs+" "+ys+" "+d.String())
				emit(r, "raw64 mul "+xs+" "+ys)
				p := new(big.Int).Mul(x, y)
				hiW, loW := new(big.Int).Rsh(p, 64), new(big.Int).And(p, kindOf("u64").max())
				emit(r, "raw64 div "+hiW.String()+" "+loW.String()+" "+d.String())
				emit(r, "raw64 div "+operand(r.Rng, k).String()+" "+operand(r.Rng, k).String()+" "+operand(r.Rng, k).String())
			}
			if k.name == "i64" {
				emit(r, "muli64 "+xs+" "+ys)
			}
		}
	}
	r.Finish()
}
