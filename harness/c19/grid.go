// Systematic boundary grid (oracle only, no Lean involved): the search for a failing input does not depend on
// the random sampler hitting a particular operand pair.  For every instantiated type the grid G contains every
// in-range value of the forms  ±2^k+d (k = 0..bits, d = -2..2),  min+d,  max-d,  ±isqrt(2^bits)+d,
// ±isqrt(2^(bits-1))+d;  evaluated are ALL pairs of G x G (plus, for every y, the x next to max/y and min/y) for
// SafeAdd/Sub/Mul/Div, all of G x all 256 shift counts, G64 x G64 for SafeMulUint64 / SafeMulInt64 and, for
// Safe64MulDiv, G x G x {0, 1, 2, hi-1, hi, hi+1, lo, 2^32, 2^63, max-1, max} with hi/lo the words of the product.
// The answers are compared with math/big.  The first failing inputs of every (function, type, class) are then
// re-run as ordinary request lines (a case of their own), so that they are reported with a replay and also go
// through the Lean differential.
package main

import (
	"errors"
	"math/big"
	"sort"
	"sync"

	"github.com/iotaledger/hive.go/core/safemath"
)

type gridHit struct {
	group string // function/type/class
	line  string
}

func gridValues(k kind) []*big.Int {
	seen := map[string]bool{}
	var out []*big.Int
	add := func(z *big.Int) {
		if !k.inRange(z) || seen[z.String()] {
			return
		}
		seen[z.String()] = true
		out = append(out, new(big.Int).Set(z))
	}
	around := func(z *big.Int, w int64) {
		for d := -w; d <= w; d++ {
			p := new(big.Int).Add(z, big.NewInt(d))
			add(p)
			add(new(big.Int).Neg(p))
		}
	}
	for e := uint(0); e <= k.bits; e++ {
		around(new(big.Int).Lsh(big.NewInt(1), e), 2)
	}
	around(k.min(), 3)
	around(k.max(), 3)
	around(new(big.Int).Sqrt(new(big.Int).Lsh(big.NewInt(1), k.bits)), 2)
	around(new(big.Int).Sqrt(new(big.Int).Lsh(big.NewInt(1), k.bits-1)), 2)
	around(big.NewInt(0), 3)
	sort.Slice(out, func(i, j int) bool { return out[i].Cmp(out[j]) < 0 })

	return out
}

func errClass(err error) string {
	ov, dz := errors.Is(err, safemath.ErrIntegerOverflow), errors.Is(err, safemath.ErrIntegerDivisionByZero)
	switch {
	case err == nil:
		return "ok"
	case ov && dz:
		return "err-both"
	case ov:
		return "overflow"
	case dz:
		return "divzero"
	}

	return "err"
}

func toBig[T safemath.Integer](dst *big.Int, v T, signed bool) *big.Int {
	if signed {
		return dst.SetInt64(int64(v))
	}

	return dst.SetUint64(uint64(v))
}

const gridWorkers = 8

// gridGeneric evaluates the five generic functions at type T over the grid of kind k.
func gridGeneric[T safemath.Integer](k kind) (hits []gridHit, evals int64) {
	g := gridValues(k)
	gt := make([]T, len(g))
	for i, z := range g {
		gt[i] = conv[T](z)
	}
	lo, hi := k.min(), k.max()
	var mu sync.Mutex
	var wg sync.WaitGroup
	for w := 0; w < gridWorkers; w++ {
		wg.Add(1)
		go func(w int) {
			defer wg.Done()
			var my []gridHit
			var n int64
			z, gotB := new(big.Int), new(big.Int)
			sl := newSlot()
			prefix := map[string]string{}
			for _, op := range []string{"add", "sub", "mul", "div", "shl"} {
				prefix[op] = "safe " + op + " " + k.name
			}
			check := func(op string, x, y *big.Int, call func() (T, error), exact *big.Int, dz bool) {
				n++
				var v T
				var err error
				got := ""
				func() {
					defer func() {
						if e := recover(); e != nil {
							got = "panic"
						}
					}()
					sl.enter(&callDesc{prefix: prefix[op], x: x, y: y})
					v, err = call()
					sl.leave()
				}()
				if got == "" {
					got = errClass(err)
				}
				want := "ok"
				if dz {
					want = "divzero"
				} else if exact.Cmp(lo) < 0 || exact.Cmp(hi) > 0 {
					want = "overflow"
				}
				if got == want && (got != "ok" || toBig(gotB, v, k.signed).Cmp(exact) == 0) {
					return
				}
				cls := "wrapped-or-wrong-value"
				if want == "overflow" && got == "ok" {
					cls = "wrapped-value-returned"
				} else if want == "ok" && got == "overflow" {
					cls = "spurious-error"
				}
				my = append(my, gridHit{op + "/" + k.name + "/" + cls, "safe " + op + " " + k.name + " " + x.String() + " " + y.String()})
			}
			pair := func(x, y *big.Int) {
				a, b := conv[T](x), conv[T](y)
				check("add", x, y, func() (T, error) { return safemath.SafeAdd(a, b) }, z.Add(x, y), false)
				check("sub", x, y, func() (T, error) { return safemath.SafeSub(a, b) }, z.Sub(x, y), false)
				check("mul", x, y, func() (T, error) { return safemath.SafeMul(a, b) }, z.Mul(x, y), false)
				if y.Sign() == 0 {
					check("div", x, y, func() (T, error) { return safemath.SafeDiv(a, b) }, z.SetInt64(0), true)
				} else {
					check("div", x, y, func() (T, error) { return safemath.SafeDiv(a, b) }, z.Quo(x, y), false)
				}
			}
			q := new(big.Int)
			for i := w; i < len(g); i += gridWorkers {
				x := g[i]
				for _, y := range g {
					pair(x, y)
				}
				// here x plays the role of the second operand: first operands next to max/x and min/x
				if x.Sign() != 0 {
					for _, lim := range []*big.Int{hi, lo} {
						for d := int64(-1); d <= 1; d++ {
							q.Quo(lim, x)
							q.Add(q, big.NewInt(d))
							if k.inRange(q) {
								pair(new(big.Int).Set(q), x)
								pair(x, new(big.Int).Set(q))
							}
						}
					}
				}
				a := gt[i]
				for sh := 0; sh <= 255; sh++ {
					s8 := uint8(sh)
					check("shl", x, big.NewInt(int64(sh)), func() (T, error) { return safemath.SafeLeftShift(a, s8) }, z.Lsh(x, uint(sh)), false)
				}
			}
			mu.Lock()
			hits = append(hits, my...)
			evals += n
			mu.Unlock()
		}(w)
	}
	wg.Wait()

	return hits, evals
}

// grid64 evaluates SafeMulUint64, SafeMulInt64 and Safe64MulDiv over the 64-bit grids.
func grid64() (hits []gridHit, evals int64) {
	ku, ki := kindOf("u64"), kindOf("i64")
	gu, gi := gridValues(ku), gridValues(ki)
	var mu sync.Mutex
	var wg sync.WaitGroup
	two32, two63 := new(big.Int).Lsh(big.NewInt(1), 32), new(big.Int).Lsh(big.NewInt(1), 63)
	mask := new(big.Int).Sub(new(big.Int).Lsh(big.NewInt(1), 64), big.NewInt(1))
	for w := 0; w < gridWorkers; w++ {
		wg.Add(1)
		go func(w int) {
			defer wg.Done()
			var my []gridHit
			var n int64
			z, p := new(big.Int), new(big.Int)
			sl := newSlot()
			judge := func(fn, line string, k kind, got string, v *big.Int, exact *big.Int, dz bool) {
				n++
				want := "ok"
				if dz {
					want = "divzero"
				} else if !k.inRange(exact) {
					want = "overflow"
				}
				if got == want && (got != "ok" || v.Cmp(exact) == 0) {
					return
				}
				my = append(my, gridHit{fn + "/" + got + "-instead-of-" + want, line})
			}
			for i := w; i < len(gu); i += gridWorkers {
				x := gu[i]
				for _, y := range gu {
					sl.enter(&callDesc{prefix: "mulu64", x: x, y: y})
					v, err := safemath.SafeMulUint64(x.Uint64(), y.Uint64())
					sl.leave()
					judge("SafeMulUint64", "mulu64 "+x.String()+" "+y.String(), ku, errClass(err), new(big.Int).SetUint64(v), z.Mul(x, y), false)
					p.Mul(x, y)
					hiW, loW := new(big.Int).Rsh(p, 64), new(big.Int).And(p, mask)
					ds := []*big.Int{big.NewInt(0), big.NewInt(1), big.NewInt(2), new(big.Int).Sub(hiW, big.NewInt(1)), hiW, new(big.Int).Add(hiW, big.NewInt(1)),
						loW, two32, two63, new(big.Int).Sub(mask, big.NewInt(1)), mask}
					for _, d := range ds {
						if !ku.inRange(d) {
							continue
						}
						var v uint64
						var err error
						got := ""
						func() {
							defer func() {
								if e := recover(); e != nil {
									got = "panic"
								}
							}()
							sl.enter(&callDesc{prefix: "muldiv", x: x, y: y, z: d})
							v, err = safemath.Safe64MulDiv(x.Uint64(), y.Uint64(), d.Uint64())
							sl.leave()
						}()
						if got == "" {
							got = errClass(err)
						}
						line := "muldiv " + x.String() + " " + y.String() + " " + d.String()
						if d.Sign() == 0 {
							judge("Safe64MulDiv", line, ku, got, new(big.Int).SetUint64(v), z.SetInt64(0), true)
						} else {
							judge("Safe64MulDiv", line, ku, got, new(big.Int).SetUint64(v), z.Quo(p, d), false)
						}
					}
				}
			}
			for i := w; i < len(gi); i += gridWorkers {
				x := gi[i]
				for _, y := range gi {
					sl.enter(&callDesc{prefix: "muli64", x: x, y: y})
					v, err := safemath.SafeMulInt64(x.Int64(), y.Int64())
					sl.leave()
					judge("SafeMulInt64", "muli64 "+x.String()+" "+y.String(), ki, errClass(err), big.NewInt(v), z.Mul(x, y), false)
				}
			}
			mu.Lock()
			hits = append(hits, my...)
			evals += n
			mu.Unlock()
		}(w)
	}
	wg.Wait()

	return hits, evals
}

// gridAll runs the whole grid and returns, per (function, type, class) group, the first few failing request lines
// (sorted, hence deterministic).
func gridAll() (lines []string, evals int64, nHits int) {
	var all []gridHit
	collect := func(h []gridHit, n int64) {
		all = append(all, h...)
		evals += n
	}
	collect(gridGeneric[uint8](kindOf("u8")))
	collect(gridGeneric[int8](kindOf("i8")))
	collect(gridGeneric[uint16](kindOf("u16")))
	collect(gridGeneric[int16](kindOf("i16")))
	collect(gridGeneric[uint32](kindOf("u32")))
	collect(gridGeneric[int32](kindOf("i32")))
	collect(gridGeneric[uint64](kindOf("u64")))
	collect(gridGeneric[int64](kindOf("i64")))
	collect(gridGeneric[dU8](kindOf("du8")))
	collect(gridGeneric[dI8](kindOf("di8")))
	collect(gridGeneric[dU16](kindOf("du16")))
	collect(gridGeneric[dI16](kindOf("di16")))
	collect(gridGeneric[dU32](kindOf("du32")))
	collect(gridGeneric[dI32](kindOf("di32")))
	collect(gridGeneric[dU64](kindOf("du64")))
	collect(gridGeneric[dI64](kindOf("di64")))
	collect(grid64())
	sort.Slice(all, func(i, j int) bool {
		if all[i].group != all[j].group {
			return all[i].group < all[j].group
		}
		if len(all[i].line) != len(all[j].line) {
			return len(all[i].line) < len(all[j].line) // shortest operands first: the smallest failing input leads
		}

		return all[i].line < all[j].line
	})
	per := map[string]int{}
	for _, h := range all {
		per[h.group]++
		if per[h.group] <= 3 && len(lines) < 600 {
			lines = append(lines, h.line)
		}
	}

	return lines, evals, len(all)
}
