// Boundary enumeration shared with the Lean driver (Hive/Model/SafeMathSearch.lean): the same values in the same order
// are evaluated there over the definitions regenerated from safe_math.go against the Lean specification and here over
// the real functions against math/big; both sides answer `none <evaluations>` or
// `cex <count> <operands of the first counterexample> got <answer> want <exact answer>`.
package main

import (
	"fmt"
	"math/big"
	"strconv"
	"strings"
	"sync"

	"verifharness/hx"

	"github.com/iotaledger/hive.go/core/safemath"
)

func boundary(k kind) []*big.Int {
	cand := []*big.Int{k.min(), k.max(), big.NewInt(0)}
	for j := uint(0); j <= k.bits; j++ {
		p := new(big.Int).Lsh(big.NewInt(1), j)
		for d := int64(-1); d <= 1; d++ {
			cand = append(cand, new(big.Int).Add(p, big.NewInt(d)), new(big.Int).Add(new(big.Int).Neg(p), big.NewInt(d)))
		}
	}
	seen := map[string]bool{}
	var out []*big.Int
	for _, z := range cand {
		if !k.inRange(z) || seen[z.String()] {
			continue
		}
		seen[z.String()] = true
		out = append(out, z)
	}

	return out
}

func extraNear(k kind, x *big.Int) []*big.Int {
	if x.Sign() == 0 {
		return nil
	}
	var out []*big.Int
	for d := int64(-1); d <= 1; d++ {
		for _, lim := range []*big.Int{k.max(), k.min()} {
			z := new(big.Int).Quo(lim, x)
			z.Add(z, big.NewInt(d))
			if k.inRange(z) {
				out = append(out, z)
			}
		}
	}

	return out
}

type searchAcc struct {
	evals, count int
	first, line  string
}

func (a *searchAcc) note(got, want string, args func() (string, string)) {
	a.evals++
	if got == want {
		return
	}
	a.count++
	if a.first == "" {
		var s string
		s, a.line = args()
		a.first = s + " got " + got + " want " + want
	}
}

func (a *searchAcc) render() string {
	if a.first == "" {
		return "none " + strconv.Itoa(a.evals)
	}

	return fmt.Sprintf("cex %d %s", a.count, a.first)
}

var searchCache sync.Map // request line -> [2]string{answer, request line of the first counterexample}

// searchAnswer runs the enumeration for one function at one type.
func searchAnswer(fn, kn string) (string, string) {
	key := "search " + fn + " " + kn
	if v, ok := searchCache.Load(key); ok {
		p := v.([2]string)

		return p[0], p[1]
	}
	ans, line := searchCompute(fn, kn)
	searchCache.Store(key, [2]string{ans, line})

	return ans, line
}

func searchCompute(fn, kn string) (ans string, line string) {
	defer func() {
		if e := recover(); e != nil {
			ans, line = "bad-op", ""
		}
	}()
	k := kindOf(kn)
	var a searchAcc
	sl := newSlot()
	guarded := func(d *callDesc, f func() string) string {
		sl.enter(d)
		defer sl.leave()

		return f()
	}
	switch fn {
	case "add", "sub", "mul", "div":
		b := boundary(k)
		for _, x := range b {
			for _, y := range append(append([]*big.Int(nil), b...), extraNear(k, x)...) {
				a.note(guarded(&callDesc{prefix: "safe " + fn + " " + kn, x: x, y: y}, func() string { return dispatch("safe", kn, fn, x, y) }), expected(k, fn, x, y), func() (string, string) {
					return x.String() + " " + y.String(), "safe " + fn + " " + kn + " " + x.String() + " " + y.String()
				})
			}
		}
	case "shl":
		for _, v := range boundary(k) {
			for n := int64(0); n <= 255; n++ {
				nb := big.NewInt(n)
				a.note(guarded(&callDesc{prefix: "safe shl " + kn, x: v, y: nb}, func() string { return dispatch("safe", kn, "shl", v, nb) }), expected(k, "shl", v, nb), func() (string, string) {
					return v.String() + " " + nb.String(), "safe shl " + kn + " " + v.String() + " " + nb.String()
				})
			}
		}
	case "mulu64", "muli64":
		k = kindOf(map[string]string{"mulu64": "u64", "muli64": "i64"}[fn])
		b := boundary(k)
		for _, x := range b {
			for _, y := range append(append([]*big.Int(nil), b...), extraNear(k, x)...) {
				got := guarded(&callDesc{prefix: fn, x: x, y: y}, func() string {
					if fn == "mulu64" {
						return res(safemath.SafeMulUint64(x.Uint64(), y.Uint64()))
					}

					return res(safemath.SafeMulInt64(x.Int64(), y.Int64()))
				})
				a.note(got, expected(k, "mul", x, y), func() (string, string) {
					return x.String() + " " + y.String(), fn + " " + x.String() + " " + y.String()
				})
			}
		}
	case "muldiv":
		k = kindOf("u64")
		b := boundary(k)
		for _, x := range b {
			for _, y := range b {
				p := new(big.Int).Mul(x, y)
				hi := new(big.Int).Rsh(p, 64)
				for _, d := range []*big.Int{big.NewInt(0), big.NewInt(1), big.NewInt(2), new(big.Int).Sub(hi, big.NewInt(1)), hi, new(big.Int).Add(hi, big.NewInt(1)), k.max()} {
					if !k.inRange(d) {
						continue
					}
					got := guarded(&callDesc{prefix: "muldiv", x: x, y: y, z: d}, func() string {
						out := "panic"
						hx.Safely(func() { out = res(safemath.Safe64MulDiv(x.Uint64(), y.Uint64(), d.Uint64())) })

						return out
					})
					want := "divzero"
					if d.Sign() != 0 {
						if z := new(big.Int).Quo(p, d); k.inRange(z) {
							want = "ok " + z.String()
						} else {
							want = "overflow"
						}
					}
					a.note(got, want, func() (string, string) {
						s := x.String() + " " + y.String() + " " + d.String()

						return s, "muldiv " + s
					})
				}
			}
		}
	default:
		return "bad-op", ""
	}

	return a.render(), a.line
}

// searchAll emits one `search` request per function and predeclared type (answers computed concurrently); the first
// counterexample of a search is re-run as a request line of its own, which makes it an oracle failure with operands.
func searchAll(r *hx.Run) {
	var lines []string
	for _, fn := range []string{"add", "sub", "mul", "div", "shl"} {
		for _, k := range kinds {
			lines = append(lines, "search "+fn+" "+k.name)
		}
	}
	// defined types (narrowest and widest): a type switch over the predeclared types sends them down another path
	for _, fn := range []string{"add", "sub", "mul", "div", "shl"} {
		for _, kn := range []string{"du8", "di8", "du64", "di64"} {
			lines = append(lines, "search "+fn+" "+kn)
		}
	}
	lines = append(lines, "search mulu64 u64", "search muli64 i64", "search muldiv u64")
	var wg sync.WaitGroup
	sem := make(chan struct{}, 8)
	for _, l := range lines {
		wg.Add(1)
		go func(l string) {
			defer wg.Done()
			sem <- struct{}{}
			defer func() { <-sem }()
			f := strings.Fields(l)
			searchAnswer(f[1], f[2])
		}(l)
	}
	wg.Wait()
	r.Case(2)
	evals := 0
	for _, l := range lines {
		emit(r, l)
		f := strings.Fields(l)
		ans, first := searchAnswer(f[1], f[2])
		if strings.HasPrefix(ans, "none ") {
			n, _ := strconv.Atoi(strings.TrimPrefix(ans, "none "))
			evals += n
		} else if first != "" {
			emit(r, first)
		}
	}
	r.Extra["search_shared_with_model_evaluations"] = evals
}
