// Translator corpus (C19): small functions written in the parts of the translator subset that safe_math.go itself does not
// use (helpers with type arguments, tuple results, switch, for loops, constants, math/bits, narrower intermediate types,
// error helpers, named results, parallel assignment).  They are NOT code under test: harness/tools/translate-safemath
// translates this file into Hive/Gen/C19_TrCorpus.lean on every run and the differential run compares the Lean
// definitions with the execution of these functions (`corpus NAME KIND x y` lines), which validates the translator and
// the operator semantics of Hive/Model/SafeMathOps.lean on the constructs that regenerated models of changed trees rely on.
package main

import (
	"math/bits"
	"unsafe"

	"github.com/iotaledger/hive.go/core/safemath"
	"github.com/iotaledger/hive.go/ierrors"
)

const tcMaxShift = 63

const tcStep uint8 = 3

func tcOverflow(op string, x, y any) error {
	return ierrors.WithMessagef(safemath.ErrIntegerOverflow, "%d %s %d", x, op, y)
}

func tcDivZero(x any) error {
	return ierrors.WithMessagef(safemath.ErrIntegerDivisionByZero, "%d / 0", x)
}

// helpers with explicit / inferred type arguments, zero parameters, narrower result types
func tcValueBits[T safemath.Integer]() uint8 {
	var zero T

	n := uint8(unsafe.Sizeof(zero)) * 8
	if ^zero < 0 {
		n--
	}

	return n
}

func tcMaxValue[I safemath.Integer]() I {
	max := ^I(0)
	if max < 0 {
		max = ^(I(1) << (unsafe.Sizeof(max)*8 - 1))
	}

	return max
}

func tcBitLen[T safemath.Integer](v T) uint8 {
	return uint8(bits.Len64(uint64(v)))
}

func tcAddWrapped[T safemath.Integer](x, y T) (T, bool) {
	sum := x + y
	if y > 0 {
		return sum, sum < x
	}

	return sum, sum > x
}

func tcIsNeg[T safemath.Integer](v T) bool {
	return v < 0
}

// uint8 arithmetic inside a generic function, helper calls, constants
func tcNarrow[T safemath.Integer](x, y T) (T, error) {
	if x <= 0 {
		return 0, tcDivZero(x)
	}
	shift := uint8(y)
	if shift > tcMaxShift {
		shift -= tcMaxShift
	}
	if tcBitLen(x)+shift*tcStep > tcValueBits[T]() {
		return 0, tcOverflow("<<", x, y)
	}

	return x << shift, nil
}

// tuple helper, parallel assignment (swap), min / max
func tcTuple[T safemath.Integer](x, y T) (T, error) {
	a, b := x, y
	if a < b {
		a, b = b, a
	}
	sum, overflowed := tcAddWrapped(a, b)
	if overflowed {
		return 0, tcOverflow("+", x, y)
	}
	lo, _ := tcAddWrapped(min(a, b, sum), 1)
	if lo == 0 {
		return max(a, b), nil
	}

	return sum - b + min(x, y), nil
}

// switch with and without tag, default, nested block, local const, var declarations
func tcSwitch[T safemath.Integer](x, y T) (T, error) {
	const bias = 2
	var acc T
	var flag bool
	var k = 5
	switch {
	case x == 0 && y == 0:
		return 0, tcDivZero(x)
	case tcIsNeg(x):
		acc = -x
		flag = true
	case x > tcMaxValue[T]()/2:
		acc = x / bias
	default:
		acc = x + bias
	}
	switch y & 3 {
	case 0, 1:
		{
			tmp := acc ^ y
			acc = tmp
		}
	case 2:
		acc |= y
	default:
		if flag {
			return 0, tcOverflow("sw", x, y)
		}
		acc &^= y
	}
	k += int(uint8(acc))

	return acc + T(k), nil
}

// for init; cond; post with continue, break and return inside; string local
func tcLoopShift[T safemath.Integer](x, y T) (T, error) {
	op := "<<"
	n := uint8(y) & 15
	result := x
	for i := uint8(0); i < n; i++ {
		if result == 0 {
			break
		}
		if i == 2 {
			continue
		}
		doubled := result * 2
		if doubled/2 != result {
			return 0, tcOverflow(op, x, y)
		}
		result = doubled
	}

	return result, nil
}

// `for {}` with break, calls of (T, error) functions with error propagation, named results
func tcLoopMul[T safemath.Integer](x, y T) (product T, err error) {
	if x <= 0 || y <= 0 {
		return 0, nil
	}
	addend, rest := x, y
	for {
		if rest&1 == 1 {
			sum, addErr := safeAddCopy(product, addend)
			if addErr != nil {
				return 0, addErr
			}
			product = sum
		}
		rest >>= 1
		if rest == 0 {
			break
		}
		doubled, dblErr := safeAddCopy(addend, addend)
		if dblErr != nil {
			return 0, tcOverflow("*", x, y)
		}
		addend = doubled
	}

	return product, nil
}

func safeAddCopy[T safemath.Integer](x T, y T) (T, error) {
	result := x + y
	if y > 0 {
		if result < x {
			return 0, tcOverflow("+", x, y)
		}
	} else if result > x {
		return 0, tcOverflow("+", x, y)
	}

	return result, nil
}

// `for cond` and nested loops, counting bits by hand, math/bits on the unsigned image
func tcBits[T safemath.Integer](x, y T) (T, error) {
	ux := uint64(x)
	count := 0
	for v := ux; v != 0; v >>= 1 {
		count++
	}
	if count != bits.Len64(ux) {
		return 0, tcOverflow("len", x, y)
	}
	total := 0
	for i := 0; i < 3; i++ {
		for j := 0; j <= i; j++ {
			if j == 2 {
				break
			}
			total += i*j + 1
		}
	}
	lz, tz := bits.LeadingZeros64(ux), bits.TrailingZeros64(uint64(y))
	if tz > lz {
		return 0, tcDivZero(y)
	}

	return T(lz*100 + tz + total + bits.Len8(uint8(y)) + bits.TrailingZeros16(uint16(x)) + bits.LeadingZeros32(uint32(y))), nil
}

// type switch over the type parameter: bound variable, type assertion, multi-type case, error passed on with a converted
// value, default path (the only one a defined type such as `type dU8 uint8` takes)
func tcTypeSwitch[T safemath.Integer](x, y T) (T, error) {
	switch v := any(x).(type) {
	case uint8:
		w := v + any(y).(uint8)
		if w < v {
			return 0, tcOverflow("+8", x, y)
		}

		return T(w), nil
	case int64, int32:
		if y == 0 {
			return 0, tcDivZero(x)
		}

		return x / y, nil
	case uint64:
		r, err := safeAddCopy(v, uint64(y))

		return T(r), err
	}
	sum, overflowed := tcAddWrapped(x, y)
	if overflowed {
		return 0, tcOverflow("+", x, y)
	}

	return sum - 1, nil
}

// a generic caller of a function with a type switch
func tcViaSwitch[T safemath.Integer](x, y T) (T, error) {
	r, err := tcTypeSwitch(y, x)
	if err != nil {
		return 0, err
	}

	return r ^ x, nil
}

// non-generic caller of generic functions, bits.Add64 / Sub64 / Mul64, uintptr and int arithmetic
func tcWide(x, y uint64) (uint64, error) {
	sum, carry := bits.Add64(x, y, 0)
	diff, borrow := bits.Sub64(x, y, carry)
	if carry == 1 && borrow == 1 {
		return 0, tcOverflow("+-", x, y)
	}
	hi, lo := bits.Mul64(sum, diff|1)
	if hi > uint64(bits.UintSize) {
		v, err := safeAddCopy(lo, hi)
		if err != nil {
			return 0, err
		}

		return v, nil
	}
	w, err := safeAddCopy[uint64](lo, uint64(tcBitLen(hi)))
	if err != nil {
		return 0, tcOverflow("w", x, y)
	}

	return w + uint64(unsafe.Sizeof(x)), nil
}
