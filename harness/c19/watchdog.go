// Watchdog for calls of the code under test that never return (a loop whose uint8 counter wraps, …): "returns the exact
// result or the error" also means that the function returns.  Every call site announces the call in a slot (two atomic
// operations and one small allocation); a background goroutine looks at the slots every two seconds and, when one and the
// same call has been in flight for 45 consecutive looks (≥ 90 s of this process running - a call normally takes well under a
// microsecond, so that a loaded machine cannot trigger it), records the operands as an oracle failure with a replayable
// request line and ends the process (the hanging goroutine cannot be stopped).  checklib picks the streamed finding up.
package main

import (
	"fmt"
	"math/big"
	"os"
	"strconv"
	"sync"
	"sync/atomic"
	"time"

	"verifharness/hx"
)

type callDesc struct {
	prefix  string // request line up to the operands ("safe add u8", "mulu64", or a complete line)
	x, y, z *big.Int
	xi      int64 // operand of a row of the 16-bit sweep (ints = true)
	ints    bool
}

func (d *callDesc) line() string {
	if d == nil {
		return "?"
	}
	s := d.prefix
	if d.ints {
		return fmt.Sprintf("%s %d 0", s, d.xi)
	}
	for _, v := range []*big.Int{d.x, d.y, d.z} {
		if v != nil {
			s += " " + v.String()
		}
	}

	return s
}

type slot struct {
	seq atomic.Int64 // odd while a call is in flight
	d   atomic.Pointer[callDesc]
}

var (
	slotMu sync.Mutex
	slots  []*slot
)

func newSlot() *slot {
	s := &slot{}
	slotMu.Lock()
	slots = append(slots, s)
	slotMu.Unlock()

	return s
}

func (s *slot) enter(d *callDesc) {
	s.d.Store(d)
	s.seq.Add(1)
}

func (s *slot) leave() { s.seq.Add(1) }

// watchdogLooks can be lowered through VERIF_C19_WATCHDOG_LOOKS when trying the watchdog on a tree with a known endless loop.
var watchdogLooks = func() int {
	if n, err := strconv.Atoi(os.Getenv("VERIF_C19_WATCHDOG_LOOKS")); err == nil && n >= 3 {
		return n
	}

	return 45
}()

func startWatchdog(r *hx.Run) {
	go func() {
		last := map[*slot]int64{}
		stuck := map[*slot]int{}
		for {
			time.Sleep(2 * time.Second)
			slotMu.Lock()
			cur := append([]*slot(nil), slots...)
			slotMu.Unlock()
			for _, s := range cur {
				q := s.seq.Load()
				if q%2 == 1 && last[s] == q {
					stuck[s]++
				} else {
					stuck[s] = 0
				}
				last[s] = q
				if stuck[s] >= watchdogLooks {
					line := s.d.Load().line()
					r.Case(424242)
					r.Line(line, "no-return")
					r.Fail("returns", fmt.Sprintf("the call of request `%s` has not returned after %d s", line, 2*watchdogLooks),
						map[string]string{"request": line, "class": "no-return"})
					fmt.Fprintf(os.Stderr, "c19 harness: `%s` does not return; giving up\n", line)
					time.Sleep(200 * time.Millisecond)
					os.Exit(4)
				}
			}
		}
	}()
}
