package main

import (
	"fmt"
	"math"
	"math/big"

	"verifharness/hx"
)

// gen draws a schema and values for it.  A small share of the schemas carries a shape the map form cannot
// express (duplicate keys, non-string map keys, typed byte arrays by value ...): the model must agree with the
// implementation on those too, and the harness's own `inexpressible` says why the round trip is not expected.
type gen struct {
	rng      *hx.Rng
	ctr      int
	maxDepth int
	tb       map[int]*S // typed bytes configuration per pool length (-1: typed slice)
	ifaces   int
	wide     bool // use object codes >= 256 (registered as uint32)
	odd      bool // allow inexpressible shapes in this case
}

func (g *gen) code() int {
	if g.wide {
		return 256 + g.rng.Intn(70000)
	}

	return g.rng.Intn(40)
}

func (g *gen) key(existing []string) string {
	g.ctr++
	if g.odd && len(existing) > 0 && g.rng.Chance(1, 6) {
		return hx.Pick(g.rng, existing)
	}
	if g.odd && g.rng.Chance(1, 25) {
		return "type"
	}
	switch g.rng.Intn(10) {
	case 0:
		return fmt.Sprintf("nodeId%d", g.ctr)
	case 1:
		return fmt.Sprintf("url%dHrp", g.ctr)
	case 2:
		return fmt.Sprintf("k-%d", g.ctr)
	case 3:
		return fmt.Sprintf("ключ %d<&>", g.ctr)
	case 4:
		return fmt.Sprintf("Data%d", g.ctr)
	case 5:
		return fmt.Sprintf("nftId%dx", g.ctr)
	default:
		return fmt.Sprintf("f%d", g.ctr)
	}
}

func (g *gen) bounds(s *S) {
	if g.rng.Chance(1, 4) {
		if g.rng.Bool() {
			s.Min = g.rng.Range(1, 2)
		}
		if g.rng.Bool() {
			s.Max = g.rng.Range(2, 4)
		}
	}
}

func mk(k string) *S { return &S{K: k, N: -1, Code: -1} }

func (g *gen) typedBytes(p bool) *S {
	n := hx.Pick(g.rng, typedLens)
	if !p && g.rng.Chance(1, 3) {
		n = -1
	}
	if old, ok := g.tb[n]; ok {
		c := *old
		c.P, c.rt = p, nil

		return &c
	}
	s := mk("tb")
	s.N, s.P, s.Code = n, p, g.code()
	switch g.rng.Intn(4) {
	case 0:
		s.Key = "data"
	case 1:
		s.Key = fmt.Sprintf("pubKey%d", g.ctr)
	default:
		s.Key = hx.Pick(g.rng, []string{"address", "id", "blockId", "x y"})
	}
	if g.odd && g.rng.Chance(1, 15) {
		s.Key = "type"
	}
	g.tb[n] = s

	return s
}

func (g *gen) leaf() *S {
	switch x := g.rng.Intn(100); {
	case x < 8:
		return mk("bool")
	case x < 36:
		s := mk("u")
		if g.rng.Bool() {
			s.K = "i"
		}
		s.W = hx.Pick(g.rng, []int{8, 16, 32, 64, 64})

		return s
	case x < 44:
		s := mk("f")
		s.W = hx.Pick(g.rng, []int{32, 64})

		return s
	case x < 58:
		return mk("str")
	case x < 68:
		return mk("bytes")
	case x < 76:
		s := mk("barr")
		s.N = g.rng.Intn(6)
		if g.rng.Chance(1, 8) {
			s.N = 32
		}
		s.P = g.rng.Chance(1, 4)

		return s
	case x < 84:
		return g.typedBytes(g.rng.Chance(3, 5))
	case x < 92:
		return mk("u256")
	default:
		return mk("time")
	}
}

func (g *gen) structS(depth int, code bool) *S {
	s := mk("struct")
	if code {
		s.Code = g.code()
	}
	s.Fields = g.fields(depth, g.rng.Intn(6))

	return s
}

func (g *gen) fields(depth int, n int) []*F {
	var fs []*F
	var keys []string
	for i := 0; i < n; i++ {
		x := g.rng.Intn(100)
		switch {
		case x < 9 && depth < g.maxDepth:
			sub := mk("struct")
			sub.Fields = g.fields(depth+1, g.rng.Intn(4))
			fs = append(fs, &F{Mode: "emb", P: g.rng.Chance(2, 5), T: sub})
			keys = append(keys, allKeys(sub.Fields)...)
		case x < 16 && depth < g.maxDepth:
			sub := g.structS(depth+1, g.rng.Chance(1, 4))
			if len(sub.Fields) > 3 {
				sub.Fields = sub.Fields[:3]
			}
			fs = append(fs, &F{Mode: "inl", T: sub})
			keys = append(keys, allKeys(sub.Fields)...)
		default:
			f := &F{Mode: "fld", T: g.typ(depth + 1), Omit: g.rng.Chance(3, 10)}
			f.Key = g.key(keys)
			if f.T.nilable() && g.rng.Chance(2, 5) {
				f.Opt = true
			}
			switch f.T.K {
			case "str", "bytes", "slice", "map":
				g.bounds(f.T)
			}
			keys = append(keys, f.Key)
			fs = append(fs, f)
		}
	}

	return fs
}

func (g *gen) typ(depth int) *S {
	if depth >= g.maxDepth || g.rng.Chance(11, 20) {
		return g.leaf()
	}
	elem := func() *S {
		e := g.typ(depth + 1)
		if e.K == "u" && e.W == 8 {
			e.W = 16 // []uint8 / [n]uint8 are the byte kinds
		}

		return e
	}
	switch x := g.rng.Intn(100); {
	case x < 22:
		s := mk("slice")
		s.E = elem()

		return s
	case x < 32:
		s := mk("arr")
		s.N, s.E = g.rng.Intn(4), elem()

		return s
	case x < 48:
		s := mk("map")
		switch g.rng.Intn(6) {
		case 0:
			s.KT = &S{K: "u", W: 64, N: -1, Code: -1}
		case 1:
			s.KT = &S{K: "i", W: 64, N: -1, Code: -1}
		case 2:
			s.KT = &S{K: "barr", N: g.rng.Range(1, 3), Code: -1}
		default:
			s.KT = mk("str")
		}
		if g.odd && g.rng.Chance(1, 4) {
			s.KT = hx.Pick(g.rng, []*S{{K: "u", W: 32, N: -1, Code: -1}, {K: "bool", N: -1, Code: -1}, {K: "i", W: 8, N: -1, Code: -1}})
		}
		s.E = g.typ(depth + 1)

		return s
	case x < 66:
		return g.structS(depth, g.rng.Chance(3, 10))
	case x < 80:
		s := mk("ptr")
		switch g.rng.Intn(5) {
		case 0:
			s.E = mk("time")
		case 1:
			s.E = mk("arr")
			s.E.N, s.E.E = g.rng.Intn(4), elem()
		default:
			s.E = g.structS(depth, g.rng.Chance(3, 10))
		}
		if g.odd && g.rng.Chance(1, 6) {
			s.E = hx.Pick(g.rng, []*S{{K: "u", W: 32, N: -1, Code: -1}, {K: "str", N: -1, Code: -1}})
		}

		return s
	default:
		if g.ifaces >= len(ifaceTypes) {
			return g.leaf()
		}
		g.ifaces++
		s := mk("iface")
		n := g.rng.Range(1, 3)
		used := map[int]bool{}
		for i := 0; i < n; i++ {
			var t *S
			switch y := g.rng.Intn(10); {
			case y < 6:
				t = mk("ptr")
				t.E = g.structS(depth+1, true)
			case y < 8:
				t = g.structS(depth+1, true)
			default:
				t = g.typedBytes(g.rng.Chance(3, 5))
				if t.N < 0 && t.P {
					continue
				}
			}
			c := t.Code
			if t.K == "ptr" {
				c = t.E.Code
			}
			for used[c] && t.K != "tb" {
				c = g.code()
			}
			if used[c] {
				continue
			}
			used[c] = true
			if t.K == "ptr" {
				t.E.Code = c
			} else if t.K == "struct" {
				t.Code = c
			}
			s.Alts = append(s.Alts, &Alt{Code: c, T: t})
		}
		if len(s.Alts) == 0 {
			t := mk("ptr")
			t.E = g.structS(depth+1, true)
			s.Alts = append(s.Alts, &Alt{Code: t.E.Code, T: t})
		}

		return s
	}
}

// ---- values ----

func num(n int64) *V { return &V{K: "n", N: big.NewInt(n)} }

func (g *gen) str() string {
	n := g.rng.Intn(6)
	out := []rune{}
	for i := 0; i < n; i++ {
		switch g.rng.Intn(8) {
		case 0:
			out = append(out, hx.Pick(g.rng, []rune{'<', '>', '&', '"', '\\', '/', '\n', 0, 0x7f, 0x2028, 0x2029}))
		case 1:
			out = append(out, hx.Pick(g.rng, []rune{'é', 'ж', '€', 0xfffd, 0xffff, 0x1F600, 0x10FFFF}))
		default:
			out = append(out, rune('a'+g.rng.Intn(26)))
		}
	}

	return string(out)
}

func (g *gen) bytesN(n int) []byte {
	b := make([]byte, n)
	for i := range b {
		b[i] = byte(g.rng.U64())
		if g.rng.Chance(1, 5) {
			b[i] = 0
		}
	}

	return b
}

func (g *gen) intVal(w int, signed bool) *V {
	var v uint64
	switch g.rng.Intn(6) {
	case 0:
		v = 0
	case 1:
		v = math.MaxUint64
	case 2:
		v = 1 << (w - 1)
	case 3:
		v = (1 << (w - 1)) - 1
	case 4:
		v = uint64(g.rng.Intn(300))
	default:
		v = g.rng.U64()
	}
	if w < 64 {
		v &= (1 << w) - 1
	}
	if !signed {
		return &V{K: "n", N: new(big.Int).SetUint64(v)}
	}
	// reinterpret the low w bits as two's complement
	sv := int64(v<<(64-w)) >> (64 - w)

	return num(sv)
}

func (g *gen) floatBits(w int) uint64 {
	special64 := []uint64{0, 0x8000000000000000, 0x7ff0000000000000, 0xfff0000000000000, 0x7ff8000000000001, 0x7ff8000000000000,
		0x7ff0000000000001, 0xfff8000000000001, 1, 0x000fffffffffffff, 0x3fd51eb851eb851f, 0x3fdc28f5c28f5c29, 0x412e848000000000, 0x40f86a0000000000, 0x7fefffffffffffff}
	special32 := []uint64{0, 0x80000000, 0x7f800000, 0xff800000, 0x7fc00000, 0x7fc00001, 0x7f800001, 1, 0x007fffff, 0x3ea8f5c3, 0x49742400, 0x7f7fffff}
	if w == 32 {
		if g.rng.Chance(1, 3) {
			return hx.Pick(g.rng, special32)
		}

		return g.rng.U64() & 0xffffffff
	}
	if g.rng.Chance(1, 3) {
		return hx.Pick(g.rng, special64)
	}
	if g.rng.Bool() {
		return math.Float64bits(float64(g.rng.Intn(2000000)-1000000) / float64(hx.Pick(g.rng, []int{1, 10, 100, 1000, 3})))
	}

	return g.rng.U64()
}

// zeroish draws a value that `omitempty` may regard as empty.
func (g *gen) zeroish(s *S) *V {
	switch s.K {
	case "bool":
		return &V{K: "F"}
	case "u", "i":
		return num(0)
	case "f":
		if g.rng.Chance(1, 4) {
			return &V{K: "f", W: s.W, Bits: uint64(1) << (s.W - 1)} // -0 is not the zero value
		}

		return &V{K: "f", W: s.W}
	case "str":
		return &V{K: "s"}
	case "bytes", "slice":
		if g.rng.Bool() {
			return &V{K: "nil"}
		}
		if s.K == "bytes" {
			return &V{K: "x"}
		}

		return &V{K: "l", L: []*V{}}
	case "barr", "tb":
		if s.P {
			return &V{K: "nil"}
		}
		if s.N < 0 {
			if g.rng.Bool() {
				return &V{K: "nil"}
			}

			return &V{K: "x"}
		}

		return &V{K: "x", Bs: make([]byte, s.N)}
	case "u256", "ptr", "iface", "map":
		return &V{K: "nil"}
	case "time":
		return &V{K: "nil"}
	case "arr":
		v := &V{K: "l", L: []*V{}}
		for i := 0; i < s.N; i++ {
			v.L = append(v.L, g.zeroish(s.E))
		}

		return v
	case "struct":
		v := &V{K: "st", L: []*V{}}
		for _, f := range s.Fields {
			if f.Mode == "emb" && f.P {
				v.L = append(v.L, &V{K: "nil"})
			} else {
				v.L = append(v.L, g.zeroish(f.T))
			}
		}

		return v
	}
	panic("zeroish " + s.K)
}

func (g *gen) val(s *S, depth int) *V {
	switch s.K {
	case "bool":
		if g.rng.Bool() {
			return &V{K: "T"}
		}

		return &V{K: "F"}
	case "u":
		return g.intVal(s.W, false)
	case "i":
		return g.intVal(s.W, true)
	case "f":
		return &V{K: "f", W: s.W, Bits: g.floatBits(s.W)}
	case "str":
		return &V{K: "s", S: g.str()}
	case "bytes":
		if g.rng.Chance(1, 12) {
			return &V{K: "nil"}
		}

		return &V{K: "x", Bs: g.bytesN(g.rng.Intn(5))}
	case "barr", "tb":
		if s.P && g.rng.Chance(1, 25) {
			return &V{K: "nil"}
		}
		if s.N < 0 {
			if g.rng.Chance(1, 10) {
				return &V{K: "nil"}
			}

			return &V{K: "x", Bs: g.bytesN(g.rng.Intn(5))}
		}

		return &V{K: "x", Bs: g.bytesN(s.N)}
	case "u256":
		switch x := g.rng.Intn(100); {
		case x < 2:
			return &V{K: "nil"}
		case x < 5:
			return num(-int64(g.rng.Intn(1000)) - 1)
		case x < 8:
			return &V{K: "n", N: new(big.Int).Lsh(big.NewInt(int64(g.rng.Intn(5)+1)), 256)}
		case x < 20:
			return num(int64(g.rng.Intn(3)))
		case x < 26:
			return &V{K: "n", N: new(big.Int).Sub(new(big.Int).Lsh(big.NewInt(1), 256), big.NewInt(1))}
		default:
			n := new(big.Int)
			for i := g.rng.Intn(5); i >= 0; i-- {
				n.Lsh(n, 64).Or(n, new(big.Int).SetUint64(g.rng.U64()))
			}
			n.Rsh(n, uint(g.rng.Intn(64)))
			if n.BitLen() > 256 {
				n.Rsh(n, uint(n.BitLen()-256))
			}

			return &V{K: "n", N: n}
		}
	case "time":
		switch x := g.rng.Intn(100); {
		case x < 3:
			return &V{K: "nil"}
		case x < 7:
			return num(-int64(g.rng.U64()>>uint(1+g.rng.Intn(62))) - 1)
		case x < 12:
			return num(hx.Pick(g.rng, []int64{0, 1, math.MaxInt64, 1660301478120072000}))
		case x < 22:
			// far-away instants: around the end of the int64 nanosecond range (2262-04-11), the second
			// MaxNanoTimestampInt64Seconds, 2^64 ns, years 2300 / 9999 / 1 / -200, 2^62 seconds either side
			return &V{K: "n", N: farInstant(g.rng)}
		default:
			return num(int64(g.rng.U64() >> uint(1+g.rng.Intn(40))))
		}
	case "slice":
		n := g.rng.Intn(4)
		if depth > 3 {
			n = g.rng.Intn(2)
		}
		if n == 0 && g.rng.Chance(1, 3) {
			return &V{K: "nil"}
		}
		v := &V{K: "l", L: []*V{}}
		for i := 0; i < n; i++ {
			v.L = append(v.L, g.val(s.E, depth+1))
		}

		return v
	case "arr":
		if g.rng.Chance(1, 8) {
			return g.zeroish(s)
		}
		v := &V{K: "l", L: []*V{}}
		for i := 0; i < s.N; i++ {
			v.L = append(v.L, g.val(s.E, depth+1))
		}

		return v
	case "map":
		n := g.rng.Intn(4)
		if n == 0 && g.rng.Chance(1, 3) {
			return &V{K: "nil"}
		}
		v := &V{K: "m"}
		seen := map[string]bool{}
		for i := 0; i < n; i++ {
			k := g.val(s.KT, depth+1)
			if seen[k.Canon()] {
				continue
			}
			seen[k.Canon()] = true
			v.M = append(v.M, [2]*V{k, g.val(s.E, depth+1)})
		}

		return v
	case "struct":
		if g.rng.Chance(1, 12) {
			return g.zeroish(s)
		}
		v := &V{K: "st", L: []*V{}}
		for _, f := range s.Fields {
			switch {
			case f.Mode == "emb" && f.P:
				if g.rng.Chance(1, 20) {
					v.L = append(v.L, &V{K: "nil"})
				} else {
					v.L = append(v.L, &V{K: "some", X: g.val(f.T, depth+1)})
				}
			case f.Mode != "fld":
				v.L = append(v.L, g.val(f.T, depth+1))
			case f.Omit && g.rng.Chance(2, 5):
				v.L = append(v.L, g.zeroish(f.T))
			case (f.Opt || f.Omit) && f.T.nilable() && g.rng.Chance(2, 5):
				v.L = append(v.L, &V{K: "nil"})
			default:
				v.L = append(v.L, g.val(f.T, depth+1))
			}
		}

		return v
	case "ptr":
		if g.rng.Chance(1, 30) {
			return &V{K: "nil"}
		}

		return &V{K: "some", X: g.val(s.E, depth+1)}
	case "iface":
		if g.rng.Chance(1, 30) || len(s.Alts) == 0 {
			return &V{K: "nil"}
		}
		a := hx.Pick(g.rng, s.Alts)

		return &V{K: "if", Code: a.Code, X: g.val(a.T, depth+1)}
	}
	panic("val " + s.K)
}

// genCase draws a schema that the harness can realise and the request lines for it.
// richMapField adds a Go map whose element type is one where state carried over from one entry to the next would
// show: slices (append accumulates), pointers and nested maps (allocated only when nil), structs with optional /
// omitempty fields (a missing key leaves what was there), arrays, interfaces, byte slices.
func (g *gen) richMapField(depth int) *F {
	m := mk("map")
	switch g.rng.Intn(4) {
	case 0:
		m.KT = &S{K: "u", W: 64, N: -1, Code: -1}
	case 1:
		m.KT = &S{K: "barr", N: 2, Code: -1}
	default:
		m.KT = mk("str")
	}
	optStruct := func() *S {
		s := mk("struct")
		for i := g.rng.Range(2, 4); i > 0; i-- {
			f := &F{Mode: "fld", Key: g.key(nil), Omit: g.rng.Chance(2, 3)}
			switch g.rng.Intn(5) {
			case 0:
				f.T = mk("slice")
				f.T.E = &S{K: "u", W: 16, N: -1, Code: -1}
			case 1:
				f.T = mk("ptr")
				f.T.E = st(-1, &F{Mode: "fld", Key: g.key(nil), T: mk("str")})
				f.Opt = true
			case 2:
				f.T = mk("u256")
				f.Opt = g.rng.Bool()
			case 3:
				f.T = mk("str")
			default:
				f.T = &S{K: "i", W: 32, N: -1, Code: -1}
			}
			s.Fields = append(s.Fields, f)
		}

		return s
	}
	switch g.rng.Intn(8) {
	case 0:
		m.E = mk("slice")
		m.E.E = hx.Pick(g.rng, []*S{{K: "u", W: 16, N: -1, Code: -1}, {K: "str", N: -1, Code: -1}, {K: "bytes", N: -1, Code: -1}})
	case 1:
		m.E = mk("ptr")
		m.E.E = optStruct()
	case 2:
		m.E = mk("map")
		m.E.KT, m.E.E = mk("str"), hx.Pick(g.rng, []*S{{K: "u", W: 8, N: -1, Code: -1}, {K: "str", N: -1, Code: -1}})
		if g.rng.Bool() {
			m.E.E = mk("slice")
			m.E.E.E = &S{K: "i", W: 64, N: -1, Code: -1}
		}
	case 3:
		m.E = optStruct()
	case 4:
		m.E = mk("slice")
		m.E.E = optStruct()
	case 5:
		m.E = mk("arr")
		m.E.N, m.E.E = 2, mk("slice")
		m.E.E.E = &S{K: "u", W: 32, N: -1, Code: -1}
	case 6:
		m.E = mk("bytes")
	default:
		m.E = g.typ(depth + 1)
	}

	return &F{Mode: "fld", Key: g.key(nil), T: m, Omit: g.rng.Chance(1, 4)}
}

// richMapVal draws a map value with at least two entries of clearly different content (lengths, nil-ness,
// which optional fields are present).
func (g *gen) richMapVal(s *S) *V {
	v := &V{K: "m"}
	seen := map[string]bool{}
	for tries := 0; len(v.M) < g.rng.Range(2, 4) && tries < 20; tries++ {
		k := g.val(s.KT, 1)
		if seen[k.Canon()] {
			continue
		}
		seen[k.Canon()] = true
		var e *V
		if len(v.M)%2 == 1 && g.rng.Chance(2, 3) {
			e = g.zeroish(s.E)
			if valueInexpressible(s.E, e) != "" && !isSoft(valueInexpressible(s.E, e)) {
				e = g.val(s.E, 1)
			}
		} else {
			e = g.val(s.E, 1)
		}
		v.M = append(v.M, [2]*V{k, e})
	}

	return v
}

func genCase(rng *hx.Rng) []string {
	for {
		g := &gen{rng: rng, maxDepth: rng.Range(1, 4), tb: map[int]*S{}, wide: rng.Chance(1, 6), odd: rng.Chance(1, 6)}
		top := g.structS(0, rng.Chance(1, 2))
		if len(top.Fields) == 0 && rng.Chance(4, 5) {
			continue
		}
		rich := -1
		if rng.Chance(1, 6) {
			g.odd = false
			top.Fields = append(top.Fields, g.richMapField(1))
			rich = len(top.Fields) - 1
		}
		if _, err := newWorld(top); err != nil {
			continue
		}
		lines := []string{"def " + top.String()}
		for i := rng.Range(1, 3); i > 0; i-- {
			v := g.val(top, 0)
			if rich >= 0 && v.K == "st" && len(v.L) == len(top.Fields) {
				v.L[rich] = g.richMapVal(top.Fields[rich].T)
			}
			lines = append(lines, fmt.Sprintf("enc %s %s", b01(rng.Chance(1, 3)), v))
		}

		return lines
	}
}

// farInstant draws a nanosecond count outside (or at the edge of) what an int64 holds.
func farInstant(rng *hx.Rng) *big.Int {
	two63 := new(big.Int).Lsh(big.NewInt(1), 63)
	e9 := big.NewInt(1_000_000_000)
	maxSec := new(big.Int).Mul(big.NewInt(9223372036), e9) // serializer.MaxNanoTimestampInt64Seconds
	bases := []*big.Int{
		two63, maxSec, new(big.Int).Add(maxSec, e9), new(big.Int).Lsh(big.NewInt(1), 64),
		new(big.Int).Mul(big.NewInt(10413792000), e9),  // 2300-01-01
		new(big.Int).Mul(big.NewInt(253402300799), e9), // 9999-12-31T23:59:59
		new(big.Int).Mul(big.NewInt(-62135596800), e9), // 0001-01-01 = time.Time{} as an instant
		new(big.Int).Mul(big.NewInt(-68000000000), e9), // about -185
		new(big.Int).Neg(two63),
		new(big.Int).Mul(big.NewInt(maxInstantSeconds), e9),
		new(big.Int).Mul(big.NewInt(-maxInstantSeconds), e9),
	}
	n := new(big.Int).Set(bases[rng.Intn(len(bases))])
	switch rng.Intn(4) {
	case 0:
	case 1:
		n.Add(n, big.NewInt(int64(rng.Intn(3))-1))
	case 2:
		n.Add(n, big.NewInt(int64(rng.Intn(2_000_000_001))-1_000_000_000))
	default:
		n.Add(n, new(big.Int).Mul(big.NewInt(int64(rng.Intn(2001))-1000), e9))
	}
	if t, ok := instant(n); !ok {
		return two63
	} else if t.IsZero() { // time.Time{} is the value `nil` of the model, never an instant
		n.Add(n, big.NewInt(1))
	}

	return n
}
