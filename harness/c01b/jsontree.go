package main

import (
	"bytes"
	"encoding/json"
	"fmt"
	"io"
	"sort"
	"strings"

	"verifharness/hx"
)

// J is a JSON document with the member order of its text.
type J struct {
	K   string // N T F n s a o
	Num string
	S   string
	A   []*J
	O   []JM
}

type JM struct {
	Key string
	Val *J
}

func parseJSON(b []byte) (*J, error) {
	dec := json.NewDecoder(bytes.NewReader(b))
	dec.UseNumber()
	j, err := parseJ(dec)
	if err != nil {
		return nil, err
	}
	if _, err := dec.Token(); err != io.EOF {
		return nil, fmt.Errorf("trailing data")
	}

	return j, nil
}

func parseJ(dec *json.Decoder) (*J, error) {
	t, err := dec.Token()
	if err != nil {
		return nil, err
	}
	switch x := t.(type) {
	case nil:
		return &J{K: "N"}, nil
	case bool:
		if x {
			return &J{K: "T"}, nil
		}

		return &J{K: "F"}, nil
	case json.Number:
		return &J{K: "n", Num: x.String()}, nil
	case string:
		return &J{K: "s", S: x}, nil
	case json.Delim:
		switch x {
		case '[':
			j := &J{K: "a"}
			for dec.More() {
				c, err := parseJ(dec)
				if err != nil {
					return nil, err
				}
				j.A = append(j.A, c)
			}
			_, err := dec.Token()

			return j, err
		case '{':
			j := &J{K: "o"}
			for dec.More() {
				kt, err := dec.Token()
				if err != nil {
					return nil, err
				}
				k, ok := kt.(string)
				if !ok {
					return nil, fmt.Errorf("member name expected")
				}
				c, err := parseJ(dec)
				if err != nil {
					return nil, err
				}
				j.O = append(j.O, JM{k, c})
			}
			_, err := dec.Token()

			return j, err
		}
	}

	return nil, fmt.Errorf("unexpected token %v", t)
}

// Text serialises the document in its member order.
func (j *J) Text() string {
	var sb strings.Builder
	j.text(&sb)

	return sb.String()
}

func (j *J) text(sb *strings.Builder) {
	switch j.K {
	case "N":
		sb.WriteString("null")
	case "T":
		sb.WriteString("true")
	case "F":
		sb.WriteString("false")
	case "n":
		sb.WriteString(j.Num)
	case "s":
		b, _ := json.Marshal(j.S)
		sb.Write(b)
	case "a":
		sb.WriteByte('[')
		for i, c := range j.A {
			if i > 0 {
				sb.WriteByte(',')
			}
			c.text(sb)
		}
		sb.WriteByte(']')
	case "o":
		sb.WriteByte('{')
		for i, m := range j.O {
			if i > 0 {
				sb.WriteByte(',')
			}
			b, _ := json.Marshal(m.Key)
			sb.Write(b)
			sb.WriteByte(':')
			m.Val.text(sb)
		}
		sb.WriteByte('}')
	}
}

// SX prints the document for the Lean driver.
func (j *J) SX() string {
	switch j.K {
	case "N", "T", "F":
		return j.K
	case "n":
		return "(n " + j.Num + ")"
	case "s":
		return "(s " + hexStr(j.S) + ")"
	case "a":
		var sb strings.Builder
		sb.WriteString("(a")
		for _, c := range j.A {
			sb.WriteString(" " + c.SX())
		}
		sb.WriteString(")")

		return sb.String()
	case "o":
		var sb strings.Builder
		sb.WriteString("(o")
		for _, m := range j.O {
			sb.WriteString(" (" + hexStr(m.Key) + " " + m.Val.SX() + ")")
		}
		sb.WriteString(")")

		return sb.String()
	}
	panic("bad json kind")
}

func parseJSX(x *SX) (*J, error) {
	if !x.IsL {
		switch x.Atom {
		case "N", "T", "F":
			return &J{K: x.Atom}, nil
		}

		return nil, fmt.Errorf("bad json atom")
	}
	switch x.head() {
	case "n":
		return &J{K: "n", Num: x.List[1].Atom}, nil
	case "s":
		s, err := unhexStr(x.List[1].Atom)

		return &J{K: "s", S: s}, err
	case "a":
		j := &J{K: "a"}
		for _, c := range x.List[1:] {
			e, err := parseJSX(c)
			if err != nil {
				return nil, err
			}
			j.A = append(j.A, e)
		}

		return j, nil
	case "o":
		j := &J{K: "o"}
		for _, c := range x.List[1:] {
			if !c.IsL || len(c.List) != 2 {
				return nil, fmt.Errorf("bad member")
			}
			k, err := unhexStr(c.List[0].Atom)
			if err != nil {
				return nil, err
			}
			e, err := parseJSX(c.List[1])
			if err != nil {
				return nil, err
			}
			j.O = append(j.O, JM{k, e})
		}

		return j, nil
	}

	return nil, fmt.Errorf("bad json head")
}

// sorted returns a copy with the members of every object sorted by key (byte order).
func (j *J) sorted() *J {
	c := *j
	c.A = nil
	for _, e := range j.A {
		c.A = append(c.A, e.sorted())
	}
	c.O = nil
	for _, m := range j.O {
		c.O = append(c.O, JM{m.Key, m.Val.sorted()})
	}
	sort.SliceStable(c.O, func(a, b int) bool { return c.O[a].Key < c.O[b].Key })

	return &c
}

// permuted returns a copy with the members of every object shuffled.
func (j *J) permuted(rng *hx.Rng) *J {
	c := *j
	c.A = nil
	for _, e := range j.A {
		c.A = append(c.A, e.permuted(rng))
	}
	c.O = nil
	for _, m := range j.O {
		c.O = append(c.O, JM{m.Key, m.Val.permuted(rng)})
	}
	for i := len(c.O) - 1; i > 0; i-- {
		k := rng.Intn(i + 1)
		c.O[i], c.O[k] = c.O[k], c.O[i]
	}

	return &c
}

func (j *J) objects() int {
	n := 0
	if j.K == "o" && len(j.O) > 1 {
		n = 1
	}
	for _, e := range j.A {
		n += e.objects()
	}
	for _, m := range j.O {
		n += m.Val.objects()
	}

	return n
}

// objectsList collects every object node of the document.
func (j *J) objectsList(out *[]*J) {
	if j.K == "o" {
		*out = append(*out, j)
	}
	for _, e := range j.A {
		e.objectsList(out)
	}
	for _, m := range j.O {
		m.Val.objectsList(out)
	}
}

func (j *J) clone() *J {
	c := *j
	c.A = nil
	for _, e := range j.A {
		c.A = append(c.A, e.clone())
	}
	c.O = nil
	for _, m := range j.O {
		c.O = append(c.O, JM{m.Key, m.Val.clone()})
	}

	return &c
}

// dropped returns a copy in which one member of one object is missing (nil if there is no member at all).
func (j *J) dropped(rng *hx.Rng) *J {
	c := j.clone()
	var objs, nonEmpty []*J
	c.objectsList(&objs)
	for _, o := range objs {
		if len(o.O) > 0 {
			nonEmpty = append(nonEmpty, o)
		}
	}
	if len(nonEmpty) == 0 {
		return nil
	}
	o := nonEmpty[rng.Intn(len(nonEmpty))]
	i := rng.Intn(len(o.O))
	o.O = append(o.O[:i:i], o.O[i+1:]...)

	return c
}

// extended returns a copy in which one object has an additional member that no schema names.
func (j *J) extended(rng *hx.Rng) *J {
	c := j.clone()
	var objs []*J
	c.objectsList(&objs)
	if len(objs) == 0 {
		return nil
	}
	o := objs[rng.Intn(len(objs))]
	o.O = append(o.O, JM{"~extra", &J{K: "n", Num: "7"}})

	return c
}
