package main

import (
	"bytes"
	"encoding/json"
	"fmt"
	"io"
	"sort"
	"strings"

	"verifharness/hx"
)

// J is a JSON document with the member order of its text.
type J struct {
	K   string // N T F n s a o
	Num string
	S   string
	A   []*J
	O   []JM
}

type JM struct {
	Key string
	Val *J
}

func parseJSON(b []byte) (*J, error) {
	dec := json.NewDecoder(bytes.NewReader(b))
	dec.UseNumber()
	j, err := parseJ(dec)
	if err != nil {
		return nil, err
	}
	if _, err := dec.Token(); err != io.EOF {
		return nil, fmt.Errorf("trailing data")
	}

	return j, nil
}

func parseJ(dec *json.Decoder) (*J, error) {
	t, err := dec.Token()
	if err != nil {
		return nil, err
	}
	switch x := t.(type) {
	case nil:
		return &J{K: "N"}, nil
	case bool:
		if x {
			return &J{K: "T"}, nil
		}

		return &J{K: "F"}, nil
	case json.Number:
		return &J{K: "n", Num: x.String()}, nil
	case string:
		return &J{K: "s", S: x}, nil
	case json.Delim:
		switch x {
		case '[':
			j := &J{K: "a"}
			for dec.More() {
				c, err := parseJ(dec)
				if err != nil {
					return nil, err
				}
				j.A = append(j.A, c)
			}
			_, err := dec.Token()

			return j, err
		case '{':
			j := &J{K: "o"}
			for dec.More() {
				kt, err := dec.Token()
				if err != nil {
					return nil, err
				}
				k, ok := kt.(string)
				if !ok {
					return nil, fmt.Errorf("member name expected")
				}
				c, err := parseJ(dec)
				if err != nil {
					return nil, err
				}
				j.O = append(j.O, JM{k, c})
			}
			_, err := dec.Token()

			return j, err
		}
	}

	return nil, fmt.Errorf("unexpected token %v", t)
}

// Text serialises the document in its member order.
func (j *J) Text() string {
	var sb strings.Builder
	j.text(&sb)

	return sb.String()
}

func (j *J) text(sb *strings.Builder) {
	switch j.K {
	case "N":
		sb.WriteString("null")
	case "T":
		sb.WriteString("true")
	case "F":
		sb.WriteString("false")
	case "n":
		sb.WriteString(j.Num)
	case "s":
		b, _ := json.Marshal(j.S)
		sb.Write(b)
	case "a":
		sb.WriteByte('[')
		for i, c := range j.A {
			if i > 0 {
				sb.WriteByte(',')
			}
			c.text(sb)
		}
		sb.WriteByte(']')
	case "o":
		sb.WriteByte('{')
		for i, m := range j.O {
			if i > 0 {
				sb.WriteByte(',')
			}
			b, _ := json.Marshal(m.Key)
			sb.Write(b)
			sb.WriteByte(':')
			m.Val.text(sb)
		}
		sb.WriteByte('}')
	}
}

// SX prints the document for the Lean driver.
func (j *J) SX() string {
	switch j.K {
	case "N", "T", "F":
		return j.K
	case "n":
		return "(n " + j.Num + ")"
	case "s":
		return "(s " + hexStr(j.S) + ")"
	case "a":
		var sb strings.Builder
		sb.WriteString("(a")
		for _, c := range j.A {
			sb.WriteString(" " + c.SX())
		}
		sb.WriteString(")")

		return sb.String()
	case "o":
		var sb strings.Builder
		sb.WriteString("(o")
		for _, m := range j.O {
			sb.WriteString(" (" + hexStr(m.Key) + " " + m.Val.SX() + ")")
		}
		sb.WriteString(")")

		return sb.String()
	}
	panic("bad json kind")
}

func parseJSX(x *SX) (*J, error) {
	if !x.IsL {
		switch x.Atom {
		case "N", "T", "F":
			return &J{K: x.Atom}, nil
		}

		return nil, fmt.Errorf("bad json atom")
	}
	switch x.head() {
	case "n":
		return &J{K: "n", Num: x.List[1].Atom}, nil
	case "s":
		s, err := unhexStr(x.List[1].Atom)

		return &J{K: "s", S: s}, err
	case "a":
		j := &J{K: "a"}
		for _, c := range x.List[1:] {
			e, err := parseJSX(c)
			if err != nil {
				return nil, err
			}
			j.A = append(j.A, e)
		}

		return j, nil
	case "o":
		j := &J{K: "o"}
		for _, c := range x.List[1:] {
			if !c.IsL || len(c.List) != 2 {
				return nil, fmt.Errorf("bad member")
			}
			k, err := unhexStr(c.List[0].Atom)
			if err != nil {
				return nil, err
			}
			e, err := parseJSX(c.List[1])
			if err != nil {
				return nil, err
			}
			j.O = append(j.O, JM{k, e})
		}

		return j, nil
	}

	return nil, fmt.Errorf("bad json head")
}

// sorted returns a copy with the members of every object sorted by key (byte order).
func (j *J) sorted() *J {
	c := *j
	c.A = nil
	for _, e := range j.A {
		c.A = append(c.A, e.sorted())
	}
	c.O = nil
	for _, m := range j.O {
		c.O = append(c.O, JM{m.Key, m.Val.sorted()})
	}
	sort.SliceStable(c.O, func(a, b int) bool { return c.O[a].Key < c.O[b].Key })

	return &c
}

// permuted returns a copy with the members of every object shuffled.
func (j *J) permuted(rng *hx.Rng) *J {
	c := *j
	c.A = nil
	for _, e := range j.A {
		c.A = append(c.A, e.permuted(rng))
	}
	c.O = nil
	for _, m := range j.O {
		c.O = append(c.O, JM{m.Key, m.Val.permuted(rng)})
	}
	for i := len(c.O) - 1; i > 0; i-- {
		k := rng.Intn(i + 1)
		c.O[i], c.O[k] = c.O[k], c.O[i]
	}

	return &c
}

func (j *J) objects() int {
	n := 0
	if j.K == "o" && len(j.O) > 1 {
		n = 1
	}
	for _, e := range j.A {
		n += e.objects()
	}
	for _, m := range j.O {
		n += m.Val.objects()
	}

	return n
}

// objectsList collects every object node of the document.
func (j *J) objectsList(out *[]*J) {
	if j.K == "o" {
		*out = append(*out, j)
	}
	for _, e := range j.A {
		e.objectsList(out)
	}
	for _, m := range j.O {
		m.Val.objectsList(out)
	}
}

func (j *J) clone() *J {
	c := *j
	c.A = nil
	for _, e := range j.A {
		c.A = append(c.A, e.clone())
	}
	c.O = nil
	for _, m := range j.O {
		c.O = append(c.O, JM{m.Key, m.Val.clone()})
	}

	return &c
}

// dropped returns a copy in which one member of one object is missing (nil if there is no member at all).
func (j *J) dropped(rng *hx.Rng) *J {
	c := j.clone()
	var objs, nonEmpty []*J
	c.objectsList(&objs)
	for _, o := range objs {
		if len(o.O) > 0 {
			nonEmpty = append(nonEmpty, o)
		}
	}
	if len(nonEmpty) == 0 {
		return nil
	}
	o := nonEmpty[rng.Intn(len(nonEmpty))]
	i := rng.Intn(len(o.O))
	o.O = append(o.O[:i:i], o.O[i+1:]...)

	return c
}

// extended returns a copy in which one object has an additional member that no schema names.
func (j *J) extended(rng *hx.Rng) *J {
	c := j.clone()
	var objs []*J
	c.objectsList(&objs)
	if len(objs) == 0 {
		return nil
	}
	o := objs[rng.Intn(len(objs))]
	o.O = append(o.O, JM{"~extra", &J{K: "n", Num: "7"}})

	return c
}

// ---- documents the encoder would not write, built from one it wrote ----

func isDigits(s string) bool {
	if s == "" {
		return false
	}
	for _, c := range s {
		if c < '0' || c > '9' {
			return false
		}
	}

	return true
}

func isLowerHex(s string) bool {
	for _, c := range s {
		if !(c >= '0' && c <= '9' || c >= 'a' && c <= 'f') {
			return false
		}
	}

	return true
}

func respellable(s string) bool {
	return isDigits(s) || (len(s) > 1 && s[0] == '-' && isDigits(s[1:])) || (len(s) >= 2 && s[:2] == "0x" && isLowerHex(s[2:]))
}

// respell returns another spelling of a decimal or 0x-hex text (some accepted by strconv / hexutil with the same
// meaning - leading zeros, a plus sign, upper-case digits or prefix -, some with another meaning - an extra zero
// byte -, some rejected - a trailing blank, an odd number of digits), or "" if the text is neither.
func respell(s string, rng *hx.Rng) string {
	switch {
	case isDigits(s) || (len(s) > 1 && s[0] == '-' && isDigits(s[1:])):
		sign, digits := "", s
		if s[0] == '-' {
			sign, digits = "-", s[1:]
		}
		switch rng.Intn(5) {
		case 0:
			return sign + "0" + digits
		case 1:
			return sign + "00" + digits
		case 2:
			if sign == "" {
				return "+" + digits
			}

			return "-0" + digits
		case 3:
			return s + " "
		default:
			return sign + digits + "0"
		}
	case len(s) >= 2 && s[:2] == "0x" && isLowerHex(s[2:]):
		d := s[2:]
		switch rng.Intn(6) {
		case 0:
			return "0x" + strings.ToUpper(d)
		case 1:
			return "0X" + d
		case 2:
			return "0x00" + d
		case 3:
			return "0x0" + d
		case 4:
			if len(d) > 0 {
				return "0x" + d[1:]
			}

			return "0x"
		default:
			return "0x" + d + "00"
		}
	}

	return ""
}

// respelled returns a copy in which one decimal / hex string is spelled differently: either a string value, or -
// as an additional member carrying a copy of the value - the name of a member (for a Go map target that is a
// second entry whose key may decode to an existing one: the duplicate-key error path).  nil if there is no such text.
func (j *J) respelled(rng *hx.Rng) *J {
	c := j.clone()
	type site struct {
		val *J
		obj *J
		idx int
	}
	var sites []site
	var walk func(n *J)
	walk = func(n *J) {
		if n.K == "s" && respellable(n.S) {
			sites = append(sites, site{val: n})
		}
		for _, e := range n.A {
			walk(e)
		}
		for i, m := range n.O {
			if respellable(m.Key) {
				sites = append(sites, site{obj: n, idx: i})
			}
			walk(m.Val)
		}
	}
	walk(c)
	if len(sites) == 0 {
		return nil
	}
	st := sites[rng.Intn(len(sites))]
	if st.val != nil {
		st.val.S = respell(st.val.S, rng)
	} else {
		m := st.obj.O[st.idx]
		name := respell(m.Key, rng)
		for _, other := range st.obj.O {
			if other.Key == name { // a map[string]any has no two members of one name
				return nil
			}
		}
		st.obj.O = append(st.obj.O, JM{name, m.Val.clone()})
	}

	return c
}

// extreme numbers, all exactly representable as float64 (the decoder sees float64(n)).
var extremes = []string{"255", "256", "-1", "-128", "-129", "127", "128", "32767", "32768", "-32769", "65535", "65536",
	"2147483647", "2147483648", "-2147483648", "-2147483649", "4294967295", "4294967296", "4294967297", "1000000000000",
	"9007199254740992", "9223372036854775808", "-9223372036854775808", "18446744073709551616", "10000000000000000000",
	"-18446744073709551616"}

// extremeNumber returns a copy in which one JSON number is replaced by a number at or beyond the edge of an
// integer kind (object codes and 8/16/32-bit integers are the numbers of the form).  nil if there is no number.
func (j *J) extremeNumber(rng *hx.Rng) *J {
	c := j.clone()
	var nums []*J
	var walk func(n *J)
	walk = func(n *J) {
		if n.K == "n" {
			nums = append(nums, n)
		}
		for _, e := range n.A {
			walk(e)
		}
		for _, m := range n.O {
			walk(m.Val)
		}
	}
	walk(c)
	if len(nums) == 0 {
		return nil
	}
	nums[rng.Intn(len(nums))].Num = extremes[rng.Intn(len(extremes))]

	return c
}
