package main

import (
	"fmt"
	"math/big"
)

// hand-written cases that run first: the fixture types of serializer/serix/map_encode_test.go and the shapes on
// which the unchanged tree lost values (see design/C01b.md).

func u(w int) *S            { return &S{K: "u", W: w, N: -1, Code: -1} }
func i(w int) *S            { return &S{K: "i", W: w, N: -1, Code: -1} }
func fl(w int) *S           { return &S{K: "f", W: w, N: -1, Code: -1} }
func barr(p bool, n int) *S { return &S{K: "barr", P: p, N: n, Code: -1} }
func tb(p bool, n, code int, key string) *S {
	return &S{K: "tb", P: p, N: n, Code: code, Key: key}
}
func slice(e *S) *S      { return &S{K: "slice", E: e, N: -1, Code: -1} }
func arr(n int, e *S) *S { return &S{K: "arr", N: n, E: e, Code: -1} }
func mp(k, e *S) *S      { return &S{K: "map", KT: k, E: e, N: -1, Code: -1} }
func ptr(e *S) *S        { return &S{K: "ptr", E: e, N: -1, Code: -1} }
func st(code int, fs ...*F) *S {
	return &S{K: "struct", Code: code, Fields: fs, N: -1}
}
func fld(key string, t *S) *F   { return &F{Mode: "fld", Key: key, T: t} }
func opt(key string, t *S) *F   { return &F{Mode: "fld", Key: key, T: t, Opt: true} }
func omit(key string, t *S) *F  { return &F{Mode: "fld", Key: key, T: t, Omit: true} }
func emb(p bool, fs ...*F) *F   { return &F{Mode: "emb", P: p, T: st(-1, fs...)} }
func inl(code int, fs ...*F) *F { return &F{Mode: "inl", T: st(code, fs...)} }
func iface(alts ...*Alt) *S     { return &S{K: "iface", Alts: alts, N: -1, Code: -1} }

func vs(xs ...*V) *V           { return &V{K: "st", L: append([]*V{}, xs...)} }
func vl(xs ...*V) *V           { return &V{K: "l", L: append([]*V{}, xs...)} }
func vx(b ...byte) *V          { return &V{K: "x", Bs: b} }
func vstr(s string) *V         { return &V{K: "s", S: s} }
func vsome(x *V) *V            { return &V{K: "some", X: x} }
func vif(c int, x *V) *V       { return &V{K: "if", Code: c, X: x} }
func vf(w int, bits uint64) *V { return &V{K: "f", W: w, Bits: bits} }

func bign(dec string) *V {
	n, ok := new(big.Int).SetString(dec, 10)
	if !ok {
		panic("bign " + dec)
	}

	return &V{K: "n", N: n}
}

var vnil = &V{K: "nil"}
var vT, vF = &V{K: "T"}, &V{K: "F"}

func cse(s *S, vals ...*V) []string {
	lines := []string{"def " + s.String()}
	for k, v := range vals {
		lines = append(lines, fmt.Sprintf("enc %d %s", k%2, v))
	}

	return lines
}

func corpus() [][]string {
	str, bytesT, boolT, u256, timeT := mk("str"), mk("bytes"), mk("bool"), mk("u256"), mk("time")
	impl1 := ptr(st(0, fld("string", str)))
	impl2 := ptr(st(1, fld("uint16", u(16))))
	big1337 := &V{K: "n", N: big.NewInt(1337)}

	return [][]string{
		// "basic types"
		cse(st(42, fld("uint64", u(64)), fld("uint32", u(32)), fld("uint16", u(16)), fld("uint8", u(8)),
			fld("int64", i(64)), fld("int32", i(32)), fld("int16", i(16)), fld("int8", i(8)), omit("zeroInt32", i(32)),
			fld("float32", fl(32)), fld("float64", fl(64)), fld("string", str), fld("bool", boolT)),
			vs(num(64), num(32), num(16), num(8), num(-64), num(-32), num(-16), num(-8), num(0),
				vf(32, 0x3ea8f5c3), vf(64, 0x3fdc28f5c28f5c29), vstr("abcd"), vT)),
		// "big int", "map", "time"
		cse(st(66, fld("bigInt", u256)), vs(big1337)),
		cse(st(99, fld("map", mp(str, str))), vs(&V{K: "m", M: [][2]*V{{vstr("alice"), vstr("123")}}})),
		cse(st(23, fld("creationDate", timeT)), vs(num(1660301478120072000))),
		// "byte slices/arrays"
		cse(st(5, fld("byteSlice", bytesT), fld("array", barr(false, 5)), fld("sliceOfByteSlices", slice(bytesT)),
			fld("sliceOfByteArrays", slice(barr(false, 3)))),
			vs(vx(1, 2, 3, 4, 5), vx(5, 4, 3, 2, 1), vl(vx(1, 2, 3), vx(3, 2, 1)), vl(vx(5, 6, 7), vx(7, 6, 5)))),
		// "inner struct" (embedded), "no map key"
		cse(st(22, emb(false, fld("string", str))), vs(vs(vstr("abcd")))),
		cse(st(23, fld("captainHook", str), fld("liquidSoul", i(64))), vs(vstr("jump"), num(30))),
		// "interface & direct pointer"
		cse(st(33, fld("interface", iface(&Alt{5, tb(true, 4, 5, "customInnerKey")})), fld("other", tb(true, 2, 2, "otherObjKey"))),
			vs(vif(5, vx(1, 2, 3, 4)), vx(1, 2))),
		// "slice of interface"
		cse(st(11, fld("slice", slice(iface(&Alt{0, impl1}, &Alt{1, impl2})))),
			vs(vl(vif(0, vsome(vs(vstr("impl1")))), vif(1, vsome(vs(num(1337))))))),
		// arrays of non-byte elements, by value and through a pointer (decode panicked: unaddressable Set)
		cse(st(-1, fld("a", arr(3, u(16))), fld("b", ptr(arr(2, i(64)))), fld("c", slice(arr(2, u(16))))),
			vs(vl(num(1), num(2), num(3)), vsome(vl(num(-1), num(7))), vl(vl(num(1), num(2))))),
		// nil embedded pointer (was skipped by the encoder, decode then failed or allocated it)
		cse(st(-1, emb(true, fld("a", u(32))), fld("x", u(8))), vs(vnil, num(5)), vs(vsome(vs(num(9))), num(5))),
		cse(st(-1, emb(true, omit("a", u(32))), fld("x", u(8))), vs(vnil, num(5))),
		// inlined struct with its own object code
		cse(st(-1, inl(3, fld("bar", u(64))), fld("x", u(8))), vs(vs(num(77)), num(5))),
		// typed byte array by value / pointer to an untyped byte array: encoded, cannot be decoded
		cse(st(-1, fld("a", tb(false, 4, 5, "k"))), vs(vx(1, 2, 3, 4))),
		cse(st(-1, fld("a", tb(false, -1, 6, "data"))), vs(vx(1, 2))),
		cse(st(-1, fld("a", barr(true, 4))), vs(vx(1, 2, 3, 4))),
		// map values behind pointers and interfaces (GetByValue on a zero value panicked)
		cse(st(-1, fld("m", mp(str, impl1)), fld("n", mp(u(64), iface(&Alt{1, impl2})))),
			vs(&V{K: "m", M: [][2]*V{{vstr("a"), vsome(vs(vstr("x")))}}}, &V{K: "m", M: [][2]*V{{num(7), vif(1, vsome(vs(num(3))))}}})),
		// [1]*T as a Go-map value: a non-addressable pointer-shaped array (reflect.Copy faulted in sliceFromArray)
		cse(st(-1, fld("m", mp(barr(false, 3), arr(1, tb(true, 32, 9, "x y"))))),
			vs(&V{K: "m", M: [][2]*V{{vx(0, 0, 0x67), vl(vx(make([]byte, 32)...))}}})),
		// Go maps with several entries whose elements would show state carried over from one decoded entry to the
		// next: slices (append), pointers / nested maps (allocated only when nil), optional and omitempty fields
		cse(st(-1, fld("s", mp(str, slice(u(16)))), fld("p", mp(u(64), ptr(st(-1, omit("a", u(32)), opt("b", u256), omit("c", slice(str)))))),
			fld("m", mp(str, mp(str, u(8)))), fld("o", mp(barr(false, 2), st(-1, omit("x", str), opt("y", ptr(st(-1, fld("z", boolT)))), omit("w", bytesT))))),
			vs(&V{K: "m", M: [][2]*V{{vstr("a"), vl(num(1), num(2))}, {vstr("b"), vl(num(3))}, {vstr("c"), vl()}}},
				&V{K: "m", M: [][2]*V{{num(1), vsome(vs(num(7), big1337, vl(vstr("q"))))}, {num(2), vsome(vs(num(0), vnil, vl()))}, {num(3), vsome(vs(num(9), vnil, vl(vstr("r"), vstr("s"))))}}},
				&V{K: "m", M: [][2]*V{{vstr("k1"), &V{K: "m", M: [][2]*V{{vstr("x"), num(1)}, {vstr("y"), num(2)}}}}, {vstr("k2"), &V{K: "m", M: [][2]*V{{vstr("z"), num(3)}}}}, {vstr("k3"), &V{K: "m"}}}},
				&V{K: "m", M: [][2]*V{{vx(0, 1), vs(vstr("full"), vsome(vs(vT)), vx(1, 2))}, {vx(0, 2), vs(vstr(""), vnil, vx())}, {vx(0, 3), vs(vstr("again"), vnil, vx(9))}}})),
		// what the form cannot express: duplicate keys, non-string map keys, big.Int out of range, nil big.Int
		cse(st(7, fld("type", u(8)), fld("a", str), fld("a", str)), vs(num(1), vstr("x"), vstr("y"))),
		cse(st(-1, fld("m", mp(u(32), str))), vs(&V{K: "m", M: [][2]*V{{num(1), vstr("a")}}}), vs(&V{K: "m"})),
		cse(st(-1, fld("b", u256), opt("c", u256), omit("d", u256)), vs(num(-5), vnil, vnil),
			vs(&V{K: "n", N: new(big.Int).Lsh(big.NewInt(1), 256)}, num(0), num(1)), vs(vnil, vnil, vnil)),
		// omitempty / optional, nil and empty collections, zero time, -0
		cse(st(-1, omit("s", slice(u(16))), omit("b", bytesT), omit("m", mp(str, str)), omit("t", timeT), omit("f", fl(64)),
			omit("st", st(-1, fld("q", slice(str)))), opt("p", ptr(st(-1, fld("z", boolT)))), omit("arr", arr(2, u(16)))),
			vs(vnil, vnil, vnil, vnil, vf(64, 0), vs(vnil), vnil, vl(num(0), num(0))),
			vs(vl(), vx(), &V{K: "m"}, num(0), vf(64, 1<<63), vs(vl()), vsome(vs(vF)), vl(num(0), num(1)))),
		// instants outside the int64 nanosecond range: serializer.TimeToUint64 saturates (MaxInt64 from 2^63 ns on -
		// the last representable second included -, 0 before the epoch), in plain, omitempty, pointer and element position
		cse(st(-1, fld("a", timeT), omit("b", timeT), fld("c", ptr(timeT)), fld("d", slice(timeT)), fld("e", mp(str, timeT))),
			vs(bign("9223372036854775808"), bign("9223372036854775807"), vsome(bign("9223372036999999999")),
				vl(bign("9223372037000000000"), bign("18446744073709551616"), bign("253402300799000000000")),
				&V{K: "m", M: [][2]*V{{vstr("y2300"), bign("10413792000000000000")}, {vstr("u62"), bign("4611686018427387904000000000")}}}),
			vs(bign("-9223372036854775809"), bign("-62135596799999999999"), vsome(bign("-4611686018427387904000000000")),
				vl(bign("-1"), num(0)), &V{K: "m", M: [][2]*V{{vstr("y-185"), bign("-68000000000000000000")}}})),
	}
}
