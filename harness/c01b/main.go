// C01b correspondence harness: the JSON/map form of serix (MapEncode/JSONEncode, MapDecode/JSONDecode).
//
// Schemas are drawn at random, realised as Go types with reflect (struct tags carry the serix settings,
// object codes / field keys / interface alternatives are registered in a fresh serix.API) and printed as the
// descriptor the Lean model (Hive/Model/SerixJson.lean) works on.  Per value: `enc` (JSONEncode, canonicalised)
// is compared with the Lean `mapEncode`, `dec` of the produced document and of a document with the members of
// every object shuffled is compared with the Lean `mapDecode`.  The property oracle - JSONDecode(JSONEncode(v))
// equals v up to nil/empty collections for every expressible shape and value - is evaluated here on the
// implementation, independently of Lean.
package main

import (
	"bytes"
	"context"
	"crypto/sha256"
	"encoding/json"
	"fmt"
	"os"
	"reflect"
	"strconv"
	"strings"

	"verifharness/hx"

	"github.com/iotaledger/hive.go/serializer/v2/serix"
)

type runner struct {
	r      *hx.Run
	w      *world
	derive bool     // append dec requests derived from successful enc requests (off when replaying)
	extra  []string // derived requests waiting to be executed
	kinds  map[string]bool
	// the destination of the previous successful JSONDecode of the current schema (oracle reused-destination)
	reuse    reflect.Value
	reuseTop *S
}

func (x *runner) opts(v string) []serix.Option {
	var o []serix.Option
	if v == "1" {
		o = append(o, serix.WithValidation())
	}
	if x.w != nil {
		o = append(o, x.w.topOpts...)
	}

	return o
}

var debugFile *os.File

func (x *runner) exec(op string) string {
	if debugFile != nil {
		if strings.HasPrefix(op, "def") {
			debugFile.Truncate(0)
			debugFile.Seek(0, 0)
		}
		debugFile.WriteString(op + "\n")
	}
	sp := strings.SplitN(op, " ", 2)
	if len(sp) != 2 {
		return "bad-op"
	}
	switch sp[0] {
	case "def":
		sx, err := parseSX(sp[1])
		if err != nil {
			return "bad-sexp"
		}
		s, err := parseSchema(sx)
		if err != nil {
			return "bad-schema"
		}
		w, err := newWorld(s)
		if err != nil {
			return "unsupported " + err.Error()
		}
		x.w = w
		x.r.Count("shape:" + orExpressible(s.inexpressible()))
		if len(w.topOpts) > 0 {
			x.r.Count("top-code:via-WithTypeSettings")
		} else if s.Code >= 0 {
			x.r.Count("top-code:registered")
		}

		return "ok x=" + b01(s.inexpressible() == "")
	case "enc":
		return x.enc(sp[1])
	case "dec":
		return x.dec(sp[1])
	case "ftab":
		return "ok"
	}

	return "bad-op"
}

func orExpressible(r string) string {
	if r == "" {
		return "expressible"
	}

	return r
}

func (x *runner) enc(arg string) string {
	sp := strings.SplitN(arg, " ", 2)
	if x.w == nil || len(sp) != 2 {
		return "bad-enc"
	}
	flag := sp[0]
	sx, err := parseSX(sp[1])
	if err != nil {
		return "bad-sexp"
	}
	v, err := parseValue(sx)
	if err != nil {
		return "bad-value"
	}
	top := x.w.top
	rv, err := build(top, v)
	if err != nil {
		return "illtyped"
	}
	vreason := valueInexpressible(top, v)
	// ValExpressible, WellTyped and the documented result of decoding the encoding, stated by the harness
	vx := " vx=" + b01(vreason == "") + " wt=" + b01(allHard(top, v) == "") + " c=" + expect(top, v).Canon()
	ptr := reflect.New(top.rt)
	ptr.Elem().Set(rv)
	ctx := context.Background()

	var js []byte
	p := hx.Safely(func() { js, err = x.w.api.JSONEncode(ctx, ptr.Interface(), x.opts(flag)...) })
	switch {
	case p != "":
		x.r.Count("enc:panic")
		if strings.Contains(p, "interface conversion") {
			// (defect of the unchanged tree until the fix in mapEncodeMapKVPair: the unchecked `k.(string)` panicked for a map key
			// whose map form is a JSON number / bool / object - such a map is not expressible, but that is an error, not a panic)
			x.r.Fail("encode-panic", fmt.Sprintf("JSONEncode panics: %s; schema %s value %s", p, top, v), map[string]string{"oracle": "encode-panic", "trigger": "map-key-not-a-string"})
		}
		if top.hasMap() { // which entry of a Go map fails first depends on the iteration order
			return "fail" + vx
		}

		return "panic" + vx
	case err != nil:
		x.r.Count("enc:err")
		if top.hasMap() {
			return "fail" + vx
		}

		return "err" + vx
	}
	x.r.Count("enc:ok")
	countMaps(x.r, top, v)
	doc, err := parseJSON(js)
	if err != nil {
		x.r.Fail("json-wellformed", fmt.Sprintf("JSONEncode produced %q: %v", js, err), map[string]string{"oracle": "json-wellformed"})

		return "ok unparsable" + vx
	}
	// MapEncode + json.Marshal is the same document
	var viaMap []byte
	if p := hx.Safely(func() {
		m, e := x.w.api.MapEncode(ctx, ptr.Interface(), x.opts(flag)...)
		if e == nil {
			viaMap, _ = json.Marshal(m)
		}
	}); p != "" || (!top.hasMap() && !bytes.Equal(viaMap, js)) {
		x.r.Fail("mapencode-vs-jsonencode", fmt.Sprintf("MapEncode gives %q, JSONEncode %q (panic %q)", viaMap, js, p), map[string]string{"oracle": "mapencode-vs-jsonencode"})
	}
	canonDoc := doc
	if top.hasMap() {
		canonDoc = doc.sorted()
	}
	// encoding the same value again gives the same document: byte for byte when no Go map is involved, the same
	// JSON object (members of every object compared as a set) when Go's map iteration order shows in the member order
	var js2 []byte
	var err2 error
	p2 := hx.Safely(func() { js2, err2 = x.w.api.JSONEncode(ctx, ptr.Interface(), x.opts(flag)...) })
	switch doc2, perr := parseJSON(js2); {
	case p2 != "" || err2 != nil || perr != nil:
		x.r.Fail("encode-twice", fmt.Sprintf("second JSONEncode of schema %s value %s: panic=%q err=%v parse=%v", top, v, p2, err2, perr),
			map[string]string{"oracle": "encode-twice", "outcome": "second-failed"})
	case bytes.Equal(js, js2):
		x.r.Count("encode-twice:same-bytes")
	case !top.hasMap():
		x.r.Fail("encode-twice", fmt.Sprintf("schema %s (no Go map) value %s: first %q second %q", top, v, js, js2),
			map[string]string{"oracle": "encode-twice", "outcome": "bytes-differ-without-map"})
	case doc2.sorted().SX() != canonDoc.SX():
		x.r.Fail("encode-twice", fmt.Sprintf("schema %s value %s: first %q second %q differ beyond member order", top, v, js, js2),
			map[string]string{"oracle": "encode-twice", "outcome": "documents-differ"})
	default:
		x.r.Count("encode-twice:member-order-differs(Go map)")
	}

	// property oracle on the implementation: the produced document decodes to the value
	x.oracle(flag, v, js, vreason)

	if x.derive {
		if ft := floatTable(canonDoc); ft != "" {
			x.extra = append(x.extra, "ftab"+ft)
		}
		x.extra = append(x.extra, "dec "+flag+" "+canonDoc.SX())
		perm := canonDoc.permuted(x.r.Rng)
		x.r.CountN("permuted-objects", canonDoc.objects())
		x.extra = append(x.extra, "dec "+flag+" "+perm.SX())
		// documents the encoder did not write: a member missing (optional / omitempty / required fields) and a
		// member nobody asked for (ignored by structs, an entry for Go maps)
		if x.r.Rng.Chance(1, 2) {
			if d := canonDoc.dropped(x.r.Rng); d != nil {
				x.extra = append(x.extra, "dec "+flag+" "+d.SX())
			}
			if d := canonDoc.extended(x.r.Rng); d != nil {
				x.extra = append(x.extra, "dec "+flag+" "+d.SX())
			}
		}
		// the other validation mode: a document written without validation may violate the length bounds that a
		// validating decoder enforces (and the other way round nothing changes)
		x.extra = append(x.extra, "dec "+b01(flag != "1")+" "+canonDoc.SX())
		// other spellings of decimal / hex texts (values and member names), numbers at the edge of the integer kinds
		for _, d := range []*J{canonDoc.respelled(x.r.Rng), canonDoc.extremeNumber(x.r.Rng)} {
			if d == nil {
				continue
			}
			x.r.Count("derived:respelled-or-extreme")
			if ft := floatTable(d); ft != "" {
				x.extra = append(x.extra, "ftab"+ft)
			}
			x.extra = append(x.extra, "dec "+flag+" "+d.SX())
		}
	}
	sreason := top.inexpressible()
	if sreason == "" && vreason == "" && nontrivial(v) {
		h := sha256.Sum256([]byte(top.String() + "\n" + v.String()))
		x.r.Nontrivial(string(h[:8]))
	}

	return "ok " + canonDoc.SX() + vx
}

// floatTable lists every string of the document that strconv.ParseFloat accepts, with the bits it yields: the
// Lean model is parametric in the float text codec and is given Go's.
func floatTable(doc *J) string {
	seen := map[string]bool{}
	var sb strings.Builder
	var walk func(j *J)
	walk = func(j *J) {
		if j.K == "s" && !seen[j.S] {
			seen[j.S] = true
			for _, w := range []int{32, 64} {
				if f, err := strconv.ParseFloat(j.S, w); err == nil {
					fmt.Fprintf(&sb, " (%d %s %d)", w, hexStr(j.S), bitsOf(w, f))
				}
			}
		}
		for _, e := range j.A {
			walk(e)
		}
		for _, m := range j.O {
			walk(m.Val)
		}
	}
	walk(doc)

	return sb.String()
}

// countMaps records, per element kind, the Go-map values with at least two entries that were encoded (these are
// the ones on which state leaking from one decoded entry into the next would show).
func countMaps(r *hx.Run, s *S, v *V) {
	if s == nil || v == nil {
		return
	}
	switch s.K {
	case "map":
		if v.K == "m" {
			if len(v.M) >= 2 {
				k := s.E.K
				if k == "struct" {
					for _, f := range s.E.Fields {
						if f.Opt || f.Omit {
							k = "struct-with-optional"
						}
					}
				}
				r.Count("map>=2:" + k)
			}
			for _, e := range v.M {
				countMaps(r, s.E, e[1])
			}
		}
	case "slice", "arr":
		if v.K == "l" {
			for _, e := range v.L {
				countMaps(r, s.E, e)
			}
		}
	case "struct":
		if v.K == "st" && len(v.L) == len(s.Fields) {
			for i, f := range s.Fields {
				e := v.L[i]
				if f.Mode == "emb" && f.P {
					e = e.X
				}
				countMaps(r, f.T, e)
			}
		}
	case "ptr":
		countMaps(r, s.E, v.X)
	case "iface":
		if v.K == "if" {
			for _, a := range s.Alts {
				if a.Code == v.Code {
					countMaps(r, a.T, v.X)
				}
			}
		}
	}
}

func nontrivial(v *V) bool {
	n := 0
	var walk func(v *V, depth int)
	walk = func(v *V, depth int) {
		if depth > 0 && (v.K == "st" || v.K == "if" || ((v.K == "l" || v.K == "m") && len(v.L)+len(v.M) > 0)) {
			n++
		}
		for _, e := range v.L {
			walk(e, depth+1)
		}
		for _, e := range v.M {
			walk(e[0], depth+1)
			walk(e[1], depth+1)
		}
		if v.X != nil {
			walk(v.X, depth)
		}
	}
	walk(v, 0)

	return n > 0
}

func (x *runner) oracle(flag string, v *V, js []byte, vreason string) {
	top := x.w.top
	dest := reflect.New(top.rt)
	var err error
	p := hx.Safely(func() { err = x.w.api.JSONDecode(context.Background(), js, dest.Interface(), x.opts(flag)...) })
	outcome := ""
	switch {
	case p != "":
		outcome = "dec-panic"
	case err != nil:
		outcome = "dec-err"
	default:
		// exact comparison with the documented result (nil-ness, float bits, saturated times included)
		got := read(top, dest.Elem()).Canon()
		want := expect(top, v).Canon()
		if got != want {
			outcome = "dec-differs"
			err = fmt.Errorf("decoded %s, documented result %s", got, want)
		}
	}
	// the other entry point: json.Unmarshal into a map[string]any, then MapDecode - the same result or the same failure
	if outcome != "dec-panic" {
		m := map[string]any{}
		dest2 := reflect.New(top.rt)
		var err2 error
		p2 := hx.Safely(func() {
			if err2 = json.Unmarshal(js, &m); err2 == nil {
				err2 = x.w.api.MapDecode(context.Background(), m, dest2.Interface(), x.opts(flag)...)
			}
		})
		switch {
		case p2 != "" || (err2 == nil) != (err == nil || outcome == "dec-differs"):
			x.r.Fail("mapdecode-vs-jsondecode", fmt.Sprintf("schema %s json %s: JSONDecode err=%v, MapDecode panic=%q err=%v", top, js, err, p2, err2),
				map[string]string{"oracle": "mapdecode-vs-jsondecode", "outcome": "outcome-differs"})
		case err2 == nil && read(top, dest2.Elem()).Canon() != read(top, dest.Elem()).Canon():
			x.r.Fail("mapdecode-vs-jsondecode", fmt.Sprintf("schema %s json %s: JSONDecode gives %s, MapDecode %s", top, js,
				read(top, dest.Elem()).Canon(), read(top, dest2.Elem()).Canon()),
				map[string]string{"oracle": "mapdecode-vs-jsondecode", "outcome": "value-differs"})
		default:
			x.r.Count("mapdecode=jsondecode")
		}
	}
	// a reused destination: the same document decoded into the destination that still holds the previous value of this
	// schema (stale slice elements, map entries, optional pointers) must give the value the document describes
	if outcome == "" {
		if x.reuse.IsValid() && x.reuseTop == top {
			var err3 error
			p3 := hx.Safely(func() { err3 = x.w.api.JSONDecode(context.Background(), js, x.reuse.Interface(), x.opts(flag)...) })
			want := expect(top, v).Canon()
			switch {
			case p3 != "" || err3 != nil:
				x.r.Fail("reused-destination", fmt.Sprintf("schema %s json %s: JSONDecode into a fresh destination succeeds, into the destination of the previous decode: panic=%q err=%v", top, js, p3, err3),
					map[string]string{"oracle": "reused-destination", "outcome": "outcome-differs"})
				x.reuse = reflect.Value{}
			case read(top, x.reuse.Elem()).Canon() != want:
				x.r.Fail("reused-destination", fmt.Sprintf("schema %s json %s: decoded into the destination of the previous decode gives %s, documented result %s", top, js,
					read(top, x.reuse.Elem()).Canon(), want),
					map[string]string{"oracle": "reused-destination", "outcome": "value-differs"})
				x.reuse = reflect.Value{}
			default:
				x.r.Count("reused-destination:ok")
			}
		} else {
			x.reuse, x.reuseTop = dest, top
		}
	}
	sreason := top.inexpressible()
	if outcome == "" {
		x.r.Count("roundtrip:ok")
		if vreason != "" {
			x.r.Count("roundtrip:documented-change:" + vreason)
		}
		if sreason != "" || hardReason(allHard(top, v)) {
			x.r.Count("roundtrip:ok-though-excluded:" + orExpressible(sreason) + "/" + vreason)
		}

		return
	}
	x.r.Count("roundtrip:" + outcome)
	detail := fmt.Sprintf("%s: schema %s value %s json %s: panic=%q err=%v", outcome, top, v, js, p, err)
	if len(detail) > 1500 {
		detail = detail[:1500] + "..."
	}
	switch {
	case sreason == "" && !hardReason(allHard(top, v)):
		x.r.Fail("json-roundtrip", detail, map[string]string{"oracle": "json-roundtrip", "shape": "expressible", "outcome": outcome})
	default:
		x.r.Count("excluded:" + orExpressible(sreason) + "/" + vreason)
	}
}

func (x *runner) dec(arg string) string {
	sp := strings.SplitN(arg, " ", 2)
	if x.w == nil || len(sp) != 2 {
		return "bad-dec"
	}
	sx, err := parseSX(sp[1])
	if err != nil {
		return "bad-sexp"
	}
	doc, err := parseJSX(sx)
	if err != nil {
		return "bad-json"
	}
	top := x.w.top
	dest := reflect.New(top.rt)
	p := hx.Safely(func() {
		err = x.w.api.JSONDecode(context.Background(), []byte(doc.Text()), dest.Interface(), x.opts(sp[0])...)
	})
	switch {
	case p != "":
		x.r.Count("dec:panic")

		return "fail"
	case err != nil:
		x.r.Count("dec:err")

		return "fail"
	}
	x.r.Count("dec:ok")

	return "ok " + read(top, dest.Elem()).Canon()
}

func (x *runner) runCase(sub uint64, ops []string) {
	x.r.Case(sub)
	x.w = nil
	x.extra = nil
	queue := append([]string(nil), ops...)
	for len(queue) > 0 {
		op := queue[0]
		queue = queue[1:]
		ans := x.exec(op)
		x.r.Line(op, ans)
		x.r.Count("op:" + strings.SplitN(op, " ", 2)[0])
		if len(x.extra) > 0 {
			queue = append(append([]string(nil), x.extra...), queue...)
			x.extra = nil
		}
	}
	if x.w != nil {
		countKinds(x.r, x.w.top, map[*S]bool{})
	}
	x.r.Sample(x.r.CaseLines())
}

func countKinds(r *hx.Run, s *S, seen map[*S]bool) {
	if s == nil || seen[s] {
		return
	}
	seen[s] = true
	k := s.K
	switch s.K {
	case "u", "i", "f":
		k = fmt.Sprintf("%s%d", s.K, s.W)
	case "barr", "tb":
		if s.P {
			k += "-ptr"
		}
	}
	r.Count("kind:" + k)
	countKinds(r, s.E, seen)
	countKinds(r, s.KT, seen)
	for _, f := range s.Fields {
		r.Count("field:" + f.Mode)
		if f.Opt {
			r.Count("field:optional")
		}
		if f.Omit {
			r.Count("field:omitempty")
		}
		countKinds(r, f.T, seen)
	}
	for _, a := range s.Alts {
		countKinds(r, a.T, seen)
	}
}

// nonUTF8 is a Go-only stream (Lean strings cannot hold such values): a string that is not valid UTF-8 is what
// the JSON form cannot express - json.Marshal replaces the bad bytes by U+FFFD.  Expected: with validation the
// encoder refuses it; without validation the round trip is lossy, which is counted, not reported.
func nonUTF8(r *hx.Run, n int) {
	type T struct {
		S string            `serix:"s"`
		M map[string]string `serix:"m"`
	}
	api := serix.NewAPI()
	ctx := context.Background()
	for i := 0; i < n; i++ {
		bad := string([]byte{byte('a' + r.Rng.Intn(26)), byte(0x80 + r.Rng.Intn(0x40)), 'z'})
		v := &T{S: "ok", M: map[string]string{"k": "v"}}
		switch r.Rng.Intn(3) {
		case 0:
			v.S = bad
		case 1:
			v.M["k"] = bad
		default:
			v.M = map[string]string{bad: "v"}
		}
		if _, err := api.JSONEncode(ctx, v, serix.WithValidation()); err == nil {
			r.Fail("non-utf8-validated", fmt.Sprintf("JSONEncode with validation accepted the non-UTF-8 string %q", bad),
				map[string]string{"oracle": "non-utf8-validated"})
		}
		js, err := api.JSONEncode(ctx, v)
		if err != nil {
			r.Count("non-utf8:enc-err")

			continue
		}
		d := &T{}
		if err := api.JSONDecode(ctx, js, d); err == nil && reflect.DeepEqual(v, d) {
			r.Count("non-utf8:roundtrip-ok")
		} else {
			r.Count("non-utf8:lossy")
		}
	}
}

func main() {
	r := hx.Start()
	if p := os.Getenv("C01B_DEBUG"); p != "" {
		debugFile, _ = os.Create(p)
	}
	r.Rule = "random schemas (depth <= 4: every integer/float width, string, []byte, byte arrays, typed byte arrays, big.Int, time, " +
		"slices, arrays, maps, structs with named/optional/omitempty/embedded/inlined fields and object codes, pointers, interfaces) x " +
		"random values x validation on/off; non-trivial = expressible shape and value, encode succeeded and the value contains a nested " +
		"struct, interface value or non-empty collection; distinct by sha256 of schema and value"
	x := &runner{r: r, derive: true}
	count = r.Count
	if goOnlyReplay(r) { // C01B_GOONLY=<family>:<sub-seed>: one case of the Go-only stream (goonly.go)
		r.Finish()

		return
	}
	if lines := r.ReplayLines(); lines != nil {
		x.derive = false
		x.runCase(0, lines)
		r.Finish()

		return
	}
	for _, c := range corpus() {
		x.runCase(0, c)
	}
	nonUTF8(r, 100*r.Scale)
	n := 3000 * r.Scale
	for i := 0; i < n; i++ {
		rng, sub := r.Rng.Fork()
		x.runCase(sub, genCase(rng))
	}
	// Go-only stream (after everything else, from its own fork: the draws above are what they were): self-serialising
	// types, validators, must-occur rules, inlined pointers / interfaces
	goOnly(r, 400*r.Scale)
	r.Finish()
}
