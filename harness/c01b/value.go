package main

import (
	"encoding/hex"
	"fmt"
	"math"
	"math/big"
	"reflect"
	"sort"
	"strconv"
	"strings"
	"time"
	"unicode/utf8"
)

// V is a value; it mirrors the Lean `Val`.
type V struct {
	K    string // nil T F n f s x l m st some if
	N    *big.Int
	W    int
	Bits uint64
	S    string
	Bs   []byte
	L    []*V
	M    [][2]*V
	Code int
	X    *V
}

func floatOf(w int, bits uint64) float64 {
	if w == 32 {
		return float64(math.Float32frombits(uint32(bits)))
	}

	return math.Float64frombits(bits)
}

func bitsOf(w int, f float64) uint64 {
	if w == 32 {
		return uint64(math.Float32bits(float32(f)))
	}

	return math.Float64bits(f)
}

// floatText is Go's text for the float and the bits strconv parses back from it at the given width.
func floatText(w int, bits uint64) (string, uint64) {
	text := strconv.FormatFloat(floatOf(w, bits), 'g', -1, 64)
	back, err := strconv.ParseFloat(text, w)
	if err != nil {
		panic(err)
	}

	return text, bitsOf(w, back)
}

// String prints the value for an `enc` request (floats carry their strconv text).
func (v *V) String() string { return v.print(true) }

// Canon prints the value the way the Lean driver prints decoded values.
func (v *V) Canon() string { return v.print(false) }

func hexBytes(b []byte) string {
	if len(b) == 0 {
		return "-"
	}

	return hex.EncodeToString(b)
}

func (v *V) print(req bool) string {
	switch v.K {
	case "nil", "T", "F":
		return v.K
	case "n":
		return "(n " + v.N.String() + ")"
	case "f":
		if req {
			text, back := floatText(v.W, v.Bits)

			return fmt.Sprintf("(f %d %d %s %d)", v.W, v.Bits, hexStr(text), back)
		}

		return fmt.Sprintf("(f %d)", v.Bits)
	case "s":
		return "(s " + hexStr(v.S) + ")"
	case "x":
		return "(x " + hexBytes(v.Bs) + ")"
	case "l", "st":
		var sb strings.Builder
		sb.WriteString("(" + v.K)
		for _, e := range v.L {
			sb.WriteString(" " + e.print(req))
		}
		sb.WriteString(")")

		return sb.String()
	case "m":
		ps := make([][2]string, len(v.M))
		for i, e := range v.M {
			ps[i] = [2]string{e[0].print(req), e[1].print(req)}
		}
		sort.Slice(ps, func(i, j int) bool { return ps[i][0] < ps[j][0] })
		var sb strings.Builder
		sb.WriteString("(m")
		for _, p := range ps {
			sb.WriteString(" (" + p[0] + " " + p[1] + ")")
		}
		sb.WriteString(")")

		return sb.String()
	case "some":
		return "(some " + v.X.print(req) + ")"
	case "if":
		return fmt.Sprintf("(if %d %s)", v.Code, v.X.print(req))
	}
	panic("bad value kind " + v.K)
}

func parseValue(x *SX) (*V, error) {
	if !x.IsL {
		switch x.Atom {
		case "nil", "T", "F":
			return &V{K: x.Atom}, nil
		}

		return nil, fmt.Errorf("bad value atom %q", x.Atom)
	}
	l := x.List
	v := &V{K: x.head()}
	switch v.K {
	case "n":
		n, ok := new(big.Int).SetString(l[1].Atom, 10)
		if !ok {
			return nil, fmt.Errorf("bad number")
		}
		v.N = n
	case "f":
		w, err := strconv.Atoi(l[1].Atom)
		if err != nil {
			return nil, err
		}
		b, err := strconv.ParseUint(l[2].Atom, 10, 64)
		if err != nil {
			return nil, err
		}
		v.W, v.Bits = w, b
	case "s":
		s, err := unhexStr(l[1].Atom)
		if err != nil {
			return nil, err
		}
		v.S = s
	case "x":
		s, err := unhexStr(l[1].Atom)
		if err != nil {
			return nil, err
		}
		v.Bs = []byte(s)
	case "l", "st":
		v.L = []*V{}
		for _, e := range l[1:] {
			c, err := parseValue(e)
			if err != nil {
				return nil, err
			}
			v.L = append(v.L, c)
		}
	case "m":
		for _, e := range l[1:] {
			if !e.IsL || len(e.List) != 2 {
				return nil, fmt.Errorf("bad map entry")
			}
			k, err := parseValue(e.List[0])
			if err != nil {
				return nil, err
			}
			c, err := parseValue(e.List[1])
			if err != nil {
				return nil, err
			}
			v.M = append(v.M, [2]*V{k, c})
		}
	case "some":
		c, err := parseValue(l[1])
		if err != nil {
			return nil, err
		}
		v.X = c
	case "if":
		n, err := strconv.Atoi(l[1].Atom)
		if err != nil {
			return nil, err
		}
		c, err := parseValue(l[2])
		if err != nil {
			return nil, err
		}
		v.Code, v.X = n, c
	default:
		return nil, fmt.Errorf("bad value head %q", v.K)
	}

	return v, nil
}

var errIllTyped = fmt.Errorf("value does not fit the type")

// build realises a value of the schema as a Go value of the realised type.
func build(s *S, v *V) (rv reflect.Value, err error) {
	rv = reflect.New(s.rt).Elem()
	bad := func() (reflect.Value, error) { return rv, fmt.Errorf("%w: %s at %s", errIllTyped, v.K, s.K) }
	switch s.K {
	case "bool":
		if v.K != "T" && v.K != "F" {
			return bad()
		}
		rv.SetBool(v.K == "T")
	case "u":
		if v.K != "n" || v.N.Sign() < 0 || v.N.BitLen() > s.W {
			return bad()
		}
		rv.SetUint(v.N.Uint64())
	case "i":
		if v.K != "n" || !v.N.IsInt64() || rv.OverflowInt(v.N.Int64()) {
			return bad()
		}
		rv.SetInt(v.N.Int64())
	case "f":
		if v.K != "f" {
			return bad()
		}
		// SetFloat on a float32 converts; set the bits exactly instead
		if s.W == 32 {
			rv.Set(reflect.ValueOf(math.Float32frombits(uint32(v.Bits))))
		} else {
			rv.Set(reflect.ValueOf(math.Float64frombits(v.Bits)))
		}
	case "str":
		if v.K != "s" {
			return bad()
		}
		rv.SetString(v.S)
	case "bytes":
		switch v.K {
		case "nil":
		case "x":
			rv.SetBytes(append(make([]byte, 0, len(v.Bs)), v.Bs...))
		default:
			return bad()
		}
	case "barr", "tb":
		if v.K == "nil" {
			if s.P || (s.K == "tb" && s.N < 0) {
				return rv, nil
			}

			return bad()
		}
		if v.K != "x" {
			return bad()
		}
		if s.N < 0 {
			if s.P {
				return bad()
			}
			rv.SetBytes(append(make([]byte, 0, len(v.Bs)), v.Bs...))

			return rv, nil
		}
		if len(v.Bs) != s.N {
			return bad()
		}
		arr := rv
		if s.P {
			rv.Set(reflect.New(s.rt.Elem()))
			arr = rv.Elem()
		}
		reflect.Copy(arr, reflect.ValueOf(v.Bs))
	case "u256":
		switch v.K {
		case "nil":
		case "n":
			rv.Set(reflect.ValueOf(new(big.Int).Set(v.N)))
		default:
			return bad()
		}
	case "time":
		switch v.K {
		case "nil": // time.Time{}
		case "n":
			t, ok := instant(v.N)
			if !ok {
				return bad()
			}
			if !v.N.IsInt64() {
				count("time:beyond-int64-ns")
			}
			rv.Set(reflect.ValueOf(t))
		default:
			return bad()
		}
	case "slice":
		switch v.K {
		case "nil":
		case "l":
			rv.Set(reflect.MakeSlice(s.rt, len(v.L), len(v.L)))
			for i, e := range v.L {
				c, err := build(s.E, e)
				if err != nil {
					return rv, err
				}
				rv.Index(i).Set(c)
			}
		default:
			return bad()
		}
	case "arr":
		if v.K != "l" || len(v.L) != s.N {
			return bad()
		}
		for i, e := range v.L {
			c, err := build(s.E, e)
			if err != nil {
				return rv, err
			}
			rv.Index(i).Set(c)
		}
	case "map":
		switch v.K {
		case "nil":
		case "m":
			rv.Set(reflect.MakeMap(s.rt))
			for _, e := range v.M {
				k, err := build(s.KT, e[0])
				if err != nil {
					return rv, err
				}
				c, err := build(s.E, e[1])
				if err != nil {
					return rv, err
				}
				if rv.MapIndex(k).IsValid() {
					return rv, fmt.Errorf("%w: duplicate map key", errIllTyped)
				}
				rv.SetMapIndex(k, c)
			}
		default:
			return bad()
		}
	case "struct":
		if v.K != "st" || len(v.L) != len(s.Fields) {
			return bad()
		}
		for i, f := range s.Fields {
			e := v.L[i]
			fv := rv.Field(f.idx)
			if f.Mode == "emb" && f.P {
				if e.K == "nil" {
					continue
				}
				if e.K != "some" {
					return bad()
				}
				c, err := build(f.T, e.X)
				if err != nil {
					return rv, err
				}
				p := reflect.New(f.T.rt)
				p.Elem().Set(c)
				fv.Set(p)

				continue
			}
			c, err := build(f.T, e)
			if err != nil {
				return rv, err
			}
			fv.Set(c)
		}
	case "ptr":
		switch v.K {
		case "nil":
		case "some":
			c, err := build(s.E, v.X)
			if err != nil {
				return rv, err
			}
			p := reflect.New(s.E.rt)
			p.Elem().Set(c)
			rv.Set(p)
		default:
			return bad()
		}
	case "iface":
		switch v.K {
		case "nil":
		case "if":
			for _, a := range s.Alts {
				if a.Code == v.Code {
					c, err := build(a.T, v.X)
					if err != nil {
						return rv, err
					}
					rv.Set(c)

					return rv, nil
				}
			}

			return bad()
		default:
			return bad()
		}
	default:
		return bad()
	}

	return rv, nil
}

// read turns a Go value of the realised type back into a V (nil-ness of slices, maps and pointers kept).
func read(s *S, rv reflect.Value) *V {
	switch s.K {
	case "bool":
		if rv.Bool() {
			return &V{K: "T"}
		}

		return &V{K: "F"}
	case "u":
		return &V{K: "n", N: new(big.Int).SetUint64(rv.Uint())}
	case "i":
		return &V{K: "n", N: big.NewInt(rv.Int())}
	case "f":
		if s.W == 32 {
			return &V{K: "f", W: 32, Bits: uint64(math.Float32bits(float32(rv.Float())))}
		}

		return &V{K: "f", W: 64, Bits: math.Float64bits(rv.Float())}
	case "str":
		return &V{K: "s", S: rv.String()}
	case "bytes":
		if rv.IsNil() {
			return &V{K: "nil"}
		}

		return &V{K: "x", Bs: append([]byte{}, rv.Bytes()...)}
	case "barr", "tb":
		if s.N < 0 {
			if rv.IsNil() {
				return &V{K: "nil"}
			}

			return &V{K: "x", Bs: append([]byte{}, rv.Bytes()...)}
		}
		if s.P {
			if rv.IsNil() {
				return &V{K: "nil"}
			}
			rv = rv.Elem()
		}
		b := make([]byte, rv.Len())
		reflect.Copy(reflect.ValueOf(b), rv)

		return &V{K: "x", Bs: b}
	case "u256":
		if rv.IsNil() {
			return &V{K: "nil"}
		}

		return &V{K: "n", N: new(big.Int).Set(rv.Interface().(*big.Int))}
	case "time":
		t := rv.Interface().(time.Time)
		if t.IsZero() {
			return &V{K: "nil"}
		}

		return &V{K: "n", N: nanosOf(t)}
	case "slice":
		if rv.IsNil() {
			return &V{K: "nil"}
		}
		v := &V{K: "l", L: []*V{}}
		for i := 0; i < rv.Len(); i++ {
			v.L = append(v.L, read(s.E, rv.Index(i)))
		}

		return v
	case "arr":
		v := &V{K: "l", L: []*V{}}
		for i := 0; i < rv.Len(); i++ {
			v.L = append(v.L, read(s.E, rv.Index(i)))
		}

		return v
	case "map":
		if rv.IsNil() {
			return &V{K: "nil"}
		}
		v := &V{K: "m"}
		it := rv.MapRange()
		for it.Next() {
			v.M = append(v.M, [2]*V{read(s.KT, it.Key()), read(s.E, it.Value())})
		}

		return v
	case "struct":
		v := &V{K: "st", L: []*V{}}
		for _, f := range s.Fields {
			fv := rv.Field(f.idx)
			if f.Mode == "emb" && f.P {
				if fv.IsNil() {
					v.L = append(v.L, &V{K: "nil"})
				} else {
					v.L = append(v.L, &V{K: "some", X: read(f.T, fv.Elem())})
				}

				continue
			}
			v.L = append(v.L, read(f.T, fv))
		}

		return v
	case "ptr":
		if rv.IsNil() {
			return &V{K: "nil"}
		}

		return &V{K: "some", X: read(s.E, rv.Elem())}
	case "iface":
		if rv.IsNil() {
			return &V{K: "nil"}
		}
		dyn := rv.Elem()
		for _, a := range s.Alts {
			if a.T.rt == dyn.Type() {
				return &V{K: "if", Code: a.Code, X: read(a.T, dyn)}
			}
		}

		return &V{K: "s", S: "unregistered dynamic type " + dyn.Type().String()}
	}
	panic("read: bad kind " + s.K)
}

// ---- the documented result of JSONDecode(JSONEncode(v)) ----
//
// The JSON/map form does not hand every Go value back bit for bit.  What the code does, and what the round-trip
// oracle therefore expects exactly (design/C01b.md, "Values that come back different"):
//   - a nil slice / nil []byte is written as [] / "" and comes back empty and non-nil; a nil map is written as {}
//     and comes back empty and non-nil;
//   - an `omitempty` field whose value reflect.Value.IsZero regards as zero (or an empty slice) is not written and
//     the decoder leaves the zero value there, except that a nil slice becomes an empty one: a nil map, nil
//     pointers, time.Time{}, -0 (IsZero compares floats with == 0: it comes back as +0) and a zero struct with
//     nil slices inside come back as the plain zero value;
//   - an `optional` nil pointer / interface is not written and stays nil;
//   - a time before the Unix epoch (time.Time{} included) is written as "0" (serializer.TimeToUint64) and comes back
//     as the epoch;
//   - a float comes back as strconv.ParseFloat(strconv.FormatFloat(v)): every NaN as the canonical quiet NaN,
//     -0 (outside omitempty) as -0.

func allZero(b []byte) bool {
	for _, x := range b {
		if x != 0 {
			return false
		}
	}

	return true
}

// goIsZero is reflect.Value.IsZero of the value.
func goIsZero(s *S, v *V) bool {
	switch s.K {
	case "bool":
		return v.K == "F"
	case "u", "i":
		return v.N.Sign() == 0
	case "f":
		return floatOf(s.W, v.Bits) == 0
	case "str":
		return v.S == ""
	case "barr", "tb":
		if s.P || s.N < 0 {
			return v.K == "nil"
		}

		return allZero(v.Bs)
	case "arr":
		for _, e := range v.L {
			if !goIsZero(s.E, e) {
				return false
			}
		}

		return true
	case "struct":
		for i, f := range s.Fields {
			e := v.L[i]
			if f.Mode == "emb" && f.P {
				if e.K != "nil" {
					return false
				}

				continue
			}
			if !goIsZero(f.T, e) {
				return false
			}
		}

		return true
	default: // bytes, slice, map, u256, time, ptr, iface: nil (time: time.Time{})
		return v.K == "nil"
	}
}

// isValueEmpty is serix's API.isValueEmpty: IsZero, or a slice of length 0.
func isValueEmpty(s *S, v *V) bool {
	if goIsZero(s, v) {
		return true
	}
	switch s.K {
	case "slice":
		return v.K == "l" && len(v.L) == 0
	case "bytes":
		return v.K == "x" && len(v.Bs) == 0
	case "tb":
		return !s.P && s.N < 0 && v.K == "x" && len(v.Bs) == 0
	}

	return false
}

func goZeroValue(s *S) *V {
	switch s.K {
	case "bool":
		return &V{K: "F"}
	case "u", "i":
		return num(0)
	case "f":
		return &V{K: "f", W: s.W}
	case "str":
		return &V{K: "s"}
	case "barr", "tb":
		if s.P || s.N < 0 {
			return &V{K: "nil"}
		}

		return &V{K: "x", Bs: make([]byte, s.N)}
	case "arr":
		v := &V{K: "l", L: []*V{}}
		for i := 0; i < s.N; i++ {
			v.L = append(v.L, goZeroValue(s.E))
		}

		return v
	case "struct":
		v := &V{K: "st", L: []*V{}}
		for _, f := range s.Fields {
			if f.Mode == "emb" && f.P {
				v.L = append(v.L, &V{K: "nil"})
			} else {
				v.L = append(v.L, goZeroValue(f.T))
			}
		}

		return v
	}

	return &V{K: "nil"}
}

// missingValue is what a fresh decode target holds for an optional / omitempty field whose key is missing.
func missingValue(s *S) *V {
	switch s.K {
	case "slice":
		return &V{K: "l", L: []*V{}}
	case "bytes":
		return &V{K: "x"}
	case "tb":
		if !s.P && s.N < 0 {
			return &V{K: "x"}
		}
	}

	return goZeroValue(s)
}

// expect is the documented result of decoding the encoding of v.
func expect(s *S, v *V) *V {
	c := *v
	switch s.K {
	case "f":
		_, c.Bits = floatText(s.W, v.Bits)
	case "bytes":
		if v.K == "nil" {
			return &V{K: "x"}
		}
	case "tb":
		if v.K == "nil" && s.N < 0 && !s.P {
			return &V{K: "x"}
		}
	case "time":
		// serializer.TimeToUint64 saturates on both sides: before the epoch -> 0, from 2^63 ns on -> MaxInt64
		if v.K == "nil" || v.N.Sign() < 0 {
			return num(0)
		}
		if !v.N.IsInt64() {
			return num(math.MaxInt64)
		}
	case "slice", "arr":
		if v.K == "nil" {
			return &V{K: "l", L: []*V{}}
		}
		c.L = []*V{}
		for _, e := range v.L {
			c.L = append(c.L, expect(s.E, e))
		}
	case "map":
		if v.K == "nil" {
			return &V{K: "m"}
		}
		c.M = nil
		for _, e := range v.M {
			c.M = append(c.M, [2]*V{expect(s.KT, e[0]), expect(s.E, e[1])})
		}
	case "struct":
		c.L = []*V{}
		for i, f := range s.Fields {
			e := v.L[i]
			switch {
			case f.Mode == "emb" && f.P:
				if e.K == "some" {
					e = &V{K: "some", X: expect(f.T, e.X)}
				}
				c.L = append(c.L, e)
			case f.Mode != "fld":
				c.L = append(c.L, expect(f.T, e))
			case f.Omit && isValueEmpty(f.T, e):
				c.L = append(c.L, missingValue(f.T))
			case f.Opt && e.K == "nil":
				c.L = append(c.L, missingValue(f.T))
			default:
				c.L = append(c.L, expect(f.T, e))
			}
		}
	case "ptr":
		if v.K == "some" {
			c.X = expect(s.E, v.X)
		}
	case "iface":
		if v.K == "if" {
			for _, a := range s.Alts {
				if a.Code == v.Code {
					c.X = expect(a.T, v.X)
				}
			}
		}
	}

	return &c
}

// count is r.Count of the run (set by main); build and read have no run at hand.
var count = func(string) {}

// instant is the time.Time lying n nanoseconds after the Unix epoch, for every n a time.Time can hold (the
// seconds since the epoch must fit an int64 with room for time's internal year-1 offset): not only the int64
// nanosecond range time.Unix(0, n) covers.
func instant(n *big.Int) (time.Time, bool) {
	sec, nsec := new(big.Int).DivMod(n, big.NewInt(1_000_000_000), new(big.Int)) // Euclidean: 0 <= nsec < 1e9
	if !sec.IsInt64() || sec.Int64() > maxInstantSeconds || sec.Int64() < -maxInstantSeconds {
		return time.Time{}, false
	}

	return time.Unix(sec.Int64(), nsec.Int64()).UTC(), true
}

// maxInstantSeconds keeps Unix()+unixToInternal inside int64 (time.Time stores seconds since year 1).
const maxInstantSeconds = int64(1) << 62

// nanosOf is the exact nanosecond count of t since the epoch (UnixNano is undefined outside 1678..2262).
func nanosOf(t time.Time) *big.Int {
	n := new(big.Int).Mul(big.NewInt(t.Unix()), big.NewInt(1_000_000_000))

	return n.Add(n, big.NewInt(int64(t.Nanosecond())))
}

// allHard returns "bigint-range" if a big.Int outside 0 <= n < 2^256 occurs anywhere in the value: EncodeUint256
// writes it, DecodeUint256 refuses it - the one kind of value for which the oracle expects no result.
func allHard(s *S, v *V) string {
	if s == nil || v == nil {
		return ""
	}
	switch s.K {
	case "u256":
		if v.K == "n" && (v.N.Sign() < 0 || v.N.BitLen() > 256) {
			return "bigint-range"
		}
	case "slice", "arr":
		for _, e := range v.L {
			if r := allHard(s.E, e); r != "" {
				return r
			}
		}
	case "map":
		for _, e := range v.M {
			if r := allHard(s.E, e[1]); r != "" {
				return r
			}
		}
	case "struct":
		for i, f := range s.Fields {
			e := v.L[i]
			if f.Mode == "emb" && f.P {
				e = e.X
			}
			if r := allHard(f.T, e); r != "" {
				return r
			}
		}
	case "ptr":
		return allHard(s.E, v.X)
	case "iface":
		if v.K == "if" {
			for _, a := range s.Alts {
				if a.Code == v.Code {
					return allHard(a.T, v.X)
				}
			}
		}
	}

	return ""
}

// hardReason: the only values whose encoding cannot be decoded at all (the oracle expects nothing for them).
func hardReason(r string) bool { return r == "bigint-range" || r == "non-utf8" }

// soft reasons leave the round trip intact up to canon (nil = empty collection, -0 = +0 as Go floats).
func isSoft(r string) bool { return r == "nil-collection" || r == "neg-zero" }

// valueInexpressible: "" or the first reason why the map form cannot carry this value (the harness's own
// statement of ValExpressible; "nil-collection" is the only reason the round-trip oracle tolerates, because
// it compares up to canon).
func valueInexpressible(s *S, v *V) string {
	switch s.K {
	case "f":
		if _, back := floatText(s.W, v.Bits); back != v.Bits {
			return "float-text"
		}
		if v.Bits == uint64(1)<<(s.W-1) {
			return "neg-zero"
		}
	case "str":
		if !utf8.ValidString(v.S) {
			return "non-utf8"
		}
	case "bytes":
		if v.K == "nil" {
			return "nil-collection"
		}
	case "tb":
		if v.K == "nil" && s.N < 0 {
			return "nil-collection"
		}
	case "u256":
		if v.K == "n" && (v.N.Sign() < 0 || v.N.BitLen() > 256) {
			return "bigint-range"
		}
	case "time":
		if v.K == "nil" || v.N.Sign() < 0 || !v.N.IsInt64() {
			return "time-range"
		}
	case "slice", "arr":
		if v.K == "nil" {
			return "nil-collection"
		}
		hard := ""
		for _, e := range v.L {
			if r := valueInexpressible(s.E, e); r != "" {
				if !isSoft(r) {
					return r
				}
				hard = r
			}
		}

		return hard
	case "map":
		if v.K == "nil" {
			return "nil-collection"
		}
		soft := ""
		for _, e := range v.M {
			for i, t := range []*S{s.KT, s.E} {
				if r := valueInexpressible(t, e[i]); r != "" {
					if !isSoft(r) {
						return r
					}
					soft = r
				}
			}
		}

		return soft
	case "struct":
		soft := ""
		for i, f := range s.Fields {
			e := v.L[i]
			if f.Mode == "emb" && f.P {
				if e.K == "nil" {
					continue
				}
				e = e.X
			}
			if r := valueInexpressible(f.T, e); r != "" {
				if !isSoft(r) {
					return r
				}
				soft = r
			}
		}

		return soft
	case "ptr":
		if v.K == "some" {
			return valueInexpressible(s.E, v.X)
		}
	case "iface":
		if v.K == "if" {
			for _, a := range s.Alts {
				if a.Code == v.Code {
					return valueInexpressible(a.T, v.X)
				}
			}
		}
	}

	return ""
}
