// Go-only stream of the C01b harness: the parts of the map form the Lean model leaves out, checked on the
// implementation alone (no op lines, so the Lean correspondence is untouched; every case is an empty `# case`).
//
//   - self-serialising types (serix.SerializableJSON / DeserializableJSON, goonly_types.go) by value, through
//     pointers, optional / omitempty, as slice / array elements, map keys and values, interface alternatives;
//   - syntactic validators (API.RegisterValidator) for a random subset of the types, each a deterministic rule the
//     harness evaluates itself;
//   - ArrayRules (MustOccur, Min, Max) registered for the slice / array types of interface values;
//   - inlined pointers, inlined struct values, embedded interfaces.
//
// Per case one of three fixed schemas, a fresh serix.API, a random value; the harness walks the value the way
// the documentation says serix does (goonly_walk below: which nodes are handed to a validator, which nodes
// serialise themselves, which collections carry rules) and states what has to happen, for validation off and on:
//
//	JSONEncode fails  <=>  a self-serialising node refuses  \/  (validation /\ (a registered validator rejects a node
//	                       \/ a collection violates its registered rules))
//	validators are never called without WithValidation; with it, on success, once per node of a registered type;
//	EncodeJSON / DecodeJSON are called once per self-serialising node;
//	JSONDecode(JSONEncode(v)) = v (reflect.DeepEqual; the generator keeps to values that come back as themselves:
//	no nil slices / maps), under the same and - unless a rule / validator objects - under the other validation mode;
//	MapEncode+json.Marshal = JSONEncode, json.Unmarshal+MapDecode = JSONDecode, encoding twice gives the same
//	document (the same bytes unless a Go map with two or more entries was traversed).
//
// A failure is reported through r.Fail with the complete input in the detail (family, sub-seed, registrations,
// value in Go syntax, validation flag); `C01B_GOONLY=<family>:<sub-seed>` re-runs that one case.
package main

import (
	"bytes"
	"context"
	"crypto/sha256"
	"encoding/json"
	"errors"
	"fmt"
	"os"
	"reflect"
	"sort"
	"strconv"
	"strings"
	"time"

	"verifharness/hx"

	"github.com/iotaledger/hive.go/serializer/v2"
	"github.com/iotaledger/hive.go/serializer/v2/serix"
)

var gxFamilies = []string{"custom", "mustoccur", "inlined"}

var errGxRejected = errors.New("goonly: rejected by the validator's rule")

// gxReportValidatorSkip: RegisterValidator documents "the validation is called for every registered type during the
// recursive traversal".  mapEncode does not call the validator registered for a self-serialising type when the
// value sits in an interface (struct field, slice element, map value of an interface type): with WithValidation on
// both sides JSONEncode then accepts a value whose document JSONDecode refuses.  Observed on the unchanged tree;
// while this is false the stream first looks which of the two the code does (gxProbeValidatorSkip: one fixed
// value), expects that of every case and counts the occurrences (goonly:deviation:*); true makes the documented
// behaviour the expectation (the skip is then an oracle failure goonly-validator / encode / call-count or
// accepted-rejected-node).
const gxReportValidatorSkip = true

type gxRules struct {
	min, max uint
	must     []uint32
}

func (rl *gxRules) String() string {
	return fmt.Sprintf("{Min:%d Max:%d MustOccur:%v}", rl.min, rl.max, rl.must)
}

type gxCase struct {
	fam    string
	sub    uint64
	api    *serix.API
	val    reflect.Value                             // pointer to the top-level value
	rules  map[reflect.Type]func(reflect.Value) bool // registered validators: true = the rule rejects the value
	vcalls map[reflect.Type]int                      // calls of the registered validators
	arules map[reflect.Type]*gxRules                 // registered array rules
	codes  map[reflect.Type]uint32                   // object code of every interface alternative (by struct type)
	setup  []string
}

func gxMust(err error) {
	if err != nil {
		panic("goonly setup: " + err.Error())
	}
}

func gxNewCase(fam string, sub uint64) *gxCase {
	c := &gxCase{fam: fam, sub: sub, api: serix.NewAPI(), rules: map[reflect.Type]func(reflect.Value) bool{},
		vcalls: map[reflect.Type]int{}, arules: map[reflect.Type]*gxRules{}, codes: map[reflect.Type]uint32{}}
	code := func(obj any, oc any) {
		gxMust(c.api.RegisterTypeSettings(obj, serix.TypeSettings{}.WithObjectType(oc)))
		switch n := oc.(type) {
		case uint8:
			c.codes[reflect.TypeOf(obj)] = uint32(n)
		case uint32:
			c.codes[reflect.TypeOf(obj)] = n
		}
	}
	code(gxLeaf{}, uint8(1))
	code(gxPair{}, uint8(2))
	code(gxTagged{}, uint8(3))
	code(gxTaggedP{}, uint8(4))
	gxMust(c.api.RegisterInterfaceObjects((*GxNode)(nil), gxLeaf{}, (*gxPair)(nil), gxTagged{}, (*gxTaggedP)(nil)))
	code(gxSq{}, uint32(1))
	code(gxRect{}, uint32(2))
	code(gxTri{}, uint32(70000))
	code(gxBlob{}, uint32(5))
	gxMust(c.api.RegisterInterfaceObjects((*GxShape)(nil), gxSq{}, (*gxRect)(nil), gxTri{}, gxBlob{}))

	return c
}

// gxReg registers a counting validator for T whose verdict is rule (true = reject).
func gxReg[T any](c *gxCase, on bool, rule func(T) bool) {
	if !on {
		return
	}
	var zero T
	t := reflect.TypeOf(zero)
	c.rules[t] = func(v reflect.Value) bool {
		x, _ := v.Interface().(T)

		return rule(x)
	}
	gxMust(c.api.RegisterValidator(zero, func(_ context.Context, x T) error {
		c.vcalls[t]++
		if rule(x) {
			return errGxRejected
		}

		return nil
	}))
	c.setup = append(c.setup, "validator("+gxTypeName(t)+")")
}

func (c *gxCase) regRules(obj any, rl *gxRules) {
	if rl == nil {
		return
	}
	mo := serializer.TypePrefixes{}
	for _, k := range rl.must {
		mo[k] = struct{}{}
	}
	gxMust(c.api.RegisterTypeSettings(obj, serix.TypeSettings{}.WithArrayRules(&serix.ArrayRules{Min: rl.min, Max: rl.max, MustOccur: mo})))
	c.arules[reflect.TypeOf(obj)] = rl
	c.setup = append(c.setup, "rules("+gxTypeName(reflect.TypeOf(obj))+")="+rl.String())
}

// ---------------------------------------------------------------------------------------------------------------
// generator

type gxGen struct {
	rng     *hx.Rng
	rejects bool // plant values the validators' rules reject
	refuse  bool // plant a gxStr that refuses to encode itself
	comply  bool // collections whose type carries array rules are built to satisfy them
}

var gxPool = []string{"", "a", "zz", "héllo", "日本", "q\"uote", "back\\slash", "<tag>&", "sp ace", "colon:in:side", "line sep",
	"new\nline", "tab\t", "😀", "0", "id-00000001", "null", "{}", "type"}

func (g *gxGen) mark() bool { return g.rejects && g.rng.Chance(1, 14) }

func (g *gxGen) text() string { return hx.Pick(g.rng, gxPool) }

func (g *gxGen) texts(max int) []string {
	out := make([]string, g.rng.Intn(max+1))
	for i := range out {
		out[i] = g.text()
	}

	return out
}

func (g *gxGen) name() gxName {
	if g.mark() {
		return "reject"
	}

	return gxName(g.text())
}

func (g *gxGen) str() gxStr {
	s := gxStr{N: uint16(g.rng.Intn(10)), S: g.text()}
	if g.rng.Chance(1, 4) {
		s.N = uint16(1000 + g.rng.Intn(64000))
	}
	if g.mark() {
		s.N = 13
	}
	if g.refuse && g.rng.Chance(1, 10) {
		s.S = gxUnencodable
	}

	return s
}

func (g *gxGen) strP() *gxStr {
	s := g.str()

	return &s
}

func (g *gxGen) id() gxID {
	if g.mark() {
		return 0xdead
	}
	if g.rng.Bool() {
		return gxID(2 + g.rng.Intn(40))
	}

	return gxID(0x10000 + uint32(g.rng.U64()%0xfffe0000))
}

func (g *gxGen) obj() *gxObj {
	o := &gxObj{Name: g.text(), On: g.rng.Bool(), Tags: g.texts(3)}
	if g.mark() {
		o.Name = "reject"
	}

	return o
}

func (g *gxGen) arr() gxArr {
	if g.mark() {
		return gxArr{Rows: [][]string{{"reject"}}}
	}
	a := gxArr{Rows: make([][]string, g.rng.Intn(4))}
	for i := range a.Rows {
		a.Rows[i] = g.texts(3)
	}

	return a
}

func (g *gxGen) inner() gxInner {
	in := gxInner{Key: g.name(), A: uint8(g.rng.Intn(100)), Str: g.str(), Ids: make([]gxID, g.rng.Intn(3))}
	in.B = in.A + uint8(g.rng.Intn(100))
	if g.mark() {
		in.A = in.B + 1
	}
	for i := range in.Ids {
		in.Ids[i] = g.id()
	}

	return in
}

// node draws an alternative of GxNode; plain = only the alternatives serix encodes itself.
func (g *gxGen) node(plain bool) GxNode {
	n := 4
	if plain {
		n = 2
	}
	switch g.rng.Intn(n) {
	case 0:
		return gxLeaf{Name: g.name(), Val: uint32(g.rng.U64()), Bad: g.mark()}
	case 1:
		p := &gxPair{L: g.str()}
		if g.mark() {
			p.L.N = 14
		}
		if g.rng.Bool() {
			p.R = g.obj()
		}

		return p
	case 2:
		if g.mark() {
			return gxTagged{V: "reject"}
		}

		return gxTagged{V: g.text()}
	default:
		if g.mark() {
			return &gxTaggedP{Vs: []string{"reject"}}
		}

		return &gxTaggedP{Vs: g.texts(3)}
	}
}

func (g *gxGen) nodeOf(code uint32) GxNode {
	switch code {
	case 1:
		return gxLeaf{Name: g.name(), Val: uint32(g.rng.Intn(1000))}
	case 2:
		return &gxPair{L: g.str()}
	case 3:
		return gxTagged{V: g.text()}
	case 4:
		return &gxTaggedP{Vs: g.texts(2)}
	}

	return nil
}

func (g *gxGen) shapeOf(code uint32) GxShape {
	switch code {
	case 1:
		s := gxSq{Side: uint8(g.rng.Intn(90))}
		if g.mark() {
			s.Side = 99
		}

		return s
	case 2:
		r := &gxRect{W: uint16(g.rng.Intn(700)), H: uint16(g.rng.U64())}
		if g.mark() {
			r.W = 777
		}

		return r
	case 70000:
		return gxTri{Name: g.name()}
	case 5:
		if g.mark() {
			return gxBlob{Hex: "reject"}
		}

		return gxBlob{Hex: g.text()}
	}

	return nil
}

var (
	gxShapeCodes = []uint32{1, 2, 70000, 5}
	gxNodeCodes  = []uint32{1, 2, 3, 4}
)

func (g *gxGen) shape() GxShape { return g.shapeOf(hx.Pick(g.rng, gxShapeCodes)) }

// shapes draws a list; when rules are registered for its type and the case complies, the must-occur codes occur
// and the length is within the bounds (as far as the alternatives allow: code 9 belongs to none).
func (g *gxGen) shapes(rl *gxRules, max int) []GxShape {
	out := make([]GxShape, 0, max+3)
	comply := rl != nil && g.comply
	if comply {
		for _, k := range rl.must {
			if s := g.shapeOf(k); s != nil {
				out = append(out, s)
			}
		}
	}
	for n := g.rng.Intn(max + 1); n > 0; n-- {
		out = append(out, g.shape())
	}
	if comply {
		for uint(len(out)) < rl.min {
			out = append(out, g.shape())
		}
		if rl.max != 0 && uint(len(out)) > rl.max {
			out = out[:rl.max]
		}
	}

	return out
}

func (g *gxGen) nodes(rl *gxRules, max int) []GxNode {
	out := make([]GxNode, 0, max+3)
	comply := rl != nil && g.comply
	if comply {
		for _, k := range rl.must {
			if s := g.nodeOf(k); s != nil {
				out = append(out, s)
			}
		}
	}
	for n := g.rng.Intn(max + 1); n > 0; n-- {
		out = append(out, g.node(false))
	}
	if comply {
		for uint(len(out)) < rl.min {
			out = append(out, g.node(false))
		}
		if rl.max != 0 && uint(len(out)) > rl.max {
			out = out[:rl.max]
		}
	}

	return out
}

// rules draws array rules over the given object codes (rarely a code no alternative has).
func (g *gxGen) rules(codes []uint32) *gxRules {
	if g.rng.Chance(1, 3) {
		return nil
	}
	rl := &gxRules{min: hx.Pick(g.rng, []uint{0, 0, 0, 1, 2}), max: hx.Pick(g.rng, []uint{0, 0, 0, 3, 5})}
	seen := map[uint32]bool{}
	for n := g.rng.Intn(3); n > 0; n-- {
		k := hx.Pick(g.rng, codes)
		if g.rng.Chance(1, 20) {
			k = 9
		}
		if !seen[k] {
			seen[k] = true
			rl.must = append(rl.must, k)
		}
	}

	return rl
}

func (g *gxGen) customTop() *gxCustomTop {
	t := &gxCustomTop{Str: g.str(), StrP: g.strP(), Obj: g.obj(), Arr: g.arr(), ID: g.id(),
		Strs: []gxStr{}, StrsE: []gxStr{}, StrPs: []*gxStr{}, ObjPs: []*gxObj{}, Pair: [2]gxStr{g.str(), g.str()},
		ByKey: map[gxID]gxStr{}, ObjM: map[string]*gxObj{}, Any: g.node(false), Anys: []GxNode{}, Inner: g.inner()}
	if g.rng.Bool() {
		t.StrV = g.str()
	}
	if g.rng.Bool() {
		t.StrO = g.strP()
	}
	if g.rng.Bool() {
		t.StrE = g.strP()
		if g.rng.Chance(1, 4) {
			t.StrE = &gxStr{} // a pointer to the zero value is not empty
		}
	}
	if g.rng.Bool() {
		t.ObjO = g.obj()
	}
	if g.rng.Bool() {
		a := g.arr()
		t.ArrP = &a
	}
	if g.rng.Bool() {
		id := g.id()
		t.IDP = &id
	}
	for n := g.rng.Intn(4); n > 0; n-- {
		t.Strs = append(t.Strs, g.str())
	}
	if g.mark() {
		t.Strs = []gxStr{g.str(), g.str(), g.str(), g.str()}
	}
	for n := g.rng.Intn(3); n > 0; n-- {
		t.StrsE = append(t.StrsE, g.str())
	}
	for n := g.rng.Intn(3); n > 0; n-- {
		t.StrPs = append(t.StrPs, g.strP())
	}
	for n := g.rng.Intn(3); n > 0; n-- {
		t.ObjPs = append(t.ObjPs, g.obj())
	}
	if g.mark() {
		t.Pair[0].N = 15
	}
	for n := g.rng.Intn(4); n > 0; n-- {
		t.ByKey[g.id()] = g.str()
	}
	for n := g.rng.Intn(4); n > 0; n-- {
		t.ObjM[g.text()] = g.obj()
	}
	if g.mark() {
		t.ObjM["reject"] = g.obj()
	}
	if g.rng.Bool() {
		t.AnyO = g.node(false)
	}
	for n := g.rng.Intn(4); n > 0; n-- {
		t.Anys = append(t.Anys, g.node(false))
	}
	if g.rng.Bool() {
		in := g.inner()
		t.InnP = &in
	}
	if g.mark() {
		t.ID = 1
	}

	return t
}

func (g *gxGen) moTop(c *gxCase) *gxMOTop {
	rs, rn := c.arules[reflect.TypeOf([]GxShape{})], c.arules[reflect.TypeOf([]GxNode{})]
	t := &gxMOTop{Shapes: g.shapes(rs, 4), Named: g.shapes(c.arules[reflect.TypeOf(gxShapeList{})], 4),
		Nodes: g.nodes(rn, 4), Nested: [][]GxShape{}, ByName: map[string][]GxNode{}}
	fixed := g.shapes(c.arules[reflect.TypeOf([2]GxShape{})], 0)
	for len(fixed) < 2 {
		fixed = append(fixed, g.shape())
	}
	t.Fixed = [2]GxShape{fixed[0], fixed[1]}
	for n := g.rng.Intn(3); n > 0; n-- {
		t.Nested = append(t.Nested, g.shapes(rs, 3))
	}
	for n := g.rng.Intn(3); n > 0; n-- {
		t.ByName[g.text()] = g.nodes(rn, 3)
	}
	if g.rng.Bool() {
		t.Opt = &gxMOInner{Shapes: g.shapes(rs, 3)}
	}

	return t
}

func (g *gxGen) inlTop() *gxInlTop {
	t := &gxInlTop{Head: g.name(), Body: &gxInlBody{X: uint8(g.rng.Intn(200)), Y: g.str()}, Val: gxInlVal{P: g.name(), Q: g.id()},
		GxNode: g.node(true)}
	if g.mark() {
		t.Body.X = 200
	}
	if g.rng.Bool() {
		t.Tail = g.node(false)
	}

	return t
}

// gxBuild makes the case of the given family from its sub-seed: registrations and value.
func gxBuild(fam string, sub uint64) *gxCase {
	rng := hx.NewRng(sub)
	c := gxNewCase(fam, sub)
	g := &gxGen{rng: rng}
	// validators: none / a random subset / all of the registrable types
	vmode := rng.Intn(4)
	on := func() bool { return vmode == 3 || (vmode >= 1 && rng.Bool()) }
	g.rejects = vmode >= 1 && rng.Bool()
	g.refuse = rng.Chance(1, 8)
	g.comply = rng.Chance(3, 4)
	gxReg(c, on(), func(x gxStr) bool { return x.N == 13 })
	gxReg(c, on(), func(x gxObj) bool { return x.Name == "reject" })
	gxReg(c, on(), func(x gxArr) bool { return len(x.Rows) == 1 && len(x.Rows[0]) == 1 && x.Rows[0][0] == "reject" })
	gxReg(c, on(), func(x gxID) bool { return x == 0xdead })
	gxReg(c, on(), func(x gxName) bool { return x == "reject" })
	gxReg(c, on(), func(x gxInner) bool { return x.A > x.B })
	gxReg(c, on(), func(x gxLeaf) bool { return x.Bad })
	gxReg(c, on(), func(x gxPair) bool { return x.L.N == 14 })
	gxReg(c, on(), func(x gxTagged) bool { return x.V == "reject" })
	gxReg(c, on(), func(x gxTaggedP) bool { return len(x.Vs) == 1 && x.Vs[0] == "reject" })
	gxReg(c, on(), func(x []gxStr) bool { return len(x) == 4 })
	gxReg(c, on(), func(x [2]gxStr) bool { return x[0].N == 15 })
	gxReg(c, on(), func(x map[string]*gxObj) bool { _, has := x["reject"]; return has })
	gxReg(c, on(), func(x gxCustomTop) bool { return x.ID == 1 })
	gxReg(c, on(), func(x gxSq) bool { return x.Side == 99 })
	gxReg(c, on(), func(x gxRect) bool { return x.W == 777 })
	gxReg(c, on(), func(x gxTri) bool { return x.Name == "reject" })
	gxReg(c, on(), func(x gxBlob) bool { return x.Hex == "reject" })
	gxReg(c, on(), func(x gxInlBody) bool { return x.X == 200 })
	gxReg(c, on(), func(x gxInlVal) bool { return x.Q == 0xdead })
	switch fam {
	case "custom":
		c.val = reflect.ValueOf(g.customTop())
	case "mustoccur":
		c.regRules([]GxShape{}, g.rules(gxShapeCodes))
		c.regRules(gxShapeList{}, g.rules(gxShapeCodes))
		c.regRules([2]GxShape{}, g.rules(gxShapeCodes))
		c.regRules([]GxNode{}, g.rules(gxNodeCodes))
		c.val = reflect.ValueOf(g.moTop(c))
	case "inlined":
		c.val = reflect.ValueOf(g.inlTop())
	default:
		panic("goonly: unknown family " + fam)
	}

	return c
}

// ---------------------------------------------------------------------------------------------------------------
// the harness's own statement of what serix has to do with a value

type gxExpect struct {
	custom     int                  // nodes that serialise themselves
	refuses    bool                 // one of them refuses to encode
	nilNode    bool                 // a nil pointer / interface that is not optional (not generated; the encoder refuses it)
	vnodes     map[reflect.Type]int // nodes handed to a registered validator, per type
	rejected   bool                 // one of them is rejected by its rule
	vskipped   map[reflect.Type]int // of vnodes: the ones the ENCODER does not hand to the validator (see gxReportValidatorSkip)
	rejectedE  bool                 // a node the encoder does hand to its validator is rejected
	ruleBroken bool                 // a collection violates the array rules registered for its type
	ruleNodes  int                  // collections with registered rules
	multiMap   bool                 // a Go map with two or more entries is traversed (member order may differ between encodings)
}

func gxTagParts(f reflect.StructField) (has, optional, omitempty, inlined bool) {
	tag, ok := f.Tag.Lookup("serix")
	if !ok {
		return false, false, false, false
	}
	parts := strings.Split(tag, ",")
	for _, p := range parts[1:] {
		switch p {
		case "optional":
			optional = true
		case "omitempty":
			omitempty = true
		case "inlined":
			inlined = true
		}
	}

	return true, optional, omitempty, inlined
}

func gxRefuses(x any) bool {
	switch s := x.(type) {
	case gxStr:
		return s.S == gxUnencodable
	case *gxStr:
		return s != nil && s.S == gxUnencodable
	}

	return false
}

// walk visits v as one node of the traversal: the documentation of RegisterValidator ("called for every registered
// type during the recursive traversal", pointers dereferenced), of SerializableJSON ("serix will call its method
// instead of trying to serialize it in the default way") and of the struct tags decide what happens at a node.
func (c *gxCase) walk(v reflect.Value, e *gxExpect) {
	t := v.Type()
	if (t.Kind() == reflect.Ptr || t.Kind() == reflect.Interface) && v.IsNil() {
		e.nilNode = true

		return
	}
	viaIface := false
	if t.Kind() == reflect.Interface {
		// the interface value is no node of its own (no validator can be registered for an interface type)
		v, viaIface = v.Elem(), true
		t = v.Type()
		if t.Kind() == reflect.Ptr && v.IsNil() {
			e.nilNode = true

			return
		}
	}
	_, selfSerialising := v.Interface().(serix.SerializableJSON)
	// the validator of the type, or of the pointed-to type
	vt, vv := t, v
	if _, ok := c.rules[vt]; !ok && t.Kind() == reflect.Ptr {
		vt, vv = t.Elem(), v.Elem()
	}
	if rule, ok := c.rules[vt]; ok {
		e.vnodes[vt]++
		// What the code does (mapEncode): reflect's Interface() of an interface-kinded value is the dynamic value, so
		// a self-serialising value held in an interface is recognised at the interface node already - after the
		// validator lookup for the *interface* type, and mapEncodeInterface (which would look up the validator of the
		// dynamic type) is never reached.  The decoder does call the validator of the alternative.
		skipped := viaIface && selfSerialising
		if skipped {
			e.vskipped[vt]++
		}
		if rule(vv) {
			e.rejected = true
			if !skipped {
				e.rejectedE = true
			}
		}
	}
	if selfSerialising {
		e.custom++
		if gxRefuses(v.Interface()) {
			e.refuses = true
		}

		return
	}
	if t.Kind() == reflect.Ptr { // a pointer and what it points to are one node
		v, t = v.Elem(), t.Elem()
	}
	switch t.Kind() {
	case reflect.Struct:
		c.walkFields(v, e)
	case reflect.Slice, reflect.Array:
		if rl := c.arules[t]; rl != nil {
			e.ruleNodes++
			if !c.satisfies(v, rl) {
				e.ruleBroken = true
			}
		}
		for i := 0; i < v.Len(); i++ {
			c.walk(v.Index(i), e)
		}
	case reflect.Map:
		if v.Len() >= 2 {
			e.multiMap = true
		}
		for it := v.MapRange(); it.Next(); {
			c.walk(it.Key(), e)
			c.walk(it.Value(), e)
		}
	}
}

func (c *gxCase) walkFields(v reflect.Value, e *gxExpect) {
	t := v.Type()
	for i := 0; i < t.NumField(); i++ {
		f := t.Field(i)
		has, optional, omitempty, inlined := gxTagParts(f)
		if !has {
			continue
		}
		fv := v.Field(i)
		if f.Anonymous && !inlined && f.Type.Kind() == reflect.Struct {
			c.walkFields(fv, e) // flattened into the parent, no node of its own

			continue
		}
		if omitempty && (fv.IsZero() || (fv.Kind() == reflect.Slice && fv.Len() == 0)) {
			continue
		}
		if optional && fv.IsNil() {
			continue
		}
		c.walk(fv, e)
	}
}

// satisfies is the harness's reading of ArrayRules for a collection of interface values: the length within
// [Min, Max] (0 = unbounded) and every must-occur object code carried by some element.
func (c *gxCase) satisfies(v reflect.Value, rl *gxRules) bool {
	n := uint(v.Len())
	if (rl.min != 0 && n < rl.min) || (rl.max != 0 && n > rl.max) {
		return false
	}
	for _, k := range rl.must {
		found := false
		for i := 0; i < v.Len(); i++ {
			el := v.Index(i)
			for el.Kind() == reflect.Interface || el.Kind() == reflect.Ptr {
				if el.IsNil() {
					return false
				}
				el = el.Elem()
			}
			if code, ok := c.codes[el.Type()]; ok && code == k {
				found = true
			}
		}
		if !found {
			return false
		}
	}

	return true
}

// ---------------------------------------------------------------------------------------------------------------
// execution

func (c *gxCase) opts(validate bool) []serix.Option {
	if validate {
		return []serix.Option{serix.WithValidation()}
	}

	return nil
}

func (c *gxCase) reset() {
	gxCalls.enc, gxCalls.dec = 0, 0
	for k := range c.vcalls {
		delete(c.vcalls, k)
	}
}

func (c *gxCase) vtotal() int {
	n := 0
	for _, k := range c.vcalls {
		n += k
	}

	return n
}

func (c *gxCase) vdiff(want map[reflect.Type]int) string {
	var out []string
	for t, n := range want {
		if c.vcalls[t] != n {
			out = append(out, fmt.Sprintf("%s: %d calls, %d nodes", gxTypeName(t), c.vcalls[t], n))
		}
	}
	for t, n := range c.vcalls {
		if _, ok := want[t]; !ok && n != 0 {
			out = append(out, fmt.Sprintf("%s: %d calls, 0 nodes", gxTypeName(t), n))
		}
	}
	sort.Strings(out)

	return strings.Join(out, "; ")
}

func (c *gxCase) describe(validate bool) string {
	s := fmt.Sprintf("goonly family=%s sub=%d (replay: C01B_GOONLY=%s:%d) validation=%v registered=[%s] value=%s",
		c.fam, c.sub, c.fam, c.sub, validate, strings.Join(c.setup, " "), gxGoSyntax(c.val))
	if len(s) > 6000 {
		s = s[:6000] + "..."
	}

	return s
}

func (c *gxCase) fail(r *hx.Run, oracle, side, outcome string, validate bool, msg string) {
	r.Fail(oracle, c.describe(validate)+" :: "+msg, map[string]string{"oracle": oracle, "family": c.fam, "side": side, "outcome": outcome})
}

// validationOracle names the oracle an unexpected verdict of a validating call belongs to.
func (c *gxCase) validationOracle(e *gxExpect) string {
	switch {
	case e.rejected || (len(c.rules) > 0 && len(c.arules) == 0):
		return "goonly-validator"
	case e.ruleBroken || len(c.arules) > 0:
		return "goonly-mustoccur"
	}

	return "goonly-validation"
}

func gxSameJSON(a, b []byte) bool {
	var x, y any
	if json.Unmarshal(a, &x) != nil || json.Unmarshal(b, &y) != nil {
		return false
	}

	return reflect.DeepEqual(x, y)
}

type gxDecoded struct {
	dest   reflect.Value
	failed bool
	why    string
}

func (c *gxCase) decode(js []byte, validate, viaMap bool) gxDecoded {
	d := gxDecoded{dest: reflect.New(c.val.Type().Elem())}
	var err error
	p := hx.Safely(func() {
		if viaMap {
			m := map[string]any{}
			if err = json.Unmarshal(js, &m); err == nil {
				err = c.api.MapDecode(context.Background(), m, d.dest.Interface(), c.opts(validate)...)
			}
		} else {
			err = c.api.JSONDecode(context.Background(), js, d.dest.Interface(), c.opts(validate)...)
		}
	})
	switch {
	case p != "":
		d.failed, d.why = true, "panic: "+p
	case err != nil:
		d.failed, d.why = true, "error: "+err.Error()
	}

	return d
}

// checkDecode decodes the document js (written under validation mode docMode) under mode validate.
func (c *gxCase) checkDecode(r *hx.Run, e *gxExpect, js []byte, docMode, validate bool) {
	side := "decode"
	if docMode != validate {
		side = "decode-other-mode"
	}
	c.reset()
	d := c.decode(js, validate, false)
	calls, dec := c.vtotal(), gxCalls.dec
	vdiff := c.vdiff(e.vnodes)
	wantFail := validate && (e.rejected || e.ruleBroken)
	tag := fmt.Sprintf("document %s (written with validation=%v), JSONDecode with validation=%v", js, docMode, validate)
	if !validate && calls != 0 {
		c.fail(r, "goonly-validator", side, "called-without-validation", validate, tag+fmt.Sprintf(": %d validator calls", calls))
	}
	switch {
	case d.failed && !wantFail:
		oracle := "goonly-roundtrip"
		if validate && !docMode && !c.decode(js, false, false).failed {
			oracle = c.validationOracle(e) // the document is fine for the unvalidating decoder: validation objects
		}
		c.fail(r, oracle, side, "unexpected-failure", validate, tag+" fails: "+d.why)
		r.Count("goonly:dec:unexpected-failure")

		return
	case !d.failed && wantFail:
		outcome := "accepted-rejected-node"
		if !e.rejected {
			outcome = "accepted-broken-rule"
		}
		c.fail(r, c.validationOracle(e), side, outcome, validate, tag+" succeeds")

		return
	case d.failed:
		r.Count("goonly:dec:refused-as-expected")

		return
	}
	r.Count("goonly:dec:ok")
	if !reflect.DeepEqual(d.dest.Interface(), c.val.Interface()) {
		c.fail(r, "goonly-roundtrip", side, "dec-differs", validate, tag+" yields "+gxGoSyntax(d.dest))

		return
	}
	if dec != e.custom {
		c.fail(r, "goonly-custom", side, "call-count", validate, tag+fmt.Sprintf(": %d DecodeJSON calls for %d self-serialising nodes", dec, e.custom))
	}
	if validate && vdiff != "" {
		c.fail(r, "goonly-validator", side, "call-count", validate, tag+": "+vdiff)
	}
	// the other entry point: json.Unmarshal, then MapDecode
	if m := c.decode(js, validate, true); m.failed || !reflect.DeepEqual(m.dest.Interface(), d.dest.Interface()) {
		c.fail(r, "goonly-mapdecode-vs-jsondecode", side, "differs", validate, tag+" succeeds, json.Unmarshal+MapDecode: "+m.why+" "+gxGoSyntax(m.dest))
	}
}

func (c *gxCase) run(r *hx.Run) {
	e := &gxExpect{vnodes: map[reflect.Type]int{}, vskipped: map[reflect.Type]int{}}
	c.walk(c.val, e)
	// what the encoder is expected to do: as documented, or (gxReportValidatorSkip = false) as the code does
	encNodes, encRejected := e.vnodes, e.rejected
	if !gxReportValidatorSkip && gxValidatorSkip {
		encNodes, encRejected = map[reflect.Type]int{}, e.rejectedE
		for t, n := range e.vnodes {
			encNodes[t] = n - e.vskipped[t]
		}
		for _, n := range e.vskipped {
			r.CountN("goonly:deviation:encoder-skips-validator-of-self-serialising-value-in-interface", n)
		}
		if e.rejected && !e.rejectedE && !e.ruleBroken && !e.refuses {
			// JSONEncode(WithValidation) accepts the value, JSONDecode(WithValidation) refuses the document it wrote
			r.Count("goonly:deviation:validated-encode-accepts-what-validated-decode-refuses")
		}
	}
	ctx := context.Background()
	r.Count("goonly:case:" + c.fam)
	r.CountN("goonly:self-serialising-nodes", e.custom)
	r.CountN("goonly:rule-collections", e.ruleNodes)
	for _, n := range e.vnodes {
		r.CountN("goonly:validator-nodes", n)
	}
	switch {
	case len(c.rules) == 0:
		r.Count("goonly:validators:none")
	case e.rejected:
		r.Count("goonly:validators:some-node-rejected")
	default:
		r.Count("goonly:validators:all-nodes-accepted")
	}
	if e.ruleNodes > 0 {
		r.Count("goonly:rules:" + map[bool]string{true: "violated", false: "satisfied"}[e.ruleBroken])
	}
	if e.refuses {
		r.Count("goonly:a-node-refuses-to-encode")
	}
	for _, validate := range []bool{false, true} {
		var js []byte
		var err error
		c.reset()
		p := hx.Safely(func() { js, err = c.api.JSONEncode(ctx, c.val.Interface(), c.opts(validate)...) })
		failed := p != "" || err != nil
		calls, enc, vdiff := c.vtotal(), gxCalls.enc, c.vdiff(encNodes)
		wantFail := e.nilNode || e.refuses || (validate && (encRejected || e.ruleBroken))
		if !validate && calls != 0 {
			c.fail(r, "goonly-validator", "encode", "called-without-validation", validate, fmt.Sprintf("JSONEncode made %d validator calls", calls))
		}
		r.Count(fmt.Sprintf("goonly:enc:validation=%v:%s", validate, map[bool]string{true: "fail", false: "ok"}[failed]))
		switch {
		case failed && !wantFail:
			oracle := "goonly-encode"
			if validate {
				oracle = c.validationOracle(e)
			}
			c.fail(r, oracle, "encode", "unexpected-failure", validate, fmt.Sprintf("JSONEncode fails: panic=%q err=%v", p, err))

			continue
		case !failed && wantFail:
			oracle, outcome := c.validationOracle(e), "accepted-rejected-node"
			switch {
			case e.refuses || e.nilNode:
				oracle, outcome = "goonly-custom", "encode-error-ignored"
			case !encRejected:
				outcome = "accepted-broken-rule"
			}
			c.fail(r, oracle, "encode", outcome, validate, fmt.Sprintf("JSONEncode succeeds: %s", js))

			continue
		case failed:
			continue
		}
		if enc != e.custom {
			c.fail(r, "goonly-custom", "encode", "call-count", validate, fmt.Sprintf("JSONEncode made %d EncodeJSON calls for %d self-serialising nodes: %s", enc, e.custom, js))
		}
		if validate && vdiff != "" {
			c.fail(r, "goonly-validator", "encode", "call-count", validate, "JSONEncode: "+vdiff)
		}
		var doc any
		if uerr := json.Unmarshal(js, &doc); uerr != nil {
			c.fail(r, "goonly-json-wellformed", "encode", "unparsable", validate, fmt.Sprintf("JSONEncode produced %q: %v", js, uerr))

			continue
		}
		// MapEncode + json.Marshal is the same document; so is a second JSONEncode
		var viaMap, js2 []byte
		var err2 error
		p2 := hx.Safely(func() {
			m, merr := c.api.MapEncode(ctx, c.val.Interface(), c.opts(validate)...)
			if merr == nil {
				viaMap, _ = json.Marshal(m)
			}
			js2, err2 = c.api.JSONEncode(ctx, c.val.Interface(), c.opts(validate)...)
		})
		same := func(a, b []byte) bool {
			if e.multiMap {
				return gxSameJSON(a, b)
			}

			return bytes.Equal(a, b)
		}
		if p2 != "" || !same(viaMap, js) {
			c.fail(r, "goonly-mapencode-vs-jsonencode", "encode", "differs", validate, fmt.Sprintf("MapEncode+json.Marshal %q, JSONEncode %q (panic %q)", viaMap, js, p2))
		}
		switch {
		case p2 != "" || err2 != nil || !same(js, js2):
			c.fail(r, "goonly-encode-twice", "encode", map[bool]string{true: "documents-differ", false: "bytes-differ-without-map"}[e.multiMap], validate,
				fmt.Sprintf("first %q second %q (panic %q err %v)", js, js2, p2, err2))
		case bytes.Equal(js, js2):
			r.Count("goonly:encode-twice:same-bytes")
		default:
			r.Count("goonly:encode-twice:member-order-differs(Go map)")
		}
		c.checkDecode(r, e, js, validate, validate)
		c.checkDecode(r, e, js, validate, !validate)
		if !validate {
			h := sha256.Sum256([]byte(c.fam + "\n" + strings.Join(c.setup, " ") + "\n" + gxGoSyntax(c.val)))
			r.Nontrivial("goonly:" + string(h[:8]))
		}
	}
}

// goOnly runs n cases of every family; every case is an (empty) case of the run, identified by its sub-seed.
func goOnly(r *hx.Run, n int) {
	if spec := os.Getenv("C01B_GOONLY"); spec != "" {
		return // handled by goOnlyReplay
	}
	goOnlyProbes(r)
	if os.Getenv("C01B_GOONLY_TIME") != "" {
		defer func(t0 time.Time) { fmt.Fprintln(os.Stderr, "goonly stream:", time.Since(t0)) }(time.Now())
	}
	base, _ := r.Rng.Fork()
	for i := 0; i < n; i++ {
		for _, fam := range gxFamilies {
			_, sub := base.Fork()
			r.Case(sub)
			gxBuild(fam, sub).run(r)
		}
	}
}

// goOnlyReplay re-runs the one case named by C01B_GOONLY=<family>:<sub-seed>; false if the variable is not set.
func goOnlyReplay(r *hx.Run) bool {
	spec := os.Getenv("C01B_GOONLY")
	if spec == "" {
		return false
	}
	sp := strings.SplitN(spec, ":", 2)
	sub, err := strconv.ParseUint(sp[len(sp)-1], 10, 64)
	if len(sp) != 2 || err != nil {
		panic("C01B_GOONLY=<family>:<sub-seed>")
	}
	r.Case(sub)
	gxValidatorSkip = gxProbeValidatorSkip()
	c := gxBuild(sp[0], sub)
	fmt.Fprintln(os.Stderr, c.describe(false))
	c.run(r)

	return true
}

// ---------------------------------------------------------------------------------------------------------------
// values as Go syntax (pointers followed, map entries sorted)

func gxTypeName(t reflect.Type) string { return strings.ReplaceAll(t.String(), "main.", "") }

func gxGoSyntax(v reflect.Value) string {
	var sb strings.Builder
	gxSyntax(&sb, v, true)

	return sb.String()
}

func gxSyntax(sb *strings.Builder, v reflect.Value, typed bool) {
	t := v.Type()
	switch t.Kind() {
	case reflect.Ptr:
		if v.IsNil() {
			sb.WriteString("nil")

			return
		}
		switch t.Elem().Kind() {
		case reflect.Struct, reflect.Slice, reflect.Array, reflect.Map:
			sb.WriteString("&")
			gxSyntax(sb, v.Elem(), true)
		default:
			sb.WriteString("ptr(")
			gxSyntax(sb, v.Elem(), true)
			sb.WriteString(")")
		}
	case reflect.Interface:
		if v.IsNil() {
			sb.WriteString("nil")

			return
		}
		gxSyntax(sb, v.Elem(), true)
	case reflect.Struct:
		sb.WriteString(gxTypeName(t) + "{")
		for i := 0; i < t.NumField(); i++ {
			if i > 0 {
				sb.WriteString(", ")
			}
			sb.WriteString(t.Field(i).Name + ": ")
			gxSyntax(sb, v.Field(i), false)
		}
		sb.WriteString("}")
	case reflect.Slice, reflect.Array:
		if t.Kind() == reflect.Slice && v.IsNil() {
			sb.WriteString(gxTypeName(t) + "(nil)")

			return
		}
		sb.WriteString(gxTypeName(t) + "{")
		for i := 0; i < v.Len(); i++ {
			if i > 0 {
				sb.WriteString(", ")
			}
			gxSyntax(sb, v.Index(i), t.Elem().Kind() == reflect.Interface)
		}
		sb.WriteString("}")
	case reflect.Map:
		if v.IsNil() {
			sb.WriteString(gxTypeName(t) + "(nil)")

			return
		}
		var ents []string
		for it := v.MapRange(); it.Next(); {
			var e strings.Builder
			gxSyntax(&e, it.Key(), false)
			e.WriteString(": ")
			gxSyntax(&e, it.Value(), false)
			ents = append(ents, e.String())
		}
		sort.Strings(ents)
		sb.WriteString(gxTypeName(t) + "{" + strings.Join(ents, ", ") + "}")
	case reflect.String:
		if typed && t.Name() != "string" {
			fmt.Fprintf(sb, "%s(%q)", gxTypeName(t), v.String())
		} else {
			fmt.Fprintf(sb, "%q", v.String())
		}
	case reflect.Bool:
		fmt.Fprintf(sb, "%v", v.Bool())
	case reflect.Uint8, reflect.Uint16, reflect.Uint32, reflect.Uint64:
		if typed && t.PkgPath() != "" {
			fmt.Fprintf(sb, "%s(%d)", gxTypeName(t), v.Uint())
		} else {
			fmt.Fprintf(sb, "%d", v.Uint())
		}
	default:
		fmt.Fprintf(sb, "%#v", v.Interface())
	}
}

// ---------------------------------------------------------------------------------------------------------------
// probes: configurations the stream keeps away from, because JSONDecode(JSONEncode(v)) = v is not what the code
// offers there.  Counted (goonly:probe:<configuration>:<outcome>), never reported.

// gxProbeByValue: a type whose EncodeJSON has a pointer receiver, held by value - the encoder asks
// value.Interface() (no EncodeJSON in the method set of the value: default form), the decoder asks value.Addr().
type gxProbeByValue struct {
	O gxObj `serix:"o"`
}

type gxProbeInlinedOptional struct {
	Head string     `serix:"head"`
	Body *gxInlBody `serix:",inlined,optional"`
}

type gxProbeInlinedOmitempty struct {
	Head string   `serix:"head"`
	Val  gxInlVal `serix:",inlined,omitempty"`
}

// gxValidatorSkip: what the calibrating probe observed (see gxReportValidatorSkip) - false once mapEncode hands a
// self-serialising value held in an interface to the validator of its type.
var gxValidatorSkip bool

func gxProbeValidatorSkip() bool {
	c := gxNewCase("probe", 0)
	gxReg(c, true, func(x gxTagged) bool { return false })
	v := &gxInlTop{Body: &gxInlBody{}, GxNode: gxLeaf{}, Tail: gxTagged{V: "v"}}
	var err error
	if p := hx.Safely(func() { _, err = c.api.JSONEncode(context.Background(), v, serix.WithValidation()) }); p != "" || err != nil {
		return false // no calibration possible: expect what is documented
	}

	return c.vtotal() == 0
}

func goOnlyProbes(r *hx.Run) {
	gxValidatorSkip = gxProbeValidatorSkip()
	r.Count("goonly:probe:validator-of-self-serialising-value-in-interface:" + map[bool]string{true: "skipped-by-encoder", false: "called-by-encoder"}[gxValidatorSkip])
	probe := func(name string, v any) {
		api := serix.NewAPI()
		ctx := context.Background()
		outcome := "roundtrip-ok"
		var js []byte
		var err error
		dest := reflect.New(reflect.TypeOf(v).Elem())
		if p := hx.Safely(func() { js, err = api.JSONEncode(ctx, v) }); p != "" || err != nil {
			outcome = "encode-refuses"
		} else if p := hx.Safely(func() { err = api.JSONDecode(ctx, js, dest.Interface()) }); p != "" || err != nil {
			outcome = "decode-fails"
		} else if !reflect.DeepEqual(dest.Interface(), v) {
			outcome = "decoded-value-differs"
		}
		r.Count("goonly:probe:" + name + ":" + outcome)
	}
	probe("pointer-receiver-EncodeJSON-held-by-value", &gxProbeByValue{O: gxObj{Name: "n", On: true, Tags: []string{"t"}}})
	probe("inlined-optional-pointer:nil", &gxProbeInlinedOptional{Head: "h"})
	probe("inlined-optional-pointer:set", &gxProbeInlinedOptional{Head: "h", Body: &gxInlBody{X: 1, Y: gxStr{N: 2, S: "s"}}})
	probe("inlined-omitempty-struct:zero", &gxProbeInlinedOmitempty{Head: "h"})
	probe("inlined-omitempty-struct:set", &gxProbeInlinedOmitempty{Head: "h", Val: gxInlVal{P: "p", Q: 7}})
}
