// extract prints facts of the JSON/map form of serix as a Lean module (Hive/Gen/C01b_Facts.lean), regenerated from the
// working tree on every run of the check and pinned by `decide` obligations in Hive/Props/C01b.lean:
//
//   - the string constants of map_encode.go (`keyType`, `keyDefaultSliceArray`) - the model's member names;
//
//   - `kinds_<func>`: the reflect.Kind switch of mapEncodeBasedOnType / mapDecodeBasedOnType / float64NumParser as a
//     table "Kind,Kind => what the clause returns" - the table the model's `mapEncode` / `mapDecode` match arms mirror;
//
//   - `src_<func>`: the normalised statement list of every function the hand-written model was written against (one
//     token per statement in source order: "if COND", "else", "for HEADER", "switch TAG", "case EXPRS", "end",
//     "return EXPRS", any other statement as source text; white space collapsed, arguments of ierrors.* calls -
//     the error texts - elided).  A changed condition, a dropped or reordered statement, a different helper then
//     breaks an obligation even when no generated input reaches it.
//
//     extract <repo root> <out.lean>
package main

import (
	"bytes"
	"fmt"
	"go/ast"
	"go/parser"
	"go/printer"
	"go/token"
	"os"
	"path/filepath"
	"strings"
)

type request struct {
	file  string
	funcs []string
	kinds []string // functions whose first switch is printed as a kind table
}

var requests = []request{
	{"serializer/serix/map_encode.go", []string{"mapEncode", "mapEncodeBasedOnType", "mapEncodeInterface", "mapEncodeStruct",
		"mapEncodeStructFields", "mapEncodeSlice", "mapEncodeMapKVPair", "mapEncodeMap", "isValueEmpty"}, []string{"mapEncodeBasedOnType"}},
	{"serializer/serix/map_decode.go", []string{"mapDecode", "mapDecodeBasedOnType", "float64NumParser", "strNumParser", "mapDecodeNum",
		"mapDecodeFloat", "mapDecodeInterface", "mapDecodeStruct", "mapDecodeStructFields", "mapDecodeSlice", "mapDecodeBytes",
		"mapDecodeArray", "mapDecodeMap"}, []string{"mapDecodeBasedOnType"}},
	{"serializer/serix/numbers.go", []string{"EncodeHex", "DecodeHex", "EncodeUint256", "DecodeUint256"}, nil},
	{"serializer/serix/utils.go", []string{"sliceFromArray", "fillArrayFromSlice", "FieldKeyString"}, nil},
	{"serializer/serix/serix.go", []string{"JSONEncode", "MapEncode", "JSONDecode", "MapDecode"}, nil},
	{"serializer/serializer.go", []string{"TimeToUint64"}, nil},
}

var constFiles = map[string][]string{
	"serializer/serix/map_encode.go": {"keyType", "keyDefaultSliceArray"},
	"serializer/consts.go":           {"MaxNanoTimestampInt64Seconds"},
}

type ex struct {
	fset *token.FileSet
	toks []string
}

func (e *ex) src(n ast.Node) string {
	var b bytes.Buffer
	if err := printer.Fprint(&b, e.fset, n); err != nil {
		panic(err)
	}

	return strings.Join(strings.Fields(b.String()), " ")
}

func (e *ex) emit(s string) { e.toks = append(e.toks, s) }

var errorMakers = map[string]bool{"Errorf": true, "New": true, "Wrap": true, "Wrapf": true, "WithStack": true,
	"WithMessage": true, "WithMessagef": true}

// elide removes what does not decide behaviour: the arguments of the ierrors.* calls that make or wrap an error (error texts).
func elide(n ast.Node) {
	ast.Inspect(n, func(x ast.Node) bool {
		if c, ok := x.(*ast.CallExpr); ok {
			if sel, ok := c.Fun.(*ast.SelectorExpr); ok {
				if id, ok := sel.X.(*ast.Ident); ok && id.Name == "ierrors" && errorMakers[sel.Sel.Name] {
					c.Args = []ast.Expr{ast.NewIdent("_")}
					c.Ellipsis = token.NoPos
				}
			}
		}

		return true
	})
}

func (e *ex) exprs(xs []ast.Expr) string {
	var out []string
	for _, x := range xs {
		out = append(out, e.src(x))
	}

	return strings.Join(out, ", ")
}

func (e *ex) block(b *ast.BlockStmt) {
	if b == nil {
		return
	}
	for _, s := range b.List {
		e.stmt(s)
	}
}

func (e *ex) stmt(s ast.Stmt) {
	switch s := s.(type) {
	case *ast.BlockStmt:
		e.block(s)
	case *ast.IfStmt:
		h := "if "
		if s.Init != nil {
			h += e.src(s.Init) + "; "
		}
		e.emit(h + e.src(s.Cond))
		e.block(s.Body)
		if s.Else != nil {
			e.emit("else")
			e.stmt(s.Else)
		}
		e.emit("end")
	case *ast.ForStmt:
		h := "for "
		if s.Init != nil {
			h += e.src(s.Init)
		}
		h += "; "
		if s.Cond != nil {
			h += e.src(s.Cond)
		}
		h += "; "
		if s.Post != nil {
			h += e.src(s.Post)
		}
		e.emit(h)
		e.block(s.Body)
		e.emit("end")
	case *ast.RangeStmt:
		h := "for "
		if s.Key != nil {
			h += e.src(s.Key)
			if s.Value != nil {
				h += ", " + e.src(s.Value)
			}
			h += " " + s.Tok.String() + " "
		}
		e.emit(h + "range " + e.src(s.X))
		e.block(s.Body)
		e.emit("end")
	case *ast.SwitchStmt:
		h := "switch"
		if s.Init != nil {
			h += " " + e.src(s.Init) + ";"
		}
		if s.Tag != nil {
			h += " " + e.src(s.Tag)
		}
		e.emit(h)
		for _, c := range s.Body.List {
			cc := c.(*ast.CaseClause)
			if cc.List == nil {
				e.emit("default")
			} else {
				e.emit("case " + e.exprs(cc.List))
			}
			for _, b := range cc.Body {
				e.stmt(b)
			}
		}
		e.emit("end")
	case *ast.TypeSwitchStmt:
		e.emit("typeswitch " + e.src(s.Assign))
		for _, c := range s.Body.List {
			cc := c.(*ast.CaseClause)
			if cc.List == nil {
				e.emit("default")
			} else {
				e.emit("case " + e.exprs(cc.List))
			}
			for _, b := range cc.Body {
				e.stmt(b)
			}
		}
		e.emit("end")
	case *ast.ReturnStmt:
		// a function literal returned as a value is unfolded (float64NumParser, strNumParser)
		if len(s.Results) == 1 {
			if fl, ok := s.Results[0].(*ast.FuncLit); ok {
				e.emit("return func")
				e.block(fl.Body)
				e.emit("end")

				return
			}
		}
		if len(s.Results) == 0 {
			e.emit("return")
		} else {
			e.emit("return " + e.exprs(s.Results))
		}
	default:
		e.emit(e.src(s))
	}
}

// kindTable: "Kind,Kind => returned expressions of the clause (source order, separated by |)".
func (e *ex) kindTable(fn *ast.FuncDecl) []string {
	var sw *ast.SwitchStmt
	ast.Inspect(fn.Body, func(n ast.Node) bool {
		if s, ok := n.(*ast.SwitchStmt); ok && sw == nil && s.Tag != nil {
			sw = s

			return false
		}

		return sw == nil
	})
	if sw == nil {
		fatal("no tagged switch in " + fn.Name.Name)
	}
	var out []string
	for _, c := range sw.Body.List {
		cc := c.(*ast.CaseClause)
		var kinds []string
		for _, k := range cc.List {
			kinds = append(kinds, strings.TrimPrefix(e.src(k), "reflect."))
		}
		if cc.List == nil {
			kinds = []string{"default"}
		}
		var rets []string
		for _, b := range cc.Body {
			ast.Inspect(b, func(n ast.Node) bool {
				if _, ok := n.(*ast.FuncLit); ok {
					return false
				}
				if r, ok := n.(*ast.ReturnStmt); ok && len(r.Results) > 0 {
					x := e.src(r.Results[0])
					if x == "nil" && len(r.Results) > 1 {
						x = e.src(r.Results[1])
					}
					if !strings.HasPrefix(x, "ierrors.") && x != "err" {
						rets = append(rets, x)
					}
				}

				return true
			})
		}
		out = append(out, strings.Join(kinds, ",")+" => "+strings.Join(rets, " | "))
	}

	return out
}

func fatal(msg string) {
	fmt.Fprintln(os.Stderr, "c01b/extract: "+msg)
	os.Exit(1)
}

func leanStr(s string) string {
	s = strings.ReplaceAll(s, `\`, `\\`)
	s = strings.ReplaceAll(s, `"`, `\"`)

	return `"` + s + `"`
}

func leanList(b *strings.Builder, name, doc string, toks []string) {
	fmt.Fprintf(b, "/-- %s -/\ndef %s : List String := [", doc, name)
	for i, t := range toks {
		if i > 0 {
			b.WriteString(",")
		}
		b.WriteString("\n  " + leanStr(t))
	}
	b.WriteString("]\n\n")
}

func main() {
	if len(os.Args) != 3 {
		fatal("usage: extract <repo root> <out.lean>")
	}
	repo, out := os.Args[1], os.Args[2]
	var b strings.Builder
	b.WriteString("/-! GENERATED by harness/c01b/extract from the Go source of the serix JSON/map form; do not edit. -/\nnamespace Hive.Gen.C01bFacts\n\n")
	parsed := map[string]*ast.File{}
	fset := token.NewFileSet()
	load := func(rel string) *ast.File {
		if f, ok := parsed[rel]; ok {
			return f
		}
		f, err := parser.ParseFile(fset, filepath.Join(repo, rel), nil, 0)
		if err != nil {
			fatal(err.Error())
		}
		elide(f)
		parsed[rel] = f

		return f
	}
	// constants
	for _, rel := range []string{"serializer/serix/map_encode.go", "serializer/consts.go"} {
		f := load(rel)
		for _, want := range constFiles[rel] {
			found := false
			for _, d := range f.Decls {
				gd, ok := d.(*ast.GenDecl)
				if !ok || gd.Tok != token.CONST {
					continue
				}
				for _, sp := range gd.Specs {
					vs := sp.(*ast.ValueSpec)
					for i, n := range vs.Names {
						if n.Name != want || i >= len(vs.Values) {
							continue
						}
						e := &ex{fset: fset}
						txt := e.src(vs.Values[i])
						if lit, ok := vs.Values[i].(*ast.BasicLit); ok && lit.Kind == token.STRING {
							txt = strings.Trim(lit.Value, "\"`")
						}
						fmt.Fprintf(&b, "/-- const %s (%s) -/\ndef const_%s : String := %s\n\n", want, filepath.Base(rel), want, leanStr(txt))
						found = true
					}
				}
			}
			if !found {
				fatal("constant " + want + " not found in " + rel)
			}
		}
	}
	for _, rq := range requests {
		f := load(rq.file)
		decls := map[string]*ast.FuncDecl{}
		for _, d := range f.Decls {
			if fd, ok := d.(*ast.FuncDecl); ok && fd.Body != nil {
				decls[fd.Name.Name] = fd
			}
		}
		for _, name := range rq.funcs {
			fd, ok := decls[name]
			if !ok {
				fatal("function " + name + " not found in " + rq.file)
			}
			e := &ex{fset: fset}
			sig := e.src(fd.Type)
			e.block(fd.Body)
			leanList(&b, "src_"+name, fmt.Sprintf("%s (%s) : %s", name, filepath.Base(rq.file), strings.ReplaceAll(sig, "-/", "- /")), e.toks)
		}
		for _, name := range rq.kinds {
			e := &ex{fset: fset}
			leanList(&b, "kinds_"+name, "the reflect.Kind switch of "+name, e.kindTable(decls[name]))
		}
	}
	b.WriteString("end Hive.Gen.C01bFacts\n")
	if err := os.WriteFile(out, []byte(b.String()), 0o644); err != nil {
		fatal(err.Error())
	}
}
