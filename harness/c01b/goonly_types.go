// Hand-written Go types of the Go-only stream (goonly.go): what the Lean model of the map form does not cover -
// types that write / read their own JSON form (serix.SerializableJSON / serix.DeserializableJSON), syntactic
// validators, ArrayRules.MustOccur, inlined pointers / interfaces.  reflect-built types cannot carry methods, so
// these schemas are fixed; the values, the registered validators and the registered array rules are random.
package main

import (
	"errors"
	"fmt"
	"strconv"
	"strings"
)

// gxCalls counts the calls of the self-serialising methods (reset by the runner before every measured call).
var gxCalls struct{ enc, dec int }

// gxUnencodable is the text a gxStr refuses to encode (EncodeJSON returns an error).
const gxUnencodable = "\x00refuse"

var errGxForm = errors.New("goonly: not the form EncodeJSON writes")

// ---------------------------------------------------------------------------------------------------------------
// (i) string form; EncodeJSON with a value receiver, DecodeJSON with a pointer receiver (the usual idiom): usable
// by value and through pointers.

type gxStr struct {
	N uint16
	S string
}

func (c gxStr) EncodeJSON() (any, error) {
	gxCalls.enc++
	if c.S == gxUnencodable {
		return nil, errors.New("goonly: gxStr refuses to encode this value")
	}

	return strconv.Itoa(int(c.N)) + ":" + c.S, nil
}

func (c *gxStr) DecodeJSON(b any) error {
	gxCalls.dec++
	s, ok := b.(string)
	if !ok {
		return errGxForm
	}
	i := strings.IndexByte(s, ':')
	if i < 0 {
		return errGxForm
	}
	n, err := strconv.ParseUint(s[:i], 10, 16)
	if err != nil || strconv.FormatUint(n, 10) != s[:i] {
		return errGxForm
	}
	c.N, c.S = uint16(n), s[i+1:]

	return nil
}

// gxID: a number that writes itself as a string (so it can be a map key); value / pointer receiver as gxStr.
type gxID uint32

func (c gxID) EncodeJSON() (any, error) {
	gxCalls.enc++

	return fmt.Sprintf("id-%08x", uint32(c)), nil
}

func (c *gxID) DecodeJSON(b any) error {
	gxCalls.dec++
	s, ok := b.(string)
	if !ok || len(s) != 11 || !strings.HasPrefix(s, "id-") {
		return errGxForm
	}
	n, err := strconv.ParseUint(s[3:], 16, 32)
	if err != nil || fmt.Sprintf("id-%08x", uint32(n)) != s {
		return errGxForm
	}
	*c = gxID(n)

	return nil
}

// ---------------------------------------------------------------------------------------------------------------
// (ii) number-free object form; both methods with pointer receivers: self-serialising only through a pointer
// (the encoder asks value.Interface(), which for a gxObj held by value has no EncodeJSON in its method set).

type gxObj struct {
	Name string
	On   bool
	Tags []string
}

func (c *gxObj) EncodeJSON() (any, error) {
	gxCalls.enc++
	tags := make([]any, len(c.Tags))
	for i, t := range c.Tags {
		tags[i] = t
	}

	return map[string]any{"name": c.Name, "on": c.On, "tags": tags}, nil
}

func (c *gxObj) DecodeJSON(b any) error {
	gxCalls.dec++
	m, ok := b.(map[string]any)
	if !ok || len(m) != 3 {
		return errGxForm
	}
	name, ok1 := m["name"].(string)
	on, ok2 := m["on"].(bool)
	tags, ok3 := m["tags"].([]any)
	if !ok1 || !ok2 || !ok3 {
		return errGxForm
	}
	out := make([]string, 0, len(tags))
	for _, t := range tags {
		s, ok := t.(string)
		if !ok {
			return errGxForm
		}
		out = append(out, s)
	}
	c.Name, c.On, c.Tags = name, on, out

	return nil
}

// ---------------------------------------------------------------------------------------------------------------
// (iii) nested array form; value receiver EncodeJSON, pointer receiver DecodeJSON.  Without its methods the type
// has no serix field at all (the default form would be {}).

type gxArr struct {
	Rows [][]string
}

func (c gxArr) EncodeJSON() (any, error) {
	gxCalls.enc++
	rows := make([]any, len(c.Rows))
	for i, r := range c.Rows {
		row := make([]any, len(r))
		for j, s := range r {
			row[j] = s
		}
		rows[i] = row
	}

	return rows, nil
}

func (c *gxArr) DecodeJSON(b any) error {
	gxCalls.dec++
	rows, ok := b.([]any)
	if !ok {
		return errGxForm
	}
	out := make([][]string, 0, len(rows))
	for _, r := range rows {
		row, ok := r.([]any)
		if !ok {
			return errGxForm
		}
		o := make([]string, 0, len(row))
		for _, s := range row {
			str, ok := s.(string)
			if !ok {
				return errGxForm
			}
			o = append(o, str)
		}
		out = append(out, o)
	}
	c.Rows = out

	return nil
}

// ---------------------------------------------------------------------------------------------------------------
// plain types

type gxName string

type gxInner struct {
	Key gxName `serix:"key"`
	A   uint8  `serix:"a"`
	B   uint8  `serix:"b"`
	Str gxStr  `serix:"str"`
	Ids []gxID `serix:"ids"`
}

// GxNode: interface whose alternatives carry uint8 object codes.  (Exported: an embedded interface field must be
// `inlined`, and serix refuses `inlined` on unexported fields.)
type GxNode interface{ gxNodeCode() uint32 }

// gxLeaf: plain struct, registered by value, code 1.
type gxLeaf struct {
	Name gxName `serix:"name"`
	Val  uint32 `serix:"val"`
	Bad  bool   `serix:"bad"`
}

// gxPair: plain struct holding self-serialising members, registered as *gxPair, code 2.
type gxPair struct {
	L gxStr  `serix:"l"`
	R *gxObj `serix:"r,optional"`
}

// gxTagged: self-serialising alternative registered by value, code 3: an interface alternative has to write the
// "type" member itself (the decoder picks the alternative by it before it hands the object to DecodeJSON).
type gxTagged struct{ V string }

// gxTaggedP: self-serialising alternative with pointer receivers, registered as *gxTaggedP, code 4.
type gxTaggedP struct{ Vs []string }

func (gxLeaf) gxNodeCode() uint32     { return 1 }
func (*gxPair) gxNodeCode() uint32    { return 2 }
func (gxTagged) gxNodeCode() uint32   { return 3 }
func (*gxTaggedP) gxNodeCode() uint32 { return 4 }

func (c gxTagged) EncodeJSON() (any, error) {
	gxCalls.enc++

	return map[string]any{"type": 3, "v": c.V}, nil
}

func (c *gxTagged) DecodeJSON(b any) error {
	gxCalls.dec++
	m, ok := b.(map[string]any)
	if !ok || len(m) != 2 {
		return errGxForm
	}
	code, ok1 := m["type"].(float64)
	v, ok2 := m["v"].(string)
	if !ok1 || !ok2 || code != 3 {
		return errGxForm
	}
	c.V = v

	return nil
}

func (c *gxTaggedP) EncodeJSON() (any, error) {
	gxCalls.enc++
	vs := make([]any, len(c.Vs))
	for i, s := range c.Vs {
		vs[i] = s
	}

	return map[string]any{"type": 4, "vs": vs}, nil
}

func (c *gxTaggedP) DecodeJSON(b any) error {
	gxCalls.dec++
	m, ok := b.(map[string]any)
	if !ok || len(m) != 2 {
		return errGxForm
	}
	code, ok1 := m["type"].(float64)
	vs, ok2 := m["vs"].([]any)
	if !ok1 || !ok2 || code != 4 {
		return errGxForm
	}
	out := make([]string, 0, len(vs))
	for _, e := range vs {
		s, ok := e.(string)
		if !ok {
			return errGxForm
		}
		out = append(out, s)
	}
	c.Vs = out

	return nil
}

// GxShape: interface whose alternatives carry uint32 object codes.
type GxShape interface{ gxShapeCode() uint32 }

type gxSq struct { // by value, code 1
	Side uint8 `serix:"side"`
}

type gxRect struct { // as *gxRect, code 2
	W uint16 `serix:"w"`
	H uint16 `serix:"h"`
}

type gxTri struct { // by value, code 70000 (does not fit a byte)
	Name gxName `serix:"name"`
}

type gxBlob struct{ Hex string } // self-serialising, by value, code 5

func (gxSq) gxShapeCode() uint32    { return 1 }
func (*gxRect) gxShapeCode() uint32 { return 2 }
func (gxTri) gxShapeCode() uint32   { return 70000 }
func (gxBlob) gxShapeCode() uint32  { return 5 }

func (c gxBlob) EncodeJSON() (any, error) {
	gxCalls.enc++

	return map[string]any{"type": 5, "hex": c.Hex}, nil
}

func (c *gxBlob) DecodeJSON(b any) error {
	gxCalls.dec++
	m, ok := b.(map[string]any)
	if !ok || len(m) != 2 {
		return errGxForm
	}
	code, ok1 := m["type"].(float64)
	h, ok2 := m["hex"].(string)
	if !ok1 || !ok2 || code != 5 {
		return errGxForm
	}
	c.Hex = h

	return nil
}

// ---------------------------------------------------------------------------------------------------------------
// the three top-level schemas

// gxCustomTop: self-serialising types in every position.
type gxCustomTop struct {
	Str   gxStr             `serix:"str"`
	StrV  gxStr             `serix:"strV,omitempty"`
	StrP  *gxStr            `serix:"strP"`
	StrO  *gxStr            `serix:"strO,optional"`
	StrE  *gxStr            `serix:"strE,omitempty"`
	Obj   *gxObj            `serix:"obj"`
	ObjO  *gxObj            `serix:"objO,optional"`
	Arr   gxArr             `serix:"arr"`
	ArrP  *gxArr            `serix:"arrP,optional"`
	ID    gxID              `serix:"id"`
	IDP   *gxID             `serix:"idP,optional"`
	Strs  []gxStr           `serix:"strs"`
	StrsE []gxStr           `serix:"strsE,omitempty"`
	StrPs []*gxStr          `serix:"strPs"`
	ObjPs []*gxObj          `serix:"objPs"`
	Pair  [2]gxStr          `serix:"pair"`
	ByKey map[gxID]gxStr    `serix:"byKey"`
	ObjM  map[string]*gxObj `serix:"objM"`
	Any   GxNode            `serix:"any"`
	AnyO  GxNode            `serix:"anyO,optional"`
	Anys  []GxNode          `serix:"anys"`
	Inner gxInner           `serix:"inner"`
	InnP  *gxInner          `serix:"innP,optional"`
}

type gxShapeList []GxShape

type gxMOInner struct {
	Shapes []GxShape `serix:"shapes"`
}

// gxMOTop: slices / arrays of interface values whose types may carry registered ArrayRules (MustOccur, Min, Max).
type gxMOTop struct {
	Shapes []GxShape           `serix:"shapes"`
	Named  gxShapeList         `serix:"named"`
	Fixed  [2]GxShape          `serix:"fixed"`
	Nodes  []GxNode            `serix:"nodes"`
	Nested [][]GxShape         `serix:"nested"`
	ByName map[string][]GxNode `serix:"byName"`
	Opt    *gxMOInner          `serix:"opt,optional"`
}

type gxInlBody struct {
	X uint8 `serix:"x"`
	Y gxStr `serix:"y"`
}

type gxInlVal struct {
	P gxName `serix:"p"`
	Q gxID   `serix:"q"`
}

// gxInlTop: inlined pointer, inlined struct value (a key next to `inlined` is ignored), embedded (hence inlined)
// interface.  The members of the inlined parts and the "type" member of the interface alternative share one object.
type gxInlTop struct {
	Head   gxName     `serix:"head"`
	Body   *gxInlBody `serix:",inlined"`
	Val    gxInlVal   `serix:"ignoredKey,inlined"`
	GxNode `serix:",inlined"`
	Tail   GxNode `serix:"tail,optional"`
}
