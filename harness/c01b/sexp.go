package main

import (
	"encoding/hex"
	"fmt"
	"strings"
)

// SX is an s-expression: an atom or a list.
type SX struct {
	Atom string
	List []*SX
	IsL  bool
}

func parseSX(s string) (*SX, error) {
	var toks []string
	cur := strings.Builder{}
	flush := func() {
		if cur.Len() > 0 {
			toks = append(toks, cur.String())
			cur.Reset()
		}
	}
	for _, c := range s {
		switch c {
		case '(', ')':
			flush()
			toks = append(toks, string(c))
		case ' ':
			flush()
		default:
			cur.WriteRune(c)
		}
	}
	flush()
	pos := 0
	var rec func() (*SX, error)
	rec = func() (*SX, error) {
		if pos >= len(toks) {
			return nil, fmt.Errorf("unexpected end")
		}
		t := toks[pos]
		pos++
		switch t {
		case "(":
			x := &SX{IsL: true}
			for {
				if pos >= len(toks) {
					return nil, fmt.Errorf("missing )")
				}
				if toks[pos] == ")" {
					pos++

					return x, nil
				}
				c, err := rec()
				if err != nil {
					return nil, err
				}
				x.List = append(x.List, c)
			}
		case ")":
			return nil, fmt.Errorf("unexpected )")
		default:
			return &SX{Atom: t}, nil
		}
	}
	x, err := rec()
	if err != nil {
		return nil, err
	}
	if pos != len(toks) {
		return nil, fmt.Errorf("trailing tokens")
	}

	return x, nil
}

func (x *SX) head() string {
	if x.IsL && len(x.List) > 0 && !x.List[0].IsL {
		return x.List[0].Atom
	}

	return ""
}

func hexStr(s string) string {
	if len(s) == 0 {
		return "-"
	}

	return hex.EncodeToString([]byte(s))
}

func unhexStr(s string) (string, error) {
	if s == "-" {
		return "", nil
	}
	b, err := hex.DecodeString(s)

	return string(b), err
}
