package main

import (
	"fmt"
	"math/big"
	"reflect"
	"strconv"
	"strings"
	"time"

	"verifharness/hx"

	"github.com/iotaledger/hive.go/serializer/v2/serix"
)

// S is a schema node; it mirrors the Lean `JTy`.
type S struct {
	K      string // bool u i f str bytes barr tb u256 time slice arr map struct ptr iface
	W      int    // width of u/i/f
	Min    int
	Max    int
	P      bool   // barr/tb: held through a pointer
	N      int    // barr/tb/arr length, -1 = none (typed []byte)
	Code   int    // tb/struct object code, -1 = none
	Key    string // tb field key
	E      *S     // slice/arr element, ptr target, map value
	KT     *S     // map key
	Fields []*F
	Alts   []*Alt
	rt     reflect.Type
}

// F is a struct field: fld (named), emb (embedded, flattened), inl (inlined).
type F struct {
	Mode string
	Key  string
	Opt  bool
	Omit bool
	P    bool // emb: embedded through a pointer
	T    *S   // fld: field type; emb/inl: the struct schema
	idx  int  // Go field index
}

type Alt struct {
	Code int
	T    *S
}

func b01(b bool) string {
	if b {
		return "1"
	}

	return "0"
}

func optN(n int) string {
	if n < 0 {
		return "-"
	}

	return strconv.Itoa(n)
}

func (s *S) String() string {
	switch s.K {
	case "bool", "u256", "time":
		return s.K
	case "u", "i", "f":
		return fmt.Sprintf("(%s %d)", s.K, s.W)
	case "str", "bytes":
		return fmt.Sprintf("(%s %d %d)", s.K, s.Min, s.Max)
	case "barr":
		return fmt.Sprintf("(barr %s %d)", b01(s.P), s.N)
	case "tb":
		return fmt.Sprintf("(tb %s %s %d %s)", b01(s.P), optN(s.N), s.Code, hexStr(s.Key))
	case "slice":
		return fmt.Sprintf("(slice %d %d %s)", s.Min, s.Max, s.E)
	case "arr":
		return fmt.Sprintf("(arr %d %s)", s.N, s.E)
	case "map":
		return fmt.Sprintf("(map %d %d %s %s)", s.Min, s.Max, s.KT, s.E)
	case "struct":
		return "(struct " + optN(s.Code) + fieldsString(s.Fields) + ")"
	case "ptr":
		return fmt.Sprintf("(ptr %s)", s.E)
	case "iface":
		var sb strings.Builder
		sb.WriteString("(iface")
		for _, a := range s.Alts {
			fmt.Fprintf(&sb, " (%d %s)", a.Code, a.T)
		}
		sb.WriteString(")")

		return sb.String()
	}
	panic("bad schema kind " + s.K)
}

func fieldsString(fs []*F) string {
	var sb strings.Builder
	for _, f := range fs {
		switch f.Mode {
		case "fld":
			fmt.Fprintf(&sb, " (fld %s %s %s %s)", hexStr(f.Key), b01(f.Opt), b01(f.Omit), f.T)
		case "emb":
			fmt.Fprintf(&sb, " (emb %s%s)", b01(f.P), fieldsString(f.T.Fields))
		case "inl":
			fmt.Fprintf(&sb, " (inl %s%s)", optN(f.T.Code), fieldsString(f.T.Fields))
		}
	}

	return sb.String()
}

func atoiX(x *SX) (int, error) {
	if x.IsL {
		return 0, fmt.Errorf("number expected")
	}

	return strconv.Atoi(x.Atom)
}

func optX(x *SX) (int, error) {
	if !x.IsL && x.Atom == "-" {
		return -1, nil
	}

	return atoiX(x)
}

func parseSchema(x *SX) (*S, error) {
	if !x.IsL {
		switch x.Atom {
		case "bool", "u256", "time":
			return &S{K: x.Atom, N: -1, Code: -1}, nil
		}

		return nil, fmt.Errorf("bad schema atom %q", x.Atom)
	}
	l := x.List
	s := &S{K: x.head(), N: -1, Code: -1}
	var err error
	num := func(i int) int {
		if err != nil || i >= len(l) {
			err = fmt.Errorf("bad schema %s", s.K)

			return 0
		}
		var n int
		n, err = optX(l[i])

		return n
	}
	sub := func(i int) *S {
		if err != nil || i >= len(l) {
			err = fmt.Errorf("bad schema %s", s.K)

			return nil
		}
		var t *S
		t, err = parseSchema(l[i])

		return t
	}
	switch s.K {
	case "u", "i", "f":
		s.W = num(1)
	case "str", "bytes":
		s.Min, s.Max = num(1), num(2)
	case "barr":
		s.P, s.N = num(1) == 1, num(2)
	case "tb":
		s.P, s.N, s.Code = num(1) == 1, num(2), num(3)
		if err == nil {
			s.Key, err = unhexStr(l[4].Atom)
		}
	case "slice":
		s.Min, s.Max, s.E = num(1), num(2), sub(3)
	case "arr":
		s.N, s.E = num(1), sub(2)
	case "map":
		s.Min, s.Max, s.KT, s.E = num(1), num(2), sub(3), sub(4)
	case "struct":
		s.Code = num(1)
		if err == nil {
			s.Fields, err = parseFields(l[2:])
		}
	case "ptr":
		s.E = sub(1)
	case "iface":
		for _, a := range l[1:] {
			if !a.IsL || len(a.List) != 2 {
				return nil, fmt.Errorf("bad alt")
			}
			c, e := atoiX(a.List[0])
			if e != nil {
				return nil, e
			}
			t, e := parseSchema(a.List[1])
			if e != nil {
				return nil, e
			}
			s.Alts = append(s.Alts, &Alt{Code: c, T: t})
		}
	default:
		return nil, fmt.Errorf("bad schema head %q", s.K)
	}

	return s, err
}

func parseFields(l []*SX) ([]*F, error) {
	var out []*F
	for _, x := range l {
		f := &F{Mode: x.head()}
		switch f.Mode {
		case "fld":
			if len(x.List) != 5 {
				return nil, fmt.Errorf("bad fld")
			}
			k, err := unhexStr(x.List[1].Atom)
			if err != nil {
				return nil, err
			}
			f.Key, f.Opt, f.Omit = k, x.List[2].Atom == "1", x.List[3].Atom == "1"
			if f.T, err = parseSchema(x.List[4]); err != nil {
				return nil, err
			}
		case "emb":
			f.P = x.List[1].Atom == "1"
			fs, err := parseFields(x.List[2:])
			if err != nil {
				return nil, err
			}
			f.T = &S{K: "struct", N: -1, Code: -1, Fields: fs}
		case "inl":
			c, err := optX(x.List[1])
			if err != nil {
				return nil, err
			}
			fs, err := parseFields(x.List[2:])
			if err != nil {
				return nil, err
			}
			f.T = &S{K: "struct", N: -1, Code: c, Fields: fs}
		default:
			return nil, fmt.Errorf("bad field %q", f.Mode)
		}
		out = append(out, f)
	}

	return out, nil
}

// ---- realisation as Go types ----

// named types with registered type settings (object code + field key) and named interfaces
type (
	TA1  [1]byte
	TA2  [2]byte
	TA4  [4]byte
	TA8  [8]byte
	TA20 [20]byte
	TA32 [32]byte
	TS   []byte

	I0 interface{}
	I1 interface{}
	I2 interface{}
	I3 interface{}
	I4 interface{}
	I5 interface{}
	I6 interface{}
	I7 interface{}
)

var typedArrays = map[int]reflect.Type{
	1: reflect.TypeOf(TA1{}), 2: reflect.TypeOf(TA2{}), 4: reflect.TypeOf(TA4{}), 8: reflect.TypeOf(TA8{}),
	20: reflect.TypeOf(TA20{}), 32: reflect.TypeOf(TA32{}),
}

var typedLens = []int{1, 2, 4, 8, 20, 32}

var ifaceTypes = []reflect.Type{
	reflect.TypeOf((*I0)(nil)).Elem(), reflect.TypeOf((*I1)(nil)).Elem(), reflect.TypeOf((*I2)(nil)).Elem(),
	reflect.TypeOf((*I3)(nil)).Elem(), reflect.TypeOf((*I4)(nil)).Elem(), reflect.TypeOf((*I5)(nil)).Elem(),
	reflect.TypeOf((*I6)(nil)).Elem(), reflect.TypeOf((*I7)(nil)).Elem(),
}

var (
	bigIntPtrType = reflect.TypeOf((*big.Int)(nil))
	timeType      = reflect.TypeOf(time.Time{})
	typedSlice    = reflect.TypeOf(TS(nil))
)

type world struct {
	api       *serix.API
	top       *S
	wide      bool // object codes are registered as uint32 (some code >= 256), else uint8
	nameCtr   int
	topOpts   []serix.Option // the top struct's object code handed over as WithTypeSettings instead of being registered
	tbMemo    map[int]string // typed array length (or -1) -> "code/key" registered
	ifaceMemo map[string]int // printed alternatives -> index into ifaceTypes
	ifaceNext int
}

func (s *S) maxCode() int {
	m := s.Code
	for _, t := range []*S{s.E, s.KT} {
		if t != nil && t.maxCode() > m {
			m = t.maxCode()
		}
	}
	for _, f := range s.Fields {
		if f.T.maxCode() > m {
			m = f.T.maxCode()
		}
	}
	for _, a := range s.Alts {
		if a.Code > m {
			m = a.Code
		}
		if a.T.maxCode() > m {
			m = a.T.maxCode()
		}
	}

	return m
}

func newWorld(top *S) (*world, error) {
	w := &world{api: serix.NewAPI(), top: top, tbMemo: map[int]string{}, ifaceMemo: map[string]int{}}
	w.wide = top.maxCode() >= 256
	if _, err := w.realise(top); err != nil {
		return nil, err
	}

	return w, nil
}

func (w *world) objectType(code int) any {
	if w.wide {
		return uint32(code)
	}

	return uint8(code)
}

// myFieldKey is the harness's own statement of serix's default key: the Go field name with the
// keywords ID/NFT/URL/HRP turned into Id/Nft/Url/Hrp and a lower-case first letter.
func myFieldKey(name string) string {
	for _, kw := range [][2]string{{"ID", "Id"}, {"NFT", "Nft"}, {"URL", "Url"}, {"HRP", "Hrp"}} {
		name = strings.ReplaceAll(name, kw[0], kw[1])
	}

	return strings.ToLower(name[:1]) + name[1:]
}

// implicitName returns a Go field name whose default key is `key`, if there is an obvious one.
func implicitName(key string) (string, bool) {
	if key == "" || key[0] < 'a' || key[0] > 'z' {
		return "", false
	}
	for _, c := range key {
		if !(c >= 'a' && c <= 'z' || c >= 'A' && c <= 'Z' || c >= '0' && c <= '9') {
			return "", false
		}
	}
	name := strings.ToUpper(key[:1]) + key[1:]
	for _, kw := range [][2]string{{"ID", "Id"}, {"NFT", "Nft"}, {"URL", "Url"}, {"HRP", "Hrp"}} {
		name = strings.ReplaceAll(name, kw[1], kw[0])
	}
	if myFieldKey(name) != key {
		return "", false
	}

	return name, true
}

func (w *world) realise(s *S) (reflect.Type, error) {
	if s.rt != nil {
		return s.rt, nil
	}
	var err error
	sub := func(t *S) reflect.Type {
		if err != nil {
			return nil
		}
		var r reflect.Type
		r, err = w.realise(t)

		return r
	}
	switch s.K {
	case "bool":
		s.rt = reflect.TypeOf(false)
	case "u":
		s.rt = map[int]reflect.Type{8: reflect.TypeOf(uint8(0)), 16: reflect.TypeOf(uint16(0)), 32: reflect.TypeOf(uint32(0)), 64: reflect.TypeOf(uint64(0))}[s.W]
	case "i":
		s.rt = map[int]reflect.Type{8: reflect.TypeOf(int8(0)), 16: reflect.TypeOf(int16(0)), 32: reflect.TypeOf(int32(0)), 64: reflect.TypeOf(int64(0))}[s.W]
	case "f":
		s.rt = map[int]reflect.Type{32: reflect.TypeOf(float32(0)), 64: reflect.TypeOf(float64(0))}[s.W]
	case "str":
		s.rt = reflect.TypeOf("")
	case "bytes":
		s.rt = reflect.TypeOf([]byte(nil))
	case "barr":
		s.rt = reflect.ArrayOf(s.N, reflect.TypeOf(byte(0)))
		if s.P {
			s.rt = reflect.PointerTo(s.rt)
		}
	case "tb":
		base := typedSlice
		if s.N >= 0 {
			var ok bool
			if base, ok = typedArrays[s.N]; !ok {
				return nil, fmt.Errorf("no named byte array of length %d in the pool", s.N)
			}
		}
		cfg := fmt.Sprintf("%d/%s", s.Code, s.Key)
		if old, ok := w.tbMemo[s.N]; ok {
			if old != cfg {
				return nil, fmt.Errorf("typed bytes of length %d registered twice with different settings", s.N)
			}
		} else {
			w.tbMemo[s.N] = cfg
			ts := serix.TypeSettings{}.WithObjectType(w.objectType(s.Code))
			if s.Key != "data" {
				ts = ts.WithFieldKey(s.Key)
			}
			if e := w.api.RegisterTypeSettings(reflect.Zero(base).Interface(), ts); e != nil {
				return nil, e
			}
		}
		s.rt = base
		if s.P {
			s.rt = reflect.PointerTo(base)
		}
	case "u256":
		s.rt = bigIntPtrType
	case "time":
		s.rt = timeType
	case "slice":
		if e := sub(s.E); err == nil {
			s.rt = reflect.SliceOf(e)
		}
	case "arr":
		if e := sub(s.E); err == nil {
			s.rt = reflect.ArrayOf(s.N, e)
		}
	case "map":
		k, e := sub(s.KT), sub(s.E)
		if err == nil {
			if !k.Comparable() {
				return nil, fmt.Errorf("map key type %s is not comparable", k)
			}
			s.rt = reflect.MapOf(k, e)
		}
	case "ptr":
		if e := sub(s.E); err == nil {
			s.rt = reflect.PointerTo(e)
		}
	case "struct":
		var sfs []reflect.StructField
		used := map[string]bool{}
		for i, f := range s.Fields {
			ft := sub(f.T)
			if err != nil {
				return nil, err
			}
			f.idx = i
			w.nameCtr++
			sf := reflect.StructField{}
			switch f.Mode {
			case "fld":
				sf.Type = ft
				tag := f.Key
				if name, ok := implicitName(f.Key); ok && !used[name] && w.nameCtr%2 == 0 && !(f.T.K == "tb" && !f.T.P) {
					sf.Name, tag = name, ""
				} else {
					sf.Name = fmt.Sprintf("Fx%d", w.nameCtr)
				}
				if strings.ContainsAny(f.Key, ",=\"\\`") || (f.Key == "" && tag == "") {
					return nil, fmt.Errorf("field key %q cannot be written in a struct tag", f.Key)
				}
				if f.Opt {
					tag += ",optional"
				}
				if f.Omit {
					tag += ",omitempty"
				}
				if f.T.Min > 0 {
					tag += fmt.Sprintf(",minLen=%d", f.T.Min)
				}
				if f.T.Max > 0 {
					tag += fmt.Sprintf(",maxLen=%d", f.T.Max)
				}
				sf.Tag = reflect.StructTag(fmt.Sprintf("serix:%q", tag))
			case "emb":
				sf.Name, sf.Anonymous, sf.Type = fmt.Sprintf("E%d", w.nameCtr), true, ft
				if f.P {
					sf.Type = reflect.PointerTo(ft)
				}
				sf.Tag = `serix:""`
			case "inl":
				sf.Name, sf.Type = fmt.Sprintf("L%d", w.nameCtr), ft
				// the map form of an inlined field does not depend on its key (the binary form never did)
				sf.Tag = `serix:",inlined"`
				if w.nameCtr%2 == 1 {
					sf.Tag = reflect.StructTag(fmt.Sprintf(`serix:"in%d,inlined"`, w.nameCtr))
				}
			}
			used[sf.Name] = true
			sfs = append(sfs, sf)
		}
		// a marker field without serix tag makes structurally equal schema nodes distinct Go types
		w.nameCtr++
		sfs = append(sfs, reflect.StructField{Name: fmt.Sprintf("Z%d", w.nameCtr), Type: reflect.TypeOf(struct{}{})})
		if p := hx.Safely(func() { s.rt = reflect.StructOf(sfs) }); p != "" {
			return nil, fmt.Errorf("reflect.StructOf: %s", p)
		}
		if s.Code >= 0 {
			ts := serix.TypeSettings{}.WithObjectType(w.objectType(s.Code))
			if s == w.top && len(s.String())%3 == 0 {
				// option variant: the settings of the outermost value come from the call (serix.WithTypeSettings) - they
				// are merged with the (absent) registered ones exactly like a struct tag's - a function of the schema text,
				// so that a replay takes the same path
				w.topOpts = []serix.Option{serix.WithTypeSettings(ts)}
			} else if e := w.api.RegisterTypeSettings(reflect.Zero(s.rt).Interface(), ts); e != nil {
				return nil, e
			}
		}
	case "iface":
		key := s.String()
		if i, ok := w.ifaceMemo[key]; ok {
			s.rt = ifaceTypes[i]
			// alternatives of a structurally equal interface node share the registered Go types
			return nil, fmt.Errorf("the same interface shape occurs twice")
		}
		if w.ifaceNext >= len(ifaceTypes) {
			return nil, fmt.Errorf("more than %d interface types", len(ifaceTypes))
		}
		idx := w.ifaceNext
		w.ifaceNext++
		w.ifaceMemo[key] = idx
		var objs []any
		for _, a := range s.Alts {
			at := sub(a.T)
			if err != nil {
				return nil, err
			}
			code := a.T.Code
			if a.T.K == "ptr" {
				code = a.T.E.Code
			}
			if code != a.Code {
				return nil, fmt.Errorf("alternative code %d differs from the code %d of its type", a.Code, code)
			}
			objs = append(objs, reflect.Zero(at).Interface())
		}
		s.rt = ifaceTypes[idx]
		if len(objs) > 0 {
			if e := w.api.RegisterInterfaceObjects(reflect.Zero(reflect.PointerTo(s.rt)).Interface(), objs...); e != nil {
				return nil, e
			}
		}
	default:
		return nil, fmt.Errorf("cannot realise %s", s.K)
	}
	if err != nil {
		return nil, err
	}
	if s.rt == nil {
		return nil, fmt.Errorf("cannot realise %s", s)
	}

	return s.rt, nil
}

func (s *S) hasMap() bool {
	if s == nil {
		return false
	}
	if s.K == "map" {
		return true
	}
	if s.E.hasMap() || s.KT.hasMap() {
		return true
	}
	for _, f := range s.Fields {
		if f.T.hasMap() {
			return true
		}
	}
	for _, a := range s.Alts {
		if a.T.hasMap() {
			return true
		}
	}

	return false
}

// ---- the harness's own statement of what the map form can express ----

func allKeys(fs []*F) []string {
	var ks []string
	for _, f := range fs {
		switch f.Mode {
		case "fld":
			ks = append(ks, f.Key)
		case "emb":
			ks = append(ks, allKeys(f.T.Fields)...)
		case "inl":
			if f.T.Code >= 0 {
				ks = append(ks, "type")
			}
			ks = append(ks, allKeys(f.T.Fields)...)
		}
	}

	return ks
}

func (s *S) nilable() bool {
	return s.K == "ptr" || s.K == "iface" || s.K == "u256" || (s.K == "barr" && s.P) || (s.K == "tb" && s.P)
}

// inexpressible returns "" if the shape can be expressed, otherwise the first reason found.
func (s *S) inexpressible() string {
	switch s.K {
	case "bool", "str", "bytes", "u256", "time":
		return ""
	case "u", "i":
		if s.W == 8 || s.W == 16 || s.W == 32 || s.W == 64 {
			return ""
		}

		return "width"
	case "f":
		if s.W == 32 || s.W == 64 {
			return ""
		}

		return "width"
	case "barr":
		return ""
	case "tb":
		if s.P && s.N < 0 {
			return "ptr-to-typed-slice"
		}
		if s.Key == "type" {
			return "typed-bytes-key-is-type"
		}

		return ""
	case "slice", "arr":
		return s.E.inexpressible()
	case "map":
		k := s.KT
		if !(k.K == "str" || ((k.K == "u" || k.K == "i") && k.W == 64) || (k.K == "barr" && !k.P)) {
			return "map-key-kind"
		}
		if r := k.inexpressible(); r != "" {
			return r
		}

		return s.E.inexpressible()
	case "struct":
		ks := allKeys(s.Fields)
		if s.Code >= 0 {
			ks = append(ks, "type")
		}
		seen := map[string]bool{}
		for _, k := range ks {
			if seen[k] {
				return "duplicate-key"
			}
			seen[k] = true
		}

		return fieldsInexpressible(s.Fields)
	case "ptr":
		if !(s.E.K == "struct" || s.E.K == "time" || s.E.K == "arr") {
			return "ptr-target"
		}

		return s.E.inexpressible()
	case "iface":
		seen := map[int]bool{}
		for _, a := range s.Alts {
			if seen[a.Code] {
				return "duplicate-code"
			}
			seen[a.Code] = true
			t := a.T
			ok := (t.K == "struct" && t.Code == a.Code) || (t.K == "ptr" && t.E.K == "struct" && t.E.Code == a.Code) ||
				(t.K == "tb" && t.Code == a.Code)
			if !ok {
				return "alt-shape"
			}
			if r := t.inexpressible(); r != "" {
				return r
			}
		}

		return ""
	}

	return "kind"
}

func fieldsInexpressible(fs []*F) string {
	for _, f := range fs {
		switch f.Mode {
		case "fld":
			if f.Opt && !f.T.nilable() {
				return "optional-not-nilable"
			}
			if f.T.K == "tb" && !f.T.P && f.Key == "type" {
				return "typed-bytes-key-is-type"
			}
			if r := f.T.inexpressible(); r != "" {
				return r
			}
		default:
			if r := fieldsInexpressible(f.T.Fields); r != "" {
				return r
			}
		}
	}

	return ""
}
