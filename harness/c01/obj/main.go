// C01, object layer of serializer/serializer.go: WriteObject/ReadObject, WritePayload/ReadPayload and
// WriteSliceOfObjects/ReadSliceOfObjects driven directly with a family of serializer.Serializable objects of the
// harness (type code of one or four bytes, a length byte, that many data bytes) and guards over deny / allow lists.
// One call per `o …` op line (protocol: Hive/Model/SerixObj.lean); after every call the observable state is printed
// (Written() + error class for the Serializer; value / offset / error class for the Deserializer) and compared with
// the Lean model.  Oracles on the real code, independent of Lean:
//   - roundtrip: what a write script produced is read back by the mirrored read script (permissive read guards) to the
//     same objects (auto-sorted slices sorted bytewise), each call consuming exactly the bytes its writer produced;
//   - sticky: once an error is stored no later call changes Written(), the offset or the error;
//   - aliasing: no read call changes the source buffer; objects handed out do not change when the source is overwritten.
package main

import (
	"bytes"
	"encoding/binary"
	"errors"
	"fmt"
	"sort"
	"strconv"
	"strings"

	"verifharness/hx"

	"github.com/iotaledger/hive.go/ierrors"
	"github.com/iotaledger/hive.go/serializer/v2"
)

var errItem = errors.New("harness object: refused")

func class(err error) string {
	switch {
	case err == nil:
		return "-"
	case ierrors.Is(err, errItem):
		return "item"
	case ierrors.Is(err, serializer.ErrDeserializationNotEnoughData):
		return "not-enough-data"
	case ierrors.Is(err, serializer.ErrDeserializationTypeMismatch):
		return "type-mismatch"
	case ierrors.Is(err, serializer.ErrInvalidBytes):
		return "invalid-bytes"
	case ierrors.Is(err, serializer.ErrArrayValidationMinElementsNotReached):
		return "arr-min"
	case ierrors.Is(err, serializer.ErrArrayValidationMaxElementsExceeded):
		return "arr-max"
	case ierrors.Is(err, serializer.ErrArrayValidationOrderViolatesLexicalOrder):
		return "arr-order"
	case ierrors.Is(err, serializer.ErrArrayValidationViolatesUniqueness):
		return "arr-unique"
	case ierrors.Is(err, serializer.ErrArrayValidationViolatesTypeUniqueness):
		return "arr-type-unique"
	}

	return "other"
}

func ident(err error) error { return err }

// Obj is the harness's Serializable.
type Obj struct {
	Wide bool // type denotation: four bytes instead of one
	Code uint32
	Data []byte
}

func (o *Obj) width() int {
	if o.Wide {
		return 4
	}

	return 1
}

func (o *Obj) Serialize(serializer.DeSerializationMode, interface{}) ([]byte, error) {
	if len(o.Data) > 255 {
		return nil, errItem
	}
	b := make([]byte, 0, o.width()+1+len(o.Data))
	if o.Wide {
		b = binary.LittleEndian.AppendUint32(b, o.Code)
	} else {
		b = append(b, byte(o.Code))
	}
	b = append(b, byte(len(o.Data)))

	return append(b, o.Data...), nil
}

func (o *Obj) Deserialize(data []byte, _ serializer.DeSerializationMode, _ interface{}) (int, error) {
	w := o.width()
	if len(data) < w {
		return 0, errItem
	}
	var c uint32
	if o.Wide {
		c = binary.LittleEndian.Uint32(data)
		if c != o.Code {
			return 0, serializer.ErrDeserializationTypeMismatch
		}
	} else if data[0] != byte(o.Code) {
		return 0, serializer.ErrDeserializationTypeMismatch
	}
	if len(data) < w+1 {
		return 0, errItem
	}
	n := int(data[w])
	if len(data) < w+1+n {
		return 0, errItem
	}
	o.Data = append([]byte{}, data[w+1:w+1+n]...)

	return w + 1 + n, nil
}

func (o *Obj) MarshalJSON() ([]byte, error) { return []byte("null"), nil }
func (o *Obj) UnmarshalJSON([]byte) error   { return nil }

func (o *Obj) String() string { return fmt.Sprintf("%d:%s", o.Code, hx.Hex(o.Data)) }

type sess struct {
	r   *hx.Run
	ser *serializer.Serializer
	de  *serializer.Deserializer
	src []byte
	// what the object readers handed out so far on this Deserializer, with the text at that time (aliasing oracle)
	handed  []*Obj
	handedS []string
	lastVal string
}

func (x *sess) fail(oracle, detail, trigger string) {
	x.r.Fail(oracle, detail+" replay-ops="+fmt.Sprint(x.r.CaseLines()), map[string]string{"oracle": oracle, "trigger": trigger, "layer": "serializer-objects"})
}

func natList(s string) []uint32 {
	if s == "-" || s == "nil" {
		return nil
	}
	var out []uint32
	for _, p := range strings.Split(s, ",") {
		v, err := strconv.ParseUint(p, 10, 32)
		if err != nil {
			panic("bad list " + s)
		}
		out = append(out, uint32(v))
	}

	return out
}

func has(l []uint32, c uint32) bool {
	for _, v := range l {
		if v == c {
			return true
		}
	}

	return false
}

func writeGuard(s string) serializer.SerializableWriteGuardFunc {
	if s == "nil" {
		return nil
	}
	deny := natList(s)

	return func(seri serializer.Serializable) error {
		if has(deny, seri.(*Obj).Code) {
			return errItem
		}

		return nil
	}
}

func readGuard(s string, wide bool) serializer.SerializableReadGuardFunc {
	allow := natList(s)

	return func(ty uint32) (serializer.Serializable, error) {
		if !has(allow, ty) {
			return nil, errItem
		}

		return &Obj{Wide: wide, Code: ty}, nil
	}
}

func modeOf(s string) serializer.DeSerializationMode {
	m := serializer.DeSeriModeNoValidation
	if strings.HasPrefix(s, "v") {
		m |= serializer.DeSeriModePerformValidation
	}
	if strings.HasSuffix(s, "s") {
		m |= serializer.DeSeriModePerformLexicalOrdering
	}

	return m
}

func lpOf(s string) serializer.SeriLengthPrefixType {
	switch s {
	case "u8":
		return serializer.SeriLengthPrefixTypeAsByte
	case "u16":
		return serializer.SeriLengthPrefixTypeAsUint16
	case "u32":
		return serializer.SeriLengthPrefixTypeAsUint32
	case "u64":
		return serializer.SeriLengthPrefixTypeAsUint64
	}

	return serializer.SeriLengthPrefixType(0) // "none": an unknown prefix type
}

func atoi(s string) int {
	v, err := strconv.Atoi(s)
	if err != nil {
		panic("bad number " + s)
	}

	return v
}

func rulesOf(mn, mx, fl, must string) *serializer.ArrayRules {
	r := &serializer.ArrayRules{Min: uint(atoi(mn)), Max: uint(atoi(mx))}
	for _, c := range fl {
		switch c {
		case 'd':
			r.ValidationMode |= serializer.ArrayValidationModeNoDuplicates
		case 'l':
			r.ValidationMode |= serializer.ArrayValidationModeLexicalOrdering
		case 'b':
			r.ValidationMode |= serializer.ArrayValidationModeAtMostOneOfEachTypeByte
		case 'w':
			r.ValidationMode |= serializer.ArrayValidationModeAtMostOneOfEachTypeUint32
		}
	}
	if l := natList(must); len(l) > 0 {
		r.MustOccur = serializer.TypePrefixes{}
		for _, c := range l {
			r.MustOccur[c] = struct{}{}
		}
	}

	return r
}

func objOf(den, code, h string) *Obj {
	return &Obj{Wide: den == "u32", Code: uint32(atoi(code)), Data: hx.UnHex(h)}
}

func denOf(s string) serializer.TypeDenotationType {
	if s == "u32" {
		return serializer.TypeDenotationUint32
	}

	return serializer.TypeDenotationByte
}

func (x *sess) serState() (int, string) {
	_, err := x.ser.Serialize()

	return x.ser.Written(), class(err)
}

func (x *sess) execWrite(f []string) string {
	if x.ser == nil {
		x.ser = serializer.NewSerializer()
	}
	w0, e0 := x.serState()
	var p string
	switch f[0] {
	case "wobj":
		o := objOf(f[3], f[4], f[5])
		p = hx.Safely(func() { x.ser.WriteObject(o, modeOf(f[1]), nil, writeGuard(f[2]), ident) })
	case "wpay":
		if f[2] == "nil" {
			p = hx.Safely(func() { x.ser.WritePayload(nil, serializer.DeSeriModeNoValidation, nil, writeGuard(f[1]), ident) })
		} else {
			o := objOf(f[2], f[3], f[4])
			p = hx.Safely(func() { x.ser.WritePayload(o, serializer.DeSeriModeNoValidation, nil, writeGuard(f[1]), ident) })
		}
	case "wslice":
		rules := rulesOf(f[3], f[4], f[5], f[6])
		rules.Guards.WriteGuard = writeGuard(f[7])
		seris := make(serializer.Serializables, 0, len(f)-9)
		for _, t := range f[9:] {
			ch := strings.SplitN(t, ":", 2)
			seris = append(seris, objOf(f[8], ch[0], ch[1]))
		}
		p = hx.Safely(func() { x.ser.WriteSliceOfObjects(seris, modeOf(f[2]), nil, lpOf(f[1]), rules, ident) })
	default:
		return "bad-op"
	}
	if p != "" {
		return "panic" // (the calls that can panic do so before they write)
	}
	w1, e1 := x.serState()
	if e0 != "-" && (w1 != w0 || e1 != e0) {
		x.fail("sticky", fmt.Sprintf("Serializer with stored error %s (written %d) changed to %s (written %d) on %v", e0, w0, e1, w1, f), "serializer")
	}

	return fmt.Sprintf("%d %s", w1, e1)
}

func (x *sess) execRead(f []string) string {
	if x.de == nil {
		return "bad-op"
	}
	off0, err0 := x.de.Done()
	before := append([]byte{}, x.src...)
	val := "-"
	var got []*Obj
	var p string
	switch f[0] {
	case "robj":
		var seri serializer.Serializable
		p = hx.Safely(func() {
			x.de.ReadObject(func(s serializer.Serializable) { seri = s }, serializer.DeSeriModeNoValidation, nil, denOf(f[1]), readGuard(f[2], f[1] == "u32"), ident)
		})
		if seri != nil {
			got = append(got, seri.(*Obj))
			val = seri.(*Obj).String()
		}
	case "rpay":
		var seri serializer.Serializable
		called := false
		p = hx.Safely(func() {
			x.de.ReadPayload(func(s serializer.Serializable) { seri = s; called = true }, serializer.DeSeriModeNoValidation, nil, readGuard(f[1], true), ident)
		})
		switch {
		case seri != nil:
			got = append(got, seri.(*Obj))
			val = seri.(*Obj).String()
		case !called:
			val = "nil"
		}
	case "rslice":
		rules := rulesOf(f[3], f[4], f[5], f[6])
		wide := f[7] == "u32"
		rules.Guards.ReadGuard = readGuard(f[8], wide)
		if f[9] != "nil" {
			first := byte(atoi(f[9]))
			rules.Guards.PostReadGuard = func(seri serializer.Serializable) error {
				if o := seri.(*Obj); len(o.Data) > 0 && o.Data[0] == first {
					return errItem
				}

				return nil
			}
		}
		var seris serializer.Serializables
		p = hx.Safely(func() {
			x.de.ReadSliceOfObjects(func(s serializer.Serializables) { seris = s }, modeOf(f[2]), nil, lpOf(f[1]), denOf(f[7]), rules, ident)
		})
		parts := make([]string, 0, len(seris))
		for _, s := range seris {
			got = append(got, s.(*Obj))
			parts = append(parts, s.(*Obj).String())
		}
		val = "[" + strings.Join(parts, ",") + "]"
	default:
		return "bad-op"
	}
	if p != "" {
		return "panic" // (… and before they advance)
	}
	if !bytes.Equal(before, x.src) {
		x.fail("aliasing", fmt.Sprintf("%v changed the source buffer from %s to %s", f, hx.Hex(before), hx.Hex(x.src)), "read-mutates-source")
	}
	off1, err1 := x.de.Done()
	if err0 != nil && (off1 != off0 || class(err1) != class(err0)) {
		x.fail("sticky", fmt.Sprintf("Deserializer with stored error %s (offset %d) changed to %s (offset %d) on %v", class(err0), off0, class(err1), off1, f), "deserializer")
	}
	if err1 != nil {
		val = "-"
	} else {
		for _, o := range got {
			x.handed = append(x.handed, o)
			x.handedS = append(x.handedS, o.String())
		}
	}
	x.lastVal = val

	return fmt.Sprintf("%s %d %s", val, off1, class(err1))
}

func (x *sess) exec(op string) string {
	f := strings.Fields(op)
	if len(f) < 2 || f[0] != "o" {
		return "bad-op"
	}
	f = f[1:]
	switch f[0] {
	case "new":
		x.ser = serializer.NewSerializer()

		return "ok"
	case "ser":
		if x.ser == nil {
			x.ser = serializer.NewSerializer()
		}
		b, err := x.ser.Serialize()
		if err != nil {
			return "err " + class(err)
		}

		return "ok " + hx.Hex(b)
	case "rnew":
		x.checkHanded()
		x.src = hx.UnHex(f[1])
		x.de = serializer.NewDeserializer(x.src)
		x.handed, x.handedS = nil, nil

		return "ok"
	case "rdone":
		if x.de == nil {
			return "bad-op"
		}
		off, err := x.de.Done()

		return fmt.Sprintf("%d %s", off, class(err))
	case "h", "rh":
		return x.execHelper(f)
	}
	if strings.HasPrefix(f[0], "w") {
		return x.execWrite(f)
	}

	return x.execRead(f)
}

// execHelper: Do / AbortIf / WithValidation of the Serializer (`h`) and the Deserializer (`rh`).
func (x *sess) execHelper(f []string) string {
	onSer := f[0] == "h"
	if onSer && x.ser == nil {
		x.ser = serializer.NewSerializer()
	}
	if !onSer && x.de == nil {
		return "bad-op"
	}
	called := "skipped"
	producer := func(fail string) error {
		if fail == "1" {
			return errItem
		}

		return nil
	}
	var before []byte
	if !onSer {
		before = append([]byte{}, x.src...)
	}
	w0, e0 := 0, "-"
	if onSer {
		w0, e0 = x.serState()
	} else {
		o, err := x.de.Done()
		w0, e0 = o, class(err)
	}
	p := hx.Safely(func() {
		switch f[1] {
		case "do":
			fn := func() { called = "called" }
			if onSer {
				x.ser.Do(fn)
			} else {
				x.de.Do(fn)
			}
		case "abortif":
			fn := func(err error) error {
				called = "called"
				if err != nil {
					x.fail("helper", "AbortIf handed a non-nil error to its producer", "abortif-arg")
				}

				return producer(f[2])
			}
			if onSer {
				x.ser.AbortIf(fn)
			} else {
				x.de.AbortIf(fn)
			}
		case "wv":
			fn := func(b []byte, err error) error {
				called = "given:" + hx.Hex(b)
				if err != nil {
					x.fail("helper", "WithValidation handed a non-nil error to its producer", "wv-arg")
				}

				return producer(f[3])
			}
			if onSer {
				x.ser.WithValidation(modeOf(f[2]), fn)
			} else {
				x.de.WithValidation(modeOf(f[2]), fn)
			}
		}
	})
	if p != "" {
		return "panic"
	}
	w1, e1 := 0, "-"
	if onSer {
		w1, e1 = x.serState()
	} else {
		o, err := x.de.Done()
		w1, e1 = o, class(err)
		if !bytes.Equal(before, x.src) {
			x.fail("aliasing", fmt.Sprintf("%v changed the source buffer", f), "read-mutates-source")
		}
	}
	// independent of Lean: a helper never moves Written() / the offset, is skipped under a stored error, and only the
	// producer's verdict is stored
	if w1 != w0 {
		x.fail("helper", fmt.Sprintf("%v moved Written()/offset from %d to %d", f, w0, w1), "helper-moves")
	}
	if e0 != "-" && (called != "skipped" || e1 != e0) {
		x.fail("sticky", fmt.Sprintf("%v under the stored error %s: callback %s, error now %s", f, e0, called, e1), "helper")
	}
	if e0 == "-" {
		wantErr := "-"
		if called != "skipped" && ((f[1] == "abortif" && f[2] == "1") || (f[1] == "wv" && f[3] == "1")) {
			wantErr = "item"
		}
		if e1 != wantErr {
			x.fail("helper", fmt.Sprintf("%v: callback %s, stored error %s, expected %s", f, called, e1, wantErr), "helper-error")
		}
		if f[1] == "wv" && !strings.HasPrefix(f[2], "v") && called != "skipped" {
			x.fail("helper", fmt.Sprintf("%v: producer called without the validation bit", f), "wv-mode")
		}
		if (f[1] != "wv" || strings.HasPrefix(f[2], "v")) && called == "skipped" {
			x.fail("helper", fmt.Sprintf("%v: callback not called although no error is stored", f), "helper-skipped")
		}
	}

	return fmt.Sprintf("%s %d %s", called, w1, e1)
}

// checkHanded: objects handed out must not be views into the source: overwrite the source and compare.
func (x *sess) checkHanded() {
	if len(x.handed) == 0 {
		return
	}
	for i := range x.src {
		x.src[i] ^= 0xff
	}
	for i, o := range x.handed {
		if o.String() != x.handedS[i] {
			x.fail("aliasing", fmt.Sprintf("object #%d was %s and is %s after the source buffer was overwritten", i, x.handedS[i], o.String()), "object-aliases-source")

			break
		}
	}
	for i := range x.src {
		x.src[i] ^= 0xff
	}
}

func (x *sess) line(op string) string {
	var ans string
	if p := hx.Safely(func() { ans = x.exec(op) }); p != "" {
		ans = "harness-panic " + p
	}
	x.r.Line(op, ans)

	return ans
}

// ---- generator ----

type call struct {
	w, r   string // op lines
	expect string // what the mirrored read must hand out if the round trip applies ("" = no expectation)
	why    string // why there is no expectation
}

func listStr(l []uint32) string {
	if len(l) == 0 {
		return "-"
	}
	p := make([]string, len(l))
	for i, v := range l {
		p[i] = strconv.FormatUint(uint64(v), 10)
	}

	return strings.Join(p, ",")
}

func randData(rng *hx.Rng) []byte {
	n := hx.Pick(rng, []int{0, 0, 1, 1, 2, 3, 5, 8, 13, 255})
	if rng.Chance(1, 60) {
		n = 256
	}
	b := make([]byte, n)
	for i := range b {
		b[i] = byte(rng.Intn(256))
	}
	if n > 0 && rng.Chance(1, 3) {
		b[0] = byte(rng.Intn(3)) // so that post-read guards and duplicates hit
	}

	return b
}

func randCode(rng *hx.Rng, wide bool) uint32 {
	if wide && rng.Chance(1, 4) {
		return hx.Pick(rng, []uint32{256, 65536, 1 << 31, 0xffffffff, 257})
	}

	return uint32(rng.Intn(6))
}

func serBytes(wide bool, code uint32, data []byte) []byte {
	o := &Obj{Wide: wide, Code: code, Data: data}
	b, _ := o.Serialize(0, nil)

	return b
}

func genCall(rng *hx.Rng) call {
	wide := rng.Chance(1, 3)
	den := "u8"
	if wide {
		den = "u32"
	}
	deny := hx.Pick(rng, []string{"nil", "nil", "-", "-", "-", "-", "-", "-", "-", "4", "1,5"})
	switch rng.Intn(5) {
	case 0: // WriteObject / ReadObject
		mode := hx.Pick(rng, []string{"v", "n"})
		if deny == "nil" && rng.Chance(3, 4) {
			mode = "n" // (a nil guard with validation panics)
		}
		code, data := randCode(rng, wide), randData(rng)
		allow := []uint32{code, 0, 1, 2, 3}
		if rng.Chance(1, 12) {
			allow = []uint32{9}
		}
		c := call{w: fmt.Sprintf("o wobj %s %s %s %d %s", mode, deny, den, code, hx.Hex(data)),
			r: fmt.Sprintf("o robj %s %s", den, listStr(allow))}
		if has(allow, code) {
			c.expect = fmt.Sprintf("%d:%s", code, hx.Hex(data))
		} else {
			c.why = "read-guard"
		}

		return c
	case 1: // WritePayload / ReadPayload
		if rng.Chance(1, 6) {
			return call{w: "o wpay " + deny + " nil", r: "o rpay -", expect: "nil"}
		}
		code, data := randCode(rng, wide), randData(rng)
		allow := []uint32{code, 0, 1, 2, 3}
		c := call{w: fmt.Sprintf("o wpay %s %s %d %s", deny, den, code, hx.Hex(data)), r: "o rpay " + listStr(allow)}
		if wide {
			c.expect = fmt.Sprintf("%d:%s", code, hx.Hex(data))
		} else {
			c.why = "payload-with-one-byte-type" // ReadPayload reads a uint32 type: such payloads are not self-describing
		}

		return c
	default: // WriteSliceOfObjects / ReadSliceOfObjects
		lp := hx.Pick(rng, []string{"u8", "u8", "u8", "u8", "u8", "u16", "u16", "u16", "u16", "u32", "u32", "u32", "u64", "none"})
		mode := hx.Pick(rng, []string{"v", "n", "vs", "ns", "vs"})
		fl := hx.Pick(rng, []string{"-", "-", "-", "-", "d", "l", "l", "dl", "b", "w", "lb", "dw"})
		mn, mx := 0, 0
		if rng.Chance(1, 4) {
			mn = rng.Intn(3)
		}
		if rng.Chance(1, 4) {
			mx = 1 + rng.Intn(4)
		}
		n := hx.Pick(rng, []int{0, 1, 2, 2, 3, 3, 4, 6})
		if lp == "u8" && rng.Chance(1, 40) {
			n = hx.Pick(rng, []int{255, 256})
		}
		type od struct {
			code uint32
			data []byte
		}
		objs := make([]od, n)
		allow := []uint32{0, 1, 2, 3}
		for i := range objs {
			objs[i] = od{randCode(rng, wide), randData(rng)}
			if n > 8 {
				objs[i].data = []byte{byte(i), byte(i >> 8)}
			}
			if i > 0 && rng.Chance(1, 5) {
				objs[i] = objs[rng.Intn(i)]
			}
			if !has(allow, objs[i].code) {
				allow = append(allow, objs[i].code)
			}
		}
		if (strings.Contains(fl, "l")) && rng.Chance(1, 2) { // mostly sorted inputs for the lexical rule
			sort.Slice(objs, func(i, j int) bool {
				return bytes.Compare(serBytes(wide, objs[i].code, objs[i].data), serBytes(wide, objs[j].code, objs[j].data)) < 0
			})
		}
		must := "-"
		if rng.Chance(1, 3) {
			must = listStr([]uint32{uint32(rng.Intn(4))})
			if n > 0 && rng.Chance(1, 2) {
				must = listStr([]uint32{objs[rng.Intn(n)].code})
			}
		}
		post := "nil"
		if rng.Chance(1, 4) {
			post = strconv.Itoa(rng.Intn(3))
		}
		if rng.Chance(1, 15) {
			allow = allow[:2]
		}
		toks := make([]string, n)
		for i, o := range objs {
			toks[i] = fmt.Sprintf("%d:%s", o.code, hx.Hex(o.data))
		}
		c := call{w: strings.TrimSpace(fmt.Sprintf("o wslice %s %s %d %d %s %s %s %s %s", lp, mode, mn, mx, fl, must, deny, den, strings.Join(toks, " "))),
			r: fmt.Sprintf("o rslice %s %s %d %d %s %s %s %s %s", lp, mode, mn, mx, fl, must, den, listStr(allow), post)}
		// expectation of the round trip, from the harness's own reading of the documentation
		validating := strings.HasPrefix(mode, "v")
		sorted := strings.HasSuffix(mode, "s") && strings.Contains(fl, "l")
		exp := append([]od{}, objs...)
		if sorted {
			sort.SliceStable(exp, func(i, j int) bool {
				return bytes.Compare(serBytes(wide, exp[i].code, exp[i].data), serBytes(wide, exp[j].code, exp[j].data)) < 0
			})
		}
		ok := true
		for _, o := range objs {
			if !has(allow, o.code) {
				ok, c.why = false, "read-guard"
			}
			if validating && post != "nil" && len(o.data) > 0 && int(o.data[0]) == atoi(post) {
				ok, c.why = false, "post-read-guard"
			}
		}
		if validating && must != "-" {
			found := false
			for _, o := range objs {
				if o.code == natList(must)[0] {
					found = true
				}
			}
			if !found {
				// WriteSliceOfObjects does not look at MustOccur, ReadSliceOfObjects does: not a round-trip clause
				ok, c.why = false, "must-occur-only-checked-by-reader"
			}
		}
		if ok {
			p := make([]string, len(exp))
			for i, o := range exp {
				p[i] = fmt.Sprintf("%d:%s", o.code, hx.Hex(o.data))
			}
			c.expect = "[" + strings.Join(p, ",") + "]"
		}

		return c
	}
}

func genHelper(rng *hx.Rng) string {
	switch rng.Intn(3) {
	case 0:
		return "do"
	case 1:
		return "abortif " + hx.Pick(rng, []string{"0", "0", "0", "1"})
	default:
		return "wv " + hx.Pick(rng, []string{"v", "n", "vs"}) + " " + hx.Pick(rng, []string{"0", "0", "0", "1"})
	}
}

func genCase(r *hx.Run, rng *hx.Rng, sub uint64) {
	r.Case(sub)
	x := &sess{r: r}
	x.line("o new")
	n := 1 + rng.Intn(4)
	calls := make([]call, 0, n)
	lens := make([]int, 0, n)
	okAll := true
	prev := 0
	for i := 0; i < n; i++ {
		if rng.Chance(1, 4) {
			x.line("o h " + genHelper(rng))
		}
		c := genCall(rng)
		ans := x.line(c.w)
		r.Count("w:" + strings.Fields(c.w)[1])
		f := strings.Fields(ans)
		if len(f) != 2 || f[1] != "-" {
			okAll = false
			r.Count("w-answer:" + f[len(f)-1])
			if rng.Chance(1, 2) {
				break
			}

			continue
		}
		w, _ := strconv.Atoi(f[0])
		calls = append(calls, c)
		lens = append(lens, w-prev)
		prev = w
	}
	ser := x.line("o ser")
	if !strings.HasPrefix(ser, "ok ") {
		r.Count("script:write-error")

		return
	}
	data := hx.UnHex(strings.TrimPrefix(ser, "ok "))
	if okAll {
		r.Nontrivial(hx.Hex(data))
	}
	r.Count("script:written")
	// mirrored read script on the produced bytes (+ sometimes a tail)
	tail := []byte{}
	if rng.Chance(1, 3) {
		tail = randData(rng)
	}
	x.line("o rnew " + hx.Hex(append(append([]byte{}, data...), tail...)))
	off := 0
	for i, c := range calls {
		if rng.Chance(1, 4) {
			h := genHelper(rng)
			if strings.HasSuffix(h, " 1") && rng.Chance(2, 3) {
				h = h[:len(h)-1] + "0" // mostly accepting: a stored error ends the round-trip part of the case
			}
			if a := x.line("o rh " + h); !strings.HasSuffix(a, " -") {
				okAll = false
			}
		}
		ans := x.line(c.r)
		f := strings.Fields(ans)
		r.Count("r:" + strings.Fields(c.r)[1])
		r.Count("r-answer:" + f[len(f)-1])
		if okAll && c.expect != "" {
			want := fmt.Sprintf("%s %d -", c.expect, off+lens[i])
			if ans != want {
				x.fail("roundtrip", fmt.Sprintf("%q wrote %d bytes at offset %d of %s; %q answered %q, expected %q", c.w, lens[i], off, hx.Hex(data), c.r, ans, want), strings.Fields(c.w)[1])
			}
			r.Count("roundtrip:checked")
		} else if okAll {
			r.Count("roundtrip:excluded:" + c.why)
		}
		if len(f) == 3 && f[2] != "-" {
			break
		}
		off += lens[i]
	}
	x.line("o rdone")
	x.checkHanded()
	// mutated inputs: truncation, one byte changed, a length byte bumped
	for k := 0; k < 2 && len(data) > 0 && len(calls) > 0; k++ {
		m := append([]byte{}, data...)
		switch rng.Intn(3) {
		case 0:
			m = m[:rng.Intn(len(m))]
		case 1:
			m[rng.Intn(len(m))] ^= byte(1 << rng.Intn(8))
		default:
			m[rng.Intn(len(m))]++
		}
		x.line("o rnew " + hx.Hex(m))
		for _, c := range calls {
			ans := x.line(c.r)
			f := strings.Fields(ans)
			r.Count("mutated-answer:" + f[len(f)-1])
		}
		x.line("o rdone")
		x.checkHanded()
	}
}

var corpus = [][]string{
	// the three pairs, plain
	{"o new", "o wobj v - u8 3 0102", "o wpay - u32 7 aa", "o wpay nil nil", "o wslice u8 vs 0 0 l - - u8 2:05 1:06 1:", "o ser",
		"o rnew 0302010206000000" + "0700000001aa" + "00000000" + "03" + "0100" + "010106" + "020105", "o robj u8 3", "o rpay 7", "o rpay -", "o rslice u8 vs 0 0 l - u8 1,2 nil", "o rdone"},
	// WriteObject with validation and a nil guard panics; without validation the guard is not consulted
	{"o new", "o wobj v nil u8 1 00", "o wobj n nil u8 1 00", "o wobj n 1 u8 1 00", "o wobj v 1 u8 1 00", "o wobj v - u8 2 00", "o ser"},
	// WritePayload consults a non-nil guard in every mode
	{"o new", "o wpay 7 u32 7 aa", "o ser", "o new", "o wpay nil u32 7 aa", "o ser"},
	// ReadPayload: the length is consumed even when the payload is refused; length 0 is "no payload"; too short; length mismatch
	{"o rnew 0600000007000000" + "01aa", "o rpay 1", "o rdone", "o rnew 00000000ff", "o rpay -", "o rdone", "o rnew 0400000007000000", "o rpay 7", "o rdone",
		"o rnew 0700000007000000" + "01aaff", "o rpay 7", "o rdone", "o rnew 0500000007000000" + "01aa", "o rpay 7", "o rdone", "o rnew 050000", "o rpay 7", "o rdone"},
	// ReadSliceOfObjects: must-occur, post-read guard, read guard, element validators on the consumed bytes
	{"o rnew 02" + "0100" + "0200", "o rslice u8 v 0 0 - 3 u8 1,2 nil", "o rdone", "o rnew 02" + "0100" + "0200", "o rslice u8 n 0 0 - 3 u8 1,2 nil", "o rdone",
		"o rnew 02" + "010105" + "0200", "o rslice u8 v 0 0 - - u8 1,2 5", "o rdone", "o rnew 02" + "0100" + "0300", "o rslice u8 v 0 0 - - u8 1,2 nil", "o rdone",
		"o rnew 02" + "0100" + "0100", "o rslice u8 v 0 0 b - u8 1,2 nil", "o rdone", "o rnew 00", "o rslice u8 v 1 0 - - u8 1 nil", "o rdone",
		"o rnew 00", "o rslice u8 v 0 0 - 1 u8 1 nil", "o rdone", "o rnew 0001", "o rslice u64 v 0 0 - - u8 1 nil", "o rdone"},
	// sticky errors on both chains
	{"o new", "o wobj v 1 u8 1 00", "o wobj v - u8 2 00", "o wpay nil nil", "o ser", "o rnew 0100", "o robj u8 2", "o robj u8 1", "o rpay 1", "o rdone"},
	// chain helpers: Do / AbortIf / WithValidation on both chains, skipped under a stored error
	{"o new", "o h do", "o wobj n - u8 1 aa", "o h wv v 0", "o h wv n 1", "o h abortif 0", "o h wv vs 1", "o h do", "o h abortif 1", "o h wv v 0", "o ser",
		"o rnew 0101aa02", "o rh wv v 0", "o robj u8 1", "o rh wv v 0", "o rh do", "o rh abortif 1", "o rh do", "o rh wv v 0", "o robj u8 2", "o rdone"},
	// data too long for the length byte: Serialize refuses
	{"o new", "o wslice u8 n 0 0 - - nil u8 1:" + strings.Repeat("00", 256), "o ser"},
}

func main() {
	r := hx.Start()
	r.Rule = "scripts of 1..4 object writer calls (WriteObject, WritePayload, WriteSliceOfObjects with every prefix width, array-rule mode, guards) followed by the " +
		"mirrored reader calls on the produced bytes and on 2 mutated inputs; non-trivial = the write script succeeded; distinct by the produced bytes"
	r.MaxSamples = 2
	if lines := r.ReplayLines(); lines != nil {
		r.Case(0)
		x := &sess{r: r}
		for _, l := range lines {
			x.line(l)
		}
		r.Finish()

		return
	}
	for _, c := range corpus {
		r.Case(0)
		x := &sess{r: r}
		for _, l := range c {
			x.line(l)
		}
	}
	n := 1500 * r.Scale
	for i := 0; i < n; i++ {
		rng, sub := r.Rng.Fork()
		genCase(r, rng, sub)
	}
	r.Finish()
}
