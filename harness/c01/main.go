// C01 (binary serix part) correspondence harness: catalogue types and randomly generated registered
// universes (reflect.StructOf/SliceOf/ArrayOf/MapOf/PointerTo + a fresh serix.API); the schema sent
// to the Lean model is derived by reflection from the Go type and the registered settings
// (harness/serixgen).  Per value: Encode with and without validation, Decode of the produced bytes,
// the canonical form, and the oracles (evaluated on the real code, independent of Lean): Decode(Encode(v))
// ≡ canon v with n = len, with and without trailing bytes; two encodings equal; rebuilt maps encode equally.
package main

import "verifharness/serixgen"

func main() {
	serixgen.Main("C01",
		"catalogue of hand written types (x3 value sets) + random registered universes (depth<=4, collection sizes 0..6, "+
			"byte payload boundary lengths 255/256/65535/65536, all prefix widths, every array rule); per value: enc with and without validation, "+
			"dec(enc), canon, a few mutated inputs; non-trivial = Encode succeeded on a value with a non-empty collection/string, a nested struct or a non-nil interface; "+
			"distinct by sha256(schema, value, mode)",
		serixgen.Plan{Values: 3, Mutations: 1, RoundTrip: true, BothModes: true, ThoroughScale: 12}, 2500, corpus)
}

// corpus: minimised past failures and hand written cases, run first.
var corpus = [][]string{
	{"type cat arrays", "def -", "enc n (l (l (n 1) (n 2) (n 3)) (l) (l (l (n 1) (n 2)) (l (n 3) (n 4))) (some (l (n 5) (n 6))) (some (x 01020304)) (l (x 0102) (x 0304)) (l (x 010203) (x 040506)))",
		"dec v 03010002000300", "dec v 02010002000300"},
	{"type cat emb-ptr", "def -", "enc n (l nil (n 5))", "enc v (l (some (l (n 1) (n 2))) (n 5))", "dec n 05", "dec n 01020005"},
	{"type cat bad-lp64", "def -", "enc n (l (x 6162))", "dec n 02000000000000006162"},
	{"type cat optional", "def -", "enc n (l nil nil (some (l)) nil (n 1) (some (l (n 7))))", "dec n 00000000000000000000000000000000010907000000"},
	{"type cat maps", "def -", "enc n (l (l) (l (kv (x 6b31) (x 7631))) (l (kv (x 01020304) (some (l (n 3))))) (l (kv (i 4) (alt 100 (some (l (n 9)))))) (l) (l))"},
	{"type cat empty-dups", "def -", "enc v (l (l) (l))", "dec v 02"},
	{"type cat special", "def -", "enc n (l (i 9223372036854775808) (i 5) (x 01020304) (x 0000000000000000000000000000000000000000000000000000000000000000) nil)"},
}
