package main

import (
	"context"
	"fmt"
	"strconv"
	"strings"

	"verifharness/hx"

	"github.com/iotaledger/hive.go/ds/serializableorderedmap"
	"github.com/iotaledger/hive.go/serializer/v2/serix"
)

// Ordered maps whose values are pointers to structs, slices and Go maps: serix decodes into an existing target
// without resetting it, so a Decode loop that reuses one value variable would alias / accumulate / merge values.
// Ten values of each type are named 0..9; the Lean model sees a value as its index and the codec as the table of
// their encodings (sent with the `codec` request).

type ptrVal struct {
	A uint8  `serix:""`
	B uint16 `serix:""`
}
type sliceVal []uint16
type mapVal map[uint8]uint8

type refEntry struct {
	k E
	v int
}

type tmap interface {
	reset()
	set(k E, v int)
	del(k E)
	enc() ([]byte, error)
	dec(b []byte) (int, error)
	entries() (es []refEntry, problems []string)
	fresh() tmap
	tableHex() []string
}

type typedMap[V any] struct {
	api   *serix.API
	m     *serializableorderedmap.SerializableOrderedMap[E, V]
	vals  func(i int) V
	eq    func(a, b V) bool
	ident func(v V) any // identity of a pointer value, nil for value types
}

func (t *typedMap[V]) reset()         { t.m = serializableorderedmap.New[E, V]() }
func (t *typedMap[V]) set(k E, v int) { t.m.Set(k, t.vals(v)) }
func (t *typedMap[V]) del(k E)        { t.m.Delete(k) }
func (t *typedMap[V]) enc() ([]byte, error) {
	return t.m.Encode(t.api)
}
func (t *typedMap[V]) dec(b []byte) (int, error) { return t.m.Decode(t.api, b) }
func (t *typedMap[V]) fresh() tmap {
	return &typedMap[V]{api: t.api, m: serializableorderedmap.New[E, V](), vals: t.vals, eq: t.eq, ident: t.ident}
}

func (t *typedMap[V]) entries() (es []refEntry, problems []string) {
	seen := map[any]E{}
	t.m.ForEach(func(k E, v V) bool {
		idx := -1
		for i := 0; i < 10; i++ {
			if t.eq(t.vals(i), v) {
				idx = i

				break
			}
		}
		if idx < 0 {
			problems = append(problems, fmt.Sprintf("value of key %d is %+v, not one of the ten named values", k, v))
		}
		if t.ident != nil {
			if id := t.ident(v); id != nil {
				if other, dup := seen[id]; dup {
					problems = append(problems, fmt.Sprintf("keys %d and %d share one pointer value", other, k))
				}
				seen[id] = k
			}
		}
		es = append(es, refEntry{k, idx})

		return true
	})

	return es, problems
}

func (t *typedMap[V]) tableHex() []string {
	out := make([]string, 10)
	for i := range out {
		b, err := t.api.Encode(context.Background(), t.vals(i))
		if err != nil {
			panic(err)
		}
		out[i] = hx.Hex(b)
	}

	return out
}

var sliceTable = []sliceVal{{}, {1}, {2, 3}, {4, 5, 6}, {7}, {8, 9}, {1, 1}, {0}, {65535, 2, 3, 4}, {5, 5, 5}}
var mapTable = []mapVal{{}, {1: 1}, {1: 2}, {2: 1}, {1: 1, 2: 2}, {3: 4, 1: 2}, {5: 6}, {0: 0}, {7: 8, 9: 10, 11: 12}, {200: 1}}

func newTypedMaps() (*serix.API, []tmap) {
	api := serix.NewAPI()
	if err := api.RegisterTypeSettings(sliceVal{}, serix.TypeSettings{}.WithLengthPrefixType(serix.LengthPrefixTypeAsByte)); err != nil {
		panic(err)
	}
	if err := api.RegisterTypeSettings(mapVal{}, serix.TypeSettings{}.WithLengthPrefixType(serix.LengthPrefixTypeAsByte)); err != nil {
		panic(err)
	}
	p := &typedMap[*ptrVal]{api: api,
		vals:  func(i int) *ptrVal { return &ptrVal{A: uint8(i), B: uint16(i*257 + 1)} },
		eq:    func(a, b *ptrVal) bool { return a != nil && b != nil && *a == *b },
		ident: func(v *ptrVal) any { return v }}
	s := &typedMap[sliceVal]{api: api,
		vals: func(i int) sliceVal { return append(sliceVal{}, sliceTable[i]...) },
		eq: func(a, b sliceVal) bool {
			if len(a) != len(b) {
				return false
			}
			for i := range a {
				if a[i] != b[i] {
					return false
				}
			}

			return true
		}}
	m := &typedMap[mapVal]{api: api,
		vals: func(i int) mapVal {
			c := mapVal{}
			for k, v := range mapTable[i] {
				c[k] = v
			}

			return c
		},
		eq: func(a, b mapVal) bool {
			if len(a) != len(b) {
				return false
			}
			for k, v := range a {
				if w, ok := b[k]; !ok || w != v {
					return false
				}
			}

			return true
		}}
	out := []tmap{p, s, m}
	for _, t := range out {
		t.reset()
	}

	return api, out
}

var typedNames = []string{"*struct", "[]uint16", "map[uint8]uint8"}

func showRef(es []refEntry) string {
	parts := make([]string, 0, len(es))
	for _, e := range es {
		if e.v < 0 {
			parts = append(parts, fmt.Sprintf("%d:?", e.k))
		} else {
			parts = append(parts, fmt.Sprintf("%d:%d", e.k, e.v))
		}
	}

	return "[" + strings.Join(parts, " ") + "]"
}

func refSet(ref []refEntry, k E, v int) []refEntry {
	for i := range ref {
		if ref[i].k == k {
			ref[i].v = v

			return ref
		}
	}

	return append(ref, refEntry{k, v})
}

// typedOp executes tnew/tset/tdel/tenc/tdec and evaluates the value-exact round-trip oracle.
func (w *world) typedOp(f []string) string {
	if w.tmaps == nil {
		_, w.tmaps = newTypedMaps()
		w.tref = make([][]refEntry, len(w.tmaps))
		w.tlast = make([][]byte, len(w.tmaps))
		w.tlastRef = make([][]refEntry, len(w.tmaps))
	}
	ti, _ := strconv.Atoi(f[1])
	ti %= len(w.tmaps)
	t := w.tmaps[ti]
	api := "SerializableOrderedMap[uint16," + typedNames[ti] + "]"
	check := func(what string, m tmap, want []refEntry) string {
		es, problems := m.entries()
		got := showRef(es)
		if got != showRef(want) || len(problems) > 0 {
			w.r.Fail("codec-roundtrip", fmt.Sprintf("%s %s: contents %s, expected %s %v", api, what, got, showRef(want), problems),
				map[string]string{"api": api + "." + what, "oracle": "codec-roundtrip"})
		}

		return got
	}
	switch f[0] {
	case "tnew":
		t.reset()
		w.tref[ti] = nil

		return "[]"
	case "tset":
		k, _ := strconv.Atoi(f[2])
		v, _ := strconv.Atoi(f[3])
		t.set(E(k), v%10)
		w.tref[ti] = refSet(w.tref[ti], E(k), v%10)

		return check("Set", t, w.tref[ti])
	case "tdel":
		k, _ := strconv.Atoi(f[2])
		t.del(E(k))
		var nr []refEntry
		for _, e := range w.tref[ti] {
			if e.k != E(k) {
				nr = append(nr, e)
			}
		}
		w.tref[ti] = nr

		return check("Delete", t, w.tref[ti])
	case "tenc":
		b, err := t.enc()
		if err != nil {
			return "err"
		}
		w.tlast[ti] = b
		w.tlastRef[ti] = append([]refEntry(nil), w.tref[ti]...)
		// every value must come back exactly, as its own object
		d := t.fresh()
		if n, err := d.dec(b); err != nil || n != len(b) {
			w.r.Fail("codec-roundtrip", fmt.Sprintf("%s: Decode(Encode(m)) consumed %d of %d bytes, err=%v", api, n, len(b), err),
				map[string]string{"api": api + ".Encode", "oracle": "codec-roundtrip"})
		}
		check("Encode", d, w.tref[ti])

		return hx.Hex(b)
	case "tdec":
		n, err := t.dec(w.tlast[ti])
		if len(w.tlast[ti]) > 0 {
			for _, e := range w.tlastRef[ti] {
				w.tref[ti] = refSet(w.tref[ti], e.k, e.v)
			}
		}
		st := fmt.Sprintf("ok %d", n)
		if err != nil {
			st = fmt.Sprintf("err %d", n)
		}

		return st + " | " + check("Decode", t, w.tref[ti])
	}

	return "bad-op"
}

// genTyped appends a segment on one typed map: the codec table, a few Sets/Deletes, Encode, and Decode into the same
// or a fresh map.
func genTyped(rng *hx.Rng) []string {
	_, tm := newTypedMaps()
	ti := rng.Intn(len(tm))
	ops := []string{fmt.Sprintf("codec %d %s", ti, strings.Join(tm[ti].tableHex(), " "))}
	for i := rng.Range(2, 6); i > 0; i-- {
		if rng.Chance(1, 6) {
			ops = append(ops, fmt.Sprintf("tdel %d %d", ti, rng.Intn(universe)))
		} else {
			ops = append(ops, fmt.Sprintf("tset %d %d %d", ti, rng.Intn(universe), rng.Intn(10)))
		}
	}
	ops = append(ops, fmt.Sprintf("tenc %d", ti))
	if rng.Chance(2, 3) {
		ops = append(ops, fmt.Sprintf("tnew %d", ti))
	} else {
		ops = append(ops, fmt.Sprintf("tset %d %d %d", ti, rng.Intn(universe), rng.Intn(10)))
	}
	ops = append(ops, fmt.Sprintf("tdec %d", ti), fmt.Sprintf("tenc %d", ti))

	return ops
}
