package main

import (
	"fmt"
	"strings"
)

// Independent linearizability oracle: Wing–Gong search over the recorded calls against the plain
// insertion-ordered slice model (no Lean involved).

type oset []E

func (s oset) has(e E) bool {
	for _, x := range s {
		if x == e {
			return true
		}
	}

	return false
}

func (s oset) add(e E) (oset, bool) {
	if s.has(e) {
		return s, false
	}

	return append(append(oset(nil), s...), e), true
}

func (s oset) del(e E) (oset, bool) {
	if !s.has(e) {
		return s, false
	}
	out := make(oset, 0, len(s))
	for _, x := range s {
		if x != e {
			out = append(out, x)
		}
	}

	return out, true
}

// applySpec executes one recorded call text ("kind;args...;results...") on the model and says whether the
// recorded results are the ones the model produces.
func applySpec(s oset, text string) (oset, bool) {
	f := strings.Split(text, ";")
	switch f[0] {
	case "add":
		e := parseList(f[1])[0]
		n, r := s.add(e)

		return n, fmt.Sprint(r) == f[2]
	case "del":
		e := parseList(f[1])[0]
		n, r := s.del(e)

		return n, fmt.Sprint(r) == f[2]
	case "has":
		return s, fmt.Sprint(s.has(parseList(f[1])[0])) == f[2]
	case "apply", "compute", "computesaw":
		adds, dels := parseList(f[1]), parseList(f[2])
		if f[0] != "apply" {
			dm := toMap(dels)
			dels = nil
			for _, x := range s {
				if dm[x] {
					dels = append(dels, x)
				}
			}
		}
		if f[0] == "computesaw" {
			// kind;adds;dels;seen;added;deleted - Compute is one atomic step: what its factory saw of `dels` is what is in
			// the set at the point where the call takes effect
			if !sameList(dels, parseList(f[3])) {
				return s, false
			}
			f = append(append([]string(nil), f[:3]...), f[4:]...)
		}
		cur := s
		var ra, rd []E
		for _, e := range adds {
			var ok bool
			if cur, ok = cur.add(e); ok && !oset(ra).has(e) {
				ra = append(ra, e)
			}
		}
		for _, e := range dels {
			var ok bool
			if cur, ok = cur.del(e); ok && !oset(rd).has(e) {
				rd = append(rd, e)
			}
		}

		return cur, sameList(ra, parseList(f[3])) && sameList(rd, parseList(f[4]))
	case "replace":
		var n oset
		for _, e := range parseList(f[1]) {
			n, _ = n.add(e)
		}
		var removed []E
		for _, e := range s {
			if !n.has(e) {
				removed = append(removed, e)
			}
		}

		return n, sameList(removed, parseList(f[2]))
	case "addall":
		cur := s
		var ra []E
		for _, e := range parseList(f[1]) {
			var ok bool
			if cur, ok = cur.add(e); ok {
				ra = append(ra, e)
			}
		}

		return cur, sameList(ra, parseList(f[2]))
	case "delall":
		cur := s
		var rd []E
		for _, e := range parseList(f[1]) {
			var ok bool
			if cur, ok = cur.del(e); ok {
				rd = append(rd, e)
			}
		}

		return cur, sameList(rd, parseList(f[2]))
	}

	return s, false
}

func linearizableGo(init []E, calls []hcall) bool {
	var s oset
	for _, e := range init {
		s, _ = s.add(e)
	}
	budget := 2000000

	var search func(s oset, rem []hcall) bool
	search = func(s oset, rem []hcall) bool {
		if len(rem) == 0 {
			return true
		}
		if budget--; budget < 0 {
			return true // give up: undecided histories are not reported
		}
		for i, c := range rem {
			minimal := true
			for _, o := range rem {
				if o.ret < c.inv {
					minimal = false

					break
				}
			}
			if !minimal {
				continue
			}
			if n, ok := applySpec(s, c.text); ok {
				rest := append(append([]hcall(nil), rem[:i]...), rem[i+1:]...)
				if search(n, rest) {
					return true
				}
			}
		}

		return false
	}

	return search(s, calls)
}
