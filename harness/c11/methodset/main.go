// methodset prints, as a Lean module, the METHOD SETS of the named struct types of the anchored C11 files as the Go
// compiler computes them through the embedding chain (set -> *readableSet -> *SerializableOrderedMap -> *OrderedMap):
// for every selectable method its name, the type that DECLARES it and the embedding depth at which it is found.
//
//	methodset <out.lean> <LeanNamespace> <repoRoot> <pkgdir>:<Type> ...
//
// Rules (Go spec, "Selectors" / "Struct types"): the methods declared on T itself have depth 0; the fields and
// methods of an embedded field's type are promoted at depth+1; the shallowest depth wins; a name that occurs more
// than once at the shallowest depth (two embedded types, or a field and a method) is ambiguous and selects nothing
// (reported in `ambiguous_<T>`); a field name hides deeper methods of the same name (reported in `hidden_<T>`).
//
// A `set.Delete` that is deleted from the source does not stop the program from compiling - the call `s.Delete(x)`
// silently becomes the promoted `OrderedMap.Delete`, which does not take `applyMutex` - so the table is a proof
// obligation of the check (`C11_methodset_*`).  For every method of the method set the tool also reports how its
// body (the body of the DECLARING method) uses a field called `applyMutex`, whatever the receiver is called:
// `def receiver_<T>` gives the receiver variable of every declaring method (to read the skeleton tokens `call s.X`), and
// `def applymutex_<T> : List (String × List String)` with the tokens "RLock", "RUnlock", "Lock", "Unlock", "TryLock",
// "TryRLock", each prefixed by "defer " when deferred, in source order.
//
// Embedded types of other packages are resolved through the import table of the declaring file: an import path
// github.com/iotaledger/hive.go/<dir> is read from <repoRoot>/<dir>.  Embedded types that cannot be resolved
// (standard library, type parameters) are reported in `unresolved_<T>`.
package main

import (
	"fmt"
	"go/ast"
	"go/parser"
	"go/token"
	"os"
	"path/filepath"
	"sort"
	"strconv"
	"strings"
)

const modPrefix = "github.com/iotaledger/hive.go/"

type pkg struct {
	dir   string
	files []*ast.File
	// type name -> its spec and the file declaring it (for the import table)
	types map[string]*ast.TypeSpec
	tfile map[string]*ast.File
	// receiver base type name -> methods
	methods map[string][]*ast.FuncDecl
}

var (
	root string
	pkgs = map[string]*pkg{}
	fset = token.NewFileSet()
)

func load(dir string) (*pkg, error) {
	if p, ok := pkgs[dir]; ok {
		return p, nil
	}
	ents, err := os.ReadDir(filepath.Join(root, dir))
	if err != nil {
		return nil, err
	}
	p := &pkg{dir: dir, types: map[string]*ast.TypeSpec{}, tfile: map[string]*ast.File{}, methods: map[string][]*ast.FuncDecl{}}
	for _, e := range ents {
		n := e.Name()
		if e.IsDir() || !strings.HasSuffix(n, ".go") || strings.HasSuffix(n, "_test.go") {
			continue
		}
		f, err := parser.ParseFile(fset, filepath.Join(root, dir, n), nil, parser.ParseComments)
		if err != nil {
			return nil, err
		}
		// build-constrained twins (verif_on.go / verif_off.go) declare no types or methods of interest, keep all files
		p.files = append(p.files, f)
		for _, d := range f.Decls {
			switch d := d.(type) {
			case *ast.GenDecl:
				for _, s := range d.Specs {
					if ts, ok := s.(*ast.TypeSpec); ok {
						p.types[ts.Name.Name] = ts
						p.tfile[ts.Name.Name] = f
					}
				}
			case *ast.FuncDecl:
				if d.Recv != nil && len(d.Recv.List) == 1 {
					if b := baseName(d.Recv.List[0].Type); b != "" {
						p.methods[b] = append(p.methods[b], d)
					}
				}
			}
		}
	}
	pkgs[dir] = p

	return p, nil
}

// baseName strips pointers and type arguments from a receiver / embedded type expression of the same package.
func baseName(e ast.Expr) string {
	switch t := e.(type) {
	case *ast.StarExpr:
		return baseName(t.X)
	case *ast.IndexExpr:
		return baseName(t.X)
	case *ast.IndexListExpr:
		return baseName(t.X)
	case *ast.ParenExpr:
		return baseName(t.X)
	case *ast.Ident:
		return t.Name
	}

	return ""
}

// qualified returns (package qualifier, type name) of an embedded type expression; qualifier "" = same package.
func qualified(e ast.Expr) (string, string) {
	switch t := e.(type) {
	case *ast.StarExpr:
		return qualified(t.X)
	case *ast.IndexExpr:
		return qualified(t.X)
	case *ast.IndexListExpr:
		return qualified(t.X)
	case *ast.ParenExpr:
		return qualified(t.X)
	case *ast.Ident:
		return "", t.Name
	case *ast.SelectorExpr:
		if id, ok := t.X.(*ast.Ident); ok {
			return id.Name, t.Sel.Name
		}
	}

	return "", ""
}

func importDir(f *ast.File, qual string) string {
	for _, im := range f.Imports {
		path, _ := strconv.Unquote(im.Path.Value)
		name := filepath.Base(path)
		if im.Name != nil {
			name = im.Name.Name
		}
		if name == qual && strings.HasPrefix(path, modPrefix) {
			return strings.TrimPrefix(path, modPrefix)
		}
	}

	return ""
}

type found struct {
	name, declarer string
	depth          int
	isField        bool
	decl           *ast.FuncDecl
}

type node struct {
	p    *pkg
	name string
}

// methodSet walks the embedding graph breadth first.
func methodSet(p *pkg, typ string) (sel []found, ambiguous, hidden, unresolved []string) {
	level := []node{{p, typ}}
	decided := map[string]bool{}
	seenType := map[string]bool{}
	for depth := 0; len(level) > 0; depth++ {
		here := map[string][]found{}
		var next []node
		for _, n := range level {
			key := n.p.dir + ":" + n.name
			if seenType[key] {
				continue
			}
			seenType[key] = true
			for _, m := range n.p.methods[n.name] {
				here[m.Name.Name] = append(here[m.Name.Name], found{m.Name.Name, n.name, depth, false, m})
			}
			ts := n.p.types[n.name]
			if ts == nil {
				unresolved = append(unresolved, key)

				continue
			}
			st, ok := ts.Type.(*ast.StructType)
			if !ok {
				continue
			}
			for _, fld := range st.Fields.List {
				if len(fld.Names) > 0 {
					for _, id := range fld.Names {
						here[id.Name] = append(here[id.Name], found{id.Name, n.name, depth, true, nil})
					}

					continue
				}
				qual, tn := qualified(fld.Type)
				if tn == "" {
					unresolved = append(unresolved, key+" embeds ?")

					continue
				}
				// the embedded field itself is a field named after its type
				here[tn] = append(here[tn], found{tn, n.name, depth, true, nil})
				if qual == "" {
					if _, declared := n.p.types[tn]; !declared {
						unresolved = append(unresolved, key+" embeds "+tn)

						continue
					}
					next = append(next, node{n.p, tn})

					continue
				}
				dir := importDir(n.p.tfile[n.name], qual)
				if dir == "" {
					unresolved = append(unresolved, key+" embeds "+qual+"."+tn)

					continue
				}
				q, err := load(dir)
				if err != nil {
					unresolved = append(unresolved, key+" embeds "+qual+"."+tn+" ("+err.Error()+")")

					continue
				}
				next = append(next, node{q, tn})
			}
		}
		names := make([]string, 0, len(here))
		for k := range here {
			names = append(names, k)
		}
		sort.Strings(names)
		for _, k := range names {
			if decided[k] {
				for _, f := range here[k] {
					if !f.isField {
						hidden = append(hidden, fmt.Sprintf("%s.%s@%d", f.declarer, k, depth))
					}
				}

				continue
			}
			decided[k] = true
			fs := here[k]
			if len(fs) > 1 {
				ambiguous = append(ambiguous, fmt.Sprintf("%s@%d", k, depth))

				continue
			}
			if !fs[0].isField {
				sel = append(sel, fs[0])
			}
		}
		level = next
	}
	sort.Slice(sel, func(i, j int) bool { return sel[i].name < sel[j].name })
	sort.Strings(hidden)

	return sel, ambiguous, hidden, unresolved
}

var lockNames = map[string]bool{"Lock": true, "Unlock": true, "RLock": true, "RUnlock": true, "TryLock": true, "TryRLock": true, "RLocker": true}

// applyMutexUse lists, in source order, the calls `<anything>.applyMutex.<LockMethod>()` in the body of d.
func applyMutexUse(d *ast.FuncDecl) []string {
	var out []string
	if d == nil || d.Body == nil {
		return out
	}
	deferred := map[*ast.CallExpr]bool{}
	ast.Inspect(d.Body, func(n ast.Node) bool {
		switch x := n.(type) {
		case *ast.DeferStmt:
			deferred[x.Call] = true
		case *ast.CallExpr:
			if sel, ok := x.Fun.(*ast.SelectorExpr); ok && lockNames[sel.Sel.Name] {
				if in, ok := sel.X.(*ast.SelectorExpr); ok && in.Sel.Name == "applyMutex" {
					t := sel.Sel.Name
					if deferred[x] {
						t = "defer " + t
					}
					out = append(out, t)
				}
			}
		case *ast.SelectorExpr:
			// any other mention of the field (passed on, address taken, copied) is reported too
			if x.Sel.Name == "applyMutex" {
				return true
			}
		}

		return true
	})
	// mentions of applyMutex that are not lock calls
	mentions := 0
	ast.Inspect(d.Body, func(n ast.Node) bool {
		if s, ok := n.(*ast.SelectorExpr); ok && s.Sel.Name == "applyMutex" {
			mentions++
		}

		return true
	})
	if mentions != len(out) {
		out = append(out, fmt.Sprintf("other-mentions %d", mentions-len(out)))
	}

	return out
}

func q(s string) string { return strconv.Quote(s) }

func strList(l []string) string {
	qs := make([]string, len(l))
	for i, s := range l {
		qs[i] = q(s)
	}

	return "[" + strings.Join(qs, ", ") + "]"
}

func main() {
	if len(os.Args) < 5 {
		fmt.Fprintln(os.Stderr, "usage: methodset <out.lean> <LeanNamespace> <repoRoot> <pkgdir>:<Type> ...")
		os.Exit(2)
	}
	out, ns := os.Args[1], os.Args[2]
	root = os.Args[3]
	var b strings.Builder
	b.WriteString("/-! GENERATED by harness/c11/methodset — method sets through the embedding chain (name, declaring type, depth) and the\nuse each declaring body makes of `applyMutex`; do not edit. -/\n")
	fmt.Fprintf(&b, "namespace %s\n\n", ns)
	for _, req := range os.Args[4:] {
		i := strings.LastIndex(req, ":")
		if i < 0 {
			fmt.Fprintln(os.Stderr, "bad request", req)
			os.Exit(2)
		}
		dir, typ := req[:i], req[i+1:]
		p, err := load(dir)
		if err != nil {
			fmt.Fprintln(os.Stderr, err)
			os.Exit(1)
		}
		if p.types[typ] == nil {
			fmt.Fprintf(os.Stderr, "type %s not found in %s\n", typ, dir)
			os.Exit(1)
		}
		sel, amb, hid, unres := methodSet(p, typ)
		fmt.Fprintf(&b, "/-- method set of `%s` (%s): (name, declaring type, embedding depth) -/\n", typ, dir)
		fmt.Fprintf(&b, "def methods_%s : List (String × String × Nat) := [", typ)
		for k, f := range sel {
			if k > 0 {
				b.WriteString(",")
			}
			if k%4 == 0 {
				b.WriteString("\n  ")
			} else {
				b.WriteString(" ")
			}
			fmt.Fprintf(&b, "(%s, %s, %d)", q(f.name), q(f.declarer), f.depth)
		}
		b.WriteString("]\n\n")
		fmt.Fprintf(&b, "/-- names that are ambiguous at their shallowest depth (select nothing) -/\ndef ambiguous_%s : List String := %s\n\n", typ, strList(amb))
		fmt.Fprintf(&b, "/-- methods hidden by a shallower declaration of the same name -/\ndef hidden_%s : List String := %s\n\n", typ, strList(hid))
		fmt.Fprintf(&b, "/-- embedded types outside the repository (nothing promoted from them is known) -/\ndef unresolved_%s : List String := %s\n\n", typ, strList(unres))
		fmt.Fprintf(&b, "/-- the name of the receiver variable in the declaring method -/\ndef receiver_%s : List (String × String) := [", typ)
		for k, f := range sel {
			if k > 0 {
				b.WriteString(",")
			}
			if k%6 == 0 {
				b.WriteString("\n  ")
			} else {
				b.WriteString(" ")
			}
			rn := ""
			if f.decl != nil && len(f.decl.Recv.List[0].Names) == 1 {
				rn = f.decl.Recv.List[0].Names[0].Name
			}
			fmt.Fprintf(&b, "(%s, %s)", q(f.name), q(rn))
		}
		b.WriteString("]\n\n")
		fmt.Fprintf(&b, "/-- how the body of the declaring method uses a field called `applyMutex` -/\n")
		fmt.Fprintf(&b, "def applymutex_%s : List (String × List String) := [", typ)
		for k, f := range sel {
			if k > 0 {
				b.WriteString(",")
			}
			if k%3 == 0 {
				b.WriteString("\n  ")
			} else {
				b.WriteString(" ")
			}
			fmt.Fprintf(&b, "(%s, %s)", q(f.name), strList(applyMutexUse(f.decl)))
		}
		b.WriteString("]\n\n")
	}
	fmt.Fprintf(&b, "end %s\n", ns)
	if err := os.WriteFile(out, []byte(b.String()), 0o644); err != nil {
		fmt.Fprintln(os.Stderr, err)
		os.Exit(1)
	}
}
