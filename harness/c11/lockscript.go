package main

import (
	"go/ast"
	"go/parser"
	"go/token"
	"os"
	"path/filepath"
	"strings"
)

// Lock skeletons: per method of ds.set and orderedmap.OrderedMap the source-order sequence of lock calls, of calls
// to other methods of the receiver, of calls into the ReadableSet / SetMutations arguments and of callback
// invocations, extracted from the working tree with go/ast.  The Lean driver compares them with the skeletons
// its lock scripts (Hive/Model/OMapConc.lean, `methodScript`) were written against.

type skelTarget struct {
	file, recv string
	lockField  string // field holding the RWMutex
	lockName   string
	methods    []string
}

var skelTargets = []skelTarget{
	{"ds/set_impl.go", "set", "applyMutex", "A", []string{"Add", "AddAll", "Delete", "DeleteAll", "Apply", "Compute", "Replace", "apply"}},
	{"ds/orderedmap/orderedmap.go", "OrderedMap", "mutex", "M", []string{"Set", "Delete", "Get", "Has", "Size", "IsEmpty", "Head", "Tail", "Clear", "ForEach", "ForEachReverse", "Clone"}},
}

func repoRoot() string {
	if r := os.Getenv("VERIF_REPO"); r != "" {
		return r
	}

	return "/repo"
}

type skelWalker struct {
	recv     string
	params   map[string]bool // value parameters (arguments of interface type)
	funcs    map[string]bool // parameters of function type
	tgt      skelTarget
	out      []string
	deferred bool
}

func rootOf(e ast.Expr) (root string, path []string) {
	switch x := e.(type) {
	case *ast.Ident:
		return x.Name, nil
	case *ast.SelectorExpr:
		r, p := rootOf(x.X)

		return r, append(p, x.Sel.Name)
	case *ast.CallExpr:
		return rootOf(x.Fun)
	case *ast.ParenExpr:
		return rootOf(x.X)
	}

	return "", nil
}

func (w *skelWalker) emit(tok string) {
	if w.deferred {
		tok = "defer:" + tok
	}
	w.out = append(w.out, tok)
}

func (w *skelWalker) call(c *ast.CallExpr) {
	// arguments are evaluated first (function literals are walked as callbacks)
	tok := ""
	if id, ok := c.Fun.(*ast.Ident); ok && w.funcs[id.Name] {
		tok = "cb"
	} else if sel, ok := c.Fun.(*ast.SelectorExpr); ok {
		root, path := rootOf(sel)
		switch {
		case root == w.recv && len(path) == 2 && path[0] == w.tgt.lockField:
			tok = w.tgt.lockName + "." + path[1]
		case root == w.recv && len(path) == 2 && path[0] == "dictionary":
		case root == w.recv && len(path) >= 1:
			tok = "call:" + strings.Join(path, ".")
		case w.params[root] && (path[len(path)-1] == "ForEach" || path[len(path)-1] == "Range" || path[len(path)-1] == "ToSlice"):
			tok = "call:arg." + path[len(path)-1]
		case len(path) >= 2 && (path[len(path)-2] == "applyMutex" || path[len(path)-2] == "mutex"):
			// a lock of another object (e.g. of the argument) is taken directly
			tok = "other:" + path[len(path)-2] + "." + path[len(path)-1]
		}
	}
	if sel, ok := c.Fun.(*ast.SelectorExpr); ok {
		// walk a call chain such as mutations.AddedElements().Range(...)
		if inner, ok := sel.X.(*ast.CallExpr); ok {
			for _, a := range inner.Args {
				w.expr(a)
			}
		}
	}
	var lits []*ast.FuncLit
	for _, a := range c.Args {
		if fl, ok := a.(*ast.FuncLit); ok {
			lits = append(lits, fl)
		} else {
			w.expr(a)
		}
	}
	if tok != "" {
		w.emit(tok)
	}
	for _, fl := range lits {
		w.out = append(w.out, "cb{")
		w.block(fl.Body)
		w.out = append(w.out, "}")
	}
}

func (w *skelWalker) expr(e ast.Expr) {
	ast.Inspect(e, func(n ast.Node) bool {
		switch x := n.(type) {
		case *ast.CallExpr:
			w.call(x)

			return false
		case *ast.FuncLit:
			w.out = append(w.out, "cb{")
			w.block(x.Body)
			w.out = append(w.out, "}")

			return false
		}

		return true
	})
}

func (w *skelWalker) stmt(s ast.Stmt) {
	switch x := s.(type) {
	case *ast.DeferStmt:
		w.deferred = true
		w.call(x.Call)
		w.deferred = false
	case *ast.ForStmt:
		w.out = append(w.out, "loop{")
		if x.Init != nil {
			w.stmt(x.Init)
		}
		if x.Cond != nil {
			w.expr(x.Cond)
		}
		w.block(x.Body)
		if x.Post != nil {
			w.stmt(x.Post)
		}
		w.out = append(w.out, "}")
	case *ast.RangeStmt:
		w.out = append(w.out, "loop{")
		w.expr(x.X)
		w.block(x.Body)
		w.out = append(w.out, "}")
	case *ast.IfStmt:
		if x.Init != nil {
			w.stmt(x.Init)
		}
		w.expr(x.Cond)
		w.block(x.Body)
		if x.Else != nil {
			w.stmt(x.Else)
		}
	case *ast.BlockStmt:
		w.block(x)
	case *ast.ExprStmt:
		w.expr(x.X)
	case *ast.AssignStmt:
		for _, r := range x.Rhs {
			w.expr(r)
		}
	case *ast.ReturnStmt:
		for _, r := range x.Results {
			w.expr(r)
		}
	case *ast.DeclStmt:
		ast.Inspect(x, func(n ast.Node) bool {
			if c, ok := n.(*ast.CallExpr); ok {
				w.call(c)

				return false
			}

			return true
		})
	}
}

func (w *skelWalker) block(b *ast.BlockStmt) {
	if b == nil {
		return
	}
	for _, s := range b.List {
		w.stmt(s)
	}
}

func extractSkeletons() map[string]string {
	out := map[string]string{}
	for _, tgt := range skelTargets {
		fset := token.NewFileSet()
		f, err := parser.ParseFile(fset, filepath.Join(repoRoot(), tgt.file), nil, 0)
		if err != nil {
			for _, m := range tgt.methods {
				out[tgt.recv+"."+m] = "parse-error"
			}

			continue
		}
		want := map[string]bool{}
		for _, m := range tgt.methods {
			want[m] = true
			out[tgt.recv+"."+m] = "missing"
		}
		for _, d := range f.Decls {
			fd, ok := d.(*ast.FuncDecl)
			if !ok || fd.Recv == nil || len(fd.Recv.List) != 1 || !want[fd.Name.Name] {
				continue
			}
			rt := fd.Recv.List[0].Type
			if st, ok := rt.(*ast.StarExpr); ok {
				rt = st.X
			}
			if ix, ok := rt.(*ast.IndexExpr); ok {
				rt = ix.X
			}
			if ix, ok := rt.(*ast.IndexListExpr); ok {
				rt = ix.X
			}
			if id, ok := rt.(*ast.Ident); !ok || id.Name != tgt.recv || len(fd.Recv.List[0].Names) != 1 {
				continue
			}
			w := &skelWalker{recv: fd.Recv.List[0].Names[0].Name, params: map[string]bool{}, funcs: map[string]bool{}, tgt: tgt}
			for _, p := range fd.Type.Params.List {
				for _, n := range p.Names {
					if _, isFunc := p.Type.(*ast.FuncType); isFunc {
						w.funcs[n.Name] = true
					} else {
						w.params[n.Name] = true
					}
				}
			}
			w.block(fd.Body)
			out[tgt.recv+"."+fd.Name.Name] = strings.Join(w.out, " ")
		}
	}

	return out
}

func lockScriptOps() []string {
	sk := extractSkeletons()
	var ops []string
	for _, tgt := range skelTargets {
		for _, m := range tgt.methods {
			name := tgt.recv + "." + m
			ops = append(ops, strings.TrimSpace("lockscript "+name+" "+sk[name]))
		}
	}

	return ops
}

// lockScriptAnswer: the implementation side of a `lockscript` request says whether the request still describes the
// working tree (it does by construction when generated; a replayed line may be stale).
func lockScriptAnswer(name string, toks []string) string {
	if extractSkeletons()[name] == strings.Join(toks, " ") {
		return "ok"
	}

	return "stale"
}
