package main

import (
	"fmt"
	"reflect"
	"runtime"
	"strings"
	"sync"
	"sync/atomic"
	"time"

	"verifharness/hx"

	"github.com/iotaledger/hive.go/ds"
	"github.com/iotaledger/hive.go/ds/orderedmap"
	"github.com/iotaledger/hive.go/serializer/v2/serix"
)

// hcall is one completed call of a recorded history: inv/ret are positions in the global order.
type hcall struct {
	inv, ret int64
	text     string // kind;args;result
}

func (c hcall) String() string { return fmt.Sprintf("%d;%d;%s", c.inv, c.ret, c.text) }

// parkSet is a harness-implemented ReadableSet/Set whose ForEach/Range first run `before` (which parks the
// caller until another goroutine is blocked in applyMutex.Lock) and may yield between elements.
type parkSet struct {
	ds.Set[E]
	before func()
	yield  bool
	once   sync.Once
}

func (p *parkSet) ForEach(cb func(E) error) error {
	if p.before != nil {
		p.once.Do(p.before)
	}

	return p.Set.ForEach(func(e E) error {
		if p.yield {
			runtime.Gosched()
		}

		return cb(e)
	})
}

func (p *parkSet) Range(cb func(E)) {
	if p.before != nil {
		p.once.Do(p.before)
	}
	p.Set.Range(func(e E) {
		if p.yield {
			runtime.Gosched()
		}
		cb(e)
	})
}

// writerPending reports whether some goroutine is blocked inside sync.(*RWMutex).Lock called from a ds.set method.
func writerPending() bool {
	buf := make([]byte, 1<<18)
	n := runtime.Stack(buf, true)
	for _, g := range strings.Split(string(buf[:n]), "\n\n") {
		if strings.Contains(g, "sync.(*RWMutex).Lock(") && strings.Contains(g, "hive.go/ds.(*set[") {
			return true
		}
	}

	return false
}

func waitWriterPending(limit time.Duration) bool {
	deadline := time.Now().Add(limit)
	for time.Now().Before(deadline) {
		if writerPending() {
			return true
		}
		time.Sleep(100 * time.Microsecond)
	}

	return false
}

var watchdog = 4 * time.Second

// hangs counts watchdog expiries; after a few of them the generated concurrent part stops (every further scenario
// of the same kind would cost another watchdog period, and leaked goroutines pile up).
var hangs int

func computeFactory(adds []E, dels []E) func(rs ds.ReadableSet[E]) ds.SetMutations[E] {
	dm := toMap(dels)

	return func(rs ds.ReadableSet[E]) ds.SetMutations[E] {
		return ds.NewSetMutations(adds...).WithDeletedElements(rs.Filter(func(e E) bool { return dm[e] }))
	}
}

// computeObserver, when set, receives a Compute whose report contradicts what its own factory saw.  Set for the schedules in
// which every concurrent mutator takes applyMutex (Add / Delete / AddAll / DeleteAll / Apply / Compute / Replace): the
// factory runs under the exclusive lock, so its reading of the set and the application of its answer are one atomic
// step - Compute must report as deleted exactly the elements the factory saw and asked to delete, and as added exactly
// the requested elements the factory saw absent.  (A Delete that takes effect between the factory's reading and the
// application - seeded r6-2 - makes Compute report "removed nothing" for an element its factory saw.)
var computeObserver atomic.Pointer[func(detail string)]

// observedCompute is s.Compute with the usual factory (added = adds, deleted = the elements of dels the factory sees in the
// set); `window`, if not nil, runs between the factory's reading and its answer.
func observedCompute(s ds.Set[E], adds, dels []E, window func()) (applied ds.SetMutations[E], seenDel []E) {
	dm := toMap(dels)
	var absentAdds []E
	m := s.Compute(func(rs ds.ReadableSet[E]) ds.SetMutations[E] {
		del := rs.Filter(func(e E) bool { return dm[e] })
		seenDel = del.ToSlice()
		seen := map[E]bool{}
		for _, a := range adds {
			if !seen[a] && !rs.Has(a) {
				absentAdds = append(absentAdds, a)
			}
			seen[a] = true
		}
		if window != nil {
			window()
		}

		return ds.NewSetMutations(adds...).WithDeletedElements(del)
	})
	if obs := computeObserver.Load(); obs != nil {
		ra, rd := m.AddedElements().ToSlice(), m.DeletedElements().ToSlice()
		if !sameSet(ra, absentAdds) || !sameSet(rd, seenDel) {
			(*obs)(fmt.Sprintf("Compute(+%v, -current∩%v): the factory saw %v of the elements to delete in the set and %v of the elements to add absent, Compute reports +%v -%v",
				adds, dels, seenDel, absentAdds, ra, rd))
		}
	}

	return m, seenDel
}

// computeSawText is the history text of an observed Compute: kind;adds;dels;seen;added;deleted.
func computeSawText(adds, dels, seen []E, m ds.SetMutations[E]) string {
	return fmt.Sprintf("computesaw;%s;%s;%s;%s;%s", commaList(adds), commaList(dels), commaList(seen), commaList(m.AddedElements().ToSlice()), commaList(m.DeletedElements().ToSlice()))
}

// observeComputes installs the observer for the duration of a schedule without non-applyMutex writers.
func (w *world) observeComputes(schedule string) func() {
	f := func(detail string) {
		w.r.Fail("compute-atomic", detail, map[string]string{"api": "Set.Compute", "oracle": "compute-atomic", "schedule": schedule})
	}
	computeObserver.Store(&f)

	return func() { computeObserver.Store(nil) }
}

// forced runs the schedule "bulk method holds applyMutex.RLock and is parked in the argument's ForEach until a
// writer (Apply/Compute/Replace) is blocked in applyMutex.Lock; then the iteration continues".
func (w *world) forced(bulk, writer string) string {
	init := []E{0, 1, 2, 3}
	argEls := []E{1, 2, 5}
	s := ds.NewSet(init...)
	parked := make(chan struct{})
	var observed atomic.Bool
	arg := &parkSet{Set: ds.NewSet(argEls...)}
	arg.before = func() {
		close(parked)
		observed.Store(waitWriterPending(2 * time.Second))
	}
	var seq atomic.Int64
	calls := make([]hcall, 2)
	done := make(chan struct{}, 2)
	go func() {
		inv := seq.Add(1)
		var res ds.Set[E]
		if bulk == "delall" {
			res = s.DeleteAll(arg)
		} else {
			res = s.AddAll(arg)
		}
		calls[0] = hcall{inv, seq.Add(1), fmt.Sprintf("%s;%s;%s", bulk, commaList(argEls), commaList(res.ToSlice()))}
		done <- struct{}{}
	}()
	go func() {
		<-parked
		inv := seq.Add(1)
		switch writer {
		case "apply":
			a, d := []E{4, 1}, []E{2, 0}
			m := s.Apply(ds.NewSetMutations(a...).WithDeletedElements(ds.NewSet(d...)))
			calls[1] = hcall{inv, seq.Add(1), fmt.Sprintf("apply;%s;%s;%s;%s", commaList(a), commaList(d), commaList(m.AddedElements().ToSlice()), commaList(m.DeletedElements().ToSlice()))}
		case "compute":
			a, d := []E{4}, []E{0, 2}
			m := s.Compute(computeFactory(a, d))
			calls[1] = hcall{inv, seq.Add(1), fmt.Sprintf("compute;%s;%s;%s;%s", commaList(a), commaList(d), commaList(m.AddedElements().ToSlice()), commaList(m.DeletedElements().ToSlice()))}
		default:
			l := []E{2, 4}
			rm := s.Replace(ds.NewSet(l...))
			calls[1] = hcall{inv, seq.Add(1), fmt.Sprintf("replace;%s;%s", commaList(l), commaList(rm.ToSlice()))}
		}
		done <- struct{}{}
	}()
	timeout := time.After(watchdog)
	for i := 0; i < 2; i++ {
		select {
		case <-done:
		case <-timeout:
			api := map[string]string{"delall": "Set.DeleteAll", "addall": "Set.AddAll"}[bulk]
			w.r.Fail("deadlock", fmt.Sprintf("%s(arg) parked in arg.ForEach while %s was blocked in applyMutex.Lock: %d of 2 calls returned within %v (writer observed pending: %v)",
				api, writer, i, watchdog, observed.Load()),
				map[string]string{"api": api, "oracle": "deadlock", "schedule": "arg-foreach-parked;writer-pending"})

			hangs++

			return "hung"
		}
	}
	if observed.Load() {
		w.r.Count("forced:writer-pending-observed")
	} else {
		w.r.Count("forced:writer-pending-not-observed")
	}
	w.history(init, s, calls, &seq)

	return "done"
}

// gateSet is a harness-implemented argument set whose Range/ForEach run `gate` once, right after the callback of the
// element with index `after` has returned: the bulk operation that iterates it is then halfway through its writes.
type gateSet struct {
	ds.Set[E]
	after int
	gate  func()
	once  sync.Once
}

func (g *gateSet) ForEach(cb func(E) error) error {
	i := 0

	return g.Set.ForEach(func(e E) error {
		err := cb(e)
		if i == g.after {
			g.once.Do(g.gate)
		}
		i++

		return err
	})
}

// ToSlice (how Replace reads its argument): the gate closes after the argument has been read, before the caller goes on.
func (g *gateSet) ToSlice() []E {
	sl := g.Set.ToSlice()
	if g.after < 0 {
		g.once.Do(g.gate)
	}

	return sl
}

func (g *gateSet) Range(cb func(E)) {
	i := 0
	g.Set.Range(func(e E) {
		cb(e)
		if i == g.after {
			g.once.Do(g.gate)
		}
		i++
	})
}

// readerPending reports whether some goroutine is blocked inside sync.(*RWMutex).RLock called from a ds.set method.
func readerPending() bool {
	buf := make([]byte, 1<<18)
	n := runtime.Stack(buf, true)
	for _, g := range strings.Split(string(buf[:n]), "\n\n") {
		if strings.Contains(g, "sync.(*RWMutex).RLock(") && strings.Contains(g, "hive.go/ds.(*set[") {
			return true
		}
	}

	return false
}

// inside is the directed schedule "two single-element calls of one goroutine INSIDE a bulk operation that is halfway
// through": goroutine A runs Apply with a gateSet as added (applyadd) or deleted (applydel) elements - the gate closes
// after the first element was written - or Compute with a factory that reads the set and then stops at the gate
// (compute), or Replace whose argument stops at the gate after it has been read (replace: previous and new elements are
// read, nothing is cleared yet); at the gate goroutine B is released and calls, one after the other, two of Add/Delete on the elements the
// bulk operation is about (pair: del = Delete,Delete; add = Add,Add; mix = one of each).  A continues when B has
// returned from both calls or is seen blocked in applyMutex.RLock (the unchanged code: B waits for the whole bulk
// operation).  The elements are chosen so that the first call can only be explained AFTER the bulk operation and the second
// only BEFORE it if both run in the window - a history that no linearization explains, whichever of Add/Delete lost its
// lock, or when Apply/Compute do not exclude them (shared instead of exclusive lock, factory evaluated outside the
// lock).  The three calls plus the final Has sweep go to the Lean `lin` checker and the Go Wing-Gong oracle.
func (w *world) inside(bulk, pair string) string {
	var init, adds, dels []E
	var b1, b2 [2]interface{} // (kind, element) of B's calls
	switch bulk + "/" + pair {
	case "applyadd/del":
		init, adds = []E{3}, []E{5, 2}
		b1, b2 = [2]interface{}{"del", E(5)}, [2]interface{}{"del", E(2)}
	case "applyadd/add":
		init, adds = []E{3}, []E{5, 2}
		b1, b2 = [2]interface{}{"add", E(5)}, [2]interface{}{"add", E(2)}
	case "applyadd/mix":
		init, adds = []E{3}, []E{5, 2}
		b1, b2 = [2]interface{}{"del", E(5)}, [2]interface{}{"add", E(2)}
	case "applydel/del":
		init, dels = []E{5, 2, 3}, []E{5, 2}
		b1, b2 = [2]interface{}{"del", E(5)}, [2]interface{}{"del", E(2)}
	case "applydel/add":
		init, dels = []E{5, 2, 3}, []E{5, 2}
		b1, b2 = [2]interface{}{"add", E(5)}, [2]interface{}{"add", E(2)}
	case "applydel/mix":
		init, dels = []E{5, 2, 3}, []E{5, 2}
		b1, b2 = [2]interface{}{"add", E(5)}, [2]interface{}{"del", E(2)}
	case "compute/add":
		init, adds, dels = []E{2, 3}, []E{4}, []E{1, 2}
		b1, b2 = [2]interface{}{"add", E(1)}, [2]interface{}{"add", E(4)}
	case "compute/mix":
		init, adds, dels = []E{2, 3}, []E{4}, []E{1, 2}
		b1, b2 = [2]interface{}{"add", E(1)}, [2]interface{}{"del", E(2)}
	case "compute/del":
		init, adds, dels = []E{2, 3}, []E{4}, []E{1, 2}
		b1, b2 = [2]interface{}{"del", E(2)}, [2]interface{}{"del", E(4)}
	// replace: Replace({2,4}) on {1,2,3}; the window is after Replace has read the previous and the new elements, before its
	// Clear.  Delete(1) = true there is reported a second time by Replace (removed 1); Add(5) = true there is wiped out
	// without being reported; afterwards (the unchanged code) Delete(1) = false, Add(5) = true and 5 stays.
	case "replace/del":
		init, adds = []E{1, 2, 3}, []E{2, 4}
		b1, b2 = [2]interface{}{"del", E(1)}, [2]interface{}{"del", E(3)}
	case "replace/add":
		init, adds = []E{1, 2, 3}, []E{2, 4}
		b1, b2 = [2]interface{}{"add", E(5)}, [2]interface{}{"add", E(0)}
	case "replace/mix":
		init, adds = []E{1, 2, 3}, []E{2, 4}
		b1, b2 = [2]interface{}{"add", E(5)}, [2]interface{}{"del", E(1)}
	default:
		return "bad-op"
	}
	s := ds.NewSet(init...)
	defer w.observeComputes("singles-inside-" + bulk)()
	inWindow := make(chan struct{})
	var bDone, observed atomic.Bool
	gate := func() {
		close(inWindow)
		deadline := time.Now().Add(3 * time.Second)
		for time.Now().Before(deadline) && !bDone.Load() {
			if readerPending() {
				observed.Store(true)

				break
			}
			time.Sleep(100 * time.Microsecond)
		}
	}
	var seq atomic.Int64
	calls := make([]hcall, 3)
	done := make(chan struct{}, 2)
	failed := make(chan string, 2)
	guard := func(f func()) {
		defer func() {
			if e := recover(); e != nil {
				failed <- fmt.Sprint(e)
			}
			done <- struct{}{}
		}()
		f()
	}
	go guard(func() {
		inv := seq.Add(1)
		var m ds.SetMutations[E]
		var seen []E
		kind := "apply"
		switch bulk {
		case "applyadd":
			m = s.Apply(ds.NewSetMutations[E]().WithAddedElements(&gateSet{Set: ds.NewSet(adds...), gate: gate}).WithDeletedElements(ds.NewSet(dels...)))
		case "applydel":
			m = s.Apply(ds.NewSetMutations[E]().WithAddedElements(ds.NewSet(adds...)).WithDeletedElements(&gateSet{Set: ds.NewSet(dels...), gate: gate}))
		case "replace":
			rm := s.Replace(&gateSet{Set: ds.NewSet(adds...), after: -1, gate: gate})
			calls[0] = hcall{inv, seq.Add(1), fmt.Sprintf("replace;%s;%s", commaList(adds), commaList(rm.ToSlice()))}

			return
		default:
			kind = "compute"
			// the factory's reading of the set, then the window, then its answer
			m, seen = observedCompute(s, adds, dels, gate)
		}
		ret := seq.Add(1)
		calls[0] = hcall{inv, ret, fmt.Sprintf("%s;%s;%s;%s;%s", kind, commaList(adds), commaList(dels), commaList(m.AddedElements().ToSlice()), commaList(m.DeletedElements().ToSlice()))}
		if kind == "compute" {
			calls[0].text = computeSawText(adds, dels, seen, m)
		}
	})
	go guard(func() {
		defer bDone.Store(true)
		<-inWindow
		for i, c := range [][2]interface{}{b1, b2} {
			inv := seq.Add(1)
			var res bool
			if c[0].(string) == "del" {
				res = s.Delete(c[1].(E))
			} else {
				res = s.Add(c[1].(E))
			}
			calls[1+i] = hcall{inv, seq.Add(1), fmt.Sprintf("%s;%d;%v", c[0], c[1], res)}
		}
	})
	sig := map[string]string{"api": "Set", "oracle": "deadlock", "schedule": "singles-inside-" + bulk}
	timeout := time.After(watchdog + 3*time.Second)
	for i := 0; i < 2; i++ {
		select {
		case <-done:
		case <-timeout:
			w.r.Fail("deadlock", fmt.Sprintf("inside %s %s: %d of 2 goroutines returned within %v", bulk, pair, i, watchdog+3*time.Second), sig)
			hangs++

			return "hung"
		}
	}
	select {
	case msg := <-failed:
		sig["oracle"] = "panic"
		w.r.Fail("panic", fmt.Sprintf("inside %s %s: %s", bulk, pair, msg), sig)

		return "done"
	default:
	}
	if observed.Load() {
		w.r.Count("inside:" + bulk + ":single-observed-blocked")
	} else {
		w.r.Count("inside:" + bulk + ":single-not-observed-blocked")
	}
	w.history(init, s, calls, &seq)

	return "done"
}

// overlap is a directed two-goroutine scenario: a single-element call on x overlapping a Replace of a large set in
// which x is a member before and after (x is re-added last, so the window in which the set is cleared but x not yet back
// lasts n insertions).  The single caller waits until it has seen the set shrink (Size() takes no applyMutex: the
// transient state of a Replace in progress is visible to it) and only then calls Delete(x) / Add(x): in every
// linearization x is a member, so Delete must return true and Add false.  The history, projected onto the small
// universe (restriction to a sub-universe commutes with every set operation), goes to the Lean checker as a `lin`
// line and to the Go Wing-Gong oracle.  kind: "del" or "add".
func (w *world) overlap(kind string, n int) string {
	if n < 10 || n > 60000 || (kind != "del" && kind != "add") {
		return "bad-op"
	}
	const x = E(1)
	seen := 0
	for attempt := 0; attempt < 6; attempt++ {
		old := make([]E, 0, n+2)
		old = append(old, x, E(3))
		for i := 0; i < n; i++ {
			old = append(old, E(100+i))
		}
		s := ds.NewSet(old...)
		// the new contents: other fillers, the small elements 2 and x, x last
		nw := make([]E, 0, n+2)
		for i := 0; i < n; i++ {
			nw = append(nw, E(200+i))
		}
		nw = append(nw, E(2), x)
		arg := ds.NewSet(nw...)
		var seq atomic.Int64
		calls := make([]hcall, 2)
		var sawTransient atomic.Bool
		var replaceDone atomic.Bool
		done := make(chan struct{}, 2)
		failed := make(chan string, 2)
		guard := func(f func()) {
			defer func() {
				if e := recover(); e != nil {
					failed <- fmt.Sprint(e)
				}
				done <- struct{}{}
			}()
			f()
		}
		go guard(func() {
			inv := seq.Add(1)
			rm := s.Replace(arg)
			ret := seq.Add(1)
			replaceDone.Store(true)
			var small []E
			for _, e := range rm.ToSlice() {
				if e < universe {
					small = append(small, e)
				}
			}
			calls[0] = hcall{inv, ret, fmt.Sprintf("replace;%s;%s", commaList([]E{2, x}), commaList(small))}
		})
		go guard(func() {
			for !replaceDone.Load() {
				if s.Size() < n/2 {
					sawTransient.Store(true)

					break
				}
			}
			inv := seq.Add(1)
			var res bool
			if kind == "del" {
				res = s.Delete(x)
			} else {
				res = s.Add(x)
			}
			calls[1] = hcall{inv, seq.Add(1), fmt.Sprintf("%s;%d;%v", kind, x, res)}
		})
		timeout := time.After(watchdog)
		for i := 0; i < 2; i++ {
			select {
			case <-done:
			case <-timeout:
				w.r.Fail("deadlock", fmt.Sprintf("overlap %s: %d of 2 calls returned within %v", kind, i, watchdog),
					map[string]string{"api": "Set", "oracle": "deadlock", "schedule": "single-overlapping-replace"})
				hangs++

				return "hung"
			}
		}
		select {
		case msg := <-failed:
			w.r.Fail("panic", fmt.Sprintf("overlap %s: %s", kind, msg), map[string]string{"api": "Set", "oracle": "panic", "schedule": "single-overlapping-replace"})

			return "done"
		default:
		}
		if !sawTransient.Load() {
			w.r.Count("overlap:" + kind + ":window-missed")

			continue
		}
		seen++
		w.r.Count("overlap:" + kind + ":inside-replace")
		// the history over the small universe; the final Has sweep reads the real set
		w.historyNoQuiesce([]E{x, 3}, s, calls, &seq)
		if seen >= 2 {
			break
		}
	}

	return "done"
}

// historyNoQuiesce is history without the `quiesce` line (the set of the overlap scenario has tens of thousands of elements
// outside the small universe).
func (w *world) historyNoQuiesce(init []E, s ds.Set[E], calls []hcall, seq *atomic.Int64) {
	n := len(pendingLines)
	w.history(init, s, calls, seq)
	kept := pendingLines[:n]
	for _, l := range pendingLines[n:] {
		if !strings.HasPrefix(l, "quiesce ") {
			kept = append(kept, l)
		}
	}
	pendingLines = kept
}

// history queues the `lin` line of a recorded history (completed calls + a final Has sweep at quiescence).
func (w *world) history(init []E, s ds.Set[E], calls []hcall, seq *atomic.Int64) {
	toks := make([]string, 0, len(calls)+universe)
	for _, c := range calls {
		toks = append(toks, c.String())
	}
	for e := E(0); e < universe; e++ {
		inv := seq.Add(1)
		h := s.Has(e)
		toks = append(toks, hcall{inv, seq.Add(1), fmt.Sprintf("has;%d;%v", e, h)}.String())
	}
	line := "lin " + commaList(init) + " " + strings.Join(toks, " ")
	pendingLines = append(pendingLines, line)
	// independent oracle: the completed calls plus the final Has sweep must be linearizable w.r.t. the plain model
	all := append([]hcall(nil), calls...)
	for _, tk := range toks[len(calls):] {
		var c hcall
		parts := strings.SplitN(tk, ";", 3)
		fmt.Sscan(parts[0], &c.inv)
		fmt.Sscan(parts[1], &c.ret)
		c.text = parts[2]
		all = append(all, c)
	}
	if !linearizableGo(init, all) {
		kinds := map[string]bool{}
		for _, c := range calls {
			kinds[strings.TrimSuffix(strings.SplitN(c.text, ";", 2)[0], "saw")] = true
		}
		var ks []string
		for _, k := range []string{"add", "del", "has", "apply", "compute", "replace", "addall", "delall"} {
			if kinds[k] {
				ks = append(ks, k)
			}
		}
		w.r.Fail("not-linearizable", line, map[string]string{"api": "Set", "oracle": "not-linearizable", "calls": strings.Join(ks, ",")})
	}
	overlap := false
	for i := range calls {
		for j := range calls {
			if i < j && calls[i].inv < calls[j].ret && calls[j].inv < calls[i].ret {
				overlap = true
			}
		}
	}
	if overlap {
		w.r.Nontrivial(line)
		w.r.Count("history:overlapping")
	} else {
		w.r.Count("history:sequential")
	}
	sl := s.ToSlice()
	pendingLines = append(pendingLines, fmt.Sprintf("quiesce %d %s", s.Size(), commaList(sl)))
}

type cop struct {
	kind string
	e    E
	a, d []E
}

func genCop(rng *hx.Rng, kinds []string) cop {
	return cop{kind: hx.Pick(rng, kinds), e: E(rng.Intn(universe)), a: genList(rng, 3), d: genList(rng, 3)}
}

// runCop executes one call on the shared set and returns its history text ("" for calls that are not recorded).
func runCop(s ds.Set[E], c cop, api *serix.API) string {
	switch c.kind {
	case "add":
		return fmt.Sprintf("add;%d;%v", c.e, s.Add(c.e))
	case "del":
		return fmt.Sprintf("del;%d;%v", c.e, s.Delete(c.e))
	case "has":
		return fmt.Sprintf("has;%d;%v", c.e, s.Has(c.e))
	case "apply":
		// the argument sets yield between elements so that other goroutines get a chance to run inside Apply
		m := s.Apply(ds.NewSetMutations[E]().WithAddedElements(&parkSet{Set: ds.NewSet(c.a...), yield: true}).
			WithDeletedElements(&parkSet{Set: ds.NewSet(c.d...), yield: true}))

		return fmt.Sprintf("apply;%s;%s;%s;%s", commaList(c.a), commaList(c.d), commaList(m.AddedElements().ToSlice()), commaList(m.DeletedElements().ToSlice()))
	case "compute":
		m, seen := observedCompute(s, c.a, c.d, nil)

		return computeSawText(c.a, c.d, seen, m)
	case "replace":
		return fmt.Sprintf("replace;%s;%s", commaList(c.a), commaList(s.Replace(&parkSet{Set: ds.NewSet(c.a...), yield: true}).ToSlice()))
	case "addall":
		return fmt.Sprintf("addall;%s;%s", commaList(c.a), commaList(s.AddAll(&parkSet{Set: ds.NewSet(c.a...), yield: true}).ToSlice()))
	case "delall":
		return fmt.Sprintf("delall;%s;%s", commaList(c.d), commaList(s.DeleteAll(&parkSet{Set: ds.NewSet(c.d...), yield: true}).ToSlice()))
	// readers and the rest (not recorded; progress only)
	case "foreach":
		_ = s.ForEach(func(e E) error { s.Has(e); return nil })
	case "hasall":
		s.HasAll(&parkSet{Set: ds.NewSet(c.a...), yield: true})
	case "equals":
		s.Equals(ds.NewSet(c.a...))
	case "clone":
		s.Clone()
	case "slice":
		s.ToSlice()
	case "intersect":
		s.Intersect(ds.NewSet(c.a...))
	case "size":
		s.Size()
		s.IsEmpty()
		s.Any()
		s.Is(c.e)
	case "encode":
		_, _ = s.Encode(api)
	case "decode":
		_, _ = s.Decode(api, encodeLit(c.a, false, nil))
	case "clear":
		s.Clear()
	case "iter":
		s.Iterator()
	}

	return ""
}

var stressKinds = map[string][][]string{
	// per thread class: thread 0 uses [0], the others use [1]
	"single": {{"add", "del", "has"}, {"add", "del", "has"}},
	"mut":    {{"add", "del", "apply", "compute", "replace"}, {"add", "del", "apply", "compute", "replace"}},
	"bulk":   {{"addall", "delall"}, {"apply", "compute", "replace"}},
	"all": {{"add", "del", "has", "apply", "compute", "replace", "addall", "delall", "foreach", "hasall", "equals", "clone", "slice",
		"intersect", "size", "encode", "decode", "clear", "iter"}, nil},
}

// stress runs `threads` goroutines with `n` calls each on one set and records the history.
func (w *world) stress(kind string, threads, n int, seed uint64) string {
	rng := hx.NewRng(seed)
	classes, ok := stressKinds[kind]
	if !ok || threads < 1 || threads > 8 || n < 1 || (kind != "all" && threads*n > 18) {
		return "bad-op"
	}
	if classes[1] == nil {
		classes[1] = classes[0]
	}
	init := genList(rng, 4)
	s := ds.NewSet(init...)
	progs := make([][]cop, threads)
	for t := range progs {
		cl := classes[1]
		if t == 0 {
			cl = classes[0]
		}
		for i := 0; i < n; i++ {
			progs[t] = append(progs[t], genCop(rng, cl))
		}
	}
	yields := rng.Chance(1, 2)
	if kind != "all" {
		// every mutator of these classes takes applyMutex: a Compute must report what its factory saw
		defer w.observeComputes("stress-" + kind)()
	}
	var seq atomic.Int64
	results := make([][]hcall, threads)
	start := make(chan struct{})
	done := make(chan struct{}, threads)
	for t := 0; t < threads; t++ {
		go func() {
			defer func() {
				if e := recover(); e != nil {
					w.r.Fail("panic", fmt.Sprintf("stress %s: %v", kind, e), map[string]string{"api": "Set", "oracle": "panic", "schedule": "stress-" + kind})
					done <- struct{}{}
				}
			}()
			<-start
			for _, c := range progs[t] {
				inv := seq.Add(1)
				text := runCop(s, c, w.api)
				ret := seq.Add(1)
				if text != "" {
					results[t] = append(results[t], hcall{inv, ret, text})
				}
				if yields {
					runtime.Gosched()
				}
			}
			done <- struct{}{}
		}()
	}
	close(start)
	timeout := time.After(watchdog)
	for i := 0; i < threads; i++ {
		select {
		case <-done:
		case <-timeout:
			w.r.Fail("deadlock", fmt.Sprintf("stress %s: %d of %d goroutines finished within %v", kind, i, threads, watchdog),
				map[string]string{"api": "Set", "oracle": "deadlock", "schedule": "stress-" + kind})
			hangs++

			return "hung"
		}
	}
	if kind == "all" {
		sl := s.ToSlice()
		if !nodup(sl) || s.Size() != len(sl) {
			w.r.Fail("algebra", fmt.Sprintf("after concurrent use: Size %d, ToSlice %v", s.Size(), sl), map[string]string{"api": "Set", "oracle": "quiescent-consistency"})
		}
		pendingLines = append(pendingLines, fmt.Sprintf("quiesce %d %s", s.Size(), commaList(sl)))

		return "done"
	}
	var calls []hcall
	for _, rs := range results {
		calls = append(calls, rs...)
	}
	w.history(init, s, calls, &seq)

	return "done"
}

// race: `rounds` rounds of "one bulk call and three single-element calls about the same element x, released together".
// addall: x absent, AddAll({3,x}) next to 3 x Add(x); delall: x present, DeleteAll({5,x}) next to 3 x Delete(x);
// applyadd / applydel: the same with Apply.  Whatever the interleaving, exactly one of the four calls changes the
// membership of x, so exactly one may report it (Add/Delete report prior presence, the bulk calls return the elements whose
// membership changed): a bulk method that tests and writes in two steps (`if !s.Has(e) { s.Set(e) ... }`) lets two callers
// report the same change.  A bulk call under the shared lock is judged per element (AddAll(l) = one Add per element of l
// within the call's interval - each inner Set/Delete is a linearizable single-element operation), so the history of a round
// consists of add/del calls only; the first rounds and every round in which the count is not one go to the Lean `lin`
// checker and the Go Wing-Gong oracle.
func (w *world) race(kind string, rounds int) string {
	if rounds < 1 || rounds > 100000 {
		return "bad-op"
	}
	const x = E(1)
	adding := kind == "addall" || kind == "applyadd"
	if !adding && kind != "delall" && kind != "applydel" {
		return "bad-op"
	}
	other := E(5) // an element the bulk call mentions besides x: absent for the deleting kinds, 3 (present) for the adding ones
	if adding {
		other = 3
	}
	s := ds.NewSet(E(3))
	sent, bad := 0, 0
	for round := 0; round < rounds && bad < 3; round++ {
		init := []E{3}
		if adding {
			s.Delete(x)
		} else {
			s.Add(x)
			init = []E{3, x}
		}
		var seq atomic.Int64
		calls := make([][]hcall, 4)
		var reporters, ready atomic.Int32
		start := make(chan struct{})
		done := make(chan struct{}, 4)
		failed := make(chan string, 4)
		for t := 0; t < 4; t++ {
			go func() {
				defer func() {
					if e := recover(); e != nil {
						failed <- fmt.Sprint(e)
					}
					done <- struct{}{}
				}()
				<-start
				// spinning barrier: the four calls start within nanoseconds of each other (a channel wakes them one by one)
				ready.Add(1)
				for spins := 0; ready.Load() < 4; spins++ {
					if spins > 2000 {
						runtime.Gosched()
					}
				}
				inv := seq.Add(1)
				var rep, repOther bool
				single := "add"
				if !adding {
					single = "del"
				}
				switch {
				case t > 0 && adding:
					rep = s.Add(x)
				case t > 0:
					rep = s.Delete(x)
				case kind == "addall":
					res := s.AddAll(ds.NewSet(other, x))
					rep, repOther = res.Has(x), res.Has(other)
				case kind == "delall":
					res := s.DeleteAll(ds.NewSet(other, x))
					rep, repOther = res.Has(x), res.Has(other)
				case kind == "applyadd":
					res := s.Apply(ds.NewSetMutations(other, x)).AddedElements()
					rep, repOther = res.Has(x), res.Has(other)
				default:
					res := s.Apply(ds.NewSetMutations[E]().WithDeletedElements(ds.NewSet(other, x))).DeletedElements()
					rep, repOther = res.Has(x), res.Has(other)
				}
				ret := seq.Add(1)
				if rep {
					reporters.Add(1)
				}
				calls[t] = append(calls[t], hcall{inv, ret, fmt.Sprintf("%s;%d;%v", single, x, rep)})
				if t == 0 {
					calls[t] = append(calls[t], hcall{inv, ret, fmt.Sprintf("%s;%d;%v", single, other, repOther)})
				}
			}()
		}
		// two goroutines keep the ordered map's mutex busy with writes about elements outside the universe: the four
		// contenders queue for it, which stretches whatever distance there is between a test and the write that follows it
		var stopHammer atomic.Bool
		hammerDone := make(chan struct{}, 2)
		for h := 0; h < 2; h++ {
			go func() {
				defer func() { _ = recover(); hammerDone <- struct{}{} }()
				e := E(1000 + h)
				for !stopHammer.Load() {
					s.Add(e)
					s.Delete(e)
				}
			}()
		}
		close(start)
		timeout := time.After(watchdog)
		for i := 0; i < 4; i++ {
			select {
			case <-done:
			case <-timeout:
				stopHammer.Store(true)
				w.r.Fail("deadlock", fmt.Sprintf("race %s: %d of 4 calls returned within %v", kind, i, watchdog),
					map[string]string{"api": "Set", "oracle": "deadlock", "schedule": "race-" + kind})
				hangs++

				return "hung"
			}
		}
		stopHammer.Store(true)
		for h := 0; h < 2; h++ {
			select {
			case <-hammerDone:
			case <-time.After(watchdog):
				w.r.Fail("deadlock", fmt.Sprintf("race %s: background Add/Delete loop did not return within %v", kind, watchdog),
					map[string]string{"api": "Set", "oracle": "deadlock", "schedule": "race-" + kind})
				hangs++

				return "hung"
			}
		}
		select {
		case msg := <-failed:
			w.r.Fail("panic", fmt.Sprintf("race %s: %s", kind, msg), map[string]string{"api": "Set", "oracle": "panic", "schedule": "race-" + kind})

			return "done"
		default:
		}
		n := reporters.Load()
		if n != 1 {
			bad++
			w.r.Count("race:" + kind + ":not-exactly-one-reporter")
		}
		if n != 1 || sent < 2 {
			sent++
			var all []hcall
			for _, c := range calls {
				all = append(all, c...)
			}
			w.history(init, s, all, &seq)
		}
	}
	w.r.Count("race:" + kind + ":rounds")

	return "done"
}

// omWriterPending: some goroutine is blocked in sync.(*RWMutex).Lock called from an OrderedMap method.
func omWriterPending() bool {
	buf := make([]byte, 1<<18)
	n := runtime.Stack(buf, true)
	for _, g := range strings.Split(string(buf[:n]), "\n\n") {
		if strings.Contains(g, "sync.(*RWMutex).Lock(") && strings.Contains(g, "orderedmap.(*OrderedMap[") {
			return true
		}
	}

	return false
}

// mforced runs Clone / ForEach / ForEachReverse on an n-entry ordered map while another goroutine writes.
// clone: writers hammer the map while it is cloned repeatedly (a Clone of 1000+ entries takes long enough for a
// writer to queue behind its read lock); foreach: the consumer itself starts a writer in the middle of the iteration
// and waits until that writer has finished or is seen blocked in mutex.Lock.
func (w *world) mforced(kind string, n int) string {
	if n < 10 || n > 100000 {
		return "bad-op"
	}
	if kind == "aba" {
		return w.aba(n)
	}
	om := orderedmap.New[int, int]()
	for i := 0; i < n; i++ {
		om.Set(i, i)
	}
	done := make(chan string, 4)
	var stop, observed atomic.Bool
	guard := func(name string, f func()) {
		go func() {
			defer func() {
				if e := recover(); e != nil {
					w.r.Fail("panic", fmt.Sprintf("mforced %s: %v", kind, e), map[string]string{"api": "OrderedMap", "oracle": "panic"})
				}
				done <- name
			}()
			f()
		}()
	}
	parties := 0
	switch kind {
	case "clone":
		parties = 2
		guard("writer", func() {
			for j := 0; !stop.Load(); j++ {
				om.Set(j%n, j)
				om.Delete(n + j%7)
				om.Set(n+j%7, 1)
			}
		})
		guard("clone", func() {
			defer stop.Store(true)
			for i := 0; i < 40; i++ {
				c := om.Clone()
				if c.Size() < n {
					w.r.Fail("algebra", fmt.Sprintf("Clone of a map with >= %d entries has %d", n, c.Size()), map[string]string{"api": "OrderedMap.Clone", "oracle": "algebra"})
				}
				if i%8 == 0 && omWriterPending() {
					observed.Store(true)
				}
			}
		})
	case "foreach", "foreachrev":
		parties = 1
		guard("foreach", func() {
			visits := 0
			consumer := func(k, v int) bool {
				visits++
				if visits == 3 || visits == n/2 {
					wdone := make(chan struct{})
					newKey := n + visits
					go func() {
						defer close(wdone)
						om.Set(newKey, 1)
						om.Delete(k)
					}()
					deadline := time.Now().Add(2 * time.Second)
					for time.Now().Before(deadline) {
						select {
						case <-wdone:
							return true
						default:
						}
						if omWriterPending() {
							observed.Store(true)

							return true
						}
						time.Sleep(100 * time.Microsecond)
					}
				}

				return true
			}
			if kind == "foreach" {
				om.ForEach(consumer)
			} else {
				om.ForEachReverse(consumer)
			}
			if visits < n-2 {
				w.r.Fail("weak-iteration", fmt.Sprintf("%s visited %d of %d entries", kind, visits, n), map[string]string{"api": "OrderedMap.ForEach", "oracle": "weak-iteration"})
			}
		})
	case "aba":
		// several goroutines delete and re-set the same two keys of a small map: a Delete that acts on an element it looked
		// up before taking the write lock would unlink a stale element; afterwards the map must be consistent
		return w.aba(n)
	default:
		return "bad-op"
	}
	timeout := time.After(watchdog)
	for i := 0; i < parties; i++ {
		select {
		case <-done:
		case <-timeout:
			stop.Store(true)
			api := map[string]string{"clone": "OrderedMap.Clone", "foreach": "OrderedMap.ForEach", "foreachrev": "OrderedMap.ForEachReverse"}[kind]
			w.r.Fail("deadlock", fmt.Sprintf("%s on a %d-entry map with a concurrent writer: %d of %d goroutines returned within %v (writer observed pending: %v)",
				api, n, i, parties, watchdog, observed.Load() || omWriterPending()),
				map[string]string{"api": api, "oracle": "deadlock", "schedule": "reader-in-progress;writer-pending"})
			hangs++

			return "hung"
		}
	}
	if observed.Load() {
		w.r.Count("mforced:" + kind + ":writer-pending-observed")
	} else {
		w.r.Count("mforced:" + kind + ":writer-pending-not-observed")
	}

	return "done"
}

// setCall performs one call of a method that accepts a ReadableSet (or mutations built from one) on `recv` with `src`.
func setCall(method string, recv, src ds.Set[E]) {
	switch method {
	case "addall":
		recv.AddAll(src)
	case "delall":
		recv.DeleteAll(src)
	case "replace":
		recv.Replace(src)
	case "applyadd":
		recv.Apply(ds.NewSetMutations[E]().WithAddedElements(src))
	case "applydel":
		recv.Apply(ds.NewSetMutations[E]().WithDeletedElements(src))
	case "hasall":
		recv.HasAll(src)
	case "equals":
		recv.Equals(src)
	case "intersect":
		recv.Intersect(src)
	case "computeself":
		recv.Compute(func(rs ds.ReadableSet[E]) ds.SetMutations[E] { return ds.NewSetMutations[E]().WithAddedElements(src) })
	}
}

var setCallAPI = map[string]string{"addall": "Set.AddAll", "delall": "Set.DeleteAll", "replace": "Set.Replace", "applyadd": "Set.Apply",
	"applydel": "Set.Apply", "hasall": "Set.HasAll", "equals": "Set.Equals", "intersect": "Set.Intersect", "computeself": "Set.Compute"}

// refill puts the initial elements back (DeleteAll(s), Replace(s), Apply(-s) empty the set) through a method that
// takes no set argument.
func refill(s ds.Set[E]) {
	for e := E(0); e < 4; e++ {
		s.Add(e)
	}
}

// runParties starts the given loops, waits for the `main` ones (the first nMain) and then stops the background ones.
func (w *world) runParties(line, api, schedule string, nMain int, loops []func(stop *atomic.Bool)) string {
	var stop atomic.Bool
	done := make(chan int, len(loops))
	for i, l := range loops {
		go func() {
			defer func() {
				if e := recover(); e != nil {
					w.r.Fail("panic", fmt.Sprintf("%s: %v", line, e), map[string]string{"api": api, "oracle": "panic", "schedule": schedule})
				}
				done <- i
			}()
			l(&stop)
		}()
	}
	timeout := time.After(watchdog)
	mains, all := 0, 0
	for all < len(loops) {
		select {
		case i := <-done:
			all++
			if i < nMain {
				mains++
			}
			if mains == nMain {
				stop.Store(true)
			}
		case <-timeout:
			stop.Store(true)
			w.r.Fail("deadlock", fmt.Sprintf("%s: %d of %d goroutines returned within %v (%d of %d looping callers finished)", line, all, len(loops), watchdog, mains, nMain),
				map[string]string{"api": api, "oracle": "deadlock", "schedule": schedule})
			hangs++

			return "hung"
		}
	}

	return "done"
}

func noopWriter(s ds.Set[E], k int) func(stop *atomic.Bool) {
	return func(stop *atomic.Bool) {
		for i := 0; !stop.Load(); i++ {
			if (i+k)%2 == 0 {
				// adds an element that is there and deletes one that is not (while the set is full): applies nothing
				s.Apply(ds.NewSetMutations[E](1).WithDeletedElements(ds.NewSet[E](5)))
			} else {
				s.Compute(func(ds.ReadableSet[E]) ds.SetMutations[E] { return ds.NewSetMutations[E]() })
			}
		}
	}
}

// setMethods: every method of the ds.Set interface as a call on `s` with `o` as the set argument (no-op callbacks).
var setMethods = []struct {
	name string
	call func(s, o ds.Set[E], api *serix.API, enc []byte)
}{
	{"Has", func(s, o ds.Set[E], _ *serix.API, _ []byte) { s.Has(1) }},
	{"HasAll", func(s, o ds.Set[E], _ *serix.API, _ []byte) { s.HasAll(o) }},
	{"ForEach", func(s, o ds.Set[E], _ *serix.API, _ []byte) { _ = s.ForEach(func(E) error { return nil }) }},
	{"Range", func(s, o ds.Set[E], _ *serix.API, _ []byte) { s.Range(func(E) {}) }},
	{"Intersect", func(s, o ds.Set[E], _ *serix.API, _ []byte) { s.Intersect(o) }},
	{"Filter", func(s, o ds.Set[E], _ *serix.API, _ []byte) { s.Filter(func(e E) bool { return e%2 == 0 }) }},
	{"Equals", func(s, o ds.Set[E], _ *serix.API, _ []byte) { s.Equals(o) }},
	{"Any", func(s, o ds.Set[E], _ *serix.API, _ []byte) { s.Any() }},
	{"Is", func(s, o ds.Set[E], _ *serix.API, _ []byte) { s.Is(1) }},
	{"Iterator", func(s, o ds.Set[E], _ *serix.API, _ []byte) { s.Iterator() }},
	{"Clone", func(s, o ds.Set[E], _ *serix.API, _ []byte) { s.Clone() }},
	{"Size", func(s, o ds.Set[E], _ *serix.API, _ []byte) { s.Size() }},
	{"IsEmpty", func(s, o ds.Set[E], _ *serix.API, _ []byte) { s.IsEmpty() }},
	{"Clear", func(s, o ds.Set[E], _ *serix.API, _ []byte) { s.Clear() }},
	{"ToSlice", func(s, o ds.Set[E], _ *serix.API, _ []byte) { s.ToSlice() }},
	{"Encode", func(s, o ds.Set[E], api *serix.API, _ []byte) { _, _ = s.Encode(api) }},
	{"String", func(s, o ds.Set[E], _ *serix.API, _ []byte) { _ = s.String() }},
	{"Add", func(s, o ds.Set[E], _ *serix.API, _ []byte) { s.Add(2) }},
	{"AddAll", func(s, o ds.Set[E], _ *serix.API, _ []byte) { s.AddAll(o) }},
	{"Delete", func(s, o ds.Set[E], _ *serix.API, _ []byte) { s.Delete(2) }},
	{"DeleteAll", func(s, o ds.Set[E], _ *serix.API, _ []byte) { s.DeleteAll(o) }},
	{"Apply", func(s, o ds.Set[E], _ *serix.API, _ []byte) {
		s.Apply(ds.NewSetMutations[E](4).WithDeletedElements(o))
	}},
	{"Compute", func(s, o ds.Set[E], _ *serix.API, _ []byte) {
		s.Compute(func(rs ds.ReadableSet[E]) ds.SetMutations[E] {
			return ds.NewSetMutations[E](3).WithDeletedElements(rs.Intersect(o))
		})
	}},
	{"Replace", func(s, o ds.Set[E], _ *serix.API, _ []byte) { s.Replace(o) }},
	{"Decode", func(s, o ds.Set[E], api *serix.API, enc []byte) { _, _ = s.Decode(api, enc) }},
	{"ReadOnly", func(s, o ds.Set[E], _ *serix.API, _ []byte) { s.ReadOnly().Has(1) }},
}

// pairs: EVERY unordered pair {M1, M2} of methods of the ds.Set interface (M1 = M2 included): two goroutines call s.M1(o) and
// s.M2(o) k times each while a third keeps an Apply/Compute pending on s (the pressure that turns a re-entrant
// applyMutex.RLock into a deadlock) and a fourth keeps writes to the ordered map pending (Add/Delete of an element outside
// the universe: the pressure that turns a re-entrant map RLock, e.g. a Clone through ForEach, into one); o is a second set
// that a fifth goroutine mutates.  Every call must return: watchdog => oracle `deadlock` naming the pair.  The answer is
// `done`; an interface method without an entry in setMethods answers `uncovered:<names>` (a gap of the harness, not of the code).
func (w *world) pairs(k int) string {
	if k < 1 || k > 10000 {
		return "bad-op"
	}
	covered := map[string]bool{}
	for _, m := range setMethods {
		covered[m.name] = true
	}
	it := reflect.TypeOf((*ds.Set[E])(nil)).Elem()
	var missing []string
	for i := 0; i < it.NumMethod(); i++ {
		if n := it.Method(i).Name; !covered[n] {
			missing = append(missing, n)
		}
	}
	if len(missing) > 0 || it.NumMethod() != len(setMethods) {
		return "uncovered:" + strings.Join(missing, ",")
	}
	enc := encodeLit([]E{0, 4}, false, nil)
	for i := range setMethods {
		for j := i; j < len(setMethods); j++ {
			m1, m2 := setMethods[i], setMethods[j]
			s, o := ds.NewSet[E](0, 1, 2, 3, 4, 5), ds.NewSet[E](1, 5)
			var stop atomic.Bool
			done := make(chan struct{}, 5)
			run := func(f func()) {
				go func() {
					defer func() { _ = recover(); done <- struct{}{} }()
					f()
				}()
			}
			run(func() {
				for n := 0; n < k; n++ {
					m1.call(s, o, w.api, enc)
				}
			})
			run(func() {
				for n := 0; n < k; n++ {
					m2.call(s, o, w.api, enc)
				}
			})
			mains := 2
			bg := []func(){
				func() { noopWriter(s, i+j)(&stop) },
				func() {
					for !stop.Load() {
						s.Add(1000)
						s.Delete(1000)
					}
				},
				func() {
					for !stop.Load() {
						o.Add(3)
						o.Delete(3)
					}
				},
			}
			for _, f := range bg {
				run(f)
			}
			timeout := time.After(watchdog)
			for n := 0; n < mains+len(bg); n++ {
				if n == mains {
					stop.Store(true)
				}
				select {
				case <-done:
				case <-timeout:
					stop.Store(true)
					w.r.Fail("deadlock", fmt.Sprintf("pair s.%s(o) || s.%s(o) with an Apply/Compute loop and an Add/Delete loop on s: %d of %d goroutines returned within %v",
						m1.name, m2.name, n, mains+len(bg), watchdog),
						map[string]string{"api": "Set." + m1.name + "|Set." + m2.name, "oracle": "deadlock", "schedule": "method-pair"})
					hangs++

					return "hung"
				}
			}
			w.r.Count("pairs:returned")
		}
	}

	return "done"
}

// alias: `s.M(s)` looping against two goroutines doing no-op Apply/Compute on the same set.
func (w *world) alias(method string, n int) string {
	if setCallAPI[method] == "" || n < 1 || n > 1000000 {
		return "bad-op"
	}
	s := ds.NewSet[E](0, 1, 2, 3)
	caller := func(*atomic.Bool) {
		for i := 0; i < n; i++ {
			setCall(method, s, s)
			if i%4 == 3 {
				refill(s)
			}
		}
	}

	return w.runParties(fmt.Sprintf("alias %s %d", method, n), setCallAPI[method], "self-aliased-argument;apply-pending", 1,
		[]func(*atomic.Bool){caller, noopWriter(s, 0), noopWriter(s, 1)})
}

// cross: `a.M(b)` and `b.M(a)` looping while an Apply/Compute loop runs on each of the two sets.
func (w *world) cross(method string, n int) string {
	if setCallAPI[method] == "" || n < 1 || n > 1000000 {
		return "bad-op"
	}
	a, b := ds.NewSet[E](0, 1, 2, 3), ds.NewSet[E](2, 3, 4, 5)
	caller := func(x, y ds.Set[E]) func(*atomic.Bool) {
		return func(*atomic.Bool) {
			for i := 0; i < n; i++ {
				setCall(method, x, y)
				if i%4 == 3 {
					refill(x)
				}
			}
		}
	}

	return w.runParties(fmt.Sprintf("cross %s %d", method, n), setCallAPI[method], "two-sets-cross-arguments;apply-pending-on-each", 2,
		[]func(*atomic.Bool){caller(a, b), caller(b, a), noopWriter(a, 0), noopWriter(b, 1)})
}

var aliasMethods = []string{"addall", "delall", "replace", "applyadd", "applydel", "hasall", "equals", "intersect", "computeself"}
var crossMethods = []string{"addall", "delall", "replace", "applyadd", "applydel", "hasall", "equals", "intersect"}

// aba: `n` rounds of 4 goroutines x 40 Delete/Set calls on keys {0,1} of a 5-key ordered map, then a consistency check.
func (w *world) aba(n int) string {
	for round := 0; round < n; round++ {
		om := orderedmap.New[int, int]()
		for k := 0; k < 5; k++ {
			om.Set(k, k)
		}
		var loops []func(*atomic.Bool)
		for g := 0; g < 4; g++ {
			loops = append(loops, func(*atomic.Bool) {
				for i := 0; i < 40; i++ {
					k := (i + g) % 2
					if (i/2+g)%3 == 0 {
						om.Set(k, i)
					} else {
						om.Delete(k)
					}
				}
			})
		}
		if w.runParties(fmt.Sprintf("mforced aba %d", n), "OrderedMap.Delete", "delete-vs-delete+set-same-key", 4, loops) != "done" {
			return "hung"
		}
		var fwd, rev []int
		steps := 0
		om.ForEach(func(k, _ int) bool { fwd = append(fwd, k); steps++; return steps < 100 })
		steps = 0
		om.ForEachReverse(func(k, _ int) bool { rev = append(rev, k); steps++; return steps < 100 })
		ok := len(fwd) == len(rev) && om.Size() == len(fwd)
		seen := map[int]bool{}
		for i, k := range fwd {
			if seen[k] || !om.Has(k) || (ok && rev[len(rev)-1-i] != k) {
				ok = false
			}
			seen[k] = true
		}
		for k := 0; k < 5; k++ {
			if om.Has(k) != seen[k] {
				ok = false
			}
		}
		if !ok {
			w.r.Fail("omap-order", fmt.Sprintf("after concurrent Delete/Set of keys 0,1 (round %d): ForEach %v, ForEachReverse %v, Size %d, Has(0..4)=%v%v%v%v%v",
				round, fwd, rev, om.Size(), om.Has(0), om.Has(1), om.Has(2), om.Has(3), om.Has(4)),
				map[string]string{"api": "OrderedMap.Delete", "oracle": "quiescent-consistency", "schedule": "delete-vs-delete+set-same-key"})

			return "done"
		}
	}

	return "done"
}

// runConcurrent is the generated concurrent part of a run.
func runConcurrent(r *hx.Run) {
	forcedN, stressN := 5, 1500
	if r.Scale > 1 {
		forcedN, stressN = 5*r.Scale, 1500*r.Scale
	}
	var ops []string
	for i := 0; i < forcedN; i++ {
		for _, b := range []string{"delall", "addall"} {
			for _, wr := range []string{"apply", "compute", "replace"} {
				ops = append(ops, fmt.Sprintf("forced %s %s", b, wr))
			}
		}
	}
	for i := 0; i < forcedN; i++ {
		ops = append(ops, fmt.Sprintf("mforced aba %d", 300), fmt.Sprintf("mforced clone %d", 1000+200*i), fmt.Sprintf("mforced foreach %d", 1000+200*i), fmt.Sprintf("mforced foreachrev %d", 1000+200*i))
	}
	// a Replace of 20 000 .. 40 000 elements costs about 0.75 s under -race: the thorough tier runs 20 rounds, not 5 x Scale
	overlapN := forcedN
	if overlapN > 20 {
		overlapN = 20
	}
	for i := 0; i < overlapN; i++ {
		ops = append(ops, fmt.Sprintf("overlap del %d", 20000+5000*(i%5)), fmt.Sprintf("overlap add %d", 20000+5000*(i%5)))
	}
	for i := 0; i < forcedN; i++ {
		for _, b := range []string{"applyadd", "applydel", "compute", "replace"} {
			for _, p := range []string{"del", "add", "mix"} {
				ops = append(ops, fmt.Sprintf("inside %s %s", b, p))
			}
		}
	}
	for _, k := range []string{"addall", "delall", "applyadd", "applydel"} {
		rounds := 12 * forcedN // a two-step test-and-write shows within 25 rounds; a round costs 4 ms idle, 11 ms on a loaded machine
		if rounds > 600 {
			rounds = 600
		}
		ops = append(ops, fmt.Sprintf("race %s %d", k, rounds))
	}
	ops = append(ops, fmt.Sprintf("pairs %d", 20))
	runCase(r, 0, ops)
	ops = nil
	for rep := 0; rep < 1+r.Scale/4 && hangs < 4; rep++ {
		for _, m := range aliasMethods {
			ops = append(ops, fmt.Sprintf("alias %s %d", m, 3000))
		}
		for _, m := range crossMethods {
			ops = append(ops, fmt.Sprintf("cross %s %d", m, 2000))
		}
	}
	runCase(r, 0, ops)
	for i := 0; i < stressN && hangs < 4; i++ {
		rng, sub := r.Rng.Fork()
		var batch []string
		for _, k := range []string{"single", "mut", "bulk", "all"} {
			threads, n := rng.Range(2, 4), 0
			if k == "all" {
				threads, n = rng.Range(3, 6), rng.Range(4, 10)
			} else {
				n = rng.Range(2, 18/threads)
				if n > 5 {
					n = 5
				}
			}
			batch = append(batch, fmt.Sprintf("stress %s %d %d %d", k, threads, n, rng.U64()))
		}
		runCase(r, sub, batch)
	}
}
