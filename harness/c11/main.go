// C11 correspondence harness: drives the real ds/orderedmap.OrderedMap (through
// SerializableOrderedMap[uint16,uint8]), ds.Set[uint16] and ds.SetArithmetic[uint16] through random
// histories and prints canonical answers that the Lean models (Hive/Model/OMap*.lean) must reproduce
// line by line.  The property oracles (insertion order, prior presence, exact diffs, set algebra,
// thresholds, codec round trip, weak iteration, progress, linearizability hand-off) are evaluated here
// against a plain slice+map model, independently of Lean.
package main

import (
	"crypto/sha256"
	"fmt"
	"os"
	"reflect"
	"strconv"
	"strings"
	"sync/atomic"
	"time"

	"verifharness/hx"

	"github.com/iotaledger/hive.go/ds"
	"github.com/iotaledger/hive.go/ds/orderedmap"
	"github.com/iotaledger/hive.go/ds/serializableorderedmap"
	"github.com/iotaledger/hive.go/serializer/v2/serix"
)

const universe = 6

// aliasProbe is an element outside every generated universe, used to probe returned sets for shared storage.
const aliasProbe = E(60001)

// keys of the long delete-heavy histories (genChurn) that drive the dictionary through its rebuilds
const churnUniverse = 12
const nRegs = 4

type E = uint16

// ---------------------------------------------------------------------------------------------------------------------
// plain reference model (independent oracle): insertion-ordered slice + map

type omodel struct {
	keys []E
	vals map[E]uint8
	// incarnation of every live key: the number of the insertion that created it (a delete + re-insert gives a new one)
	born   map[E]int
	births int
}

func newOModel() *omodel { return &omodel{vals: map[E]uint8{}, born: map[E]int{}} }

// neighbour: the key after (fwd) or before (!fwd) k in insertion order, if any.
func (o *omodel) neighbour(k E, fwd bool) (E, bool) {
	for i, x := range o.keys {
		if x != k {
			continue
		}
		if fwd && i+1 < len(o.keys) {
			return o.keys[i+1], true
		}
		if !fwd && i > 0 {
			return o.keys[i-1], true
		}
	}

	return 0, false
}

func (o *omodel) has(k E) bool { _, ok := o.vals[k]; return ok }

func (o *omodel) set(k E, v uint8) (prev uint8, existed bool) {
	prev, existed = o.vals[k]
	if !existed {
		o.keys = append(o.keys, k)
		o.births++
		o.born[k] = o.births
	}
	o.vals[k] = v

	return prev, existed
}

func (o *omodel) del(k E) bool {
	if !o.has(k) {
		return false
	}
	delete(o.vals, k)
	delete(o.born, k)
	for i, x := range o.keys {
		if x == k {
			o.keys = append(o.keys[:i:i], o.keys[i+1:]...)

			break
		}
	}

	return true
}

func (o *omodel) clear() { o.keys = nil; o.vals = map[E]uint8{}; o.born = map[E]int{} }

func (o *omodel) kvs() string {
	parts := make([]string, 0, len(o.keys))
	for _, k := range o.keys {
		parts = append(parts, fmt.Sprintf("%d:%d", k, o.vals[k]))
	}

	return "[" + strings.Join(parts, " ") + "]"
}

func (o *omodel) clone() *omodel {
	c := newOModel()
	for _, k := range o.keys {
		c.set(k, o.vals[k])
	}

	return c
}

// ---------------------------------------------------------------------------------------------------------------------

type world struct {
	r   *hx.Run
	api *serix.API
	om  *serializableorderedmap.SerializableOrderedMap[E, uint8]
	omO *omodel
	set [nRegs]ds.Set[E]
	// the ReadOnly() view of every register, taken once when the register was filled and held across all later
	// mutations: it must stay a live view of the set (not a snapshot)
	view [nRegs]ds.ReadableSet[E]
	ar   ds.SetArithmetic[E]
	arO  map[E]int
	// one SetMutations object fed by the collector functions
	arcM   ds.SetMutations[E]
	arcAdd func(E)
	arcSub func(E)
	arcThr int
	arc0   map[E]int // counts when the object was fresh; nil = oracle suspended (counts changed through another object)
	// ordered maps with pointer / slice / map values
	tmaps    []tmap
	tref     [][]refEntry
	tlast    [][]byte
	tlastRef [][]refEntry
}

func newWorld(r *hx.Run) *world {
	w := &world{r: r, api: serix.NewAPI(), om: serializableorderedmap.New[E, uint8](), omO: newOModel(),
		ar: ds.NewSetArithmetic[E](), arO: map[E]int{}}
	for i := range w.set {
		w.set[i] = ds.NewSet[E]()
		w.view[i] = w.set[i].ReadOnly()
	}

	return w
}

func showList(l []E) string {
	parts := make([]string, 0, len(l))
	for _, e := range l {
		parts = append(parts, strconv.Itoa(int(e)))
	}

	return "[" + strings.Join(parts, " ") + "]"
}

func commaList(l []E) string {
	if len(l) == 0 {
		return "-"
	}
	parts := make([]string, 0, len(l))
	for _, e := range l {
		parts = append(parts, strconv.Itoa(int(e)))
	}

	return strings.Join(parts, ",")
}

func parseList(s string) []E {
	if s == "-" || s == "" {
		return nil
	}
	var out []E
	for _, p := range strings.Split(s, ",") {
		n, err := strconv.Atoi(p)
		if err != nil {
			panic("bad list " + s)
		}
		out = append(out, E(n))
	}

	return out
}

func toMap(l []E) map[E]bool {
	m := map[E]bool{}
	for _, e := range l {
		m[e] = true
	}

	return m
}

func sameSet(a, b []E) bool {
	ma, mb := toMap(a), toMap(b)
	if len(ma) != len(mb) {
		return false
	}
	for k := range ma {
		if !mb[k] {
			return false
		}
	}

	return true
}

func sameList(a, b []E) bool {
	if len(a) != len(b) {
		return false
	}
	for i := range a {
		if a[i] != b[i] {
			return false
		}
	}

	return true
}

func minus(a []E, b map[E]bool) []E {
	var out []E
	for _, e := range a {
		if !b[e] {
			out = append(out, e)
		}
	}

	return out
}

func inter(a []E, b map[E]bool) []E {
	var out []E
	for _, e := range a {
		if b[e] {
			out = append(out, e)
		}
	}

	return out
}

func nodup(l []E) bool { return len(toMap(l)) == len(l) }

func (w *world) fail(oracle, api, detail string) {
	w.r.Fail(oracle, detail, map[string]string{"api": api, "oracle": oracle})
}

// dictField reads a field of the ordered map's dictionary (a ShrinkingMap) through reflection: the bookkeeping of the
// hash index (deletedKeys, options) is not reachable through the API, the Lean model (Hive/Model/OMapDict.lean) mirrors it.
func dictField(om *orderedmap.OrderedMap[E, uint8], path ...string) (v reflect.Value, ok bool) {
	defer func() {
		if recover() != nil {
			ok = false
		}
	}()
	v = reflect.ValueOf(om).Elem().FieldByName("dictionary")
	for _, name := range path {
		for v.IsValid() && v.Kind() == reflect.Ptr {
			v = v.Elem()
		}
		if !v.IsValid() {
			return v, false
		}
		v = v.FieldByName(name)
	}

	return v, v.IsValid()
}

func dictDeletedKeys(om *orderedmap.OrderedMap[E, uint8]) int {
	if v, ok := dictField(om, "deletedKeys"); ok && v.CanInt() {
		return int(v.Int())
	}

	return -1
}

// omDump reads the real ordered map through ForEach/ForEachReverse/Size/Head/Tail and checks it against the
// plain model (oracle "omap-order").
func (w *world) omDump(api string) string {
	var fwd, rev []string
	w.om.ForEach(func(k E, v uint8) bool { fwd = append(fwd, fmt.Sprintf("%d:%d", k, v)); return true })
	w.om.ForEachReverse(func(k E, v uint8) bool { rev = append(rev, fmt.Sprintf("%d:%d", k, v)); return true })
	got := "[" + strings.Join(fwd, " ") + "]"
	if got != w.omO.kvs() {
		w.fail("omap-order", api, fmt.Sprintf("ForEach %s, insertion-ordered reference %s", got, w.omO.kvs()))
	}
	for i := range rev {
		if len(rev) != len(fwd) || rev[i] != fwd[len(fwd)-1-i] {
			w.fail("omap-order", api+"/reverse", fmt.Sprintf("ForEachReverse %v is not the reverse of ForEach %v", rev, fwd))

			break
		}
	}
	if w.om.Size() != len(fwd) || w.om.IsEmpty() != (len(fwd) == 0) {
		w.fail("omap-order", api+"/size", fmt.Sprintf("Size %d, ForEach visited %d", w.om.Size(), len(fwd)))
	}
	hk, hv, hok := w.om.Head()
	tk, tv, tok := w.om.Tail()
	if hok != (len(fwd) > 0) || tok != (len(fwd) > 0) ||
		(hok && fmt.Sprintf("%d:%d", hk, hv) != fwd[0]) || (tok && fmt.Sprintf("%d:%d", tk, tv) != fwd[len(fwd)-1]) {
		w.fail("omap-order", api+"/headtail", fmt.Sprintf("Head %d:%d %v Tail %d:%d %v of %v", hk, hv, hok, tk, tv, tok, fwd))
	}

	// the hash index must know exactly the live keys, whatever rebuilds (shrinks) it went through
	for k := E(0); k < churnUniverse; k++ {
		_, gok := w.om.Get(k)
		if gok != w.omO.has(k) || w.om.Has(k) != w.omO.has(k) {
			w.fail("omap-order", api+"/index", fmt.Sprintf("Get(%d) exists=%v Has=%v, reference %v (chain %v)", k, gok, w.om.Has(k), w.omO.has(k), fwd))
		}
	}

	return fmt.Sprintf("%s n=%d dk=%d", got, w.om.Size(), dictDeletedKeys(w.om.OrderedMap))
}

// arg resolves a ReadableSet argument: "@j" = register j, otherwise a literal list.
func (w *world) argSet(a string) ds.Set[E] {
	if strings.HasPrefix(a, "@") {
		j, _ := strconv.Atoi(a[1:])

		return w.set[j%nRegs]
	}

	return ds.NewSet(parseList(a)...)
}

// arg: a ReadableSet argument; besides the forms of argSet "~j" = the ReadOnly() view of register j (the live view, not a
// copy) and "ro:LIST" = NewReadableSet(LIST...).
func (w *world) arg(a string) ds.ReadableSet[E] {
	if strings.HasPrefix(a, "~") {
		j, _ := strconv.Atoi(a[1:])

		return w.view[j%nRegs]
	}
	if strings.HasPrefix(a, "ro:") {
		return ds.NewReadableSet(parseList(a[3:])...)
	}

	return w.argSet(a)
}

// thrArgs: the variadic threshold argument; "_" = omitted, "a,b" = several (only the first counts).
func thrArgs(t string) (args []int, effective int) {
	if t == "_" {
		return nil, 1
	}
	for _, p := range strings.Split(t, ",") {
		n, _ := strconv.Atoi(p)
		args = append(args, n)
	}

	return args, args[0]
}

func optKV(k E, v uint8, ok bool) string {
	if !ok {
		return "none"
	}

	return fmt.Sprintf("%d:%d", k, v)
}

type visit struct {
	ops  []string
	stop bool
}

func parseVisits(toks []string) map[int]visit {
	out := map[int]visit{}
	for _, t := range toks {
		parts := strings.SplitN(t, ":", 2)
		i, _ := strconv.Atoi(parts[0])
		v := visit{}
		for _, o := range strings.Split(parts[1], ",") {
			if o == "x" {
				v.stop = true
			} else if o != "" {
				v.ops = append(v.ops, o)
			}
		}
		out[i] = v
	}

	return out
}

func (w *world) mop(o string) (deleted []E) {
	switch o[0] {
	case 'c':
		deleted = append(deleted, w.omO.keys...)
		w.om.Clear()
		w.omO.clear()
	case 'd':
		k, _ := strconv.Atoi(o[1:])
		if w.om.Delete(E(k)) {
			deleted = append(deleted, E(k))
		}
		w.omO.del(E(k))
	case 's':
		kv := strings.Split(o[1:], ".")
		k, _ := strconv.Atoi(kv[0])
		v, _ := strconv.Atoi(kv[1])
		w.om.Set(E(k), uint8(v))
		w.omO.set(E(k), uint8(v))
	}

	return deleted
}

// The sequential part runs on the main goroutine.  A call that blocks forever there (a method that takes a lock it already
// holds, e.g. a Replace whose s.Clear() resolves to a new set.Clear taking applyMutex again) would end the run with the Go
// runtime's "all goroutines are asleep" and no finding.  seqWatchdog notices that the current request has not returned
// for a long time, records the request as the last line of the case, reports oracle `deadlock` (so the case is the replay)
// and ends the run.  Concurrent scenarios have their own watchdogs and are exempt.
var (
	seqOp   atomic.Pointer[string]
	seqTick atomic.Int64
)

const seqLimit = 60 * time.Second

func seqWatchdog(r *hx.Run) {
	last, since := int64(-1), time.Now()
	for {
		time.Sleep(500 * time.Millisecond)
		cur, op := seqTick.Load(), seqOp.Load()
		if cur != last || op == nil {
			last, since = cur, time.Now()

			continue
		}
		switch strings.Fields(*op)[0] {
		case "forced", "overlap", "inside", "race", "pairs", "mforced", "alias", "cross", "stress":
			continue
		}
		if time.Since(since) > seqLimit {
			r.Line(*op, "hung")
			r.Fail("deadlock", fmt.Sprintf("the sequential call %q did not return within %v (no other goroutine is running)", *op, seqLimit),
				map[string]string{"api": strings.Fields(*op)[0], "oracle": "deadlock", "schedule": "sequential"})
			r.Finish()
			os.Exit(0)
		}
	}
}

func (w *world) exec(op string) (ans string) {
	seqOp.Store(&op)
	seqTick.Add(1)
	defer seqOp.Store(nil)
	if p := hx.Safely(func() { ans = w.exec1(op) }); p != "" {
		w.r.Fail("panic", op+": "+p, map[string]string{"api": strings.Fields(op)[0], "oracle": "panic"})

		return "panic"
	}

	return ans
}

func (w *world) exec1(op string) string {
	f := strings.Fields(op)
	num := func(i int) int { n, _ := strconv.Atoi(f[i]); return n }
	// "ro.<read method> r ..." = the method called on set[r].ReadOnly()
	ro := strings.HasPrefix(f[0], "ro.")
	if ro {
		f[0] = f[0][3:]
	}
	rd := func(i int) ds.ReadableSet[E] {
		if ro {
			w.r.Count("receiver:readonly-view")
			// the view taken when the register was filled is a live view: it shows the set's present contents
			if v, cur := w.view[i].ToSlice(), w.set[i].ToSlice(); !sameList(v, cur) || w.view[i].Size() != w.set[i].Size() {
				w.fail("algebra", "Set.ReadOnly", fmt.Sprintf("the read-only view shows %v, the set holds %v", v, cur))
			}

			return w.view[i]
		}

		return w.set[i]
	}
	switch f[0] {
	// ------------------------------------------------------------------------------------------------- ordered map
	case "mset":
		k, v := E(num(1)), uint8(num(2))
		prev, existed := w.om.Set(k, v)
		oprev, oexisted := w.omO.set(k, v)
		if existed != oexisted || (existed && prev != oprev) {
			w.fail("prior-presence", "OrderedMap.Set", fmt.Sprintf("Set(%d,%d) reported (%d,%v), reference (%d,%v)", k, v, prev, existed, oprev, oexisted))
		}
		ps := "none"
		if existed {
			ps = strconv.Itoa(int(prev))
		}

		return "prev=" + ps + " | " + w.omDump("OrderedMap.Set")
	case "mdel":
		k := E(num(1))
		got := w.om.Delete(k)
		if want := w.omO.del(k); got != want {
			w.fail("prior-presence", "OrderedMap.Delete", fmt.Sprintf("Delete(%d) reported %v, reference %v", k, got, want))
		}

		return fmt.Sprintf("%v | %s", got, w.omDump("OrderedMap.Delete"))
	case "mget":
		v, ok := w.om.Get(E(num(1)))
		if ov, ook := w.omO.vals[E(num(1))]; ok != ook || (ok && v != ov) {
			w.fail("omap-order", "OrderedMap.Get", fmt.Sprintf("Get(%d)=(%d,%v), reference (%d,%v)", num(1), v, ok, ov, ook))
		}
		if !ok {
			return "none"
		}

		return strconv.Itoa(int(v))
	case "mhas":
		got := w.om.Has(E(num(1)))
		if got != w.omO.has(E(num(1))) {
			w.fail("omap-order", "OrderedMap.Has", fmt.Sprintf("Has(%d)=%v", num(1), got))
		}

		return fmt.Sprint(got)
	case "mhead":
		return optKV(w.om.Head())
	case "mtail":
		return optKV(w.om.Tail())
	case "msize":
		return fmt.Sprintf("%d %v", w.om.Size(), w.om.IsEmpty())
	case "mclear":
		w.om.Clear()
		w.omO.clear()

		return w.omDump("OrderedMap.Clear")
	case "mfe", "mfer":
		var out []string
		cb := func(k E, v uint8) bool { out = append(out, fmt.Sprintf("%d:%d", k, v)); return true }
		if f[0] == "mfe" {
			w.om.ForEach(cb)
		} else {
			w.om.ForEachReverse(cb)
		}

		return "[" + strings.Join(out, " ") + "]"
	case "mdump":
		return w.omDump("OrderedMap")
	case "mnil":
		// the methods that guard against a nil receiver
		var nilMap *orderedmap.OrderedMap[E, uint8]
		switch f[1] {
		case "foreach":
			return fmt.Sprint(nilMap.ForEach(func(E, uint8) bool { return false }))
		case "foreachrev":
			return fmt.Sprint(nilMap.ForEachReverse(func(E, uint8) bool { return false }))
		case "size":
			return fmt.Sprint(nilMap.Size())
		case "isempty":
			return fmt.Sprint(nilMap.IsEmpty())
		case "clear":
			nilMap.Clear()

			return "ok"
		case "clone":
			if nilMap.Clone() == nil {
				return "nil"
			}

			return "non-nil"
		}

		return "bad-op"
	case "dictopts":
		fresh := orderedmap.New[E, uint8]()
		ratio, ok1 := dictField(fresh, "opts", "shrinkingThresholdRatio")
		count, ok2 := dictField(fresh, "opts", "shrinkingThresholdCount")
		if !ok1 || !ok2 {
			return "unreadable"
		}

		return fmt.Sprintf("ratio=%v count=%v", ratio, count)
	case "str":
		return rd(num(1)).String()
	case "mfestop":
		// the consumer returns false at its n-th call (n = 0: at the first call, before recording anything)
		n := num(2)
		var out []string
		cb := func(k E, v uint8) bool {
			if n == 0 {
				return false
			}
			out = append(out, fmt.Sprintf("%d:%d", k, v))

			return len(out) < n
		}
		var ret bool
		if f[1] == "fwd" {
			ret = w.om.ForEach(cb)
		} else {
			ret = w.om.ForEachReverse(cb)
		}

		return fmt.Sprintf("[%s] ret=%v", strings.Join(out, " "), ret)
	case "mclone":
		c := w.om.OrderedMap.Clone()
		var out []string
		c.ForEach(func(k E, v uint8) bool { out = append(out, fmt.Sprintf("%d:%d", k, v)); return true })
		got := "[" + strings.Join(out, " ") + "]"
		if got != w.omO.kvs() {
			w.fail("algebra", "OrderedMap.Clone", fmt.Sprintf("Clone iterates %s, original %s", got, w.omO.kvs()))
		}
		// a clone is a copy: neither a new key nor an overwritten value shows in the original
		c.Set(999, 1)
		if hk, hv, hok := w.om.Head(); hok {
			c.Set(hk, hv+1)
			if v, _ := w.om.Get(hk); v != hv {
				w.fail("algebra", "OrderedMap.Clone/aliasing", fmt.Sprintf("overwriting key %d in the clone changed the original's value to %d", hk, v))
			}
			c.Set(hk, hv)
		}
		if w.om.Has(999) || w.om.Size() == c.Size() {
			w.fail("algebra", "OrderedMap.Clone/aliasing", "a key set in the clone shows in the original")
		}
		c.Delete(999)

		return fmt.Sprintf("%s n=%d", got, c.Size())
	case "mwalk":
		// weak iteration: the consumer itself runs writers between two steps of the loop
		visits := parseVisits(f[2:])
		initial := append([]E(nil), w.omO.keys...)
		gone := map[E]bool{}
		var seen []E
		var out []string
		i := 0
		// oracle "iteration-step" (the mathematical definition of iterating a map that changes between the steps): the
		// first entry visited is the first (last) live key; from an entry that is still live — same incarnation — when its
		// consumer returns, the iteration goes on to the key that follows (precedes) it in insertion order at that moment,
		// and ends there if there is none.  So a key deleted while its predecessor is being visited is not visited, a key
		// appended while the last entry is being visited is.  (Nothing is claimed for the steps after an entry that was
		// deleted during its own visit: from there on the iteration may be walking through unlinked entries.)
		fwdDir := f[1] == "fwd"
		type expectation struct {
			known, exists bool
			key           E
		}
		var expect expectation
		expect.known = true
		if len(w.omO.keys) > 0 {
			expect.exists = true
			expect.key = w.omO.keys[0]
			if !fwdDir {
				expect.key = w.omO.keys[len(w.omO.keys)-1]
			}
		}
		stepFail := func(detail string) {
			w.r.Fail("iteration-step", detail, map[string]string{"api": "OrderedMap.ForEach", "oracle": "iteration-step"})
		}
		stopped := false
		cb := func(k E, v uint8) bool {
			out = append(out, fmt.Sprintf("%d:%d", k, v))
			seen = append(seen, k)
			if expect.known && (!expect.exists || expect.key != k) {
				want := "the end of the iteration"
				if expect.exists {
					want = fmt.Sprintf("key %d", expect.key)
				}
				stepFail(fmt.Sprintf("%s visit %d: key %d, but the live key next in insertion order when the iteration advanced was %s (visited so far %v, live keys now %v)", f[1], i, k, want, seen, w.omO.keys))
			}
			if ov, ok := w.omO.vals[k]; expect.known && ok && ov != v {
				stepFail(fmt.Sprintf("%s visit %d: key %d passed with value %d, the live value is %d", f[1], i, k, v, ov))
			}
			incarnation := 0
			if expect.known && expect.exists && expect.key == k {
				incarnation = w.omO.born[k] // the entry being visited is the live entry of k
			}
			vis := visits[i]
			i++
			for _, o := range vis.ops {
				for _, d := range w.mop(o) {
					gone[d] = true
				}
			}
			expect = expectation{}
			if inc, live := w.omO.born[k]; live && inc == incarnation && incarnation != 0 {
				expect.known = true
				expect.key, expect.exists = w.omO.neighbour(k, fwdDir)
			}
			stopped = vis.stop || i >= 200

			return !stopped
		}
		var completed bool
		if fwdDir {
			completed = w.om.ForEach(cb)
		} else {
			completed = w.om.ForEachReverse(cb)
		}
		if completed && !stopped && expect.known && expect.exists {
			stepFail(fmt.Sprintf("%s iteration ended after %v although key %d follows the last visited entry in insertion order (live keys %v)", f[1], seen, expect.key, w.omO.keys))
		}
		if completed {
			// oracle "weak-iteration": every key live throughout is visited exactly once, in (reverse) insertion order
			through := minus(initial, gone)
			if f[1] != "fwd" {
				for a, b := 0, len(through)-1; a < b; a, b = a+1, b-1 {
					through[a], through[b] = through[b], through[a]
				}
			}
			tm := toMap(through)
			var seenThrough []E
			for _, k := range seen {
				if tm[k] {
					seenThrough = append(seenThrough, k)
				}
			}
			if !sameList(seenThrough, through) {
				w.fail("weak-iteration", "OrderedMap.ForEach", fmt.Sprintf("keys live throughout %v, visited (restricted) %v, all visited %v", through, seenThrough, seen))
			}
		}

		return fmt.Sprintf("[%s] ret=%v | %s", strings.Join(out, " "), completed, w.omDump("OrderedMap.ForEach"))
	case "menc":
		b, err := w.om.Encode(w.api)
		if err != nil {
			return "err"
		}
		// oracle "codec-roundtrip": decoding into a fresh map gives the same contents and order, consuming everything
		d := serializableorderedmap.New[E, uint8]()
		n, err := d.Decode(w.api, b)
		var out []string
		d.ForEach(func(k E, v uint8) bool { out = append(out, fmt.Sprintf("%d:%d", k, v)); return true })
		if got := "[" + strings.Join(out, " ") + "]"; err != nil || n != len(b) || got != w.omO.kvs() {
			w.fail("codec-roundtrip", "SerializableOrderedMap.Encode", fmt.Sprintf("Decode(Encode(m)) = %s n=%d/%d err=%v, m = %s", got, n, len(b), err, w.omO.kvs()))
		}

		return hx.Hex(b)
	case "mdec":
		b := hx.UnHex(f[1])
		// oracle "codec-canonical": bytes that decode (into a fresh map) are exactly the encoding of what they decode to
		{
			d := serializableorderedmap.New[E, uint8]()
			if dn, derr := d.Decode(w.api, b); derr == nil {
				if re, eerr := d.Encode(w.api); eerr != nil || dn > len(b) || hx.Hex(re) != hx.Hex(b[:dn]) {
					var out []string
					d.ForEach(func(k E, v uint8) bool { out = append(out, fmt.Sprintf("%d:%d", k, v)); return true })
					w.r.Fail("codec-canonical", fmt.Sprintf("Decode(%s) = %v consuming %d bytes, but Encode of that is %s", hx.Hex(b), out, dn, hx.Hex(re)),
						map[string]string{"api": "SerializableOrderedMap.Decode", "oracle": "codec-canonical", "trigger": decodeTrigger(b, 3)})
				}
			}
		}
		sizeBefore := w.om.Size()
		n, err := w.om.Decode(w.api, b)
		// what the generated inputs reach (C11_codec_decode_into_receiver is about all of these; what a Decode does to the
		// entries the receiver already has is not a clause of the property, so it is compared with the model, not judged)
		switch {
		case sizeBefore == 0 && err == nil:
			w.r.Count("mdec:empty-receiver,ok")
		case sizeBefore == 0:
			w.r.Count("mdec:empty-receiver,err")
		case err == nil:
			w.r.Count("mdec:nonempty-receiver,ok")
		case w.om.Size() != sizeBefore:
			w.r.Count("mdec:nonempty-receiver,err-after-new-keys")
		default:
			w.r.Count("mdec:nonempty-receiver,err")
		}
		// bring the reference in line with whatever was decoded (the reference has no codec)
		w.resyncOM()
		st := fmt.Sprintf("ok %d", n)
		if err != nil {
			st = fmt.Sprintf("err %d", n) // a failed Decode reports 0 bytes read
		}

		return st + " | " + w.omDump("SerializableOrderedMap.Decode")
	// ------------------------------------------------------------------------------------------------------- sets
	case "new":
		w.set[num(1)] = ds.NewSet(parseList(f[2])...)
		w.view[num(1)] = w.set[num(1)].ReadOnly()

		return showList(w.set[num(1)].ToSlice())
	case "add", "del":
		s, e := w.set[num(1)], E(num(2))
		before := s.Has(e)
		var got bool
		if f[0] == "add" {
			got = s.Add(e)
			if got != !before || !s.Has(e) {
				w.fail("prior-presence", "Set.Add", fmt.Sprintf("Add(%d) reported %v, was present %v", e, got, before))
			}
		} else {
			got = s.Delete(e)
			if got != before || s.Has(e) {
				w.fail("prior-presence", "Set.Delete", fmt.Sprintf("Delete(%d) reported %v, was present %v", e, got, before))
			}
		}

		return fmt.Sprintf("%v | %s", got, showList(s.ToSlice()))
	case "has":
		s := rd(num(1))
		got := s.Has(E(num(2)))
		if got != toMap(s.ToSlice())[E(num(2))] {
			w.fail("algebra", "Set.Has", "Has disagrees with ToSlice")
		}

		return fmt.Sprint(got)
	case "size":
		s := rd(num(1))
		if s.Size() != len(s.ToSlice()) {
			w.fail("algebra", "Set.Size", "Size disagrees with ToSlice")
		}

		return fmt.Sprintf("%d %v", s.Size(), s.IsEmpty())
	case "clear":
		w.set[num(1)].Clear()

		return showList(w.set[num(1)].ToSlice())
	case "slice":
		sl := rd(num(1)).ToSlice()
		if !nodup(sl) {
			w.fail("algebra", "Set.ToSlice", fmt.Sprintf("duplicates in %v", sl))
		}

		return showList(sl)
	case "iter":
		var out []E
		it := rd(num(1)).Iterator()
		for it.HasNext() && len(out) < 100 {
			out = append(out, it.Next())
		}
		if !sameList(out, w.set[num(1)].ToSlice()) {
			w.fail("algebra", "Set.Iterator", fmt.Sprintf("iterator %v, ToSlice %v", out, w.set[num(1)].ToSlice()))
		}

		return showList(out)
	case "any":
		s := rd(num(1))
		e, ok := s.Any()
		if ok != !s.IsEmpty() || (ok && !s.Has(e)) {
			w.fail("algebra", "Set.Any", fmt.Sprintf("Any()=(%d,%v) on %v", e, ok, s.ToSlice()))
		}
		if !ok {
			return "none"
		}

		return strconv.Itoa(int(e))
	case "is":
		s := rd(num(1))
		got := s.Is(E(num(2)))
		sl := s.ToSlice()
		if got != (len(sl) == 1 && sl[0] == E(num(2))) {
			w.fail("algebra", "Set.Is", fmt.Sprintf("Is(%d)=%v on %v", num(2), got, sl))
		}

		return fmt.Sprint(got)
	case "addall", "delall", "replace":
		s, o := w.set[num(1)], w.arg(f[2])
		before, other := s.ToSlice(), o.ToSlice()
		var res ds.Set[E]
		var api string
		var wantAfter, wantRes []E
		switch f[0] {
		case "addall":
			api, res = "Set.AddAll", s.AddAll(o)
			wantRes = minus(other, toMap(before))
			wantAfter = append(append([]E(nil), before...), wantRes...)
		case "delall":
			api, res = "Set.DeleteAll", s.DeleteAll(o)
			wantAfter = minus(before, toMap(other))
			wantRes = inter(other, toMap(before))
		case "replace":
			api, res = "Set.Replace", s.Replace(o)
			wantAfter = other
			wantRes = minus(before, toMap(other))
		}
		after := s.ToSlice()
		// oracle "diff-exact": the returned set is exactly the elements whose membership changed
		changed := append(minus(before, toMap(after)), minus(after, toMap(before))...)
		if f[0] == "replace" {
			changed = minus(before, toMap(after)) // Replace returns the removed elements
		}
		if !sameSet(res.ToSlice(), changed) {
			w.fail("diff-exact", api, fmt.Sprintf("%s(%v) on %v returned %v, membership changed for %v (now %v)", api, other, before, res.ToSlice(), changed, after))
		}
		if !sameList(after, wantAfter) || !sameList(res.ToSlice(), wantRes) {
			w.fail("omap-order", api, fmt.Sprintf("%s(%v) on %v: now %v want %v; returned %v want %v", api, other, before, after, wantAfter, res.ToSlice(), wantRes))
		}
		// the returned set is a value of its own: writing to it shows neither in the argument nor in the receiver
		shown := showList(res.ToSlice())
		res.Add(aliasProbe)
		if o.Has(aliasProbe) || s.Has(aliasProbe) {
			w.fail("diff-exact", api+"/aliasing", fmt.Sprintf("an element added to the set returned by %s(%v) on %v shows in the argument (%v) or the receiver (%v)", api, other, before, o.Has(aliasProbe), s.Has(aliasProbe)))
			res.Delete(aliasProbe)
		}

		return shown + " | " + showList(after)
	case "apply", "compute":
		s := w.set[num(1)]
		before := s.ToSlice()
		var applied, requested ds.SetMutations[E]
		var adds, dels []E
		api := "Set.Apply"
		if f[0] == "apply" {
			a, d := w.argSet(f[2]), w.argSet(f[3])
			adds, dels = a.ToSlice(), d.ToSlice()
			requested = ds.NewSetMutations[E]().WithAddedElements(a).WithDeletedElements(d)
			applied = s.Apply(requested)
		} else {
			api = "Set.Compute"
			adds = ds.NewSet(parseList(f[2])...).ToSlice()
			dm := toMap(parseList(f[3]))
			applied = s.Compute(func(rs ds.ReadableSet[E]) ds.SetMutations[E] {
				del := rs.Filter(func(e E) bool { return dm[e] })
				dels = del.ToSlice()
				requested = ds.NewSetMutations(parseList(f[2])...).WithDeletedElements(del)

				return requested
			})
		}
		after := s.ToSlice()
		ra, rd := applied.AddedElements().ToSlice(), applied.DeletedElements().ToSlice()
		// fold law: old ∪ added \ deleted = new
		fold := minus(append(append([]E(nil), before...), minus(ra, toMap(before))...), toMap(rd))
		if !sameSet(fold, after) {
			w.fail("diff-exact", api, fmt.Sprintf("%s(+%v -%v) on %v returned +%v -%v but the set is now %v", api, adds, dels, before, ra, rd, after))
		}
		// exactness: added = not present before; deleted = present after the additions
		wantA := minus(adds, toMap(before))
		wantD := inter(dels, toMap(append(append([]E(nil), before...), adds...)))
		if !sameList(ra, wantA) || !sameList(rd, wantD) {
			w.fail("diff-exact", api, fmt.Sprintf("%s(+%v -%v) on %v returned +%v -%v, want +%v -%v", api, adds, dels, before, ra, rd, wantA, wantD))
		}
		if len(toMap(adds)) == len(minus(adds, toMap(dels))) {
			// no overlap: the returned sets are exactly the membership changes
			if !sameSet(ra, minus(after, toMap(before))) || !sameSet(rd, minus(before, toMap(after))) {
				w.fail("diff-exact", api, fmt.Sprintf("%s(+%v -%v) on %v returned +%v -%v, membership changes +%v -%v", api, adds, dels, before, ra, rd, minus(after, toMap(before)), minus(before, toMap(after))))
			}
		}

		// the returned mutations are a value of their own: what the caller does with the sets it passed in afterwards does not
		// change them (an `apply` that hands its argument back when nothing was filtered out would), and writing to the
		// returned sets shows neither in the requested ones nor in the receiver
		if requested != nil {
			qa, qd := requested.AddedElements(), requested.DeletedElements()
			hadA, hadD := qa.Has(aliasProbe), qd.Has(aliasProbe)
			qa.Add(aliasProbe)
			qd.Add(aliasProbe)
			if applied.AddedElements().Has(aliasProbe) || applied.DeletedElements().Has(aliasProbe) {
				w.fail("diff-exact", api+"/aliasing", fmt.Sprintf("%s(+%v -%v) on %v: an element added to the requested sets after the call shows in the returned mutations", api, adds, dels, before))
			}
			if !hadA {
				qa.Delete(aliasProbe)
			}
			if !hadD {
				qd.Delete(aliasProbe)
			}
			applied.AddedElements().Add(aliasProbe)
			applied.DeletedElements().Add(aliasProbe)
			if qa.Has(aliasProbe) || qd.Has(aliasProbe) || s.Has(aliasProbe) {
				w.fail("diff-exact", api+"/aliasing", fmt.Sprintf("%s(+%v -%v) on %v: an element added to the returned mutations shows in the requested sets or the receiver", api, adds, dels, before))
				qa.Delete(aliasProbe)
				qd.Delete(aliasProbe)
				s.Delete(aliasProbe)
			}
		}

		return fmt.Sprintf("+%s -%s | %s", showList(ra), showList(rd), showList(after))
	case "hasall", "equals", "intersect":
		s, o := rd(num(1)), w.arg(f[2])
		a, b := s.ToSlice(), o.ToSlice()
		switch f[0] {
		case "hasall":
			got := s.HasAll(o)
			if got != (len(minus(b, toMap(a))) == 0) {
				w.fail("algebra", "Set.HasAll", fmt.Sprintf("%v.HasAll(%v)=%v", a, b, got))
			}

			return fmt.Sprint(got)
		case "equals":
			got := s.Equals(o)
			if got != sameSet(a, b) {
				w.fail("algebra", "Set.Equals", fmt.Sprintf("%v.Equals(%v)=%v", a, b, got))
			}

			return fmt.Sprint(got)
		default:
			got := s.Intersect(o).ToSlice()
			if want := inter(a, toMap(b)); !sameList(got, want) {
				w.fail("algebra", "Set.Intersect", fmt.Sprintf("%v ∩ %v = %v", a, b, got))
			}

			return showList(got)
		}
	case "filter":
		s := rd(num(1))
		lm := toMap(parseList(f[2]))
		got := s.Filter(func(e E) bool { return lm[e] }).ToSlice()
		var want []E
		for _, e := range s.ToSlice() {
			if lm[e] {
				want = append(want, e)
			}
		}
		if !sameList(got, want) {
			w.fail("algebra", "Set.Filter", fmt.Sprintf("Filter(%v) of %v = %v", parseList(f[2]), s.ToSlice(), got))
		}

		return showList(got)
	case "clone":
		s := rd(num(1))
		c := s.Clone()
		if !sameList(c.ToSlice(), s.ToSlice()) {
			w.fail("algebra", "Set.Clone", fmt.Sprintf("Clone of %v = %v", s.ToSlice(), c.ToSlice()))
		}
		// a clone is a copy: writing to it must not show in the original (probe element outside the universe, removed again)
		c.Add(999)
		if s.Has(999) || s.Size() == c.Size() {
			w.fail("algebra", "Set.Clone/aliasing", fmt.Sprintf("an element added to the clone of %v shows in the original", s.ToSlice()))
		}
		c.Delete(999)
		w.set[num(2)] = c
		w.view[num(2)] = c.ReadOnly()

		return showList(c.ToSlice())
	case "enc":
		s := rd(num(1))
		b, err := s.Encode(w.api)
		if err != nil {
			return "err"
		}
		d := ds.NewSet[E]()
		n, err := d.Decode(w.api, b)
		if err != nil || n != len(b) || !sameList(d.ToSlice(), s.ToSlice()) {
			w.fail("codec-roundtrip", "Set.Encode", fmt.Sprintf("Decode(Encode(%v)) = %v n=%d/%d err=%v", s.ToSlice(), d.ToSlice(), n, len(b), err))
		}

		return hx.Hex(b)
	case "dec":
		s := w.set[num(1)]
		{
			b := hx.UnHex(f[2])
			d := ds.NewSet[E]()
			if dn, derr := d.Decode(w.api, b); derr == nil {
				if re, eerr := d.Encode(w.api); eerr != nil || dn > len(b) || hx.Hex(re) != hx.Hex(b[:dn]) {
					w.r.Fail("codec-canonical", fmt.Sprintf("Decode(%s) = %v consuming %d bytes, but Encode of that is %s", hx.Hex(b), d.ToSlice(), dn, hx.Hex(re)),
						map[string]string{"api": "Set.Decode", "oracle": "codec-canonical", "trigger": decodeTrigger(b, 2)})
				}
			}
		}
		n, err := s.Decode(w.api, hx.UnHex(f[2]))
		st := fmt.Sprintf("ok %d", n)
		if err != nil {
			st = fmt.Sprintf("err %d", n)
		}

		return st + " | " + showList(s.ToSlice())
	// ------------------------------------------------------------------------------------------------ arithmetic
	case "arnew":
		w.ar, w.arO = ds.NewSetArithmetic[E](), map[E]int{}
		w.arc0 = nil

		return "ok"
	case "arcnew":
		var targs []int
		targs, w.arcThr = thrArgs(f[1])
		w.r.Count(fmt.Sprintf("threshold:args=%d,%s", len(targs), thrClass(w.arcThr)))
		w.arcM = ds.NewSetMutations[E]()
		w.arcAdd = w.ar.AddedElementsCollector(w.arcM, targs...)
		w.arcSub = w.ar.SubtractedElementsCollector(w.arcM, targs...)
		w.arc0 = map[E]int{}
		for k, v := range w.arO {
			w.arc0[k] = v
		}

		return "ok"
	case "arc":
		if w.arcM == nil {
			return "bad-op"
		}
		e := E(num(2))
		if f[1] == "+" {
			w.arcAdd(e)
			w.arO[e]++
		} else {
			w.arcSub(e)
			w.arO[e]--
		}
		ra, rd := w.arcM.AddedElements().ToSlice(), w.arcM.DeletedElements().ToSlice()
		if w.arc0 != nil {
			// oracle "arith-threshold": after every collector call the object holds exactly the changes of the threshold set
			var up, down []E
			for x := E(0); x < universe; x++ {
				was, now := w.arc0[x] >= w.arcThr, w.arO[x] >= w.arcThr
				if now && !was {
					up = append(up, x)
				}
				if !now && was {
					down = append(down, x)
				}
			}
			if !sameSet(ra, up) || !sameSet(rd, down) {
				w.fail("arith-threshold", "SetArithmetic.elementsCollector",
					fmt.Sprintf("after collector call %s%d (thr %d): collected +%v -%v, threshold set changed by +%v -%v (counts then %v, now %v)", f[1], e, w.arcThr, ra, rd, up, down, w.arc0, w.arO))
			}
		}

		return fmt.Sprintf("+%s -%s", showList(ra), showList(rd))
	case "aradd", "arsub":
		a, d := ds.NewSet(parseList(f[1])...), ds.NewSet(parseList(f[2])...)
		targs, thr := thrArgs(f[3])
		w.r.Count(fmt.Sprintf("threshold:args=%d,%s", len(targs), thrClass(thr)))
		old := map[E]bool{}
		for e := E(0); e < universe; e++ {
			old[e] = w.arO[e] >= thr
		}
		var m ds.SetMutations[E]
		sign := 1
		if f[0] == "aradd" {
			m = w.ar.Add(ds.NewSetMutations[E]().WithAddedElements(a).WithDeletedElements(d), targs...)
		} else {
			sign = -1
			m = w.ar.Subtract(ds.NewSetMutations[E]().WithAddedElements(a).WithDeletedElements(d), targs...)
		}
		w.arc0 = nil // the counts now change outside the collector session: its oracle no longer applies
		for _, e := range a.ToSlice() {
			w.arO[e] += sign
		}
		for _, e := range d.ToSlice() {
			w.arO[e] -= sign
		}
		// oracle "arith-threshold": net mutations = changes of {x | count x >= threshold}
		var up, down []E
		for e := E(0); e < universe; e++ {
			now := w.arO[e] >= thr
			if now && !old[e] {
				up = append(up, e)
			}
			if !now && old[e] {
				down = append(down, e)
			}
		}
		ra, rd := m.AddedElements().ToSlice(), m.DeletedElements().ToSlice()
		if !sameSet(ra, up) || !sameSet(rd, down) {
			w.fail("arith-threshold", "SetArithmetic."+map[string]string{"aradd": "Add", "arsub": "Subtract"}[f[0]],
				fmt.Sprintf("%s(+%v -%v, thr %d) returned +%v -%v, threshold set changed by +%v -%v", f[0], a.ToSlice(), d.ToSlice(), thr, ra, rd, up, down))
		}

		return fmt.Sprintf("+%s -%s", showList(ra), showList(rd))
	case "wenc":
		l := parseBig(f[2])
		switch f[1] {
		case "u8":
			return wenc(w, "uint8", l, func(x uint64) uint8 { return uint8(x) })
		case "i8":
			return wenc(w, "int8", l, func(x uint64) int8 { return int8(uint8(x)) })
		case "bool":
			return wenc(w, "bool", l, func(x uint64) bool { return x != 0 })
		case "u16":
			return wenc(w, "uint16", l, func(x uint64) uint16 { return uint16(x) })
		case "u32":
			return wenc(w, "uint32", l, func(x uint64) uint32 { return uint32(x) })
		case "u64":
			return wenc(w, "uint64", l, func(x uint64) uint64 { return x })
		}

		return "bad-op"
	case "wbig":
		// a large set 0..n-1 of four- or eight-byte elements: the entry count needs more than 16 bits
		n, _ := strconv.Atoi(f[2])
		switch f[1] {
		case "u32":
			return wbig(w, "uint32", n, func(x uint64) uint32 { return uint32(x) })
		case "u64":
			return wbig(w, "uint64", n, func(x uint64) uint64 { return x })
		}

		return "bad-op"
	case "codec":
		return "ok"
	case "tnew", "tset", "tdel", "tenc", "tdec":
		return w.typedOp(f)
	case "mforced":
		return w.mforced(f[1], num(2))
	case "alias":
		return w.alias(f[1], num(2))
	case "cross":
		return w.cross(f[1], num(2))
	case "forced":
		return w.forced(f[1], f[2])
	case "overlap":
		return w.overlap(f[1], num(2))
	case "inside":
		return w.inside(f[1], f[2])
	case "race":
		return w.race(f[1], num(2))
	case "pairs":
		return w.pairs(num(1))
	case "stress":
		seed, _ := strconv.ParseUint(f[4], 10, 64)

		return w.stress(f[1], num(2), num(3), seed)
	case "lin", "quiesce":
		// a recorded history: nothing to execute, the driver decides
		return "accept"
	case "lockscript":
		return lockScriptAnswer(f[1], f[2:])
	}

	return "bad-op"
}

func parseBig(s string) []uint64 {
	if s == "-" || s == "" {
		return nil
	}
	var out []uint64
	for _, p := range strings.Split(s, ",") {
		n, err := strconv.ParseUint(p, 10, 64)
		if err != nil {
			panic("bad list " + s)
		}
		out = append(out, n)
	}

	return out
}

// wenc: a ds.Set of another element type (one-byte elements with zero-byte values up to eight-byte elements) is encoded and
// decoded into a fresh set.  Oracle "codec-roundtrip": Decode succeeds, consumes everything, same elements in the same order.
func wenc[T comparable](w *world, name string, l []uint64, conv func(uint64) T) string {
	elems := make([]T, 0, len(l))
	for _, x := range l {
		elems = append(elems, conv(x))
	}
	s := ds.NewSet(elems...)
	w.r.Count(fmt.Sprintf("codec-width:%s,size=%s", name, map[bool]string{true: "many", false: strconv.Itoa(s.Size())}[s.Size() > 2]))
	b, err := s.Encode(w.api)
	if err != nil {
		return "err"
	}
	d := ds.NewSet[T]()
	n, derr := d.Decode(w.api, b)
	if derr != nil || n != len(b) || !reflect.DeepEqual(d.ToSlice(), s.ToSlice()) {
		w.r.Fail("codec-roundtrip", fmt.Sprintf("Set[%s]: Decode(Encode(%v)) = %v n=%d/%d err=%v (encoding %s)", name, s.ToSlice(), d.ToSlice(), n, len(b), derr, hx.Hex(b)),
			map[string]string{"api": "Set.Encode/" + name, "oracle": "codec-roundtrip"})
	}
	// the same through the map type itself with a one-byte value
	om := serializableorderedmap.New[T, uint8]()
	for i, e := range s.ToSlice() {
		om.Set(e, uint8(i))
	}
	if mb, merr := om.Encode(w.api); merr == nil {
		dm := serializableorderedmap.New[T, uint8]()
		mn, mderr := dm.Decode(w.api, mb)
		same := mderr == nil && mn == len(mb) && dm.Size() == om.Size()
		i := 0
		dm.ForEach(func(k T, v uint8) bool {
			same = same && i < len(elems) && k == s.ToSlice()[i] && v == uint8(i)
			i++

			return true
		})
		if !same {
			w.r.Fail("codec-roundtrip", fmt.Sprintf("SerializableOrderedMap[%s,uint8]: Decode(Encode(m)) differs: n=%d/%d err=%v (encoding %s)", name, mn, len(mb), mderr, hx.Hex(mb)),
				map[string]string{"api": "SerializableOrderedMap.Encode/" + name, "oracle": "codec-roundtrip"})
		}
	}
	st := fmt.Sprintf("ok %d", n)
	if derr != nil {
		st = fmt.Sprintf("err %d", n)
	}
	var shown []string
	for _, e := range d.ToSlice() {
		shown = append(shown, showElem(e))
	}

	return hx.Hex(b) + " | " + st + " [" + strings.Join(shown, " ") + "]"
}

// wbig: Encode and Decode of a set with n elements 0..n-1 (n around 2^16: the count prefix must not be narrower than the
// uint32 the model has).  Oracle "codec-roundtrip" as in wenc, on the set and on the map type with one-byte values.  The answer
// line summarises the encoding (length, count prefix, byte sum) instead of printing 260 KiB of hex.
func wbig[T comparable](w *world, name string, n int, conv func(uint64) T) string {
	elems := make([]T, 0, n)
	for i := 0; i < n; i++ {
		elems = append(elems, conv(uint64(i)))
	}
	s := ds.NewSet(elems...)
	w.r.Count("codec-big:" + name + ",size=" + strconv.Itoa(n))
	b, err := s.Encode(w.api)
	if err != nil {
		return "err"
	}
	d := ds.NewSet[T]()
	dn, derr := d.Decode(w.api, b)
	if derr != nil || dn != len(b) || d.Size() != n || !reflect.DeepEqual(d.ToSlice(), s.ToSlice()) {
		w.r.Fail("codec-roundtrip", fmt.Sprintf("Set[%s] with %d elements: Decode(Encode(s)) has %d elements, consumed %d of %d bytes, err=%v (count prefix %s)", name, n, d.Size(), dn, len(b), derr, hx.Hex(b[:min(4, len(b))])),
			map[string]string{"api": "Set.Encode/" + name, "oracle": "codec-roundtrip", "size": "big"})
	}
	om := serializableorderedmap.New[T, uint8]()
	for i, e := range elems {
		om.Set(e, uint8(i))
	}
	if mb, merr := om.Encode(w.api); merr == nil {
		dm := serializableorderedmap.New[T, uint8]()
		mn, mderr := dm.Decode(w.api, mb)
		same := mderr == nil && mn == len(mb) && dm.Size() == n
		i := 0
		dm.ForEach(func(k T, v uint8) bool {
			same = same && i < n && k == elems[i] && v == uint8(i)
			i++

			return true
		})
		if !same || i != n {
			w.r.Fail("codec-roundtrip", fmt.Sprintf("SerializableOrderedMap[%s,uint8] with %d entries: Decode(Encode(m)) has %d entries, consumed %d of %d bytes, err=%v", name, n, dm.Size(), mn, len(mb), mderr),
				map[string]string{"api": "SerializableOrderedMap.Encode/" + name, "oracle": "codec-roundtrip", "size": "big"})
		}
	}
	var sum uint32
	for _, x := range b {
		sum += uint32(x)
	}

	return fmt.Sprintf("%d %s %d", len(b), hx.Hex(b[:min(4, len(b))]), sum)
}

// showElem prints an element as the unsigned number of its bit pattern (what the Lean model calls the element).
func showElem(e any) string {
	switch x := e.(type) {
	case uint8:
		return strconv.Itoa(int(x))
	case int8:
		return strconv.Itoa(int(uint8(x)))
	case bool:
		if x {
			return "1"
		}

		return "0"
	case uint16:
		return strconv.Itoa(int(x))
	case uint32:
		return strconv.FormatUint(uint64(x), 10)
	case uint64:
		return strconv.FormatUint(x, 10)
	}

	return "?"
}

// genWidth: sets of 0, 1, 2 or many elements of every width.
func genWidth(rng *hx.Rng) string {
	t := hx.Pick(rng, []string{"u8", "u8", "i8", "bool", "u16", "u32", "u64"})
	bits := map[string]uint{"u8": 8, "i8": 8, "bool": 1, "u16": 16, "u32": 32, "u64": 64}[t]
	n := []int{0, 1, 1, 2, 2, rng.Range(3, 40)}[rng.Intn(6)]
	seen := map[uint64]bool{}
	var parts []string
	for tries := 0; len(parts) < n && tries < 200; tries++ {
		x := rng.U64()
		if rng.Chance(1, 2) {
			x &= 0xff // small values: the high bytes are zero
		}
		if bits < 64 {
			x &= (uint64(1) << bits) - 1
		}
		if seen[x] {
			continue
		}
		seen[x] = true
		parts = append(parts, strconv.FormatUint(x, 10))
	}
	if len(parts) == 0 {
		return "wenc " + t + " -"
	}

	return "wenc " + t + " " + strings.Join(parts, ",")
}

func thrClass(t int) string {
	switch {
	case t < 0:
		return "negative"
	case t == 0:
		return "zero"
	case t <= 3:
		return "small"
	}

	return "large"
}

// resyncOM rebuilds the plain reference of the ordered-map object from the real one (after Decode).  What Decode does
// to entries the receiver already had is not part of the property (the code Sets into the receiver without clearing
// it; the Lean model mirrors that and the correspondence compares it), so no oracle is evaluated here.
func (w *world) resyncOM() {
	seen := newOModel()
	w.om.ForEach(func(k E, v uint8) bool { seen.set(k, v); return true })
	w.omO = seen
}

// ---------------------------------------------------------------------------------------------------------------------
// generation

func genList(rng *hx.Rng, maxLen int) []E {
	n := rng.Intn(maxLen + 1)
	perm := []E{0, 1, 2, 3, 4, 5}
	for i := len(perm) - 1; i > 0; i-- {
		j := rng.Intn(i + 1)
		perm[i], perm[j] = perm[j], perm[i]
	}
	if n > universe {
		n = universe
	}

	return perm[:n]
}

func genArg(rng *hx.Rng, self int) string {
	if rng.Chance(1, 10) {
		// aliasing: the receiver itself is the argument
		return fmt.Sprintf("@%d", self)
	}
	if rng.Chance(1, 3) {
		j := rng.Intn(nRegs)
		if j == self {
			j = (j + 1) % nRegs
		}

		return fmt.Sprintf("@%d", j)
	}

	return commaList(genList(rng, 4))
}

// genArgRO: an argument of type ReadableSet — additionally the ReadOnly() view of a register (of the receiver itself, too)
// and NewReadableSet literals.
func genArgRO(rng *hx.Rng, self int) string {
	switch rng.Intn(12) {
	case 0:
		return fmt.Sprintf("~%d", self)
	case 1:
		return fmt.Sprintf("~%d", rng.Intn(nRegs))
	case 2:
		return "ro:" + commaList(genList(rng, 4))
	}

	return genArg(rng, self)
}

// genThr: the variadic threshold — usually 1..3, sometimes omitted, zero, negative, large or given twice.
func genThr(rng *hx.Rng) string {
	switch rng.Intn(12) {
	case 0:
		return "_"
	case 1:
		return "0"
	case 2:
		return fmt.Sprint(-rng.Range(1, 2))
	case 3:
		return fmt.Sprintf("%d,%d", rng.Range(1, 3), rng.Range(0, 5))
	case 4:
		return fmt.Sprint(rng.Range(4, 6))
	}

	return fmt.Sprint(rng.Range(1, 3))
}

// roPrefix: a read method is called on the set itself or (1 in 5) on its ReadOnly() view.
func roPrefix(rng *hx.Rng) string {
	if rng.Chance(1, 5) {
		return "ro."
	}

	return ""
}

// genChurn: a long history of mostly Set/Delete on up to 12 keys with few Clears: the dictionary's deletedKeys counter
// passes the shrinking thresholds (100 deletions and 10x the size) and the hash index is rebuilt, several times.
func genChurn(rng *hx.Rng) []string {
	u := rng.Range(3, churnUniverse)
	n := rng.Range(300, 700)
	live := map[int]bool{}
	var ops []string
	for i := 0; i < n; i++ {
		k := rng.Intn(u)
		switch x := rng.Intn(900); {
		case x < 405:
			for try := 0; try < 2 && live[k]; try++ {
				k = rng.Intn(u)
			}
			live[k] = true
			ops = append(ops, fmt.Sprintf("mset %d %d", k, rng.Intn(10)))
		case x < 810:
			for try := 0; try < 3 && !live[k]; try++ {
				k = rng.Intn(u)
			}
			delete(live, k)
			ops = append(ops, fmt.Sprintf("mdel %d", k))
		case x < 811:
			live = map[int]bool{}
			ops = append(ops, "mclear")
		case x < 840:
			ops = append(ops, fmt.Sprintf("mwalk %s 0:d%d 1:d%d,s%d.%d 2:d%d", hx.Pick(rng, []string{"fwd", "rev"}), rng.Intn(u), rng.Intn(u), rng.Intn(u), rng.Intn(10), rng.Intn(u)))
			live = map[int]bool{} // unknown now: deletions are tried on any key
		case x < 855:
			ops = append(ops, hx.Pick(rng, []string{"mclone", "menc", "mfer", "mhead", "mtail"}))
		case x < 879:
			ops = append(ops, fmt.Sprintf("mget %d", k))
		default:
			ops = append(ops, fmt.Sprintf("mhas %d", k))
		}
	}

	return ops
}

// genWalkTargeted: a map with a known order, then one iteration whose consumer deletes the next / previous / current
// entry (in iteration direction), re-inserts a deleted key or appends a new key — in particular while the last entry is
// being visited.
func genWalkTargeted(rng *hx.Rng) []string {
	ops := []string{"mclear"}
	n := rng.Range(1, 5)
	order := genList(rng, universe)
	for len(order) < n {
		order = genList(rng, universe)
	}
	order = order[:n]
	for _, k := range order {
		ops = append(ops, fmt.Sprintf("mset %d %d", k, rng.Intn(10)))
	}
	fwd := rng.Chance(2, 3)
	seq := append([]E(nil), order...)
	if !fwd {
		for a, b := 0, len(seq)-1; a < b; a, b = a+1, b-1 {
			seq[a], seq[b] = seq[b], seq[a]
		}
	}
	var toks []string
	for i := 0; i < n; i++ {
		if !rng.Chance(1, 2) && i != n-1 {
			continue
		}
		var vops []string
		for j := rng.Range(1, 2); j > 0; j-- {
			switch x := rng.Intn(10); {
			case x < 3 && i+1 < n:
				vops = append(vops, fmt.Sprintf("d%d", seq[i+1])) // the entry the iteration would come to next
			case x < 4 && i+2 < n:
				vops = append(vops, fmt.Sprintf("d%d", seq[i+2]))
			case x < 5 && i > 0:
				vops = append(vops, fmt.Sprintf("d%d", seq[i-1])) // an entry already visited
			case x < 6:
				vops = append(vops, fmt.Sprintf("d%d", seq[i])) // the entry being visited
			case x < 8:
				vops = append(vops, fmt.Sprintf("s%d.%d", 6+rng.Intn(3), rng.Intn(10))) // a new key: appended at the tail
			default:
				vops = append(vops, fmt.Sprintf("s%d.%d", seq[rng.Intn(n)], rng.Intn(10))) // overwrite or re-insert
			}
		}
		toks = append(toks, fmt.Sprintf("%d:%s", i, strings.Join(vops, ",")))
	}
	dir := "fwd"
	if !fwd {
		dir = "rev"
	}

	return append(ops, strings.TrimSpace("mwalk "+dir+" "+strings.Join(toks, " ")), "mdump")
}

func genVisits(rng *hx.Rng) string {
	var toks []string
	for i := 0; i < 7; i++ {
		if !rng.Chance(2, 5) {
			continue
		}
		var ops []string
		for j := rng.Range(1, 3); j > 0; j-- {
			switch x := rng.Intn(20); {
			case x < 10:
				ops = append(ops, fmt.Sprintf("d%d", rng.Intn(universe)))
			case x < 18:
				ops = append(ops, fmt.Sprintf("s%d.%d", rng.Intn(universe), rng.Intn(10)))
			case x < 19:
				ops = append(ops, "c")
			default:
				ops = append(ops, "x")
			}
		}
		toks = append(toks, fmt.Sprintf("%d:%s", i, strings.Join(ops, ",")))
	}

	return strings.Join(toks, " ")
}

func encodeLit(l []E, withVal bool, rng *hx.Rng) []byte {
	b := []byte{byte(len(l)), 0, 0, 0}
	for _, e := range l {
		b = append(b, byte(e), 0)
		if withVal {
			b = append(b, byte(rng.Intn(10)))
		}
	}

	return b
}

// decodeTrigger classifies accepted bytes: "duplicate-key" if two of the first `count` entries carry the same key.
func decodeTrigger(b []byte, entryLen int) string {
	if len(b) < 4 {
		return "other"
	}
	count := int(b[0]) | int(b[1])<<8 | int(b[2])<<16 | int(b[3])<<24
	seen := map[int]bool{}
	for i := 0; i < count && 4+(i+1)*entryLen <= len(b); i++ {
		k := int(b[4+i*entryLen]) | int(b[4+i*entryLen+1])<<8
		if seen[k] {
			return "duplicate-key"
		}
		seen[k] = true
	}

	return "other"
}

func mangle(rng *hx.Rng, b []byte) []byte {
	switch rng.Intn(10) {
	case 5:
		// repeat the first entry at the end (duplicate key), count adjusted
		if len(b) > 4 && b[0] > 0 {
			el := (len(b) - 4) / int(b[0])
			c := append(append([]byte(nil), b...), b[4:4+el]...)
			c[0]++
			if el == 3 {
				c[len(c)-1] = byte(rng.Intn(10)) // another value for the same key
			}

			return c
		}
	case 0, 1:
		return b[:rng.Intn(len(b)+1)] // truncated
	case 2:
		return append(b, byte(rng.Intn(256)), byte(rng.Intn(256))) // trailing bytes
	case 3:
		c := append([]byte(nil), b...)
		c[0] = byte(rng.Intn(8)) // wrong count

		return c
	case 4:
		c := append([]byte(nil), b...)
		c[3] = 0xff // hostile count

		return c
	}

	return b
}

func genCase(rng *hx.Rng, n int) []string {
	var ops []string
	for i := 0; i < n; i++ {
		r := rng.Intn(nRegs)
		if rng.Chance(2, 3) {
			r = rng.Intn(2) // concentrate on two registers so that histories get deep
		}
		e := rng.Intn(universe)
		switch x := rng.Intn(1000); {
		// ordered map
		case x < 110:
			ops = append(ops, fmt.Sprintf("mset %d %d", e, rng.Intn(10)))
		case x < 170:
			ops = append(ops, fmt.Sprintf("mdel %d", e))
		case x < 185:
			ops = append(ops, fmt.Sprintf("mget %d", e))
		case x < 195:
			ops = append(ops, fmt.Sprintf("mhas %d", e))
		case x < 205:
			ops = append(ops, hx.Pick(rng, []string{"mhead", "mtail", "msize", "mfe", "mfer", "mdump",
				"mnil " + hx.Pick(rng, []string{"foreach", "foreachrev", "size", "isempty", "clear", "clone"})}))
		case x < 212:
			ops = append(ops, "mclear")
		case x < 225:
			ops = append(ops, fmt.Sprintf("mfestop %s %d", hx.Pick(rng, []string{"fwd", "rev"}), rng.Intn(5)))
		case x < 235:
			ops = append(ops, "mclone")
		case x < 300:
			ops = append(ops, strings.TrimSpace(fmt.Sprintf("mwalk %s %s", hx.Pick(rng, []string{"fwd", "fwd", "rev"}), genVisits(rng))))
		case x < 315:
			ops = append(ops, "menc")
		case x < 335:
			ops = append(ops, "mdec "+hx.Hex(mangle(rng, encodeLit(genList(rng, 4), true, rng))))
		// sets
		case x < 430:
			ops = append(ops, fmt.Sprintf("add %d %d", r, e))
		case x < 490:
			ops = append(ops, fmt.Sprintf("del %d %d", r, e))
		case x < 510:
			ops = append(ops, fmt.Sprintf("%shas %d %d", roPrefix(rng), r, e))
		case x < 525:
			ops = append(ops, fmt.Sprintf("%s%s %d", roPrefix(rng), hx.Pick(rng, []string{"size", "slice", "iter", "any", "str"}), r))
		case x < 530:
			ops = append(ops, fmt.Sprintf("clear %d", r))
		case x < 545:
			ops = append(ops, fmt.Sprintf("%sis %d %d", roPrefix(rng), r, e))
		case x < 560:
			ops = append(ops, fmt.Sprintf("new %d %s", r, commaList(genList(rng, 5))))
		case x < 610:
			ops = append(ops, fmt.Sprintf("addall %d %s", r, genArgRO(rng, r)))
		case x < 660:
			ops = append(ops, fmt.Sprintf("delall %d %s", r, genArgRO(rng, r)))
		case x < 710:
			ops = append(ops, fmt.Sprintf("replace %d %s", r, genArgRO(rng, r)))
		case x < 770:
			a, d := genArg(rng, r), genArg(rng, r)
			if d == fmt.Sprintf("@%d", r) && a != d {
				// deleted elements aliased to the receiver: only with no additions (or the same aliased additions), otherwise
				// "the elements to delete" would change while the additions are applied
				a = "-"
			}
			ops = append(ops, fmt.Sprintf("apply %d %s %s", r, a, d))
		case x < 810:
			ops = append(ops, fmt.Sprintf("compute %d %s %s", r, commaList(genList(rng, 3)), commaList(genList(rng, 4))))
		case x < 830:
			ops = append(ops, fmt.Sprintf("%shasall %d %s", roPrefix(rng), r, genArgRO(rng, r)))
		case x < 855:
			ops = append(ops, fmt.Sprintf("%sequals %d %s", roPrefix(rng), r, genArgRO(rng, r)))
		case x < 875:
			ops = append(ops, fmt.Sprintf("%sintersect %d %s", roPrefix(rng), r, genArgRO(rng, r)))
		case x < 890:
			ops = append(ops, fmt.Sprintf("%sfilter %d %s", roPrefix(rng), r, commaList(genList(rng, 4))))
		case x < 905:
			ops = append(ops, fmt.Sprintf("%sclone %d %d", roPrefix(rng), r, (r+1+rng.Intn(nRegs-1))%nRegs))
		case x < 920:
			ops = append(ops, fmt.Sprintf("%senc %d", roPrefix(rng), r))
		case x < 940:
			ops = append(ops, fmt.Sprintf("dec %d %s", r, hx.Hex(mangle(rng, encodeLit(genList(rng, 4), false, rng)))))
		// arithmetic
		case x < 945:
			ops = append(ops, "arnew")
		case x < 975:
			ops = append(ops, fmt.Sprintf("aradd %s %s %s", commaList(genList(rng, 3)), commaList(genList(rng, 3)), genThr(rng)))
		default:
			ops = append(ops, fmt.Sprintf("arsub %s %s %s", commaList(genList(rng, 3)), commaList(genList(rng, 3)), genThr(rng)))
		}
	}

	return ops
}

// genCollectors: one SetMutations object fed by the collector functions with repeated elements of a 3-element universe,
// so that counts pass the threshold in both directions several times.
func genCollectors(rng *hx.Rng) []string {
	ops := []string{"arcnew " + genThr(rng)}
	bias := rng.Range(3, 7) // out of 10: probability of an added-collector call
	for i := rng.Range(8, 24); i > 0; i-- {
		if i%7 == 0 {
			bias = 10 - bias // swing the counts back through the threshold
		}
		sign := "-"
		if rng.Intn(10) < bias {
			sign = "+"
		}
		ops = append(ops, fmt.Sprintf("arc %s %d", sign, rng.Intn(3)))
	}

	return ops
}

func runCase(r *hx.Run, sub uint64, ops []string) {
	r.Case(sub)
	w := newWorld(r)
	kinds := map[string]bool{}
	changes := 0
	lastDk, shrinks := 0, 0
	for _, op := range ops {
		if op == "" {
			continue
		}
		ans := w.exec(op)
		w.emit(op, ans)
		k := strings.Fields(op)[0]
		kinds[k] = true
		r.Count("op:" + k)
		if i := strings.LastIndex(ans, " dk="); i >= 0 {
			dk, _ := strconv.Atoi(ans[i+4:])
			if k == "mdel" && strings.HasPrefix(ans, "true") && dk == 0 && lastDk > 0 {
				shrinks++
				r.Count("dict:rebuilt")
			}
			lastDk = dk
		}
		if strings.Contains(ans, "true") || strings.Contains(ans, "+[") && !strings.HasPrefix(ans, "+[] -[]") {
			changes++
		}
		if strings.HasPrefix(ans, "err") || ans == "panic" || ans == "hung" {
			r.Count("ans:" + strings.Fields(ans)[0])
		}
	}
	r.Count(fmt.Sprintf("dict:rebuilds-per-case=%d", shrinks))
	if len(kinds) >= 5 && changes >= 3 {
		h := sha256.Sum256([]byte(strings.Join(ops, "\n")))
		r.Nontrivial(string(h[:8]))
	}
	r.Sample(r.CaseLines())
}

// emit prints the request/answer pair plus the follow-up lines a concurrent scenario recorded.
func (w *world) emit(op, ans string) {
	w.r.Line(op, ans)
	for _, l := range pendingLines {
		w.r.Line(l, "accept")
	}
	pendingLines = nil
}

var pendingLines []string

func main() {
	r := hx.Start()
	r.Rule = "random histories (40 ops) over a universe of 6 elements on one ordered map (Set/Get/Has/Delete/Clear/Head/Tail/" +
		"ForEach/ForEachReverse/early stop/Clone/weak iteration with writers inside the consumer/Encode/Decode), four ds.Set registers " +
		"(every Set method incl. Apply/Compute/Replace/AddAll/DeleteAll/algebra/Encode/Decode) and one SetArithmetic; " +
		"forced DeleteAll/AddAll-vs-pending-writer schedules; stress histories checked for linearizability by the Lean driver; " +
		"non-trivial = sequential case with >=5 op kinds and >=3 state changes (distinct by sha256 of the op lines), " +
		"or a concurrent history with >=2 overlapping calls (distinct by its text)"
	go seqWatchdog(r)
	if lines := r.ReplayLines(); lines != nil {
		runCase(r, 0, lines)
		r.Finish()

		return
	}
	for _, c := range corpus {
		runCase(r, 0, c)
	}
	for _, c := range typedCorpus() {
		runCase(r, 0, c)
	}
	// lock skeletons of the working tree
	runCase(r, 0, lockScriptOps())
	n := 5000 * r.Scale
	for i := 0; i < n; i++ {
		rng, sub := r.Rng.Fork()
		ops := genCase(rng, 40)
		if rng.Chance(1, 3) {
			ops = append(ops, genTyped(rng)...)
		}
		if rng.Chance(1, 2) {
			ops = append(ops, genCollectors(rng)...)
		}
		if rng.Chance(1, 2) {
			ops = append(ops, genWalkTargeted(rng)...)
		}
		if rng.Chance(1, 3) {
			ops = append(ops, genWidth(rng))
		}
		runCase(r, sub, ops)
	}
	// long delete-heavy histories: the dictionary is rebuilt (ShrinkingMap.shrink) under the ordered map
	for i := 0; i < 40*r.Scale; i++ {
		rng, sub := r.Rng.Fork()
		runCase(r, sub, genChurn(rng))
	}
	runConcurrent(r)
	r.Finish()
}

// corpus: hand-written histories for the known corners (run first)
var corpus = [][]string{
	// Replace must return the removed elements only
	{"new 0 1,2,3", "replace 0 3,4", "slice 0", "replace 0 -", "replace 0 5,1", "replace 0 1,5"},
	// re-Set keeps the position, delete + reinsert moves to the end
	{"mset 1 1", "mset 2 2", "mset 3 3", "mset 1 9", "mfe", "mdel 1", "mset 1 4", "mfe", "mfer", "mhead", "mtail"},
	// iteration through unlinked elements
	{"mset 0 0", "mset 1 1", "mset 2 2", "mset 3 3", "mset 4 4", "mwalk fwd 1:d1,d2,s1.5", "mwalk rev 0:d1,d4 1:s4.4,x", "mwalk fwd 0:c,s5.5"},
	{"mset 0 0", "mset 1 1", "mset 2 2", "mwalk fwd 0:d0 1:d1 2:d2", "mset 3 3", "mwalk rev 0:d3,s3.1"},
	// the consumer deletes the entry that would come next / appends while the last entry is visited / deletes behind itself
	{"mset 0 0", "mset 1 1", "mset 2 2", "mwalk fwd 0:d1", "mset 1 1", "mwalk rev 0:d2", "mwalk fwd 2:s5.5", "mwalk rev 2:s4.4 1:d5",
		"mwalk fwd 1:d0,d2", "mclear", "mset 3 3", "mwalk fwd 0:s4.4 1:s5.5 2:d3", "mwalk rev 0:d4,s4.1"},
	// overlapping mutations: added then deleted
	{"new 0 1,2", "apply 0 2,3,4 4,1,5", "apply 0 1 1", "compute 0 0,1 1,2,3"},
	// DeleteAll / AddAll
	{"new 0 0,1,2,3", "new 1 2,5,0", "delall 0 @1", "addall 0 @1", "delall 0 -", "addall 1 4,4"},
	// codec
	{"new 0 3,1,2", "enc 0", "dec 1 03000000030001000200", "dec 1 0200000005000100", "dec 1 03000000030001", "dec 2 ffffffff0100", "dec 2 -", "dec 2 0000"},
	{"mset 3 7", "mset 1 2", "menc", "mdec 0200000001000903000a", "mdec 01000000", "mdec 0100000004"},
	// one-byte elements with zero-byte values, sizes 0, 1, 2, many; wider elements
	{"wenc u8 -", "wenc u8 7", "wenc u8 200,7", "wenc u8 1,2,3,4,5,6,7,8,9,10,11,12", "wenc i8 255", "wenc i8 128,127,0", "wenc bool 1", "wenc bool 0,1",
		"wenc u16 513", "wenc u32 4294967295,1", "wenc u64 18446744073709551615", "wenc u64 9223372036854775813,2,1099511627776"},
	// sizes around 2^16: the entry count is a uint32
	{"wbig u32 65535", "wbig u32 65536", "wbig u64 65537", "wbig u32 65543"},
	// duplicate keys in the encoded bytes
	{"mdec 02000000010005010007", "mdec 03000000010005020006010007", "dec 0 0200000003000300", "dec 1 03000000010002000100", "mfe", "slice 0"},
	// arithmetic
	{"aradd 1,2 2,3 1", "aradd 1,3 - 2", "arsub 1 3 2", "aradd 3,3 - 1", "arsub - 1,2 1", "arsub 1,2 - 1"},
	// aliasing: the receiver is its own argument
	{"new 0 2,0,3", "addall 0 @0", "hasall 0 @0", "equals 0 @0", "intersect 0 @0", "apply 0 @0 -", "replace 0 @0", "slice 0",
		"new 0 1,2", "apply 0 - @0", "new 0 4,5", "delall 0 @0", "new 0 1,3", "apply 0 @0 @0"},
	{"alias addall 500", "alias delall 500", "cross addall 500", "cross replace 500"},
	// collector functions fed the same element repeatedly into one SetMutations object
	{"arcnew 1", "arc + 0", "arc + 0", "arc - 0", "arc - 0", "arc - 0", "arc + 0", "arc + 0"},
	{"arcnew 2", "arc + 1", "arc + 1", "arc + 1", "arc - 1", "arc - 1", "arc + 1", "arc - 2", "arc + 2", "arc + 2", "arc + 2", "arc - 1", "arc - 1"},
	{"aradd 0,1 - 1", "aradd 0 - 1", "arcnew 2", "arc - 0", "arc + 0", "arc - 0", "arc - 0", "arc + 1", "arc - 1", "arc + 0", "arc + 0"},
	// nil receivers, dictionary options, String, read-only views, NewReadableSet, variadic thresholds
	{"dictopts", "mnil foreach", "mnil foreachrev", "mnil size", "mnil isempty", "mnil clear", "mnil clone"},
	{"new 0 3,1,2", "str 0", "ro.str 0", "new 1 -", "str 1", "ro.equals 0 ~0", "equals 0 ~0", "addall 1 ~0", "add 0 5", "ro.slice 0", "delall 0 ~0", "ro.size 0",
		"hasall 1 ro:1,2", "ro.hasall 1 ro:1,4", "replace 0 ro:4,4,2", "replace 0 ~0", "ro.intersect 0 ~1", "ro.clone 0 3", "ro.enc 1", "ro.iter 1", "ro.any 1", "ro.is 1 3"},
	{"aradd 1,2 - _", "aradd 1 2 0", "arsub 1,2,3 - 0", "arsub 3 - -1", "aradd 3,4 - -1", "aradd 1 - 2,9", "arsub 1 - 2,0", "aradd 0,1,2 - 5",
		"arcnew _", "arc + 4", "arc - 4", "arc - 4", "arcnew 0", "arc - 5", "arc + 5", "arc + 5", "arcnew -1", "arc - 5", "arc - 5", "arc - 5", "arc + 5"},
	// algebra
	{"new 0 1,2,3", "new 1 3,2,1", "equals 0 @1", "hasall 0 2,3", "hasall 0 2,4", "intersect 0 5,3,1", "filter 0 2,3,9", "clone 0 2", "is 0 1", "new 3 4", "is 3 4", "any 3", "any 2", "iter 1"},
	// forced schedules and one stress run of every kind
	{"forced delall apply", "forced addall apply", "forced delall replace", "forced addall compute", "forced delall compute", "forced addall replace"},
	{"stress single 3 4 1", "stress mut 3 3 2", "stress bulk 3 3 3", "stress all 4 6 4"},
	// OrderedMap.Clone / ForEach / ForEachReverse on a 1500-entry map while a writer is pending
	{"mforced clone 1500", "mforced foreach 1500", "mforced foreachrev 1500"},
}

// typed-value corpus: several entries, decoded into a fresh map (pointer, slice, map values)
func typedCorpus() [][]string {
	_, tm := newTypedMaps()
	var out [][]string
	for ti := range tm {
		c := fmt.Sprintf("codec %d %s", ti, strings.Join(tm[ti].tableHex(), " "))
		out = append(out, []string{c, fmt.Sprintf("tset %d 1 3", ti), fmt.Sprintf("tset %d 2 0", ti), fmt.Sprintf("tset %d 0 8", ti),
			fmt.Sprintf("tset %d 4 5", ti), fmt.Sprintf("tenc %d", ti), fmt.Sprintf("tnew %d", ti), fmt.Sprintf("tdec %d", ti),
			fmt.Sprintf("tset %d 5 9", ti), fmt.Sprintf("tdel %d 2", ti), fmt.Sprintf("tdec %d", ti), fmt.Sprintf("tenc %d", ti)})
	}

	return out
}
