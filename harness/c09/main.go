// C09 correspondence harness: drives real ads.Map / ads.Set instances (each over its own mapdb
// store) through sessions of Set/Add/Delete/Get/Has/Size/Stream/Commit/Root/reopen and prints the
// canonical answers that the Lean model (Hive/Model/Ads.lean) must reproduce line by line.  Roots are
// never printed: a root request is answered by the index of the first root point of the session
// with the same root bytes (equality classes over all instances and time points).
//
// The property oracle is evaluated here on the implementation, independently of Lean: a plain Go
// map per instance decides what Get/Has/Size/Stream/Delete must answer, root equality must coincide
// with contents equality over all root points of the session, and an instance reopened at a commit
// point must equal the one it replaces.
package main

import (
	"bytes"
	"crypto/sha256"
	"encoding/binary"
	"encoding/hex"
	"errors"
	"fmt"
	"sort"
	"strconv"
	"strings"

	"verifharness/c09/mine"
	"verifharness/hx"

	"github.com/iotaledger/hive.go/ads"
	"github.com/iotaledger/hive.go/kvstore"
	"github.com/iotaledger/hive.go/kvstore/mapdb"
	"github.com/iotaledger/hive.go/serializer/v2/typeutils"
)

// ---------------------------------------------------------------------------------------------
// the codecs handed to ads.NewMap / ads.NewSet

type hkey []byte

// hval mirrors the value type of the package's own tests (`type testValue []byte`, serialized as
// `t[:]`): a nil value serializes to a nil slice, an empty non-nil value to an empty slice.
type hval []byte

var (
	errEncode = errors.New("harness: object does not encode")
	errDecode = errors.New("harness: bytes do not decode")
	errStop   = errors.New("harness: stop iteration")
)

func clone(b []byte) []byte { return append([]byte{}, b...) }

func bytesToKey(b []byte) (hkey, int, error) { return hkey(clone(b)), len(b), nil }

type amap = ads.Map[[32]byte, hkey, hval]
type aset = ads.Set[[32]byte, hkey]

// codec: which serializers an instance is constructed with — one letter each for the identifier, the key and
// the value: i = the bytes themselves, p = one leading tag byte, r = the bytes in reverse order, l = two leading
// length bytes (big endian).  All of them round-trip; only `i` of the identifier codec stores the raw 32 bytes of the root.
type codec struct{ id, key, val byte }

var identityCodec = codec{'i', 'i', 'i'}

func (c codec) String() string { return string([]byte{c.id, c.key, c.val}) }

const (
	tagID  = 0x01
	tagKey = 0x4B
	tagVal = 0x56
)

func reversed(b []byte) []byte {
	if b == nil {
		return nil
	}
	r := make([]byte, len(b))
	for i := range b {
		r[len(b)-1-i] = b[i]
	}

	return r
}

// encBytes: the stored form of b under codec letter c.
func encBytes(c, tag byte, b []byte) []byte {
	switch c {
	case 'p':
		return append([]byte{tag}, b...)
	case 'r':
		return reversed(b)
	case 'l':
		return append([]byte{byte(len(b) >> 8), byte(len(b))}, b...)
	}

	return b
}

// decBytes: the payload of the stored form b (a sub-slice of b for p and l, b itself for i).
func decBytes(c, tag byte, b []byte) ([]byte, error) {
	switch c {
	case 'p':
		if len(b) < 1 || b[0] != tag {
			return nil, errDecode
		}

		return b[1:], nil
	case 'r':
		return reversed(b), nil
	case 'l':
		if len(b) < 2 || int(b[0])<<8|int(b[1]) != len(b)-2 {
			return nil, errDecode
		}

		return b[2:], nil
	}

	return b, nil
}

// codecCtl: switches that make the identifier codec of an instance (and of its probes) fail (`idfail`).
type codecCtl struct{ encFail, decFail bool }

func parseFlavour(tok string) (string, codec, bool) {
	fl, cs, has := strings.Cut(tok, ":")
	c := identityCodec
	if has {
		if len(cs) != 3 {
			return "", c, false
		}
		c = codec{cs[0], cs[1], cs[2]}
	}
	for _, x := range []byte{c.id, c.key, c.val} {
		if !strings.ContainsRune("iprl", rune(x)) {
			return "", c, false
		}
	}
	if fl != "map" && fl != "mapa" && fl != "set" || fl == "set" && c.val != 'i' {
		return "", c, false
	}

	return fl, c, true
}

// serializers of an instance.  `view`: the deserializers hand sub-slices of their input through without copying,
// like `testValue` / `testKey` of the package's own tests (`return b, len(b), nil`): what Get returns then aliases
// the bytes the trie holds (flavour `mapa`).
type serializers struct {
	idTo    kvstore.ObjectToBytes[[32]byte]
	idFrom  kvstore.BytesToObject[[32]byte]
	keyTo   kvstore.ObjectToBytes[hkey]
	keyFrom kvstore.BytesToObject[hkey]
	valTo   kvstore.ObjectToBytes[hval]
	valFrom kvstore.BytesToObject[hval]
}

func makeSerializers(c codec, ctl *codecCtl, view bool) serializers {
	own := func(b []byte) []byte {
		if view {
			return b
		}

		return clone(b)
	}

	return serializers{
		idTo: func(r [32]byte) ([]byte, error) {
			if ctl != nil && ctl.encFail {
				return nil, errEncode
			}
			if c.id == 'i' {
				return typeutils.ByteArray32ToBytes(r)
			}

			return encBytes(c.id, tagID, r[:]), nil
		},
		idFrom: func(b []byte) (r [32]byte, n int, err error) {
			if ctl != nil && ctl.decFail {
				return r, 0, errDecode
			}
			if c.id == 'i' {
				return typeutils.ByteArray32FromBytes(b)
			}
			p, err := decBytes(c.id, tagID, b)
			if err != nil || len(p) != 32 {
				return r, 0, errDecode
			}
			copy(r[:], p)

			return r, len(b), nil
		},
		keyTo: func(k hkey) ([]byte, error) {
			if len(k) > 0 && k[0] == 0xEE {
				return nil, errEncode
			}

			return encBytes(c.key, tagKey, k[:]), nil
		},
		keyFrom: func(b []byte) (hkey, int, error) {
			p, err := decBytes(c.key, tagKey, b)
			if err != nil {
				return nil, 0, err
			}
			if len(p) > 0 && p[0] == 0xBD {
				// a key that encodes but whose stored form does not decode (a key serializer that does not
				// round-trip): Stream ends at it with the decoder's error
				return nil, 0, errDecode
			}

			return hkey(own(p)), len(b), nil
		},
		valTo: func(v hval) ([]byte, error) {
			if len(v) > 0 && v[0] == 0xEE {
				return nil, errEncode
			}

			return encBytes(c.val, tagVal, v[:]), nil
		},
		valFrom: func(b []byte) (hval, int, error) {
			p, err := decBytes(c.val, tagVal, b)
			if err != nil {
				return nil, 0, err
			}
			if len(p) > 0 && p[0] == 0xDD {
				return nil, 0, errDecode
			}
			if len(p) > 0 && p[0] == 0xCC {
				return hval(own(p)), len(b) - 1, nil
			}

			return hval(own(p)), len(b), nil
		},
	}
}

func openMapWith(st kvstore.KVStore, z serializers) amap {
	return ads.NewMap[[32]byte](st, z.idTo, z.idFrom, z.keyTo, z.keyFrom, z.valTo, z.valFrom)
}

func openSetWith(st kvstore.KVStore, z serializers) aset {
	return ads.NewSet[[32]byte](st, z.idTo, z.idFrom, z.keyTo, z.keyFrom)
}

// openRawMap: a map with the plain identity serializers (nothing refuses to encode or decode): what the oracle
// feeds the *stored* contents of an instance to.
func openRawMap(st kvstore.KVStore) amap {
	return ads.NewMap[[32]byte](st, typeutils.ByteArray32ToBytes, typeutils.ByteArray32FromBytes,
		func(k hkey) ([]byte, error) { return k[:], nil }, bytesToKey,
		func(v hval) ([]byte, error) { return v[:], nil }, func(b []byte) (hval, int, error) { return hval(clone(b)), len(b), nil })
}

// ---------------------------------------------------------------------------------------------
// one instance: the real object plus the oracle's plain Go map

type pair struct{ k, v []byte }

type inst struct {
	flavour string // map | mapa (non-copying deserializers) | set
	codec   codec  // the serializers it is constructed with
	ctl     *codecCtl
	fctl    *faultCtl // write fault of the store below the instance (`fault`)
	tok     string    // flavour[:codec] as in the request line
	store   kvstore.KVStore
	db      kvstore.KVStore // the database below the view (for `peek`)
	realm   []byte          // the realm of the view inside db
	m       amap
	s       aset

	want       map[string][]byte // the plain map model
	committed  map[string][]byte // want at the last Commit (empty before the first)
	commits    int
	commitRoot [32]byte // Root() when the last Commit returned
	muts       int      // state-changing calls so far (for the non-triviality rule)
	tainted    bool     // reopened with un-committed changes: the property does not speak about it any more
	garbage    bool     // a constructor with a failing identifier decoder started a new trie over the old records
}

func (in *inst) isMap() bool { return in.flavour != "set" }

func (in *inst) root() [32]byte {
	if in.isMap() {
		return in.m.Root()
	}

	return in.s.Root()
}

func (in *inst) size() int {
	if in.isMap() {
		return in.m.Size()
	}

	return in.s.Size()
}

func (in *inst) restored() bool {
	if in.isMap() {
		return in.m.WasRestoredFromStorage()
	}

	return in.s.WasRestoredFromStorage()
}

func (in *inst) has(k hkey) (bool, error) {
	if in.isMap() {
		return in.m.Has(k)
	}

	return in.s.Has(k)
}

func (in *inst) del(k hkey) (bool, error) {
	if in.isMap() {
		return in.m.Delete(k)
	}

	return in.s.Delete(k)
}

func (in *inst) commit() error {
	if in.isMap() {
		return in.m.Commit()
	}

	return in.s.Commit()
}

// stream returns the pairs handed to the callback, in order, and the error of Stream.
func (in *inst) stream(stop int) ([]pair, error) {
	var ps []pair
	if in.isMap() {
		err := in.m.Stream(func(k hkey, v hval) error {
			ps = append(ps, pair{clone(k), clone(v)})
			if len(ps) == stop {
				return errStop
			}

			return nil
		})

		return ps, err
	}
	err := in.s.Stream(func(k hkey) error {
		ps = append(ps, pair{clone(k), nil})
		if len(ps) == stop {
			return errStop
		}

		return nil
	})

	return ps, err
}

func (in *inst) reopen() {
	z := makeSerializers(in.codec, in.ctl, in.flavour == "mapa")
	if in.isMap() {
		in.m = openMapWith(in.store, z)
	} else {
		in.s = openSetWith(in.store, z)
	}
}

// encKey / encVal: the stored form of a key / value of the plain map under the instance's serializers.
func (in *inst) encKey(k []byte) []byte { return encBytes(in.codec.key, tagKey, k) }

func (in *inst) encVal(v []byte) []byte {
	if !in.isMap() {
		return []byte{}
	}
	if e := encBytes(in.codec.val, tagVal, v); e != nil {
		return e
	}

	return []byte{}
}

// stored: the contents of the plain map as the trie holds them (encoded keys and values).
func (in *inst) stored() map[string][]byte {
	m := make(map[string][]byte, len(in.want))
	for k, v := range in.want {
		m[string(in.encKey([]byte(k)))] = in.encVal(v)
	}

	return m
}

// probe opens one more instance of the same flavour over the same store; it is only read from.
func (in *inst) probe() *inst {
	p := &inst{flavour: in.flavour, store: in.store, codec: in.codec, ctl: in.ctl, fctl: in.fctl, tok: in.tok}
	p.reopen()

	return p
}

// freshRoots caches, per stored contents, the root of a new map (identity serializers, own mapdb) that was fed
// exactly these stored contents in key order: what "the root depends on the contents alone" is measured against.
// (Callers pass `in.stored()`: an instance with non-identity key / value serializers holds the encoded pairs.)
var freshRoots = map[string][32]byte{}

func freshRoot(want map[string][]byte) [32]byte {
	c := canon(want)
	if rt, ok := freshRoots[c]; ok {
		return rt
	}
	m := openRawMap(mapdb.NewMapDB())
	keys := make([]string, 0, len(want))
	for k := range want {
		keys = append(keys, k)
	}
	sort.Strings(keys)
	for _, k := range keys {
		v := hval(clone(want[k]))
		if want[k] == nil {
			v = nil
		}
		if err := m.Set(hkey(k), v); err != nil {
			panic("harness: fresh instance refuses " + hex.EncodeToString([]byte(k)) + ": " + err.Error())
		}
	}
	rt := m.Root()
	if len(freshRoots) < 200000 {
		freshRoots[c] = rt
	}

	return rt
}

func canon(m map[string][]byte) string {
	keys := make([]string, 0, len(m))
	for k := range m {
		keys = append(keys, k)
	}
	sort.Strings(keys)
	var sb strings.Builder
	for _, k := range keys {
		sb.WriteString(hex.EncodeToString([]byte(k)))
		sb.WriteByte('=')
		sb.WriteString(hex.EncodeToString(m[k]))
		sb.WriteByte(';')
	}

	return sb.String()
}

func copyMap(m map[string][]byte) map[string][]byte {
	c := make(map[string][]byte, len(m))
	for k, v := range m {
		c[k] = v
	}

	return c
}

func showPairs(ps []pair) string {
	parts := make([]string, len(ps))
	for i, p := range ps {
		parts[i] = hx.Hex(p.k) + "=" + hx.Hex(p.v)
	}

	return "[" + strings.Join(parts, " ") + "]"
}

// ---------------------------------------------------------------------------------------------
// a session: several instances, all root points

type point struct {
	root     [32]byte
	contents string
	inst     int
	muts     int
	tainted  bool
}

type session struct {
	r      *hx.Run
	dbs    map[int]kvstore.KVStore // shared databases (`opendb`)
	realms map[int][][]byte        // realms in use per shared database
	insts  map[int]*inst
	points []point
	lines  []string
	// measured
	sameClassOtherHistory bool
	classes               map[string]struct{}
	mutations             int
	reopens               int
	// quiet: nothing is reported to the run (shrinking); failures are always collected in fails
	quiet bool
	fails []failRec
}

// failRec is one oracle failure of a session: what failed, and after how many request lines.
type failRec struct {
	oracle, op, flavour string
	line                int
}

func (ss *session) count(k string) {
	if !ss.quiet {
		ss.r.Count(k)
	}
}

func newSession(r *hx.Run) *session {
	return &session{r: r, dbs: map[int]kvstore.KVStore{}, realms: map[int][][]byte{}, insts: map[int]*inst{}, classes: map[string]struct{}{}}
}

func (ss *session) fail(oracle, op string, in *inst, detail string) {
	fl := ""
	if in != nil {
		fl = in.tok
	}
	ss.fails = append(ss.fails, failRec{oracle, op, fl, len(ss.lines)})
	if ss.quiet {
		return
	}
	ss.r.Fail(oracle, fmt.Sprintf("%s; ops=%s", detail, strings.Join(ss.lines, " | ")),
		map[string]string{"oracle": oracle, "op": op, "flavour": fl})
}

func valKind(tok string) string {
	switch {
	case tok == "nil":
		return "nil"
	case tok == "-":
		return "empty"
	case strings.HasPrefix(tok, "ee"):
		return "unencodable"
	case strings.HasPrefix(tok, "dd"):
		return "undecodable"
	case strings.HasPrefix(tok, "cc"):
		return "short-decode"
	case len(tok) > 400:
		return "very-long"
	case len(tok) > 16:
		return "long"
	}

	return "plain"
}

func parseVal(tok string) hval {
	if tok == "nil" {
		return nil
	}

	return hval(hx.UnHex(tok))
}

func classifySetErr(err error) string {
	switch {
	case err == nil:
		return "ok"
	case strings.Contains(err.Error(), "failed to serialize value"):
		return "err-val"
	case strings.Contains(err.Error(), "failed to serialize key"):
		return "err-key"
	case strings.Contains(err.Error(), "failed to set raw key"):
		return "err-raw"
	case strings.Contains(err.Error(), "failed to increase size"):
		return "err-size"
	}

	return "err"
}

func classifyKeyErr(err error) string {
	switch {
	case strings.Contains(err.Error(), "failed to serialize key"):
		return "err-key"
	case strings.Contains(err.Error(), "failed to delete from raw keys store"):
		return "err-raw"
	case strings.Contains(err.Error(), "failed to decrease size"):
		return "err-size"
	}

	return "err"
}

// maxLCP is the longest common sha256-path prefix (in bits) between two keys of the contents.
func maxLCP(m map[string][]byte) int {
	hs := make([][32]byte, 0, len(m))
	for k := range m {
		hs = append(hs, sha256.Sum256([]byte(k)))
	}
	best := -1
	for i := range hs {
		for j := i + 1; j < len(hs); j++ {
			if l := mine.LCPBits(hs[i], hs[j]); l > best {
				best = l
			}
		}
	}

	return best
}

// compatible mirrors Hive.Ads.compatible: no region id (realm + one of the bytes 0..3) of one
// instance is a prefix of a region id of the other.
func compatible(r1, r2 []byte) bool {
	for a := byte(0); a < 4; a++ {
		for b := byte(0); b < 4; b++ {
			x, y := append(clone(r1), a), append(clone(r2), b)
			if bytes.HasPrefix(y, x) || bytes.HasPrefix(x, y) {
				return false
			}
		}
	}

	return true
}

// exec interprets one request line on the real code and evaluates the oracles on the answer.
func (ss *session) exec(op string) string {
	ss.lines = append(ss.lines, op)
	f := strings.Fields(op)
	if len(f) < 2 {
		return "bad-op"
	}
	idx, err := strconv.Atoi(f[1])
	if err != nil {
		return "bad-op"
	}
	if f[0] == "opendb" {
		if len(f) != 2 {
			return "bad-op"
		}
		ss.dbs[idx] = mapdb.NewMapDB()
		ss.realms[idx] = nil

		return "ok"
	}
	if f[0] == "open" {
		fl, cd, fok := "", identityCodec, false
		if len(f) == 3 {
			fl, cd, fok = parseFlavour(f[2])
		}
		if !fok {
			return "bad-op"
		}
		in := &inst{flavour: fl, codec: cd, ctl: &codecCtl{}, fctl: &faultCtl{region: -1}, tok: f[2], db: mapdb.NewMapDB(), want: map[string][]byte{}, committed: map[string][]byte{}}
		in.store = &faultStore{inner: in.db, ctl: in.fctl, region: -1}
		ss.count("serializer:identifier=" + string(cd.id))
		ss.count("serializer:key=" + string(cd.key))
		ss.count("serializer:value=" + string(cd.val))
		in.reopen()
		ss.insts[idx] = in

		return "ok"
	}
	if f[0] == "openr" {
		// openr <i> <flavour> <d> <seg/seg/...>: instance i over a realm view of the shared database d
		fl, cd, fok := "", identityCodec, false
		if len(f) == 5 {
			fl, cd, fok = parseFlavour(f[2])
		}
		if !fok {
			return "bad-op"
		}
		d, err := strconv.Atoi(f[3])
		db, ok := ss.dbs[d]
		if err != nil || !ok {
			return "nodb"
		}
		var view kvstore.KVStore
		var realm []byte
		for n, seg := range strings.Split(f[4], "/") {
			b := hx.UnHex(seg)
			realm = append(realm, b...)
			if n == 0 {
				view, err = db.WithRealm(b)
			} else {
				view, err = view.WithExtendedRealm(b)
			}
			if err != nil {
				return "err"
			}
		}
		// the property speaks about instances whose key spaces do not overlap
		for _, o := range ss.realms[d] {
			if !compatible(o, realm) {
				return "bad-op"
			}
		}
		ss.realms[d] = append(ss.realms[d], realm)
		in := &inst{flavour: fl, codec: cd, ctl: &codecCtl{}, fctl: &faultCtl{region: -1}, tok: f[2], db: db, realm: clone(realm), want: map[string][]byte{}, committed: map[string][]byte{}}
		in.store = &faultStore{inner: view, ctl: in.fctl, region: -1}
		ss.count("serializer:identifier=" + string(cd.id))
		ss.count("serializer:key=" + string(cd.key))
		ss.count("serializer:value=" + string(cd.val))
		in.reopen()
		ss.insts[idx] = in
		ss.count("instance-over-realm-view")

		return "ok"
	}
	in, ok := ss.insts[idx]
	if !ok {
		return "noinst"
	}
	var ans string
	if p := hx.Safely(func() { ans = ss.execOn(in, idx, f) }); p != "" {
		ss.fail("no-panic", f[0], in, "panic: "+p)

		return "panic"
	}

	return ans
}

func (ss *session) execOn(in *inst, idx int, f []string) string {
	check := !in.tainted
	switch f[0] {
	case "set", "add":
		var kb []byte
		var v hval
		var aerr error
		switch {
		case f[0] == "set" && len(f) == 4 && in.isMap():
			kb, v = hx.UnHex(f[2]), parseVal(f[3])
			ss.count("value:" + valKind(f[3]))
			aerr = in.m.Set(hkey(kb), v)
		case f[0] == "add" && len(f) == 3 && in.flavour == "set":
			kb, v = hx.UnHex(f[2]), hval{}
			aerr = in.s.Add(hkey(kb))
		default:
			return "bad-op"
		}
		ans := classifySetErr(aerr)
		// oracle: the serializers decide alone whether the call may fail
		exp := "ok"
		if len(v) > 0 && v[0] == 0xEE {
			exp = "err-val"
		} else if len(kb) > 0 && kb[0] == 0xEE {
			exp = "err-key"
		} else if _, present := in.want[string(kb)]; in.fctl.region == 0 && !in.fctl.read {
			exp = "err-raw" // the raw-key mirror is written for every Set
		} else if in.fctl.region == 3 && !present {
			exp = "err-size" // the size cell is written when the key is new
		}
		if check && ans != exp {
			ss.fail("set-result", f[0], in, fmt.Sprintf("Set answered %s, expected %s (%v)", ans, exp, aerr))
		}
		if ans == "err-raw" || ans == "err-size" {
			// no roll-back: the trie has the entry, the raw keys and / or the size do not — the property is silent from here
			in.tainted = true
			ss.count("fault:set-left-half-done")
		}
		if ans == "ok" {
			in.want[string(kb)] = clone(v)
			in.muts++
			ss.mutations++
		}

		return ans
	case "get":
		if len(f) != 3 || !in.isMap() {
			return "bad-op"
		}
		kb := hx.UnHex(f[2])
		v, exists, err := in.m.Get(hkey(kb))
		var ans string
		switch {
		case err != nil && strings.Contains(err.Error(), "failed to deserialize value"):
			ans = "err-dec"
		case err != nil && strings.Contains(err.Error(), "failed to parse entire value"):
			ans = "err-partial"
		case err != nil:
			ans = classifyKeyErr(err)
		case !exists:
			ans = "notfound"
		default:
			ans = "found " + hx.Hex(v)
		}
		if check {
			exp := "notfound"
			if w, has := in.want[string(kb)]; has {
				switch {
				case len(w) > 0 && w[0] == 0xDD:
					exp = "err-dec"
				case len(w) > 0 && w[0] == 0xCC:
					exp = "err-partial"
				default:
					exp = "found " + hx.Hex(w)
				}
			}
			if len(kb) > 0 && kb[0] == 0xEE {
				exp = "err-key"
			}
			if ans != exp {
				ss.fail("get-agrees", "get", in, fmt.Sprintf("Get(%x) answered %q, the plain map says %q", kb, ans, exp))
			}
		}

		return ans
	case "rmw":
		// rmw <i> <key> <byte>: read-modify-write-back — v := Get(key); v[0] = byte (in place, in the slice
		// that Get returned); Set(key, v).  With the non-copying deserializers of `mapa` the slice is the
		// one the trie's leaf holds.
		if len(f) != 4 || !in.isMap() {
			return "bad-op"
		}
		kb, nb := hx.UnHex(f[2]), hx.UnHex(f[3])
		if len(nb) != 1 || nb[0] >= 0x80 {
			return "bad-op"
		}
		v, exists, err := in.m.Get(hkey(kb))
		w, has := in.want[string(kb)]
		var ans string
		switch {
		case err != nil && strings.Contains(err.Error(), "failed to deserialize value"):
			ans = "err-dec"
		case err != nil && strings.Contains(err.Error(), "failed to parse entire value"):
			ans = "err-partial"
		case err != nil:
			ans = classifyKeyErr(err)
		case !exists:
			ans = "notfound"
		case len(v) == 0:
			ans = "empty"
		default:
			if check && (!has || !bytes.Equal(v, w)) {
				ss.fail("get-agrees", "rmw", in, fmt.Sprintf("Get(%x) answered %x, the plain map says %x (present=%v)", kb, v, w, has))
			}
			v[0] = nb[0]
			ans = classifySetErr(in.m.Set(hkey(kb), v))
			if ans == "err-raw" || ans == "err-size" {
				in.tainted, check = true, false
			}
			if check && ans != "ok" {
				ss.fail("set-result", "rmw", in, "Set of a value obtained from Get and modified answered "+ans)
			}
			if ans == "ok" {
				in.want[string(kb)] = clone(v)
				in.muts++
				ss.mutations++
				ss.count("rmw:written-back:" + in.flavour)
			}
		}
		if check && ans != "ok" {
			exp := "notfound"
			if has {
				switch {
				case len(w) > 0 && w[0] == 0xDD:
					exp = "err-dec"
				case len(w) > 0 && w[0] == 0xCC:
					exp = "err-partial"
				case len(w) == 0:
					exp = "empty"
				default:
					exp = "ok"
				}
			}
			if len(kb) > 0 && kb[0] == 0xEE {
				exp = "err-key"
			}
			if ans != exp {
				ss.fail("get-agrees", "rmw", in, fmt.Sprintf("read-modify-write of %x answered %q, the plain map says %q", kb, ans, exp))
			}
		}

		return ans
	case "has":
		if len(f) != 3 {
			return "bad-op"
		}
		kb := hx.UnHex(f[2])
		has, err := in.has(hkey(kb))
		ans := strconv.FormatBool(has)
		if err != nil {
			ans = classifyKeyErr(err)
		}
		if check {
			_, w := in.want[string(kb)]
			exp := strconv.FormatBool(w)
			if len(kb) > 0 && kb[0] == 0xEE {
				exp = "err-key"
			}
			if ans != exp {
				ss.fail("has-agrees", "has", in, fmt.Sprintf("Has(%x) answered %s, the plain map says %s", kb, ans, exp))
			}
		}

		return ans
	case "del":
		if len(f) != 3 {
			return "bad-op"
		}
		kb := hx.UnHex(f[2])
		deleted, err := in.del(hkey(kb))
		ans := "deleted " + strconv.FormatBool(deleted)
		if err != nil {
			ans = classifyKeyErr(err)
		}
		_, w := in.want[string(kb)]
		if check {
			exp := "deleted " + strconv.FormatBool(w)
			if len(kb) > 0 && kb[0] == 0xEE {
				exp = "err-key"
			}
			if w && in.fctl.region == 0 && !in.fctl.read && exp != "err-key" {
				exp = "err-raw"
			} else if w && in.fctl.region == 3 && exp != "err-key" {
				exp = "err-size"
			}
			if ans != exp {
				ss.fail("delete-reports-presence", "del", in, fmt.Sprintf("Delete(%x) answered %q, the plain map says %q", kb, ans, exp))
			}
		}
		if ans == "err-raw" || ans == "err-size" {
			in.tainted = true
			ss.count("fault:delete-left-half-done")
		}
		if err == nil && deleted {
			delete(in.want, string(kb))
			in.muts++
			ss.mutations++
		}

		return ans
	case "size":
		n := in.size()
		if check && n != len(in.want) {
			ss.fail("size-eq-card", "size", in, fmt.Sprintf("Size() = %d, the plain map holds %d keys", n, len(in.want)))
		}

		return fmt.Sprintf("size %d", n)
	case "stream":
		if len(f) != 3 {
			return "bad-op"
		}
		stop, err := strconv.Atoi(f[2])
		if err != nil {
			return "bad-op"
		}
		ps, serr := in.stream(stop)
		end := "ok"
		switch {
		case serr == nil:
		case errors.Is(serr, errStop):
			end = "err-cb"
		case strings.Contains(serr.Error(), "failed to deserialize value"):
			end = "err-dec"
		case strings.Contains(serr.Error(), "failed to iterate over raw keys") && errors.Is(serr, errDecode):
			end = "err-keydec"
		case strings.Contains(serr.Error(), "failed to iterate over raw keys") && errors.Is(serr, errFault):
			// the iteration itself failed: nothing may have reached the callback
			if check && (!(in.fctl.read && in.fctl.region == 0) || len(ps) != 0) {
				ss.fail("stream-agrees", "stream", in, fmt.Sprintf("Stream reported an iteration error after %d pairs (raw-key read fault injected: %v)", len(ps), in.fctl.read))
			}

			return "err-iter"
		default:
			end = "err"
		}
		if check && in.fctl.read && in.fctl.region == 0 {
			ss.fail("stream-agrees", "stream", in, "Stream ended "+end+" although the raw keys cannot be iterated")
		} else if check {
			ss.checkStream(in, ps, end, stop)
		}

		return "stream " + showPairs(ps) + " " + end
	case "fault":
		// fault <i> off|root-w|size-w|raw-w: writes of that component of the store below the instance fail
		if len(f) != 3 {
			return "bad-op"
		}
		in.fctl.read = false
		switch f[2] {
		case "off":
			in.fctl.region = -1
		case "raw-r":
			in.fctl.region, in.fctl.read = 0, true
		case "raw-w":
			in.fctl.region = 0
		case "root-w":
			in.fctl.region = 2
		case "size-w":
			in.fctl.region = 3
		default:
			return "bad-op"
		}
		ss.count("fault:" + f[2])

		return "ok"
	case "idfail":
		// idfail <i> enc|dec|both|off: the identifier serializers of the instance (and of the instances opened over
		// its store from now on) fail
		if len(f) != 3 {
			return "bad-op"
		}
		switch f[2] {
		case "off":
			*in.ctl = codecCtl{}
		case "enc":
			*in.ctl = codecCtl{encFail: true}
		case "dec":
			*in.ctl = codecCtl{decFail: true}
		case "both":
			*in.ctl = codecCtl{encFail: true, decFail: true}
		default:
			return "bad-op"
		}
		ss.count("idfail:" + f[2])

		return "ok"
	case "commit":
		if err := in.commit(); err != nil {
			ans := "err"
			if strings.Contains(err.Error(), "failed to set root") {
				ans = "err-root"
			}
			mustFail := in.ctl.encFail || in.fctl.region == 2
			if check && !(mustFail && ans == "err-root") {
				ss.fail("commit-ok", "commit", in, "Commit failed: "+err.Error())
			}
			if check && mustFail && !in.ctl.decFail {
				// a Commit that failed is not a Commit: a new instance over the store reports restored and the
				// committed root exactly as before it
				ss.count("commit:failed-identifier-encoder")
				p := in.probe()
				if p.restored() != (in.commits > 0) {
					ss.fail("restored-iff-committed", "commit", in, fmt.Sprintf("after a failed Commit a new instance reports WasRestoredFromStorage() = %v; %d Commits succeeded", p.restored(), in.commits))
				}
				if rt := p.root(); in.commits > 0 && rt != in.commitRoot {
					ss.fail("reopen-faithful", "commit", in, "after a failed Commit a new instance reports another Root() than the one of the last successful Commit")
				} else if in.commits == 0 && rt != freshRoot(map[string][]byte{}) {
					ss.fail("reopen-faithful", "commit", in, "after a failed first Commit a new instance does not report the root of the empty map")
				}
				for k, w := range in.committed {
					h, err := p.has(hkey(k))
					if err != nil || !h {
						ss.fail("reopen-faithful", "commit", in, fmt.Sprintf("after a failed Commit a new instance misses key %x of the last successful Commit (%v)", k, err))
					} else if in.isMap() && !(len(w) > 0 && (w[0] == 0xDD || w[0] == 0xCC)) {
						if v, ex, err := p.m.Get(hkey(k)); err != nil || !ex || !bytes.Equal(v, w) {
							ss.fail("reopen-faithful", "commit", in, fmt.Sprintf("after a failed Commit a new instance holds %x=%x (exists=%v, %v), the last successful Commit stored %x", k, v, ex, err, w))
						}
					}
				}
			}

			return ans
		}
		if check && (in.ctl.encFail || in.fctl.region == 2) {
			ss.fail("commit-ok", "commit", in, "Commit succeeded although the root could not be stored")
		}
		in.commits++
		in.committed = copyMap(in.want)
		in.commitRoot = in.root()
		if check && !in.ctl.decFail {
			ss.checkProbe(in, "commit")
		}

		return "ok"
	case "peek":
		// the persistent layout, read from the database below the view at absolute keys: the raw keys below
		// realm+{0} in the store's order, the size cell realm+{3} (uint64, little endian), whether the root
		// cell realm+{2} exists, whether there are trie records below realm+{1}
		at := func(b byte) []byte { return append(clone(in.realm), b) }
		var raw []string
		var rawBytes [][]byte
		if err := in.db.IterateKeys(at(0), func(key kvstore.Key) bool {
			raw = append(raw, hx.Hex(key[len(in.realm)+1:]))
			rawBytes = append(rawBytes, clone(key[len(in.realm)+1:]))

			return true
		}); err != nil {
			return "err"
		}
		size, sizeOK := "-", false
		var sizeN int64
		if b, err := in.db.Get(at(3)); err == nil {
			if len(b) != 8 {
				ss.fail("layout", "peek", in, fmt.Sprintf("the size cell holds %d bytes", len(b)))

				return "err"
			}
			sizeN, sizeOK = int64(binary.LittleEndian.Uint64(b)), true
			size = strconv.FormatInt(sizeN, 10)
		}
		rootB, rerr := in.db.Get(at(2))
		root := "no"
		if rerr == nil {
			root = "yes"
		}
		nodes := 0
		if err := in.db.IterateKeys(at(1), func(kvstore.Key) bool { nodes++; return true }); err != nil {
			return "err"
		}
		ns := "0"
		if nodes > 0 {
			ns = "+"
		}
		if in.garbage {
			ns = "?"
		}
		if check {
			if len(rawBytes) != len(in.want) {
				ss.fail("layout", "peek", in, fmt.Sprintf("%d raw keys below realm+{0}, the plain map holds %d keys", len(rawBytes), len(in.want)))
			}
			for _, k := range rawBytes {
				if dk, err := decBytes(in.codec.key, tagKey, k); err != nil {
					ss.fail("layout", "peek", in, fmt.Sprintf("raw key %x below realm+{0} is not the stored form of a key", k))
				} else if _, has := in.want[string(dk)]; !has {
					ss.fail("layout", "peek", in, fmt.Sprintf("raw key %x below realm+{0} is not in the plain map", k))
				}
			}
			if sizeOK && sizeN != int64(len(in.want)) || !sizeOK && len(in.want) != 0 {
				ss.fail("layout", "peek", in, fmt.Sprintf("size cell realm+{3} = %s, the plain map holds %d keys", size, len(in.want)))
			}
			if (rerr == nil) != (in.commits > 0) {
				ss.fail("layout", "peek", in, fmt.Sprintf("root cell realm+{2} present = %v after %d commits", rerr == nil, in.commits))
			} else if rerr == nil && !bytes.Equal(rootB, encBytes(in.codec.id, tagID, in.commitRoot[:])) {
				ss.fail("layout", "peek", in, "root cell realm+{2} does not hold the stored form of the Root() of the last Commit")
			}
			if (nodes > 0) != (len(in.committed) > 0) && !in.garbage {
				ss.fail("layout", "peek", in, fmt.Sprintf("%d trie records below realm+{1}, the last Commit flushed %d keys", nodes, len(in.committed)))
			}
		}

		return fmt.Sprintf("peek raw=[%s] size=%s root=%s nodes=%s", strings.Join(raw, " "), size, root, ns)
	case "restored":
		b := in.restored()
		// (also on instances reopened with un-committed changes or through a failing identifier decoder: the root
		// cell is there exactly when a Commit succeeded)
		if b != (in.commits > 0) {
			ss.fail("restored-iff-committed", "restored", in, fmt.Sprintf("WasRestoredFromStorage() = %v after %d commits", b, in.commits))
		}

		return "restored " + strconv.FormatBool(b)
	case "root":
		rt := in.root()
		c := canon(in.stored())
		cls := len(ss.points)
		for i, p := range ss.points {
			if p.root == rt {
				cls = i

				break
			}
		}
		if check {
			if fr := freshRoot(in.stored()); fr != rt {
				ss.fail("root-content-only", "root", in, fmt.Sprintf("Root() differs from the root of a new map fed the same contents {%s}", c))
			}
			repeat := "new-class"
			for i, p := range ss.points {
				if p.tainted {
					continue
				}
				switch {
				case p.contents == c && p.root != rt:
					ss.fail("root-content-only", "root", in, fmt.Sprintf("root points %d and %d have equal contents {%s} but different roots", i, len(ss.points), c))
				case p.contents != c && p.root == rt:
					ss.fail("root-injective", "root", in, fmt.Sprintf("root points %d {%s} and %d {%s} have different contents but equal roots", i, p.contents, len(ss.points), c))
				}
				if p.contents == c {
					if p.inst != idx {
						repeat = "repeat-class-other-instance"
						ss.sameClassOtherHistory = true
					} else if repeat == "new-class" && p.muts != in.muts {
						repeat = "repeat-class-same-instance-later"
						ss.sameClassOtherHistory = true
					} else if repeat == "new-class" {
						repeat = "repeat-class-no-change"
					}
				}
			}
			ss.count("root:" + repeat)
			ss.classes[c] = struct{}{}
			switch l := maxLCP(in.stored()); {
			case l >= 16:
				ss.count("root-point:keys-share>=16bits")
			case l >= 8:
				ss.count("root-point:keys-share-8..15bits")
			case l >= 0:
				ss.count("root-point:keys-share<8bits")
			default:
				ss.count("root-point:fewer-than-2-keys")
			}
		}
		ss.points = append(ss.points, point{root: rt, contents: c, inst: idx, muts: in.muts, tainted: in.tainted})

		return fmt.Sprintf("class %d", cls)
	case "reopen":
		clean := canon(in.want) == canon(in.committed)
		if has, _ := in.db.Has(append(clone(in.realm), 2)); has && in.ctl.decFail {
			// the identifier in the root cell does not decode: the constructor starts a new trie over the old
			// records; a serializer pair that does not round-trip is outside the property
			clean, in.garbage = false, true
			ss.count("reopen:failing-identifier-decoder")
		}
		if !clean || in.tainted {
			// the code is followed (and compared with the Lean model), the property is silent
			in.tainted = true
			ss.count("reopen:dirty")
			in.reopen()

			return "ok"
		}
		ss.count("reopen:at-commit-point")
		ss.reopens++
		rt0, n0 := in.root(), in.size()
		ps0, _ := in.stream(0)
		in.reopen()
		rt1, n1 := in.root(), in.size()
		ps1, err1 := in.stream(0)
		if rt0 != rt1 {
			ss.fail("reopen-faithful", "reopen", in, "Root() differs after reopening at a commit point")
		}
		if n0 != n1 || n1 != len(in.want) {
			ss.fail("reopen-faithful", "reopen", in, fmt.Sprintf("Size() %d before, %d after reopening; plain map holds %d", n0, n1, len(in.want)))
		}
		if showPairs(ps0) != showPairs(ps1) || err1 != nil && !strings.Contains(err1.Error(), "failed to deserialize value") && !strings.Contains(err1.Error(), "failed to iterate over raw keys") {
			ss.fail("reopen-faithful", "reopen", in, fmt.Sprintf("Stream %s before, %s after reopening (%v)", showPairs(ps0), showPairs(ps1), err1))
		}
		if in.restored() != (in.commits > 0) {
			ss.fail("restored-iff-committed", "reopen", in, fmt.Sprintf("WasRestoredFromStorage() = %v on an instance opened after %d commits", in.restored(), in.commits))
		}
		for k, w := range in.want {
			h, err := in.has(hkey(k))
			if err != nil || !h {
				ss.fail("reopen-faithful", "reopen", in, fmt.Sprintf("key %x lost by reopening", k))
			}
			if in.isMap() && !(len(w) > 0 && (w[0] == 0xDD || w[0] == 0xCC)) {
				v, ex, err := in.m.Get(hkey(k))
				if err != nil || !ex || !bytes.Equal(v, w) {
					ss.fail("reopen-faithful", "reopen", in, fmt.Sprintf("value of %x is %x/%v/%v after reopening, want %x", k, v, ex, err, w))
				}
			}
		}

		return "ok"
	}

	return "bad-op"
}

// checkProbe: directly after a Commit, one more instance opened over the same store (read only)
// reports the live instance's Root and Size, says it was restored, and holds exactly the plain map.
func (ss *session) checkProbe(in *inst, op string) {
	p := in.probe()
	if rt, prt := in.root(), p.root(); rt != prt {
		ss.fail("reopen-faithful", op, in, "an instance opened after Commit reports another Root() than the committed one")
	} else if fr := freshRoot(in.stored()); fr != prt {
		ss.fail("reopen-faithful", op, in, fmt.Sprintf("an instance opened after Commit reports a Root() that is not the root of the contents {%s}", canon(in.want)))
	}
	if n := p.size(); n != len(in.want) {
		ss.fail("reopen-faithful", op, in, fmt.Sprintf("an instance opened after Commit reports Size() = %d, the plain map holds %d", n, len(in.want)))
	}
	if !p.restored() {
		ss.fail("restored-iff-committed", op, in, "an instance opened after Commit reports WasRestoredFromStorage() = false")
	}
	for k, w := range in.want {
		h, err := p.has(hkey(k))
		if err != nil || !h {
			ss.fail("reopen-faithful", op, in, fmt.Sprintf("key %x is missing in an instance opened after Commit", k))
		}
		if in.isMap() && !(len(w) > 0 && (w[0] == 0xDD || w[0] == 0xCC)) {
			v, ex, err := p.m.Get(hkey(k))
			if err != nil || !ex || !bytes.Equal(v, w) {
				ss.fail("reopen-faithful", op, in, fmt.Sprintf("an instance opened after Commit holds %x=%x (exists=%v, %v), the plain map says %x", k, v, ex, err, w))
			}
		}
	}
	ps, _ := p.stream(0)
	if len(ps) > len(in.want) {
		ss.fail("reopen-faithful", op, in, fmt.Sprintf("an instance opened after Commit streams %d pairs, the plain map holds %d", len(ps), len(in.want)))
	}
}

// rawOrder reads the raw keys of the instance from the database below the view, in the store's order.
func (in *inst) rawOrder() [][]byte {
	var ks [][]byte
	_ = in.db.IterateKeys(append(clone(in.realm), 0), func(key kvstore.Key) bool {
		ks = append(ks, clone(key[len(in.realm)+1:]))

		return true
	})

	return ks
}

// checkStream: Stream hands the pairs of the plain map to the callback, each once, in the order in which
// the store iterates the raw keys; it ends with the first value that does not decode (error, that pair
// not delivered), with the callback's error on its stop-th call (that pair delivered), or after all pairs.
func (ss *session) checkStream(in *inst, ps []pair, end string, stop int) {
	seen := map[string]struct{}{}
	for _, p := range ps {
		w, has := in.want[string(p.k)]
		if !has || !bytes.Equal(w, p.v) && in.isMap() {
			ss.fail("stream-agrees", "stream", in, fmt.Sprintf("Stream delivered %x=%x, the plain map says %x (present=%v)", p.k, p.v, w, has))
		}
		if _, dup := seen[string(p.k)]; dup {
			ss.fail("stream-agrees", "stream", in, fmt.Sprintf("Stream delivered %x twice", p.k))
		}
		seen[string(p.k)] = struct{}{}
	}
	var expKeys []string
	expEnd := "ok"
	for _, rk := range in.rawOrder() {
		k, derr := decBytes(in.codec.key, tagKey, rk)
		w, has := in.want[string(k)]
		if derr != nil || !has {
			continue // reported by the layout oracle
		}
		if len(k) > 0 && k[0] == 0xBD {
			expEnd = "err-keydec"

			break
		}
		if in.isMap() && len(w) > 0 && w[0] == 0xDD {
			expEnd = "err-dec"

			break
		}
		expKeys = append(expKeys, hx.Hex(k))
		if len(expKeys) == stop {
			expEnd = "err-cb"

			break
		}
	}
	got := make([]string, len(ps))
	for i, p := range ps {
		got[i] = hx.Hex(p.k)
	}
	if end != expEnd || strings.Join(got, " ") != strings.Join(expKeys, " ") {
		ss.fail("stream-agrees", "stream", in, fmt.Sprintf("Stream (callback failing on call %d) delivered [%s] and ended %s; the plain map in the store's key order gives [%s] and %s",
			stop, strings.Join(got, " "), end, strings.Join(expKeys, " "), expEnd))
	}
	if expEnd == "ok" && len(expKeys) != len(in.want) {
		ss.fail("stream-agrees", "stream", in, fmt.Sprintf("the raw-key mirror holds %d of the %d keys of the plain map", len(expKeys), len(in.want)))
	}
}

// ---------------------------------------------------------------------------------------------
// generation

var plainValues = []string{"nil", "-", "61", "62", "00", "ff",
	"000102030405060708090a0b0c0d0e0f101112131415161718191a1b1c1d1e1f2021222324252627"}

type gen struct {
	rng     *hx.Rng
	keys    []string
	flavour []string // per instance
	tok     []string // per instance: flavour[:codec]
	vals    []string // value alphabet of a random session
	dirtyOK bool
	idfail  bool // the session contains episodes with failing identifier serializers
	faults  bool // the session contains episodes with write faults of the store
	// generator-side knowledge, only used to place reopen requests at commit points
	pending []bool
}

func (g *gen) key() string {
	if g.rng.Chance(1, 60) {
		return "ee01" // does not encode
	}
	if g.rng.Chance(1, 90) {
		return "bd01" // encodes, but its stored form does not decode
	}
	if g.rng.Chance(1, 120) {
		return "4c" + longHex(299) // a 300-byte key
	}

	return hx.Pick(g.rng, g.keys)
}

// longHex: n bytes (i mod 251), as a value / key token: lengths beyond one length byte and beyond a trie record's usual size
func longHex(n int) string {
	b := make([]byte, n)
	for i := range b {
		b[i] = byte(i % 251)
	}

	return hex.EncodeToString(b)
}

var longValues = []string{longHex(300), longHex(256), longHex(255), longHex(5000)}

func (g *gen) val() string {
	if g.rng.Chance(1, 30) {
		return hx.Pick(g.rng, []string{"ee01", "dd01", "cc0102", "dd", "cc"})
	}
	if g.rng.Chance(1, 50) {
		return hx.Pick(g.rng, longValues)
	}

	if g.vals != nil {
		return hx.Pick(g.rng, g.vals)
	}

	return hx.Pick(g.rng, plainValues)
}

func (g *gen) setOp(i int, k, v string) string {
	g.pending[i] = true
	if g.flavour[i] == "set" {
		return fmt.Sprintf("add %d %s", i, k)
	}

	return fmt.Sprintf("set %d %s %s", i, k, v)
}

func (g *gen) delOp(i int, k string) string {
	g.pending[i] = true

	return fmt.Sprintf("del %d %s", i, k)
}

// reopenOps reopens instance i at a commit point (committing first when something is pending).
func (g *gen) reopenOps(i int) []string {
	var ops []string
	if g.pending[i] && !(g.dirtyOK && g.rng.Chance(1, 2)) {
		ops = append(ops, fmt.Sprintf("commit %d", i))
		g.pending[i] = false
	}

	return append(ops, fmt.Sprintf("reopen %d", i))
}

func (g *gen) readOp(i int) string {
	switch x := g.rng.Intn(100); {
	case x < 22 && g.flavour[i] != "set":
		return fmt.Sprintf("get %d %s", i, g.key())
	case x < 44:
		return fmt.Sprintf("has %d %s", i, g.key())
	case x < 58:
		return fmt.Sprintf("size %d", i)
	case x < 70:
		stop := 0
		if g.rng.Chance(1, 3) {
			stop = g.rng.Range(1, 3)
		}

		return fmt.Sprintf("stream %d %d", i, stop)
	case x < 74:
		return fmt.Sprintf("peek %d", i)
	case x < 80:
		return fmt.Sprintf("restored %d", i)
	default:
		return fmt.Sprintf("root %d", i)
	}
}

// rmwOp: read-modify-write-back of key k; the first byte of the value becomes b.
func (g *gen) rmwOp(i int, k, b string) string {
	g.pending[i] = true

	return fmt.Sprintf("rmw %d %s %s", i, k, b)
}

var rmwBytes = []string{"61", "62", "00", "7f", "41"}

// idfailEpisode: the identifier encoder fails during a Commit (which must change nothing), or the decoder
// fails while a new instance is constructed (new trie over the old records; the property is silent from then on).
func (g *gen) idfailEpisode(i int) []string {
	switch g.rng.Intn(4) {
	case 0, 1:
		return []string{fmt.Sprintf("idfail %d enc", i), fmt.Sprintf("commit %d", i), fmt.Sprintf("restored %d", i), fmt.Sprintf("idfail %d off", i)}
	case 2:
		ops := []string{fmt.Sprintf("idfail %d dec", i), fmt.Sprintf("reopen %d", i), fmt.Sprintf("restored %d", i), g.readOp(i), fmt.Sprintf("idfail %d off", i)}
		if g.rng.Bool() {
			g.pending[i] = false
			ops = append(ops, fmt.Sprintf("commit %d", i), fmt.Sprintf("reopen %d", i), fmt.Sprintf("peek %d", i))
		}

		return ops
	}

	return []string{fmt.Sprintf("idfail %d both", i), fmt.Sprintf("commit %d", i), fmt.Sprintf("reopen %d", i), fmt.Sprintf("idfail %d off", i)}
}

// faultEpisode: the root cell cannot be written during a Commit (which must change nothing), or the size cell / the
// raw-key store cannot be written during Set / Delete (no roll-back: the property is silent about the instance from
// the first call that failed half way; the model follows the code).
func (g *gen) faultEpisode(i int) []string {
	if g.rng.Chance(1, 5) {
		// the raw keys cannot be iterated: Stream fails without calling back, everything else works
		return []string{fmt.Sprintf("fault %d raw-r", i), fmt.Sprintf("stream %d 0", i), g.setOp(i, g.key(), g.val()), fmt.Sprintf("stream %d 1", i), g.readOp(i),
			fmt.Sprintf("fault %d off", i), fmt.Sprintf("stream %d 0", i)}
	}
	switch g.rng.Intn(3) {
	case 0:
		return []string{fmt.Sprintf("fault %d root-w", i), fmt.Sprintf("commit %d", i), fmt.Sprintf("restored %d", i), fmt.Sprintf("peek %d", i), fmt.Sprintf("fault %d off", i)}
	case 1:
		return append(append([]string{fmt.Sprintf("fault %d size-w", i)}, g.writesUnderFault(i)...), fmt.Sprintf("size %d", i),
			fmt.Sprintf("peek %d", i), fmt.Sprintf("fault %d off", i), fmt.Sprintf("stream %d 0", i), fmt.Sprintf("root %d", i))
	}

	return append(append([]string{fmt.Sprintf("fault %d raw-w", i)}, g.writesUnderFault(i)...), fmt.Sprintf("stream %d 0", i),
		fmt.Sprintf("peek %d", i), fmt.Sprintf("fault %d off", i), fmt.Sprintf("size %d", i), g.readOp(i), fmt.Sprintf("commit %d", i), fmt.Sprintf("reopen %d", i), fmt.Sprintf("stream %d 0", i))
}

// writesUnderFault: a few Set / Delete calls in random order (the first one that fails half way ends the oracle's
// judgement of the instance, so each kind has to come first sometimes); deletes go for the keys written last.
func (g *gen) writesUnderFault(i int) []string {
	k1, k2 := g.key(), g.key()
	var ops []string
	if g.rng.Bool() {
		// make sure there is something to delete, while the store still works
		ops = append(ops, fmt.Sprintf("fault %d off", i), g.setOp(i, k1, g.val()))
		switch g.rng.Intn(2) {
		case 0:
			ops = append(ops, fmt.Sprintf("fault %d size-w", i))
		default:
			ops = append(ops, fmt.Sprintf("fault %d raw-w", i))
		}
		ops = append(ops, g.delOp(i, k1), g.setOp(i, k2, g.val()))
	} else {
		ops = append(ops, g.setOp(i, k1, g.val()), g.delOp(i, k1), g.setOp(i, k2, g.val()))
	}

	return append(ops, g.delOp(i, g.key()))
}

func (g *gen) randomOp(i int) []string {
	if g.idfail && g.rng.Chance(1, 12) {
		return g.idfailEpisode(i)
	}
	if g.faults && g.rng.Chance(1, 14) {
		return g.faultEpisode(i)
	}
	if g.rng.Chance(1, 16) {
		// a burst on ONE key: every write is followed (and preceded) by reads of that key — stale per-key state
		// (memoized presence / values / roots) shows here
		k := g.key()
		read := func() string {
			switch {
			case g.flavour[i] != "set" && g.rng.Bool():
				return fmt.Sprintf("get %d %s", i, k)
			case g.rng.Chance(1, 4):
				return fmt.Sprintf("root %d", i)
			case g.rng.Chance(1, 4):
				return fmt.Sprintf("size %d", i)
			}

			return fmt.Sprintf("has %d %s", i, k)
		}
		ops := []string{read()}
		for j, n := 0, g.rng.Range(2, 4); j < n; j++ {
			if g.rng.Chance(2, 5) {
				ops = append(ops, g.delOp(i, k))
			} else {
				ops = append(ops, g.setOp(i, k, g.val()))
			}
			ops = append(ops, read())
			if g.rng.Chance(1, 3) {
				ops = append(ops, read())
			}
		}

		return ops
	}
	switch x := g.rng.Intn(100); {
	case x < 8 && g.flavour[i] != "set":
		return []string{g.rmwOp(i, g.key(), hx.Pick(g.rng, rmwBytes))}
	case x < 34:
		k, v := g.key(), g.val()
		ops := []string{g.setOp(i, k, v)}
		if g.flavour[i] != "set" && (strings.HasPrefix(v, "dd") || strings.HasPrefix(v, "cc") || len(v) > 100) {
			// a value that does not decode / decodes short / is long is read back at once
			ops = append(ops, fmt.Sprintf("get %d %s", i, k))
			if g.rng.Bool() {
				ops = append(ops, fmt.Sprintf("stream %d 0", i))
			}
		}

		return ops
	case x < 50:
		return []string{g.delOp(i, g.key())}
	case x < 57:
		g.pending[i] = false

		return []string{fmt.Sprintf("commit %d", i)}
	case x < 63:
		return g.reopenOps(i)
	default:
		return []string{g.readOp(i)}
	}
}

func shuffle[T any](rng *hx.Rng, xs []T) {
	for i := len(xs) - 1; i > 0; i-- {
		j := rng.Intn(i + 1)
		xs[i], xs[j] = xs[j], xs[i]
	}
}

// pathTo produces a history of instance i that ends with exactly the contents `target`: keys are
// written in a random order, some first with another value, some deleted and re-inserted, keys
// outside the target are inserted and deleted again, commits / reopens / reads are sprinkled in.
func (g *gen) pathTo(i int, target map[string]string) []string {
	var tasks [][]string
	tkeys := make([]string, 0, len(target))
	for k := range target {
		tkeys = append(tkeys, k)
	}
	sort.Strings(tkeys)
	for _, k := range tkeys {
		v := target[k]
		var t []string
		if g.rng.Chance(1, 3) {
			t = append(t, g.setOp(i, k, hx.Pick(g.rng, plainValues)))
		}
		if g.rng.Chance(1, 4) {
			t = append(t, g.setOp(i, k, v), g.delOp(i, k))
		}
		if g.flavour[i] != "set" && len(v) >= 2 && v != "nil" && v[:2] < "80" && g.rng.Chance(1, 3) {
			// the target value arrives by read-modify-write-back: first with another first byte, then Get,
			// the first byte patched in the returned slice, Set
			other := "5a"
			if v[:2] == other {
				other = "5b"
			}
			t = append(t, g.setOp(i, k, other+v[2:]))
			if g.rng.Chance(1, 3) {
				t = append(t, fmt.Sprintf("commit %d", i))
			}
			t = append(t, g.rmwOp(i, k, v[:2]))
		} else {
			t = append(t, g.setOp(i, k, v))
		}
		tasks = append(tasks, t)
	}
	for _, k := range g.keys {
		if _, in := target[k]; !in && g.rng.Chance(1, 3) {
			tasks = append(tasks, []string{g.setOp(i, k, hx.Pick(g.rng, plainValues)), g.delOp(i, k)})
		}
	}
	// random merge of the tasks, preserving the order inside each task
	var ops []string
	for len(tasks) > 0 {
		j := g.rng.Intn(len(tasks))
		ops = append(ops, tasks[j][0])
		g.pending[i] = true
		if tasks[j] = tasks[j][1:]; len(tasks[j]) == 0 {
			tasks = append(tasks[:j], tasks[j+1:]...)
		}
		switch x := g.rng.Intn(100); {
		case x < 3 && g.idfail:
			// a Commit with a failing identifier encoder changes nothing (the history stays clean)
			ops = append(ops, fmt.Sprintf("idfail %d enc", i), fmt.Sprintf("commit %d", i), fmt.Sprintf("idfail %d off", i))
		case x < 3 && g.faults:
			// the same for a root cell that cannot be written
			ops = append(ops, fmt.Sprintf("fault %d root-w", i), fmt.Sprintf("commit %d", i), fmt.Sprintf("fault %d off", i))
		case x < 8:
			g.pending[i] = false
			ops = append(ops, fmt.Sprintf("commit %d", i))
		case x < 16:
			ops = append(ops, g.reopenOps(i)...)
		case x < 30:
			ops = append(ops, g.readOp(i))
		}
	}

	return ops
}

// merge interleaves the per-instance histories randomly.
func merge(rng *hx.Rng, hs [][]string) []string {
	var ops []string
	for {
		var live []int
		for i, h := range hs {
			if len(h) > 0 {
				live = append(live, i)
			}
		}
		if len(live) == 0 {
			return ops
		}
		i := hx.Pick(rng, live)
		n := rng.Range(1, 3)
		if n > len(hs[i]) {
			n = len(hs[i])
		}
		ops = append(ops, hs[i][:n]...)
		hs[i] = hs[i][n:]
	}
}

// genBulk: two instances and 30-90 keys — instance 0 inserts all of them, commits, is reopened, deletes about half and
// overwrites some, commits, is reopened and reads everything back; instance 1 receives the final contents directly, in
// another order: one root class.  (Sizes beyond the handful of keys of the other sessions: deeper tries, more raw keys.)
// bulkScale is the tier's scale (1 quick, 20 thorough): in the thorough tier one bulk session in eight holds 300-1200 keys.
var bulkScale = 1

func genBulk(rng *hx.Rng) []string {
	n := rng.Range(30, 90)
	if bulkScale > 1 && rng.Chance(1, 8) {
		n = rng.Range(300, 1200)
	}
	seen := map[string]bool{}
	var keys []string
	for len(keys) < n {
		k := fmt.Sprintf("%02x%02x%02x", rng.Intn(250), rng.Intn(256), rng.Intn(256))
		if k[:2] == "ee" || k[:2] == "bd" || seen[k] {
			continue
		}
		seen[k] = true
		keys = append(keys, k)
	}
	letters := []string{"i", "p", "r", "l"}
	fl := hx.Pick(rng, []string{"map", "mapa", "set"})
	tok := fl
	if rng.Bool() {
		cd := hx.Pick(rng, letters) + hx.Pick(rng, letters)
		if fl == "set" {
			cd += "i"
		} else {
			cd += hx.Pick(rng, letters)
		}
		tok += ":" + cd
	}
	isSet := fl == "set"
	val := func() string { return hx.Pick(rng, []string{"61", "62", "-", "0001020304050607"}) }
	put := func(i int, k, v string) string {
		if isSet {
			return fmt.Sprintf("add %d %s", i, k)
		}

		return fmt.Sprintf("set %d %s %s", i, k, v)
	}
	ops := []string{"open 0 " + tok, "open 1 " + tok}
	final := map[string]string{}
	for _, k := range keys {
		v := val()
		final[k] = v
		ops = append(ops, put(0, k, v))
	}
	ops = append(ops, "size 0", "root 0", "commit 0", "reopen 0", "size 0", "root 0")
	order := append([]string(nil), keys...)
	shuffle(rng, order)
	for j, k := range order {
		switch {
		case j%2 == 0:
			ops = append(ops, fmt.Sprintf("del 0 %s", k))
			delete(final, k)
		case j%5 == 1 && !isSet:
			v := val()
			final[k] = v
			ops = append(ops, put(0, k, v))
		}
		if j == len(order)/2 {
			ops = append(ops, "commit 0", "reopen 0")
		}
	}
	ops = append(ops, "size 0", "commit 0", "reopen 0", "size 0", "stream 0 0", "root 0")
	rest := make([]string, 0, len(final))
	for k := range final {
		rest = append(rest, k)
	}
	sort.Strings(rest)
	shuffle(rng, rest)
	for _, k := range rest {
		ops = append(ops, put(1, k, final[k]))
	}
	ops = append(ops, "root 1", "size 1", "peek 1")
	for _, k := range order {
		ops = append(ops, fmt.Sprintf("has 0 %s", k))
		if !isSet && rng.Chance(1, 3) {
			ops = append(ops, fmt.Sprintf("get 0 %s", k))
		}
	}

	return append(ops, "peek 0")
}

func genSession(rng *hx.Rng, clusters []mine.Cluster, nOps int) []string {
	if rng.Chance(1, 40) {
		return genBulk(rng)
	}
	c := hx.Pick(rng, clusters)
	g := &gen{rng: rng}
	// key alphabet: the long-prefix core, some nearer and farther relatives, strangers, odd lengths
	g.keys = append(g.keys, c.Core...)
	g.keys = append(g.keys, c.Near[rng.Intn(len(c.Near))], c.Far[rng.Intn(len(c.Far))], c.Stranger[rng.Intn(len(c.Stranger))])
	if rng.Chance(1, 3) {
		g.keys = append(g.keys, hx.Pick(rng, []string{"-", "41", "4142434445", c.Core[0] + "00"}))
	}
	nInst := rng.Range(2, 4)
	mode := rng.Intn(10)
	for i := 0; i < nInst; i++ {
		switch {
		case mode < 5:
			g.flavour = append(g.flavour, hx.Pick(rng, []string{"map", "mapa"}))
		case mode < 7:
			g.flavour = append(g.flavour, "set")
		default:
			g.flavour = append(g.flavour, hx.Pick(rng, []string{"map", "mapa", "set"}))
		}
	}
	// serializers: half of the sessions use the identity serializers throughout; in the others every instance draws
	// its identifier / key / value serializer from identity, tag byte, reversed bytes, length byte (all round-trip)
	plainCodecs := rng.Chance(1, 2)
	letters := []string{"i", "p", "r", "l"}
	sharedKV, kc0, vc0 := rng.Chance(1, 2), hx.Pick(rng, letters), hx.Pick(rng, letters)
	for i := 0; i < nInst; i++ {
		tok := g.flavour[i]
		if !plainCodecs {
			// (in half of these sessions all instances share the key and value serializer, so that equal plain
			// maps still meet in one root class)
			kc, vc := hx.Pick(rng, letters), hx.Pick(rng, letters)
			if sharedKV {
				kc, vc = kc0, vc0
			}
			cd := hx.Pick(rng, letters) + kc
			if g.flavour[i] == "set" {
				cd += "i"
			} else {
				cd += vc
			}
			if cd != "iii" {
				tok += ":" + cd
			}
		}
		g.tok = append(g.tok, tok)
	}
	g.pending = make([]bool, nInst)
	g.dirtyOK = rng.Chance(1, 16)
	g.idfail = rng.Chance(1, 5)
	g.faults = rng.Chance(1, 6)
	var ops []string
	// 2 of 5 sessions: all instances over realm views of ONE shared database (sibling realms, nested
	// realms, a realm that is a prefix of another, the bare database next to realms)
	shared := rng.Chance(2, 5)
	if shared {
		realms := hx.Pick(rng, [][]string{
			{"61", "62", "63", "64"},
			{"61", "61/62", "61/63", "61/62/64"},
			{"-", "61", "6162", "61/63"},
			{"6162", "61", "61/6264", "62"},
			{"04", "05/00", "05/01", "05/0401"},
			{"01", "02", "03", "00"},
		})
		ops = append(ops, "opendb 0")
		for i := 0; i < nInst; i++ {
			ops = append(ops, fmt.Sprintf("openr %d %s 0 %s", i, g.tok[i], realms[i]))
		}
	} else {
		for i := 0; i < nInst; i++ {
			ops = append(ops, fmt.Sprintf("open %d %s", i, g.tok[i]))
		}
	}
	if rng.Chance(2, 5) {
		// convergent session: every instance is driven to the same target contents (one of them
		// sometimes to a neighbour of it) through different histories
		target := map[string]string{}
		anySet := false
		for _, f := range g.flavour {
			anySet = anySet || f == "set"
		}
		ks := append([]string(nil), g.keys...)
		sort.Strings(ks)
		shuffle(rng, ks)
		for _, k := range ks[:rng.Range(1, len(ks)-1)] {
			if anySet {
				target[k] = hx.Pick(rng, []string{"-", "nil"})
			} else {
				target[k] = hx.Pick(rng, plainValues)
			}
		}
		hs := make([][]string, nInst)
		for i := 0; i < nInst; i++ {
			t := target
			if i > 0 && rng.Chance(1, 4) {
				// a neighbour: one key more, one key less or one value changed
				t = map[string]string{}
				for k, v := range target {
					t[k] = v
				}
				k := hx.Pick(rng, ks)
				if _, in := t[k]; in && rng.Bool() {
					delete(t, k)
				} else if g.flavour[i] != "set" && !anySet {
					t[k] = "6e65696768626f7572"
				} else {
					t[k] = "-"
				}
			}
			hs[i] = g.pathTo(i, t)
			hs[i] = append(hs[i], fmt.Sprintf("root %d", i))
		}
		ops = append(ops, merge(rng, hs)...)
		if shared || rng.Chance(1, 3) {
			// one instance deletes / overwrites entries the others hold too and commits; the others are
			// reopened at their commit points and read everything back
			j := rng.Intn(nInst)
			tks := make([]string, 0, len(target))
			for k := range target {
				tks = append(tks, k)
			}
			sort.Strings(tks)
			shuffle(rng, tks)
			for _, k := range tks[:rng.Range(1, len(tks))] {
				if rng.Chance(3, 4) {
					ops = append(ops, g.delOp(j, k))
				} else {
					ops = append(ops, g.setOp(j, k, "6f76657277726974"))
				}
			}
			ops = append(ops, fmt.Sprintf("commit %d", j))
			g.pending[j] = false
			if rng.Bool() {
				ops = append(ops, fmt.Sprintf("reopen %d", j))
			}
			for i := 0; i < nInst; i++ {
				if i == j {
					continue
				}
				if g.pending[i] {
					ops = append(ops, fmt.Sprintf("commit %d", i))
					g.pending[i] = false
				}
				ops = append(ops, fmt.Sprintf("reopen %d", i))
				for _, k := range tks {
					ops = append(ops, fmt.Sprintf("has %d %s", i, k))
					if g.flavour[i] != "set" && rng.Bool() {
						ops = append(ops, fmt.Sprintf("get %d %s", i, k))
					}
				}
			}
		}
	} else {
		// random session over a small alphabet (2 long-prefix keys plus 1-3 others, 3 values), so that
		// different instances and time points meet in equal contents by chance
		ks := append([]string(nil), g.keys[2:]...)
		shuffle(rng, ks)
		g.keys = append(g.keys[:2:2], ks[:rng.Range(1, 3)]...)
		g.vals = []string{hx.Pick(rng, plainValues), hx.Pick(rng, plainValues), hx.Pick(rng, []string{"-", "nil", "61"})}
		for len(ops) < nOps {
			ops = append(ops, g.randomOp(rng.Intn(nInst))...)
		}
	}
	for i := 0; i < nInst; i++ {
		ops = append(ops, fmt.Sprintf("root %d", i), fmt.Sprintf("size %d", i), fmt.Sprintf("stream %d 0", i), fmt.Sprintf("peek %d", i))
	}

	return ops
}

// quietRun executes a session without reporting anything and returns its oracle failures.
func quietRun(r *hx.Run, ops []string) []failRec {
	ss := newSession(r)
	ss.quiet = true
	for _, op := range ops {
		ss.exec(op)
	}

	return ss.fails
}

func sameFail(a, b failRec) bool {
	return a.oracle == b.oracle && a.op == b.op && a.flavour == b.flavour
}

func hasFail(fs []failRec, t failRec) bool {
	for _, f := range fs {
		if sameFail(f, t) {
			return true
		}
	}

	return false
}

// shrink returns a shorter session that still fails the oracle of `t` (same oracle, same kind of request,
// same flavour): the lines after the failing one are dropped, then single lines are removed, from the
// back to the front, as long as the failure stays.
func shrink(r *hx.Run, ops []string, t failRec) []string {
	cur := append([]string(nil), ops[:t.line]...)
	for pass := 0; pass < 3; pass++ {
		changed := false
		for i := len(cur) - 2; i >= 0; i-- {
			cand := append(append([]string(nil), cur[:i]...), cur[i+1:]...)
			if hasFail(quietRun(r, cand), t) {
				cur, changed = cand, true
			}
		}
		if !changed {
			break
		}
	}
	// the last failing line may now come earlier
	if fs := quietRun(r, cur); len(fs) > 0 {
		for _, f := range fs {
			if sameFail(f, t) {
				cur = cur[:f.line]

				break
			}
		}
	}

	return cur
}

var shrunkSigs = map[string]bool{}

// runCase: a session is first executed quietly; for every kind of oracle failure (oracle, request kind,
// flavour) not met before, the shrunk session is emitted as a case of its own *before* the session
// itself, so that the first finding of a signature — the one the replay is taken from — comes with a
// short failing input.
func runCase(r *hx.Run, sub uint64, ops []string) {
	if r.ReplayLines() == nil {
		for _, f := range quietRun(r, ops) {
			sig := f.oracle + "/" + f.op + "/" + f.flavour
			if shrunkSigs[sig] || len(shrunkSigs) >= 60 {
				continue
			}
			shrunkSigs[sig] = true
			small := shrink(r, ops, f)
			r.Count("shrunk-failing-sessions")
			r.CountN("shrunk:lines-before", len(ops))
			r.CountN("shrunk:lines-after", len(small))
			if len(small) < len(ops) {
				emitCase(r, sub, small)
			}
		}
	}
	emitCase(r, sub, ops)
}

func emitCase(r *hx.Run, sub uint64, ops []string) {
	r.Case(sub)
	ss := newSession(r)
	for _, op := range ops {
		ans := ss.exec(op)
		r.Line(op, ans)
		r.Count("op:" + strings.Fields(op)[0])
		r.Count("ans:" + strings.Fields(ans)[0])
	}
	r.CountN("root-classes", len(ss.classes))
	maxKeys := 0
	for _, in := range ss.insts {
		if len(in.want) > maxKeys {
			maxKeys = len(in.want)
		}
	}
	switch {
	case maxKeys >= 150:
		r.Count("session:final-keys>=150")
	case maxKeys >= 30:
		r.Count("session:final-keys>=30")
	case maxKeys >= 10:
		r.Count("session:final-keys-10..29")
	case maxKeys >= 4:
		r.Count("session:final-keys-4..9")
	default:
		r.Count("session:final-keys<4")
	}
	if ss.sameClassOtherHistory && len(ss.classes) >= 2 && ss.mutations >= 5 {
		h := sha256.Sum256([]byte(strings.Join(ops, "\n")))
		r.Nontrivial(string(h[:8]))
		if ss.reopens > 0 {
			r.Count("nontrivial-with-reopen-at-commit-point")
		}
	}
	r.Sample(r.CaseLines())
}

// observeFailedFlush measures (not judged: third-party code, outside the property's quantifier) what a write fault of
// the node store during Commit leaves behind: the root cell is already written; smt marks nodes persisted before it
// writes them, so a later Commit that succeeds may skip nodes that never reached the store.
func observeFailedFlush() map[string]string {
	obs := map[string]string{}
	hx.Safely(func() {
		db := mapdb.NewMapDB()
		ctl := &faultCtl{region: -1}
		st := &faultStore{inner: db, ctl: ctl, region: -1}
		m := openRawMap(st)
		_ = m.Set(hkey("a"), hval("1"))
		_ = m.Set(hkey("b"), hval("2"))
		ctl.region = 1
		err := m.Commit()
		obs["commit_with_failing_node_store"] = fmt.Sprint(err)
		obs["restored_after_it"] = strconv.FormatBool(openRawMap(st).WasRestoredFromStorage())
		_, herr := openRawMap(st).Has(hkey("a"))
		obs["has_on_new_instance_after_it"] = fmt.Sprint(herr)
		ctl.region = -1
		obs["second_commit_without_fault"] = fmt.Sprint(m.Commit())
		p := openRawMap(st)
		h, herr2 := p.Has(hkey("a"))
		obs["has_on_new_instance_after_second_commit"] = fmt.Sprintf("%v %v", h, herr2)
		obs["roots_equal_after_second_commit"] = strconv.FormatBool(p.Root() == m.Root())
	})

	return obs
}

func main() {
	r := hx.Start()
	r.Rule = "sessions of 2-4 map/set instances (each over its own mapdb, or — 2 of 5 sessions — all over sibling / nested / prefix-related realm views of one shared mapdb) x ~30-60 requests open/set/add/del/get/has/size/stream/commit/reopen/root/restored; " +
		"keys: 3 keys sharing >=16 leading sha256-path bits, relatives sharing 12..15 and 8..11 bits, strangers, odd lengths, the empty key; " +
		"values: nil-encoded, empty, short, 40 bytes, un-encodable, un-decodable; 40% convergent sessions (different histories to equal or neighbouring contents); " +
		"non-trivial = two root points with equal contents reached by different instances or after intervening changes, at least two root classes and at least 5 state changes; distinct by sha256 of the request lines"
	if lines := r.ReplayLines(); lines != nil {
		runCase(r, 0, lines)
		r.Finish()

		return
	}
	r.Extra["observation_failed_flush_then_commit"] = observeFailedFlush()
	clusters := mine.Clusters(24)
	r.Extra["mined_clusters"] = len(clusters)
	r.Extra["example_cluster"] = map[string][]string{"share>=16bits": clusters[0].Core, "share12..15bits": clusters[0].Near,
		"share8..11bits": clusters[0].Far, "strangers": clusters[0].Stranger}
	k := clusters[0]
	// corpus: hand-written histories and minimised past failures run first
	corpus := [][]string{
		// a nil-encoded empty value is a value (was: invisible to Has/Get/Delete but counted and streamed)
		{"open 0 map", "set 0 " + k.Core[0] + " nil", "has 0 " + k.Core[0], "get 0 " + k.Core[0], "size 0", "set 0 " + k.Core[0] + " nil", "size 0",
			"stream 0 0", "root 0", "del 0 " + k.Core[0], "size 0", "root 0"},
		// set flavour, map with empty values and map with nil-encoded values: one root class
		{"open 0 set", "open 1 map", "open 2 map", "add 0 " + k.Core[0], "add 0 " + k.Core[1], "set 1 " + k.Core[1] + " -", "set 1 " + k.Core[0] + " 61",
			"set 1 " + k.Core[0] + " -", "set 2 " + k.Core[0] + " nil", "set 2 " + k.Core[2] + " 00", "set 2 " + k.Core[1] + " nil", "del 2 " + k.Core[2],
			"root 0", "root 1", "root 2", "commit 1", "reopen 1", "root 1", "has 1 " + k.Core[0], "size 1", "stream 1 0"},
		// extension nodes: split, join and absorb across commit / reopen (lazy nodes)
		{"open 0 map", "open 1 map", "set 0 " + k.Core[0] + " 61", "set 0 " + k.Core[1] + " 62", "commit 0", "reopen 0", "set 0 " + k.Near[0] + " 61", "root 0",
			"set 0 " + k.Core[2] + " 00", "commit 0", "reopen 0", "del 0 " + k.Near[0], "del 0 " + k.Core[2], "root 0", "set 1 " + k.Core[1] + " 62", "set 1 " + k.Core[0] + " 61",
			"root 1", "del 0 " + k.Core[1], "root 0", "del 1 " + k.Core[1], "root 1", "commit 0", "reopen 0", "restored 0", "restored 1", "size 0", "stream 0 0"},
		// un-committed changes are not seen by a new instance, but the raw keys and the size are
		{"open 0 map", "set 0 " + k.Core[0] + " 61", "commit 0", "set 0 " + k.Core[1] + " 62", "del 0 " + k.Core[0], "reopen 0", "size 0", "stream 0 0",
			"has 0 " + k.Core[0], "has 0 " + k.Core[1], "del 0 " + k.Core[0], "size 0", "del 0 " + k.Core[0], "root 0"},
		// serializer failures leave everything untouched
		{"open 0 map", "set 0 ee01 61", "set 0 " + k.Core[0] + " ee01", "set 0 ee01 ee01", "size 0", "root 0", "set 0 " + k.Core[0] + " dd01", "get 0 " + k.Core[0],
			"set 0 " + k.Far[0] + " cc0102", "get 0 " + k.Far[0], "stream 0 0", "stream 0 1", "has 0 ee01", "del 0 ee01", "get 0 ee01", "size 0", "root 0"},
	}
	// read-modify-write-back through non-copying deserializers: the value handed to Set is the leaf's own slice
	corpus = append(corpus, []string{"open 0 mapa", "open 1 map", "set 0 " + k.Core[0] + " 61616161", "root 0", "rmw 0 " + k.Core[0] + " 62", "get 0 " + k.Core[0], "root 0",
		"set 1 " + k.Core[0] + " 62616161", "root 1", "commit 0", "reopen 0", "get 0 " + k.Core[0], "root 0", "rmw 0 " + k.Core[0] + " 61", "rmw 0 " + k.Core[1] + " 61",
		"commit 0", "rmw 0 " + k.Core[0] + " 62", "commit 0", "reopen 0", "root 0", "get 0 " + k.Core[0], "size 0", "stream 0 0"})
	// non-identity identifier / key / value serializers: reopen through the stored form of the root, raw keys in the
	// order of their stored form, one root class for equal stored contents
	corpus = append(corpus, []string{"open 0 map:pri", "open 1 mapa:lri", "open 2 set:rpi", "open 3 map:ilp", "commit 2", "reopen 2", "root 2", "restored 2",
		"set 0 " + k.Core[0] + " 61", "set 0 " + k.Core[1] + " -", "set 1 " + k.Core[1] + " nil", "set 1 " + k.Core[0] + " 61", "root 0", "root 1", "peek 0",
		"commit 0", "reopen 0", "root 0", "stream 0 0", "get 0 " + k.Core[0], "add 2 " + k.Core[0], "commit 2", "reopen 2", "has 2 " + k.Core[0], "peek 2",
		"set 3 " + k.Core[0] + " -", "set 3 " + k.Far[0] + " cc0102", "get 3 " + k.Far[0], "commit 3", "reopen 3", "stream 3 0", "peek 3", "root 3", "rmw 1 " + k.Core[0] + " 62", "root 1"})
	// failing identifier serializers: a failed Commit is no Commit; a constructor that cannot decode the root starts anew
	corpus = append(corpus, []string{"open 0 map", "set 0 " + k.Core[0] + " 61", "idfail 0 enc", "commit 0", "restored 0", "peek 0", "reopen 0", "has 0 " + k.Core[0],
		"idfail 0 off", "set 0 " + k.Core[0] + " 61", "commit 0", "restored 0", "set 0 " + k.Core[1] + " 62", "idfail 0 enc", "commit 0", "idfail 0 off", "peek 0", "commit 0",
		"reopen 0", "root 0", "size 0", "idfail 0 dec", "reopen 0", "restored 0", "has 0 " + k.Core[0], "size 0", "stream 0 0", "root 0", "idfail 0 off", "commit 0", "peek 0",
		"reopen 0", "has 0 " + k.Core[0], "root 0", "peek 0"})
	// a raw key that does not decode ends Stream (kvstore.TypedStore.IterateKeys); everything else still works
	corpus = append(corpus, []string{"open 0 map", "open 1 set:ipi", "set 0 " + k.Core[0] + " 61", "set 0 bd01 62", "set 0 ff 63", "get 0 bd01", "has 0 bd01", "size 0", "stream 0 0",
		"stream 0 1", "root 0", "commit 0", "reopen 0", "stream 0 0", "del 0 bd01", "stream 0 0", "add 1 bd01", "add 1 00", "stream 1 0", "has 1 bd01", "peek 1"})
	// write faults of the store: a Commit that cannot store the root changes nothing; Set / Delete have no roll-back
	corpus = append(corpus, []string{"open 0 map", "open 1 set", "set 0 " + k.Core[0] + " 61", "commit 0", "set 0 " + k.Core[1] + " 62", "fault 0 root-w", "commit 0", "peek 0", "fault 0 off",
		"commit 0", "reopen 0", "root 0", "fault 0 size-w", "set 0 " + k.Core[0] + " 63", "set 0 " + k.Core[2] + " 64", "size 0", "has 0 " + k.Core[2], "stream 0 0", "del 0 " + k.Core[1], "size 0", "peek 0",
		"fault 0 off", "set 0 " + k.Far[0] + " -", "size 0", "root 0", "add 1 " + k.Core[0], "fault 1 raw-w", "del 1 " + k.Core[0], "has 1 " + k.Core[0], "stream 1 0", "size 1", "add 1 " + k.Core[1], "add 1 " + k.Core[0], "has 1 " + k.Core[1], "size 1", "stream 1 0",
		"del 1 " + k.Core[0], "has 1 " + k.Core[0], "stream 1 0", "size 1", "fault 1 off", "peek 1", "commit 1", "reopen 1", "stream 1 0", "size 1", "has 1 " + k.Core[1]})
	corpus = append(corpus, []string{"open 0 map", "set 0 " + k.Core[0] + " 61", "fault 0 raw-r", "stream 0 0", "set 0 " + k.Core[1] + " 62", "has 0 " + k.Core[1], "size 0", "stream 0 1",
		"commit 0", "reopen 0", "fault 0 off", "stream 0 0", "size 0"})
	corpus = append(corpus, []string{"open 0 mapa:ppp", "set 0 " + k.Core[0] + " 61", "set 0 " + k.Core[1] + " 62", "fault 0 size-w", "del 0 " + k.Core[0], "size 0", "has 0 " + k.Core[0],
		"stream 0 0", "peek 0", "fault 0 off", "del 0 " + k.Core[1], "size 0", "commit 0", "reopen 0", "size 0", "stream 0 0"})
	for _, c := range corpus {
		runCase(r, 0, c)
	}
	n := 1500 * r.Scale
	bulkScale = r.Scale
	for i := 0; i < n; i++ {
		rng, sub := r.Rng.Fork()
		runCase(r, sub, genSession(rng, clusters, 30))
	}
	r.Finish()
}
