// C09, trie part: drives a real smt.SMT (github.com/pokt-network/smt v0.9.2) in the configuration the
// ads package uses — sha256 path hasher, no value hasher — over an in-memory node store, and prints
// the canonical answers that the Lean trie model (Hive/Model/AdsTrie.lean, the trie *with* extension
// nodes) must reproduce line by line: Get results, Delete's not-found answer, roots as equality
// classes over all tries and time points of a session, and after every Commit the shape of the trie
// as the node store holds it (walked from the root: leaf / inner / extension nodes with their bit
// runs) together with the number of records in the store.
//
// Independent oracle (no Lean): a plain Go map path -> value per trie decides Get and Delete; root
// equality must coincide with contents equality; after Commit every node reachable from the root must
// be in the store and nothing else; the walked trie, with extension nodes expanded, must be the
// canonical leaf-compressed trie of the plain map (built here from scratch); an extension node must
// cover at least one bit and have an inner node as child.
package main

import (
	"bytes"
	"crypto/sha256"
	"encoding/hex"
	"errors"
	"fmt"
	"sort"
	"strconv"
	"strings"

	"github.com/pokt-network/smt"

	"verifharness/c09/mine"
	"verifharness/hx"
)

// ---------------------------------------------------------------------------------------------
// the node store

type memStore struct{ m map[string][]byte }

var errNoNode = errors.New("node store: key not found")

func (s *memStore) Get(key []byte) ([]byte, error) {
	v, ok := s.m[string(key)]
	if !ok {
		return nil, errNoNode
	}

	return append([]byte{}, v...), nil
}

func (s *memStore) Set(key, value []byte) error {
	s.m[string(key)] = append([]byte{}, value...)

	return nil
}

func (s *memStore) Delete(key []byte) error {
	delete(s.m, string(key))

	return nil
}

func (s *memStore) Len() int        { return len(s.m) }
func (s *memStore) ClearAll() error { s.m = map[string][]byte{}; return nil }

// ---------------------------------------------------------------------------------------------
// the trie as the store holds it

type node struct {
	kind        byte // 'L', 'I', 'X'
	path        [32]byte
	value       []byte
	left, right *node // inner
	start, end  int   // extension bounds
	child       *node
}

func pathBit(p [32]byte, i int) int { return int(p[i/8]>>(7-uint(i)%8)) & 1 }

var placeholder = make([]byte, 32)

// walk reads the trie below `hash` from the store; missing records are reported in `missing`.
func walk(st *memStore, hash []byte, seen map[string]struct{}, missing *[]string) *node {
	if bytes.Equal(hash, placeholder) {
		return nil
	}
	data, ok := st.m[string(hash)]
	if !ok {
		*missing = append(*missing, hex.EncodeToString(hash[:4]))

		return nil
	}
	seen[string(hash)] = struct{}{}
	switch data[0] {
	case 0:
		n := &node{kind: 'L', value: append([]byte{}, data[33:]...)}
		copy(n.path[:], data[1:33])

		return n
	case 2:
		n := &node{kind: 'X', start: int(data[1]), end: int(data[2])}
		copy(n.path[:], data[3:35])
		n.child = walk(st, data[35:], seen, missing)

		return n
	default:
		return &node{kind: 'I', left: walk(st, data[1:33], seen, missing), right: walk(st, data[33:65], seen, missing)}
	}
}

func (n *node) shape() string {
	switch {
	case n == nil:
		return "-"
	case n.kind == 'L':
		return "L" + hex.EncodeToString(n.path[:4])
	case n.kind == 'X':
		var sb strings.Builder
		for i := n.start; i < n.end; i++ {
			sb.WriteByte(byte('0' + pathBit(n.path, i)))
		}

		return "(X" + sb.String() + " " + n.child.shape() + ")"
	}

	return "(I " + n.left.shape() + " " + n.right.shape() + ")"
}

// expanded is the shape with every extension node replaced by the chain it stands for.
func (n *node) expanded() string {
	switch {
	case n == nil:
		return "-"
	case n.kind == 'L':
		return "L" + hex.EncodeToString(n.path[:])
	case n.kind == 'X':
		s := n.child.expanded()
		for i := n.end - 1; i >= n.start; i-- {
			if pathBit(n.path, i) == 0 {
				s = "(I " + s + " -)"
			} else {
				s = "(I - " + s + ")"
			}
		}

		return s
	}

	return "(I " + n.left.expanded() + " " + n.right.expanded() + ")"
}

// wellFormed: an extension covers >= 1 bit, starts at its depth, and its child is an inner node.
func (n *node) wellFormed(depth int) string {
	switch {
	case n == nil || n.kind == 'L':
		return ""
	case n.kind == 'X':
		if n.start != depth || n.end <= n.start {
			return fmt.Sprintf("extension with bounds [%d,%d) at depth %d", n.start, n.end, depth)
		}
		if n.child == nil || n.child.kind != 'I' {
			return "extension whose child is not an inner node"
		}

		return n.child.wellFormed(n.end)
	}
	if s := n.left.wellFormed(depth + 1); s != "" {
		return s
	}

	return n.right.wellFormed(depth + 1)
}

// canonical builds the leaf-compressed trie of a set of paths from scratch (expanded form).
func canonical(paths [][32]byte, depth int) string {
	switch len(paths) {
	case 0:
		return "-"
	case 1:
		return "L" + hex.EncodeToString(paths[0][:])
	}
	var l, r [][32]byte
	for _, p := range paths {
		if pathBit(p, depth) == 0 {
			l = append(l, p)
		} else {
			r = append(r, p)
		}
	}

	return "(I " + canonical(l, depth+1) + " " + canonical(r, depth+1) + ")"
}

// ---------------------------------------------------------------------------------------------
// one trie and its oracle

type inst struct {
	store     *memStore
	trie      *smt.SMT
	lastRoot  []byte
	want      map[[32]byte][]byte // the plain map
	committed map[[32]byte][]byte
	muts      int
}

func canon(m map[[32]byte][]byte) string {
	keys := make([]string, 0, len(m))
	for k := range m {
		keys = append(keys, string(k[:]))
	}
	sort.Strings(keys)
	var sb strings.Builder
	for _, k := range keys {
		var p [32]byte
		copy(p[:], k)
		sb.WriteString(hex.EncodeToString(p[:]))
		sb.WriteByte('=')
		sb.WriteString(hex.EncodeToString(m[p]))
		sb.WriteByte(';')
	}

	return sb.String()
}

func copyMap(m map[[32]byte][]byte) map[[32]byte][]byte {
	c := make(map[[32]byte][]byte, len(m))
	for k, v := range m {
		c[k] = v
	}

	return c
}

type point struct {
	root     string
	contents string
	inst     int
	muts     int
}

type commitPoint struct {
	contents string
	nodeKeys string
}

type session struct {
	r       *hx.Run
	insts   map[int]*inst
	points  []point
	commits []commitPoint
	lines   []string
	classes map[string]struct{}
	repeat  bool
	muts    int
}

func (ss *session) fail(oracle, op, detail string) {
	ss.r.Fail(oracle, fmt.Sprintf("%s; ops=%s", detail, strings.Join(ss.lines, " | ")),
		map[string]string{"oracle": oracle, "op": op, "part": "trie"})
}

func newTrie(st *memStore) *smt.SMT {
	return smt.NewSparseMerkleTrie(st, sha256.New(), smt.WithValueHasher(nil))
}

func (ss *session) exec(op string) string {
	ss.lines = append(ss.lines, op)
	f := strings.Fields(op)
	if len(f) < 2 {
		return "bad-op"
	}
	idx, err := strconv.Atoi(f[1])
	if err != nil {
		return "bad-op"
	}
	if f[0] == "topen" {
		st := &memStore{m: map[string][]byte{}}
		ss.insts[idx] = &inst{store: st, trie: newTrie(st), want: map[[32]byte][]byte{}, committed: map[[32]byte][]byte{}}

		return "ok"
	}
	in, ok := ss.insts[idx]
	if !ok {
		return "noinst"
	}
	var ans string
	if p := hx.Safely(func() { ans = ss.execOn(in, idx, f) }); p != "" {
		ss.fail("no-panic", f[0], "panic: "+p)

		return "panic"
	}

	return ans
}

// keyAndPath parses `<key> <path>` and insists that the path is sha256(key).
func keyAndPath(k, p string) ([]byte, [32]byte, bool) {
	key, err1 := hex.DecodeString(strings.TrimPrefix(k, "-"))
	pb, err2 := hex.DecodeString(p)
	var path [32]byte
	if err1 != nil || err2 != nil || len(pb) != 32 {
		return nil, path, false
	}
	copy(path[:], pb)

	return key, path, sha256.Sum256(key) == path
}

func (ss *session) execOn(in *inst, idx int, f []string) string {
	switch f[0] {
	case "tput":
		if len(f) != 5 {
			return "bad-op"
		}
		key, path, ok := keyAndPath(f[2], f[3])
		if !ok {
			return "bad-op"
		}
		val := hx.UnHex(f[4]) // never nil: an empty value is []byte{}
		if err := in.trie.Update(key, val); err != nil {
			ss.fail("update-ok", "tput", "Update failed: "+err.Error())

			return "err"
		}
		in.want[path] = val
		in.muts++
		ss.muts++

		return "ok"
	case "tdel":
		if len(f) != 4 {
			return "bad-op"
		}
		key, path, ok := keyAndPath(f[2], f[3])
		if !ok {
			return "bad-op"
		}
		err := in.trie.Delete(key)
		_, present := in.want[path]
		switch {
		case err == nil:
			if !present {
				ss.fail("delete-result", "tdel", fmt.Sprintf("Delete of the absent key %x succeeded", key))
			}
			delete(in.want, path)
			in.muts++
			ss.muts++

			return "ok"
		case errors.Is(err, smt.ErrKeyNotFound):
			if present {
				ss.fail("delete-result", "tdel", fmt.Sprintf("Delete of the present key %x answered ErrKeyNotFound", key))
			}

			return "notfound"
		}
		ss.fail("delete-result", "tdel", "Delete failed: "+err.Error())

		return "err"
	case "tget":
		if len(f) != 4 {
			return "bad-op"
		}
		key, path, ok := keyAndPath(f[2], f[3])
		if !ok {
			return "bad-op"
		}
		v, err := in.trie.Get(key)
		ans := "notfound"
		switch {
		case err != nil:
			ans = "err"
		case v != nil:
			ans = "found " + hx.Hex(v)
		}
		exp := "notfound"
		if w, present := in.want[path]; present {
			exp = "found " + hx.Hex(w)
		}
		if ans != exp {
			ss.fail("get-agrees", "tget", fmt.Sprintf("Get(%x) answered %q, the plain map says %q (%v)", key, ans, exp, err))
		}

		return ans
	case "troot":
		rt := string(in.trie.Root())
		c := canon(in.want)
		cls := len(ss.points)
		for i, p := range ss.points {
			if p.root == rt {
				cls = i

				break
			}
		}
		kind := "new-class"
		for i, p := range ss.points {
			switch {
			case p.contents == c && p.root != rt:
				ss.fail("root-content-only", "troot", fmt.Sprintf("root points %d and %d have equal contents but different roots", i, len(ss.points)))
			case p.contents != c && p.root == rt:
				ss.fail("root-injective", "troot", fmt.Sprintf("root points %d and %d have different contents but equal roots", i, len(ss.points)))
			}
			if p.contents == c {
				if p.inst != idx || p.muts != in.muts {
					kind = "repeat-class-other-history"
					ss.repeat = true
				} else if kind == "new-class" {
					kind = "repeat-class-no-change"
				}
			}
		}
		ss.r.Count("root:" + kind)
		ss.classes[c] = struct{}{}
		ss.points = append(ss.points, point{root: rt, contents: c, inst: idx, muts: in.muts})

		return fmt.Sprintf("class %d", cls)
	case "tcommit":
		if err := in.trie.Commit(); err != nil {
			ss.fail("commit-ok", "tcommit", "Commit failed: "+err.Error())

			return "err"
		}
		in.lastRoot = append([]byte{}, in.trie.Root()...)
		in.committed = copyMap(in.want)
		seen := map[string]struct{}{}
		var missing []string
		root := walk(in.store, in.lastRoot, seen, &missing)
		if len(missing) > 0 {
			ss.fail("store-complete", "tcommit", fmt.Sprintf("nodes %v are reachable from the committed root but not in the store", missing))
		}
		if len(seen) != in.store.Len() {
			ss.fail("store-no-garbage", "tcommit", fmt.Sprintf("%d records in the store, %d reachable from the committed root", in.store.Len(), len(seen)))
		}
		if s := root.wellFormed(0); s != "" {
			ss.fail("well-formed", "tcommit", s)
		}
		paths := make([][32]byte, 0, len(in.want))
		for p := range in.want {
			paths = append(paths, p)
		}
		sort.Slice(paths, func(i, j int) bool { return bytes.Compare(paths[i][:], paths[j][:]) < 0 })
		if got, exp := root.expanded(), canonical(paths, 0); got != exp {
			ss.fail("canonical-shape", "tcommit", fmt.Sprintf("expanded trie %s, canonical trie of the contents %s", got, exp))
		}
		// "deleting back": the same contents as at an earlier commit point of the session
		keys := make([]string, 0, len(seen))
		for k := range seen {
			keys = append(keys, k)
		}
		sort.Strings(keys)
		cp := commitPoint{contents: canon(in.want), nodeKeys: strings.Join(keys, "")}
		for _, o := range ss.commits {
			if o.contents == cp.contents && len(in.want) > 0 {
				if o.nodeKeys == cp.nodeKeys {
					ss.r.Count("same-contents-again:node-set-identical")
				} else {
					ss.r.Count("same-contents-again:node-set-differs(chain-as-inner-nodes-vs-extension)")
				}

				break
			}
		}
		ss.commits = append(ss.commits, cp)
		shape := root.shape()
		for _, k := range []string{"(X", "(I - ", " -)"} {
			if strings.Contains(shape, k) {
				ss.r.Count("commit-shape-has:" + map[string]string{"(X": "extension", "(I - ": "inner-with-empty-left", " -)": "inner-with-empty-right"}[k])
			}
		}

		return fmt.Sprintf("shape %s nodes=%d", shape, in.store.Len())
	case "treopen":
		if in.lastRoot == nil {
			in.trie = newTrie(in.store)
		} else {
			in.trie = smt.ImportSparseMerkleTrie(in.store, sha256.New(), in.lastRoot, smt.WithValueHasher(nil))
		}
		if canon(in.want) != canon(in.committed) {
			ss.r.Count("reopen:uncommitted-changes-dropped")
			in.muts++
		} else {
			ss.r.Count("reopen:at-commit-point")
		}
		in.want = copyMap(in.committed)

		return "ok"
	}

	return "bad-op"
}

// ---------------------------------------------------------------------------------------------
// generation

type gen struct {
	rng  *hx.Rng
	keys []string
}

func pathOf(k string) string {
	h := sha256.Sum256(hx.UnHex(k))

	return hex.EncodeToString(h[:])
}

var values = []string{"-", "61", "62", "00", "000102030405060708090a0b0c0d0e0f101112131415161718191a1b1c1d1e1f2021222324252627"}

func (g *gen) put(i int, k, v string) string { return fmt.Sprintf("tput %d %s %s %s", i, k, pathOf(k), v) }
func (g *gen) del(i int, k string) string    { return fmt.Sprintf("tdel %d %s %s", i, k, pathOf(k)) }
func (g *gen) get(i int, k string) string    { return fmt.Sprintf("tget %d %s %s", i, k, pathOf(k)) }

func (g *gen) sprinkle(i int) []string {
	switch x := g.rng.Intn(100); {
	case x < 10:
		return []string{fmt.Sprintf("tcommit %d", i)}
	case x < 16:
		return []string{fmt.Sprintf("tcommit %d", i), fmt.Sprintf("treopen %d", i)}
	case x < 18:
		return []string{fmt.Sprintf("treopen %d", i)}
	case x < 28:
		return []string{g.get(i, hx.Pick(g.rng, g.keys))}
	case x < 36:
		return []string{fmt.Sprintf("troot %d", i)}
	}

	return nil
}

// pathTo: a history of trie i ending with exactly the keys of `target`.
func (g *gen) pathTo(i int, target map[string]string) []string {
	var tasks [][]string
	tkeys := make([]string, 0, len(target))
	for k := range target {
		tkeys = append(tkeys, k)
	}
	sort.Strings(tkeys)
	for _, k := range tkeys {
		v := target[k]
		var t []string
		if g.rng.Chance(1, 3) {
			t = append(t, g.put(i, k, hx.Pick(g.rng, values)))
		}
		if g.rng.Chance(1, 4) {
			t = append(t, g.put(i, k, v), g.del(i, k))
		}
		tasks = append(tasks, append(t, g.put(i, k, v)))
	}
	for _, k := range g.keys {
		if _, in := target[k]; !in && g.rng.Chance(1, 2) {
			tasks = append(tasks, []string{g.put(i, k, hx.Pick(g.rng, values)), g.del(i, k)})
		}
	}
	var ops []string
	for len(tasks) > 0 {
		j := g.rng.Intn(len(tasks))
		ops = append(ops, tasks[j][0])
		if tasks[j] = tasks[j][1:]; len(tasks[j]) == 0 {
			tasks = append(tasks[:j], tasks[j+1:]...)
		}
		ops = append(ops, g.sprinkle(i)...)
	}

	return ops
}

func merge(rng *hx.Rng, hs [][]string) []string {
	var ops []string
	for {
		var live []int
		for i, h := range hs {
			if len(h) > 0 {
				live = append(live, i)
			}
		}
		if len(live) == 0 {
			return ops
		}
		i := hx.Pick(rng, live)
		n := rng.Range(1, 3)
		if n > len(hs[i]) {
			n = len(hs[i])
		}
		ops = append(ops, hs[i][:n]...)
		hs[i] = hs[i][n:]
	}
}

func shuffle[T any](rng *hx.Rng, xs []T) {
	for i := len(xs) - 1; i > 0; i-- {
		j := rng.Intn(i + 1)
		xs[i], xs[j] = xs[j], xs[i]
	}
}

func genSession(rng *hx.Rng, clusters []mine.Cluster, nOps int) []string {
	c := hx.Pick(rng, clusters)
	g := &gen{rng: rng}
	g.keys = append(g.keys, c.Core...)
	g.keys = append(g.keys, hx.Pick(rng, c.Near), hx.Pick(rng, c.Far), hx.Pick(rng, c.Mid), hx.Pick(rng, c.Stranger))
	if rng.Bool() {
		g.keys = append(g.keys, hx.Pick(rng, []string{c.Near[0], c.Far[1], c.Mid[1], c.Stranger[1], "41", "4142434445", c.Core[0] + "00"}))
	}
	nInst := rng.Range(1, 3)
	var ops []string
	for i := 0; i < nInst; i++ {
		ops = append(ops, fmt.Sprintf("topen %d", i))
	}
	switch mode := rng.Intn(10); {
	case mode < 4:
		// convergent: different histories to the same (or a neighbouring) set of keys
		ks := append([]string(nil), g.keys...)
		sort.Strings(ks)
		shuffle(rng, ks)
		target := map[string]string{}
		for _, k := range ks[:rng.Range(1, len(ks)-1)] {
			target[k] = hx.Pick(rng, values)
		}
		hs := make([][]string, nInst)
		for i := 0; i < nInst; i++ {
			t := target
			if i > 0 && rng.Chance(1, 4) {
				t = map[string]string{}
				for k, v := range target {
					t[k] = v
				}
				if k := hx.Pick(rng, ks); rng.Bool() {
					delete(t, k)
				} else {
					t[k] = "6e65696768626f7572"
				}
			}
			hs[i] = append(g.pathTo(i, t), fmt.Sprintf("troot %d", i), fmt.Sprintf("tcommit %d", i))
		}
		ops = append(ops, merge(rng, hs)...)
	case mode < 7:
		// there and back: commit, insert a burst of further keys, commit, delete them again, commit
		i := 0
		ks := append([]string(nil), g.keys...)
		sort.Strings(ks)
		shuffle(rng, ks)
		nBase := rng.Range(1, len(ks)-2)
		for _, k := range ks[:nBase] {
			ops = append(ops, g.put(i, k, hx.Pick(rng, values)))
			if rng.Chance(1, 5) {
				ops = append(ops, fmt.Sprintf("tcommit %d", i))
			}
		}
		ops = append(ops, fmt.Sprintf("troot %d", i), fmt.Sprintf("tcommit %d", i))
		if rng.Chance(1, 3) {
			ops = append(ops, fmt.Sprintf("treopen %d", i))
		}
		burst := ks[nBase : nBase+rng.Range(1, len(ks)-nBase)]
		for _, k := range burst {
			ops = append(ops, g.put(i, k, hx.Pick(rng, values)))
		}
		if rng.Bool() {
			ops = append(ops, fmt.Sprintf("troot %d", i), fmt.Sprintf("tcommit %d", i))
			if rng.Chance(1, 3) {
				ops = append(ops, fmt.Sprintf("treopen %d", i))
			}
		}
		back := append([]string(nil), burst...)
		shuffle(rng, back)
		for _, k := range back {
			ops = append(ops, g.del(i, k))
		}
		ops = append(ops, fmt.Sprintf("troot %d", i), fmt.Sprintf("tcommit %d", i))
	default:
		for len(ops) < nOps {
			i := rng.Intn(nInst)
			switch x := rng.Intn(100); {
			case x < 42:
				ops = append(ops, g.put(i, hx.Pick(rng, g.keys), hx.Pick(rng, values)))
			case x < 64:
				ops = append(ops, g.del(i, hx.Pick(rng, g.keys)))
			default:
				ops = append(ops, g.sprinkle(i)...)
			}
		}
	}
	for i := 0; i < nInst; i++ {
		ops = append(ops, fmt.Sprintf("troot %d", i), fmt.Sprintf("tcommit %d", i))
	}

	return ops
}

func runCase(r *hx.Run, sub uint64, ops []string) {
	r.Case(sub)
	ss := &session{r: r, insts: map[int]*inst{}, classes: map[string]struct{}{}}
	for _, op := range ops {
		ans := ss.exec(op)
		r.Line(op, ans)
		r.Count("op:" + strings.Fields(op)[0])
		r.Count("ans:" + strings.Fields(ans)[0])
	}
	if ss.repeat && len(ss.classes) >= 2 && ss.muts >= 5 {
		h := sha256.Sum256([]byte(strings.Join(ops, "\n")))
		r.Nontrivial(string(h[:8]))
	}
	r.Sample(r.CaseLines())
}

func main() {
	r := hx.Start()
	r.Rule = "trie part: sessions of 1-3 real smt.SMT tries (sha256 paths, raw values, in-memory node store) x ~30-60 requests topen/tput/tdel/tget/troot/tcommit/treopen; " +
		"keys: 3 sharing >=16 leading path bits, relatives sharing 12..15, 8..11, 4..7 bits, strangers; 40% convergent sessions, 30% there-and-back sessions (insert a burst after a commit, delete it again); " +
		"non-trivial = two root points with equal contents from different histories, >= 2 root classes, >= 5 state changes"
	if lines := r.ReplayLines(); lines != nil {
		runCase(r, 0, lines)
		r.Finish()

		return
	}
	clusters := mine.Clusters(24)
	k := clusters[0]
	g := &gen{}
	corpus := [][]string{
		// extension created, split inside, leaf moves above it, join, absorb
		{"topen 0", g.put(0, k.Core[0], "61"), g.put(0, k.Core[1], "62"), "tcommit 0", g.put(0, k.Near[0], "00"), "tcommit 0", g.put(0, k.Far[0], "-"),
			"tcommit 0", "troot 0", g.del(0, k.Near[0]), "tcommit 0", g.del(0, k.Far[0]), "tcommit 0", "troot 0", g.del(0, k.Core[1]), "tcommit 0", g.get(0, k.Core[0]),
			g.del(0, k.Core[1]), g.del(0, k.Core[0]), "tcommit 0", "troot 0"},
		// the same contents through two histories: one leaves a chain of inner nodes with an empty child, the other an extension
		{"topen 0", "topen 1", g.put(0, k.Stranger[0], "61"), g.put(0, k.Core[0], "61"), g.put(0, k.Core[1], "62"), g.put(0, k.Mid[0], "63"), "tcommit 0",
			g.del(0, k.Mid[0]), g.del(0, k.Stranger[0]), "tcommit 0", "troot 0", g.put(1, k.Core[1], "62"), g.put(1, k.Core[0], "61"), "tcommit 1", "troot 1"},
		// lazy nodes: reopen after commit, then split / delete below unresolved nodes; un-committed changes dropped
		{"topen 0", g.put(0, k.Core[0], "61"), g.put(0, k.Core[1], "62"), g.put(0, k.Core[2], "63"), g.put(0, k.Far[0], "64"), "tcommit 0", "treopen 0",
			g.del(0, k.Core[1]), "tcommit 0", "treopen 0", g.put(0, k.Near[0], "65"), g.put(0, k.Mid[0], "66"), "treopen 0", g.get(0, k.Near[0]), "troot 0", "tcommit 0",
			g.del(0, k.Far[0]), g.del(0, k.Core[0]), g.del(0, k.Core[2]), "tcommit 0", "troot 0"},
	}
	for _, c := range corpus {
		runCase(r, 0, c)
	}
	n := 1500 * r.Scale
	for i := 0; i < n; i++ {
		rng, sub := r.Rng.Fork()
		runCase(r, sub, genSession(rng, clusters, 30))
	}
	r.Finish()
}
