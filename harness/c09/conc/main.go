// C09, concurrent part: real goroutines share one ads.Map and call Set / Delete / Get / Has / Size /
// Commit on it.  A case is a sequence of rounds: all goroutines are released together (the first
// thing everybody does is Set the same fresh key, the second to Set a fresh key of its own, so that
// all of them change the size at once), run short random scripts over a small shared alphabet, and
// meet again; at that quiescent point the main goroutine reads Size, Stream and Has of
// every key.  What was observed is printed as request lines and judged by the Lean driver with the
// trace predicates the protocol theorems are about (C09_concurrent_quiescent: `quiescentOk`,
// C09_concurrent_readers: `readerOk`); the implementation column is the constant `accept`.
//
// Independent oracle (no Lean): Size = number of streamed keys = number of keys with Has = true at
// every quiescent point; per key and round the presence accounting (presence before + Sets >= true
// Deletes + presence after >= presence before; a Set and no true Delete => present); a Get returns a
// value somebody Set (or nothing, if the key was absent at the start of the round or a Delete of it was
// issued); a concurrent Size() lies between what the round can reach; no call fails or panics.
package main

import (
	"crypto/sha256"
	"fmt"
	"sort"
	"strings"
	"sync"

	"verifharness/c09/mine"
	"verifharness/hx"

	"github.com/iotaledger/hive.go/ads"
	"github.com/iotaledger/hive.go/kvstore"
	"github.com/iotaledger/hive.go/kvstore/mapdb"
	"github.com/iotaledger/hive.go/serializer/v2/typeutils"
)

type hkey []byte
type hval []byte

func clone(b []byte) []byte { return append([]byte{}, b...) }

func keyToBytes(k hkey) ([]byte, error)      { return k[:], nil }
func bytesToKey(b []byte) (hkey, int, error) { return hkey(clone(b)), len(b), nil }
func valToBytes(v hval) ([]byte, error)      { return v[:], nil }
func bytesToVal(b []byte) (hval, int, error) { return hval(clone(b)), len(b), nil }

type amap = ads.Map[[32]byte, hkey, hval]

type call struct {
	kind string // set del get has size commit
	key  string
	val  []byte
}

type obs struct {
	call
	deleted bool
	found   bool
	got     []byte
	size    int
	err     string
}

func fail(r *hx.Run, oracle, detail string) {
	r.Fail(oracle, detail, map[string]string{"oracle": oracle, "part": "concurrent"})
}

func newMap(st kvstore.KVStore) amap {
	return ads.NewMap[[32]byte](st, typeutils.ByteArray32ToBytes, typeutils.ByteArray32FromBytes,
		keyToBytes, bytesToKey, valToBytes, bytesToVal)
}

func runCase(r *hx.Run, sub uint64, rng *hx.Rng, keys []string, rounds int) {
	r.Case(sub)
	st := mapdb.NewMapDB()
	m := newMap(st)
	nG := rng.Range(3, 8)
	written := map[string][][]byte{} // every value ever Set per key
	present := map[string]bool{}     // at the last quiescent point
	card := 0
	var alphabet []string
	alphabet = append(alphabet, keys...)
	contended := false
	committed := false // a Commit returned before the current round
	for round := 0; round < rounds; round++ {
		hot := fmt.Sprintf("68%04x%02x", round, rng.Intn(256)) // a key nobody has used yet
		alphabet = append(alphabet, hot)
		for g := 0; g < nG; g++ {
			alphabet = append(alphabet, fmt.Sprintf("6f%04x%02x", round, g))
		}
		// scripts
		scripts := make([][]call, nG)
		uniq := 0
		for g := 0; g < nG; g++ {
			val := func() []byte { uniq++; return []byte{byte(round), byte(round >> 8), byte(g), byte(uniq)} }
			own := fmt.Sprintf("6f%04x%02x", round, g) // a fresh key of this goroutine: everybody adds to the size at once
			sc := []call{{kind: "set", key: hot, val: val()}, {kind: "set", key: own, val: val()}}
			for i, n := 0, rng.Range(1, 6); i < n; i++ {
				k := hx.Pick(rng, alphabet[len(alphabet)-min(len(alphabet), 12):])
				if rng.Chance(1, 2) {
					k = hx.Pick(rng, keys)
				}
				switch x := rng.Intn(100); {
				case x < 35:
					sc = append(sc, call{kind: "set", key: k, val: val()})
				case x < 60:
					sc = append(sc, call{kind: "del", key: k})
				case x < 75:
					sc = append(sc, call{kind: "get", key: k})
				case x < 85:
					sc = append(sc, call{kind: "has", key: k})
				case x < 91:
					sc = append(sc, call{kind: "size"})
				case x < 93:
					sc = append(sc, call{kind: "root"})
				case x < 94:
					sc = append(sc, call{kind: "restored"})
				case x < 97:
					sc = append(sc, call{kind: "stream"})
				default:
					sc = append(sc, call{kind: "commit"})
				}
			}
			scripts[g] = sc
		}
		for _, sc := range scripts {
			for _, c := range sc {
				if c.kind == "set" {
					written[c.key] = append(written[c.key], c.val)
				}
			}
		}
		// run
		results := make([][]obs, nG)
		var start, done sync.WaitGroup
		start.Add(1)
		for g := 0; g < nG; g++ {
			done.Add(1)
			go func(g int) {
				defer done.Done()
				start.Wait()
				for _, c := range scripts[g] {
					o := obs{call: c}
					if p := hx.Safely(func() {
						switch c.kind {
						case "set":
							if err := m.Set(hkey(hx.UnHex(c.key)), hval(c.val)); err != nil {
								o.err = err.Error()
							}
						case "del":
							d, err := m.Delete(hkey(hx.UnHex(c.key)))
							o.deleted = d
							if err != nil {
								o.err = err.Error()
							}
						case "get":
							v, ok, err := m.Get(hkey(hx.UnHex(c.key)))
							o.found, o.got = ok, clone(v)
							if err != nil {
								o.err = err.Error()
							}
						case "has":
							h, err := m.Has(hkey(hx.UnHex(c.key)))
							o.found = h
							if err != nil {
								o.err = err.Error()
							}
						case "size":
							o.size = m.Size()
						case "root":
							_ = m.Root()
						case "restored":
							// takes no lock of the map (the root cell has its own)
							o.found = m.WasRestoredFromStorage()
						case "stream":
							seen := map[string]bool{}
							if err := m.Stream(func(k hkey, _ hval) error {
								if seen[string(k)] {
									o.err = "Stream delivered a key twice"
								}
								seen[string(k)] = true

								return nil
							}); err != nil {
								o.err = err.Error()
							}
						case "commit":
							if err := m.Commit(); err != nil {
								o.err = err.Error()
							}
						}
					}); p != "" {
						o.err = "panic: " + p
					}
					results[g] = append(results[g], o)
				}
			}(g)
		}
		start.Done()
		done.Wait()
		// WasRestoredFromStorage: true exactly when a Commit happened before — decided for calls that are ordered
		// with respect to every Commit (all Commits of earlier rounds returned before the round started)
		commitsNow := 0
		for g := range results {
			for _, o := range results[g] {
				if o.kind == "commit" && o.err == "" {
					commitsNow++
				}
			}
		}
		for g := range results {
			for _, o := range results[g] {
				if o.kind != "restored" || o.err != "" {
					continue
				}
				if committed && !o.found {
					fail(r, "restored-iff-committed-concurrent", fmt.Sprintf("round %d: WasRestoredFromStorage() = false after a Commit of an earlier round", round))
				}
				if !committed && commitsNow == 0 && o.found {
					fail(r, "restored-iff-committed-concurrent", fmt.Sprintf("round %d: WasRestoredFromStorage() = true, no Commit was ever called", round))
				}
			}
		}
		committed = committed || commitsNow > 0
		if p := hx.Safely(func() {
			if b := m.WasRestoredFromStorage(); b != committed {
				fail(r, "restored-iff-committed-concurrent", fmt.Sprintf("round %d: at quiescence WasRestoredFromStorage() = %v, a Commit returned before: %v", round, b, committed))
			}
		}); p != "" {
			fail(r, "no-error", "panic in WasRestoredFromStorage: "+p)
		}
		// quiescent observation
		size := 0
		var stream []string
		contents := map[string][]byte{}
		var hasT, hasF []string
		now := map[string]bool{}
		if p := hx.Safely(func() {
			size = m.Size()
			if err := m.Stream(func(k hkey, v hval) error {
				stream = append(stream, hx.Hex(k))
				contents[string(k)] = clone(v)

				return nil
			}); err != nil {
				fail(r, "no-error", "Stream at quiescence: "+err.Error())
			}
			for _, k := range alphabet {
				h, err := m.Has(hkey(hx.UnHex(k)))
				if err != nil {
					fail(r, "no-error", "Has at quiescence: "+err.Error())
				}
				now[k] = h
				if h {
					hasT = append(hasT, k)
				} else {
					hasF = append(hasF, k)
				}
			}
		}); p != "" {
			fail(r, "no-error", fmt.Sprintf("round %d: panic while observing the quiescent map: %s", round, p))
			r.Line("qquiesce 0 S T F", "panic")

			return
		}
		r.Line(fmt.Sprintf("qquiesce %d S %s T %s F %s", size, strings.Join(stream, " "), strings.Join(hasT, " "), strings.Join(hasF, " ")), "accept")
		// independent oracle
		if p := hx.Safely(func() {
			if round%8 != 7 {
				return
			}
			// the root at quiescence is the root of a new map fed the streamed contents in key order
			fresh := newMap(mapdb.NewMapDB())
			ks := make([]string, 0, len(contents))
			for k := range contents {
				ks = append(ks, k)
			}
			sort.Strings(ks)
			for _, k := range ks {
				if err := fresh.Set(hkey(k), hval(contents[k])); err != nil {
					fail(r, "no-error", "Set on a fresh map: "+err.Error())
				}
			}
			if m.Root() != fresh.Root() {
				fail(r, "root-content-only-at-quiescence", fmt.Sprintf("round %d (%d goroutines): Root() is not the root of a new map fed the %d streamed pairs; scripts %v", round, nG, len(contents), scripts))
			}
			{
				// Commit at quiescence, then one more instance over the same store (read only)
				if err := m.Commit(); err != nil {
					fail(r, "no-error", "Commit at quiescence: "+err.Error())
				}
				probe := newMap(st)
				if probe.Root() != m.Root() || probe.Size() != size || !probe.WasRestoredFromStorage() {
					fail(r, "reopen-faithful-at-quiescence", fmt.Sprintf("round %d: an instance opened after Commit reports Size() = %d (live: %d), same root = %v, restored = %v",
						round, probe.Size(), size, probe.Root() == m.Root(), probe.WasRestoredFromStorage()))
				}
				for k, w := range contents {
					v, ok, err := probe.Get(hkey(k))
					if err != nil || !ok || string(v) != string(w) {
						fail(r, "reopen-faithful-at-quiescence", fmt.Sprintf("round %d: an instance opened after Commit holds %x=%x (exists=%v, %v), the live map %x", round, k, v, ok, err, w))
					}
				}
				committed = true
				r.Count("probe-after-commit-at-quiescence")
			}
		}); p != "" {
			fail(r, "no-error", fmt.Sprintf("round %d: panic while comparing with a fresh / reopened map: %s", round, p))
		}
		if size != len(stream) || size != len(hasT) {
			fail(r, "size-eq-card-at-quiescence", fmt.Sprintf("round %d (%d goroutines): Size() = %d, %d keys streamed, %d keys with Has = true; scripts %v",
				round, nG, size, len(stream), len(hasT), scripts))
		}
		sets, trueDels, delCalls := map[string]int{}, map[string]int{}, map[string]int{}
		lo, hi := card, card
		gets := map[string]struct{}{}
		for g := range results {
			for _, o := range results[g] {
				r.Count("call:" + o.kind)
				if o.err != "" {
					fail(r, "no-error", fmt.Sprintf("%s(%s) failed: %s", o.kind, o.key, o.err))

					continue
				}
				switch o.kind {
				case "set":
					sets[o.key]++
				case "del":
					delCalls[o.key]++
					lo--
					if o.deleted {
						trueDels[o.key]++
					}
				}
			}
		}
		for k := range sets {
			if !present[k] {
				hi++
			}
		}
		for g := range results {
			for _, o := range results[g] {
				switch {
				case o.err != "":
				case o.kind == "size" && (o.size < lo || o.size > hi):
					fail(r, "concurrent-size-in-range", fmt.Sprintf("round %d: a concurrent Size() = %d, reachable range [%d,%d]", round, o.size, lo, hi))
				case o.kind == "get" && o.found:
					ok := false
					for _, w := range written[o.key] {
						ok = ok || string(w) == string(o.got)
					}
					if !ok {
						fail(r, "reader-saw-written-value", fmt.Sprintf("Get(%s) returned %x, never Set", o.key, o.got))
					}
					gets[o.key+" "+hx.Hex(o.got)] = struct{}{}
				case o.kind == "get" && !o.found && present[o.key] && delCalls[o.key] == 0:
					fail(r, "reader-saw-written-value", fmt.Sprintf("Get(%s) found nothing although the key was present and nobody deletes it", o.key))
				}
			}
		}
		gl := make([]string, 0, len(gets))
		for k := range gets {
			gl = append(gl, k)
		}
		sort.Strings(gl)
		for _, kg := range gl {
			f := strings.Fields(kg)
			ws := make([]string, 0, len(written[f[0]]))
			for _, w := range written[f[0]] {
				ws = append(ws, hx.Hex(w))
			}
			r.Line("qget "+f[1]+" "+strings.Join(ws, " "), "accept")
		}
		for _, k := range alphabet {
			p0, pf := 0, 0
			if present[k] {
				p0 = 1
			}
			if now[k] {
				pf = 1
			}
			s, d := sets[k], trueDels[k]
			if p0+s < d+pf || d+pf < p0 || (s > 0 && d == 0 && pf == 0) {
				fail(r, "presence-accounting", fmt.Sprintf("round %d key %s: present before=%d, %d Sets, %d Deletes answered true, present after=%d", round, k, p0, s, d, pf))
			}
			if s >= 2 {
				contended = true
			}
		}
		present, card = now, len(hasT)
		r.Count("rounds")
	}
	if contended {
		h := sha256.Sum256([]byte(fmt.Sprint(sub, nG)))
		r.Nontrivial(string(h[:8]))
	}
	r.Sample(r.CaseLines()[:min(len(r.CaseLines()), 6)])
}

func main() {
	r := hx.Start()
	r.Rule = "concurrent part: 3-8 goroutines share one ads.Map over mapdb; rounds released together (everybody first Sets the same fresh key), 1-6 further random Set/Delete/Get/Has/Size/Commit calls each over a small shared alphabet; " +
		"quiescent observation (Size, Stream, Has of every key) after each round; non-trivial = some key was Set by at least two goroutines in one round; distinct by sub-seed"
	keys := mine.Clusters(2)[0]
	alphabet := append(append([]string{}, keys.Core...), keys.Near[0], keys.Stranger[0])
	n := 40 * r.Scale
	if r.ReplayLines() != nil {
		n = 5
	}
	for i := 0; i < n; i++ {
		rng, sub := r.Rng.Fork()
		runCase(r, sub, rng, alphabet, 40)
	}
	r.Finish()
}
