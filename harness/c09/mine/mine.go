// Package mine finds keys whose sha256 paths share long prefixes (extension nodes in the sparse
// Merkle trie).  The search is a fixed enumeration, so the clusters are the same on every run.
package mine

import (
	"crypto/sha256"
	"encoding/hex"
	"fmt"
	"math/bits"
)

// Cluster is a family of 3-byte keys (hex) grouped by how many leading sha256-path bits they share
// with Core[0].
type Cluster struct {
	Core     []string // >= 16 common leading path bits
	Near     []string // 12..15
	Far      []string // 8..11
	Mid      []string // 4..7
	Stranger []string // 0..2
}

// LCPBits is the number of common leading bits of two paths.
func LCPBits(a, b [32]byte) int {
	for i := 0; i < 32; i++ {
		if x := a[i] ^ b[i]; x != 0 {
			return i*8 + bits.LeadingZeros8(x)
		}
	}

	return 256
}

func unhex(s string) []byte {
	b, err := hex.DecodeString(s)
	if err != nil {
		panic(err)
	}

	return b
}

// Clusters mines `want` clusters spread over the path space.
func Clusters(want int) []Cluster {
	const n = 1 << 18
	buckets := make(map[uint16][]uint32, 1<<16)
	for i := uint32(0); i < n; i++ {
		h := sha256.Sum256([]byte{byte(i >> 16), byte(i >> 8), byte(i)})
		b := uint16(h[0])<<8 | uint16(h[1])
		if len(buckets[b]) < 4 {
			buckets[b] = append(buckets[b], i)
		}
	}
	key := func(i uint32) string { return hex.EncodeToString([]byte{byte(i >> 16), byte(i >> 8), byte(i)}) }
	var out []Cluster
	for b := 0; b < 1<<16 && len(out) < want; b += 977 {
		bb := uint16(b)
		for len(buckets[bb]) < 3 {
			bb++
		}
		c := Cluster{}
		for _, i := range buckets[bb][:3] {
			c.Core = append(c.Core, key(i))
		}
		for d := uint16(1); d < 16 && len(c.Near) < 2; d++ {
			if o := bb ^ d; len(buckets[o]) > 0 { // same top 12 bits
				c.Near = append(c.Near, key(buckets[o][0]))
			}
		}
		for d := uint16(1); d < 16 && len(c.Far) < 2; d++ {
			if o := bb ^ (d << 4); len(buckets[o]) > 0 { // same top 8 bits, differs within bits 8..11
				c.Far = append(c.Far, key(buckets[o][0]))
			}
		}
		for d := uint16(1); d < 16 && len(c.Mid) < 2; d++ {
			if o := bb ^ (d << 8); len(buckets[o]) > 0 { // same top 4 bits, differs within bits 4..7
				c.Mid = append(c.Mid, key(buckets[o][0]))
			}
		}
		for d := uint16(1); d < 8 && len(c.Stranger) < 2; d++ {
			if o := bb ^ (d << 13); len(buckets[o]) > 0 {
				c.Stranger = append(c.Stranger, key(buckets[o][0]))
			}
		}
		out = append(out, c)
	}
	// self-check: the mined keys really have the advertised common prefixes
	for _, c := range out {
		h0 := sha256.Sum256(unhex(c.Core[0]))
		chk := func(ks []string, lo, hi, min int) {
			if len(ks) < min {
				panic(fmt.Sprintf("cluster of %s: only %d keys sharing %d..%d bits", c.Core[0], len(ks), lo, hi))
			}
			for _, k := range ks {
				if l := LCPBits(h0, sha256.Sum256(unhex(k))); l < lo || l > hi {
					panic(fmt.Sprintf("mined key %s shares %d bits with %s, wanted %d..%d", k, l, c.Core[0], lo, hi))
				}
			}
		}
		chk(c.Core[1:], 16, 255, 2)
		chk(c.Near, 12, 15, 2)
		chk(c.Far, 8, 11, 2)
		chk(c.Mid, 4, 7, 2)
		chk(c.Stranger, 0, 2, 2)
	}

	return out
}
