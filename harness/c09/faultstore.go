package main

import (
	"errors"

	"github.com/iotaledger/hive.go/kvstore"
)

// faultStore wraps the store view an instance is constructed over and makes the writes (Set / Delete) of one of the
// four components fail: the raw-key store (the view extended by {0}), the node store (extended by {1}), the root cell
// (key {2}) or the size cell (key {3}).  Reads are forwarded.
type faultCtl struct {
	region int  // -1: no fault; 0 raw keys, 1 node store, 2 root cell, 3 size cell
	read   bool // the fault hits iterations (reads) instead of writes
}

var errFault = errors.New("harness: injected store write fault")

type faultStore struct {
	inner  kvstore.KVStore
	ctl    *faultCtl
	region int // -1: the view itself (the region is the first byte of the key), else the region of this sub-view
}

var _ kvstore.KVStore = &faultStore{}

func (f *faultStore) hit(key []byte) bool {
	if f.ctl.region < 0 || f.ctl.read {
		return false
	}
	if f.region >= 0 {
		return f.region == f.ctl.region
	}

	return len(key) > 0 && int(key[0]) == f.ctl.region
}

func (f *faultStore) sub(inner kvstore.KVStore, err error, realm []byte) (kvstore.KVStore, error) {
	if err != nil {
		return nil, err
	}
	region := f.region
	if region < 0 && len(realm) > 0 {
		region = int(realm[0])
	}

	return &faultStore{inner: inner, ctl: f.ctl, region: region}, nil
}

func (f *faultStore) WithRealm(realm kvstore.Realm) (kvstore.KVStore, error) {
	// an absolute realm leaves the view: no fault bookkeeping for it (ads never asks for one)
	return f.inner.WithRealm(realm)
}

func (f *faultStore) WithExtendedRealm(realm kvstore.Realm) (kvstore.KVStore, error) {
	inner, err := f.inner.WithExtendedRealm(realm)

	return f.sub(inner, err, realm)
}

func (f *faultStore) Realm() kvstore.Realm { return f.inner.Realm() }

func (f *faultStore) hitIter() bool { return f.ctl.read && f.region >= 0 && f.region == f.ctl.region }

func (f *faultStore) Iterate(prefix kvstore.KeyPrefix, c kvstore.IteratorKeyValueConsumerFunc, d ...kvstore.IterDirection) error {
	if f.hitIter() {
		return errFault
	}

	return f.inner.Iterate(prefix, c, d...)
}

func (f *faultStore) IterateKeys(prefix kvstore.KeyPrefix, c kvstore.IteratorKeyConsumerFunc, d ...kvstore.IterDirection) error {
	if f.hitIter() {
		return errFault
	}

	return f.inner.IterateKeys(prefix, c, d...)
}

func (f *faultStore) Clear() error { return f.inner.Clear() }

func (f *faultStore) Get(key kvstore.Key) (kvstore.Value, error) { return f.inner.Get(key) }

func (f *faultStore) Set(key kvstore.Key, value kvstore.Value) error {
	if f.hit(key) {
		return errFault
	}

	return f.inner.Set(key, value)
}

func (f *faultStore) Has(key kvstore.Key) (bool, error) { return f.inner.Has(key) }

func (f *faultStore) Delete(key kvstore.Key) error {
	if f.hit(key) {
		return errFault
	}

	return f.inner.Delete(key)
}

func (f *faultStore) DeletePrefix(prefix kvstore.KeyPrefix) error { return f.inner.DeletePrefix(prefix) }

func (f *faultStore) Flush() error { return f.inner.Flush() }

func (f *faultStore) Close() error { return f.inner.Close() }

func (f *faultStore) Batched() (kvstore.BatchedMutations, error) { return f.inner.Batched() }
