// setwrites regenerates lean/Hive/Gen/C03_SetWrites.lean from the working tree: which functions of serializer/ and
// serializer/serix write into memory of a SETTINGS object (ArrayRules, TypeSettings, TypePrefixes, SerializableGuard)
// that they did not allocate themselves, and which functions the codec entry points (API.Encode, API.Decode and the
// map / JSON twins) can reach.
//
//	setwrites <out.lean> <LeanNamespace> <repo-root>
//
// The Lean model of the codec takes the schema (= the merged type settings) as an immutable VALUE: `encode t v` cannot
// change `t`.  The code hands settings around as pointers (`*ArrayRules` inside `TypeSettings`, `*ArrayRules` arguments of
// the Serializer).  The assumption "every function that receives settings writes only to a copy" is therefore tied to the
// source by this extractor (go/ast + go/types, no build needed):
//
//   - a WRITE is an assignment / op-assignment / inc-dec statement, a `delete`, `clear` or `copy` whose target expression,
//     followed from the written location outwards, passes through a pointer dereference (explicit `*p`, or a field
//     selection / index through a pointer), a slice index or a map index - i.e. it lands in memory that is not a local
//     variable of the function;
//   - it is a settings write when one of the types on that path is a settings type;
//   - it is FRESH when the outermost reference it passes through is a local variable all of whose definitions in the
//     function are `new(T)` / `&T{…}` or `make(T, …)` (memory the function allocated itself) and no further reference is crossed
//     (a copied struct still shares what its pointer / map / slice fields refer to); otherwise it is SHARED.
//
// Output: `shared_writes` (function: target expression), `fresh_writes`, `writer_callers` (who refers to a function with a
// shared write), `codec_reach` (functions reachable from the entry
// points through static references, closures included in their enclosing function).  Props/C03.lean pins the lists and
// proves by `decide` that no function with a shared settings write is reachable from the codec.
package main

import (
	"bytes"
	"fmt"
	"go/ast"
	"go/importer"
	"go/parser"
	"go/printer"
	"go/token"
	"go/types"
	"os"
	"path/filepath"
	"sort"
	"strings"
)

func fail(msg string) {
	fmt.Fprintln(os.Stderr, "setwrites:", msg)
	os.Exit(1)
}

type imp struct {
	std   types.Importer
	known map[string]*types.Package
}

func (f imp) Import(path string) (*types.Package, error) {
	if p, ok := f.known[path]; ok {
		return p, nil
	}
	if !strings.Contains(path, ".") {
		if p, err := f.std.Import(path); err == nil {
			return p, nil
		}
	}
	name := path[strings.LastIndex(path, "/")+1:]
	p := types.NewPackage(path, name)
	p.MarkComplete()

	return p, nil
}

func parseDir(fset *token.FileSet, dir string) []*ast.File {
	ents, err := os.ReadDir(dir)
	if err != nil {
		fail(err.Error())
	}
	var files []*ast.File
	for _, e := range ents {
		n := e.Name()
		if !strings.HasSuffix(n, ".go") || strings.HasSuffix(n, "_test.go") || strings.HasPrefix(n, "verif_") {
			continue
		}
		f, err := parser.ParseFile(fset, filepath.Join(dir, n), nil, 0)
		if err != nil {
			fail(err.Error())
		}
		files = append(files, f)
	}

	return files
}

type pkgInfo struct {
	name  string
	pkg   *types.Package
	info  *types.Info
	files []*ast.File
}

func check(fset *token.FileSet, name, path, dir string, im imp) *pkgInfo {
	files := parseDir(fset, dir)
	info := &types.Info{Types: map[ast.Expr]types.TypeAndValue{}, Uses: map[*ast.Ident]types.Object{}, Defs: map[*ast.Ident]types.Object{},
		Selections: map[*ast.SelectorExpr]*types.Selection{}}
	conf := types.Config{Importer: im, Error: func(error) {}}
	pkg, _ := conf.Check(path, fset, files, info)
	if pkg == nil {
		fail("type check of " + dir + " produced no package")
	}

	return &pkgInfo{name: name, pkg: pkg, info: info, files: files}
}

var settingsTypes = map[string]bool{
	"serializer.ArrayRules": true, "serix.ArrayRules": true, "serix.TypeSettings": true, "serializer.TypePrefixes": true,
	"serializer.SerializableGuard": true,
}

func typeName(t types.Type) string {
	for {
		if p, ok := t.(*types.Pointer); ok {
			t = p.Elem()

			continue
		}

		break
	}
	if n, ok := t.(*types.Named); ok && n.Obj() != nil && n.Obj().Pkg() != nil {
		return n.Obj().Pkg().Name() + "." + n.Obj().Name()
	}

	return ""
}

func src(fset *token.FileSet, e ast.Node) string {
	var b bytes.Buffer
	printer.Fprint(&b, fset, e)

	return strings.Join(strings.Fields(b.String()), "")
}

func funcName(pkg string, fd *ast.FuncDecl) string {
	if fd.Recv != nil && len(fd.Recv.List) == 1 {
		t := fd.Recv.List[0].Type
		if s, ok := t.(*ast.StarExpr); ok {
			t = s.X
		}
		if ix, ok := t.(*ast.IndexExpr); ok {
			t = ix.X
		}
		if ix, ok := t.(*ast.IndexListExpr); ok {
			t = ix.X
		}
		if id, ok := t.(*ast.Ident); ok {
			return pkg + "." + id.Name + "." + fd.Name.Name
		}
	}

	return pkg + "." + fd.Name.Name
}

func objFuncName(f *types.Func) string {
	f = f.Origin()
	if f.Pkg() == nil {
		return ""
	}
	sig, _ := f.Type().(*types.Signature)
	if sig != nil && sig.Recv() != nil {
		if n := typeName(sig.Recv().Type()); n != "" {
			return n + "." + f.Name()
		}
	}

	return f.Pkg().Name() + "." + f.Name()
}

// isFreshRHS: `new(T)`, `make(T, …)` or `&T{…}`.
func isFreshRHS(e ast.Expr) bool {
	switch v := e.(type) {
	case *ast.ParenExpr:
		return isFreshRHS(v.X)
	case *ast.CallExpr:
		if id, ok := v.Fun.(*ast.Ident); ok && ((id.Name == "new" && len(v.Args) == 1) || (id.Name == "make" && len(v.Args) >= 1)) {
			return true
		}
	case *ast.UnaryExpr:
		if v.Op == token.AND {
			_, ok := v.X.(*ast.CompositeLit)

			return ok
		}
	}

	return false
}

type analysis struct {
	fset   *token.FileSet
	p      *pkgInfo
	shared []string
	fresh  []string
	calls  map[string]map[string]bool
}

func (a *analysis) objOf(id *ast.Ident) types.Object {
	if o := a.p.info.Defs[id]; o != nil {
		return o
	}

	return a.p.info.Uses[id]
}

func (a *analysis) function(fd *ast.FuncDecl) {
	if fd.Body == nil {
		return
	}
	name := funcName(a.p.name, fd)
	// local variables all of whose definitions are fresh allocations
	defs := map[types.Object][]bool{}
	note := func(lhs ast.Expr, fresh bool) {
		if id, ok := lhs.(*ast.Ident); ok && id.Name != "_" {
			if o := a.objOf(id); o != nil {
				defs[o] = append(defs[o], fresh)
			}
		}
	}
	ast.Inspect(fd.Body, func(n ast.Node) bool {
		switch s := n.(type) {
		case *ast.AssignStmt:
			for i, l := range s.Lhs {
				fresh := len(s.Lhs) == len(s.Rhs) && (s.Tok == token.DEFINE || s.Tok == token.ASSIGN) && isFreshRHS(s.Rhs[i])
				note(l, fresh)
			}
		case *ast.ValueSpec:
			// `var x T` without a value is the nil / zero value: not a definition that could make x refer to shared memory
			for i, id := range s.Names {
				if len(s.Values) == len(s.Names) {
					note(id, isFreshRHS(s.Values[i]))
				} else if len(s.Values) != 0 {
					note(id, false)
				}
			}
		case *ast.RangeStmt:
			if s.Key != nil {
				note(s.Key, false)
			}
			if s.Value != nil {
				note(s.Value, false)
			}
		}

		return true
	})
	// parameters, receivers and results are never fresh
	isFresh := func(e ast.Expr) bool {
		id, ok := e.(*ast.Ident)
		if !ok {
			return false
		}
		o := a.objOf(id)
		ds := defs[o]
		if o == nil || len(ds) == 0 {
			return false
		}
		for _, f := range ds {
			if !f {
				return false
			}
		}

		return true
	}
	typeOf := func(e ast.Expr) types.Type {
		if tv, ok := a.p.info.Types[e]; ok && tv.Type != nil {
			return tv.Type
		}
		if id, ok := e.(*ast.Ident); ok {
			if o := a.objOf(id); o != nil {
				return o.Type()
			}
		}

		return types.Typ[types.Invalid]
	}
	write := func(target ast.Expr) {
		// walk from the written location outwards
		settings := false
		crossings := 0
		var outermostRef ast.Expr
		e := target
		for {
			if p, ok := e.(*ast.ParenExpr); ok {
				e = p.X

				continue
			}
			if settingsTypes[typeName(typeOf(e))] {
				settings = true
			}
			var inner ast.Expr
			crossed := false
			switch v := e.(type) {
			case *ast.SelectorExpr:
				if sel := a.p.info.Selections[v]; sel == nil {
					// a package-qualified identifier (a global of another package)
					inner = nil
				} else {
					inner = v.X
					_, crossed = typeOf(v.X).Underlying().(*types.Pointer)
					if sel.Indirect() {
						crossed = true
					}
				}
			case *ast.IndexExpr:
				inner = v.X
				switch typeOf(v.X).Underlying().(type) {
				case *types.Slice, *types.Map, *types.Pointer:
					crossed = true
				}
			case *ast.StarExpr:
				inner = v.X
				crossed = true
			}
			if inner == nil {
				break
			}
			if crossed {
				crossings++
				outermostRef = inner
			}
			e = inner
		}
		for p, ok := e.(*ast.ParenExpr); ok; p, ok = e.(*ast.ParenExpr) {
			e = p.X
		}
		if settingsTypes[typeName(typeOf(e))] {
			settings = true
		}
		if crossings == 0 || !settings {
			return
		}
		line := name + ": " + src(a.fset, target)
		for p, ok := outermostRef.(*ast.ParenExpr); ok; p, ok = outermostRef.(*ast.ParenExpr) {
			outermostRef = p.X
		}
		if crossings == 1 && isFresh(outermostRef) {
			a.fresh = append(a.fresh, line)
		} else {
			a.shared = append(a.shared, line)
		}
	}
	ast.Inspect(fd.Body, func(n ast.Node) bool {
		switch s := n.(type) {
		case *ast.AssignStmt:
			for _, l := range s.Lhs {
				if id, ok := l.(*ast.Ident); ok && (s.Tok == token.DEFINE || id.Name == "_") {
					continue
				}
				write(l)
			}
		case *ast.IncDecStmt:
			write(s.X)
		case *ast.RangeStmt:
			if s.Tok == token.ASSIGN {
				if s.Key != nil {
					write(s.Key)
				}
				if s.Value != nil {
					write(s.Value)
				}
			}
		case *ast.CallExpr:
			if id, ok := s.Fun.(*ast.Ident); ok && len(s.Args) > 0 {
				if _, builtin := a.objOf(id).(*types.Builtin); builtin && (id.Name == "delete" || id.Name == "clear" || id.Name == "copy") {
					// the container itself is the written memory: treat as a write to an element of it
					write(&ast.IndexExpr{X: s.Args[0], Index: &ast.BasicLit{Kind: token.INT, Value: "0"}})
				}
			}
		case *ast.Ident:
			if f, ok := a.p.info.Uses[s].(*types.Func); ok {
				if callee := objFuncName(f); callee != "" && (strings.HasPrefix(callee, "serix.") || strings.HasPrefix(callee, "serializer.")) {
					if a.calls[name] == nil {
						a.calls[name] = map[string]bool{}
					}
					a.calls[name][callee] = true
				}
			}
		}

		return true
	})
}

// collapseErrors replaces ierrors.Wrapf(…)/Errorf(…) calls by ERR(<first argument>) so that message texts are not pinned.
func collapseErrors(b string) string {
	for _, fn := range []string{"ierrors.Wrapf(", "ierrors.Wrap(", "ierrors.Errorf("} {
		for {
			i := strings.Index(b, fn)
			if i < 0 {
				break
			}
			depth, j, firstEnd := 0, i+len(fn)-1, -1
			inStr := false
			for ; j < len(b); j++ {
				c := b[j]
				if c == '"' && b[j-1] != '\\' {
					inStr = !inStr
				}
				if inStr {
					continue
				}
				if c == '(' {
					depth++
				} else if c == ')' {
					depth--
					if depth == 0 {
						break
					}
				} else if c == ',' && depth == 1 && firstEnd < 0 {
					firstEnd = j
				}
			}
			if j >= len(b) {
				break
			}
			arg := b[i+len(fn) : j]
			if firstEnd >= 0 {
				arg = b[i+len(fn) : firstEnd]
			}
			if fn == "ierrors.Errorf(" {
				arg = ""
			}
			b = b[:i] + "ERR[" + arg + "]" + b[j+1:]
		}
	}

	return b
}

func leanList(name string, items []string) string {
	var b strings.Builder
	fmt.Fprintf(&b, "def %s : List String := [", name)
	for i, s := range items {
		if i > 0 {
			b.WriteString(",")
		}
		b.WriteString("\n  \"" + strings.ReplaceAll(strings.ReplaceAll(s, "\\", "\\\\"), "\"", "\\\"") + "\"")
	}
	b.WriteString("]\n\n")

	return b.String()
}

func main() {
	if len(os.Args) != 4 {
		fail("usage: setwrites <out.lean> <namespace> <repo-root>")
	}
	out, ns, repo := os.Args[1], os.Args[2], os.Args[3]
	fset := token.NewFileSet()
	im := imp{std: importer.ForCompiler(fset, "source", nil), known: map[string]*types.Package{}}
	ser := check(fset, "serializer", "github.com/iotaledger/hive.go/serializer/v2", filepath.Join(repo, "serializer"), im)
	im.known["github.com/iotaledger/hive.go/serializer/v2"] = ser.pkg
	sx := check(fset, "serix", "github.com/iotaledger/hive.go/serializer/v2/serix", filepath.Join(repo, "serializer", "serix"), im)
	calls := map[string]map[string]bool{}
	var shared, fresh, all []string
	for _, p := range []*pkgInfo{ser, sx} {
		a := &analysis{fset: fset, p: p, calls: calls}
		for _, f := range p.files {
			for _, d := range f.Decls {
				if fd, ok := d.(*ast.FuncDecl); ok {
					all = append(all, funcName(p.name, fd))
					a.function(fd)
				}
			}
		}
		shared = append(shared, a.shared...)
		fresh = append(fresh, a.fresh...)
	}
	sort.Strings(shared)
	sort.Strings(fresh)
	// sanity: the functions the obligation talks about must exist, else the extractor lost them
	have := map[string]bool{}
	for _, f := range all {
		have[f] = true
	}
	roots := []string{"serix.API.Encode", "serix.API.Decode", "serix.API.MapEncode", "serix.API.MapDecode", "serix.API.JSONEncode", "serix.API.JSONDecode"}
	for _, f := range append([]string{"serix.TypeSettings.ensureOrdering", "serix.TypeSettings.merge", "serix.API.encodeMap", "serix.API.decodeMap",
		"serializer.Serializer.WriteSliceOfByteSlices", "serializer.Deserializer.ReadSequenceOfObjects", "serializer.ArrayRules.ElementValidationFunc"}, roots...) {
		if !have[f] {
			fail("function " + f + " not found in the source")
		}
	}
	reach := map[string]bool{}
	var visit func(f string)
	visit = func(f string) {
		if reach[f] {
			return
		}
		reach[f] = true
		for c := range calls[f] {
			visit(c)
		}
	}
	for _, r := range roots {
		visit(r)
	}
	var rl []string
	for f := range reach {
		rl = append(rl, f)
	}
	sort.Strings(rl)
	if len(rl) < 40 {
		fail(fmt.Sprintf("only %d functions reachable from the codec entry points: call extraction lost its type information", len(rl)))
	}
	text := "/-! GENERATED by harness/c03/setwrites from serializer/*.go and serializer/serix/*.go; do not edit. -/\n"
	text += "namespace " + ns + "\n\n"
	// who refers to the functions that have shared settings writes
	writers := map[string]bool{}
	for _, w := range shared {
		writers[strings.SplitN(w, ": ", 2)[0]] = true
	}
	var callers []string
	for f, cs := range calls {
		for c := range cs {
			if writers[c] {
				callers = append(callers, f+" -> "+c)
			}
		}
	}
	sort.Strings(callers)
	var sw []string
	for w := range writers {
		sw = append(sw, w)
	}
	sort.Strings(sw)
	// normalised bodies (source text without white space) of the small functions the settings model transcribes
	bodies := map[string]string{}
	for _, pk := range []*pkgInfo{ser, sx} {
		for _, f := range pk.files {
			for _, d := range f.Decls {
				if fd, ok := d.(*ast.FuncDecl); ok && fd.Body != nil {
					bodies[funcName(pk.name, fd)] = src(fset, fd.Body)
				}
			}
		}
	}
	for _, f := range []string{"serix.TypeSettings.merge", "serix.TypeSettings.ensureOrdering", "serix.TypeSettings.toMode", "serix.TypeSettings.MinLen",
		"serix.TypeSettings.MaxLen", "serializer.ArrayRules.CheckBounds", "serializer.ArrayValidationMode.HasMode", "serializer.TypePrefixes.Subset"} {
		b, ok := bodies[f]
		if !ok {
			fail("function " + f + " not found in the source")
		}
		// error construction is collapsed: a changed message changes nothing
		text += fmt.Sprintf("def body_%s : String :=\n  \"%s\"\n\n", strings.NewReplacer(".", "_").Replace(f), strings.ReplaceAll(strings.ReplaceAll(collapseErrors(b), "\\", "\\\\"), "\"", "\\\""))
	}
	text += leanList("shared_writers", sw)
	text += leanList("shared_writes", shared) + leanList("fresh_writes", fresh) + leanList("writer_callers", callers) + leanList("codec_reach", rl)
	text += "end " + ns + "\n"
	if err := os.WriteFile(out, []byte(text), 0o644); err != nil {
		fail(err.Error())
	}
}
