// C03 correspondence harness.  Forward: every Encode result of the real code is compared byte for byte
// with the Lean reference encoder (the `enc` lines).  Reverse: valid encodings are mutated (bit flips,
// truncation, extension, chunk swaps, splices, duplicated/dropped chunks, random bytes); every input the
// validating Go decoder accepts is re-encoded with validation and must equal b[:n] (oracle on the real
// code, skipped when a decoded timestamp shows saturation), and the Lean model must agree on
// acceptance, value and consumed count.
package main

import "verifharness/serixgen"

func main() {
	serixgen.Main("C03",
		"catalogue + random registered universes as for C01; per value one enc (validation on or off), per distinct encoding 8 mutated inputs "+
			"decoded with validation (1 in 5 without); non-trivial = Encode succeeded on a value with a non-empty collection/string, nested struct or non-nil interface",
		serixgen.Plan{Values: 3, Mutations: 8, RoundTrip: false, BothModes: false}, 2500, corpus)
}

var corpus = [][]string{
	// big-endian / wrong-width prefixes and markers must not be accepted as the same value
	{"type cat strings", "def -", "enc v (l (x 61) (x 62) (x 63) (x 0102) (x -) (x -) (x 6e))",
		"dec v 0161010062010000006302010200000000000001006e", "dec v 0161000162"},
	{"type cat top-sorted", "def -", "enc v (l (x 62) (x 61))", "dec v 02010062010061", "dec v 02010061010062", "dec v 02010061010061"},
	{"type cat container", "def -", "enc v (l (l (alt 100 (some (l (n 1)))) (alt 101 (some (l)))))", "dec v 0502640165", "dec v 0502656401", "dec v 05016401"},
	{"type cat top-time", "def -", "dec v ffffffffffffff7f", "dec v 0000000000000080", "dec v ffffffffffffffff", "enc v (i 9223372036854775807)"},
	{"type cat top-bool", "def -", "dec v 00", "dec v 01", "dec v 02", "dec v ff"},
	{"type cat ptr-scalar", "def -", "enc v (l nil)", "dec v 020000000500", "dec v 00000000"},
	{"type cat top-hash-bounds", "def -", "dec v 000102030405060708090a0b0c0d0e0f101112131415161718191a1b1c1d1e1f"},
	// duplicate map keys in sorted position must be rejected (else two byte strings decode to one map)
	{"type cat top-map", "def -", "dec v 0200010000010000", "dec v 020001000001000105", "dec v 01000100020506"},
	// settings priority: an explicit lexicalOrdering=false in the per-call option wins over the registered true
	{"type cat prio-lex-off", "def -", "enc n (l (x 62) (x 61))", "enc v (l (x 62) (x 61))", "enc v (l (x 61) (x 62))", "dec n 02010062010061"},
	{"type cat prio-sorted-rules-off", "def -", "enc v (l (x 62) (x 61) (x 61))"},
	{"type cat prio-code", "def -", "enc v (l (n 5))", "dec v 4d00000005000000", "dec v 0905000000"},
	// must-occur with a repeated type and a missing one (a counter instead of a set accepts [100,100] for {100,101})
	{"type cat must2", "def -", "enc v (l (alt 100 (some (l (n 1)))) (alt 100 (some (l (n 2)))))", "dec v 0264016402",
		"enc v (l (alt 101 (some (l))) (alt 102 (l (n 1) (x -))) (alt 101 (some (l))))", "dec v 036566010000" + "65",
		"enc v (l (alt 100 (some (l (n 1)))) (alt 101 (some (l))))", "dec v 02640165", "enc v (l (alt 101 (some (l))) (alt 100 (some (l (n 1)))) (alt 100 (some (l (n 1)))))"},
	{"type cat must3", "def -", "enc v (l (alt 100 (some (l (n 1)))) (alt 100 (some (l (n 2)))) (alt 102 (l (n 1) (x -))))", "dec v 0300640164026601000" + "0",
		"enc v (l (alt 100 (some (l (n 1)))) (alt 102 (l (n 1) (x -))) (alt 103 (x 00000000)))"},
	{"type cat must-wide", "def -", "enc v (l (alt 70000 (some (l (n 1)))) (alt 70000 (some (l (n 2)))))"},
	// stamps in the last second of the int64-nanosecond range, and right below it
	{"type cat top-time", "def -", "enc v (i 9223372036854775806)", "dec v feffffffffffff7f", "enc v (i 9223372036000000001)", "dec v 01280dcdffffff7f",
		"dec v 00280dcdffffff7f", "dec v ff270dcdffffff7f", "dec v 0000000000000000", "enc v (i -9223372036854775808)", "enc v (i -1)"},
	{"type cat top-arr", "def -", "dec v 03010002000300", "dec v 0201000200", "dec v 040100020003000400"},
}
