// C03, third harness part: LONG-LIVED APIs and SHARED configuration objects.
//
// The serix part (harness/c03, serixgen) builds a fresh API and fresh settings objects per universe and has one top
// type per universe.  Real users register many types with one API, hand the same `*ArrayRules` / `TypeSettings`
// objects to several of them (one bounds object for a map type and a slice type), reuse one TypeSettings value in
// `WithTypeSettings` at several call sites, and keep the API for the life of the process.  Here one case is one such
// session: a seeded universe of call sites (top type × optional per-call settings) over one API, whose settings are
// drawn from a small pool of shared objects, and a few hundred Encode / Decode calls that hop between the sites.
//
//	type live SEED        build the universe (answer ok)
//	type sel K            select call site K (answer ok)
//	def SCHEMA            the schema of the selected site, derived ONCE when the universe was built - the model's
//	                      view: type settings are immutable values (answer ok wf|nowf)
//	enc v|n VALUE         API.Encode on the long-lived API            (ok HEX | err | panic)
//	dec v|n HEX           API.Decode on the long-lived API            (ok VALUE N | err | panic)
//	dec w HEX             validated API.Decode into the destination the last accepted Decode of this call site filled
//
// The Lean driver (drv_c03, the reference encoder / decoder) answers from the schema alone.  Go-side oracles,
// independent of Lean, after EVERY call:
//   - config: a deep snapshot of every settings object the user handed in (pooled ArrayRules: bounds, mode, must-occur
//     set; pooled TypeSettings; the registry's settings with the identity of their rules objects; the interface
//     registry) equals the snapshot taken before the first call - Encode / Decode do not mutate their configuration;
//   - history: the same call on a twin universe built afresh from the same seed (new API, new objects, no call before)
//     gives the same answer - the answer of a call does not depend on the calls made before it;
//   - canonical: what the validating Decode accepted re-encodes with validation to exactly b[:n];
//   - aliasing: Decode does not change its input;
//   - destination: a validated Decode into a destination that holds the result of an earlier Decode answers what it answers
//     into a fresh destination (the decoded value is a function of the bytes);
//   - every session ends with a burst of 4..8 Encode / Decode calls running at the same time on the shared API, judged by the same
//     oracles (the thorough tier builds this part with the race detector);
//   - layout (package refo): every `enc` answer against the reference encoder, the requests of the session up to it as the
//     failing input (state that the twin shares with the session - package-level variables - is invisible to `history`).
package main

import (
	"bytes"
	"context"
	"flag"
	"fmt"
	"reflect"
	"sort"
	"strconv"
	"strings"
	"sync"

	"verifharness/c03/refo"
	"verifharness/hx"
	"verifharness/serixgen"

	"github.com/iotaledger/hive.go/serializer/v2"
	"github.com/iotaledger/hive.go/serializer/v2/serix"
)

type (
	LName    string
	LK4      [4]byte
	LMapA    map[uint8]uint16
	LMapB    map[uint16]LName
	LMapC    map[LK4]uint32
	LMapSl   map[uint8]LSlU16
	LSlU16   []uint16
	LSlU32   []uint32
	LSlName  []LName
	LSlK4    []LK4
	LSlShape []serixgen.CShape
	LArr3    [3]uint16
	LArr2N   [2]LName
	LSlSl    []LSlU16
	LBox     struct {
		S LSlU16  `serix:""`
		M LMapA   `serix:""`
		N LSlName `serix:""`
		K LSlK4   `serix:""`
	}
	LBoxTag struct {
		S []uint16        `serix:",lenPrefix=uint8,maxLen=4"`
		M map[uint8]uint8 `serix:",lenPrefix=uint8,maxLen=4"`
		T []uint32        `serix:",lenPrefix=uint16,minLen=1"`
	}
	LBoxMix struct {
		M LMapB    `serix:""`
		A LArr3    `serix:""`
		X LSlShape `serix:""`
		U []uint16 `serix:""`
	}
)

// collection types whose settings come from the shared pool (maps first: they are what ensureOrdering touches)
var collTypes = []reflect.Type{
	reflect.TypeOf(LMapA{}), reflect.TypeOf(LMapB{}), reflect.TypeOf(LMapC{}), reflect.TypeOf(LMapSl{}),
	reflect.TypeOf(map[uint8]uint8{}),
	reflect.TypeOf(LSlU16{}), reflect.TypeOf(LSlU32{}), reflect.TypeOf(LSlName{}), reflect.TypeOf(LSlK4{}), reflect.TypeOf(LSlShape{}),
	reflect.TypeOf(LArr3{}), reflect.TypeOf(LArr2N{}), reflect.TypeOf(LSlSl{}), reflect.TypeOf([]uint16{}), reflect.TypeOf([]uint32{}),
}

const nMapTypes = 5

var structTypes = []reflect.Type{reflect.TypeOf(LBox{}), reflect.TypeOf(LBoxTag{}), reflect.TypeOf(LBoxMix{}), reflect.TypeOf(&LBox{})}

var ctxBg = context.Background()

type site struct {
	t      reflect.Type
	opt    *serix.TypeSettings
	optIdx int
	schema *serixgen.Schema
	sexp   string
	isMap  bool
	shared int // index of the pooled rules object the top level of this site uses (-1: none)
}

type universe struct {
	seed  uint64
	api   *serix.API
	rules []*serix.ArrayRules
	tss   []serix.TypeSettings
	sites []*site
}

func lpTS(lp serix.LengthPrefixType) serix.TypeSettings {
	return serix.TypeSettings{}.WithLengthPrefixType(lp)
}

var lps = []serix.LengthPrefixType{serix.LengthPrefixTypeAsByte, serix.LengthPrefixTypeAsByte, serix.LengthPrefixTypeAsUint16, serix.LengthPrefixTypeAsUint32}

// build constructs the universe of a seed: everything (API, rules objects, settings values) is new, and a function of the
// seed only.
func build(seed uint64, mirror *universe) *universe {
	rng := hx.NewRng(seed ^ 0x6c697665)
	u := &universe{seed: seed, api: serix.NewAPI()}
	must := func(err error) {
		if err != nil {
			panic(err)
		}
	}
	// fixed part: element types
	must(u.api.RegisterTypeSettings(serixgen.CSquare{}, serix.TypeSettings{}.WithObjectType(uint8(100))))
	must(u.api.RegisterTypeSettings(serixgen.CRect{}, serix.TypeSettings{}.WithObjectType(uint8(101))))
	must(u.api.RegisterTypeSettings(serixgen.CTriangle{}, serix.TypeSettings{}.WithObjectType(uint8(102))))
	must(u.api.RegisterInterfaceObjects((*serixgen.CShape)(nil), (*serixgen.CSquare)(nil), (*serixgen.CRect)(nil), serixgen.CTriangle{}))
	// the pool of rules objects: mostly plain bounds (the common "one bounds object for several types")
	for i, n := 0, rng.Range(1, 3); i < n; i++ {
		r := &serix.ArrayRules{}
		if rng.Chance(2, 3) {
			r.Max = uint(hx.Pick(rng, []int{3, 4, 6, 8, 300}))
		}
		if rng.Chance(1, 3) {
			r.Min = 1
		}
		switch rng.Intn(8) {
		case 0:
			r.ValidationMode = serializer.ArrayValidationModeNoDuplicates
		case 1:
			r.ValidationMode = serializer.ArrayValidationModeLexicalOrdering
		case 2:
			r.ValidationMode = serializer.ArrayValidationModeNoDuplicates | serializer.ArrayValidationModeLexicalOrdering
		case 3:
			r.ValidationMode = serializer.ArrayValidationModeAtMostOneOfEachTypeByte
		}
		if rng.Chance(1, 8) {
			r.MustOccur = serializer.TypePrefixes{100: struct{}{}}
		}
		u.rules = append(u.rules, r)
	}
	// the pool of TypeSettings values built on them
	for i, n := 0, rng.Range(2, 4); i < n; i++ {
		ts := lpTS(hx.Pick(rng, lps)).WithArrayRules(u.rules[rng.Intn(len(u.rules))])
		switch rng.Intn(6) {
		case 0:
			ts = ts.WithLexicalOrdering(false)
		case 1:
			ts = ts.WithLexicalOrdering(true)
		}
		u.tss = append(u.tss, ts)
	}
	// one settings value without rules and one with rules only (bounds for a type whose prefix is registered)
	u.tss = append(u.tss, lpTS(hx.Pick(rng, lps)), serix.TypeSettings{}.WithArrayRules(u.rules[0]))
	// the string element type: its own prefix, sometimes bounds through a pooled object too
	nameTS := lpTS(serix.LengthPrefixTypeAsByte)
	if rng.Chance(1, 4) {
		nameTS = nameTS.WithArrayRules(u.rules[rng.Intn(len(u.rules))])
	}
	must(u.api.RegisterTypeSettings(LName(""), nameTS))
	// registration of the collection types: a pooled value as it is, a new value around a pooled rules object, or nothing
	for _, t := range collTypes {
		switch rng.Intn(10) {
		case 0, 1, 2, 3, 4:
			must(u.api.RegisterTypeSettings(reflect.New(t).Elem().Interface(), u.tss[rng.Intn(len(u.tss)-2)]))
		case 5, 6, 7:
			must(u.api.RegisterTypeSettings(reflect.New(t).Elem().Interface(), lpTS(hx.Pick(rng, lps)).WithArrayRules(u.rules[rng.Intn(len(u.rules))])))
		case 8:
			must(u.api.RegisterTypeSettings(reflect.New(t).Elem().Interface(), lpTS(hx.Pick(rng, lps))))
		}
	}
	if mirror != nil {
		// a twin: the call sites of the mirrored universe, bound to this universe's objects (schemas are shared: they
		// were derived before any call and are never written to)
		for _, m := range mirror.sites {
			s := &site{t: m.t, optIdx: m.optIdx, isMap: m.isMap, shared: m.shared, schema: m.schema, sexp: m.sexp}
			if m.optIdx >= 0 {
				s.opt = &u.tss[m.optIdx]
			}
			u.sites = append(u.sites, s)
		}

		return u
	}
	// call sites
	d := serixgen.NewDeriver(u.api)
	registered := map[reflect.Type]serix.TypeSettings{}
	u.api.ForEachRegisteredTypeSetting(func(t reflect.Type, ts serix.TypeSettings) bool {
		registered[t] = ts

		return true
	})
	add := func(t reflect.Type, optIdx int) {
		s := &site{t: t, optIdx: optIdx, isMap: t.Kind() == reflect.Map, shared: -1}
		pos := serix.TypeSettings{}
		if optIdx >= 0 {
			s.opt = &u.tss[optIdx]
			pos = u.tss[optIdx]
		}
		sc, err := d.Derive(t, pos)
		if err != nil {
			return
		}
		s.schema, s.sexp = sc, sc.SExp()
		eff := pos.ArrayRules()
		if eff == nil {
			if reg, ok := registered[t]; ok {
				eff = reg.ArrayRules()
			}
		}
		for i, r := range u.rules {
			if r == eff {
				s.shared = i
			}
		}
		u.sites = append(u.sites, s)
	}
	for _, t := range collTypes {
		add(t, -1)
		for j := range u.tss {
			if rng.Chance(1, 2) {
				add(t, j)
			}
		}
	}
	for _, t := range structTypes {
		add(t, -1)
	}

	return u
}

func (s *site) opts(validation bool) []serix.Option {
	var o []serix.Option
	if validation {
		o = append(o, serix.WithValidation())
	}
	if s.opt != nil {
		o = append(o, serix.WithTypeSettings(*s.opt))
	}

	return o
}

// ---- the configuration snapshot ----

func rulesText(r *serix.ArrayRules) string {
	if r == nil {
		return "nil"
	}
	var must []int
	for c := range r.MustOccur {
		must = append(must, int(c))
	}
	sort.Ints(must)

	return fmt.Sprintf("{min=%d max=%d mode=%d must=%v mustnil=%t guards=%t/%t/%t/%t}", r.Min, r.Max, r.ValidationMode, must, r.MustOccur == nil,
		r.Guards.ReadGuard != nil, r.Guards.PostReadGuard != nil, r.Guards.WriteGuard != nil, false)
}

func (u *universe) tsText(ts serix.TypeSettings) string {
	lp, lpSet := ts.LengthPrefixType()
	lex, lexSet := ts.LexicalOrdering()
	id := "other"
	for i, r := range u.rules {
		if r == ts.ArrayRules() {
			id = "pool" + strconv.Itoa(i)
		}
	}
	if ts.ArrayRules() == nil {
		id = "none"
	}

	// the read accessors of TypeSettings, against their definitions on the rules object
	mn, mnSet := ts.MinLen()
	mx, mxSet := ts.MaxLen()
	imn, imx := ts.MinMaxLen()
	var wmn, wmx uint
	if r := ts.ArrayRules(); r != nil {
		wmn, wmx = r.Min, r.Max
	}
	acc := "ok"
	if mn != wmn || mnSet != (wmn != 0) || mx != wmx || mxSet != (wmx != 0) || imn != int(wmn) || imx != int(wmx) {
		acc = fmt.Sprintf("MinLen=%d/%t MaxLen=%d/%t MinMaxLen=%d/%d", mn, mnSet, mx, mxSet, imn, imx)
	}
	size := -1
	if lpSet {
		if n, err := serix.LengthPrefixTypeSize(lp); err == nil {
			size = n
		}
	}
	key, keySet := ts.FieldKey()

	return fmt.Sprintf("lp=%d/%t/%d lex=%t/%t obj=%v key=%s/%t descr=%q accessors=%s rules=%s:%s", lp, lpSet, size, lex, lexSet, ts.ObjectType(), key, keySet, ts.Description(), acc, id, rulesText(ts.ArrayRules()))
}

// snapshot renders everything the user configured, one item per line ("name: content").
func (u *universe) snapshot() []string {
	var out []string
	for i, r := range u.rules {
		out = append(out, fmt.Sprintf("ArrayRules#%d: %s", i, rulesText(r)))
	}
	for i, ts := range u.tss {
		out = append(out, fmt.Sprintf("TypeSettings#%d: %s", i, u.tsText(ts)))
	}
	var reg []string
	u.api.ForEachRegisteredTypeSetting(func(t reflect.Type, ts serix.TypeSettings) bool {
		reg = append(reg, fmt.Sprintf("registered %s: %s", t, u.tsText(ts)))

		return true
	})
	sort.Strings(reg)
	out = append(out, reg...)
	var ifs []string
	u.api.ForEachRegisteredInterfaceObjects(func(t reflect.Type, io *serix.InterfaceObjects) bool {
		var alts []string
		io.ForEachObjectType(func(rt reflect.Type, code uint32) bool {
			alts = append(alts, fmt.Sprintf("%d=%s", code, rt))

			return true
		})
		sort.Strings(alts)
		ifs = append(ifs, fmt.Sprintf("interface %s: %v", t, alts))

		return true
	})
	sort.Strings(ifs)

	return append(out, ifs...)
}

// ---- the interpreter ----

type sess struct {
	r         *hx.Run
	u         *universe
	cur       *site
	curIdx    int
	base      []string // snapshot before the first call
	typeLine  string
	calls     int
	nLines    int
	mapCalls  map[int]bool          // pooled rules objects a map site has used so far
	encBySite map[int][]byte        // the last encoding each call site produced (inputs of the concurrent decodes)
	lastDst   map[int]reflect.Value // per call site: the destination of its last accepted Decode
	pending   *string               // the answer of the next enc request, computed beforehand by a concurrent burst
	reported  map[string]bool
}

func flagName(v bool) string {
	if v {
		return "v"
	}

	return "n"
}

func clip(s string, n int) string {
	if len(s) > n {
		return s[:n] + "…"
	}

	return s
}

func (x *sess) fail(oracle, detail, trigger, call string) {
	kind := "-"
	if x.cur != nil {
		kind = x.cur.t.Kind().String()
	}
	x.r.Fail(oracle, detail+fmt.Sprintf(" [universe %s, site %d: %s, option settings #%d, call %d of the session]", x.typeLine, x.curIdx, x.cur.t, x.cur.optIdx, x.calls),
		map[string]string{"oracle": oracle, "trigger": trigger, "call": call, "top": kind})
}

// encode / decode on a given universe's site
func encodeOn(u *universe, idx int, text string, validation bool) string {
	s := u.sites[idx]
	v, err := serixgen.ParseVal(s.schema, text)
	if err != nil {
		return "bad-op"
	}
	var b []byte
	p := hx.Safely(func() { b, err = u.api.Encode(ctxBg, v.Interface(), s.opts(validation)...) })
	switch {
	case p != "":
		return "panic"
	case err != nil:
		return "err"
	}

	return "ok " + hx.Hex(b)
}

func decodeOn(u *universe, idx int, b []byte, validation bool) (string, reflect.Value, int) {
	return decodeInto(u, idx, b, validation, reflect.New(u.sites[idx].t))
}

// decodeInto decodes into the destination dst (a pointer to a value of the site's type).
func decodeInto(u *universe, idx int, b []byte, validation bool, dst reflect.Value) (string, reflect.Value, int) {
	s := u.sites[idx]
	var n int
	var err error
	p := hx.Safely(func() { n, err = u.api.Decode(ctxBg, b, dst.Interface(), s.opts(validation)...) })
	switch {
	case p != "":
		return "panic", reflect.Value{}, 0
	case err != nil:
		return "err", reflect.Value{}, 0
	}

	return fmt.Sprintf("ok %s %d", serixgen.ValText(s.schema, dst.Elem(), serixgen.TextOpts{}), n), dst.Elem(), n
}

// afterCall: the oracles that hold after every call.
func (x *sess) afterCall(call, op string, ans string, twin func(u *universe) string) {
	x.calls++
	x.r.Count("live:call:" + call)
	if x.cur.isMap && x.cur.shared >= 0 {
		x.mapCalls[x.cur.shared] = true
	}
	if !x.cur.isMap && x.cur.shared >= 0 && x.mapCalls[x.cur.shared] {
		x.r.Count("live:non-map call on a rules object a map call used before")
	}
	now := x.u.snapshot()
	for i := range now {
		if i < len(x.base) && now[i] != x.base[i] {
			name := strings.SplitN(x.base[i], ":", 2)[0]
			what := strings.SplitN(name, "#", 2)[0]
			what = strings.SplitN(what, " ", 2)[0]
			if !x.reported[name] {
				x.reported[name] = true
				x.fail("config", fmt.Sprintf("%s changed a settings object of its configuration: before the session `%s`, after `%s` (request: %s)", call, x.base[i], now[i], clip(op, 300)),
					"settings-mutated:"+what, call)
			}
		}
	}
	if len(now) != len(x.base) && !x.reported["#len"] {
		x.reported["#len"] = true
		x.fail("config", fmt.Sprintf("%s changed the registries: %d configured items before, %d after", call, len(x.base), len(now)), "registry-size", call)
	}
	// the same call on a universe nobody has used yet
	fresh := twin(build(x.u.seed, x.u))
	x.r.Count("live:twin-compared")
	if fresh != ans {
		x.fail("history", fmt.Sprintf("%s answers `%s` on the long-lived API and `%s` on a fresh API configured by the same code (request: %s; schema %s)",
			call, clip(ans, 200), clip(fresh, 200), clip(op, 300), clip(x.cur.sexp, 300)), "answer-depends-on-earlier-calls:"+strings.SplitN(ans, " ", 2)[0]+"-vs-"+strings.SplitN(fresh, " ", 2)[0], call)
	}
}

func (x *sess) exec(op string) string {
	f := strings.SplitN(op, " ", 3)
	switch f[0] {
	case "type":
		if len(f) == 3 && f[1] == "live" {
			seed, err := strconv.ParseUint(f[2], 10, 64)
			x.u, x.cur = nil, nil
			if err == nil {
				x.u = build(seed, nil)
				x.base = x.u.snapshot()
				for _, l := range x.base {
					if strings.Contains(l, "accessors=") && !strings.Contains(l, "accessors=ok") {
						x.r.Fail("accessors", "MinLen / MaxLen / MinMaxLen disagree with the bounds of the rules object: "+l,
							map[string]string{"oracle": "accessors", "trigger": "type-settings-accessors"})
					}
				}
				x.typeLine = op
				x.calls = 0
				x.mapCalls = map[int]bool{}
				x.lastDst = nil
				x.reported = map[string]bool{}
			}
		}
		if len(f) == 3 && f[1] == "sel" && x.u != nil {
			x.cur = nil
			if k, err := strconv.Atoi(f[2]); err == nil && k >= 0 && k < len(x.u.sites) {
				x.cur, x.curIdx = x.u.sites[k], k
			}
		}

		return "ok"
	case "def":
		if x.cur == nil {
			return "bad-schema"
		}
		if x.cur.schema.WF() {
			return "ok wf"
		}

		return "ok nowf"
	case "enc":
		if x.cur == nil || len(f) < 3 || (f[1] != "v" && f[1] != "n") {
			return "bad-op"
		}
		val := f[1] == "v"
		idx := x.curIdx
		var ans string
		call := "Encode"
		if x.pending != nil {
			ans, x.pending, call = *x.pending, nil, "Encode(concurrent)"
		} else {
			ans = encodeOn(x.u, idx, f[2], val)
		}
		if ans == "bad-op" {
			return ans
		}
		x.afterCall(call, op, ans, func(u *universe) string { return encodeOn(u, idx, f[2], val) })

		return ans
	case "dec":
		if x.cur == nil || len(f) < 3 || (f[1] != "v" && f[1] != "n" && f[1] != "w") {
			return "bad-op"
		}
		val := f[1] == "v"
		idx := x.curIdx
		b := hx.UnHex(f[2])
		keep := append([]byte(nil), b...)
		dst := reflect.New(x.cur.t)
		reused := ""
		if f[1] == "w" {
			// the destination an earlier accepted Decode of this call site filled (users decode into the same variable again)
			val = true
			if old, ok := x.lastDst[idx]; ok {
				dst = old
				reused = serixgen.ValText(x.cur.schema, dst.Elem(), serixgen.TextOpts{})
			}
		}
		ans, d, n := decodeInto(x.u, idx, b, val, dst)
		call := "Decode"
		if reused != "" {
			call = "Decode(reused destination)"
			x.r.Count("live:decode-into-reused-destination")
			if fresh, _, _ := decodeOn(x.u, idx, append([]byte(nil), keep...), true); fresh != ans {
				x.fail("destination", fmt.Sprintf("validated Decode of %s answers `%s` into a destination that held `%s` and `%s` into a fresh destination: what Decode yields is not a function of the bytes (schema %s)",
					clip(f[2], 200), clip(ans, 300), clip(reused, 200), clip(fresh, 300), clip(x.cur.sexp, 300)), "reused-destination:"+strings.SplitN(ans, " ", 2)[0]+"-vs-"+strings.SplitN(fresh, " ", 2)[0], "Decode")
			}
		}
		if strings.HasPrefix(ans, "ok ") {
			if x.lastDst == nil {
				x.lastDst = map[int]reflect.Value{}
			}
			x.lastDst[idx] = dst
		}
		if x.pending != nil {
			// the answer the concurrent call gave; the sequential call just made supplies the decoded value for the
			// canonical oracle and must agree with it
			if *x.pending != ans {
				x.fail("history", fmt.Sprintf("Decode answers `%s` when it runs beside other calls on the shared API and `%s` alone (request: %s)", clip(*x.pending, 200), clip(ans, 200), clip(op, 300)),
					"answer-depends-on-concurrent-calls", "Decode(concurrent)")
			}
			ans, x.pending, call = *x.pending, nil, "Decode(concurrent)"
		}
		if !bytes.Equal(keep, b) {
			x.fail("aliasing", fmt.Sprintf("Decode modified its input buffer: %x -> %x", keep, b), "decode-mutated-input", "Decode")
			copy(b, keep)
		}
		x.afterCall(call, op, ans, func(u *universe) string { a, _, _ := decodeOn(u, idx, append([]byte(nil), keep...), val); return a })
		if val && strings.HasPrefix(ans, "ok ") && n >= 0 && n <= len(b) {
			x.r.Count("live:accepted")
			var b2 []byte
			var err error
			p := hx.Safely(func() { b2, err = x.u.api.Encode(ctxBg, d.Interface(), x.cur.opts(true)...) })
			if p != "" || err != nil || !bytes.Equal(b2, b[:n]) {
				x.fail("canonical", fmt.Sprintf("validated Decode accepted %s (n=%d) but re-encoding gives %x (err %v %s); schema %s", clip(f[2], 200), n, b2, err, p, clip(x.cur.sexp, 300)),
					"accepted-not-canonical", "Decode")
			} else {
				x.r.Count("live:reencoded-equal")
			}
			x.afterCall("Encode", "enc v <the value decoded from "+clip(f[2], 100)+">", "ok "+hx.Hex(b2), func(u *universe) string {
				var b3 []byte
				var err3 error
				if p3 := hx.Safely(func() { b3, err3 = u.api.Encode(ctxBg, d.Interface(), u.sites[idx].opts(true)...) }); p3 != "" || err3 != nil {
					return "ok " + hx.Hex(b2) // already reported by the canonical oracle
				}

				return "ok " + hx.Hex(b3)
			})
		}

		return ans
	}

	return "bad-op"
}

func (x *sess) line(op string) string {
	if strings.HasPrefix(op, "def ") && x.cur != nil {
		op = "def " + x.cur.sexp
	}
	var ans string
	if p := hx.Safely(func() { ans = x.exec(op) }); p != "" {
		ans = "harness-panic " + clip(p, 100)
	}
	x.r.Line(op, ans)
	rec.Line(op, ans)
	x.nLines++
	x.r.Count("op:" + strings.SplitN(op, " ", 2)[0])
	if f := strings.SplitN(op, " ", 2)[0]; f == "enc" || f == "dec" {
		x.r.Count(f + ":" + strings.SplitN(ans, " ", 2)[0])
	}

	return ans
}

// genSession: one long-lived API, many calls hopping between its call sites.
func genSession(r *hx.Run, rng *hx.Rng, sub uint64) {
	rec.Start(r.Case(sub))
	x := &sess{r: r}
	seed := rng.U64() >> 1
	x.line(fmt.Sprintf("type live %d", seed))
	u := x.u
	if u == nil || len(u.sites) == 0 {
		return
	}
	gen := build(seed, nil) // values are generated against a universe of their own (the generator encodes elements to arrange them)
	vg := &serixgen.VGen{Rng: rng, API: gen.api}
	shared := 0
	for _, s := range u.sites {
		if s.shared >= 0 {
			shared++
		}
	}
	r.Count(fmt.Sprintf("live:sites-with-pooled-rules:%d", min(shared/5*5, 30)))
	var encs [][]byte
	steps := rng.Range(20, 60)
	for i := 0; i < steps && x.nLines < 1500; i++ {
		k := rng.Intn(len(u.sites))
		if i%3 == 0 {
			// a map site regularly: maps are where the codec derives settings of its own (ensureOrdering)
			for tries := 0; tries < 20 && !u.sites[k].isMap; tries++ {
				k = rng.Intn(len(u.sites))
			}
		}
		s := u.sites[k]
		x.line(fmt.Sprintf("type sel %d", k))
		x.line("def -")
		r.Count("live:site-kind:" + s.t.Kind().String())
		for j, m := 0, rng.Range(1, 2); j < m; j++ {
			v := vg.Gen(gen.sites[k].schema)
			text := serixgen.ValText(s.schema, v, serixgen.TextOpts{})
			fl := flagName(rng.Chance(4, 5))
			ans := x.line("enc " + fl + " " + text)
			if !strings.HasPrefix(ans, "ok ") {
				continue
			}
			b := hx.UnHex(ans[3:])
			if len(b) > 0 {
				r.Nontrivial(serixgen.CaseKey(s.sexp, text, fl))
			}
			if len(b) > 2000 {
				continue
			}
			if _, again := x.lastDst[k]; again && rng.Chance(2, 3) {
				x.line("dec w " + hx.Hex(b))
			} else {
				x.line("dec v " + hx.Hex(b))
			}
			var other []byte = b
			if len(encs) > 0 {
				other = encs[rng.Intn(len(encs))]
			}
			for _, mt := range serixgen.Mutate(rng, b, other, 1, s.schema.HostileLoop()) {
				x.line("dec " + flagName(rng.Chance(4, 5)) + " " + hx.Hex(mt))
			}
			if len(encs) < 16 {
				encs = append(encs, b)
			}
			if x.encBySite == nil {
				x.encBySite = map[int][]byte{}
			}
			x.encBySite[k] = b
		}
	}
	if x.nLines < 1400 {
		x.burst(rng, vg, gen)
	}
	if len(r.Samples) < r.MaxSamples {
		r.Sample(r.CaseLines())
	}
}

// burst: several Encode calls on the long-lived API at the same time (real users share one API between goroutines); the
// requests are then emitted in a fixed order with the answers the concurrent calls gave, and judged like every other call
// (what a call answers depends neither on the calls before it nor on the calls running beside it).  A replay executes
// them one after the other.
func (x *sess) burst(rng *hx.Rng, vg *serixgen.VGen, gen *universe) {
	type job struct {
		k    int
		text string // enc: the value
		in   []byte // dec: the input
		fl   string
		ans  string
	}
	jobs := make([]job, rng.Range(4, 8))
	var withEnc []int
	for k := range x.encBySite {
		withEnc = append(withEnc, k)
	}
	sort.Ints(withEnc)
	for i := range jobs {
		if i%3 == 2 && len(withEnc) > 0 {
			// decode something an earlier call of the session produced
			k := withEnc[rng.Intn(len(withEnc))]
			jobs[i] = job{k: k, in: append([]byte(nil), x.encBySite[k]...), fl: "v"}

			continue
		}
		k := rng.Intn(len(x.u.sites))
		if i%2 == 0 {
			for tries := 0; tries < 20 && !x.u.sites[k].isMap; tries++ {
				k = rng.Intn(len(x.u.sites))
			}
		}
		v := vg.Gen(gen.sites[k].schema)
		jobs[i] = job{k: k, text: serixgen.ValText(x.u.sites[k].schema, v, serixgen.TextOpts{}), fl: flagName(rng.Chance(4, 5))}
	}
	var wg sync.WaitGroup
	for i := range jobs {
		wg.Add(1)
		go func(j *job) {
			defer wg.Done()
			if j.in != nil {
				j.ans, _, _ = decodeOn(x.u, j.k, append([]byte(nil), j.in...), true)
			} else {
				j.ans = encodeOn(x.u, j.k, j.text, j.fl == "v")
			}
		}(&jobs[i])
	}
	wg.Wait()
	x.r.Count("live:concurrent-burst")
	for i := range jobs {
		x.line(fmt.Sprintf("type sel %d", jobs[i].k))
		x.line("def -")
		x.pending = &jobs[i].ans
		if jobs[i].in != nil {
			x.line("dec v " + hx.Hex(jobs[i].in))
		} else {
			x.line("enc " + jobs[i].fl + " " + jobs[i].text)
		}
		x.pending = nil
	}
}

var corpus = [][]string{
	// Decode into the variable an earlier Decode filled (fixed in /repo 7390347: the slice was appended to, the map merged)
	{"type live 3395948882924712079", "type sel 36", "def -", "dec v 0300663d0a042e64cf2a65665c3a00", "dec w 0000", "dec w 01006401", "dec w 0000",
		"type sel 2", "def -", "dec v 020040a97fff7f", "dec w 0100bde7", "dec w 020040a97fff7f", "dec w 00"},
}

var rec *refo.Rec

const driverPath = "../lean/.lake/build/bin/drv_c03"

func main() {
	// --racepart: the run of the check's fourth part, which the thorough tier builds with the race detector (about 8 times
	// slower): other sessions than the main run, fewer of them
	racePart := flag.Bool("racepart", false, "sessions for the race-detector build")
	r := hx.Start()
	sessions := 160 * r.Scale
	if *racePart {
		r.Rng = hx.NewRng(r.Seed ^ 0x72616365)
		sessions = 20 * r.Scale
	}
	r.Rule = "one case = one long-lived API whose registered types and call sites share *ArrayRules / TypeSettings objects; 20..60 hops between call sites, per hop " +
		"1..2 values encoded, the encoding and a mutated input decoded; non-trivial = Encode succeeded with a non-empty encoding"
	r.MaxSamples = 1
	x := &sess{r: r}
	rec = &refo.Rec{R: r, Layer: "serix-long-lived-api"}
	if lines := r.ReplayLines(); lines != nil {
		rec.Start(r.Case(0))
		for _, l := range lines {
			x.line(l)
		}
		rec.Finish(driverPath)
		r.Finish()

		return
	}
	for _, c := range corpus {
		rec.Start(r.Case(0))
		y := &sess{r: r}
		for _, l := range c {
			y.line(l)
		}
	}
	for i := 0; i < sessions; i++ {
		rng, sub := r.Rng.Fork()
		genSession(r, rng, sub)
	}
	rec.Finish(driverPath)
	r.Finish()
}
