// The Serializable-object calls of the two chains (model: Hive/Model/SerixC03Objects.lean):
//
//	w obj v|n g0|g1|gn HEX|fail                          WriteObject (guard accepts / refuses / is nil)
//	w payload g0|g1|gn HEX|nil|fail                      WritePayload
//	w objs LP v|n|vs|ns MIN MAX FLAGS g0|g1|gn (HEX|fail)*  WriteSliceOfObjects;  w objsbad: a source of another type
//	r obj u8|u32|none                                    ReadObject
//	r payload                                            ReadPayload
//	r objs LP v|n MIN MAX FLAGS u8|u32|none MUST         ReadSliceOfObjects
//
// An object on the wire is code ++ [len] ++ body (tobj).  Go-side oracles: `canonical` - a payload / a slice of objects the
// validating reader accepted is written back to exactly the bytes consumed; `rules` - what ReadSliceOfObjects accepted under
// validation contains every must-occur type code (judged on the objects handed to the target).
package main

import (
	"bytes"
	"encoding/binary"
	"fmt"
	"strconv"
	"strings"

	"verifharness/hx"

	"github.com/iotaledger/hive.go/ierrors"
	"github.com/iotaledger/hive.go/serializer/v2"
)

var allowedTypes = map[uint32]bool{0: true, 1: true, 2: true, 3: true, 64: true, 200: true, 70000: true}

// tobj is the harness's Serializable: a type code of the denotation's width, a length byte, the body.
type tobj struct {
	den  serializer.TypeDenotationType
	ty   uint32
	body []byte
	raw  []byte // write side: the bytes to return as they are (nil: use code/len/body)
	fail bool
}

func denW(den serializer.TypeDenotationType) int {
	switch den {
	case serializer.TypeDenotationByte:
		return 1
	case serializer.TypeDenotationUint32:
		return 4
	}

	return 0
}

func (o *tobj) Deserialize(data []byte, _ serializer.DeSerializationMode, _ interface{}) (int, error) {
	w := denW(o.den)
	if len(data) < w+1 {
		return 0, serializer.ErrDeserializationNotEnoughData
	}
	l := int(data[w])
	if len(data) < w+1+l {
		return 0, serializer.ErrDeserializationNotEnoughData
	}
	o.body = append([]byte{}, data[w+1:w+1+l]...)
	o.raw = append([]byte{}, data[:w+1+l]...)

	return w + 1 + l, nil
}

func (o *tobj) Serialize(_ serializer.DeSerializationMode, _ interface{}) ([]byte, error) {
	if o.fail {
		return nil, errItem
	}

	return append([]byte{}, o.raw...), nil
}

func (o *tobj) MarshalJSON() ([]byte, error) { return []byte("null"), nil }
func (o *tobj) UnmarshalJSON([]byte) error   { return nil }

func readGuard(den serializer.TypeDenotationType) serializer.SerializableReadGuardFunc {
	return func(ty uint32) (serializer.Serializable, error) {
		if !allowedTypes[ty] {
			return nil, errItem
		}

		return &tobj{den: den, ty: ty}, nil
	}
}

func writeGuard(g string) serializer.SerializableWriteGuardFunc {
	switch g {
	case "g0":
		return func(serializer.Serializable) error { return nil }
	case "g1":
		return func(serializer.Serializable) error { return errItem }
	}

	return nil
}

func objOf(h string) *tobj {
	if h == "fail" {
		return &tobj{fail: true}
	}

	return &tobj{raw: hx.UnHex(h)}
}

// execObj: the object lines (true when the line was one of them).
func (x *sess) execObj(f []string) (string, bool) {
	if len(f) < 2 {
		return "", false
	}
	switch f[0] + " " + f[1] {
	case "w obj", "w payload", "w objs", "w objsbad":
		if x.ser == nil {
			return "bad-op", true
		}
		w0, c0 := x.serState()
		p := hx.Safely(func() {
			switch f[1] {
			case "obj":
				x.ser.WriteObject(objOf(f[4]), modeOf(f[2]), nil, writeGuard(f[3]), ident)
			case "payload":
				if f[3] == "nil" {
					x.ser.WritePayload(nil, serializer.DeSeriModePerformValidation, nil, writeGuard(f[2]), ident)
				} else {
					x.ser.WritePayload(objOf(f[3]), serializer.DeSeriModePerformValidation, nil, writeGuard(f[2]), ident)
				}
			case "objsbad":
				x.ser.WriteSliceOfObjects([]int{1}, serializer.DeSeriModeNoValidation, nil, serializer.SeriLengthPrefixTypeAsByte, &serializer.ArrayRules{}, ident)
			case "objs":
				seris := make(serializer.Serializables, 0, len(f)-8)
				for _, h := range f[8:] {
					seris = append(seris, objOf(h))
				}
				rules := rulesOf(f[4], f[5], f[6])
				rules.Guards.WriteGuard = writeGuard(f[7])
				x.ser.WriteSliceOfObjects(seris, modeOf(f[3]), nil, lpOf(f[2]), rules, ident)
			}
		})
		if p != "" {
			if strings.Contains(p, "index out of range") {
				return "bad-op", true
			}

			return "panic", true
		}
		w1, c1 := x.serState()
		if c0 != "-" && (w1 != w0 || c1 != c0) {
			x.fail("sticky", fmt.Sprintf("Serializer with stored error %s (Written %d) changed to %s (Written %d) on %v", c0, w0, c1, w1, f), "serializer")
		}

		return fmt.Sprintf("%d %s", w1, c1), true
	case "r obj", "r payload", "r objs":
		if x.de == nil {
			return "bad-op", true
		}
		keep := append([]byte(nil), x.src...)
		off0, err0 := x.de.Done()
		val, cls := "-", ""
		p := hx.Safely(func() {
			switch f[1] {
			case "obj":
				var got serializer.Serializable
				x.de.ReadObject(func(s serializer.Serializable) { got = s }, serializer.DeSeriModePerformValidation, nil, denOf(f[2]), readGuard(denOf(f[2])), ident)
				if got != nil {
					val = hx.Hex(got.(*tobj).raw)
				}
			case "payload":
				var got serializer.Serializable
				x.de.ReadPayload(func(s serializer.Serializable) { got = s }, serializer.DeSeriModePerformValidation, nil, readGuard(serializer.TypeDenotationUint32), ident)
				val = "nil"
				if got != nil {
					val = hx.Hex(got.(*tobj).raw)
					// canonical: the payload read is written back to exactly the marker and the bytes consumed
					off1, _ := x.de.Done()
					back, err := serializer.NewSerializer().WritePayload(got, serializer.DeSeriModePerformValidation, nil, nil, ident).Serialize()
					if err != nil || !bytes.Equal(back, keep[off0:off1]) {
						x.fail("canonical", fmt.Sprintf("ReadPayload accepted %x but WritePayload writes %x (%v)", keep[off0:off1], back, err), "payload-rewrite")
					}
				}
			case "objs":
				var got serializer.Serializables
				rules := rulesOf(f[4], f[5], f[6])
				den := denOf(f[7])
				rules.Guards.ReadGuard = readGuard(den)
				must := serializer.TypePrefixes{}
				if f[8] != "-" {
					for _, t := range strings.Split(f[8], ",") {
						n, err := strconv.ParseUint(t, 10, 32)
						if err != nil {
							panic("bad number " + t)
						}
						must[uint32(n)] = struct{}{}
					}
					rules.MustOccur = must
				}
				x.de.ReadSliceOfObjects(func(s serializer.Serializables) { got = s }, modeOf(f[3]), nil, lpOf(f[2]), den, rules, ident)
				off1, err1 := x.de.Done()
				if err1 == nil {
					hs := make([]string, len(got))
					seen := map[uint32]bool{}
					for i := range got {
						o := got[i].(*tobj)
						hs[i] = hx.Hex(o.raw)
						switch den {
						case serializer.TypeDenotationByte:
							seen[uint32(o.raw[0])] = true
						case serializer.TypeDenotationUint32:
							seen[binary.LittleEndian.Uint32(o.raw)] = true
						default:
							seen[0] = true
						}
					}
					val = "[" + strings.Join(hs, ",") + "]"
					if strings.HasPrefix(f[3], "v") {
						for m := range must {
							if !seen[m] {
								x.fail("rules", fmt.Sprintf("ReadSliceOfObjects %v accepted %x without the must-occur type %d", f[2:], keep[off0:off1], m), "objs-must-occur")
							}
						}
						// canonical: written back with the same rules = the bytes consumed
						back, err := serializer.NewSerializer().WriteSliceOfObjects(got, modeOf(f[3]), nil, lpOf(f[2]), rulesOf(f[4], f[5], f[6]), ident).Serialize()
						if err != nil || !bytes.Equal(back, keep[off0:off1]) {
							x.fail("canonical", fmt.Sprintf("ReadSliceOfObjects %v accepted %x but WriteSliceOfObjects writes %x (%v)", f[2:], keep[off0:off1], back, err), "objs-rewrite")
						}
					}
				} else if ierrors.Is(err1, serializer.ErrArrayValidationTypesNotOccurred) && err0 == nil {
					cls = "types-not-occurred"
				}
			}
		})
		if !bytes.Equal(keep, x.src) {
			x.fail("aliasing", fmt.Sprintf("read call %v changed the source buffer", f), "read-mutated-input")
			copy(x.src, keep)
		}
		if p != "" {
			if strings.Contains(p, "index out of range") || strings.HasPrefix(p, "bad ") {
				return "bad-op", true
			}

			return "panic", true
		}
		off1, err1 := x.de.Done()
		if err0 != nil && (off1 != off0 || class(err1) != class(err0)) {
			x.fail("sticky", fmt.Sprintf("Deserializer with stored error %s (offset %d) changed to %s (offset %d) on %v", class(err0), off0, class(err1), off1, f), "deserializer")
		}
		if err1 != nil {
			val = "-"
		}
		if cls == "" {
			cls = class(err1)
		}

		return fmt.Sprintf("%s %d %s", val, off1, cls), true
	}

	return "", false
}

// ---- generator ----

func genObjBytes(rng *hx.Rng, den string) []byte {
	codes := []uint32{0, 1, 2, 3, 64, 200, 70000, 5, 255}
	c := hx.Pick(rng, codes)
	var b []byte
	switch den {
	case "u8":
		b = []byte{byte(c)}
	case "u32":
		b = binary.LittleEndian.AppendUint32(nil, c)
	}
	l := rng.Intn(4)
	b = append(b, byte(l))
	for i := 0; i < l; i++ {
		b = append(b, byte(rng.Intn(256)))
	}

	return b
}

func genFlags(rng *hx.Rng) string {
	fl := ""
	for _, c := range "dlbw" {
		if rng.Chance(1, 4) {
			fl += string(c)
		}
	}
	if fl == "" {
		fl = "-"
	}

	return fl
}

func genObjCase(r *hx.Run, rng *hx.Rng, sub uint64) {
	rec.Start(r.Case(sub))
	x := &sess{r: r}
	den := hx.Pick(rng, []string{"u8", "u32", "u32", "none"})
	guard := hx.Pick(rng, []string{"g0", "g0", "g0", "g1", "gn"})
	mode := hx.Pick(rng, []string{"v", "v", "n", "vs", "ns"})
	x.line("w new")
	var reads []string
	for i, n := 0, rng.Range(1, 4); i < n; i++ {
		switch rng.Intn(4) {
		case 0:
			o := hx.Hex(genObjBytes(rng, den))
			if rng.Chance(1, 10) {
				o = "fail"
			}
			x.line(fmt.Sprintf("w obj %s %s %s", strings.TrimSuffix(mode, "s"), guard, o))
			reads = append(reads, "r obj "+den)
		case 1:
			o := hx.Hex(genObjBytes(rng, "u32"))
			switch rng.Intn(8) {
			case 0:
				o = "nil"
			case 1:
				o = "fail"
			}
			x.line(fmt.Sprintf("w payload %s %s", hx.Pick(rng, []string{"g0", "g0", "gn", "g1"}), o))
			reads = append(reads, "r payload")
		case 2:
			k := rng.Intn(5)
			var hs []string
			for j := 0; j < k; j++ {
				if rng.Chance(1, 25) {
					hs = append(hs, "fail")
				} else {
					hs = append(hs, hx.Hex(genObjBytes(rng, den)))
				}
			}
			lp := hx.Pick(rng, []string{"u8", "u16", "u32", "u8", "u8", "u64"})
			mn, mx, fl := rng.Intn(2), hx.Pick(rng, []int{0, 0, 3, 5}), genFlags(rng)
			x.line(strings.TrimSpace(fmt.Sprintf("w objs %s %s %d %d %s %s %s", lp, mode, mn, mx, fl, guard, strings.Join(hs, " "))))
			must := "-"
			if rng.Chance(1, 2) {
				var ms []string
				for j, m := 0, rng.Range(1, 2); j < m; j++ {
					ms = append(ms, strconv.Itoa(int(hx.Pick(rng, []uint32{0, 1, 2, 64, 200, 70000}))))
				}
				must = strings.Join(ms, ",")
			}
			reads = append(reads, fmt.Sprintf("r objs %s %s %d %d %s %s %s", lp, strings.TrimSuffix(mode, "s"), mn, mx, fl, den, must))
		default:
			if rng.Chance(1, 6) {
				x.line("w objsbad")
			} else {
				x.line("w byte " + strconv.Itoa(rng.Intn(256)))
				reads = append(reads, "r byte")
			}
		}
	}
	ser := x.line("w ser")
	src := randBytes(rng, rng.Intn(16))
	if strings.HasPrefix(ser, "ok ") {
		src = hx.UnHex(ser[3:])
		r.Nontrivial("obj:" + ser)
	}
	inputs := [][]byte{src}
	if len(src) > 0 {
		for i := 0; i < 3; i++ {
			m := append([]byte{}, src...)
			switch rng.Intn(4) {
			case 0:
				m[rng.Intn(len(m))] ^= byte(1 << uint(rng.Intn(8)))
			case 1:
				m[rng.Intn(len(m))] = byte(rng.Intn(4))
			case 2:
				m = m[:rng.Intn(len(m))]
			default:
				m = append(m, byte(rng.Intn(4)), 0)
			}
			inputs = append(inputs, m)
		}
	}
	for _, in := range inputs {
		x.line("r new " + hx.Hex(in))
		for _, rd := range reads {
			x.line(rd)
		}
		x.line("r done")
	}
	if len(r.Samples) < r.MaxSamples+2 && rng.Chance(1, 40) {
		r.Sample(r.CaseLines())
	}
}
