// C03, primitive layer: the Serializer / Deserializer chains of serializer/serializer.go driven directly, one call per
// op line (`w …` lines write, `r …` lines read; see Hive/Model/SerixPrim.lean for the protocol).  After every call the
// observable state is printed — Written() and the class of the stored error (errors.Is over the sentinels of
// serializer/error.go) for a Serializer, value / offset / error class for a Deserializer — and compared with the Lean
// model of the chains.  Oracles on the real code, independent of Lean:
//   - sticky: once an error is stored no later call changes Written(), the offset or the error;
//   - roundtrip: what a write script produced is read back by the mirrored read script to the same values
//     (timestamps saturated, auto-sorted sequences sorted bytewise), consuming exactly the bytes written;
//   - canonical: whatever the mirrored read script (validation on) accepts from a mutated input is written back by the
//     write script to exactly the bytes consumed, unless a stamp of the input lies above MaxInt64;
//   - aliasing: no read call changes the source buffer, no write call changes the data it was given.
package main

import (
	"bytes"
	"encoding/binary"
	"errors"
	"fmt"
	"math"
	"math/big"
	"sort"
	"strconv"
	"strings"

	"verifharness/c03/refo"
	"verifharness/hx"
	"verifharness/serixgen"

	"github.com/iotaledger/hive.go/ierrors"
	"github.com/iotaledger/hive.go/serializer/v2"
)

var errItem = errors.New("item reader: not enough data")

var classes = []struct {
	e    error
	name string
}{
	{errItem, "item"},
	{serializer.ErrDeserializationNotEnoughData, "not-enough-data"},
	{serializer.ErrDeserializationInvalidBoolValue, "invalid-bool"},
	{serializer.ErrDeserializationTypeMismatch, "type-mismatch"},
	{serializer.ErrSliceLengthTooLong, "slice-too-long"},
	{serializer.ErrSliceLengthTooShort, "slice-too-short"},
	{serializer.ErrStringTooLong, "string-too-long"},
	{serializer.ErrStringTooShort, "string-too-short"},
	{serializer.ErrDeserializationLengthMaxExceeded, "len-max"},
	{serializer.ErrDeserializationLengthMinNotReached, "len-min"},
	{serializer.ErrUint256Nil, "u256-nil"},
	{serializer.ErrUint256NumNegative, "u256-negative"},
	{serializer.ErrUint256TooBig, "u256-too-big"},
	{serializer.ErrArrayValidationMinElementsNotReached, "arr-min"},
	{serializer.ErrArrayValidationMaxElementsExceeded, "arr-max"},
	{serializer.ErrArrayValidationOrderViolatesLexicalOrder, "arr-order"},
	{serializer.ErrArrayValidationViolatesUniqueness, "arr-unique"},
	{serializer.ErrArrayValidationViolatesTypeUniqueness, "arr-type-unique"},
	{serializer.ErrInvalidBytes, "invalid-bytes"},
	{serializer.ErrDeserializationNotAllConsumed, "not-all-consumed"},
}

func class(err error) string {
	if err == nil {
		return "-"
	}
	for _, c := range classes {
		if ierrors.Is(err, c.e) {
			return c.name
		}
	}

	return "other"
}

func ident(err error) error { return err }

func lpOf(s string) serializer.SeriLengthPrefixType {
	switch s {
	case "u8":
		return serializer.SeriLengthPrefixTypeAsByte
	case "u16":
		return serializer.SeriLengthPrefixTypeAsUint16
	case "u32":
		return serializer.SeriLengthPrefixTypeAsUint32
	case "u64":
		return serializer.SeriLengthPrefixTypeAsUint64
	}

	return serializer.SeriLengthPrefixType(0)
}

func modeOf(s string) serializer.DeSerializationMode {
	var m serializer.DeSerializationMode
	if strings.HasPrefix(s, "v") {
		m |= serializer.DeSeriModePerformValidation
	}
	if strings.HasSuffix(s, "s") {
		m |= serializer.DeSeriModePerformLexicalOrdering
	}

	return m
}

func rulesOf(mn, mx, fl string) *serializer.ArrayRules {
	r := &serializer.ArrayRules{Min: uint(atoi(mn)), Max: uint(atoi(mx))}
	if strings.Contains(fl, "d") {
		r.ValidationMode |= serializer.ArrayValidationModeNoDuplicates
	}
	if strings.Contains(fl, "l") {
		r.ValidationMode |= serializer.ArrayValidationModeLexicalOrdering
	}
	if strings.Contains(fl, "b") {
		r.ValidationMode |= serializer.ArrayValidationModeAtMostOneOfEachTypeByte
	}
	if strings.Contains(fl, "w") {
		r.ValidationMode |= serializer.ArrayValidationModeAtMostOneOfEachTypeUint32
	}

	return r
}

func atoi(s string) int {
	n, err := strconv.Atoi(s)
	if err != nil {
		panic("bad number " + s)
	}

	return n
}

func bigOf(s string) *big.Int {
	n, ok := new(big.Int).SetString(s, 10)
	if !ok {
		panic("bad integer " + s)
	}

	return n
}

type sess struct {
	r   *hx.Run
	ser *serializer.Serializer
	de  *serializer.Deserializer
	src []byte
	// last read value (text) for the oracles
	lastVal string
}

func (x *sess) fail(oracle, detail, trigger string) {
	x.r.Fail(oracle, detail, map[string]string{"oracle": oracle, "trigger": trigger, "layer": "serializer-primitives"})
}

func (x *sess) serState() (int, string) {
	_, err := x.ser.Serialize()

	return x.ser.Written(), class(err)
}

// execW executes one `w …` line.
func (x *sess) execW(f []string) string {
	if len(f) == 1 && f[0] == "new" {
		x.ser = serializer.NewSerializer()

		return "ok"
	}
	if x.ser == nil {
		return "bad-op"
	}
	if len(f) == 1 && f[0] == "ser" {
		b, err := x.ser.Serialize()
		if err != nil {
			return "err " + class(err)
		}

		return "ok " + hx.Hex(b)
	}
	w0, c0 := x.serState()
	p := hx.Safely(func() {
		switch f[0] {
		case "num":
			v := bigOf(f[2])
			float := len(f) > 3 && f[3] == "f"
			neg := v.Sign() < 0
			switch f[1] {
			case "1":
				if neg {
					x.ser.WriteNum(int8(v.Int64()), ident)
				} else {
					x.ser.WriteNum(uint8(v.Uint64()), ident)
				}
			case "2":
				if neg {
					x.ser.WriteNum(int16(v.Int64()), ident)
				} else {
					x.ser.WriteNum(uint16(v.Uint64()), ident)
				}
			case "4":
				switch {
				case float:
					x.ser.WriteNum(math.Float32frombits(uint32(v.Uint64())), ident)
				case neg:
					x.ser.WriteNum(int32(v.Int64()), ident)
				default:
					x.ser.WriteNum(uint32(v.Uint64()), ident)
				}
			case "8":
				switch {
				case float:
					x.ser.WriteNum(math.Float64frombits(v.Uint64()), ident)
				case neg:
					x.ser.WriteNum(v.Int64(), ident)
				default:
					x.ser.WriteNum(v.Uint64(), ident)
				}
			default:
				panic("bad width")
			}
		case "numbad":
			x.ser.WriteNum(int(5), ident)
		case "bool":
			x.ser.WriteBool(f[1] == "1", ident)
		case "byte":
			x.ser.WriteByte(byte(atoi(f[1])), ident)
		case "fixed":
			data := hx.UnHex(f[1])
			keep := append([]byte(nil), data...)
			x.ser.WriteBytes(data, ident)
			if !bytes.Equal(keep, data) {
				x.fail("aliasing", "WriteBytes changed its argument", "write-mutated-argument")
			}
		case "vb":
			data := hx.UnHex(f[4])
			keep := append([]byte(nil), data...)
			x.ser.WriteVariableByteSlice(data, lpOf(f[1]), ident, atoi(f[2]), atoi(f[3]))
			if !bytes.Equal(keep, data) {
				x.fail("aliasing", "WriteVariableByteSlice changed its argument", "write-mutated-argument")
			}
		case "str":
			x.ser.WriteString(string(hx.UnHex(f[4])), lpOf(f[1]), ident, atoi(f[2]), atoi(f[3]))
		case "time":
			x.ser.WriteTime(serixgen.TimeFromNanos(bigOf(f[1])), ident)
		case "u256":
			if f[1] == "nil" {
				x.ser.WriteUint256(nil, ident)
			} else {
				v := bigOf(f[1])
				keep := new(big.Int).Set(v)
				x.ser.WriteUint256(v, ident)
				if keep.Cmp(v) != 0 {
					x.fail("aliasing", "WriteUint256 changed the number it was given", "write-mutated-argument")
				}
			}
		case "plen":
			x.ser.WritePayloadLength(atoi(f[1]), ident)
		case "code":
			if f[1] == "u8" {
				x.ser.WriteNum(uint8(atoi(f[2])), ident)
			} else {
				x.ser.WriteNum(uint32(atoi(f[2])), ident)
			}
		case "seq":
			items := make([][]byte, 0, len(f)-6)
			for _, h := range f[6:] {
				items = append(items, hx.UnHex(h))
			}
			keep := make([][]byte, len(items))
			for i := range items {
				keep[i] = append([]byte(nil), items[i]...)
			}
			x.ser.WriteSliceOfByteSlices(items, modeOf(f[2]), lpOf(f[1]), rulesOf(f[3], f[4], f[5]), ident)
			if c0 == "-" {
				// independent judgement of the rules (declarative, on the elements as given): accepted iff satisfied
				_, c := x.serState()
				if want := rulesHold(keep, f[2], atoi(f[3]), atoi(f[4]), f[5]); strings.HasPrefix(f[2], "v") && c != "other" && want != (c == "-") {
					x.fail("rules", fmt.Sprintf("WriteSliceOfByteSlices %v answered %s, the rules are satisfied: %v", f[1:6], c, want)+fmt.Sprintf(" elements=%x", keep), "write-seq")
				}
			}
			// the elements may be re-ordered (sort.Slice on the caller's slice), their bytes must not change
			a, b := make([]string, len(items)), make([]string, len(items))
			for i := range items {
				a[i], b[i] = string(items[i]), string(keep[i])
			}
			sort.Strings(a)
			sort.Strings(b)
			if strings.Join(a, "\x00|") != strings.Join(b, "\x00|") {
				x.fail("aliasing", "WriteSliceOfByteSlices changed the bytes of its elements", "write-mutated-argument")
			}
		default:
			panic("unknown write op " + f[0])
		}
	})
	if p != "" {
		if strings.HasPrefix(p, "unknown write op") || strings.HasPrefix(p, "bad ") {
			return "bad-op"
		}

		return "panic"
	}
	w1, c1 := x.serState()
	if c0 != "-" && (w1 != w0 || c1 != c0) {
		x.fail("sticky", fmt.Sprintf("Serializer with stored error %s (Written %d) changed to %s (Written %d) on %v", c0, w0, c1, w1, f), "serializer")
	}

	return fmt.Sprintf("%d %s", w1, c1)
}

// rulesHold judges the array rules on a sequence of element encodings declaratively: count within the bounds, pairwise
// different (no duplicates), adjacent elements in bytewise order (strict with no duplicates; after sorting when the mode
// asks for it), first byte / first four bytes pairwise different.
func rulesHold(items [][]byte, mode string, mn, mx int, fl string) bool {
	if (mn != 0 && len(items) < mn) || (mx != 0 && len(items) > mx) {
		return false
	}
	data := append([][]byte(nil), items...)
	lex, nd := strings.Contains(fl, "l"), strings.Contains(fl, "d")
	if strings.HasSuffix(mode, "s") && lex {
		sort.SliceStable(data, func(i, j int) bool { return bytes.Compare(data[i], data[j]) < 0 })
	}
	one8, one32 := strings.Contains(fl, "b"), strings.Contains(fl, "w")
	// pairwise conditions judged through a set of what was seen (sequences of up to 65537 elements: a pairwise loop is
	// quadratic): pairwise different elements / first bytes / first four bytes
	seenElem, seen8, seen32 := map[string]bool{}, map[byte]bool{}, map[[4]byte]bool{}
	for i := range data {
		if nd {
			if seenElem[string(data[i])] {
				return false
			}
			seenElem[string(data[i])] = true
		}
		if one8 {
			if len(data[i]) < 1 || seen8[data[i][0]] {
				return false
			}
			seen8[data[i][0]] = true
		}
		if one32 {
			if len(data[i]) < 4 {
				return false
			}
			k := [4]byte{data[i][0], data[i][1], data[i][2], data[i][3]}
			if seen32[k] {
				return false
			}
			seen32[k] = true
		}
		if lex && i > 0 && bytes.Compare(data[i-1], data[i]) > 0 {
			return false
		}
	}

	return true
}

func denOf(s string) serializer.TypeDenotationType {
	switch s {
	case "u8":
		return serializer.TypeDenotationByte
	case "u32":
		return serializer.TypeDenotationUint32
	}

	return serializer.TypeDenotationNone
}

// execR executes one `r …` line.
func (x *sess) execR(f []string) string {
	if len(f) == 2 && f[0] == "new" {
		x.src = hx.UnHex(f[1])
		x.de = serializer.NewDeserializer(x.src)

		return "ok"
	}
	if x.de == nil {
		return "bad-op"
	}
	keep := append([]byte(nil), x.src...)
	defer func() {
		if !bytes.Equal(keep, x.src) {
			x.fail("aliasing", fmt.Sprintf("read call %v changed the source buffer: %x -> %x", f, keep, x.src), "read-mutated-input")
			copy(x.src, keep)
		}
	}()
	switch f[0] {
	case "plen":
		n, err := x.de.ReadPayloadLength()
		off, derr := x.de.Done()
		if err != nil {
			return fmt.Sprintf("%s %d %s", class(err), off, class(derr))
		}

		return fmt.Sprintf("%d %d %s", n, off, class(derr))
	case "peek":
		ty, err := x.de.GetObjectType(denOf(f[1]))
		if err != nil {
			return class(err)
		}

		return strconv.FormatUint(uint64(ty), 10)
	case "rem":
		return strconv.Itoa(len(x.de.RemainingBytes()))
	case "done":
		off, err := x.de.Done()

		return fmt.Sprintf("%d %s", off, class(err))
	}
	off0, err0 := x.de.Done()
	val := "-"
	p := hx.Safely(func() {
		switch f[0] {
		case "num":
			switch f[1] + f[2] {
			case "1u":
				var v uint8
				x.de.ReadNum(&v, ident)
				val = strconv.FormatUint(uint64(v), 10)
			case "1s":
				var v int8
				x.de.ReadNum(&v, ident)
				val = strconv.FormatInt(int64(v), 10)
			case "2u":
				var v uint16
				x.de.ReadNum(&v, ident)
				val = strconv.FormatUint(uint64(v), 10)
			case "2s":
				var v int16
				x.de.ReadNum(&v, ident)
				val = strconv.FormatInt(int64(v), 10)
			case "4u":
				var v uint32
				x.de.ReadNum(&v, ident)
				val = strconv.FormatUint(uint64(v), 10)
			case "4s":
				var v int32
				x.de.ReadNum(&v, ident)
				val = strconv.FormatInt(int64(v), 10)
			case "4f":
				var v float32
				x.de.ReadNum(&v, ident)
				val = strconv.FormatUint(uint64(math.Float32bits(v)), 10)
			case "8u":
				var v uint64
				x.de.ReadNum(&v, ident)
				val = strconv.FormatUint(v, 10)
			case "8s":
				var v int64
				x.de.ReadNum(&v, ident)
				val = strconv.FormatInt(v, 10)
			case "8f":
				var v float64
				x.de.ReadNum(&v, ident)
				val = strconv.FormatUint(math.Float64bits(v), 10)
			default:
				panic("bad width")
			}
		case "bool":
			var v bool
			x.de.ReadBool(&v, ident)
			val = "0"
			if v {
				val = "1"
			}
		case "byte":
			var v byte
			x.de.ReadByte(&v, ident)
			val = strconv.Itoa(int(v))
		case "fixed":
			var v []byte
			x.de.ReadBytes(&v, atoi(f[1]), ident)
			val = hx.Hex(v)
		case "inplace":
			v := make([]byte, atoi(f[1]))
			x.de.ReadBytesInPlace(v, ident)
			val = hx.Hex(v)
		case "vb":
			var v []byte
			x.de.ReadVariableByteSlice(&v, lpOf(f[1]), ident, atoi(f[2]), atoi(f[3]))
			val = hx.Hex(v)
		case "str":
			var v string
			x.de.ReadString(&v, lpOf(f[1]), ident, atoi(f[2]), atoi(f[3]))
			val = hx.Hex([]byte(v))
		case "time":
			var v = serixgen.TimeFromNanos(big.NewInt(0))
			x.de.ReadTime(&v, ident)
			val = serixgen.TimeNanos(v).String()
		case "u256":
			var v *big.Int
			x.de.ReadUint256(&v, ident)
			if v != nil {
				val = v.String()
			}
		case "code":
			x.de.CheckTypePrefix(uint32(atoi(f[2])), denOf(f[1]), ident)
		case "skip":
			x.de.Skip(atoi(f[1]), ident)
		case "seq":
			var items []string
			x.de.ReadSequenceOfObjects(func(b []byte) (int, error) {
				if len(b) == 0 {
					return 0, errItem
				}
				n := int(b[0])
				if len(b) < 1+n {
					return 0, errItem
				}
				items = append(items, hx.Hex(b[:1+n]))

				return 1 + n, nil
			}, modeOf(f[2]), lpOf(f[1]), rulesOf(f[3], f[4], f[5]), ident)
			val = "[" + strings.Join(items, ",") + "]"
		case "all":
			x.de.ConsumedAll(func(left int, err error) error { return err })
		default:
			panic("unknown read op " + f[0])
		}
	})
	if p != "" {
		if strings.HasPrefix(p, "unknown read op") || strings.HasPrefix(p, "bad ") {
			return "bad-op"
		}

		return "panic"
	}
	off1, err1 := x.de.Done()
	if err0 != nil && (off1 != off0 || class(err1) != class(err0)) {
		x.fail("sticky", fmt.Sprintf("Deserializer with stored error %s (offset %d) changed to %s (offset %d) on %v", class(err0), off0, class(err1), off1, f), "deserializer")
	}
	if err1 != nil {
		val = "-"
	}
	x.lastVal = val

	return fmt.Sprintf("%s %d %s", val, off1, class(err1))
}

func (x *sess) exec(op string) string {
	f := strings.Fields(op)
	if len(f) < 2 {
		return "bad-op"
	}
	if ans, ok := x.execObj(f); ok {
		return ans
	}
	if ans, ok := x.execChain(f); ok {
		return ans
	}
	switch f[0] {
	case "w":
		return x.execW(f[1:])
	case "r":
		return x.execR(f[1:])
	case "x":
		return x.execX(f[1:])
	}

	return "bad-op"
}

func (x *sess) line(op string) string {
	var ans string
	if p := hx.Safely(func() { ans = x.exec(op) }); p != "" {
		ans = "harness-panic"
	}
	x.r.Line(op, ans)
	rec.Line(op, ans)

	return ans
}

var rec *refo.Rec

const driverPath = "../lean/.lake/build/bin/drv_c03"

// ---- generator ----

// pop is one primitive with its value: it yields a write line, the mirrored read line and the value the read must give.
type pop struct {
	w, r string
	want string // expected read value ("" = not compared)
	time bool
	// opaque: the mirrored read cannot find the end of what was written (elements that are not self-delimiting)
	opaque bool
}

var lps = []string{"u8", "u16", "u32"}

func randBytes(rng *hx.Rng, n int) []byte {
	b := make([]byte, n)
	for i := range b {
		b[i] = byte(rng.Intn(256))
	}

	return b
}

func pickLen(rng *hx.Rng, lp string, big bool) int {
	if big && rng.Chance(1, 3) {
		switch lp {
		case "u8":
			return hx.Pick(rng, []int{254, 255, 256, 257})
		case "u16":
			return hx.Pick(rng, []int{65534, 65535, 65536, 65537})
		}
	}

	return rng.Intn(7)
}

var stamps = []string{"0", "1", "-1", "999999999", "1000000000", "1700000000123456789", "9223372036854775807", "9223372036854775806",
	"9223372036854775800", "9223372036000000000", "9223372035999999999", "9223372036000000001", "9223372036500000000", "9223372036854775808",
	"9223372036999999999", "9223372037000000000", "18446744073709551615", "-9223372036854775808", "99999999999999999999"}

func saturate(ns *big.Int) string {
	max := new(big.Int).SetUint64(math.MaxInt64)
	switch {
	case ns.Sign() < 0:
		return "0"
	case ns.Cmp(max) > 0:
		return max.String()
	}

	return ns.String()
}

func genPop(rng *hx.Rng, big_ bool) pop {
	switch k := rng.Intn(14); k {
	case 0, 1:
		w := hx.Pick(rng, []int{1, 2, 4, 8})
		signed := rng.Bool()
		u := rng.U64()
		switch rng.Intn(4) {
		case 0:
			u = 0
		case 1:
			u = math.MaxUint64
		case 2:
			u = 1 << (8*uint(w) - 1)
		}
		if w < 8 {
			u &= 1<<(8*uint(w)) - 1
		}
		if signed {
			sh := uint(64 - 8*w)
			v := int64(u<<sh) >> sh

			return pop{w: fmt.Sprintf("w num %d %d", w, v), r: fmt.Sprintf("r num %d s", w), want: strconv.FormatInt(v, 10)}
		}
		if w >= 4 && rng.Chance(1, 4) {
			return pop{w: fmt.Sprintf("w num %d %d f", w, u), r: fmt.Sprintf("r num %d f", w), want: strconv.FormatUint(u, 10)}
		}

		return pop{w: fmt.Sprintf("w num %d %d", w, u), r: fmt.Sprintf("r num %d u", w), want: strconv.FormatUint(u, 10)}
	case 2:
		b := rng.Intn(2)

		return pop{w: fmt.Sprintf("w bool %d", b), r: "r bool", want: strconv.Itoa(b)}
	case 3:
		b := rng.Intn(256)

		return pop{w: fmt.Sprintf("w byte %d", b), r: "r byte", want: strconv.Itoa(b)}
	case 4:
		b := randBytes(rng, rng.Intn(6))
		rd := "fixed"
		if rng.Bool() {
			rd = "inplace"
		}

		return pop{w: "w fixed " + hx.Hex(b), r: fmt.Sprintf("r %s %d", rd, len(b)), want: hx.Hex(b)}
	case 5, 6:
		lp := hx.Pick(rng, lps)
		if rng.Chance(1, 25) {
			lp = hx.Pick(rng, []string{"u64", "none"})
		}
		n := pickLen(rng, lp, big_)
		mn, mx := 0, 0
		if rng.Chance(1, 3) {
			mn = rng.Intn(4)
		}
		if rng.Chance(1, 3) {
			mx = hx.Pick(rng, []int{1, 3, 6, 255, 256, 65535, 65536})
		}
		if rng.Chance(1, 6) {
			mn, mx = n, n
		}
		kind := "vb"
		if k == 6 {
			kind = "str"
		}
		b := randBytes(rng, n)

		return pop{w: fmt.Sprintf("w %s %s %d %d %s", kind, lp, mn, mx, hx.Hex(b)), r: fmt.Sprintf("r %s %s %d %d", kind, lp, mn, mx), want: hx.Hex(b)}
	case 7:
		s := hx.Pick(rng, stamps)
		if rng.Chance(1, 3) {
			s = strconv.FormatUint(rng.U64()>>1, 10)
		}

		return pop{w: "w time " + s, r: "r time", want: saturate(bigOf(s)), time: true}
	case 8:
		var v *big.Int
		switch rng.Intn(8) {
		case 0:
			return pop{w: "w u256 nil", r: "r u256"}
		case 1:
			v = big.NewInt(-int64(rng.Intn(3)) - 1)
		case 2:
			v = new(big.Int).Lsh(big.NewInt(1), 256)
		case 3:
			v = new(big.Int).Sub(new(big.Int).Lsh(big.NewInt(1), 256), big.NewInt(1))
		case 4:
			v = big.NewInt(int64(rng.Intn(300)))
		default:
			v = new(big.Int).SetBytes(randBytes(rng, rng.Range(1, 32)))
		}

		return pop{w: "w u256 " + v.String(), r: "r u256", want: v.String()}
	case 9:
		n := hx.Pick(rng, []int{0, 1, 5, 255, 65536, 4294967295})

		return pop{w: fmt.Sprintf("w plen %d", n), r: "r plen", want: strconv.Itoa(n)}
	case 10:
		den := hx.Pick(rng, []string{"u8", "u32"})
		n := rng.Intn(256)
		if den == "u32" && rng.Bool() {
			n = int(rng.U64() & 0xffffffff)
		}

		return pop{w: fmt.Sprintf("w code %s %d", den, n), r: fmt.Sprintf("r code %s %d", den, n), want: "-"}
	case 11:
		if rng.Chance(1, 6) {
			return pop{w: "w numbad", r: "r rem"}
		}

		b := rng.Intn(2)

		return pop{w: fmt.Sprintf("w byte %d", b), r: "r bool", want: strconv.Itoa(b)}
	default:
		return genSeq(rng, big_)
	}
}

func genSeq(rng *hx.Rng, big_ bool) pop {
	lp := hx.Pick(rng, lps)
	if rng.Chance(1, 30) {
		lp = hx.Pick(rng, []string{"u64", "none"})
	}
	mode := hx.Pick(rng, []string{"v", "v", "n", "vs", "vs", "ns"})
	fl := ""
	for _, c := range "dlbw" {
		if rng.Chance(1, 3) {
			fl += string(c)
		}
	}
	if fl == "" {
		fl = "-"
	}
	mn, mx := 0, 0
	if rng.Chance(1, 4) {
		mn = rng.Intn(4)
	}
	if rng.Chance(1, 4) {
		mx = hx.Pick(rng, []int{1, 2, 4, 255, 256})
	}
	n := pickLen(rng, lp, big_ && !strings.HasSuffix(mode, "s"))
	if n > 300 && strings.ContainsAny(fl, "dbw") {
		fl = "-" // keep the uniqueness maps small
	}
	selfDelim := rng.Chance(3, 4)
	items := make([][]byte, n)
	for i := range items {
		switch {
		case n > 300:
			items[i] = []byte{0}
		case selfDelim:
			k := rng.Intn(5)
			items[i] = append([]byte{byte(k)}, randBytes(rng, k)...)
			if rng.Chance(1, 2) {
				for j := 1; j < len(items[i]); j++ {
					items[i][j] &= 1 // make collisions and shared type bytes likely
				}
			}
		default:
			items[i] = randBytes(rng, rng.Intn(6))
			for j := range items[i] {
				items[i][j] &= 3
			}
		}
	}
	if strings.Contains(fl, "w") && n <= 300 && rng.Chance(2, 3) {
		// type words that differ in a single byte (also the most significant one)
		base := randBytes(rng, 3)
		for i := range items {
			k := rng.Range(3, 5)
			items[i] = append([]byte{byte(k)}, randBytes(rng, k)...)
			copy(items[i][1:], base)
			pos := rng.Intn(4)
			if pos > 0 {
				items[i][pos] ^= byte(1 + rng.Intn(3))
			} else {
				items[i][3] = base[2] // same word as another element, unless k differs
			}
		}
	}
	if n >= 2 && rng.Chance(1, 3) {
		items[rng.Intn(n)] = append([]byte(nil), items[rng.Intn(n)]...) // a duplicate
	}
	if strings.Contains(fl, "l") && rng.Chance(2, 3) {
		sort.Slice(items, func(i, j int) bool { return bytes.Compare(items[i], items[j]) < 0 })
	}
	hs := make([]string, n)
	for i := range items {
		hs[i] = hx.Hex(items[i])
	}
	want := ""
	if selfDelim || n > 300 {
		out := append([]string(nil), hs...)
		if strings.HasSuffix(mode, "s") && strings.Contains(fl, "l") {
			sorted := make([][]byte, n)
			copy(sorted, items)
			sort.SliceStable(sorted, func(i, j int) bool { return bytes.Compare(sorted[i], sorted[j]) < 0 })
			for i := range sorted {
				out[i] = hx.Hex(sorted[i])
			}
		}
		want = "[" + strings.Join(out, ",") + "]"
	}
	w := fmt.Sprintf("w seq %s %s %d %d %s", lp, mode, mn, mx, fl)
	if n > 0 {
		w += " " + strings.Join(hs, " ")
	}

	return pop{w: w, r: fmt.Sprintf("r seq %s %s %d %d %s", lp, mode, mn, mx, fl), want: want, opaque: !(selfDelim || n > 300)}
}

// stampAbove: the 8 bytes at off hold a stamp above MaxInt64.
func stampAbove(b []byte, off int) bool {
	return off+8 <= len(b) && binary.LittleEndian.Uint64(b[off:]) > math.MaxInt64
}

func genCase(r *hx.Run, rng *hx.Rng, sub uint64) {
	rec.Start(r.Case(sub))
	x := &sess{r: r}
	// sequences of 65535..65537 elements cost the model seconds each: one script in 12 in the quick tier, one in 40 in the thorough one
	big_ := rng.Chance(1, 12)
	if r.Scale > 1 {
		big_ = rng.Chance(1, 40)
	}
	n := rng.Range(1, 7)
	script := make([]pop, n)
	for i := range script {
		script[i] = genPop(rng, big_)
		r.Count("op:" + strings.Fields(script[i].w)[1])
	}
	x.line("w new")
	failed := false
	exact := true
	for _, p := range script {
		ans := x.line(p.w)
		if p.opaque {
			exact = false
		}
		if ans == "panic" {
			r.Count("write:panic")
			failed = true
			exact = false
		} else if !strings.HasSuffix(ans, " -") {
			if !failed {
				r.Count("write-error:" + ans[strings.LastIndex(ans, " ")+1:])
			}
			failed = true
		}
	}
	ser := x.line("w ser")
	if !strings.HasPrefix(ser, "ok ") {
		// read the mirrored script from random bytes instead
		x.readScript(rng, script, randBytes(rng, rng.Intn(24)), false)

		return
	}
	r.Count("write:ok")
	b := hx.UnHex(ser[3:])
	r.Nontrivial(serixgen.CaseKey(ser))
	x.readScript(rng, script, b, exact)
	if len(b) > 0 && len(b) < 2000 {
		for i := 0; i < 3; i++ {
			m := serixgen.Mutate(rng, b, b, 1, false)
			if len(m) > 0 {
				x.readScript(rng, script, m[0], false)
			}
		}
	}
	if len(r.Samples) < r.MaxSamples && len(b) < 200 {
		r.Sample(r.CaseLines())
	}
}

// readScript reads src with the mirrored script.  exact: src is what the write script produced (round-trip oracle);
// otherwise the canonical oracle re-writes what was accepted.
func (x *sess) readScript(rng *hx.Rng, script []pop, src []byte, exact bool) {
	r := x.r
	x.line("r new " + hx.Hex(src))
	var vals []string
	ok := true
	saturated := false
	for _, p := range script {
		if rng.Chance(1, 10) {
			x.line("r peek " + hx.Pick(rng, []string{"u8", "u32", "none"}))
		}
		off, _ := x.de.Done()
		if p.time && stampAbove(src, off) {
			saturated = true
		}
		ans := x.line(p.r)
		f := strings.Fields(ans)
		good := len(f) == 3 && f[2] == "-" && !(strings.HasPrefix(p.r, "r plen") && !isNum(f[0]))
		if p.r == "r rem" {
			good = true
			f = []string{""}
		}
		if !good {
			ok = false
			if len(f) == 3 {
				r.Count("read-error:" + f[2])
			}
			if exact && p.want != "" {
				x.fail("roundtrip", fmt.Sprintf("%q answered %q on the bytes the write script produced (%s)", p.r, ans, hx.Hex(src)), "read-refused")
			}

			continue
		}
		vals = append(vals, f[0])
		if exact && ok && p.want != "" && f[0] != p.want {
			x.fail("roundtrip", fmt.Sprintf("%q after %q read %s, expected %s (bytes %s)", p.r, p.w, f[0], p.want, hx.Hex(src)), "value")
		}
	}
	if rng.Bool() {
		x.line("r rem")
	}
	if exact || rng.Chance(1, 3) {
		ans := x.line("r all")
		if exact && ok && !strings.HasSuffix(ans, " -") {
			x.fail("roundtrip", fmt.Sprintf("the mirrored read script left bytes unread: %s (bytes %s)", ans, hx.Hex(src)), "count")
		}
	}
	done := x.line("r done")
	if ok {
		r.Count("read:ok")
	}
	if exact || !ok || saturated || len(vals) != len(script) {
		return
	}
	// canonical: re-write what was read (validation on for sequences as in the script) and compare with the consumed bytes
	off := atoi(strings.Fields(done)[0])
	y := &sess{r: r, ser: serializer.NewSerializer()}
	for i, p := range script {
		wf := strings.Fields(p.w)
		var line []string
		switch wf[1] {
		case "num":
			line = []string{"num", wf[2], vals[i]}
			if len(wf) > 4 {
				line = append(line, "f")
			}
		case "bool", "byte", "time", "u256", "plen":
			line = []string{wf[1], vals[i]}
		case "fixed":
			line = []string{"fixed", vals[i]}
		case "vb", "str":
			line = []string{wf[1], wf[2], wf[3], wf[4], vals[i]}
		case "code":
			line = wf[1:4]
		case "numbad":
			continue
		case "seq":
			if !strings.HasPrefix(wf[3], "v") {
				return // without validation the reader accepts unordered / duplicate elements the writer would re-order
			}
			line = append([]string{}, wf[1:7]...)
			if it := strings.Trim(vals[i], "[]"); it != "" {
				line = append(line, strings.Split(it, ",")...)
			}
		}
		if ans := y.execW(line); !strings.HasSuffix(ans, " -") {
			x.fail("canonical", fmt.Sprintf("read script accepted %s (consumed %d) but writing %v back answers %s", hx.Hex(src), off, line, ans), "rewrite-refused")

			return
		}
	}
	out, err := y.ser.Serialize()
	if err != nil || !bytes.Equal(out, src[:off]) {
		x.fail("canonical", fmt.Sprintf("read script accepted %s (consumed %d) but writing the values back gives %x", hx.Hex(src), off, out), "rewrite-differs")
	} else {
		r.Count("canonical:rewritten-equal")
	}
}

func isNum(s string) bool {
	_, err := strconv.ParseUint(s, 10, 64)

	return err == nil
}

var corpus = [][]string{
	// prefix capacity: 255 / 256 elements and bytes under a one-byte prefix, 65535 / 65536 bytes under a two-byte prefix
	{"w new", "w vb u8 0 0 " + strings.Repeat("ab", 255), "w vb u8 0 0 " + strings.Repeat("ab", 256), "w ser"},
	{"w new", "w str u16 0 0 " + strings.Repeat("61", 65535), "w ser", "w new", "w str u16 0 0 " + strings.Repeat("61", 65536), "w ser"},
	{"w new", "w seq u8 n 0 0 -" + strings.Repeat(" 00", 255), "w ser", "w new", "w seq u8 n 0 0 -" + strings.Repeat(" 00", 256), "w ser"},
	// validators: duplicate empty elements under lexical order without duplicates, order violation after two accepted elements
	{"w new", "w seq u8 v 0 0 dl - -", "w ser"},
	{"w new", "w seq u8 v 0 0 l 0102 0103 0101 0104", "w ser"},
	{"w new", "w seq u8 vs 0 0 l 0102 0103 0101 0104", "w ser", "r new 040101010201030104", "r seq u8 v 0 0 l", "r all", "r done"},
	{"w new", "w seq u16 v 0 0 b 0102 0202 0103", "w seq u16 v 0 0 w 0102 0202", "w ser"},
	{"w new", "w seq u8 v 2 3 - 00", "w ser", "w new", "w seq u8 v 2 3 - 00 00 00 00", "w ser"},
	// type words differing only in the most significant byte / only in the least significant one are different types
	{"w new", "w seq u8 v 0 0 w 0401020304 0401020305 0501020304aa", "w ser", "r new 0304010203040401020305", "r seq u8 v 0 0 w", "r done",
		"w new", "w seq u8 v 0 0 w 0401020304 04010203", "w ser"},
	// sticky error: nothing after the refused call is written
	{"w new", "w byte 7", "w u256 -1", "w byte 8", "w numbad", "w ser"},
	// reader offsets on failure
	{"r new 05616263", "r vb u8 0 2", "r done", "r new 05616263", "r str u8 0 2", "r done", "r new 0361626364", "r str u8 0 2", "r byte", "r done"},
	{"r new 03010002000300", "r seq u8 v 0 0 dl", "r done", "r new 020100", "r seq u8 v 0 0 -", "r done", "r new 0201000100", "r seq u8 v 0 0 d", "r done"},
	{"r new 0701", "r code u8 263", "r code u32 1", "r plen", "r peek u32", "r peek u8", "r done"},
	{"r new ffffffffffffff7f00280dcdffffff7f01280dcdffffff7fffffffffffffffff", "r time", "r time", "r time", "r time", "r all", "r done"},
	{"r new 02", "r bool", "r bool", "r plen", "r done"},
}

func main() {
	r := hx.Start()
	r.Rule = "scripts of 1..7 Serializer calls (every WriteX, boundary values, prefix-capacity lengths, all array-rule modes) followed by the mirrored " +
		"Deserializer calls on the produced bytes and on 3 mutated inputs; non-trivial = the write script succeeded; distinct by the produced bytes"
	r.MaxSamples = 2
	rec = &refo.Rec{R: r, Layer: "serializer-primitives", Keep: func(op string) bool { return strings.HasPrefix(op, "w ") }}
	if lines := r.ReplayLines(); lines != nil {
		rec.Start(r.Case(0))
		x := &sess{r: r}
		for _, l := range lines {
			x.line(l)
		}
		rec.Finish(driverPath)
		r.Finish()

		return
	}
	for _, c := range corpus {
		rec.Start(r.Case(0))
		x := &sess{r: r}
		for _, l := range c {
			x.line(l)
		}
	}
	n := 4000 * r.Scale
	for i := 0; i < n; i++ {
		rng, sub := r.Rng.Fork()
		genCase(r, rng, sub)
	}
	// the exported validators, CheckBounds, Subset, the sort helpers, TimeToUint64, AbortIf / Do called directly
	for i := 0; i < 1500*r.Scale; i++ {
		rng, sub := r.Rng.Fork()
		genXCase(r, rng, sub)
	}
	// the Serializable-object calls: WriteObject / WritePayload / WriteSliceOfObjects and their readers
	for i := 0; i < 1500*r.Scale; i++ {
		rng, sub := r.Rng.Fork()
		genObjCase(r, rng, sub)
	}
	rec.Finish(driverPath)
	r.Finish()
}
