// The exported validators and helpers of serializer/serializable.go called directly (`x …` lines, model
// Hive/Model/SerixC03Validators.lean), and AbortIf / Do of the two chains (`w abort|do`, `r abort|do`).
//
//	x val uniq|lex|lexnd|one8|one32|onebad HEX*   one fresh validator fed with all the elements, refusals included
//	x evf FLAGS HEX*                                ArrayRules{ValidationMode}.ElementValidationFunc() fed the same way
//	x cb MIN MAX COUNT                              ArrayRules.CheckBounds
//	x sub A,B,.. C,D,..                             TypePrefixes.Subset
//	x sort bs|a32|a36|a40|ser HEX*                  sort.Sort over the LexicalOrdered* / SortedSerializables helpers (their Len / Less / Swap)
//	x time NANOS                                    TimeToUint64
//
// Go-side oracles (independent of Lean): `rules` - a validator accepts the whole sequence iff the rule it is documented
// to enforce holds, judged declaratively (pairwise different / ascending / strictly ascending / pairwise different type
// codes, read as numbers of the denotation's width); CheckBounds and Subset against their definitions; `sort` - the result
// is an ascending permutation of the input; `aliasing` - no validator changes the bytes it is shown.
package main

import (
	"bytes"
	"encoding/binary"
	"fmt"
	"sort"
	"strconv"
	"strings"

	"verifharness/hx"
	"verifharness/serixgen"

	"github.com/iotaledger/hive.go/serializer/v2"
)

func unhexAll(hs []string) [][]byte {
	out := make([][]byte, len(hs))
	for i, h := range hs {
		out[i] = hx.UnHex(h)
		if out[i] == nil {
			out[i] = []byte{}
		}
	}

	return out
}

// ruleHolds judges the rule of one validator kind declaratively.
func ruleHolds(kind string, items [][]byte) bool {
	for i := range items {
		switch kind {
		case "one8":
			if len(items[i]) < 1 {
				return false
			}
		case "one32":
			if len(items[i]) < 4 {
				return false
			}
		}
		for j := 0; j < i; j++ {
			switch kind {
			case "uniq":
				if bytes.Equal(items[j], items[i]) {
					return false
				}
			case "one8":
				if uint32(items[j][0]) == uint32(items[i][0]) {
					return false
				}
			case "one32":
				if binary.LittleEndian.Uint32(items[j]) == binary.LittleEndian.Uint32(items[i]) {
					return false
				}
			}
		}
		if i > 0 {
			c := bytes.Compare(items[i-1], items[i])
			if (kind == "lex" && c > 0) || (kind == "lexnd" && c >= 0) {
				return false
			}
		}
	}

	return true
}

// chainKinds: the validators ElementValidationFunc chains for a set of mode flags, in the order of the mode bits.
func chainKinds(fl string) []string {
	var k []string
	d, l := strings.Contains(fl, "d"), strings.Contains(fl, "l")
	switch {
	case d && l:
		k = append(k, "lexnd")
	case d:
		k = append(k, "uniq")
	case l:
		k = append(k, "lex")
	}
	if strings.Contains(fl, "b") {
		k = append(k, "one8")
	}
	if strings.Contains(fl, "w") {
		k = append(k, "one32")
	}

	return k
}

// expectFeed states what validators answer when they are fed with elements beyond a refusal: every validator judges an
// element against the elements IT accepted before; in a chain an element reaches a validator only when the validators
// in front of it accepted it, and the first refusal is the answer.
func expectFeed(kinds []string, items [][]byte) []string {
	acc := make([][][]byte, len(kinds))
	out := make([]string, len(items))
	for i, x := range items {
		out[i] = "-"
		for j, kind := range kinds {
			c := "-"
			a := acc[j]
			switch kind {
			case "uniq":
				for _, y := range a {
					if bytes.Equal(x, y) {
						c = "arr-unique"
					}
				}
			case "lex", "lexnd":
				if len(a) > 0 {
					switch cmp := bytes.Compare(a[len(a)-1], x); {
					case cmp > 0:
						c = "arr-order"
					case cmp == 0 && kind == "lexnd":
						c = "arr-unique"
					}
				}
			case "one8", "one32":
				w := map[string]int{"one8": 1, "one32": 4}[kind]
				if len(x) < w {
					c = "invalid-bytes"
				} else {
					for _, y := range a {
						if bytes.Equal(x[:w], y[:w]) {
							c = "arr-type-unique"
						}
					}
				}
			}
			if c != "-" {
				out[i] = c

				break
			}
			acc[j] = append(acc[j], x)
		}
	}

	return out
}

func feedValidator(v serializer.ElementValidationFunc, items [][]byte) (answers []string, allOk bool) {
	allOk = true
	for i, it := range items {
		c := class(v(i, it))
		if c != "-" {
			allOk = false
		}
		answers = append(answers, c)
	}

	return answers, allOk
}

type rawSer []byte

func (r rawSer) Deserialize(data []byte, _ serializer.DeSerializationMode, _ interface{}) (int, error) {
	return 0, nil
}

func (r rawSer) Serialize(_ serializer.DeSerializationMode, _ interface{}) ([]byte, error) {
	return []byte(r), nil
}

func (r rawSer) MarshalJSON() ([]byte, error) { return []byte("null"), nil }
func (r rawSer) UnmarshalJSON([]byte) error   { return nil }

func (x *sess) execX(f []string) string {
	switch f[0] {
	case "val", "evf":
		if len(f) < 2 {
			return "bad-op"
		}
		items := unhexAll(f[2:])
		keep := make([][]byte, len(items))
		for i := range items {
			keep[i] = append([]byte{}, items[i]...)
		}
		var v serializer.ElementValidationFunc
		ar := &serializer.ArrayRules{}
		if f[0] == "evf" {
			ar = rulesOf("0", "0", f[1])
			modeBefore := ar.ValidationMode
			v = ar.ElementValidationFunc()
			if ar.ValidationMode != modeBefore {
				x.fail("aliasing", fmt.Sprintf("ElementValidationFunc changed the rules it was built from: mode %d -> %d", modeBefore, ar.ValidationMode), "validator-mutated-rules")
			}
			if v == nil {
				return "nil"
			}
		} else {
			switch f[1] {
			case "uniq":
				v = ar.ElementUniqueValidator()
			case "lex":
				v = ar.LexicalOrderValidator()
			case "lexnd":
				v = ar.LexicalOrderWithoutDupsValidator()
			case "one8":
				v = ar.AtMostOneOfEachTypeValidator(serializer.TypeDenotationByte)
			case "one32":
				v = ar.AtMostOneOfEachTypeValidator(serializer.TypeDenotationUint32)
			case "onebad":
				v = ar.AtMostOneOfEachTypeValidator(serializer.TypeDenotationNone)
			default:
				return "bad-op"
			}
		}
		var answers []string
		var allOk bool
		if p := hx.Safely(func() { answers, allOk = feedValidator(v, items) }); p != "" {
			return "panic"
		}
		for i := range items {
			if !bytes.Equal(items[i], keep[i]) {
				x.fail("aliasing", fmt.Sprintf("validator %v changed element %d: %x -> %x", f[:2], i, keep[i], items[i]), "validator-mutated-element")
			}
		}
		if f[1] != "onebad" {
			kinds := []string{f[1]}
			if f[0] == "evf" {
				kinds = chainKinds(f[1])
			}
			if exp := expectFeed(kinds, keep); strings.Join(exp, " ") != strings.Join(answers, " ") {
				x.fail("rules", fmt.Sprintf("validator %s %s fed with %x answered %v; judged against the elements each validator accepted before (a refusal records nothing): %v", f[0], f[1], keep, answers, exp),
					"validator-feed:"+f[0])
			}
		}
		want := false
		if f[0] == "evf" {
			want = rulesHold(keep, "v", 0, 0, f[1])
		} else if f[1] != "onebad" {
			want = ruleHolds(f[1], keep)
		}
		if f[1] != "onebad" && want != allOk {
			x.fail("rules", fmt.Sprintf("validator %s %s accepted the whole sequence: %t, its rule holds: %t; elements=%x answers=%v", f[0], f[1], allOk, want, keep, answers), "validator-direct:"+f[0])
		}
		x.r.Count("x:" + f[0] + ":" + map[bool]string{true: "accepted", false: "refused"}[allOk])
		if len(answers) == 0 {
			return "ok"
		}

		return strings.Join(answers, " ")
	case "cb":
		if len(f) != 4 {
			return "bad-op"
		}
		mn, mx, n := atoi(f[1]), atoi(f[2]), atoi(f[3])
		c := class((&serializer.ArrayRules{Min: uint(mn), Max: uint(mx)}).CheckBounds(uint(n)))
		want := "-"
		switch {
		case mn != 0 && n < mn:
			want = "arr-min"
		case mx != 0 && n > mx:
			want = "arr-max"
		}
		if c != want {
			x.fail("rules", fmt.Sprintf("CheckBounds(min=%d max=%d)(%d) = %s, by its definition %s", mn, mx, n, c, want), "check-bounds")
		}

		return c
	case "sub":
		if len(f) != 3 {
			return "bad-op"
		}
		set := func(s string) serializer.TypePrefixes {
			out := serializer.TypePrefixes{}
			if s == "-" {
				return out
			}
			for _, t := range strings.Split(s, ",") {
				n, err := strconv.ParseUint(t, 10, 32)
				if err != nil {
					panic("bad number " + t)
				}
				out[uint32(n)] = struct{}{}
			}

			return out
		}
		a, b := set(f[1]), set(f[2])
		na, nb := len(a), len(b)
		got := a.Subset(b)
		want := true
		for k := range a {
			if _, ok := b[k]; !ok {
				want = false
			}
		}
		if got != want {
			x.fail("rules", fmt.Sprintf("TypePrefixes(%s).Subset(%s) = %t", f[1], f[2], got), "subset")
		}
		if len(a) != na || len(b) != nb {
			x.fail("aliasing", "Subset changed one of its sets", "subset-mutated")
		}

		return strconv.FormatBool(got)
	case "sort":
		if len(f) < 2 {
			return "bad-op"
		}
		items := unhexAll(f[2:])
		var out [][]byte
		switch f[1] {
		case "bs":
			l := make(serializer.LexicalOrderedByteSlices, len(items))
			copy(l, items)
			sort.Sort(l)
			out = l
		case "a32":
			l := make(serializer.LexicalOrdered32ByteArrays, len(items))
			for i := range items {
				copy(l[i][:], items[i])
			}
			sort.Sort(l)
			for i := range l {
				out = append(out, append([]byte{}, l[i][:]...))
			}
		case "a36":
			l := make(serializer.LexicalOrdered36ByteArrays, len(items))
			for i := range items {
				copy(l[i][:], items[i])
			}
			sort.Sort(l)
			for i := range l {
				out = append(out, append([]byte{}, l[i][:]...))
			}
		case "a40":
			l := make(serializer.LexicalOrdered40ByteArrays, len(items))
			for i := range items {
				copy(l[i][:], items[i])
			}
			sort.Sort(l)
			for i := range l {
				out = append(out, append([]byte{}, l[i][:]...))
			}
		case "ser":
			l := make(serializer.SortedSerializables, len(items))
			for i := range items {
				l[i] = rawSer(items[i])
			}
			sort.Sort(l)
			for i := range l {
				out = append(out, []byte(l[i].(rawSer)))
			}
		default:
			return "bad-op"
		}
		// an ascending permutation of the input
		a, b := make([]string, len(items)), make([]string, len(out))
		for i := range items {
			a[i] = string(items[i])
		}
		for i := range out {
			b[i] = string(out[i])
			if i > 0 && bytes.Compare(out[i-1], out[i]) > 0 {
				x.fail("sort", fmt.Sprintf("sort.Sort over %s left %x before %x", f[1], out[i-1], out[i]), "sort-order")
			}
		}
		sort.Strings(a)
		sb := append([]string{}, b...)
		sort.Strings(sb)
		if strings.Join(a, "\x00|") != strings.Join(sb, "\x00|") {
			x.fail("sort", fmt.Sprintf("sort.Sort over %s changed the multiset of elements", f[1]), "sort-permutation")
		}
		hs := make([]string, len(out))
		for i := range out {
			hs[i] = hx.Hex(out[i])
		}

		return "[" + strings.Join(hs, ",") + "]"
	case "time":
		if len(f) != 2 {
			return "bad-op"
		}

		return strconv.FormatUint(serializer.TimeToUint64(serixgen.TimeFromNanos(bigOf(f[1]))), 10)
	}

	return "bad-op"
}

// execChain: AbortIf / Do of the two chains (true when the line was one of them).
func (x *sess) execChain(f []string) (string, bool) {
	if len(f) < 2 || (f[1] != "abort" && f[1] != "do") {
		return "", false
	}
	called := false
	switch f[0] {
	case "w":
		if x.ser == nil {
			return "bad-op", true
		}
		w0, c0 := x.serState()
		if f[1] == "abort" && len(f) == 3 {
			x.ser.AbortIf(func(err error) error {
				called = true
				if f[2] == "1" {
					return errItem
				}

				return nil
			})
		} else if f[1] == "do" && len(f) == 2 {
			x.ser.Do(func() { called = true })
		} else {
			return "bad-op", true
		}
		w1, c1 := x.serState()
		if c0 != "-" && (called || w1 != w0 || c1 != c0) {
			x.fail("sticky", fmt.Sprintf("Serializer with stored error %s: %v ran its function (%t) or changed the state", c0, f, called), "serializer-chain")
		}
		if c0 == "-" && !called {
			x.fail("sticky", fmt.Sprintf("Serializer without an error: %v did not run its function", f), "serializer-chain-skipped")
		}
		if f[1] == "do" {
			return fmt.Sprintf("%d %s %s", w1, c1, map[bool]string{true: "called", false: "skipped"}[called]), true
		}

		return fmt.Sprintf("%d %s", w1, c1), true
	case "r":
		if x.de == nil {
			return "bad-op", true
		}
		off0, err0 := x.de.Done()
		if f[1] == "abort" && len(f) == 3 {
			x.de.AbortIf(func(err error) error {
				called = true
				if f[2] == "1" {
					return errItem
				}

				return nil
			})
		} else if f[1] == "do" && len(f) == 2 {
			x.de.Do(func() { called = true })
		} else {
			return "bad-op", true
		}
		off1, err1 := x.de.Done()
		if err0 != nil && (called || off1 != off0 || class(err1) != class(err0)) {
			x.fail("sticky", fmt.Sprintf("Deserializer with stored error %s: %v ran its function (%t) or changed the state", class(err0), f, called), "deserializer-chain")
		}
		if err0 == nil && !called {
			x.fail("sticky", fmt.Sprintf("Deserializer without an error: %v did not run its function", f), "deserializer-chain-skipped")
		}
		if f[1] == "do" {
			return fmt.Sprintf("- %d %s %s", off1, class(err1), map[bool]string{true: "called", false: "skipped"}[called]), true
		}

		return fmt.Sprintf("- %d %s", off1, class(err1)), true
	}

	return "", false
}

// ---- generator of `x` cases ----

// genElems: elements for one validator kind - sorted or not, with duplicates, with type codes that collide or differ in
// one byte only, codes over the whole range of the denotation (0..255; words with any byte set), short elements.
func genElems(rng *hx.Rng, kind string) [][]byte {
	n := rng.Intn(7)
	if rng.Chance(1, 12) {
		n = rng.Range(60, 300) // more elements than a machine word has bits, more than a byte has values
	}
	items := make([][]byte, n)
	for i := range items {
		l := rng.Intn(6)
		switch {
		case kind == "one32" || (!strings.HasPrefix(kind, "one") && strings.Contains(kind, "w")):
			l = rng.Range(4, 6)
		case kind == "one8" || (!strings.HasPrefix(kind, "one") && kind != "uniq" && strings.Contains(kind, "b")):
			l = rng.Range(1, 3)
		}
		if rng.Chance(1, 15) {
			l = rng.Intn(4) // possibly too short for the denotation, possibly empty
		}
		b := make([]byte, l)
		for j := range b {
			switch rng.Intn(4) {
			case 0:
				b[j] = byte(rng.Intn(3))
			case 1:
				b[j] = byte(0xfd + rng.Intn(3))
			default:
				b[j] = byte(rng.Intn(256))
			}
		}
		items[i] = b
	}
	if n >= 60 && (kind == "one8" || kind == "uniq" || strings.Contains(kind, "b")) && rng.Chance(2, 3) {
		// every element another first byte, in code order or shuffled: all 256 codes stay distinguishable
		perm := make([]int, 256)
		for i := range perm {
			perm[i] = i
		}
		if rng.Bool() {
			for i := 255; i > 0; i-- {
				j := rng.Intn(i + 1)
				perm[i], perm[j] = perm[j], perm[i]
			}
		}
		if n > 256 {
			n = 256
			items = items[:n]
		}
		for i := range items {
			if len(items[i]) == 0 {
				items[i] = []byte{0}
			}
			items[i][0] = byte(perm[i])
		}
	}
	if n >= 2 && rng.Chance(1, 3) {
		// a type word that differs from another one in exactly one byte, or not at all
		i, j := rng.Intn(n), rng.Intn(n)
		if i != j && len(items[j]) >= 1 {
			items[i] = append([]byte{}, items[j]...)
			if rng.Chance(2, 3) {
				items[i][rng.Intn(len(items[i]))] ^= byte(1 << uint(rng.Intn(8)))
			}
		}
	}
	if rng.Chance(1, 2) {
		sort.SliceStable(items, func(i, j int) bool { return bytes.Compare(items[i], items[j]) < 0 })
	}
	if n >= 2 && rng.Chance(1, 4) {
		// one late duplicate of an early element (the closure must remember everything it accepted, not a window)
		items[n-1] = append([]byte{}, items[rng.Intn(n-1)]...)
	}

	return items
}

func hexes(items [][]byte) string {
	if len(items) == 0 {
		return ""
	}
	hs := make([]string, len(items))
	for i := range items {
		hs[i] = hx.Hex(items[i])
		if hs[i] == "" {
			hs[i] = "-"
		}
	}

	return " " + strings.Join(hs, " ")
}

var valKinds = []string{"uniq", "lex", "lexnd", "one8", "one32", "one8", "one32"}

func genXCase(r *hx.Run, rng *hx.Rng, sub uint64) {
	rec.Start(r.Case(sub))
	x := &sess{r: r}
	for i, n := 0, rng.Range(2, 6); i < n; i++ {
		switch k := rng.Intn(12); {
		case k < 4:
			kind := hx.Pick(rng, valKinds)
			if rng.Chance(1, 40) {
				kind = "onebad"
			}
			x.line("x val " + kind + hexes(genElems(rng, kind)))
		case k < 7:
			fl := ""
			for _, c := range "dlbw" {
				if rng.Chance(1, 3) {
					fl += string(c)
				}
			}
			if fl == "" {
				fl = "-"
			}
			x.line("x evf " + fl + hexes(genElems(rng, fl)))
		case k == 7:
			mn, mx := rng.Intn(4), rng.Intn(6)
			x.line(fmt.Sprintf("x cb %d %d %d", mn, mx, rng.Intn(8)))
		case k == 8:
			set := func() string {
				n := rng.Intn(4)
				if n == 0 {
					return "-"
				}
				var p []string
				for i := 0; i < n; i++ {
					p = append(p, strconv.FormatUint(uint64(hx.Pick(rng, []uint32{0, 1, 2, 63, 64, 255, 256, 65536, 4294967295})), 10))
				}

				return strings.Join(p, ",")
			}
			x.line("x sub " + set() + " " + set())
		case k == 9:
			kind := hx.Pick(rng, []string{"bs", "a32", "a36", "a40", "ser"})
			items := genElems(rng, "uniq")
			if w, ok := map[string]int{"a32": 32, "a36": 36, "a40": 40}[kind]; ok {
				for i := range items {
					b := make([]byte, w)
					copy(b, items[i])
					if rng.Bool() {
						b[w-1] = byte(rng.Intn(3)) // arrays that differ only in their last byte
					}
					items[i] = b
				}
			}
			x.line("x sort " + kind + hexes(items))
		case k == 10:
			ns := hx.Pick(rng, []string{"0", "-1", "1", "9223372036854775807", "9223372036854775808", "9223372036000000000", "9223372036854775806",
				"-9223372036854775808", "18446744073709551615", strconv.FormatUint(rng.U64()>>uint(rng.Intn(64)), 10)})
			x.line("x time " + ns)
		default:
			// AbortIf / Do inside a write chain and a read chain
			x.line("w new")
			x.line("w byte 7")
			if rng.Bool() {
				x.line("w do")
			}
			x.line("w abort " + strconv.Itoa(rng.Intn(2)))
			x.line("w byte 8")
			x.line("w do")
			x.line("w abort 1")
			x.line("w ser")
			x.line("r new 0102")
			x.line("r byte")
			x.line("r abort " + strconv.Itoa(rng.Intn(2)))
			x.line("r do")
			x.line("r byte")
			x.line("r byte")
			x.line("r abort 1")
			x.line("r do")
			x.line("r done")
		}
	}
	if len(r.Samples) < r.MaxSamples+1 && rng.Chance(1, 50) {
		r.Sample(r.CaseLines())
	}
}
