// Package refo evaluates the forward direction of C03 as a property oracle for the harness parts of C03 that are not
// built on serixgen: "Encode's output equals the documented wire layout as computed by an independent reference
// encoder".  The reference encoder is the Lean model (pinned to the documented layout by the C03_layout_* theorems),
// compiled into the driver; the harness records its request lines per case, runs the driver over them when it is done
// and reports every case in which a byte-producing request (`enc …` of the serix protocol, `w ser` of the primitive
// protocol) was answered differently by the code - with the request lines of the case up to that request as the failing
// input (requests are state dependent in these parts: the whole prefix is the input).
package refo

import (
	"bytes"
	"fmt"
	"os"
	"os/exec"
	"strings"

	"verifharness/hx"
)

type Rec struct {
	R     *hx.Run
	Layer string
	// Keep, if set, selects the request lines the byte-producing requests depend on (the primitive protocol has separate
	// write and read state: a `w ser` answer is a function of the `w` lines alone); nil: all lines.
	Keep   func(op string) bool
	caseNo []int
	ops    [][]string
	impl   [][]string
}

// Start begins a case; n is what hx.Run.Case returned.
func (x *Rec) Start(n int) {
	x.caseNo = append(x.caseNo, n)
	x.ops = append(x.ops, nil)
	x.impl = append(x.impl, nil)
}

func (x *Rec) Line(op, ans string) {
	if len(x.ops) == 0 || (x.Keep != nil && !x.Keep(op)) {
		return
	}
	i := len(x.ops) - 1
	x.ops[i] = append(x.ops[i], op)
	x.impl[i] = append(x.impl[i], ans)
}

func byteProducing(op string) bool {
	return strings.HasPrefix(op, "enc ") || op == "w ser"
}

func clip(s string, n int) string {
	if len(s) > n {
		return s[:n] + "…"
	}

	return s
}

// Finish runs the driver over everything recorded and reports the differing byte-producing requests.
func (x *Rec) Finish(driver string) {
	if len(x.ops) == 0 {
		return
	}
	if _, err := os.Stat(driver); err != nil {
		x.R.Count("reference-oracle:driver-missing")

		return
	}
	var in bytes.Buffer
	total := 0
	for i := range x.ops {
		fmt.Fprintf(&in, "# ref %d\n", i)
		for _, op := range x.ops[i] {
			in.WriteString(op)
			in.WriteByte('\n')
		}
		total += 1 + len(x.ops[i])
	}
	cmd := exec.Command(driver)
	cmd.Stdin = &in
	out, err := cmd.Output()
	if err != nil {
		x.R.Count("reference-oracle:driver-failed")

		return
	}
	lines := strings.Split(strings.TrimRight(string(out), "\n"), "\n")
	if len(lines) != total {
		x.R.Count("reference-oracle:driver-output-short")

		return
	}
	pos, reported := 0, 0
	for i := range x.ops {
		pos++
		for j, op := range x.ops[i] {
			ref := lines[pos+j]
			if !byteProducing(op) {
				continue
			}
			x.R.Count("reference-oracle:compared")
			if ref == x.impl[i][j] || reported >= 60 {
				continue
			}
			reported++
			kind := strings.SplitN(op, " ", 2)[0] + ":" + strings.SplitN(x.impl[i][j], " ", 2)[0] + "-vs-" + strings.SplitN(ref, " ", 2)[0]
			first := j - 6
			if first < 0 {
				first = 0
			}
			x.R.Findings = append(x.R.Findings, hx.Finding{Case: x.caseNo[i], Oracle: "layout",
				Detail: fmt.Sprintf("request %d of the case `%s`: the code answers `%s`, the reference encoder `%s`; the requests before it: %s", j+1, clip(op, 300), clip(x.impl[i][j], 200), clip(ref, 200),
					clip(strings.Join(x.ops[i][first:j], " ;; "), 1200)),
				Signature: map[string]string{"oracle": "layout", "trigger": kind, "layer": x.Layer}})
			x.R.Count("finding:layout")

			break
		}
		pos += len(x.ops[i])
	}
}
