// loopgen translates BatchedWriter.runBatchWriter of kvstore/batch_writer.go (go/ast) into a term of the small language
// `Hive.BatchWriter.Loop.WS` (lean/Hive/Model/BatchWriterLoop.lean): the loop with its condition's loads in order, the
// collector creation, the closure collectValues with its select, the flush loop.  Anything it does not recognise becomes
// `.unsupported "<source text>"`, which no theorem about the generated term survives.
//
//	loopgen <out.lean> <LeanNamespace> <path/to/batch_writer.go>
package main

import (
	"bytes"
	"fmt"
	"go/ast"
	"go/parser"
	"go/printer"
	"go/token"
	"os"
	"strconv"
	"strings"
)

var fset = token.NewFileSet()

func raw(n ast.Node) string {
	var b bytes.Buffer
	printer.Fprint(&b, fset, n)

	return strings.Join(strings.Fields(b.String()), " ")
}

func q(s string) string { return strconv.Quote(s) }

type tr struct{ recv string }

func un(n ast.Node) string { return "(.unsupported " + q(raw(n)) + ")" }

// loads of the loop condition, left to right
func (t *tr) loads(e ast.Expr) []string {
	if b, ok := e.(*ast.BinaryExpr); ok && b.Op == token.LOR {
		return append(t.loads(b.X), t.loads(b.Y)...)
	}
	switch raw(e) {
	case t.recv + ".running.Load()":
		return []string{".running"}
	case t.recv + ".scheduledCount.Load() != 0":
		return []string{".countNonZero"}
	}

	return []string{"(.unsupported " + q(raw(e)) + ")"}
}

func (t *tr) list(ss []ast.Stmt) string {
	var out []string
	for i := 0; i < len(ss); i++ {
		// batchedMutation, err := bw.store.Batched(); if err != nil { panic(err) }; batchCollector :=/= newBatchCollector(batchedMutation, &bw.scheduledCount, bw.opts.batchSize)
		if i+2 < len(ss) && raw(ss[i]) == "batchedMutation, err := "+t.recv+".store.Batched()" &&
			raw(ss[i+1]) == "if err != nil { panic(err) }" &&
			(raw(ss[i+2]) == "batchCollector := newBatchCollector(batchedMutation, &"+t.recv+".scheduledCount, "+t.recv+".opts.batchSize)" ||
				raw(ss[i+2]) == "batchCollector = newBatchCollector(batchedMutation, &"+t.recv+".scheduledCount, "+t.recv+".opts.batchSize)") {
			out = append(out, ".newCollector")
			i += 2

			continue
		}
		// batchWriterTimeoutTimer := time.NewTimer(bw.opts.batchTimeout); defer timeutil.CleanupTimer(batchWriterTimeoutTimer)
		if i+1 < len(ss) && raw(ss[i]) == "batchWriterTimeoutTimer := time.NewTimer("+t.recv+".opts.batchTimeout)" &&
			raw(ss[i+1]) == "defer timeutil.CleanupTimer(batchWriterTimeoutTimer)" {
			out = append(out, ".timer")
			i++

			continue
		}
		out = append(out, t.stmt(ss[i]))
	}

	return "[" + strings.Join(out, ", ") + "]"
}

func (t *tr) forStmt(f *ast.ForStmt, label string) string {
	if f.Init != nil || f.Post != nil {
		return un(f)
	}
	if f.Cond == nil {
		return "(.forever " + q(label) + " " + t.list(f.Body.List) + ")"
	}
	if label != "" {
		return un(f)
	}

	return "(.forCond [" + strings.Join(t.loads(f.Cond), ", ") + "] " + t.list(f.Body.List) + ")"
}

func (t *tr) stmt(s ast.Stmt) string {
	switch x := s.(type) {
	case *ast.ForStmt:
		return t.forStmt(x, "")
	case *ast.LabeledStmt:
		if f, ok := x.Stmt.(*ast.ForStmt); ok {
			return t.forStmt(f, x.Label.Name)
		}
	case *ast.AssignStmt:
		switch raw(x) {
		case "shouldFlush := false", "shouldFlush = false":
			return "(.setFlush false)"
		case "shouldFlush = true":
			return "(.setFlush true)"
		}
		if len(x.Lhs) == 1 && len(x.Rhs) == 1 && raw(x.Lhs[0]) == "collectValues" && x.Tok == token.DEFINE {
			if fl, ok := x.Rhs[0].(*ast.FuncLit); ok && fl.Type.Params.NumFields() == 0 && fl.Type.Results.NumFields() == 0 {
				return "(.defCollect " + t.list(fl.Body.List) + ")"
			}
		}
	case *ast.ExprStmt:
		switch raw(x.X) {
		case "collectValues()":
			return ".callCollect"
		case t.recv + ".writeWg.Done()":
			return ".wgDone"
		}
	case *ast.ReturnStmt:
		if len(x.Results) == 0 {
			return ".ret"
		}
	case *ast.BranchStmt:
		if x.Tok == token.BREAK && x.Label != nil {
			return "(.brk " + q(x.Label.Name) + ")"
		}
	case *ast.IfStmt:
		if x.Else == nil {
			switch {
			case x.Init == nil && raw(x.Cond) == "shouldFlush":
				return "(.ifFlush " + t.list(x.Body.List) + ")"
			case x.Init == nil && raw(x.Cond) == "batchCollector.Add(objectToPersist)":
				return "(.ifAdd " + t.list(x.Body.List) + ")"
			case x.Init != nil && raw(x.Init) == "err := batchCollector.Commit()" && raw(x.Cond) == "err != nil" && raw(x.Body) == "{ panic(err) }":
				return ".commit"
			}
		}
	case *ast.SelectStmt:
		var cases []string
		for _, c := range x.Body.List {
			cc := c.(*ast.CommClause)
			comm := ""
			switch {
			case cc.Comm == nil:
				comm = ".dflt"
			case raw(cc.Comm) == "objectToPersist := <-"+t.recv+".batchQueue":
				comm = ".recvQueue"
			case raw(cc.Comm) == "<-"+t.recv+".flushChan":
				comm = ".recvFlush"
			case raw(cc.Comm) == "<-batchWriterTimeoutTimer.C":
				comm = ".recvTimer"
			default:
				comm = "(.unsupported " + q(raw(cc.Comm)) + ")"
			}
			cases = append(cases, "("+comm+", "+t.list(cc.Body)+")")
		}

		return "(.select [" + strings.Join(cases, ", ") + "])"
	}

	return un(s)
}

func main() {
	if len(os.Args) != 4 {
		fmt.Fprintln(os.Stderr, "usage: loopgen <out.lean> <namespace> <batch_writer.go>")
		os.Exit(2)
	}
	f, err := parser.ParseFile(fset, os.Args[3], nil, 0)
	if err != nil {
		fmt.Fprintln(os.Stderr, err)
		os.Exit(1)
	}
	body := "[(.unsupported \"function not found\")]"
	for _, d := range f.Decls {
		fn, ok := d.(*ast.FuncDecl)
		if !ok || fn.Body == nil || fn.Recv == nil || len(fn.Recv.List) != 1 || raw(fn.Recv.List[0].Type) != "*BatchedWriter" || fn.Name.Name != "runBatchWriter" {
			continue
		}
		t := &tr{}
		if len(fn.Recv.List[0].Names) == 1 {
			t.recv = fn.Recv.List[0].Names[0].Name
		}
		body = t.list(fn.Body.List)
	}
	var b strings.Builder
	fmt.Fprintf(&b, "import Hive.Model.BatchWriterLoop\n/-! GENERATED by harness/c08/loopgen — BatchedWriter.runBatchWriter of kvstore/batch_writer.go as a term of `Hive.BatchWriter.Loop.WS`; do not edit. -/\nnamespace %s\nopen Hive.BatchWriter.Loop\n\ndef fn_runBatchWriter : List WS :=\n  %s\n\nend %s\n", os.Args[2], body, os.Args[2])
	if err := os.WriteFile(os.Args[1], []byte(b.String()), 0o644); err != nil {
		fmt.Fprintln(os.Stderr, err)
		os.Exit(1)
	}
}
