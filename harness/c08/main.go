// C08 schedule + stress harness: runs the real kvstore.BatchedWriter with harness-implemented
// BatchWriteObjects over a recording store wrapper, records the observable event trace of every run
// (one global order = the order in which events were appended under one mutex), prints it as request
// lines for the Lean driver (which evaluates the trace predicate Hive.Spec.BatchWriter.Mon that the C08
// theorems are about) and evaluates the property itself with an independent, index-based oracle.
//
// Request lines of one case:
//
//	cfg kind=<k> q=<queue> b=<batch> t=<timeout ms> p=<producers> o=<objects> n=<ops/producer> fl=<flushes> stop=<k> hy=<permille> fin=<0|1> ns=<stop callers> seed=<s>
//	ec p o | hk p | sn o | sd o | er p o | rs o | w o v | cm | d o | fl | tc t | tr t | bl p | bs t | st o v | sx o
//	end
//	model <witness>            (forced schedules only: the model's trace on the Lean witness schedule)
//	wconf b=<batch> <rs.o|w.o.v|cm|d.o ...>   (the writer goroutine's events: must be a run of the model's writer)
//	pconf p=<id> <ec.p.o|hk.p|sn.o|sd.o|er.p.o ...>   (one producer's own events: must be a run of the model's Enqueue)
//
// Answers: `ok` while the predicate holds, `reject <why>` from the first offending event on,
// `accept`/`reject <why>` for `end`.  With --replay only the cfg line is an input; the scenario it
// describes is run again (up to 300 times until an oracle fails) and its events are recorded afresh.
package main

import (
	"bytes"
	"crypto/sha256"
	"fmt"
	"math"
	"os"
	"os/exec"
	"runtime"
	"sort"
	"strconv"
	"strings"
	"sync"
	"sync/atomic"
	"time"

	"verifharness/hx"

	"github.com/iotaledger/hive.go/kvstore"
	"github.com/iotaledger/hive.go/kvstore/mapdb"
)

// ---------------------------------------------------------------------------------------------
// goroutine identity (the verif hook only gets the name of the yield point)

func goid() uint64 {
	var buf [64]byte
	n := runtime.Stack(buf[:], false)
	f := strings.Fields(string(buf[:n]))
	if len(f) < 2 {
		return 0
	}
	id, _ := strconv.ParseUint(f[1], 10, 64)

	return id
}

type whoami struct {
	w *world
	p int
}

var registry sync.Map // goid -> whoami

func init() {
	kvstore.VerifHook = func(point string) {
		if point != "BatchedWriter.Enqueue:after-running-check" {
			return
		}
		if v, ok := registry.Load(goid()); ok {
			me := v.(whoami)
			me.w.rec("hk", me.p)
			if me.w.hook != nil {
				me.w.hook(me.p)
			}
		}
	}
}

// ---------------------------------------------------------------------------------------------
// world: one BatchedWriter, its objects, the trace

type cfg struct {
	kind                       string
	q, b, t, p, o, n, fl, stop int
	hy, fin, ns                int
	tk, sk                     int // tk: batch time-out kind (0: t ms, 1: negative, 2: zero, 3: 1ns, 4: large); sk: barrier skew
	uq                         int    // 1: WithQueueSize(0), the queue is an unbuffered channel (q is ignored)
	bk                         int    // batch-size corner: 1: WithBatchSize(0), 2: WithBatchSize(-1), 3: WithBatchSize(math.MinInt) (b is ignored)
	dm                         int    // 1: every Enqueue picks a write mode (set / delete / delete+set / set+delete) for its object
	md                         string // same-batch: the write modes of the successive Enqueues, one digit each
	fk, fa                     int    // store-fail: the fa-th (1-based) call of Commit() (fk=1) / Batched() (fk=2) of the store fails
	seed                       uint64
}

func (c cfg) line() string {
	md := c.md
	if md == "" {
		md = "-"
	}

	return fmt.Sprintf("cfg kind=%s q=%d b=%d t=%d tk=%d p=%d o=%d n=%d fl=%d stop=%d hy=%d fin=%d ns=%d sk=%d uq=%d bk=%d dm=%d md=%s fk=%d fa=%d seed=%d",
		c.kind, c.q, c.b, c.t, c.tk, c.p, c.o, c.n, c.fl, c.stop, c.hy, c.fin, c.ns, c.sk, c.uq, c.bk, c.dm, md, c.fk, c.fa, c.seed)
}

// timeout is the configured batch time-out: besides the plain `t` ms, the legal corner values (a timer with a
// duration <= 0 fires immediately) and a large one (Stop then waits for the select to time out).
func (c cfg) timeout() time.Duration {
	switch c.tk {
	case 1:
		return -time.Millisecond
	case 2:
		return 0
	case 3:
		return time.Nanosecond
	case 4:
		return 250 * time.Millisecond
	}

	return time.Duration(c.t) * time.Millisecond
}

func (c cfg) timeoutName() string {
	return [...]string{"ms", "negative", "zero", "1ns", "large"}[c.tk%5]
}

func parseCfg(l string) (cfg, bool) {
	f := strings.Fields(l)
	if len(f) == 0 || f[0] != "cfg" {
		return cfg{}, false
	}
	c := cfg{}
	for _, kv := range f[1:] {
		i := strings.IndexByte(kv, '=')
		if i < 0 {
			continue
		}
		k, v := kv[:i], kv[i+1:]
		n, _ := strconv.ParseUint(v, 10, 64)
		switch k {
		case "kind":
			c.kind = v
		case "q":
			c.q = int(n)
		case "b":
			c.b = int(n)
		case "t":
			c.t = int(n)
		case "p":
			c.p = int(n)
		case "o":
			c.o = int(n)
		case "n":
			c.n = int(n)
		case "fl":
			c.fl = int(n)
		case "stop":
			c.stop = int(n)
		case "hy":
			c.hy = int(n)
		case "fin":
			c.fin = int(n)
		case "ns":
			c.ns = int(n)
		case "tk":
			c.tk = int(n)
		case "sk":
			c.sk = int(n)
		case "uq":
			c.uq = int(n)
		case "bk":
			c.bk = int(n)
		case "dm":
			c.dm = int(n)
		case "fk":
			c.fk = int(n)
		case "fa":
			c.fa = int(n)
		case "md":
			if v != "-" {
				c.md = v
			}
		case "seed":
			c.seed = n
		}
	}

	return c, true
}

type world struct {
	c      cfg
	mu     sync.Mutex
	ev     []string
	plog   map[int][]string // per producer: its own events (ec, hk, its flag operations, er), for the pconf line
	frozen bool
	bw     *kvstore.BatchedWriter
	base   kvstore.KVStore
	objs   []*obj
	hook   func(p int)                     // at the verif yield point (after the running check)
	cas    func(p int, o *obj, fresh bool) // inside BatchWriteScheduled, after the flag operation
	erets  atomic.Int64                    // Enqueue calls returned so far
	wmu    sync.Mutex
	wfrozen bool
	wlog   []string // the writer goroutine's events and store calls, in its own order: nb rs.o w.o.v cm d.o cc
	nBatched, nCommit atomic.Int64         // store calls of the writer goroutine so far (store-fail)
	slow   atomic.Bool                     // flush-span: the hold took longer than a third of the batch time-out
	panics atomic.Int64
}

func (w *world) rec(kind string, args ...int) {
	w.mu.Lock()
	w.recLocked(kind, args...)
	w.mu.Unlock()
}

func (w *world) recLocked(kind string, args ...int) {
	if w.frozen {
		return
	}
	var sb strings.Builder
	sb.WriteString(kind)
	for _, a := range args {
		sb.WriteByte(' ')
		sb.WriteString(strconv.Itoa(a))
	}
	w.ev = append(w.ev, sb.String())
	if streamEvents {
		// child process: the parent must see what happened before a crash
		fmt.Println("EV " + sb.String())
	}
	switch kind {
	case "ec", "hk", "er":
		if w.plog == nil {
			w.plog = map[int][]string{}
		}
		w.plog[args[0]] = append(w.plog[args[0]], strings.ReplaceAll(sb.String(), " ", "."))
	}
}

// wrec appends to the writer goroutine's own log (events as in the trace, `nb`: store.Batched(), `cc`: Cancel() of an
// empty batch).  A writer that spins through empty batches (time-out <= 0) would fill it with `nb cc` pairs: a pair
// that repeats the previous one is dropped.
func (w *world) wrec(tok string) {
	w.wmu.Lock()
	defer w.wmu.Unlock()
	if w.wfrozen {
		return
	}
	if n := len(w.wlog); tok == "cc" && n >= 3 && w.wlog[n-1] == "nb" && w.wlog[n-2] == "cc" && w.wlog[n-3] == "nb" {
		w.wlog = w.wlog[:n-1]

		return
	}
	w.wlog = append(w.wlog, tok)
}

// recPseudoLocked records a marker that is not an event of the trace predicate (`cf`: a store call failed, `slow`,
// `crash`); `splitPseudo` takes them out again.
func (w *world) recPseudoLocked(kind string) {
	if w.frozen {
		return
	}
	w.ev = append(w.ev, kind)
	if streamEvents {
		fmt.Println("EV " + kind)
	}
}

// meta is what the pseudo events of a recorded run say.
type meta struct {
	slow    bool // flush-span / store-fail: the hold took too long, the batch timer may have interfered
	crashed bool // the (child) process died at the store call that was made to fail
	cfAt    int  // index (in the cleaned event list) at which the store call failed; -1: none
}

func splitPseudo(raw []string) ([]string, meta) {
	m := meta{cfAt: -1}
	clean := make([]string, 0, len(raw))
	for _, l := range raw {
		switch l {
		case "slow":
			m.slow = true
		case "crash":
			m.crashed = true
		case "cf":
			m.cfAt = len(clean)
		default:
			clean = append(clean, l)
		}
	}

	return clean, m
}

// judge is the independent property oracle for a recorded run, pseudo events included: for a run that ended with
// the crash of the process at a failed store call there is no final all-or-nothing check (nothing returns any
// more), but nothing may have been committed, done or returned from Stop after the failed call.
func judge(raw []string) (clean []string, m meta, per []string, end string) {
	clean, m = splitPseudo(raw)
	per, end = oracle(clean)
	if m.crashed {
		end = ""
		if n := len(per); n > 0 {
			end = per[n-1]
		}
		for i := max(m.cfAt, 0); i < len(clean) && end == ""; i++ {
			switch parseEv(clean[i]).k {
			case "d":
				end = "done-before-commit"
			case "cm", "tr":
				end = "continued-after-store-error"
			}
		}
	}

	return clean, m, per, end
}

// recFlagLocked records a flag operation (sn / sd) and attributes it to the producer whose Enqueue issued it.
func (w *world) recFlagLocked(kind string, o int) {
	w.recLocked(kind, o)
	if w.frozen {
		return
	}
	if v, ok := registry.Load(goid()); ok {
		if w.plog == nil {
			w.plog = map[int][]string{}
		}
		p := v.(whoami).p
		w.plog[p] = append(w.plog[p], kind+"."+strconv.Itoa(o))
	}
}

// recStoreLocked records what the store holds for object id.
func (w *world) recStoreLocked(id int) {
	v, err := w.base.Get(key(id))
	if err != nil {
		w.recLocked("sx", id)
	} else {
		n, _ := strconv.Atoi(string(v))
		w.recLocked("st", id, n)
	}
}

func (w *world) traceLen() int {
	w.mu.Lock()
	defer w.mu.Unlock()

	return len(w.ev)
}

type obj struct {
	w    *world
	id   int
	flag bool // guarded by w.mu: the flag operation and its trace record are one atomic action
	// version<<2 | write mode: what the next BatchWrite does with the object's key
	state atomic.Int64
	gate  chan struct{} // when set, BatchWrite blocks on it after it has been recorded
}

// write modes of an object: what its BatchWrite puts into the batched mutations
const (
	modeSet    = 0 // Set(key, version)
	modeDel    = 1 // Delete(key)
	modeDelSet = 2 // Delete(key); Set(key, version)
	modeSetDel = 3 // Set(key, version); Delete(key)
)

var modeNames = [...]string{"set", "del", "del+set", "set+del"}

// bump gives the object a new version and the write mode of the Enqueue that follows.
func (o *obj) bump(mode int) {
	for {
		old := o.state.Load()
		if o.state.CompareAndSwap(old, ((old>>2)+1)<<2|int64(mode&3)) {
			return
		}
	}
}

func key(id int) []byte { return []byte("o" + strconv.Itoa(id)) }

func (o *obj) BatchWrite(m kvstore.BatchedMutations) {
	st := o.state.Load()
	v, mode := int(st>>2), int(st&3)
	// the value this BatchWrite leaves for the key: the version, or 0 = the key is deleted
	net := v
	if mode == modeDel || mode == modeSetDel {
		net = 0
	}
	o.w.rec("w", o.id, net)
	o.w.wrec(fmt.Sprintf("w.%d.%d", o.id, net))
	if o.gate != nil {
		<-o.gate
	}
	set := func() {
		if err := m.Set(key(o.id), []byte(strconv.Itoa(v))); err != nil {
			panic(err)
		}
	}
	del := func() {
		if err := m.Delete(key(o.id)); err != nil {
			panic(err)
		}
	}
	switch mode {
	case modeSet:
		set()
	case modeDel:
		del()
	case modeDelSet:
		del()
		set()
	case modeSetDel:
		set()
		del()
	}
}

func (o *obj) BatchWriteDone() {
	o.w.rec("d", o.id)
	o.w.wrec("d." + strconv.Itoa(o.id))
}

func (o *obj) BatchWriteScheduled() bool {
	o.w.mu.Lock()
	already := o.flag
	if already {
		o.w.recFlagLocked("sd", o.id)
	} else {
		o.flag = true
		o.w.recFlagLocked("sn", o.id)
	}
	o.w.mu.Unlock()
	if o.w.cas != nil {
		if v, ok := registry.Load(goid()); ok {
			o.w.cas(v.(whoami).p, o, !already)
		}
	}

	return already
}

func (o *obj) ResetBatchWriteScheduled() {
	o.w.mu.Lock()
	o.flag = false
	o.w.recLocked("rs", o.id)
	o.w.mu.Unlock()
	o.w.wrec("rs." + strconv.Itoa(o.id))
}

// recStore records successful commits of batched mutations.
type recStore struct {
	kvstore.KVStore
	w *world
}

type recBatch struct {
	kvstore.BatchedMutations
	w       *world
	touched map[int]bool // objects whose key this batch sets or deletes (only the writer goroutine uses a batch)
}

func (b *recBatch) touch(k kvstore.Key) {
	if id, err := strconv.Atoi(strings.TrimPrefix(string(k), "o")); err == nil {
		b.touched[id] = true
	}
}

func (b *recBatch) Set(k kvstore.Key, v kvstore.Value) error {
	b.touch(k)

	return b.BatchedMutations.Set(k, v)
}

func (b *recBatch) Delete(k kvstore.Key) error {
	b.touch(k)

	return b.BatchedMutations.Delete(k)
}

// errInjected is what the failing store of the scenario `store-fail` returns.
var errInjected = fmt.Errorf("injected store failure")

// storeFails reports (and records: `cf`) that this call of the store is the one the scenario lets fail.
func (w *world) storeFails(kind int, n int64) bool {
	if w.c.fk != kind || int(n) != w.c.fa {
		return false
	}
	w.mu.Lock()
	w.recPseudoLocked("cf")
	w.mu.Unlock()

	return true
}

func (s *recStore) Batched() (kvstore.BatchedMutations, error) {
	if s.w.storeFails(2, s.w.nBatched.Add(1)) {
		return nil, errInjected
	}
	b, err := s.KVStore.Batched()
	if err != nil {
		return nil, err
	}
	s.w.wrec("nb")

	return &recBatch{BatchedMutations: b, w: s.w, touched: map[int]bool{}}, nil
}

func (b *recBatch) Commit() error {
	if b.w.storeFails(1, b.w.nCommit.Add(1)) {
		// nothing is applied: the batched mutations of a kvstore are atomic
		return errInjected
	}
	err := b.BatchedMutations.Commit()
	if err == nil {
		// the commit and what it left in the store for every object of the batch (only the writer goroutine
		// commits, so nothing else changes the store meanwhile)
		ids := make([]int, 0, len(b.touched))
		for id := range b.touched {
			ids = append(ids, id)
		}
		sort.Ints(ids)
		b.w.mu.Lock()
		b.w.recLocked("cm")
		for _, id := range ids {
			b.w.recStoreLocked(id)
		}
		b.w.mu.Unlock()
		b.w.wrec("cm")
	}

	return err
}

func (b *recBatch) Cancel() {
	b.w.wrec("cc")
	b.BatchedMutations.Cancel()
}

func newWorld(c cfg) *world {
	w := &world{c: c, base: mapdb.NewMapDB()}
	opts := []kvstore.Option{kvstore.WithBatchTimeout(c.timeout())}
	if c.uq == 1 {
		opts = append(opts, kvstore.WithQueueSize(0))
	} else if c.q > 0 {
		opts = append(opts, kvstore.WithQueueSize(c.q))
	}
	switch {
	case c.bk == 1:
		opts = append(opts, kvstore.WithBatchSize(0))
	case c.bk == 2:
		opts = append(opts, kvstore.WithBatchSize(-1))
	case c.bk == 3:
		opts = append(opts, kvstore.WithBatchSize(math.MinInt))
	case c.b > 0:
		opts = append(opts, kvstore.WithBatchSize(c.b))
	}
	w.bw = kvstore.NewBatchedWriter(&recStore{KVStore: w.base, w: w}, opts...)
	for i := 0; i < c.o; i++ {
		w.objs = append(w.objs, &obj{w: w, id: i})
	}

	return w
}

// spawn runs f as participant p; done is closed when f returned.
func (w *world) spawn(p int, f func()) chan struct{} {
	done := make(chan struct{})
	go func() {
		id := goid()
		registry.Store(id, whoami{w, p})
		defer registry.Delete(id)
		defer close(done)
		if e := hx.Safely(f); e != "" {
			w.panics.Add(1)
			w.rec("panic", p)
		}
	}()

	return done
}

func (w *world) enqueue(p int, o *obj) { w.enqueueM(p, o, modeSet) }

func (w *world) enqueueM(p int, o *obj, mode int) {
	o.bump(mode)
	w.rec("ec", p, o.id)
	w.bw.Enqueue(o)
	w.rec("er", p, o.id)
	w.erets.Add(1)
}

func (w *world) stop(t int) {
	w.rec("tc", t)
	w.bw.StopBatchWriter()
	w.rec("tr", t)
}

// waitEvent waits until an event with the given prefix has been recorded.
func (w *world) waitEvent(prefix string, d time.Duration) {
	deadline := time.Now().Add(d)
	for time.Now().Before(deadline) {
		w.mu.Lock()
		seen := false
		for _, e := range w.ev {
			if strings.HasPrefix(e, prefix) {
				seen = true
			}
		}
		w.mu.Unlock()
		if seen {
			return
		}
		time.Sleep(50 * time.Microsecond)
	}
}

// waitCount waits until n events with the given prefix have been recorded.
func (w *world) waitCount(prefix string, n int, d time.Duration) bool {
	deadline := time.Now().Add(d)
	for time.Now().Before(deadline) {
		w.mu.Lock()
		seen := 0
		for _, e := range w.ev {
			if strings.HasPrefix(e, prefix) {
				seen++
			}
		}
		w.mu.Unlock()
		if seen >= n {
			return true
		}
		time.Sleep(50 * time.Microsecond)
	}

	return false
}

// stopInvoked waits until the Stop call has been recorded and then long enough for it to clear `running`
// and reach its Wait (or to return, if it does not wait).
func (w *world) stopInvoked(done chan struct{}) {
	deadline := time.Now().Add(stressBound)
	for time.Now().Before(deadline) {
		w.mu.Lock()
		seen := false
		for _, e := range w.ev {
			if strings.HasPrefix(e, "tc ") {
				seen = true
			}
		}
		w.mu.Unlock()
		if seen {
			break
		}
		time.Sleep(50 * time.Microsecond)
	}
	waitFor(done, time.Duration(w.c.t)*time.Millisecond+3*time.Millisecond)
}

func waitFor(ch chan struct{}, d time.Duration) bool {
	select {
	case <-ch:
		return true
	case <-time.After(d):
		return false
	}
}

// settle waits until no event has been recorded for a while (a writer goroutine that is still alive
// after Stop returned finishes its last batch within one batch time-out).
func (w *world) settle() {
	quiet := time.Duration(w.c.t)*time.Millisecond*2 + 10*time.Millisecond
	if w.c.kind == "first-race" {
		quiet = 300 * time.Microsecond
	}
	if w.c.kind == "flush-span" || w.c.kind == "flush-stop" {
		quiet = 30 * time.Millisecond // long batch time-out; after Stop returned the writer is gone
	}
	deadline := time.Now().Add(3 * time.Second)
	last, since := w.traceLen(), time.Now()
	for time.Now().Before(deadline) {
		if w.c.kind == "first-race" {
			time.Sleep(100 * time.Microsecond)
		} else {
			time.Sleep(time.Millisecond)
		}
		if n := w.traceLen(); n != last {
			last, since = n, time.Now()
		} else if time.Since(since) > quiet {
			return
		}
	}
}

// finish: blocked participants, final store contents, freeze.
func (w *world) finish(prod []chan struct{}, stoppers []chan struct{}, bound time.Duration) []string {
	deadline := time.Now().Add(bound)
	left := func() time.Duration {
		if d := time.Until(deadline); d > 0 {
			return d
		}

		return 0
	}
	var blockedP, blockedS []int
	for i, ch := range stoppers {
		if !waitFor(ch, left()) {
			blockedS = append(blockedS, i)
		}
	}
	for i, ch := range prod {
		if !waitFor(ch, left()) {
			blockedP = append(blockedP, i)
		}
	}
	if w.c.fin == 1 && len(blockedS) == 0 {
		fin := w.spawn(1000, func() { w.stop(len(stoppers)) })
		if !waitFor(fin, bound) {
			blockedS = append(blockedS, len(stoppers))
		}
	}
	w.settle()
	w.mu.Lock()
	for _, p := range blockedP {
		w.recLocked("bl", p)
	}
	for _, t := range blockedS {
		w.recLocked("bs", t)
	}
	for _, o := range w.objs {
		w.recStoreLocked(o.id)
	}
	w.frozen = true
	ev := append([]string(nil), w.ev...)
	w.mu.Unlock()

	return ev
}

// ---------------------------------------------------------------------------------------------
// scenarios

const stressBound = 10 * time.Second
const raceBound = 6 * time.Second

func run(c cfg) []string {
	ev, _ := run2(c)

	return ev
}

// run2 also returns the per-producer logs.
func run2(c cfg) ([]string, map[int][]string) {
	for try := 0; ; try++ {
		ev, plog := run1(c)
		if _, m, _, end := judge(ev); m.slow && end == "" && try < 4 {
			// the machine stalled while the writer was held: the batch timer may have fired; once more
			continue
		}

		return ev, plog
	}
}

func run1(c cfg) ([]string, map[int][]string) {
	if (c.kind == "bcorner" || c.kind == "store-fail") && os.Getenv("C08_BCORNER_CHILD") == "" {
		return bcornerParent(c)
	}
	w := newWorld(c)
	ev := runIn(w)
	w.mu.Lock()
	defer w.mu.Unlock()
	plog := make(map[int][]string, len(w.plog)+1)
	for p, l := range w.plog {
		plog[p] = append([]string(nil), l...)
	}
	// key -1: the writer goroutine's own log (frozen now: a writer that is still alive records nothing more)
	w.wmu.Lock()
	w.wfrozen = true
	plog[-1] = append([]string(nil), w.wlog...)
	w.wmu.Unlock()

	return ev, plog
}

// bcornerChild is the scenario of kind `bcorner`, run inside a child process (a panic in the writer goroutine
// cannot be recovered and kills the process): one producer enqueues objects 0, 1, 0, a Flush, then Stop.
func bcornerChild(w *world) []string {
	p0 := w.spawn(0, func() {
		for i, o := range []int{0, 1, 0} {
			w.enqueueM(0, w.objs[o%len(w.objs)], modeSet)
			w.waitCount("w ", i+1, 2*time.Second)
		}
		w.rec("fl")
		w.bw.Flush()
	})
	waitFor(p0, stressBound)
	s0 := w.spawn(100, func() { w.stop(0) })

	return w.finish([]chan struct{}{p0}, []chan struct{}{s0}, stressBound)
}

// bcornerParent runs the scenario in a child process and returns the events it printed; a child that dies
// (non-zero exit status) contributes a `panic 0` event after what it had recorded.
func bcornerParent(c cfg) ([]string, map[int][]string) {
	cmd := exec.Command(os.Args[0])
	cmd.Env = append(os.Environ(), "C08_BCORNER_CHILD="+c.line())
	var out, errb bytes.Buffer
	cmd.Stdout, cmd.Stderr = &out, &errb
	done := make(chan error, 1)
	if err := cmd.Start(); err != nil {
		return []string{"panic 0"}, nil
	}
	go func() { done <- cmd.Wait() }()
	var err error
	select {
	case err = <-done:
	case <-time.After(60 * time.Second):
		_ = cmd.Process.Kill()
		err = <-done
	}
	var ev []string
	plog := map[int][]string{}
	for _, l := range strings.Split(out.String(), "\n") {
		switch {
		case strings.HasPrefix(l, "EV "):
			ev = append(ev, strings.TrimPrefix(l, "EV "))
		case strings.HasPrefix(l, "PL "):
			f := strings.Fields(strings.TrimPrefix(l, "PL "))
			if len(f) > 0 {
				p, _ := strconv.Atoi(f[0])
				plog[p] = f[1:]
			}
		}
	}
	if err != nil {
		// the child died: keep what it had recorded before (streamed lines)
		_, m := splitPseudo(ev)
		if c.kind == "store-fail" && m.cfAt >= 0 && strings.Contains(errb.String(), "panic: "+errInjected.Error()) {
			// with the panic of the writer goroutine at the store call that was made to fail
			ev = append(ev, "crash")
		} else {
			ev = append(ev, "panic 0")
		}
	}

	return ev, plog
}

func runIn(w *world) []string {
	c := w.c
	switch c.kind {
	case "bcorner":
		return bcornerChild(w)

	case "stop-after-first":
		// no hook: Enqueue(o0) returns, Stop immediately afterwards
		p0 := w.spawn(0, func() { w.enqueue(0, w.objs[0]) })
		<-p0
		s0 := w.spawn(100, func() { w.stop(0) })

		return w.finish([]chan struct{}{p0}, []chan struct{}{s0}, stressBound)

	case "window", "window-block":
		// every producer parks at the yield point (after its running check), Stop is invoked and given time
		// to reach its Wait, then the producers are released one after the other
		parked := make(chan int, c.p)
		release := make([]chan struct{}, c.p)
		for i := range release {
			release[i] = make(chan struct{})
		}
		w.hook = func(p int) {
			parked <- p
			<-release[p]
		}
		var prod []chan struct{}
		for p := 0; p < c.p; p++ {
			p := p
			prod = append(prod, w.spawn(p, func() { w.enqueue(p, w.objs[p%c.o]) }))
			select {
			case <-parked:
			case <-time.After(stressBound):
			}
		}
		s0 := w.spawn(100, func() { w.stop(0) })
		w.stopInvoked(s0)
		for p := 0; p < c.p; p++ {
			close(release[p])
			waitFor(prod[p], 200*time.Millisecond)
		}

		return w.finish(prod, []chan struct{}{s0}, stressBound)

	case "window-dup":
		// producer 0 parks inside BatchWriteScheduled right after it set the flag; producer 1 enqueues
		// the same object, finds it scheduled and returns; Stop is invoked; producer 0 is released
		parked := make(chan struct{}, 1)
		release := make(chan struct{})
		w.cas = func(p int, o *obj, fresh bool) {
			if p == 0 && fresh {
				parked <- struct{}{}
				<-release
			}
		}
		p0 := w.spawn(0, func() { w.enqueue(0, w.objs[0]) })
		select {
		case <-parked:
		case <-time.After(stressBound):
		}
		p1 := w.spawn(1, func() { w.enqueue(1, w.objs[0]) })
		waitFor(p1, stressBound)
		s0 := w.spawn(100, func() { w.stop(0) })
		w.stopInvoked(s0)
		close(release)
		waitFor(p0, stressBound)

		return w.finish([]chan struct{}{p0, p1}, []chan struct{}{s0}, stressBound)

	case "same-batch":
		// one producer enqueues object 0 again and again, each time with the next write mode of c.md, and each time
		// after the previous BatchWrite has happened: with a large batch size and time-out all BatchWrites fall
		// into one batch (set then delete, delete then set, ... of one key inside one batch); the batch is
		// committed by a Flush (fl=1) or by Stop / the time-out
		p0 := w.spawn(0, func() {
			for i, d := range c.md {
				w.enqueueM(0, w.objs[0], int(d-'0'))
				if !w.waitCount("w ", i+1, stressBound) {
					break // the writer does not write any more: no point in waiting for it again and again
				}
			}
			if c.fl > 0 {
				w.rec("fl")
				w.bw.Flush()
				w.waitEvent("cm", stressBound)
			}
		})
		waitFor(p0, 2*stressBound)
		s0 := w.spawn(100, func() { w.stop(0) })

		return w.finish([]chan struct{}{p0}, []chan struct{}{s0}, stressBound)

	case "flush-span", "store-fail":
		// (store-fail: the same scenario in a child process, with a store whose fa-th Commit() / Batched() fails)
		// a Flush that spans several batches: object 0's BatchWrite is held on a channel while the producer
		// enqueues objects 1..n-1 (queue size n) and calls Flush; released, the writer drains the queue — in the
		// flush loop as soon as it takes the flush request — committing every full batch on the way (collector
		// replaced inside one flush) and the partial rest at the end; only then Stop is invoked.  The batch
		// time-out is long, so that no partial batch is committed by the timer (w.slow: the hold took so long that
		// the timer may have interfered; the caller runs the scenario again)
		gate := make(chan struct{})
		w.objs[0].gate = gate
		t0 := time.Now()
		p0 := w.spawn(0, func() {
			w.enqueue(0, w.objs[0])
			alive := w.waitCount("w ", 1, stressBound/2)
			for i := 1; i < c.n; i++ {
				w.enqueue(0, w.objs[i])
			}
			w.rec("fl")
			w.bw.Flush()
			if !alive {
				close(gate)

				return
			}
			if time.Since(t0) > c.timeout()/3 {
				w.slow.Store(true)
				w.mu.Lock()
				w.recPseudoLocked("slow")
				w.mu.Unlock()
			}
			close(gate)
			// (a short wait is harmless: Stop, invoked earlier, has to wait for the Dones itself)
			w.waitCount("d ", c.n, 2*time.Second)
		})
		waitFor(p0, 3*stressBound)
		s0 := w.spawn(100, func() { w.stop(0) })

		return w.finish([]chan struct{}{p0}, []chan struct{}{s0}, stressBound)

	case "flush-stop":
		// a flush request that is still pending when Stop clears `running`: object 0's BatchWrite is held (batch
		// size >= 2: the batch stays open), Flush, Stop is invoked and given time to reach its Wait, release: the
		// open batch must be committed and done before Stop returns
		gate := make(chan struct{})
		w.objs[0].gate = gate
		p0 := w.spawn(0, func() {
			w.enqueue(0, w.objs[0])
			w.waitCount("w ", 1, stressBound)
			w.rec("fl")
			w.bw.Flush()
		})
		waitFor(p0, 2*stressBound)
		s0 := w.spawn(100, func() { w.stop(0) })
		w.waitEvent("tc 0", stressBound)
		waitFor(s0, 3*time.Millisecond)
		close(gate)

		return w.finish([]chan struct{}{p0}, []chan struct{}{s0}, stressBound)

	case "first-race":
		// fresh writer: the very first Enqueue, StopBatchWriter (and a second Enqueue) are released together by a
		// spin barrier, with a small skew; needs the calls to really run in parallel
		n := c.p + 1
		var ready atomic.Int32
		var start atomic.Bool
		barrier := func(skew int) {
			ready.Add(1)
			for !start.Load() {
			}
			for i := 0; i < skew; i++ {
				ready.Load()
			}
		}
		skewE, skewS := 0, 0
		if c.sk%2 == 0 {
			skewE = c.sk / 2
		} else {
			skewS = c.sk / 2
		}
		// the call events are recorded before the barrier (the trace mutex would stagger the calls): a call
		// interval that starts early only makes the predicate more lenient towards the implementation
		var prod []chan struct{}
		for p := 0; p < c.p; p++ {
			p := p
			prod = append(prod, w.spawn(p, func() {
				o := w.objs[p%c.o]
				o.bump(modeSet)
				w.rec("ec", p, o.id)
				barrier(skewE * (1 + p))
				w.bw.Enqueue(o)
				w.rec("er", p, o.id)
				w.erets.Add(1)
			}))
		}
		s0 := w.spawn(100, func() {
			w.rec("tc", 0)
			barrier(skewS)
			w.bw.StopBatchWriter()
			w.rec("tr", 0)
		})
		for dl := time.Now().Add(stressBound); int(ready.Load()) < n && time.Now().Before(dl); {
			runtime.Gosched()
		}
		start.Store(true)

		return w.finish(prod, []chan struct{}{s0}, raceBound)

	case "two-stops":
		// the object's BatchWrite is held on a channel; Stop#0 is started and observed waiting, then Stop#1 is
		// started: neither may return before the release
		gate := make(chan struct{})
		w.objs[0].gate = gate
		p0 := w.spawn(0, func() { w.enqueue(0, w.objs[0]) })
		waitFor(p0, stressBound)
		w.waitEvent("w ", stressBound)
		// hy > 0: a long hold (ms) — a Stop that gives up waiting after a while returns early
		hold := time.Duration(c.t)*time.Millisecond + 3*time.Millisecond
		if c.hy > 0 {
			hold = time.Duration(c.hy) * time.Millisecond
		}
		s0 := w.spawn(100, func() { w.stop(0) })
		w.waitEvent("tc 0", stressBound)
		waitFor(s0, hold)
		s1 := w.spawn(101, func() { w.stop(1) })
		w.waitEvent("tc 1", stressBound)
		waitFor(s1, hold)
		close(gate)

		return w.finish([]chan struct{}{p0}, []chan struct{}{s0, s1}, stressBound)

	default: // stress
		rng := hx.NewRng(c.seed)
		var prod, stoppers []chan struct{}
		if c.hy > 0 {
			hr := hx.NewRng(c.seed ^ 0x5bd1e995)
			var hm sync.Mutex
			w.hook = func(p int) {
				hm.Lock()
				x := hr.Intn(1000)
				hm.Unlock()
				if x < c.hy {
					if x%2 == 0 {
						runtime.Gosched()
					} else {
						time.Sleep(time.Duration(50+x) * time.Microsecond)
					}
				}
			}
		}
		start := make(chan struct{})
		for p := 0; p < c.p; p++ {
			p := p
			pr, _ := rng.Fork()
			prod = append(prod, w.spawn(p, func() {
				<-start
				for i := 0; i < c.n; i++ {
					mode := modeSet
					if c.dm == 1 {
						mode = pr.Intn(4)
					}
					w.enqueueM(p, w.objs[pr.Intn(c.o)], mode)
					switch pr.Intn(6) {
					case 0:
						runtime.Gosched()
					case 1:
						time.Sleep(time.Duration(pr.Intn(300)) * time.Microsecond)
					case 2:
						time.Sleep(time.Duration(pr.Intn(1+c.t*400)) * time.Microsecond)
					}
				}
			}))
		}
		if c.fl > 0 {
			fr, _ := rng.Fork()
			prod = append(prod, w.spawn(c.p, func() {
				<-start
				for i := 0; i < c.fl; i++ {
					time.Sleep(time.Duration(fr.Intn(1+c.t*300)) * time.Microsecond)
					w.rec("fl")
					w.bw.Flush()
				}
			}))
		}
		ns := c.ns
		if ns < 1 {
			ns = 1
		}
		for k := 0; k < ns; k++ {
			k := k
			sr, _ := rng.Fork()
			stoppers = append(stoppers, w.spawn(100+k, func() {
				<-start
				dl := time.Now().Add(2 * time.Second)
				for w.erets.Load() < int64(c.stop) && time.Now().Before(dl) {
					runtime.Gosched()
				}
				if k > 0 {
					// overlap the first caller: right away, after a yield, or a little later
					switch sr.Intn(3) {
					case 1:
						runtime.Gosched()
					case 2:
						time.Sleep(time.Duration(sr.Intn(1+c.t*500)) * time.Microsecond)
					}
				}
				w.stop(k)
			}))
		}
		close(start)

		return w.finish(prod, stoppers, stressBound)
	}
}

// ---------------------------------------------------------------------------------------------
// independent property oracle over the recorded events (index based; the Lean predicate is a fold
// over counters).  Returns, per event, "" or the reason, and the verdict of `end`.

type event struct {
	k    string
	a, b int
}

func parseEv(l string) event {
	f := strings.Fields(l)
	e := event{k: f[0]}
	if len(f) > 1 {
		e.a, _ = strconv.Atoi(f[1])
	}
	if len(f) > 2 {
		e.b, _ = strconv.Atoi(f[2])
	}

	return e
}

func oracle(lines []string) (per []string, end string) {
	ev := make([]event, len(lines))
	for i, l := range lines {
		ev[i] = parseEv(l)
	}
	idx := func(k string, a int, upto int) []int { // indices < upto of events kind k with first arg a
		var r []int
		for i := 0; i < upto && i < len(ev); i++ {
			if ev[i].k == k && (a < 0 || ev[i].a == a) {
				r = append(r, i)
			}
		}

		return r
	}
	per = make([]string, len(ev))
	for i, e := range ev {
		switch e.k {
		case "d":
			k := len(idx("d", e.a, i)) + 1 // this is the k-th Done of the object
			ws := idx("w", e.a, i)
			ok := false
			if len(ws) >= k {
				for _, c := range idx("cm", -1, i) {
					if c > ws[k-1] {
						ok = true
					}
				}
			}
			if !ok {
				per[i] = "done-before-commit"
			}
		case "w":
			if len(idx("w", e.a, i))+1 > len(idx("sn", e.a, i)) {
				per[i] = "write-unscheduled"
			}
		case "tr":
			// per Stop call: every accepted Enqueue (it reached the yield point, i.e. passed the running
			// check) that returned before THIS call was invoked: a BatchWrite that started after the Enqueue
			// call has been committed and its Done delivered by now
			call := -1
			for x := i - 1; x >= 0; x-- {
				if ev[x].k == "tc" && ev[x].a == e.a {
					call = x

					break
				}
			}
			for j := 0; j < call && per[i] == ""; j++ {
				if ev[j].k != "er" {
					continue
				}
				c, passed := -1, false
				for x := j - 1; x >= 0; x-- {
					if ev[x].k == "hk" && ev[x].a == ev[j].a {
						passed = true
					}
					if ev[x].k == "ec" && ev[x].a == ev[j].a {
						c = x

						break
					}
				}
				if c < 0 || !passed {
					continue
				}
				o := ev[j].b
				if len(idx("d", o, i)) < len(idx("w", o, c))+1 {
					per[i] = "stop-returned-early"
				}
			}
		case "st", "sx":
			cms := idx("cm", -1, i)
			want, have := 0, false
			if len(cms) > 0 {
				// the last BatchWrite of the object before the last commit wins; value 0 = it deleted the key
				if ws := idx("w", e.a, cms[len(cms)-1]); len(ws) > 0 && ev[ws[len(ws)-1]].b != 0 {
					want, have = ev[ws[len(ws)-1]].b, true
				}
			}
			if (e.k == "sx" && have) || (e.k == "st" && (!have || want != e.b)) {
				per[i] = "store-mismatch"
			}
		case "bl", "bs":
			per[i] = "blocked-forever"
		case "panic":
			per[i] = "panic"
		}
	}
	// sticky
	cur := ""
	for i := range per {
		if cur == "" {
			cur = per[i]
		}
		per[i] = cur
	}
	end = cur
	if end == "" {
		objs := map[int]bool{}
		for _, e := range ev {
			switch e.k {
			case "sn", "d":
				objs[e.a] = true
			}
		}
		ids := make([]int, 0, len(objs))
		for o := range objs {
			ids = append(ids, o)
		}
		sort.Ints(ids)
		for _, o := range ids {
			if len(idx("sn", o, len(ev))) != len(idx("d", o, len(ev))) {
				end = "touched-not-written"

				break
			}
		}
	}

	return per, end
}

// windowRace: some Enqueue call that passed its running check (it reached the yield point: hk) overlaps
// a Stop call (invoked before Stop returned, not yet returned when Stop was invoked) — the trigger of the
// recorded life-cycle finding.  The hk record itself may be delayed past Stop's return: the check it
// follows read running=true, hence before Stop cleared the flag.
func windowRace(lines []string) bool {
	ev := make([]event, len(lines))
	for i, l := range lines {
		ev[i] = parseEv(l)
	}
	for c, e := range ev {
		if e.k != "ec" {
			continue
		}
		ret, passed := len(ev), false
		for j := c + 1; j < len(ev); j++ {
			if ev[j].k == "hk" && ev[j].a == e.a {
				passed = true
			}
			if ev[j].k == "er" && ev[j].a == e.a {
				ret = j

				break
			}
		}
		if !passed {
			continue
		}
		for t := 0; t < ret && t < len(ev); t++ {
			if ev[t].k != "tc" {
				continue
			}
			tr := len(ev)
			for u := t + 1; u < len(ev); u++ {
				if ev[u].k == "tr" && ev[u].a == ev[t].a {
					tr = u

					break
				}
			}
			if c < tr {
				return true
			}
		}
	}

	return false
}

// projections renders a trace per participant (the interleaving of the writer with the producers is not
// determined by a forced schedule, the order within each participant is): producers, flag test-and-sets,
// Stop, writer.
func projections(lines []string, producers, stoppers int) string {
	var parts []string
	for p := 0; p < producers; p++ {
		var t []string
		for _, l := range lines {
			e := parseEv(l)
			if (e.k == "ec" || e.k == "hk" || e.k == "er" || e.k == "bl") && e.a == p {
				t = append(t, strings.ReplaceAll(l, " ", "."))
			}
		}
		parts = append(parts, fmt.Sprintf("P%d:", p)+strings.Join(t, ","))
	}
	group := func(name string, keep func(e event) bool) {
		var t []string
		for _, l := range lines {
			if keep(parseEv(l)) {
				t = append(t, strings.ReplaceAll(l, " ", "."))
			}
		}
		parts = append(parts, name+strings.Join(t, ","))
	}
	group("F:", func(e event) bool { return e.k == "sn" || e.k == "sd" })
	for k := 0; k < stoppers; k++ {
		k := k
		group(fmt.Sprintf("S%d:", k), func(e event) bool { return (e.k == "tc" || e.k == "tr" || e.k == "bs") && e.a == k })
	}
	group("W:", func(e event) bool { return e.k == "rs" || e.k == "w" || e.k == "cm" || e.k == "d" })

	return strings.Join(parts, "|")
}

// ---------------------------------------------------------------------------------------------

var failCount = map[string]int{}

// streamEvents: set in the child process of a `bcorner` case
var streamEvents bool

type result struct {
	c    cfg
	ev   []string
	plog map[int][]string
}

func emit(r *hx.Run, sub uint64, res result) (failed bool) {
	r.Case(sub)
	clean, m, per, end := judge(res.ev)
	res.ev = clean
	slow := m.slow
	r.Line(res.c.line(), "ok")
	for i, l := range res.ev {
		a := "ok"
		if per[i] != "" {
			a = "reject " + per[i]
		}
		r.Line(l, a)
	}
	switch {
	case m.crashed:
		// the process died at the failed store call: the verdict on the trace up to there, and the objects that
		// were written but not committed (last BatchWrite after the last commit)
		ans := "reject " + end
		if n := len(per); n > 0 && per[n-1] != "" {
			ans = "reject " + per[n-1]
		} else {
			lastCm := -1
			un := map[int]bool{}
			for i, l := range res.ev {
				switch e := parseEv(l); e.k {
				case "cm":
					lastCm = i
					un = map[int]bool{}
				case "w":
					un[e.a] = true
				}
			}
			_ = lastCm
			ids := make([]string, 0, len(un))
			keys := make([]int, 0, len(un))
			for o := range un {
				keys = append(keys, o)
			}
			sort.Ints(keys)
			for _, o := range keys {
				ids = append(ids, strconv.Itoa(o))
			}
			ans = "crashed uncommitted=" + strings.Join(ids, ",")
		}
		r.Line("crash", ans)
		r.Count("store-fail:crashed")
	case end == "":
		r.Line("end", "accept")
	default:
		r.Line("end", "reject "+end)
	}
	if res.c.kind == "store-fail" {
		r.Count(fmt.Sprintf("store-fail:%s#%d", [...]string{"", "Commit", "Batched"}[res.c.fk%3], res.c.fa))
		if slow {
			r.Count("flush-span:stalled-no-model-line")
		} else {
			// the writer's part of the trace and whether the process died: as the model's `sysE` on the same scenario
			var t []string
			for _, l := range res.ev {
				switch parseEv(l).k {
				case "rs", "w", "cm", "d":
					t = append(t, strings.ReplaceAll(l, " ", "."))
				}
			}
			out := "|completed"
			if m.crashed {
				out = "|crashed"
			}
			r.Line(fmt.Sprintf("model store-fail b=%d n=%d fk=%d fa=%d", res.c.b, res.c.n, res.c.fk, res.c.fa), "W:"+strings.Join(t, ",")+out)
		}
	}
	switch res.c.kind {
	case "window", "window-block", "window-dup", "two-stops":
		// the same forced schedule exists as a Lean witness; per participant the model's trace must be this one
		mq := res.c.q
		if res.c.uq == 1 {
			mq = 0 // the Lean witness schedule for the unbuffered queue (hand-off instead of send + receive)
		}
		r.Line(fmt.Sprintf("model %s q=%d p=%d", res.c.kind, mq, res.c.p), projections(res.ev, res.c.p, max(1, res.c.ns)))
	case "flush-span", "flush-stop":
		mb := res.c.b
		if mb == 0 {
			mb = 10000 // option not passed: the default batch size
		}
		if slow {
			r.Count("flush-span:stalled-no-model-line")
		} else {
			r.Line(fmt.Sprintf("model %s q=%d b=%d n=%d p=1", res.c.kind, res.c.q, mb, res.c.n), projections(res.ev, 1, 1))
		}
	}
	// writer conformance: the events of the real writer goroutine, in order; the Lean driver drives the model's
	// own writer (stepWriter) with them and answers `conforms` iff the model can emit exactly this sequence
	var wev []string
	for _, l := range res.ev {
		switch parseEv(l).k {
		case "rs", "w", "cm", "d":
			wev = append(wev, strings.ReplaceAll(l, " ", "."))
		}
	}
	wb := res.c.b
	if res.c.bk > 0 {
		wb = 1 // a batch size <= 0: `writtenValuesCounter >= batchSize` holds after every object, as with batch size 1
	}
	r.Line(strings.TrimSpace(fmt.Sprintf("wconf b=%d %s", wb, strings.Join(wev, " "))), "conforms")
	if wl, ok := res.plog[-1]; ok {
		// the same with the store calls of the writer goroutine (nb: Batched(), cc: Cancel()) and, when every Stop
		// call returned, its termination (x): every collector is committed or cancelled before the next one is
		// created and before the goroutine ends
		toks := append([]string(nil), wl...)
		stopped, hung := false, false
		for _, l := range res.ev {
			switch parseEv(l).k {
			case "tr":
				stopped = true
			case "bs", "bl", "panic":
				hung = true
			}
		}
		if stopped && !hung && !m.crashed {
			toks = append(toks, "x")
			r.Count("wconfs:with-exit")
		}
		r.Line(strings.TrimSpace(fmt.Sprintf("wconfs b=%d %s", wb, strings.Join(toks, " "))), "conforms")
		for _, t := range toks {
			if t == "nb" || t == "cc" {
				r.Count("store-call:" + t)
			}
		}
	}
	// producer conformance: each producer's own events (its calls, yield points, flag operations, returns); the Lean
	// driver drives the model's Enqueue (stepProd) with them
	pids := make([]int, 0, len(res.plog))
	for p := range res.plog {
		if p >= 0 {
			pids = append(pids, p)
		}
	}
	sort.Ints(pids)
	for _, p := range pids {
		r.Line(fmt.Sprintf("pconf p=%d %s", p, strings.Join(res.plog[p], " ")), "conforms")
	}
	r.Count("kind:" + res.c.kind)
	if res.c.bk > 0 {
		r.Count([...]string{"", "b:corner-zero", "b:corner-minus-one", "b:corner-min-int"}[res.c.bk%4])
	}
	if res.c.uq == 1 {
		r.Count("q:unbuffered")
	} else {
		r.Count(fmt.Sprintf("q:%d", res.c.q)) // 0 = default (10000)
	}
	if res.c.dm == 1 || res.c.md != "" {
		r.Count("write-modes:varied")
	}
	r.Count(fmt.Sprintf("b:%d", res.c.b)) // 0 = default (10000)
	if res.c.tk == 0 {
		r.Count(fmt.Sprintf("t:%dms", res.c.t))
	} else {
		r.Count("t:" + res.c.timeoutName())
	}
	r.Count(fmt.Sprintf("producers:%d", res.c.p))
	r.Count(fmt.Sprintf("stop-callers:%d", max(1, res.c.ns)))
	verdict := "accept"
	if end != "" {
		verdict = "reject:" + end
	}
	r.Count("verdict:" + verdict)
	nW, nD, nCm, pend, full, part, dup, racing, afterTc := 0, 0, 0, 0, 0, 0, 0, 0, false
	var kinds []string
	open := map[int]int{} // object -> net value of its BatchWrite in the batch that is still open
	kindOf := func(v int) string {
		if v == 0 {
			return "del"
		}

		return "set"
	}
	for _, l := range res.ev {
		e := parseEv(l)
		kinds = append(kinds, e.k)
		switch e.k {
		case "w":
			nW++
			pend++
			if prev, again := open[e.a]; again {
				// the object is written a second time into the batch that is still open
				r.Count("same-batch-rewrite:" + kindOf(prev) + "->" + kindOf(e.b))
			}
			open[e.a] = e.b
		case "st", "sx":
			if nCm > 0 && !afterTc {
				r.Count("store-observed-after-commit:" + e.k)
			}
		case "d":
			nD++
		case "cm":
			nCm++
			if pend >= res.c.b {
				full++
			} else {
				part++
			}
			pend = 0
			open = map[int]int{}
		case "sd":
			dup++
		case "tc":
			afterTc = true
		case "er":
			if afterTc {
				racing++
			}
		}
	}
	r.CountN("ev:BatchWrite", nW)
	r.CountN("ev:BatchWriteDone", nD)
	r.CountN("ev:commit-batch-full", full)
	r.CountN("ev:commit-timeout-or-flush", part)
	r.CountN("ev:enqueue-already-scheduled", dup)
	r.CountN("ev:enqueue-returned-after-stop-invoked", racing)
	r.CountN("ev:total", len(res.ev))
	race := windowRace(res.ev)
	if race {
		r.Count("window-race:yes")
	}
	if nD > 0 && afterTc {
		h := sha256.Sum256([]byte(strings.Join(kinds, " ")))
		r.Nontrivial(string(h[:8]))
	}
	if end != "" {
		trig := "none"
		if race {
			trig = "stop-while-enqueue-in-window"
		}
		if res.c.bk > 0 {
			trig = "batch-size<=0"
		}
		if res.c.kind == "store-fail" {
			trig = "store-error"
		}
		excerpt := res.ev
		if len(excerpt) > 60 {
			excerpt = excerpt[:60]
		}
		// at most 40 findings per signature, so that the recorded ones never crowd out a new one
		failCount[end+"/"+trig]++
		if failCount[end+"/"+trig] <= 40 {
			r.Fail(end, fmt.Sprintf("%s: trace=%v", res.c.line(), excerpt),
				map[string]string{"api": "kvstore.BatchedWriter", "oracle": end, "trigger": trig})
		}
		r.Count("finding:" + end + "/" + trig)
	}
	r.Sample(r.CaseLines())

	return end != ""
}

// Failure budget: a broken writer makes every affected case wait for its (generous) time-out bound, so once there
// are plenty of failing cases the remaining ones are skipped: after `hangBudget` cases with a call that never
// returned (each of them costs a full bound) or `failBudget` failing cases of any kind.  On the unchanged tree
// nothing fails, so the bounds themselves can stay generous.
var failedCases, hungCases atomic.Int64

const hangBudget = 6
const failBudget = 40

func budgetSpent() bool {
	return hungCases.Load() >= hangBudget || failedCases.Load() >= failBudget
}

// phaseMs: wall time per scenario kind (milliseconds), written to stats.json (`extra.phase_ms`)
var phaseMs = map[string]int64{}

func runBatch(r *hx.Run, cs []cfg, par int) {
	if len(cs) > 0 {
		t0 := time.Now()
		defer func() {
			phaseMs[cs[0].kind] += time.Since(t0).Milliseconds()
			r.Extra["phase_ms"] = phaseMs
		}()
	}
	res := make([]result, len(cs))
	ran := make([]bool, len(cs))
	sem := make(chan struct{}, par)
	var wg sync.WaitGroup
	for i, c := range cs {
		if budgetSpent() {
			r.Count("skipped-after-many-failures")

			continue
		}
		wg.Add(1)
		sem <- struct{}{}
		go func(i int, c cfg) {
			defer wg.Done()
			defer func() { <-sem }()
			t0 := time.Now()
			ev, plog := run2(c)
			res[i] = result{c, ev, plog}
			ran[i] = true
			if _, _, _, end := judge(res[i].ev); end != "" {
				failedCases.Add(1)
				if end == "blocked-forever" || time.Since(t0) > 2*time.Second {
					// a call that never returned, or a failing case that waited long for progress that did not come
					hungCases.Add(1)
				}
			}
		}(i, c)
	}
	wg.Wait()
	for i := range res {
		if !ran[i] {
			continue
		}
		// the first failing stress case of each kind of failure is shrunk, and the smallest failing configuration
		// is emitted before it: it becomes the failing input of the replay
		if _, _, _, end := judge(res[i].ev); end != "" && res[i].c.kind == "stress" && !shrunk[end] && len(shrunk) < 3 {
			shrunk[end] = true
			if small, ok := shrink(res[i].c, end); ok {
				r.Count("shrunk-failing-case")
				emit(r, small.c.seed^0x9e3779b97f4a7c15, small)
			}
		}
		emit(r, res[i].c.seed, res[i])
	}
}

var shrunk = map[string]bool{}

// shrink looks for a smaller stress configuration that still fails the same oracle: fewer operations, producers,
// objects, Stop callers, no Flush, no hook yields, plain write mode.  A candidate counts when one of up to 20 runs
// fails the same way; at most ~25 s are spent.
func shrink(c cfg, want string) (result, bool) {
	deadline := time.Now().Add(25 * time.Second)
	best, found := result{c: c}, false
	try := func(cand cfg) bool {
		for i := 0; i < 20 && time.Now().Before(deadline); i++ {
			ev, plog := run2(cand)
			if _, _, _, end := judge(ev); end == want {
				best, found = result{cand, ev, plog}, true

				return true
			}
		}

		return false
	}
	for progress := true; progress && time.Now().Before(deadline); {
		progress = false
		b := best.c
		var cands []cfg
		if b.n > 1 {
			x := b
			x.n = b.n / 2
			x.stop = min(b.stop, x.p*x.n)
			cands = append(cands, x)
		}
		if b.p > 1 {
			x := b
			x.p--
			x.stop = min(b.stop, x.p*x.n)
			cands = append(cands, x)
		}
		if b.o > 1 {
			x := b
			x.o--
			cands = append(cands, x)
		}
		if b.ns > 1 {
			x := b
			x.ns--
			cands = append(cands, x)
		}
		if b.fl > 0 {
			x := b
			x.fl = 0
			cands = append(cands, x)
		}
		if b.hy > 0 {
			x := b
			x.hy = 0
			cands = append(cands, x)
		}
		if b.dm > 0 {
			x := b
			x.dm = 0
			cands = append(cands, x)
		}
		if b.stop > 0 {
			x := b
			x.stop = b.stop / 2
			cands = append(cands, x)
		}
		for _, cand := range cands {
			if try(cand) {
				progress = true

				break
			}
		}
	}

	return best, found
}

func b2i(b bool) int {
	if b {
		return 1
	}

	return 0
}

func main() {
	if l := os.Getenv("C08_BCORNER_CHILD"); l != "" {
		// child process of a `bcorner` case: run it, stream the events as they are recorded
		c, _ := parseCfg(l)
		streamEvents = true
		ev, plog := run1(c)
		_ = ev
		for p, l := range plog {
			fmt.Printf("PL %d %s\n", p, strings.Join(l, " "))
		}
		os.Exit(0)
	}
	r := hx.Start()
	r.MaxSamples = 2
	r.Rule = "forced schedules (Stop right after the first Enqueue; producers parked at the verif yield point or inside BatchWriteScheduled while Stop runs) and stress runs " +
		"(1-4 producers over 1-4 objects, Flush callers, 1-3 concurrent Stop callers racing the producers, queue/batch sizes 1..4, time-outs 1..50 ms); " +
		"a run is non-trivial when Stop was invoked and at least one object went through BatchWrite, commit and BatchWriteDone; distinct = distinct event-kind sequences"
	if lines := r.ReplayLines(); lines != nil {
		for _, l := range lines {
			if c, ok := parseCfg(l); ok {
				var res result
				for i := 0; i < 300; i++ {
					ev, plog := run2(c)
					res = result{c, ev, plog}
					if _, _, _, end := judge(res.ev); end != "" {
						break
					}
				}
				emit(r, c.seed, res)

				break
			}
		}
		r.Finish()

		return
	}
	par := runtime.NumCPU()
	if par > 8 {
		par = 8
	}
	if runtime.GOMAXPROCS(0) < 8 {
		runtime.GOMAXPROCS(8)
	}
	timeouts := []int{1, 2, 5, 10, 20, 50}
	// batch time-out kinds: mostly plain milliseconds; the corner values negative / 0 / 1ns; now and then large
	pickTk := func(rng *hx.Rng) int {
		switch x := rng.Intn(100); {
		case x < 8:
			return 1
		case x < 16:
			return 2
		case x < 24:
			return 3
		case x < 26:
			return 4
		}

		return 0
	}
	// batch sizes 1, 2, 3, 4 and the default (option not passed: 10000)
	pickB := func(rng *hx.Rng) int {
		if rng.Chance(1, 6) {
			return 0
		}

		return rng.Range(1, 4)
	}
	var forced []cfg
	for i := 0; i < 150*r.Scale; i++ {
		rng, s := r.Rng.Fork()
		forced = append(forced, cfg{kind: "stop-after-first", q: 1 + i%4, b: pickB(rng), t: timeouts[i%3], tk: pickTk(rng), p: 1, o: 1, n: 1,
			uq: b2i(i%6 == 5), seed: s})
	}
	runBatch(r, forced, 4)
	forced = forced[:0]
	for i := 0; i < 12*r.Scale; i++ {
		rng, s := r.Rng.Fork()
		forced = append(forced, cfg{kind: "window", q: 1 + i%4, b: 1 + (i/4)%4, t: timeouts[i%3], tk: pickTk(rng) % 4, p: 1, o: 1, n: 1,
			uq: b2i(i%3 == 2), seed: s})
		rng, s = r.Rng.Fork()
		forced = append(forced, cfg{kind: "window-dup", q: 1 + i%4, b: 1 + (i/4)%4, t: timeouts[i%3], tk: pickTk(rng) % 4, p: 2, o: 1, n: 1,
			uq: b2i(i%3 == 1), seed: s})
	}
	for i := 0; i < 12*r.Scale; i++ {
		rng, s := r.Rng.Fork()
		forced = append(forced, cfg{kind: "two-stops", q: 1 + i%4, b: 1 + (i/4)%4, t: timeouts[i%3], tk: pickTk(rng) % 4, p: 1, o: 1, n: 1, ns: 2,
			uq: b2i(i%3 == 0), seed: s})
	}
	for i := 0; i < 2; i++ {
		_, s := r.Rng.Fork()
		forced = append(forced, cfg{kind: "two-stops", q: 1 + i, b: 1, t: 5, p: 1, o: 1, n: 1, ns: 2, hy: 1200, seed: s})
	}
	// flushes: spanning several batches (n objects queued behind a held BatchWrite, batch size b < n), and pending
	// while Stop clears `running` (open batch)
	for i := 0; i < 18*r.Scale; i++ {
		rng, s := r.Rng.Fork()
		b := 1 + i%3
		n := rng.Range(b+1, 3*b+1)
		forced = append(forced, cfg{kind: "flush-span", q: n, b: b, t: 600, p: 1, o: n, n: n, fl: 1, seed: s})
	}
	for i := 0; i < 12*r.Scale; i++ {
		_, s := r.Rng.Fork()
		forced = append(forced, cfg{kind: "flush-stop", q: 1 + i%4, b: []int{2, 3, 4, 0}[(i/4)%4], t: []int{5, 50, 300}[i%3], p: 1, o: 1, n: 1, fl: 1, seed: s})
	}
	for q := 1; q <= 2; q++ {
		_, s := r.Rng.Fork()
		forced = append(forced, cfg{kind: "window-block", q: q, b: 1, t: 1, p: q + 1, o: q + 1, n: 1, seed: s})
	}
	runBatch(r, forced, 4)
	// batch sizes 0, -1 and math.MinInt, each in a child process
	forced = forced[:0]
	for i := 0; i < 6*r.Scale; i++ {
		_, s := r.Rng.Fork()
		forced = append(forced, cfg{kind: "bcorner", q: 1 + i%3, bk: 1 + i%3, t: 5, p: 1, o: 2, n: 3, fl: 1, uq: b2i(i%6 == 5), seed: s})
	}
	runBatch(r, forced, 6)
	// a store whose k-th Commit() / Batched() fails, each in a child process: the writer goroutine's panic must end
	// the process before any BatchWriteDone of the failed batch, any further commit or any return of Stop
	forced = forced[:0]
	for i := 0; i < 18*r.Scale; i++ {
		rng, s := r.Rng.Fork()
		b := 1 + i%3
		n := rng.Range(2*b+1, 3*b+1)
		forced = append(forced, cfg{kind: "store-fail", q: n, b: b, t: 600, p: 1, o: n, n: n, fl: 1, fk: 1 + (i/3)%2, fa: 1 + (i/6)%3, seed: s})
	}
	runBatch(r, forced, 6)
	// same-batch: every sequence of two write modes, and random ones of length 3..5, re-enqueued into one batch
	forced = forced[:0]
	var mds []string
	for a := 0; a < 4; a++ {
		for b := 0; b < 4; b++ {
			mds = append(mds, fmt.Sprintf("%d%d", a, b))
		}
	}
	for i := 0; i < 32*r.Scale; i++ {
		md := ""
		for k, n := 0, r.Rng.Range(3, 5); k < n; k++ {
			md += strconv.Itoa(r.Rng.Intn(4))
		}
		mds = append(mds, md)
	}
	for i, md := range mds {
		rng, s := r.Rng.Fork()
		c := cfg{kind: "same-batch", q: rng.Range(1, 4), b: 0, t: 50, p: 1, o: 1, n: len(md), md: md, fl: i % 2, seed: s}
		switch i % 4 {
		case 2:
			c.b = len(md) // the batch-size trigger commits it
		case 3:
			c.b = len(md) + 1
			c.uq = 1
		}
		forced = append(forced, c)
	}
	runBatch(r, forced, 8)
	// first Enqueue || Stop (|| second Enqueue) on thousands of fresh writers, two at a time so that the
	// barrier-released calls really run in parallel
	races := 3000
	if r.Scale > 1 {
		races = 30000
	}
	forced = forced[:0]
	for i := 0; i < races; i++ {
		_, s := r.Rng.Fork()
		forced = append(forced, cfg{kind: "first-race", q: 1 + i%2, b: 1 + (i/2)%2, t: 1, tk: (i / 4) % 4, p: 1 + (i/16)%2, o: 2, n: 1, fin: 1,
			sk: i % 96, uq: b2i(i%5 == 4), seed: s})
		if len(forced) == 500 || i == races-1 {
			runBatch(r, forced, 2)
			forced = forced[:0]
		}
	}
	n := 2500
	if r.Scale > 1 {
		n = 30000
	}
	var cs []cfg
	for i := 0; i < n; i++ {
		rng, s := r.Rng.Fork()
		c := cfg{kind: "stress", q: rng.Range(1, 4), b: pickB(rng), t: hx.Pick(rng, timeouts), tk: pickTk(rng), p: rng.Range(1, 4),
			o: rng.Range(1, 4), n: rng.Range(1, 12), fin: 1, seed: s}
		if rng.Chance(1, 8) {
			c.q = 0 // default queue size (option not passed)
		} else if rng.Chance(1, 6) {
			c.uq = 1 // WithQueueSize(0): unbuffered
		}
		if rng.Chance(1, 2) {
			c.dm = 1
		}
		if rng.Chance(1, 2) {
			c.fl = rng.Range(1, 4)
		}
		c.stop = rng.Intn(c.p*c.n + 1)
		if rng.Chance(1, 3) {
			c.hy = rng.Range(50, 600)
		}
		c.ns = 1
		if rng.Chance(1, 2) {
			c.ns = rng.Range(2, 3)
		}
		if c.t >= 20 && rng.Chance(2, 3) {
			c.t = hx.Pick(rng, timeouts[:4])
		}
		cs = append(cs, c)
		if len(cs) == 200 || i == n-1 {
			runBatch(r, cs, par)
			cs = cs[:0]
		}
	}
	r.Finish()
}
