// collgen translates kvstore/batch_collector.go (go/ast) into terms of the small language `Hive.BatchWriter.Coll.S`
// (lean/Hive/Model/BatchWriterColl.lean): newBatchCollector, BatchCollector.Add, BatchCollector.Commit, and the list of
// all methods of *BatchCollector.  Anything it does not recognise becomes `.unsupported "<source text>"`, which no
// theorem about the generated terms survives.
//
//	collgen <out.lean> <LeanNamespace> <path/to/batch_collector.go>
package main

import (
	"bytes"
	"fmt"
	"go/ast"
	"go/parser"
	"go/printer"
	"go/token"
	"os"
	"sort"
	"strconv"
	"strings"
)

var fset = token.NewFileSet()

func raw(n ast.Node) string {
	var b bytes.Buffer
	printer.Fprint(&b, fset, n)

	return strings.Join(strings.Fields(b.String()), " ")
}

func q(s string) string { return strconv.Quote(s) }

type tr struct {
	recv string // receiver name (br)
	obj  string // the object parameter of Add
}

// integer expressions
func (t *tr) expr(e ast.Expr) string {
	switch x := e.(type) {
	case *ast.ParenExpr:
		return t.expr(x.X)
	case *ast.BasicLit:
		if x.Kind == token.INT {
			return "(.lit " + x.Value + ")"
		}
	case *ast.UnaryExpr:
		if x.Op == token.SUB {
			if l, ok := x.X.(*ast.BasicLit); ok && l.Kind == token.INT {
				return "(.lit (-" + l.Value + "))"
			}
		}
	case *ast.SelectorExpr:
		if id, ok := x.X.(*ast.Ident); ok && id.Name == t.recv {
			switch x.Sel.Name {
			case "writtenValuesCounter":
				return ".counter"
			case "batchSize":
				return ".batchSize"
			}
		}
	case *ast.Ident:
		if x.Name == "batchSize" {
			return ".param" // the batchSize parameter of newBatchCollector
		}
	case *ast.CallExpr:
		if id, ok := x.Fun.(*ast.Ident); ok && len(x.Args) == 1 && id.Name == "len" && raw(x.Args[0]) == t.recv+".writtenValues" {
			return ".len"
		}
		if id, ok := x.Fun.(*ast.Ident); ok && len(x.Args) == 2 && id.Name == "max" {
			return "(.max " + t.expr(x.Args[0]) + " " + t.expr(x.Args[1]) + ")"
		}
	}

	return "(.unsupported " + q(raw(e)) + ")"
}

var cmp = map[token.Token]string{token.GEQ: "ge", token.GTR: "gt", token.LEQ: "le", token.LSS: "lt", token.EQL: "eq", token.NEQ: "ne"}

func (t *tr) cond(e ast.Expr) string {
	switch x := e.(type) {
	case *ast.ParenExpr:
		return t.cond(x.X)
	case *ast.SelectorExpr:
		if raw(x) == t.recv+".committed" {
			return ".committed"
		}
	case *ast.UnaryExpr:
		if x.Op == token.NOT {
			return "(.not " + t.cond(x.X) + ")"
		}
	case *ast.BinaryExpr:
		if raw(x) == "err != nil" {
			return ".errNotNil"
		}
		if c, ok := cmp[x.Op]; ok {
			return "(." + c + " " + t.expr(x.X) + " " + t.expr(x.Y) + ")"
		}
	}

	return "(.unsupported " + q(raw(e)) + ")"
}

func (t *tr) list(ss []ast.Stmt) string {
	var out []string
	for _, s := range ss {
		out = append(out, t.stmt(s))
	}

	return "[" + strings.Join(out, ", ") + "]"
}

func (t *tr) call(c *ast.CallExpr) (string, bool) {
	f := raw(c.Fun)
	switch {
	case f == t.obj+".ResetBatchWriteScheduled" && len(c.Args) == 0 && t.obj != "":
		return ".reset", true
	case f == t.obj+".BatchWrite" && len(c.Args) == 1 && raw(c.Args[0]) == t.recv+".batchedMuts" && t.obj != "":
		return ".write", true
	case f == t.recv+".scheduledCount.Add" && len(c.Args) == 1:
		return "(.countAdd " + t.expr(c.Args[0]) + ")", true
	case f == t.recv+".batchedMuts.Cancel" && len(c.Args) == 0:
		return ".cancel", true
	case f == "panic":
		return ".panic", true
	}

	return "", false
}

func (t *tr) stmt(s ast.Stmt) string {
	un := func() string { return "(.unsupported " + q(raw(s)) + ")" }
	switch x := s.(type) {
	case *ast.ExprStmt:
		if c, ok := x.X.(*ast.CallExpr); ok {
			if r, ok := t.call(c); ok {
				return r
			}
		}
	case *ast.IncDecStmt:
		if raw(x.X) == t.recv+".writtenValuesCounter" && x.Tok == token.INC {
			return ".incCounter"
		}
	case *ast.AssignStmt:
		if len(x.Lhs) == 1 && len(x.Rhs) == 1 && x.Tok == token.ASSIGN {
			l := raw(x.Lhs[0])
			switch {
			case l == t.recv+".committed" && (raw(x.Rhs[0]) == "true" || raw(x.Rhs[0]) == "false"):
				return "(.setCommitted " + raw(x.Rhs[0]) + ")"
			case l == t.recv+".writtenValuesCounter":
				return "(.setCounter " + t.expr(x.Rhs[0]) + ")"
			case l == t.recv+".writtenValues" && raw(x.Rhs[0]) == "append("+t.recv+".writtenValues, "+t.obj+")" && t.obj != "":
				return ".append"
			case l == t.recv+".writtenValues" && raw(x.Rhs[0]) == t.recv+".writtenValues[:0]":
				return ".truncate"
			}
		}
		// err := br.batchedMuts.Commit()
		if len(x.Lhs) == 1 && len(x.Rhs) == 1 && x.Tok == token.DEFINE && raw(x.Lhs[0]) == "err" && raw(x.Rhs[0]) == t.recv+".batchedMuts.Commit()" {
			return ".commit"
		}
	case *ast.IfStmt:
		pre := "[]"
		if x.Init != nil {
			pre = "[" + t.stmt(x.Init) + "]"
		}
		els := "[]"
		if x.Else != nil {
			if b, ok := x.Else.(*ast.BlockStmt); ok {
				els = t.list(b.List)
			} else {
				els = "[" + t.stmt(x.Else) + "]"
			}
		}

		return "(.ite " + pre + " " + t.cond(x.Cond) + " " + t.list(x.Body.List) + " " + els + ")"
	case *ast.RangeStmt:
		// for i := range <int expr> { br.writtenValues[i].BatchWriteDone() }
		if x.Key != nil && x.Value == nil && x.Tok == token.DEFINE && len(x.Body.List) == 1 &&
			raw(x.Body.List[0]) == t.recv+".writtenValues["+raw(x.Key)+"].BatchWriteDone()" {
			return "(.doneRange " + t.expr(x.X) + ")"
		}
	case *ast.ReturnStmt:
		if len(x.Results) == 1 {
			switch r := raw(x.Results[0]); r {
			case "nil":
				return ".retNil"
			case "err":
				return ".retErr"
			default:
				return "(.retB " + t.cond(x.Results[0]) + ")"
			}
		}
	}

	return un()
}

// the composite literal of newBatchCollector: field initialisers, in source order
func (t *tr) newLit(fn *ast.FuncDecl) string {
	if len(fn.Body.List) == 1 {
		if r, ok := fn.Body.List[0].(*ast.ReturnStmt); ok && len(r.Results) == 1 {
			if u, ok := r.Results[0].(*ast.UnaryExpr); ok && u.Op == token.AND {
				if cl, ok := u.X.(*ast.CompositeLit); ok && raw(cl.Type) == "BatchCollector" {
					var out []string
					for _, el := range cl.Elts {
						kv, ok := el.(*ast.KeyValueExpr)
						if !ok {
							return "[(.unsupported " + q(raw(el)) + ")]"
						}
						k, v := raw(kv.Key), raw(kv.Value)
						switch {
						case k == "batchedMuts" && v == "batchedMuts", k == "scheduledCount" && v == "scheduledCount":
							// the collector's mutations / the writer's counter: passed through
						case k == "batchSize":
							out = append(out, "(.setBatchSize "+t.expr(kv.Value)+")")
						case k == "writtenValuesCounter":
							out = append(out, "(.setCounter "+t.expr(kv.Value)+")")
						case k == "committed" && (v == "true" || v == "false"):
							out = append(out, "(.setCommitted "+v+")")
						case k == "writtenValues":
							// make([]BatchWriteObject, <len>, <cap>)
							if c, ok := kv.Value.(*ast.CallExpr); ok && raw(c.Fun) == "make" && len(c.Args) == 3 && raw(c.Args[0]) == "[]BatchWriteObject" {
								out = append(out, "(.makeVals "+t.expr(c.Args[1])+" "+t.expr(c.Args[2])+")")
							} else {
								out = append(out, "(.unsupported "+q(raw(el))+")")
							}
						default:
							out = append(out, "(.unsupported "+q(raw(el))+")")
						}
					}

					return "[" + strings.Join(out, ", ") + "]"
				}
			}
		}
	}

	return "[(.unsupported " + q(raw(fn.Body)) + ")]"
}

func main() {
	if len(os.Args) != 4 {
		fmt.Fprintln(os.Stderr, "usage: collgen <out.lean> <namespace> <batch_collector.go>")
		os.Exit(2)
	}
	f, err := parser.ParseFile(fset, os.Args[3], nil, 0)
	if err != nil {
		fmt.Fprintln(os.Stderr, err)
		os.Exit(1)
	}
	var b strings.Builder
	fmt.Fprintf(&b, "import Hive.Model.BatchWriterColl\n/-! GENERATED by harness/c08/collgen — kvstore/batch_collector.go as terms of `Hive.BatchWriter.Coll.S`; do not edit. -/\nnamespace %s\nopen Hive.BatchWriter.Coll\n\n", os.Args[2])
	var methods []string
	defs := map[string]string{}
	for _, d := range f.Decls {
		fn, ok := d.(*ast.FuncDecl)
		if !ok || fn.Body == nil {
			continue
		}
		if fn.Recv == nil {
			if fn.Name.Name == "newBatchCollector" {
				t := &tr{recv: "\x00"}
				defs["fn_newBatchCollector"] = t.newLit(fn)
			}

			continue
		}
		if len(fn.Recv.List) != 1 || raw(fn.Recv.List[0].Type) != "*BatchCollector" && raw(fn.Recv.List[0].Type) != "BatchCollector" {
			continue
		}
		methods = append(methods, fn.Name.Name)
		t := &tr{}
		if len(fn.Recv.List[0].Names) == 1 {
			t.recv = fn.Recv.List[0].Names[0].Name
		}
		switch fn.Name.Name {
		case "Add":
			if fn.Type.Params != nil && len(fn.Type.Params.List) == 1 && len(fn.Type.Params.List[0].Names) == 1 {
				t.obj = fn.Type.Params.List[0].Names[0].Name
			}
			defs["fn_Add"] = t.list(fn.Body.List)
		case "Commit":
			defs["fn_Commit"] = t.list(fn.Body.List)
		}
	}
	sort.Strings(methods)
	var qm []string
	for _, m := range methods {
		qm = append(qm, q(m))
	}
	fmt.Fprintf(&b, "/-- every method declared on BatchCollector -/\ndef methods : List String := [%s]\n\n", strings.Join(qm, ", "))
	for _, name := range []string{"fn_newBatchCollector", "fn_Add", "fn_Commit"} {
		body, ok := defs[name]
		if !ok {
			body = "[(.unsupported \"function not found\")]"
		}
		fmt.Fprintf(&b, "def %s : List S :=\n  %s\n\n", name, body)
	}
	fmt.Fprintf(&b, "end %s\n", os.Args[2])
	if err := os.WriteFile(os.Args[1], []byte(b.String()), 0o644); err != nil {
		fmt.Fprintln(os.Stderr, err)
		os.Exit(1)
	}
}
